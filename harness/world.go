// Package harness drives the real terra-money/alliance application (real bank,
// staking, distribution) and records, in the integer line format of
// coq/theories/IO.v, every operation executed and the state observed after it.
package harness

import (
	"bufio"
	"fmt"
	"math/big"
	"sort"
	"strings"
	"testing"
	"time"

	"cosmossdk.io/math"
	storetypes "cosmossdk.io/store/types"
	"github.com/cosmos/cosmos-sdk/crypto/keys/ed25519"
	"github.com/cosmos/cosmos-sdk/runtime"
	sdk "github.com/cosmos/cosmos-sdk/types"
	authtypes "github.com/cosmos/cosmos-sdk/x/auth/types"
	distrtypes "github.com/cosmos/cosmos-sdk/x/distribution/types"
	minttypes "github.com/cosmos/cosmos-sdk/x/mint/types"
	teststaking "github.com/cosmos/cosmos-sdk/x/staking/testutil"
	stakingtypes "github.com/cosmos/cosmos-sdk/x/staking/types"

	"github.com/terra-money/alliance/app"
	"github.com/terra-money/alliance/x/alliance/keeper"
	"github.com/terra-money/alliance/x/alliance/types"
)

// identifiers shared with the model (Model.v)
const (
	AccAlliance  = 1
	AccRewards   = 2
	AccFee       = 3
	AccBonded    = 4
	AccNotBonded = 5
	Authority    = 7
	GenValID     = 9
	ValBase      = 10
	UserBase     = 100
	BondDenomID  = 9
)

// denominations: identifier order = string order; alliance denoms have equal length
var denomNames = map[int64]string{1: "aaa", 2: "bbb", 3: "ccc", 8: "rwd", 9: "stake"}
var denomIDs = map[string]int64{"aaa": 1, "bbb": 2, "ccc": 3, "rwd": 8, "stake": 9}
var trackedDenoms = []int64{1, 2, 3, 8, 9}

const zeroTimeNs = "-62135596800000000000"

type World struct {
	T      *testing.T
	App    *app.App
	Ctx    sdk.Context
	Vals   []sdk.ValAddress
	Cons   []sdk.ConsAddress
	Users  []sdk.AccAddress
	GenVal sdk.ValAddress
	valID  map[string]int64
	accID  map[string]int64
	Out    *bufio.Writer
	Msg    types.MsgServer
	Query  types.QueryServer

	prevBank   map[[2]int64]string
	prevSupply map[int64]string
	prevStatus map[int64]int
	Monitors   []string // harness-side monitor failures ("<property> <text>")
	Halted     bool
	NSteps     int
	HistID     string
	LastErr    string
	LastEvents string
	Profile    string
}

func mkAddr(class byte, id int64) []byte {
	b := make([]byte, 20)
	b[0] = class
	b[18] = byte(id >> 8)
	b[19] = byte(id)
	return b
}

func (w *World) ValAddr(id int64) sdk.ValAddress {
	if id == GenValID {
		return w.GenVal
	}
	i := int(id - ValBase)
	if i >= 0 && i < len(w.Vals) {
		return w.Vals[i]
	}
	// an address no validator has
	return sdk.ValAddress(mkAddr(0x7f, id))
}

func (w *World) AccAddr(id int64) sdk.AccAddress {
	switch id {
	case Authority:
		a, _ := sdk.AccAddressFromBech32(w.App.AllianceKeeper.GetAuthority())
		return a
	case AccAlliance:
		return authtypes.NewModuleAddress(types.ModuleName)
	case AccRewards:
		return authtypes.NewModuleAddress(types.RewardsPoolName)
	case AccFee:
		return authtypes.NewModuleAddress(authtypes.FeeCollectorName)
	case AccBonded:
		return authtypes.NewModuleAddress(stakingtypes.BondedPoolName)
	case AccNotBonded:
		return authtypes.NewModuleAddress(stakingtypes.NotBondedPoolName)
	}
	i := int(id - UserBase)
	if i >= 0 && i < len(w.Users) {
		return w.Users[i]
	}
	return sdk.AccAddress(mkAddr(0x7e, id))
}

func (w *World) idOfVal(a []byte) int64 {
	if id, ok := w.valID[string(a)]; ok {
		return id
	}
	return -1
}
func (w *World) idOfAcc(a []byte) int64 {
	if id, ok := w.accID[string(a)]; ok {
		return id
	}
	return -1
}
func (w *World) idOfValBech(s string) int64 {
	a, err := sdk.ValAddressFromBech32(s)
	if err != nil {
		return -1
	}
	return w.idOfVal(a)
}
func (w *World) idOfAccBech(s string) int64 {
	a, err := sdk.AccAddressFromBech32(s)
	if err != nil {
		return -1
	}
	return w.idOfAcc(a)
}

func denomID(s string) int64 {
	if id, ok := denomIDs[s]; ok {
		return id
	}
	return -2
}
func denomName(id int64) string {
	if s, ok := denomNames[id]; ok {
		return s
	}
	if id < 0 {
		return ""
	}
	return fmt.Sprintf("zz%d", id) // a valid denom nobody whitelisted
}

func decStr(d math.LegacyDec) string {
	if d.IsNil() {
		return "0"
	}
	return d.BigInt().String()
}
func intStr(i math.Int) string {
	if i.IsNil() {
		return "0"
	}
	return i.BigInt().String()
}
func timeStr(t time.Time) string {
	if t.Equal(time.Time{}) {
		return zeroTimeNs
	}
	// UnixNano is exact inside 1678..2262; the generator stays inside
	s := big.NewInt(t.Unix())
	s.Mul(s, big.NewInt(1000000000))
	s.Add(s, big.NewInt(int64(t.Nanosecond())))
	return s.String()
}
func nsToTime(ns int64) time.Time { return time.Unix(0, ns).UTC() }

// Setup builds the real application with nVals validators (created through real
// staking state with a native self-delegation) and nUsers funded users.
func Setup(t *testing.T, out *bufio.Writer, nVals, nUsers int, startNs int64, unbonding time.Duration, fund map[int64]string) *World {
	a := app.Setup(t)
	ctx := a.BaseApp.NewContext(false).WithBlockTime(nsToTime(startNs)).WithBlockHeight(2)
	w := &World{T: t, App: a, Ctx: ctx, Out: out, valID: map[string]int64{}, accID: map[string]int64{},
		prevBank: map[[2]int64]string{}, prevSupply: map[int64]string{}, prevStatus: map[int64]int{}}
	w.Msg = keeper.NewMsgServerImpl(a.AllianceKeeper)
	w.Query = keeper.NewQueryServerImpl(a.AllianceKeeper)

	// the validator of the genesis validator set
	vs, err := a.StakingKeeper.GetAllValidators(ctx)
	if err != nil || len(vs) != 1 {
		t.Fatalf("expected one genesis validator: %v", err)
	}
	gv, _ := sdk.ValAddressFromBech32(vs[0].GetOperator())
	w.GenVal = gv
	w.valID[string(gv)] = GenValID

	sp, _ := a.StakingKeeper.GetParams(ctx)
	sp.UnbondingTime = unbonding
	sp.MaxValidators = 100
	if err := a.StakingKeeper.SetParams(ctx, sp); err != nil {
		t.Fatal(err)
	}

	for i := 0; i < nUsers; i++ {
		id := int64(UserBase + i)
		addr := sdk.AccAddress(mkAddr(0x20, id))
		w.Users = append(w.Users, addr)
		w.accID[string(addr)] = id
		coins := sdk.NewCoins()
		for d, amt := range fund {
			n, _ := math.NewIntFromString(amt)
			coins = coins.Add(sdk.NewCoin(denomName(d), n))
		}
		w.mintTo(addr, coins)
	}
	// Module accounts exist on a running chain.  (Observed: a plain transfer to the not-yet-created
	// custody address creates a BaseAccount there, after which every SendCoinsFromAccountToModule
	// panics "account is not a module account"; outside the given properties, see DESIGN.md.)
	a.AccountKeeper.GetModuleAccount(ctx, types.ModuleName)
	a.AccountKeeper.GetModuleAccount(ctx, types.RewardsPoolName)
	for _, id := range []int64{AccAlliance, AccRewards, AccFee, AccBonded, AccNotBonded, Authority} {
		w.accID[string(w.AccAddr(id))] = id
	}

	for i := 0; i < nVals; i++ {
		id := int64(ValBase + i)
		valAddr := sdk.ValAddress(mkAddr(0x10, id))
		w.Vals = append(w.Vals, valAddr)
		w.valID[string(valAddr)] = id
		seed := make([]byte, 32)
		seed[0] = byte(id)
		seed[1] = 0x77
		pk := ed25519.GenPrivKeyFromSecret(seed).PubKey()
		v := teststaking.NewValidator(t, valAddr, pk)
		v.Commission = stakingtypes.NewCommission(math.LegacyZeroDec(), math.LegacyZeroDec(), math.LegacyZeroDec())
		v.MinSelfDelegation = math.OneInt()
		if err := a.StakingKeeper.SetValidator(ctx, v); err != nil {
			t.Fatal(err)
		}
		if err := a.StakingKeeper.SetValidatorByConsAddr(ctx, v); err != nil {
			t.Fatal(err)
		}
		if err := a.StakingKeeper.SetNewValidatorByPowerIndex(ctx, v); err != nil {
			t.Fatal(err)
		}
		if err := a.StakingKeeper.Hooks().AfterValidatorCreated(ctx, valAddr); err != nil {
			t.Fatal(err)
		}
		cons, _ := v.GetConsAddr()
		w.Cons = append(w.Cons, cons)
		// native self-delegation by a dedicated (untracked) account
		self := sdk.AccAddress(valAddr)
		stake := math.NewInt(int64(1000000 * (i + 2)))
		w.mintTo(self, sdk.NewCoins(sdk.NewCoin("stake", stake)))
		if _, err := a.StakingKeeper.Delegate(ctx, self, stake, stakingtypes.Unbonded, v, true); err != nil {
			t.Fatal(err)
		}
	}
	// one staking end-of-block so that bond status, power index and LastValidatorPower are real
	if _, err := a.StakingKeeper.EndBlocker(ctx); err != nil {
		t.Fatal(err)
	}
	return w
}

func (w *World) mintTo(addr sdk.AccAddress, coins sdk.Coins) {
	if coins.Empty() {
		return
	}
	if err := w.App.BankKeeper.MintCoins(w.Ctx, minttypes.ModuleName, coins); err != nil {
		w.T.Fatal(err)
	}
	if err := w.App.BankKeeper.SendCoinsFromModuleToAccount(w.Ctx, minttypes.ModuleName, addr, coins); err != nil {
		w.T.Fatal(err)
	}
}

func (w *World) fundDistribution(coins sdk.Coins) {
	if err := w.App.BankKeeper.MintCoins(w.Ctx, minttypes.ModuleName, coins); err != nil {
		w.T.Fatal(err)
	}
	if err := w.App.BankKeeper.SendCoinsFromModuleToModule(w.Ctx, minttypes.ModuleName, distrtypes.ModuleName, coins); err != nil {
		w.T.Fatal(err)
	}
}

// ---------------------------------------------------------------- state dump

type kv struct{ k, v []byte }

func (w *World) rawPrefix(ctx sdk.Context, prefix []byte) []kv {
	st := runtime.KVStoreAdapter(w.App.AllianceKeeper.StoreService().OpenKVStore(ctx))
	it := storetypes.KVStorePrefixIterator(st, prefix)
	defer it.Close()
	var out []kv
	for ; it.Valid(); it.Next() {
		k := append([]byte{}, it.Key()...)
		v := append([]byte{}, it.Value()...)
		out = append(out, kv{k, v})
	}
	return out
}

// splits a key (after its one-byte prefix) into length-prefixed components
func lpParts(b []byte) [][]byte {
	var parts [][]byte
	for len(b) > 0 {
		n := int(b[0])
		if 1+n > len(b) {
			parts = append(parts, b[1:])
			break
		}
		parts = append(parts, b[1:1+n])
		b = b[1+n:]
	}
	return parts
}

func denomOfKeyPart(p []byte) int64 { // CreateDenomAddressPrefix: denom + 0x00
	if len(p) > 0 && p[len(p)-1] == 0 {
		p = p[:len(p)-1]
	}
	return denomID(string(p))
}

func timeOfBytes(b []byte) string {
	t, err := sdk.ParseTimeBytes(b)
	if err != nil {
		return "-1"
	}
	return timeStr(t)
}

func (w *World) rhs(r []types.RewardHistory) string {
	var sb strings.Builder
	fmt.Fprintf(&sb, "%d", len(r))
	for _, h := range r {
		al := int64(-1)
		if h.Alliance != "" {
			al = denomID(h.Alliance)
		}
		fmt.Fprintf(&sb, " %d %d %s", denomID(h.Denom), al, decStr(h.Index))
	}
	return sb.String()
}

func decCoins(c []sdk.DecCoin) string {
	var sb strings.Builder
	fmt.Fprintf(&sb, "%d", len(c))
	for _, x := range c {
		fmt.Fprintf(&sb, " %d %s", denomID(x.Denom), decStr(x.Amount))
	}
	return sb.String()
}

func b2i(b bool) int {
	if b {
		return 1
	}
	return 0
}

func assetLine(a types.AllianceAsset) string {
	return fmt.Sprintf("%d %s %s %s %s %s %s %s %s %d %s %d", denomID(a.Denom), decStr(a.RewardWeight),
		decStr(a.RewardWeightRange.Min), decStr(a.RewardWeightRange.Max), decStr(a.TakeRate), intStr(a.TotalTokens),
		decStr(a.TotalValidatorShares), timeStr(a.RewardStartTime), decStr(a.RewardChangeRate),
		int64(a.RewardChangeInterval), timeStr(a.LastRewardChangeTime), b2i(a.IsInitialized))
}

// DumpState returns the canonical state lines (IO.print_state format), read from
// the raw KV records of the alliance store and from bank / staking.
func (w *World) DumpState(ctx sdk.Context) []string {
	k := w.App.AllianceKeeper
	cdc := w.App.AppCodec()
	var L []string
	// 1: flag + params (raw)
	flag := len(w.rawPrefix(ctx, types.AssetRebalanceQueueKey)) > 0
	p := k.GetParams(ctx)
	L = append(L, fmt.Sprintf("1 %d %d %d %s", b2i(flag), int64(p.RewardDelayTime), int64(p.TakeRateClaimInterval), timeStr(p.LastTakeRateClaimTime)))
	for _, e := range w.rawPrefix(ctx, types.AssetKey) {
		var a types.AllianceAsset
		cdc.MustUnmarshal(e.v, &a)
		L = append(L, "2 "+assetLine(a))
	}
	for _, e := range w.rawPrefix(ctx, types.ValidatorInfoKey) {
		var vi types.AllianceValidatorInfo
		cdc.MustUnmarshal(e.v, &vi)
		parts := lpParts(e.k[1:])
		L = append(L, fmt.Sprintf("3 %d %s %s %s", w.idOfVal(parts[0]), w.rhs(vi.GlobalRewardHistory),
			decCoins(vi.TotalDelegatorShares), decCoins(vi.ValidatorShares)))
	}
	for _, e := range w.rawPrefix(ctx, types.DelegationKey) {
		var d types.Delegation
		cdc.MustUnmarshal(e.v, &d)
		parts := lpParts(e.k[1:])
		L = append(L, fmt.Sprintf("4 %d %d %d %s %d %s", w.idOfAcc(parts[0]), w.idOfVal(parts[1]), denomOfKeyPart(parts[2]),
			decStr(d.Shares), d.LastRewardClaimHeight, w.rhs(d.RewardHistory)))
	}
	for _, e := range w.rawPrefix(ctx, types.RedelegationKey) {
		var r types.Redelegation
		cdc.MustUnmarshal(e.v, &r)
		// key: del | denom | dst | time(raw, not length prefixed)
		b := e.k[1:]
		n := int(b[0])
		del := b[1 : 1+n]
		b = b[1+n:]
		n = int(b[0])
		dn := b[1 : 1+n]
		b = b[1+n:]
		n = int(b[0])
		dst := b[1 : 1+n]
		tb := b[1+n:]
		L = append(L, fmt.Sprintf("5 %d %d %d %s %d %d %d %d %s", w.idOfAcc(del), denomOfKeyPart(dn), w.idOfVal(dst), timeOfBytes(tb),
			w.idOfAccBech(r.DelegatorAddress), w.idOfValBech(r.SrcValidatorAddress), w.idOfValBech(r.DstValidatorAddress),
			denomID(r.Balance.Denom), intStr(r.Balance.Amount)))
	}
	for _, e := range w.rawPrefix(ctx, types.RedelegationQueueKey) {
		var q types.QueuedRedelegation
		cdc.MustUnmarshal(e.v, &q)
		var sb strings.Builder
		fmt.Fprintf(&sb, "6 %s %d", timeOfBytes(e.k[1:]), len(q.Entries))
		for _, r := range q.Entries {
			fmt.Fprintf(&sb, " %d %d %d %d %s", w.idOfAccBech(r.DelegatorAddress), w.idOfValBech(r.SrcValidatorAddress),
				w.idOfValBech(r.DstValidatorAddress), denomID(r.Balance.Denom), intStr(r.Balance.Amount))
		}
		L = append(L, sb.String())
	}
	for _, e := range w.rawPrefix(ctx, types.UndelegationQueueKey) {
		var q types.QueuedUndelegation
		cdc.MustUnmarshal(e.v, &q)
		parts := lpParts(e.k[1:])
		var sb strings.Builder
		fmt.Fprintf(&sb, "7 %s %d %d", timeOfBytes(parts[0]), w.idOfAcc(parts[1]), len(q.Entries))
		for _, u := range q.Entries {
			fmt.Fprintf(&sb, " %d %d %d %s", w.idOfAccBech(u.DelegatorAddress), w.idOfValBech(u.ValidatorAddress),
				denomID(u.Balance.Denom), intStr(u.Balance.Amount))
		}
		L = append(L, sb.String())
	}
	for _, e := range w.rawPrefix(ctx, types.RedelegationByValidatorIndexKey) {
		parts := lpParts(e.k[1:]) // src | time | denom | dst | del
		L = append(L, fmt.Sprintf("8 %d %s %d %d %d", w.idOfVal(parts[0]), timeOfBytes(parts[1]), denomOfKeyPart(parts[2]),
			w.idOfVal(parts[3]), w.idOfAcc(parts[4])))
	}
	for _, e := range w.rawPrefix(ctx, types.UndelegationByValidatorIndexKey) {
		parts := lpParts(e.k[1:]) // val | time | denom | del
		L = append(L, fmt.Sprintf("9 %d %s %d %d", w.idOfVal(parts[0]), timeOfBytes(parts[1]), denomOfKeyPart(parts[2]), w.idOfAcc(parts[3])))
	}
	for _, e := range w.rawPrefix(ctx, types.RewardWeightChangeSnapshotKey) {
		var s types.RewardWeightChangeSnapshot
		cdc.MustUnmarshal(e.v, &s)
		b := e.k[1:]
		n := int(b[0])
		dn := b[1 : 1+n]
		b = b[1+n:]
		n = int(b[0])
		val := b[1 : 1+n]
		h := sdk.BigEndianToUint64(b[1+n:])
		L = append(L, fmt.Sprintf("10 %d %d %d %s %s", denomOfKeyPart(dn), w.idOfVal(val), h, decStr(s.PrevRewardWeight), w.rhs(s.RewardHistories)))
	}
	L = append(L, w.bankLines(ctx)...)
	L = append(L, w.stakingLines(ctx)...)
	return L
}

func (w *World) trackedAccounts() []int64 {
	ids := []int64{AccAlliance, AccRewards, AccFee, AccBonded, AccNotBonded}
	for i := range w.Users {
		ids = append(ids, int64(UserBase+i))
	}
	return ids
}

func (w *World) bankLines(ctx sdk.Context) []string {
	var L []string
	for _, acc := range w.trackedAccounts() {
		for _, d := range trackedDenoms {
			b := w.App.BankKeeper.GetBalance(ctx, w.AccAddr(acc), denomName(d))
			if !b.Amount.IsZero() {
				L = append(L, fmt.Sprintf("11 %d %d %s", acc, d, intStr(b.Amount)))
			}
		}
	}
	for _, d := range trackedDenoms {
		s := w.App.BankKeeper.BaseKeeper.GetSupply(ctx, denomName(d))
		if !s.Amount.IsZero() {
			L = append(L, fmt.Sprintf("12 %d %s", d, intStr(s.Amount)))
		}
	}
	return L
}

func (w *World) stakingLines(ctx sdk.Context) []string {
	var L []string
	vs, _ := w.App.StakingKeeper.GetAllValidators(ctx)
	type row struct {
		id int64
		s  string
	}
	var rows []row
	for _, v := range vs {
		a, _ := sdk.ValAddressFromBech32(v.GetOperator())
		id := w.idOfVal(a)
		rows = append(rows, row{id, fmt.Sprintf("13 %d %d %s %s", id, int(v.Status), intStr(v.Tokens), decStr(v.DelegatorShares))})
	}
	sort.Slice(rows, func(i, j int) bool { return rows[i].id < rows[j].id })
	for _, r := range rows {
		L = append(L, r.s)
	}
	rows = nil
	mod := w.AccAddr(AccAlliance)
	_ = w.App.StakingKeeper.IterateDelegatorDelegations(ctx, mod, func(d stakingtypes.Delegation) bool {
		a, _ := sdk.ValAddressFromBech32(d.ValidatorAddress)
		id := w.idOfVal(a)
		rows = append(rows, row{id, fmt.Sprintf("14 %d %s", id, decStr(d.Shares))})
		return false
	})
	sort.Slice(rows, func(i, j int) bool { return rows[i].id < rows[j].id })
	for _, r := range rows {
		L = append(L, r.s)
	}
	return L
}

package harness

import (
	"bufio"
	"bytes"
	"strings"
	"encoding/json"
	"fmt"
	"math/rand"
	"os"
	"strconv"
	"testing"
	"time"
)

func envInt(name string, def int64) int64 {
	if s := os.Getenv(name); s != "" {
		if n, err := strconv.ParseInt(s, 10, 64); err == nil {
			return n
		}
	}
	return def
}

// TestRun generates (or replays) histories and writes the trace and the
// executed histories.  Parameters come from the environment:
//   H_SEED, H_COUNT, H_FIRST (index of the first history), H_PROFILE,
//   H_TRACE (output trace), H_HIST (output: executed actions, one JSON line per history),
//   H_REPLAY (input: a file of histories to replay instead of generating)
func TestRun(t *testing.T) {
	seed := envInt("H_SEED", 1)
	count := int(envInt("H_COUNT", 5))
	first := int(envInt("H_FIRST", 0))
	profile := os.Getenv("H_PROFILE")
	tracePath := os.Getenv("H_TRACE")
	if tracePath == "" {
		tracePath = "/dev/stdout"
	}
	f, err := os.Create(tracePath)
	if err != nil {
		t.Fatal(err)
	}
	defer f.Close()
	out := bufio.NewWriterSize(f, 1<<20)
	defer out.Flush()
	var hist *bufio.Writer
	if p := os.Getenv("H_HIST"); p != "" {
		hf, err := os.Create(p)
		if err != nil {
			t.Fatal(err)
		}
		defer hf.Close()
		hist = bufio.NewWriter(hf)
		defer hist.Flush()
	}
	t0 := time.Now()
	if rp := os.Getenv("H_REPLAY"); rp != "" {
		rf, err := os.Open(rp)
		if err != nil {
			t.Fatal(err)
		}
		defer rf.Close()
		sc := bufio.NewScanner(rf)
		sc.Buffer(make([]byte, 1<<20), 1<<26)
		for sc.Scan() {
			var h History
			if err := json.Unmarshal(sc.Bytes(), &h); err != nil {
				t.Fatalf("bad history: %v", err)
			}
			w := RunHistory(t, out, h)
			reportMonitors(out, w)
		}
		return
	}
	for i := first; i < first+count; i++ {
		r := rand.New(rand.NewSource(seed*1000003 + int64(i)))
		c := GenConfig(r, profile)
		id := fmt.Sprintf("%s-%d-%d", profile, seed, i)
		h := History{ID: id, Config: c}
		if profile == "determinism" {
			h = runDeterminism(t, out, r, c, id)
		} else {
			w := NewWorld(t, out, c, id)
			var shadow *World
			forkAt := -1
			if profile == "genesis" {
				forkAt = 2 + r.Intn(c.Blocks-2)
			}
			for b := 0; b < c.Blocks && !w.Halted; b++ {
				if b == forkAt {
					shadow = w.ForkGenesis()
					h.ForkAt = len(h.Actions)
				}
				for _, a := range w.GenBlock(r, c) {
					h.Actions = append(h.Actions, a)
					if shadow != nil {
						w.ExecBoth(shadow, a)
					} else {
						w.Exec(a)
					}
				}
			}
			reportMonitors(out, w)
		}
		if hist != nil {
			b, _ := json.Marshal(h)
			hist.Write(b)
			hist.WriteString("\n")
		}
	}
	fmt.Fprintf(os.Stderr, "harness: %d histories in %v\n", count, time.Since(t0))
}

type History struct {
	ID      string
	Config  Config
	Actions []Action
	ForkAt  int // C18: index of the action before which the state is exported and re-imported (0 = never)
}

// runDeterminism (C19): the same history on three sibling branches of one state in
// one process; traces (results, state dumps, event digests) must be byte-identical.
func runDeterminism(t *testing.T, out *bufio.Writer, r *rand.Rand, c Config, id string) History {
	Scale = c.Scale
	fund := map[int64]string{1: "2000000000000000000000000000000", 2: "2000000000000000000000000000000", 3: "2000000000000000000000000000000", 9: "100000000000"}
	var bufBase bytes.Buffer
	base := Setup(t, bufio.NewWriter(&bufBase), c.NVals, c.NUsers, c.StartNs, time.Duration(c.Unbonding), fund)
	base.HistID = id
	base.Profile = c.Profile
	h := History{ID: id, Config: c}
	var bufs [3]bytes.Buffer
	var first *World
	for k := 0; k < 3; k++ {
		ctx, _ := base.Ctx.CacheContext()
		w := base.clone(ctx, &bufs[k])
		w.Start(c)
		if k == 0 {
			first = w
			for b := 0; b < c.Blocks && !w.Halted; b++ {
				for _, a := range w.GenBlock(r, c) {
					h.Actions = append(h.Actions, a)
					w.Exec(a)
				}
			}
		} else {
			for _, a := range h.Actions {
				w.Exec(a)
			}
		}
		w.Out.Flush()
	}
	for k := 1; k < 3; k++ {
		if !bytes.Equal(bufs[0].Bytes(), bufs[k].Bytes()) {
			la := strings.Split(bufs[0].String(), "\n")
			lb := strings.Split(bufs[k].String(), "\n")
			tag := "length"
			for i := 0; i < len(la) && i < len(lb); i++ {
				if la[i] != lb[i] {
					f := strings.Fields(la[i])
					if len(f) > 0 {
						tag = f[0]
						if (f[0] == "S" || f[0] == "O") && len(f) > 1 {
							tag += f[1]
						}
					}
					break
				}
			}
			first.monitor("C19", "replay-on-sibling-branch-differs-first-at-record-"+tag)
		}
	}
	out.Write(bufs[0].Bytes())
	reportMonitors(out, first)
	return h
}

func NewWorld(t *testing.T, out *bufio.Writer, c Config, id string) *World {
	fund := map[int64]string{1: "2000000000000000000000000000000", 2: "2000000000000000000000000000000", 3: "2000000000000000000000000000000", 9: "100000000000"}
	Scale = c.Scale
	w := Setup(t, out, c.NVals, c.NUsers, c.StartNs, time.Duration(c.Unbonding), fund)
	w.HistID = id
	w.Profile = c.Profile
	w.Start(c)
	return w
}

func RunHistory(t *testing.T, out *bufio.Writer, h History) *World {
	w := NewWorld(t, out, h.Config, h.ID)
	var shadow *World
	for i, a := range h.Actions {
		if h.ForkAt > 0 && i == h.ForkAt {
			shadow = w.ForkGenesis()
		}
		if shadow != nil {
			w.ExecBoth(shadow, a)
		} else {
			w.Exec(a)
		}
	}
	return w
}

func reportMonitors(out *bufio.Writer, w *World) {
	for _, m := range w.Monitors {
		fmt.Fprintf(out, "M %s %s\n", w.HistID, m)
	}
}

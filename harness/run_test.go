package harness

import (
	"bufio"
	"encoding/json"
	"fmt"
	"math/rand"
	"os"
	"strconv"
	"testing"
	"time"
)

func envInt(name string, def int64) int64 {
	if s := os.Getenv(name); s != "" {
		if n, err := strconv.ParseInt(s, 10, 64); err == nil {
			return n
		}
	}
	return def
}

// TestRun generates (or replays) histories and writes the trace and the
// executed histories.  Parameters come from the environment:
//   H_SEED, H_COUNT, H_FIRST (index of the first history), H_PROFILE,
//   H_TRACE (output trace), H_HIST (output: executed actions, one JSON line per history),
//   H_REPLAY (input: a file of histories to replay instead of generating)
func TestRun(t *testing.T) {
	seed := envInt("H_SEED", 1)
	count := int(envInt("H_COUNT", 5))
	first := int(envInt("H_FIRST", 0))
	profile := os.Getenv("H_PROFILE")
	tracePath := os.Getenv("H_TRACE")
	if tracePath == "" {
		tracePath = "/dev/stdout"
	}
	f, err := os.Create(tracePath)
	if err != nil {
		t.Fatal(err)
	}
	defer f.Close()
	out := bufio.NewWriterSize(f, 1<<20)
	defer out.Flush()
	var hist *bufio.Writer
	if p := os.Getenv("H_HIST"); p != "" {
		hf, err := os.Create(p)
		if err != nil {
			t.Fatal(err)
		}
		defer hf.Close()
		hist = bufio.NewWriter(hf)
		defer hist.Flush()
	}
	t0 := time.Now()
	if rp := os.Getenv("H_REPLAY"); rp != "" {
		rf, err := os.Open(rp)
		if err != nil {
			t.Fatal(err)
		}
		defer rf.Close()
		sc := bufio.NewScanner(rf)
		sc.Buffer(make([]byte, 1<<20), 1<<26)
		for sc.Scan() {
			var h History
			if err := json.Unmarshal(sc.Bytes(), &h); err != nil {
				t.Fatalf("bad history: %v", err)
			}
			w := RunHistory(t, out, h)
			reportMonitors(out, w)
		}
		return
	}
	for i := first; i < first+count; i++ {
		r := rand.New(rand.NewSource(seed*1000003 + int64(i)))
		c := GenConfig(r, profile)
		id := fmt.Sprintf("%s-%d-%d", profile, seed, i)
		w := NewWorld(t, out, c, id)
		h := History{ID: id, Config: c}
		for b := 0; b < c.Blocks && !w.Halted; b++ {
			for _, a := range w.GenBlock(r, c) {
				h.Actions = append(h.Actions, a)
				w.Exec(a)
			}
		}
		reportMonitors(out, w)
		if hist != nil {
			b, _ := json.Marshal(h)
			hist.Write(b)
			hist.WriteString("\n")
		}
	}
	fmt.Fprintf(os.Stderr, "harness: %d histories in %v\n", count, time.Since(t0))
}

type History struct {
	ID      string
	Config  Config
	Actions []Action
}

func NewWorld(t *testing.T, out *bufio.Writer, c Config, id string) *World {
	fund := map[int64]string{1: "2000000000000000000000000000000", 2: "2000000000000000000000000000000", 3: "2000000000000000000000000000000", 9: "100000000000"}
	Scale = c.Scale
	w := Setup(t, out, c.NVals, c.NUsers, c.StartNs, time.Duration(c.Unbonding), fund)
	w.HistID = id
	w.Start(c)
	return w
}

func RunHistory(t *testing.T, out *bufio.Writer, h History) *World {
	w := NewWorld(t, out, h.Config, h.ID)
	for _, a := range h.Actions {
		w.Exec(a)
	}
	return w
}

func reportMonitors(out *bufio.Writer, w *World) {
	for _, m := range w.Monitors {
		fmt.Fprintf(out, "M %s %s\n", w.HistID, m)
	}
}

package harness

import (
	"bufio"
	"bytes"
	"io"
	"strings"

	storetypes "cosmossdk.io/store/types"
	"github.com/cosmos/cosmos-sdk/runtime"
	sdk "github.com/cosmos/cosmos-sdk/types"
)

// clone returns a World on another branch of the state, writing its trace elsewhere.
func (w *World) clone(ctx sdk.Context, out io.Writer) *World {
	c := *w
	c.Ctx = ctx
	c.Out = bufio.NewWriterSize(out, 1<<16)
	c.prevBank = map[[2]int64]string{}
	for k, v := range w.prevBank {
		c.prevBank[k] = v
	}
	c.prevSupply = map[int64]string{}
	for k, v := range w.prevSupply {
		c.prevSupply[k] = v
	}
	c.prevStatus = map[int64]int{}
	for k, v := range w.prevStatus {
		c.prevStatus[k] = v
	}
	c.Monitors = nil
	return &c
}

// ForkGenesis (C18): branch A continues as it is, branch B gets its module store
// wiped and re-imported from A's export.  Returns the shadow world on B.
func (w *World) ForkGenesis() *World {
	base := w.Ctx
	ctxA, _ := base.CacheContext()
	ctxB, _ := base.CacheContext()
	k := w.App.AllianceKeeper
	gs := k.ExportGenesis(ctxA)
	st := runtime.KVStoreAdapter(k.StoreService().OpenKVStore(ctxB))
	var keys [][]byte
	it := storetypes.KVStorePrefixIterator(st, nil)
	for ; it.Valid(); it.Next() {
		keys = append(keys, append([]byte{}, it.Key()...))
	}
	it.Close()
	for _, key := range keys {
		st.Delete(key)
	}
	k.InitGenesis(ctxB, gs)
	gs2 := k.ExportGenesis(ctxB)
	b1, _ := w.App.AppCodec().MarshalJSON(gs)
	b2, _ := w.App.AppCodec().MarshalJSON(gs2)
	if !bytes.Equal(b1, b2) {
		w.monitor("C18", "second-export-differs-from-the-first")
	}
	w.Ctx = ctxA
	shadow := w.clone(ctxB, io.Discard)
	w.compareShadow(shadow, "right-after-import")
	return shadow
}

// compareShadow compares what is observable of both branches: primary records and
// indexes, bank, staking.  The time-ordered redelegation queue (tag 6) is internal
// bookkeeping (import is known to queue every redelegation twice) and the rebalance
// flag has no field in GenesisState; neither is compared directly — a difference
// there counts only once it changes an observable.
func (w *World) compareShadow(shadow *World, when string) {
	norm := func(ls []string) map[string]bool {
		m := map[string]bool{}
		for _, l := range ls {
			f := strings.SplitN(l, " ", 3)
			if f[0] == "6" {
				continue
			}
			if f[0] == "1" && len(f) == 3 {
				l = "1 - " + f[2] // params without the flag
			}
			m[l] = true
		}
		return m
	}
	a := norm(w.DumpState(w.Ctx))
	b := norm(shadow.DumpState(shadow.Ctx))
	tags := map[string]bool{}
	for l := range a {
		if !b[l] {
			tags[strings.SplitN(l, " ", 2)[0]] = true
		}
	}
	for l := range b {
		if !a[l] {
			tags[strings.SplitN(l, " ", 2)[0]] = true
		}
	}
	for t := range tags {
		w.monitor("C18", "reimported-branch-differs-in-records-of-tag-"+t)
	}
}

// ExecBoth runs an action on the original and on the re-imported branch and compares.
func (w *World) ExecBoth(shadow *World, a Action) {
	w.Exec(a)
	shadow.Exec(a)
	if w.LastErr != shadow.LastErr || w.Halted != shadow.Halted {
		w.monitor("C18", "operation-result-differs-after-reimport")
	}
	w.compareShadow(shadow, "after-"+a.Kind)
}

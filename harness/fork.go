package harness

import (
	"cosmossdk.io/math"
	"os"
	"bufio"
	"bytes"
	"fmt"
	"io"
	"strings"

	storetypes "cosmossdk.io/store/types"
	"github.com/cosmos/cosmos-sdk/runtime"
	sdk "github.com/cosmos/cosmos-sdk/types"

	"github.com/terra-money/alliance/x/alliance/types"
)

// clone returns a World on another branch of the state, writing its trace elsewhere.
func (w *World) clone(ctx sdk.Context, out io.Writer) *World {
	c := *w
	c.Ctx = ctx
	c.Out = bufio.NewWriterSize(out, 1<<16)
	c.prevBank = map[[2]int64]string{}
	for k, v := range w.prevBank {
		c.prevBank[k] = v
	}
	c.prevSupply = map[int64]string{}
	for k, v := range w.prevSupply {
		c.prevSupply[k] = v
	}
	c.prevStatus = map[int64]int{}
	for k, v := range w.prevStatus {
		c.prevStatus[k] = v
	}
	c.Monitors = nil
	return &c
}

// ForkGenesis (C18): branch A continues as it is, branch B gets its module store
// wiped and re-imported from A's export.  Returns the shadow world on B.
func (w *World) ForkGenesis() *World {
	base := w.Ctx
	ctxA, _ := base.CacheContext()
	ctxB, _ := base.CacheContext()
	k := w.App.AllianceKeeper
	gs := k.ExportGenesis(ctxA)
	st := runtime.KVStoreAdapter(k.StoreService().OpenKVStore(ctxB))
	var keys [][]byte
	it := storetypes.KVStorePrefixIterator(st, nil)
	for ; it.Valid(); it.Next() {
		keys = append(keys, append([]byte{}, it.Key()...))
	}
	it.Close()
	for _, key := range keys {
		st.Delete(key)
	}
	k.InitGenesis(ctxB, gs)
	gs2 := k.ExportGenesis(ctxB)
	b1, _ := w.App.AppCodec().MarshalJSON(gs)
	b2, _ := w.App.AppCodec().MarshalJSON(gs2)
	if !bytes.Equal(b1, b2) {
		w.monitor("C18", "second-export-differs-from-the-first")
	}
	w.Ctx = ctxA
	shadow := w.clone(ctxB, io.Discard)
	// the re-imported module store, for comparison with the model's re-import of the model state
	// (records G of the trace; bank / supply / staking are shared with the original branch)
	for _, l := range shadow.DumpState(ctxB) {
		var tag int
		fmt.Sscanf(l, "%d", &tag)
		if tag <= 10 {
			w.emit("G %s", l)
		}
	}
	w.emit("GE")
	w.compensateKnownImportLosses(shadow)
	w.compareShadow(shadow, "right-after-import")
	return shadow
}

// compensateKnownImportLosses: two losses of the genesis round trip are known findings
// (DESIGN.md section 11).  Each is recognised by its exact condition, reported under its own
// signature, and then repaired on the re-imported branch, so that every OTHER difference between
// the branches — right after the import or at any later step — is still reported.
//  - F-C18-2: GenesisState has no field for the rebalance flag; a queued rebalance is lost.
//  - F-C18-1: redelegation records are keyed without the source validator; records of two sources
//    merge, and InitGenesis rebuilds the per-source index for the source stored in the record only.
func (w *World) compensateKnownImportLosses(shadow *World) {
	k := w.App.AllianceKeeper
	if w.flagSet() && !shadow.flagSet() {
		w.monitor("C18", "rebalance-flag-lost-on-reimport")
		_ = k.QueueAssetRebalanceEvent(shadow.Ctx)
	}
	type idx struct {
		src, denom, dst, del int64
		ct                   string
	}
	parse := func(ls []string) []idx {
		var out []idx
		for _, l := range ls {
			var i idx
			if n, _ := fmt.Sscanf(l, "8 %d %s %d %d %d", &i.src, &i.ct, &i.denom, &i.dst, &i.del); n == 5 {
				out = append(out, i)
			}
		}
		return out
	}
	a := parse(w.DumpState(w.Ctx))
	b := parse(shadow.DumpState(shadow.Ctx))
	have := map[idx]bool{}
	for _, i := range b {
		have[i] = true
	}
	for _, i := range a {
		if have[i] {
			continue
		}
		merged := false
		for _, j := range a {
			if j != i && j.ct == i.ct && j.denom == i.denom && j.dst == i.dst && j.del == i.del && j.src != i.src {
				merged = true
			}
		}
		if !merged {
			continue // not the known loss: left for compareShadow to report
		}
		w.monitor("C18", "merged-redelegation-source-index-lost-on-reimport")
		var ns int64
		fmt.Sscan(i.ct, &ns)
		key := types.GetRedelegationIndexKey(w.ValAddr(i.src), nsToTime(ns), denomName(i.denom), w.ValAddr(i.dst), w.AccAddr(i.del))
		st := k.StoreService().OpenKVStore(shadow.Ctx)
		_ = st.Set(key, []byte{})
		// ... and the entry of the time queue that removes this key at maturity on the original
		// branch (the queue is rebuilt from the merged record: one source only)
		qk := types.GetRedelegationQueueKey(nsToTime(ns))
		var q types.QueuedRedelegation
		if b, err := st.Get(qk); err == nil && b != nil {
			shadow.App.AppCodec().MustUnmarshal(b, &q)
		}
		q.Entries = append(q.Entries, &types.Redelegation{
			DelegatorAddress:    w.AccAddr(i.del).String(),
			SrcValidatorAddress: w.ValAddr(i.src).String(),
			DstValidatorAddress: w.ValAddr(i.dst).String(),
			Balance:             sdk.NewCoin(denomName(i.denom), math.ZeroInt()),
		})
		_ = st.Set(qk, shadow.App.AppCodec().MustMarshal(&q))
	}
}

// compareShadow compares what is observable of both branches: primary records and
// indexes, bank, staking.  The time-ordered redelegation queue (tag 6) is internal
// bookkeeping (import is known to queue every redelegation twice) and the rebalance
// flag has no field in GenesisState; neither is compared directly — a difference
// there counts only once it changes an observable.
func (w *World) compareShadow(shadow *World, when string) {
	norm := func(ls []string) map[string]bool {
		m := map[string]bool{}
		for _, l := range ls {
			f := strings.SplitN(l, " ", 3)
			if f[0] == "6" {
				continue
			}
			if f[0] == "1" && len(f) == 3 {
				l = "1 - " + f[2] // params without the flag
			}
			m[l] = true
		}
		return m
	}
	a := norm(w.DumpState(w.Ctx))
	b := norm(shadow.DumpState(shadow.Ctx))
	tags := map[string]bool{}
	for l := range a {
		if !b[l] {
			tags[strings.SplitN(l, " ", 2)[0]] = true
		}
	}
	for l := range b {
		if !a[l] {
			tags[strings.SplitN(l, " ", 2)[0]] = true
		}
	}
	if os.Getenv("H_DEBUG_SHADOW") != "" {
		for l := range a {
			if !b[l] {
				fmt.Println("ORIG-ONLY", when, l)
			}
		}
		for l := range b {
			if !a[l] {
				fmt.Println("SHADOW-ONLY", when, l)
			}
		}
	}
	for t := range tags {
		w.monitor("C18", "reimported-branch-differs-in-records-of-tag-"+t)
	}
}

// ExecBoth runs an action on the original and on the re-imported branch and compares.
func (w *World) ExecBoth(shadow *World, a Action) {
	w.Exec(a)
	shadow.Exec(a)
	if w.LastErr != shadow.LastErr || w.Halted != shadow.Halted {
		w.monitor("C18", "operation-result-differs-after-reimport")
	}
	w.compareShadow(shadow, "after-"+a.Kind)
}

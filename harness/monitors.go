package harness

import (
	"os"
	"encoding/json"
	"fmt"
	"regexp"
	"sort"
	"strings"

	"cosmossdk.io/math"
	sdk "github.com/cosmos/cosmos-sdk/types"
	"github.com/cosmos/cosmos-sdk/types/query"
	banktypes "github.com/cosmos/cosmos-sdk/x/bank/types"
	stakingtypes "github.com/cosmos/cosmos-sdk/x/staking/types"

	"github.com/terra-money/alliance/x/alliance/bindings"
	bindingtypes "github.com/terra-money/alliance/x/alliance/bindings/types"
	"github.com/terra-money/alliance/x/alliance/types"
)

// Monitors are checks evaluated on the implementation only: the answers of its
// query layer against an independent enumeration of the primary records (C20),
// non-destructive liveness probes (C05), the rebalancing target (C10), the
// supply queries and the staking pool (C11).  A failure is recorded as
// "<property> <signature>"; signatures are stable and specific so that
// known_findings.json can list them.

func (w *World) monitor(prop, sig string) {
	for _, m := range w.Monitors {
		if m == prop+" "+sig {
			return
		}
	}
	w.Monitors = append(w.Monitors, prop+" "+sig)
}

var reNum = regexp.MustCompile(`[0-9]+[a-z]*`)
var reAddr = regexp.MustCompile(`cosmos[a-z0-9]+`)

func errKind(s string) string {
	s = reAddr.ReplaceAllString(s, "A")
	s = reNum.ReplaceAllString(s, "N")
	s = strings.ToLower(s)
	s = regexp.MustCompile(`[^a-z]+`).ReplaceAllString(s, "-")
	if len(s) > 48 {
		s = s[:48]
	}
	return strings.Trim(s, "-")
}

// ------------------------------------------------------------------ C20

type refUnb struct {
	val, denom int64
	del        int64
	time       string
	amt        string
}

func (w *World) refUnbondings() []refUnb {
	var out []refUnb
	cdc := w.App.AppCodec()
	for _, e := range w.rawPrefix(w.Ctx, types.UndelegationQueueKey) {
		var q types.QueuedUndelegation
		cdc.MustUnmarshal(e.v, &q)
		parts := lpParts(e.k[1:])
		for _, u := range q.Entries {
			out = append(out, refUnb{w.idOfValBech(u.ValidatorAddress), denomID(u.Balance.Denom), w.idOfAccBech(u.DelegatorAddress), timeOfBytes(parts[0]), intStr(u.Balance.Amount)})
		}
	}
	return out
}

func unbKey(val, denom int64, t, amt string) string { return fmt.Sprintf("%d/%d/%s/%s", val, denom, t, amt) }

func (w *World) cmpUnb(name string, got []types.UnbondingDelegation, want []refUnb) {
	g := map[string]int{}
	for _, u := range got {
		g[unbKey(w.idOfValBech(u.ValidatorAddress), denomID(u.Denom), timeStr(u.CompletionTime), intStr(u.Amount))]++
	}
	wm := map[string]int{}
	for _, u := range want {
		wm[unbKey(u.val, u.denom, u.time, u.amt)]++
	}
	for k, n := range g {
		if wm[k] == 0 {
			w.monitor("C20", name+"-returns-entry-outside-filter")
		} else if n > wm[k] {
			w.monitor("C20", name+"-returns-entry-more-than-once")
		}
	}
	for k, n := range wm {
		if g[k] < n {
			w.monitor("C20", name+"-misses-entry")
		}
	}
}


// emitQuery records the answer of a query of the real application for comparison with the model's
// answer on the same state (trace tag Q: kind, arguments, ";", flattened answer).
func (w *World) emitQuery(kind int, args []int64, answer []string) {
	var b strings.Builder
	fmt.Fprintf(&b, "Q %d", kind)
	for _, a := range args {
		fmt.Fprintf(&b, " %d", a)
	}
	b.WriteString(" ;")
	for _, a := range answer {
		b.WriteString(" " + a)
	}
	w.emit("%s", b.String())
}

func (w *World) flatUnb(us []types.UnbondingDelegation) []string {
	var out []string
	for _, u := range us {
		out = append(out, fmt.Sprint(w.idOfValBech(u.ValidatorAddress)), timeStr(u.CompletionTime), intStr(u.Amount), fmt.Sprint(denomID(u.Denom)))
	}
	return out
}

func (w *World) checkQueries() {
	ref := w.refUnbondings()
	assets := w.assetIDs()
	for ui := range w.Users {
		u := int64(UserBase + ui)
		del := w.AccAddr(u).String()
		var refU []refUnb
		for _, r := range ref {
			if r.del == u {
				refU = append(refU, r)
			}
		}
		// by delegator
		if res, err := w.Query.AllianceUnbondingsByDelegator(w.Ctx, &types.QueryAllianceUnbondingsByDelegatorRequest{DelegatorAddr: del}); err == nil {
			var want []refUnb
			for _, r := range refU {
				for _, d := range assets {
					if r.denom == d {
						want = append(want, r)
					}
				}
			}
			w.cmpUnb("unbondings-by-delegator", res.Unbondings, want)
			w.emitQuery(3, []int64{u}, w.flatUnb(res.Unbondings))
		} else {
			w.monitor("C20", "unbondings-by-delegator-error-"+errKind(err.Error()))
		}
		for _, d := range assets {
			var refD []refUnb
			for _, r := range refU {
				if r.denom == d {
					refD = append(refD, r)
				}
			}
			if res, err := w.Query.AllianceUnbondingsByDenomAndDelegator(w.Ctx, &types.QueryAllianceUnbondingsByDenomAndDelegatorRequest{Denom: denomName(d), DelegatorAddr: del}); err == nil {
				w.cmpUnb("unbondings-by-denom", res.Unbondings, refD)
				w.emitQuery(2, []int64{d, u}, w.flatUnb(res.Unbondings))
			} else {
				w.monitor("C20", "unbondings-by-denom-error-"+errKind(err.Error()))
			}
			for vi := range w.Vals {
				v := int64(ValBase + vi)
				var refV []refUnb
				for _, r := range refD {
					if r.val == v {
						refV = append(refV, r)
					}
				}
				if res, err := w.Query.AllianceUnbondings(w.Ctx, &types.QueryAllianceUnbondingsRequest{Denom: denomName(d), DelegatorAddr: del, ValidatorAddr: w.ValAddr(v).String()}); err == nil {
					w.cmpUnb("unbondings", res.Unbondings, refV)
					w.emitQuery(1, []int64{d, u, v}, w.flatUnb(res.Unbondings))
				} else {
					w.monitor("C20", "unbondings-error-"+errKind(err.Error()))
				}
			}
			w.checkRedelegationQueries(u, d)
		}
	}
	w.checkDelegationQueries()
}

type refRedel struct{ key string }

func (w *World) refRedelegations(u, d int64) []string {
	var out []string
	cdc := w.App.AppCodec()
	for _, e := range w.rawPrefix(w.Ctx, types.RedelegationKey) {
		var r types.Redelegation
		cdc.MustUnmarshal(e.v, &r)
		b := e.k[1:]
		n := int(b[0])
		del := b[1 : 1+n]
		b = b[1+n:]
		n = int(b[0])
		dn := b[1 : 1+n]
		b = b[1+n:]
		n = int(b[0])
		tb := b[1+n:]
		if w.idOfAcc(del) != u || (d >= 0 && denomOfKeyPart(dn) != d) {
			continue
		}
		out = append(out, fmt.Sprintf("%d/%d/%d/%s/%s/%s", w.idOfAccBech(r.DelegatorAddress), w.idOfValBech(r.SrcValidatorAddress),
			w.idOfValBech(r.DstValidatorAddress), r.Balance.Denom, intStr(r.Balance.Amount), timeOfBytes(tb)))
	}
	return out
}

func redelEntryKey(w *World, e types.RedelegationEntry) string {
	return fmt.Sprintf("%d/%d/%d/%s/%s/%s", w.idOfAccBech(e.DelegatorAddress), w.idOfValBech(e.SrcValidatorAddress),
		w.idOfValBech(e.DstValidatorAddress), e.Balance.Denom, intStr(e.Balance.Amount), timeStr(e.CompletionTime))
}

func (w *World) checkRedelegationQueries(u, d int64) {
	del := w.AccAddr(u).String()
	want := w.refRedelegations(u, d)
	// unpaginated
	res, err := w.Query.AllianceRedelegations(w.Ctx, &types.QueryAllianceRedelegationsRequest{Denom: denomName(d), DelegatorAddr: del})
	if err != nil {
		w.monitor("C20", "redelegations-error-"+errKind(err.Error()))
		return
	}
	var got []string
	var flat []string
	for _, e := range res.Redelegations {
		got = append(got, redelEntryKey(w, e))
		flat = append(flat, fmt.Sprint(w.idOfAccBech(e.DelegatorAddress)), fmt.Sprint(w.idOfValBech(e.SrcValidatorAddress)),
			fmt.Sprint(w.idOfValBech(e.DstValidatorAddress)), fmt.Sprint(denomID(e.Balance.Denom)), intStr(e.Balance.Amount), timeStr(e.CompletionTime))
	}
	w.emitQuery(4, []int64{u, d}, flat)
	if strings.Join(got, ",") != strings.Join(want, ",") {
		w.monitor("C20", "redelegations-differ-from-records")
	}
	// page by page (limit 1) must concatenate to the same list
	var paged []string
	var key []byte
	for i := 0; i < len(want)+2; i++ {
		r, err := w.Query.AllianceRedelegations(w.Ctx, &types.QueryAllianceRedelegationsRequest{Denom: denomName(d), DelegatorAddr: del,
			Pagination: &query.PageRequest{Key: key, Limit: 1}})
		if err != nil {
			w.monitor("C20", "redelegations-page-error-"+errKind(err.Error()))
			return
		}
		for _, e := range r.Redelegations {
			paged = append(paged, redelEntryKey(w, e))
		}
		if r.Pagination == nil || len(r.Pagination.NextKey) == 0 {
			break
		}
		key = r.Pagination.NextKey
	}
	if strings.Join(paged, ",") != strings.Join(want, ",") {
		w.monitor("C20", "redelegations-pages-do-not-concatenate")
	}
}

func (w *World) checkDelegationQueries() {
	plugin := bindings.NewAllianceQueryPlugin(&w.App.AllianceKeeper)
	for _, p := range w.positions() {
		bal, panicked := w.balanceOfP(p)
		if panicked != "" {
			// the query handler panics (a position worth a negative amount: sdk.NewCoin refuses it);
			// the model answers -1 exactly when its value of the position is negative
			w.emitQuery(6, []int64{p.u, p.v, p.d}, []string{"-1"})
			w.monitor("C20", "delegation-query-panics-"+strings.Join(strings.FieldsFunc(panicked, func(r rune) bool {
				return !(r >= 'a' && r <= 'z' || r >= 'A' && r <= 'Z')
			}), "-"))
			continue
		}
		w.emitQuery(6, []int64{p.u, p.v, p.d}, []string{intStr(bal)})
		// binding reports the same value
		func() {
			defer func() { _ = recover() }()
			if raw, err := plugin.GetDelegation(w.Ctx, denomName(p.d), w.AccAddr(p.u).String(), w.ValAddr(p.v).String()); err == nil {
				var r bindingtypes.DelegationResponse
				if json.Unmarshal(raw, &r) == nil && r.Amount != bal.String() {
					w.monitor("C20", "binding-delegation-amount-differs-from-grpc")
				}
			}
		}()
		if bal.IsPositive() {
			// the reported balance can be undelegated, one unit more cannot
			c1, o1, _ := w.runBranch(func(ctx sdk.Context) error {
				_, err := w.Msg.Undelegate(ctx, &types.MsgUndelegate{DelegatorAddress: w.AccAddr(p.u).String(), ValidatorAddress: w.ValAddr(p.v).String(),
					Amount: sdk.NewCoin(denomName(p.d), bal)})
				return err
			}, func(int) bool { return false })
			w.emitProbe(20, c1, false, o1, fmt.Sprintf("11 %d %d %d %s", p.u, p.v, p.d, intStr(bal)))
			c2, o2, _ := w.runBranch(func(ctx sdk.Context) error {
				_, err := w.Msg.Undelegate(ctx, &types.MsgUndelegate{DelegatorAddress: w.AccAddr(p.u).String(), ValidatorAddress: w.ValAddr(p.v).String(),
					Amount: sdk.NewCoin(denomName(p.d), bal.AddRaw(1))})
				return err
			}, func(int) bool { return false })
			w.emitProbe(20, c2, true, o2, fmt.Sprintf("11 %d %d %d %s", p.u, p.v, p.d, intStr(bal.AddRaw(1))))
		}
	}
	// binding asset view against the record
	for _, a := range w.App.AllianceKeeper.GetAllAssets(w.Ctx) {
		raw, err := plugin.GetAlliance(w.Ctx, a.Denom)
		if err != nil {
			continue
		}
		var r bindingtypes.AllianceResponse
		if json.Unmarshal(raw, &r) != nil {
			continue
		}
		if r.TotalTokens != a.TotalTokens.String() || r.RewardWeight != a.RewardWeight.String() || r.TakeRate != a.TakeRate.String() ||
			r.TotalValidatorShares != a.TotalValidatorShares.String() {
			w.monitor("C20", "binding-alliance-fields-differ")
		}
		if r.RewardStartTime != uint64(a.RewardStartTime.UnixNano()) && r.RewardStartTime != uint64(a.RewardStartTime.Unix()) {
			w.monitor("C20", "binding-alliance-start-time-is-not-the-start-time")
		}
	}
}

// ------------------------------------------------------------------ C05 probes


// emitProbe records a liveness probe executed on a discarded branch of the real state, for the
// model to run the same message on the same state (trace tag P: property, class observed,
// 1 if a failure is the expected outcome, "#", recorded withdrawals, "#", operation).
func (w *World) emitProbe(prop, class int, expectFail bool, oracle, op string) {
	w.emit("P %d %d %d # %s # %s", prop, class, b2i(expectFail), oracle, op)
}

func (w *World) checkLiveness() {
	discard := func(int) bool { return false }
	// enter: 1 unit and a large amount of every whitelisted asset to every validator
	for vi := range w.Vals {
		v := int64(ValBase + vi)
		for _, d := range w.assetIDs() {
			for _, amt := range []string{"1", "1000000000000"} {
				u := int64(UserBase)
				if w.App.BankKeeper.GetBalance(w.Ctx, w.AccAddr(u), denomName(d)).Amount.LT(mustInt(amt)) {
					continue
				}
				c, orc, _ := w.runBranch(func(ctx sdk.Context) error {
					_, err := w.Msg.Delegate(ctx, &types.MsgDelegate{DelegatorAddress: w.AccAddr(u).String(), ValidatorAddress: w.ValAddr(v).String(),
						Amount: sdk.NewCoin(denomName(d), mustInt(amt))})
					return err
				}, discard)
				w.emitProbe(5, c, false, orc, fmt.Sprintf("10 %d %d %d %s", u, v, d, amt))
			}
		}
	}
	// claim and full exit of every position with a positive reported balance
	for _, p := range w.positions() {
		bal := w.balanceOf(p)
		if !bal.IsPositive() {
			continue
		}
		c, orc, _ := w.runBranch(func(ctx sdk.Context) error {
			_, err := w.Msg.ClaimDelegationRewards(ctx, &types.MsgClaimDelegationRewards{DelegatorAddress: w.AccAddr(p.u).String(),
				ValidatorAddress: w.ValAddr(p.v).String(), Denom: denomName(p.d)})
			return err
		}, discard)
		w.emitProbe(5, c, false, orc, fmt.Sprintf("13 %d %d %d", p.u, p.v, p.d))
		c, orc, _ = w.runBranch(func(ctx sdk.Context) error {
			_, err := w.Msg.Undelegate(ctx, &types.MsgUndelegate{DelegatorAddress: w.AccAddr(p.u).String(), ValidatorAddress: w.ValAddr(p.v).String(),
				Amount: sdk.NewCoin(denomName(p.d), bal)})
			return err
		}, discard)
		w.emitProbe(5, c, false, orc, fmt.Sprintf("11 %d %d %d %s", p.u, p.v, p.d, intStr(bal)))
	}
	// claiming everything, in two orders, always succeeds (C12's observable).  Positions of an asset
	// that is no longer whitelisted (deleted with nothing staked; dust records remain) have nothing to
	// claim and their claim is refused as "unknown asset": not a matter of pool solvency
	listed := map[int64]bool{}
	for _, d := range w.assetIDs() {
		listed[d] = true
	}
	var ps []pos
	for _, p := range w.positions() {
		if listed[p.d] {
			ps = append(ps, p)
		}
	}
	for _, rev := range []bool{false, true} {
		order := append([]pos{}, ps...)
		if rev {
			sort.SliceStable(order, func(i, j int) bool { return i > j })
		}
		c, _, e := w.runBranch(func(ctx sdk.Context) error {
			for _, p := range order {
				if _, err := w.Msg.ClaimDelegationRewards(ctx, &types.MsgClaimDelegationRewards{DelegatorAddress: w.AccAddr(p.u).String(),
					ValidatorAddress: w.ValAddr(p.v).String(), Denom: denomName(p.d)}); err != nil {
					return err
				}
			}
			return nil
		}, discard)
		if c != rOK {
			w.monitor("C12", "claiming-every-position-fails-"+errKind(e))
		}
	}
}

// ------------------------------------------------------------------ C10 / C11

// checkRebalanced: called right after an end-of-block that started with a queued rebalance.
func (w *World) checkRebalanced() {
	k := w.App.AllianceKeeper
	mod := w.AccAddr(AccAlliance)
	allianceBonded, err := k.GetAllianceBondedAmount(w.Ctx, mod)
	if err != nil {
		return
	}
	totalBonded, _ := w.App.StakingKeeper.TotalBondedTokens(w.Ctx)
	native := totalBonded.Sub(allianceBonded)
	assets := k.GetAllAssets(w.Ctx)
	unbonded := sdk.NewDecCoins()
	type bv struct {
		addr sdk.ValAddress
		val  types.AllianceValidator
	}
	var bonded []bv
	_ = k.IterateAllianceValidatorInfo(w.Ctx, func(valAddr sdk.ValAddress, info types.AllianceValidatorInfo) bool {
		sv, err := w.App.StakingKeeper.GetValidator(w.Ctx, valAddr)
		if err != nil {
			return false
		}
		inf := info
		v := types.AllianceValidator{Validator: &sv, AllianceValidatorInfo: &inf}
		if sv.IsBonded() {
			bonded = append(bonded, bv{valAddr, v})
		} else {
			unbonded = unbonded.Add(inf.ValidatorShares...)
		}
		return false
	})
	two := math.LegacyNewDec(2)
	for _, b := range bonded {
		current := math.LegacyZeroDec()
		if d, err := w.App.StakingKeeper.GetDelegation(w.Ctx, mod, b.addr); err == nil {
			current = b.val.TokensFromShares(d.Shares)
		}
		expected := math.LegacyZeroDec()
		slope := math.LegacyZeroDec() // d expected / d native
		for _, a := range assets {
			if !a.RewardsStarted(w.Ctx.BlockTime()) {
				continue
			}
			vs := b.val.ValidatorSharesWithDenom(a.Denom)
			bvs := a.TotalValidatorShares.Sub(unbonded.AmountOf(a.Denom))
			if vs.IsPositive() && bvs.IsPositive() {
				expected = expected.Add(vs.Quo(bvs).Mul(a.RewardWeight.MulInt(native)))
				slope = slope.Add(vs.Quo(bvs).Mul(a.RewardWeight))
			}
		}
		// the code derives the native stake from the TRUNCATED value of its own stake, so its
		// target can be one native unit off; beyond (2 + slope + 1) something else is wrong
		if current.Sub(expected).Abs().GT(two.Add(slope).Add(math.LegacyOneDec())) {
			w.monitor("C10", "bonded-validator-stake-off-target-beyond-native-truncation")
		} else if current.Sub(expected).Abs().GT(two) {
			if os.Getenv("H_DEBUG") != "" {
				fmt.Fprintf(os.Stderr, "C10 off target: val=%d current=%s expected=%s native=%s height=%d status=%v tokens=%s shares=%s\n", w.idOfVal(b.addr), current, expected, native, w.Ctx.BlockHeight(), b.val.Status, b.val.Tokens, b.val.DelegatorShares)
			}
			w.monitor("C10", "bonded-validator-stake-off-target-by-native-truncation-times-weight")
		}
	}
}

func (w *World) checkSupply() {
	mod := w.AccAddr(AccAlliance)
	raw := w.App.BankKeeper.GetSupply(w.Ctx, "stake").Amount
	bondedAmt := math.LegacyZeroDec()
	_ = w.App.StakingKeeper.IterateDelegatorDelegations(w.Ctx, mod, func(d stakingtypes.Delegation) bool {
		a, _ := sdk.ValAddressFromBech32(d.ValidatorAddress)
		if v, err := w.App.StakingKeeper.GetValidator(w.Ctx, a); err == nil && v.IsBonded() {
			bondedAmt = bondedAmt.Add(v.TokensFromSharesTruncated(d.Shares))
		}
		return false
	})
	want := raw.Sub(bondedAmt.TruncateInt())
	if res, err := w.App.BankKeeper.SupplyOf(w.Ctx, &banktypes.QuerySupplyOfRequest{Denom: "stake"}); err != nil || !res.Amount.Amount.Equal(want) {
		w.monitor("C11", "supply-of-bond-denom-is-not-net-of-alliance-stake")
	}
	if res, err := w.App.BankKeeper.TotalSupply(w.Ctx, &banktypes.QueryTotalSupplyRequest{}); err != nil || !res.Supply.AmountOf("stake").Equal(want) {
		w.monitor("C11", "total-supply-of-bond-denom-is-not-net-of-alliance-stake")
	}
	// the bonded pool holds exactly the tokens of the bonded validators
	pool, _ := w.App.StakingKeeper.TotalBondedTokens(w.Ctx)
	sum := math.ZeroInt()
	vs, _ := w.App.StakingKeeper.GetAllValidators(w.Ctx)
	for _, v := range vs {
		if v.IsBonded() {
			sum = sum.Add(v.Tokens)
		}
	}
	if !pool.Equal(sum) {
		w.monitor("C11", "bonded-pool-differs-from-bonded-validator-tokens")
	}
}

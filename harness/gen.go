package harness

import (
	"fmt"
	"math/big"
	"math/rand"
	"time"

	"cosmossdk.io/math"
	sdk "github.com/cosmos/cosmos-sdk/types"

	"github.com/terra-money/alliance/x/alliance/types"
)

// Config of one generated history.
type Config struct {
	NVals, NUsers int
	StartNs       int64
	Unbonding     int64 // ns
	Delay         int64
	Interval      int64
	Assets        []GenAsset
	Blocks        int
	Scale         int
	Profile       string
}

type GenAsset struct {
	D                     int64
	W, Lo, Hi, Take, Rate string
	Iv                    int64
	StartOffset           int64 // RewardStartTime = start + offset
}

const startNs = int64(1704067200) * 1000000000 // 2024-01-01T00:00:00Z

var e18 = new(big.Int).Exp(big.NewInt(10), big.NewInt(18), nil)

func dec(num, den int64) string { // num/den as a 10^18-scaled integer string (truncated)
	x := new(big.Int).Mul(big.NewInt(num), e18)
	x.Quo(x, big.NewInt(den))
	return x.String()
}
func pow10(n int) *big.Int { return new(big.Int).Exp(big.NewInt(10), big.NewInt(int64(n)), nil) }

func pick[T any](r *rand.Rand, xs []T) T { return xs[r.Intn(len(xs))] }

func GenConfig(r *rand.Rand, profile string) Config {
	c := Config{Profile: profile, StartNs: startNs}
	c.NVals = 2 + r.Intn(3)
	c.NUsers = 2 + r.Intn(3)
	c.Unbonding = pick(r, []int64{int64(time.Hour), int64(24 * time.Hour), int64(21 * 24 * time.Hour), int64(10 * time.Minute)})
	c.Delay = pick(r, []int64{0, 0, int64(time.Hour), int64(24 * time.Hour)})
	c.Interval = pick(r, []int64{int64(5 * time.Minute), int64(time.Hour), int64(time.Minute)})
	na := 1 + r.Intn(3)
	for i := 0; i < na; i++ {
		a := GenAsset{D: int64(i + 1)}
		w := pick(r, []string{dec(1, 10), dec(1, 1), dec(1, 2), dec(3, 100), dec(2, 1), "0", dec(1, 3)})
		a.W = w
		a.Lo = "0"
		a.Hi = dec(5, 1)
		a.Take = pick(r, []string{"0", "0", dec(1, 100), dec(1, 2), dec(1, 1000000), dec(999, 1000), "1"})
		a.Rate = pick(r, []string{dec(1, 1), dec(1, 1), dec(99, 100), dec(1, 2), dec(101, 100)})
		a.Iv = pick(r, []int64{0, int64(time.Hour), int64(10 * time.Minute)})
		a.StartOffset = pick(r, []int64{-int64(time.Hour), -int64(time.Hour), 0, int64(2 * time.Hour)})
		c.Assets = append(c.Assets, a)
	}
	c.Blocks = 10 + r.Intn(15)
	c.Scale = pick(r, []int{3, 6, 6, 6, 9, 12, 18, 24})
	switch profile {
	case "takerate":
		for i := range c.Assets {
			c.Assets[i].Take = pick(r, []string{dec(1, 100), dec(1, 2), dec(1, 1000000), dec(999, 1000), dec(1, 10), "0", "1"})
			c.Assets[i].StartOffset = pick(r, []int64{-int64(time.Hour), 0, int64(30 * time.Minute)})
		}
		c.Scale = pick(r, []int{0, 1, 3, 6, 6, 12, 24})
	case "weights":
		for i := range c.Assets {
			c.Assets[i].Rate = pick(r, []string{dec(99, 100), dec(1, 2), dec(101, 100), dec(1, 1), dec(9, 10)})
			c.Assets[i].Iv = pick(r, []int64{int64(time.Hour), int64(10 * time.Minute), int64(time.Minute), 0})
		}
	case "rewards":
		c.Scale = pick(r, []int{3, 6, 6, 9, 12})
		for i := range c.Assets {
			c.Assets[i].StartOffset = pick(r, []int64{-int64(time.Hour), -int64(time.Hour), 0, int64(20 * time.Minute)})
		}
	}
	return c
}

// Start sets the module up through its real genesis import and emits the
// corresponding environment operations of the model.
func (w *World) Start(c Config) {
	gs := &types.GenesisState{Params: types.Params{RewardDelayTime: time.Duration(c.Delay), TakeRateClaimInterval: time.Duration(c.Interval)}}
	for _, a := range c.Assets {
		st := nsToTime(c.StartNs + a.StartOffset)
		gs.Assets = append(gs.Assets, types.AllianceAsset{
			Denom: denomName(a.D), RewardWeight: optDec(a.W), RewardWeightRange: types.RewardWeightRange{Min: optDec(a.Lo), Max: optDec(a.Hi)},
			TakeRate: optDec(a.Take), TotalTokens: math.ZeroInt(), TotalValidatorShares: math.LegacyZeroDec(),
			RewardStartTime: st, RewardChangeRate: optDec(a.Rate), RewardChangeInterval: time.Duration(a.Iv), LastRewardChangeTime: st,
		})
	}
	w.App.AllianceKeeper.InitGenesis(w.Ctx, gs)
	w.emit("H %s", w.HistID)
	w.emitStep(fmt.Sprintf("1 %s %d", timeStr(w.Ctx.BlockTime()), w.Ctx.BlockHeight()), rOK, false)
	w.emitStep(fmt.Sprintf("44 %d", c.Unbonding), rOK, false)
	w.emitStep(fmt.Sprintf("45 %d %d %s", c.Delay, c.Interval, zeroTimeNs), rOK, false)
	for _, a := range gs.Assets {
		w.emitStep("46 "+assetLine(a), rOK, false)
	}
	w.envSync(envSnap{flag: false, infos: map[int64]bool{}}, true)
}

type pos struct {
	u, v, d int64
}

func (w *World) positions() []pos {
	var out []pos
	for _, e := range w.rawPrefix(w.Ctx, types.DelegationKey) {
		parts := lpParts(e.k[1:])
		out = append(out, pos{w.idOfAcc(parts[0]), w.idOfVal(parts[1]), denomOfKeyPart(parts[2])})
	}
	return out
}

func (w *World) balanceOf(p pos) math.Int {
	bal, _ := w.balanceOfP(p)
	return bal
}

// balanceOfP asks the real gRPC query server for the reported balance of a position; a panic
// inside the query handler (sdk.NewCoin on a negative value) is returned as text, balance zero
func (w *World) balanceOfP(p pos) (bal math.Int, panicked string) {
	defer func() {
		if r := recover(); r != nil {
			bal = math.ZeroInt()
			panicked = fmt.Sprint(r)
		}
	}()
	res, err := w.Query.AllianceDelegation(w.Ctx, &types.QueryAllianceDelegationRequest{DelegatorAddr: w.AccAddr(p.u).String(),
		ValidatorAddr: w.ValAddr(p.v).String(), Denom: denomName(p.d)})
	if err != nil {
		return math.ZeroInt(), ""
	}
	return res.Delegation.Balance.Amount, ""
}

func (w *World) assetIDs() []int64 {
	var out []int64
	for _, a := range w.App.AllianceKeeper.GetAllAssets(w.Ctx) {
		out = append(out, denomID(a.Denom))
	}
	return out
}

// Scale is the typical magnitude (power of ten) of amounts in the current history;
// most amounts stay within three orders of it, extremes are mixed in rarely.
var Scale = 6

func amountClass(r *rand.Rand, max *big.Int) string {
	var x *big.Int
	if r.Intn(4) != 0 {
		e := Scale - 3 + r.Intn(5)
		if e < 0 {
			e = 0
		}
		x = new(big.Int).Mul(pow10(e), big.NewInt(int64(1+r.Intn(9))))
		if r.Intn(3) == 0 {
			x.Add(x, big.NewInt(int64(r.Intn(1000))))
		}
		if max != nil && x.Cmp(max) > 0 && r.Intn(8) != 0 {
			x = new(big.Int).Set(max)
		}
		return x.String()
	}
	switch r.Intn(10) {
	case 0:
		x = big.NewInt(1)
	case 1:
		x = big.NewInt(int64(2 + r.Intn(8)))
	case 2:
		x = big.NewInt(1000)
	case 3, 4:
		x = big.NewInt(1000000)
	case 5:
		x = pow10(12)
	case 6:
		x = pow10(18)
	case 7:
		x = pow10(24)
	case 8:
		x = new(big.Int).Rand(r, pow10(9+r.Intn(15)))
		x.Add(x, big.NewInt(1))
	default:
		x = pow10(30)
	}
	if max != nil && x.Cmp(max) > 0 && r.Intn(8) != 0 {
		x = new(big.Int).Set(max)
	}
	return x.String()
}

func fractionClass(r *rand.Rand) string {
	if r.Intn(150) == 0 {
		return dec(1, 1)
	}
	switch r.Intn(8) {
	case 0:
		return dec(1, 10000)
	case 1:
		return dec(1, 100)
	case 2:
		return dec(5, 100)
	case 3:
		return dec(1, 3)
	case 4:
		return dec(1, 2)
	case 5:
		return dec(9, 10)
	default:
		x := new(big.Int).Rand(r, e18)
		x.Add(x, big.NewInt(1))
		return x.String()
	}
}

func (w *World) dtClass(r *rand.Rand, c Config) int64 {
	switch r.Intn(10) {
	case 0:
		return 0
	case 1:
		return 1
	case 2:
		return c.Interval / 3
	case 3:
		return c.Interval
	case 4:
		return c.Interval*int64(2+r.Intn(4)) + int64(r.Intn(1000))
	case 5, 6:
		// exactly (or 1 ns around) a pending completion time
		var times []int64
		for _, e := range w.rawPrefix(w.Ctx, types.UndelegationQueueKey) {
			if t, err := sdk.ParseTimeBytes(lpParts(e.k[1:])[0]); err == nil {
				times = append(times, t.UnixNano())
			}
		}
		for _, e := range w.rawPrefix(w.Ctx, types.RedelegationQueueKey) {
			if t, err := sdk.ParseTimeBytes(e.k[1:]); err == nil {
				times = append(times, t.UnixNano())
			}
		}
		if len(times) > 0 {
			t := pick(r, times) + int64(r.Intn(3)-1)
			if d := t - w.Ctx.BlockTime().UnixNano(); d >= 0 {
				return d
			}
		}
		return int64(time.Second)
	case 7:
		return c.Unbonding/2 + int64(r.Intn(1000))
	case 8:
		return c.Unbonding + 1
	default:
		return int64(time.Duration(1+r.Intn(600)) * time.Second)
	}
}

// NextActions generates the actions of one block, looking at the real state so
// that most operations are valid.
func (w *World) GenBlock(r *rand.Rand, c Config) []Action {
	acts := []Action{{Kind: "begin", Dt: w.dtClass(r, c)}}
	n := r.Intn(6)
	for i := 0; i < n; i++ {
		acts = append(acts, w.genOp(r, c))
	}
	acts = append(acts, Action{Kind: "end"})
	return acts
}

func (w *World) randUser(r *rand.Rand) int64 { return int64(UserBase + r.Intn(len(w.Users))) }
func (w *World) randVal(r *rand.Rand) int64 {
	if r.Intn(40) == 0 {
		return int64(ValBase + len(w.Vals) + 3) // nonexistent
	}
	return int64(ValBase + r.Intn(len(w.Vals)))
}
func (w *World) randDenom(r *rand.Rand) int64 {
	ids := w.assetIDs()
	if len(ids) == 0 || r.Intn(40) == 0 {
		return pick(r, []int64{1, 2, 3, 8})
	}
	return pick(r, ids)
}

// operation mix per profile (weights); see DESIGN.md section 12 "generator"
var opKinds = []string{"delegate", "undelegate", "redelegate", "claim", "slashhook", "slashreal", "ndelegate", "nundelegate", "allocate", "donate", "gov", "jail"}
var profileWeights = map[string][]int{
	//                 del und red clm shk srl ndl nun alc don gov jail
	"general":      {28, 15, 12, 10, 4, 3, 3, 2, 11, 1, 4, 2},
	"custody":      {25, 22, 10, 8, 6, 2, 1, 1, 12, 4, 3, 1},
	"unbonding":    {22, 30, 6, 4, 8, 3, 1, 1, 6, 1, 2, 1},
	"shares":       {30, 22, 18, 4, 8, 2, 1, 1, 6, 0, 3, 0},
	"slash":        {22, 18, 18, 4, 14, 6, 1, 1, 8, 0, 2, 1},
	"takerate":     {30, 15, 8, 6, 2, 1, 1, 1, 8, 1, 8, 0},
	"staking":      {20, 10, 8, 4, 2, 8, 12, 10, 10, 1, 4, 8},
	"rewards":      {22, 8, 8, 24, 2, 1, 2, 1, 26, 1, 4, 1},
	"weights":      {22, 8, 6, 10, 1, 1, 2, 1, 16, 0, 28, 1},
	"redelegation": {24, 8, 34, 4, 8, 2, 1, 1, 6, 0, 2, 1},
	"gov":          {14, 6, 4, 4, 1, 1, 1, 1, 6, 0, 60, 0},
	"genesis":      {26, 18, 16, 8, 6, 2, 2, 1, 10, 1, 5, 1},
	"determinism":  {26, 15, 12, 10, 5, 3, 3, 2, 11, 1, 5, 2},
	"queries":      {24, 24, 20, 4, 8, 2, 1, 1, 6, 0, 2, 1},
}

func (w *World) genOp(r *rand.Rand, c Config) Action {
	ws, ok := profileWeights[c.Profile]
	if !ok {
		ws = profileWeights["general"]
	}
	tot := 0
	for _, x := range ws {
		tot += x
	}
	x := r.Intn(tot)
	kind := ""
	for i, wgt := range ws {
		if x < wgt {
			kind = opKinds[i]
			break
		}
		x -= wgt
	}
	ps := w.positions()
	switch kind {
	case "delegate":
		return w.genDelegate(r)
	case "undelegate":
		if len(ps) == 0 {
			return w.genDelegate(r)
		}
		p := pick(r, ps)
		if r.Intn(14) == 0 {
			// every holder of the asset leaves: staking cycles that end at a zero total (dust resets, C03)
			return Action{Kind: "drain", D: p.d}
		}
		bal := w.balanceOf(p).BigInt()
		return Action{Kind: "undelegate", U: p.u, V: p.v, D: p.d, Amt: w.withdrawAmount(r, bal)}
	case "redelegate":
		if len(ps) == 0 {
			return w.genDelegate(r)
		}
		p := pick(r, ps)
		bal := w.balanceOf(p).BigInt()
		dst := w.randVal(r)
		if dst == p.v && r.Intn(20) != 0 {
			dst = int64(ValBase + (int(p.v-ValBase)+1+r.Intn(len(w.Vals)-1))%len(w.Vals))
		}
		return Action{Kind: "redelegate", U: p.u, V: p.v, V2: dst, D: p.d, Amt: w.withdrawAmount(r, bal)}
	case "claim":
		if len(ps) == 0 {
			return w.genDelegate(r)
		}
		if r.Intn(25) == 0 {
			return Action{Kind: "claim", U: w.randUser(r), V: w.randVal(r), D: w.randDenom(r)}
		}
		p := pick(r, ps)
		return Action{Kind: "claim", U: p.u, V: p.v, D: p.d}
	case "slashhook":
		return Action{Kind: "slashhook", V: w.randVal(r), Amt: fractionClass(r)}
	case "slashreal":
		return Action{Kind: "slashreal", V: int64(ValBase + r.Intn(len(w.Vals))), Amt: fractionClass(r)}
	case "ndelegate":
		return Action{Kind: "ndelegate", U: w.randUser(r), V: int64(ValBase + r.Intn(len(w.Vals))), Amt: pick(r, []string{"1", "1000", "1000000", "5000000"})}
	case "nundelegate":
		// often the whole native delegation of that user
		u, v := w.randUser(r), int64(ValBase+r.Intn(len(w.Vals)))
		amt := pick(r, []string{"1", "1000", "1000000", "5000000"})
		if d, err := w.App.StakingKeeper.GetDelegation(w.Ctx, w.AccAddr(u), w.ValAddr(v)); err == nil && r.Intn(2) == 0 {
			if val, err := w.App.StakingKeeper.GetValidator(w.Ctx, w.ValAddr(v)); err == nil {
				amt = val.TokensFromShares(d.Shares).TruncateInt().String()
			}
		}
		return Action{Kind: "nundelegate", U: u, V: v, Amt: amt}
	case "allocate":
		coins := []string{fmt.Sprintf("%d:%s", BondDenomID, pick(r, []string{"1", "1000", "1000000", "123456789", "1000000000000"}))}
		if r.Intn(3) == 0 {
			coins = append(coins, fmt.Sprintf("%d:%s", 8, pick(r, []string{"7", "1000000", "999999999999"})))
		}
		if r.Intn(6) == 0 {
			coins = append(coins, fmt.Sprintf("%d:%s", 1, pick(r, []string{"5", "1000000"})))
		}
		return Action{Kind: "allocate", V: int64(ValBase + r.Intn(len(w.Vals))), Coins: coins}
	case "donate":
		return Action{Kind: "donate", U: w.randUser(r), V: pick(r, []int64{AccAlliance, AccRewards}), Coins: []string{fmt.Sprintf("%d:%s", pick(r, []int64{1, 2, 9}), "1000")}}
	case "gov":
		return w.genGov(r, c)
	case "jail":
		return Action{Kind: pick(r, []string{"jail", "unjail"}), V: int64(ValBase + r.Intn(len(w.Vals)))}
	}
	return w.genDelegate(r)
}

func (w *World) genDelegate(r *rand.Rand) Action {
	u, d := w.randUser(r), w.randDenom(r)
	bal := w.App.BankKeeper.GetBalance(w.Ctx, w.AccAddr(u), denomName(d)).Amount.BigInt()
	return Action{Kind: "delegate", U: u, V: w.randVal(r), D: d, Amt: amountClass(r, bal)}
}

func (w *World) withdrawAmount(r *rand.Rand, bal *big.Int) string {
	switch r.Intn(16) {
	case 0, 1, 2, 8, 9:
		return bal.String()
	case 3:
		return new(big.Int).Add(bal, big.NewInt(1)).String()
	case 4:
		if bal.Sign() > 0 {
			return new(big.Int).Sub(bal, big.NewInt(1)).String()
		}
		return "1"
	case 5:
		h := new(big.Int).Quo(bal, big.NewInt(2))
		if h.Sign() == 0 {
			return "1"
		}
		return h.String()
	default:
		if bal.Sign() > 0 {
			x := new(big.Int).Rand(r, bal)
			x.Add(x, big.NewInt(1))
			return x.String()
		}
		return "1"
	}
}

func (w *World) genGov(r *rand.Rand, c Config) Action {
	signer := int64(Authority)
	if r.Intn(8) == 0 {
		signer = w.randUser(r)
	}
	bad := r.Intn(4) == 0 // one quarter of the governance traffic is malformed
	weights := []string{"0", dec(1, 10), dec(1, 2), dec(1, 1), dec(2, 1), dec(1, 3), dec(3, 100)}
	los := []string{"0", "0", dec(1, 100)}
	his := []string{dec(5, 1), dec(5, 1), dec(10, 1), dec(2, 1)}
	takes := []string{"0", "0", dec(1, 100), dec(1, 2), dec(1, 1000000), dec(1, 10)}
	rates := []string{dec(1, 1), dec(1, 1), dec(99, 100), dec(1, 2), dec(101, 100)}
	ivs := []int64{0, int64(time.Hour), int64(10 * time.Minute), int64(time.Minute)}
	if bad {
		weights = append(weights, "", "-1", dec(100, 1), "1")
		los = append(los, "", "-1", dec(3, 1))
		his = append(his, "", "-1", "0")
		takes = append(takes, "", "-1", dec(1, 1), dec(2, 1), dec(999, 1000))
		rates = append(rates, "", "0", "-1", dec(2, 1))
		ivs = append(ivs, -1, 1)
	}
	ids := w.assetIDs()
	free := []int64{}
	for _, d := range []int64{1, 2, 3} {
		used := false
		for _, x := range ids {
			if x == d {
				used = true
			}
		}
		if !used {
			free = append(free, d)
		}
	}
	switch r.Intn(10) {
	case 0, 1:
		d := pick(r, []int64{1, 2, 3})
		if len(free) > 0 && r.Intn(5) != 0 {
			d = pick(r, free)
		}
		if bad && r.Intn(6) == 0 {
			d = -1
		}
		return Action{Kind: "create", U: signer, D: d, W: pick(r, weights), Lo: pick(r, los), Hi: pick(r, his), Take: pick(r, takes), Rate: pick(r, rates), Iv: pick(r, ivs)}
	case 2, 3, 4, 5, 6:
		return Action{Kind: "update", U: signer, D: w.randDenom(r), W: pick(r, weights), Lo: pick(r, los), Hi: pick(r, his), Take: pick(r, takes), Rate: pick(r, rates), Iv: pick(r, ivs)}
	case 7:
		return Action{Kind: "delete", U: signer, D: w.randDenom(r)}
	default:
		last := ""
		if r.Intn(2) == 0 {
			last = fmt.Sprint(w.Ctx.BlockTime().UnixNano() - int64(r.Intn(3))*c.Interval)
		}
		ivals := []int64{int64(time.Minute), int64(5 * time.Minute), int64(time.Hour)}
		delays := []int64{0, int64(time.Hour)}
		if bad {
			ivals = append(ivals, -1, 0, 1)
			delays = append(delays, -1)
		}
		return Action{Kind: "params", U: signer, Iv: pick(r, delays), Iv2: pick(r, ivals), Last: last}
	}
}

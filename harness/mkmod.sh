#!/bin/sh
# Regenerates go.mod / go.sum of the harness from /repo's (same dependency
# versions, module renamed, terra-money/alliance replaced by /repo's working tree).
set -e
cd "$(dirname "$0")"
REPO=${VERIF_REPO:-/repo}
sed 's#^module github.com/terra-money/alliance#module verif/harness#' "$REPO/go.mod" > go.mod
printf '\nrequire github.com/terra-money/alliance v0.0.0\nreplace github.com/terra-money/alliance => %s\n' "$REPO" >> go.mod
cp "$REPO/go.sum" go.sum

package harness

import (
	"crypto/sha256"
	"encoding/hex"
	"fmt"
	"strings"
	"time"

	"cosmossdk.io/math"
	sdk "github.com/cosmos/cosmos-sdk/types"
	distrtypes "github.com/cosmos/cosmos-sdk/x/distribution/types"
	stakingtypes "github.com/cosmos/cosmos-sdk/x/staking/types"

	"github.com/terra-money/alliance/x/alliance"
	"github.com/terra-money/alliance/x/alliance/types"
)

// Action is one step of a history as the harness executes it on the real
// application.  Histories are stored as JSON lists of actions (replay files).
type Action struct {
	Kind string `json:"k"`
	// common integer arguments
	U   int64  `json:"u,omitempty"`  // user / signer id
	V   int64  `json:"v,omitempty"`  // validator id
	V2  int64  `json:"v2,omitempty"` // destination validator id
	D   int64  `json:"d,omitempty"`  // denom id
	Amt string `json:"a,omitempty"`  // integer amount or 10^18-scaled decimal
	Dt  int64  `json:"dt,omitempty"` // nanoseconds
	// governance fields: decimals scaled by 10^18 as strings, "" = nil
	W, Lo, Hi, Take, Rate string
	Iv                    int64    // interval / duration (ns)
	Iv2                   int64    // second duration (params)
	Last                  string   // LastTakeRateClaimTime (ns) for params
	Coins                 []string `json:"c,omitempty"` // "denomID:amount"
}

const (
	rOK    = 0
	rErr   = 1
	rPanic = 2
)

func (w *World) emit(format string, a ...interface{}) { fmt.Fprintf(w.Out, format+"\n", a...) }

// emitStep writes one model operation with the implementation's result class and
// (when cmp) the observed state.
func (w *World) emitStep(op string, class int, cmp bool) {
	w.NSteps++
	w.emit("O %s", op)
	w.emit("R %d %d", class, b2i(cmp))
	if cmp && w.LastEvents != "" {
		w.emit("V %s", w.LastEvents) // digest of the events of this operation (C19)
		w.LastEvents = ""
	}
	if class != rOK {
		w.emit("# class=%d %s", class, strings.ReplaceAll(w.LastErr, "\n", " "))
	}
	if cmp {
		for _, l := range w.DumpState(w.Ctx) {
			w.emit("S %s", l)
		}
	}
	w.emit("E")
	if cmp && !w.Halted && w.outsideDomain() {
		// share/token ratios beyond 10^27: 315-bit overflow of LegacyDec comes into reach; the
		// model's arithmetic is unbounded, so the history ends here (Admissible, DESIGN.md 3.1)
		w.emit("A ratio-bound")
		w.Halted = true
	}
}

var ratioBound = math.LegacyNewDecFromInt(math.NewIntFromBigInt(pow10(27)))

func (w *World) outsideDomain() bool {
	k := w.App.AllianceKeeper
	assets := k.GetAllAssets(w.Ctx)
	for _, a := range assets {
		if a.TotalTokens.IsPositive() && a.TotalValidatorShares.GT(ratioBound.MulInt(a.TotalTokens)) {
			return true
		}
	}
	out := false
	_ = k.IterateAllianceValidatorInfo(w.Ctx, func(valAddr sdk.ValAddress, info types.AllianceValidatorInfo) bool {
		v := types.AllianceValidator{AllianceValidatorInfo: &info}
		for _, a := range assets {
			ds := v.TotalDelegationSharesWithDenom(a.Denom)
			if ds.IsPositive() {
				vt := v.TotalTokensWithAsset(*a)
				if vt.IsPositive() && ds.Quo(vt).GT(ratioBound) {
					out = true
					return true
				}
			}
		}
		return false
	})
	return out
}

// ---- environment synchronisation -------------------------------------------

func (w *World) flagSet() bool {
	return len(w.rawPrefix(w.Ctx, types.AssetRebalanceQueueKey)) > 0
}
func (w *World) valInfoIDs() map[int64]bool {
	m := map[int64]bool{}
	for _, e := range w.rawPrefix(w.Ctx, types.ValidatorInfoKey) {
		m[w.idOfVal(lpParts(e.k[1:])[0])] = true
	}
	return m
}

type envSnap struct {
	flag  bool
	infos map[int64]bool
}

func (w *World) envBefore() envSnap { return envSnap{w.flagSet(), w.valInfoIDs()} }

// envSync emits, after something the environment (bank, staking, distribution,
// a third party) did on its own, the operations that bring the model's view of
// the environment up to date: staking view, changed balances / supplies, a
// queued rebalance, removed validator records.
func (w *World) envSync(before envSnap, cmp bool) {
	// staking view
	var vs, ds []string
	for _, l := range w.stakingLines(w.Ctx) {
		f := strings.Fields(l)
		if f[0] == "13" {
			vs = append(vs, strings.Join(f[1:], " "))
		} else {
			ds = append(ds, strings.Join(f[1:], " "))
		}
	}
	op := fmt.Sprintf("40 %d", len(vs))
	for _, x := range vs {
		op += " " + x
	}
	op += fmt.Sprintf(" %d", len(ds))
	for _, x := range ds {
		op += " " + x
	}
	w.emitStep(op, rOK, false)
	// bank
	var bs, ss []string
	for _, acc := range w.trackedAccounts() {
		for _, d := range trackedDenoms {
			b := intStr(w.App.BankKeeper.GetBalance(w.Ctx, w.AccAddr(acc), denomName(d)).Amount)
			key := [2]int64{acc, d}
			old, ok := w.prevBank[key]
			if !ok {
				old = "0"
			}
			if old != b {
				bs = append(bs, fmt.Sprintf("%d %d %s", acc, d, b))
			}
		}
	}
	for _, d := range trackedDenoms {
		s := intStr(w.App.BankKeeper.GetSupply(w.Ctx, denomName(d)).Amount)
		old, ok := w.prevSupply[d]
		if !ok {
			old = "0"
		}
		if old != s {
			ss = append(ss, fmt.Sprintf("%d %s", d, s))
		}
	}
	op = fmt.Sprintf("41 %d", len(bs))
	for _, x := range bs {
		op += " " + x
	}
	op += fmt.Sprintf(" %d", len(ss))
	for _, x := range ss {
		op += " " + x
	}
	w.emitStep(op, rOK, false)
	if w.flagSet() && !before.flag {
		w.emitStep("42", rOK, false)
	}
	after := w.valInfoIDs()
	for id := range before.infos {
		if !after[id] {
			w.emitStep(fmt.Sprintf("43 %d", id), rOK, false)
		}
	}
	w.rememberBank()
	if cmp {
		// a no-op (queue nothing): re-sending the staking view, with comparison
		w.emitStep(fmt.Sprintf("44 %d", int64(w.unbondingTime())), rOK, true)
	}
}

func (w *World) unbondingTime() time.Duration {
	d, _ := w.App.StakingKeeper.UnbondingTime(w.Ctx)
	return d
}

func (w *World) rememberBank() {
	for _, acc := range w.trackedAccounts() {
		for _, d := range trackedDenoms {
			w.prevBank[[2]int64{acc, d}] = intStr(w.App.BankKeeper.GetBalance(w.Ctx, w.AccAddr(acc), denomName(d)).Amount)
		}
	}
	for _, d := range trackedDenoms {
		w.prevSupply[d] = intStr(w.App.BankKeeper.GetSupply(w.Ctx, denomName(d)).Amount)
	}
}

// ---- withdrawals observed through events (the distribution oracle) ----------

func (w *World) oracleOp(ctx sdk.Context) string {
	mod := w.AccAddr(AccAlliance).String()
	var items []string
	for _, ev := range ctx.EventManager().Events() {
		if ev.Type != distrtypes.EventTypeWithdrawRewards {
			continue
		}
		var amount, val, del string
		for _, a := range ev.Attributes {
			switch a.Key {
			case sdk.AttributeKeyAmount:
				amount = a.Value
			case distrtypes.AttributeKeyValidator:
				val = a.Value
			case distrtypes.AttributeKeyDelegator:
				del = a.Value
			}
		}
		if del != mod {
			continue
		}
		coins, err := sdk.ParseCoinsNormalized(amount)
		if err != nil {
			w.T.Fatalf("cannot parse withdraw amount %q: %v", amount, err)
		}
		s := fmt.Sprintf("%d", w.idOfValBech(val))
		n := 0
		var cs string
		for _, c := range coins {
			if c.Amount.IsZero() {
				continue
			}
			n++
			cs += fmt.Sprintf(" %d %s", denomID(c.Denom), intStr(c.Amount))
		}
		items = append(items, fmt.Sprintf("%s %d%s", s, n, cs))
	}
	op := fmt.Sprintf("50 %d", len(items))
	for _, x := range items {
		op += " " + x
	}
	return op
}

// runBranch executes f on a cached branch of the state; it is written back when
// keep(class) says so.  Panics are recovered and classified.
func (w *World) runBranch(f func(ctx sdk.Context) error, keep func(class int) bool) (class int, oracle string, errText string) {
	cctx, write := w.Ctx.CacheContext()
	cctx = cctx.WithEventManager(sdk.NewEventManager())
	func() {
		defer func() {
			if r := recover(); r != nil {
				class = rPanic
				errText = fmt.Sprint(r)
			}
		}()
		if err := f(cctx); err != nil {
			class = rErr
			errText = err.Error()
		}
	}()
	w.LastErr = errText
	w.LastEvents = eventsDigest(cctx)
	oracle = w.oracleOp(cctx)
	if keep(class) {
		write()
	}
	return
}

func eventsDigest(ctx sdk.Context) string {
	h := sha256.New()
	for _, ev := range ctx.EventManager().Events() {
		h.Write([]byte(ev.Type))
		for _, a := range ev.Attributes {
			h.Write([]byte{0})
			h.Write([]byte(a.Key))
			h.Write([]byte{1})
			h.Write([]byte(a.Value))
		}
		h.Write([]byte{2})
	}
	return hex.EncodeToString(h.Sum(nil)[:12])
}

func keepOnOK(c int) bool     { return c == rOK }
func keepUnlessPanic(c int) bool { return c != rPanic }

func optDec(s string) math.LegacyDec {
	if s == "" {
		return math.LegacyDec{}
	}
	n, ok := math.NewIntFromString(s)
	if !ok {
		panic("bad decimal " + s)
	}
	return math.LegacyNewDecFromIntWithPrec(n, 18)
}
func optField(s string) string {
	if s == "" {
		return "0 0"
	}
	return "1 " + s
}
func mustInt(s string) math.Int {
	n, ok := math.NewIntFromString(s)
	if !ok {
		panic("bad integer " + s)
	}
	return n
}
func parseCoins(cs []string) sdk.Coins {
	out := sdk.NewCoins()
	for _, c := range cs {
		p := strings.SplitN(c, ":", 2)
		var id int64
		fmt.Sscan(p[0], &id)
		out = out.Add(sdk.NewCoin(denomName(id), mustInt(p[1])))
	}
	return out
}

// Exec executes one action on the real application and emits the model
// operations that correspond to it.
func (w *World) Exec(a Action) {
	if w.Halted {
		return
	}
	switch a.Kind {
	case "begin":
		w.Ctx = w.Ctx.WithBlockTime(w.Ctx.BlockTime().Add(time.Duration(a.Dt))).WithBlockHeight(w.Ctx.BlockHeight() + 1)
		w.emitStep(fmt.Sprintf("1 %s %d", timeStr(w.Ctx.BlockTime()), w.Ctx.BlockHeight()), rOK, false)
	case "end":
		before := w.envBefore()
		if _, err := w.App.StakingKeeper.EndBlocker(w.Ctx); err != nil {
			w.T.Fatalf("staking EndBlocker: %v", err)
		}
		w.checkTriggerAfterStakingEndBlock(before)
		w.envSync(before, true)
		flagBefore := w.flagSet()
		class, oracle, _ := w.runBranch(func(ctx sdk.Context) error {
			return alliance.EndBlocker(ctx, w.App.AllianceKeeper)
		}, keepOnOK)
		w.emitStep(oracle, rOK, false)
		w.emitStep("2", class, true)
		w.rememberBank()
		if class != rOK {
			w.Halted = true // the chain halts
		} else {
			switch w.Profile {
			case "staking":
				if flagBefore {
					w.checkRebalanced()
				}
				w.checkSupply()
			case "queries":
				w.checkQueries()
			case "general", "rewards":
				w.checkLiveness()
			}
		}
	case "delegate", "undelegate", "redelegate", "claim":
		w.execUserMsg(a)
	case "drain":
		// every position of the asset undelegates its whole reported balance (two passes: a first
		// attempt can fail on rounding and succeed once others have left)
		for pass := 0; pass < 2; pass++ {
			for _, p := range w.positions() {
				if p.d != a.D || w.Halted {
					continue
				}
				if bal := w.balanceOf(p); bal.IsPositive() {
					w.execUserMsg(Action{Kind: "undelegate", U: p.u, V: p.v, D: p.d, Amt: bal.String()})
				}
			}
		}
	case "create", "update", "delete", "params":
		w.execGov(a)
	case "slashhook":
		f := optDec(a.Amt)
		class, oracle, _ := w.runBranch(func(ctx sdk.Context) error {
			return w.App.AllianceKeeper.StakingHooks().BeforeValidatorSlashed(ctx, w.ValAddr(a.V), f)
		}, keepUnlessPanic)
		w.emitStep(oracle, rOK, false)
		w.emitStep(fmt.Sprintf("30 %d %s", a.V, a.Amt), class, true)
		w.rememberBank()
	case "slashreal":
		w.execRealSlash(a)
	case "ndelegate":
		before := w.envBefore()
		val, err := w.App.StakingKeeper.GetValidator(w.Ctx, w.ValAddr(a.V))
		if err == nil {
			_, _, _ = w.runBranch(func(ctx sdk.Context) error {
				_, err := w.App.StakingKeeper.Delegate(ctx, w.AccAddr(a.U), mustInt(a.Amt), stakingtypes.Unbonded, val, true)
				if err == nil {
					w.expectFlag(ctx, "native delegation")
				}
				return err
			}, keepOnOK)
		}
		w.envSync(before, true)
	case "nundelegate":
		before := w.envBefore()
		_, _, _ = w.runBranch(func(ctx sdk.Context) error {
			sh, err := w.App.StakingKeeper.ValidateUnbondAmount(ctx, w.AccAddr(a.U), w.ValAddr(a.V), mustInt(a.Amt))
			if err != nil {
				return err
			}
			_, _, err = w.App.StakingKeeper.Undelegate(ctx, w.AccAddr(a.U), w.ValAddr(a.V), sh)
			if err == nil {
				w.expectFlag(ctx, "native undelegation")
			}
			return err
		}, keepOnOK)
		w.envSync(before, true)
	case "jail":
		before := w.envBefore()
		i := int(a.V - ValBase)
		if i >= 0 && i < len(w.Cons) {
			if v, err := w.App.StakingKeeper.GetValidator(w.Ctx, w.ValAddr(a.V)); err == nil && !v.Jailed {
				_ = w.App.StakingKeeper.Jail(w.Ctx, w.Cons[i])
			}
		}
		w.envSync(before, true)
	case "unjail":
		before := w.envBefore()
		i := int(a.V - ValBase)
		if i >= 0 && i < len(w.Cons) {
			if v, err := w.App.StakingKeeper.GetValidator(w.Ctx, w.ValAddr(a.V)); err == nil && v.Jailed {
				_ = w.App.StakingKeeper.Unjail(w.Ctx, w.Cons[i])
			}
		}
		w.envSync(before, true)
	case "allocate":
		before := w.envBefore()
		coins := parseCoins(a.Coins)
		if val, err := w.App.StakingKeeper.GetValidator(w.Ctx, w.ValAddr(a.V)); err == nil && !coins.Empty() {
			w.fundDistribution(coins)
			if err := w.App.DistrKeeper.AllocateTokensToValidator(w.Ctx, val, sdk.NewDecCoinsFromCoins(coins...)); err != nil {
				w.T.Fatalf("allocate: %v", err)
			}
		}
		w.envSync(before, true)
	case "donate":
		before := w.envBefore()
		coins := parseCoins(a.Coins)
		_ = w.App.BankKeeper.SendCoins(w.Ctx, w.AccAddr(a.U), w.AccAddr(a.V), coins)
		w.envSync(before, true)
	default:
		w.T.Fatalf("unknown action kind %q", a.Kind)
	}
}

func (w *World) execUserMsg(a Action) {
	del := w.AccAddr(a.U).String()
	var f func(ctx sdk.Context) error
	var op string
	switch a.Kind {
	case "delegate":
		f = func(ctx sdk.Context) error {
			_, err := w.Msg.Delegate(ctx, &types.MsgDelegate{DelegatorAddress: del, ValidatorAddress: w.ValAddr(a.V).String(),
				Amount: sdk.Coin{Denom: denomName(a.D), Amount: mustInt(a.Amt)}})
			return err
		}
		op = fmt.Sprintf("10 %d %d %d %s", a.U, a.V, a.D, a.Amt)
	case "undelegate":
		f = func(ctx sdk.Context) error {
			_, err := w.Msg.Undelegate(ctx, &types.MsgUndelegate{DelegatorAddress: del, ValidatorAddress: w.ValAddr(a.V).String(),
				Amount: sdk.Coin{Denom: denomName(a.D), Amount: mustInt(a.Amt)}})
			return err
		}
		op = fmt.Sprintf("11 %d %d %d %s", a.U, a.V, a.D, a.Amt)
	case "redelegate":
		f = func(ctx sdk.Context) error {
			_, err := w.Msg.Redelegate(ctx, &types.MsgRedelegate{DelegatorAddress: del, ValidatorSrcAddress: w.ValAddr(a.V).String(),
				ValidatorDstAddress: w.ValAddr(a.V2).String(), Amount: sdk.Coin{Denom: denomName(a.D), Amount: mustInt(a.Amt)}})
			return err
		}
		op = fmt.Sprintf("12 %d %d %d %d %s", a.U, a.V, a.V2, a.D, a.Amt)
	case "claim":
		f = func(ctx sdk.Context) error {
			_, err := w.Msg.ClaimDelegationRewards(ctx, &types.MsgClaimDelegationRewards{DelegatorAddress: del,
				ValidatorAddress: w.ValAddr(a.V).String(), Denom: denomName(a.D)})
			return err
		}
		op = fmt.Sprintf("13 %d %d %d", a.U, a.V, a.D)
	}
	class, oracle, _ := w.runBranch(f, keepOnOK)
	w.emitStep(oracle, rOK, false)
	w.emitStep(op, class, true)
	w.rememberBank()
	if w.Profile == "queries" && class == rOK && (a.Kind == "undelegate" || a.Kind == "redelegate") {
		w.checkQueries()
	}
	if w.Profile == "staking" {
		w.checkSupply()
	}
}

func (w *World) execGov(a Action) {
	auth := w.AccAddr(a.U).String()
	var f func(ctx sdk.Context) error
	var op string
	rng := types.RewardWeightRange{Min: optDec(a.Lo), Max: optDec(a.Hi)}
	msgFields := fmt.Sprintf("%d %d %s %s %s %s %s %d", a.U, a.D, optField(a.W), optField(a.Lo), optField(a.Hi), optField(a.Take), optField(a.Rate), a.Iv)
	switch a.Kind {
	case "create":
		f = func(ctx sdk.Context) error {
			_, err := w.Msg.CreateAlliance(ctx, &types.MsgCreateAlliance{Authority: auth, Denom: denomName(a.D), RewardWeight: optDec(a.W),
				TakeRate: optDec(a.Take), RewardChangeRate: optDec(a.Rate), RewardChangeInterval: time.Duration(a.Iv), RewardWeightRange: rng})
			return err
		}
		op = "20 " + msgFields
	case "update":
		f = func(ctx sdk.Context) error {
			_, err := w.Msg.UpdateAlliance(ctx, &types.MsgUpdateAlliance{Authority: auth, Denom: denomName(a.D), RewardWeight: optDec(a.W),
				TakeRate: optDec(a.Take), RewardChangeRate: optDec(a.Rate), RewardChangeInterval: time.Duration(a.Iv), RewardWeightRange: rng})
			return err
		}
		op = "21 " + msgFields
	case "delete":
		f = func(ctx sdk.Context) error {
			_, err := w.Msg.DeleteAlliance(ctx, &types.MsgDeleteAlliance{Authority: auth, Denom: denomName(a.D)})
			return err
		}
		op = fmt.Sprintf("22 %d %d", a.U, a.D)
	case "params":
		last := time.Time{}
		lastS := zeroTimeNs
		if a.Last != "" {
			var ns int64
			fmt.Sscan(a.Last, &ns)
			last = nsToTime(ns)
			lastS = timeStr(last)
		}
		f = func(ctx sdk.Context) error {
			_, err := w.Msg.UpdateParams(ctx, &types.MsgUpdateParams{Authority: auth, Params: types.Params{
				RewardDelayTime: time.Duration(a.Iv), TakeRateClaimInterval: time.Duration(a.Iv2), LastTakeRateClaimTime: last}})
			return err
		}
		op = fmt.Sprintf("23 %d %d %d %s", a.U, a.Iv, a.Iv2, lastS)
	}
	class, oracle, _ := w.runBranch(f, keepOnOK)
	w.emitStep(oracle, rOK, false)
	w.emitStep(op, class, true)
	w.rememberBank()
}

// execRealSlash slashes through x/staking: staking computes the effective
// fraction, calls the alliance hook (swallowing its error) and burns tokens.
func (w *World) execRealSlash(a Action) {
	i := int(a.V - ValBase)
	if i < 0 || i >= len(w.Cons) {
		return
	}
	val, err := w.App.StakingKeeper.GetValidator(w.Ctx, w.ValAddr(a.V))
	if err != nil || val.Tokens.IsZero() {
		return
	}
	factor := optDec(a.Amt)
	power := val.ConsensusPower(w.App.StakingKeeper.PowerReduction(w.Ctx))
	if !val.IsBonded() {
		power = val.PotentialConsensusPower(w.App.StakingKeeper.PowerReduction(w.Ctx))
	}
	// mirror of x/staking Slash for an infraction at the current height
	amount := w.App.StakingKeeper.TokensFromConsensusPower(w.Ctx, power)
	slashAmount := math.LegacyNewDecFromInt(amount).Mul(factor).TruncateInt()
	tokensToBurn := math.MinInt(slashAmount, val.Tokens)
	tokensToBurn = math.MaxInt(tokensToBurn, math.ZeroInt())
	if tokensToBurn.IsZero() || val.IsUnbonded() {
		return
	}
	effective := math.LegacyNewDecFromInt(tokensToBurn).QuoRoundUp(math.LegacyNewDecFromInt(val.Tokens))
	if effective.GT(math.LegacyOneDec()) {
		effective = math.LegacyOneDec()
	}
	// result class of the callback, learnt on a discarded branch
	class, oracle, _ := w.runBranch(func(ctx sdk.Context) error {
		return w.App.AllianceKeeper.StakingHooks().BeforeValidatorSlashed(ctx, w.ValAddr(a.V), effective)
	}, func(int) bool { return false })
	if class == rPanic {
		// production would halt the chain inside staking; the history ends here
		w.emitStep(oracle, rOK, false)
		w.emitStep(fmt.Sprintf("30 %d %s", a.V, decStr(effective)), class, true)
		w.Halted = true
		return
	}
	before := w.envBefore()
	if _, err := w.App.StakingKeeper.Slash(w.Ctx, w.Cons[i], w.Ctx.BlockHeight(), power, factor); err != nil {
		w.T.Fatalf("staking Slash: %v", err)
	}
	w.emitStep(oracle, rOK, false)
	w.emitStep(fmt.Sprintf("30 %d %s", a.V, decStr(effective)), class, false)
	w.envSync(before, true)
}

// ---- C10 trigger contract, checked on the implementation --------------------

func (w *World) expectFlag(ctx sdk.Context, what string) {
	if len(w.rawPrefix(ctx, types.AssetRebalanceQueueKey)) == 0 {
		w.Monitors = append(w.Monitors, "C10 no rebalance queued after "+what)
	}
}

func (w *World) checkTriggerAfterStakingEndBlock(before envSnap) {
	// a validator that changed bond status in the staking end-of-block must queue a rebalance;
	// detected by comparing the statuses of the previous staking view (prevStatus)
	cur := map[int64]int{}
	vs, _ := w.App.StakingKeeper.GetAllValidators(w.Ctx)
	for _, v := range vs {
		a, _ := sdk.ValAddressFromBech32(v.GetOperator())
		cur[w.idOfVal(a)] = int(v.Status)
	}
	changed := false
	for id, st := range cur {
		if old, ok := w.prevStatus[id]; ok && (old == 3) != (st == 3) {
			changed = true
		}
	}
	for id := range w.prevStatus {
		if _, ok := cur[id]; !ok {
			changed = true
		}
	}
	if changed && !w.flagSet() {
		w.Monitors = append(w.Monitors, "C10 no rebalance queued after a validator changed bond status")
	}
	w.prevStatus = cur
}

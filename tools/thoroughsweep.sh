#!/bin/bash
cd /verif
: > build/thorough.log
for i in "$@"; do
  t0=$(date +%s)
  ./check C$i thorough > build/thorough-C$i.log 2>&1; rc=$?
  echo "C$i rc=$rc violations=$(grep -c '^VIOLATION' build/thorough-C$i.log) secs=$(( $(date +%s) - t0 )) $(tail -1 build/thorough-C$i.log | cut -c1-150)" >> build/thorough.log
done
echo done >> build/thorough.log

#!/bin/sh
# usage: soak.sh <seed0> <nproc> <count-per-proc> [profile]
# always rebuild the harness against /repo's current tree (a stale binary from a seeded tree once misled a soak)
export GOFLAGS=-mod=mod GOPROXY=off GOSUMDB=off GOTOOLCHAIN=local
(cd /verif/harness && ./mkmod.sh >/dev/null && go test -c -vet=off -o /verif/build/harness.test . 2>&1 | grep -v '^WARNING')
cd /verif/build
S=$1; N=$2; C=$3; P=$4
for i in $(seq 0 $((N-1))); do
  ( H_SEED=$((S+i)) H_COUNT=$C H_PROFILE=$P H_TRACE=/verif/build/soak-$i.trace H_HIST=/verif/build/soak-$i.hist ./harness.test -test.run TestRun >/verif/build/soak-$i.log 2>&1; /verif/ocaml/driver /verif/build/soak-$i.trace ${PROP:-0} all > /verif/build/soak-$i.out ) &
done
wait
cat /verif/build/soak-*.out | grep -v "^OK" | cut -c1-700
grep -h "^M " /verif/build/soak-*.trace | sort | uniq -c | head
grep -L "^PASS" /verif/build/soak-*.log

#!/bin/bash
# runs all 20 quick checks under other generator seeds; evidence is restored afterwards
cd /verif
cp -r evidence build/evidence.keep
for s in "$@"; do
  for i in 01 02 03 04 05 06 07 08 09 10 11 12 13 14 15 16 17 18 19 20; do
    VERIF_SEED=$s ./check C$i quick > build/sweep-$s-C$i.log 2>&1; echo "seed=$s C$i rc=$?" >> build/sweep.log
  done
done
rm -rf evidence; mv build/evidence.keep evidence
echo done >> build/sweep.log

#!/bin/bash
# matrix.sh [seed ...] — applies each confirmed seeded change to /repo, runs the quick check of
# its property, reverts; writes build/matrix/<seed>.log and prints one line per seed
cd /verif
mkdir -p build/matrix
SEEDS="$@"
[ -z "$SEEDS" ] && SEEDS=$(ls seeded)
for s in $SEEDS; do
  pid=$(python3 -c "import json;print(json.load(open('seeded/$s/meta.json'))['property'])" 2>/dev/null)
  grep -q "\"property_id\": \"$pid\"" MANIFEST.json || { echo "$s $pid not-claimed"; continue; }
  git -C /repo apply /verif/seeded/$s/patch.diff || { echo "$s apply-failed"; continue; }
  t0=$(date +%s)
  ./check $pid quick > build/matrix/$s.log 2>&1; rc=$?
  git -C /repo checkout -- . 
  v=$(grep -c "^VIOLATION" build/matrix/$s.log)
  nf=$(grep -c "no-failing-input-found" build/matrix/$s.log)
  echo "$s $pid exit=$rc violations=$v nofail=$nf secs=$(( $(date +%s) - t0 ))"
done
tools/rebuild.sh > /dev/null 2>&1   # leave the harness built from the clean tree

#!/usr/bin/env python3
"""Writes MANIFEST.json from tools/claims.json (claimed properties with their
level texts) and properties.jsonl (everything else goes to not_applicable)."""
import json, os, sys
ROOT = os.path.dirname(os.path.dirname(os.path.abspath(__file__)))
claims = json.load(open(os.path.join(ROOT, "tools", "claims.json")))
ids = [json.loads(l)["id"] for l in open(os.path.join(ROOT, "properties.jsonl"))]
checks = []
for pid in ids:
    if pid not in claims:
        continue
    c = claims[pid]
    checks.append({
        "property_id": pid,
        "quick_cmd": "./check %s quick" % pid,
        "thorough_cmd": "./check %s thorough" % pid,
        "evidence_file": "evidence/%s.json" % pid,
        "replay_cmd_template": "./check %s --replay {path}" % pid,
        "engine": "coq-model+correspondence",
        "level_claimed": {"category": "proof", "text": c["text"], "design_ref": c["design_ref"]},
        "level_note": c["note"],
        "technique": c["technique"],
    })
m = {
    "version": 1,
    "setup_cmd": "./check --setup",
    "hooks": {"guard": "verif", "enable": "none needed: the harness (module verif/harness, replace => /repo) uses exported APIs only; no source commits in /repo carry hooks",
              "baseline_off_cmd": "cd /repo && GOFLAGS=-mod=mod go test -vet=off -count=1 ./...", "source_commits": [], "add_only": True},
    "engines": [{"name": "coq-model+correspondence", "path": "check", "serves_properties": [c["property_id"] for c in checks],
                 "kind_free_text": "Coq 8.16.1 theorems about an executable Gallina model of x/alliance (coq/theories), tied to /repo by a differential correspondence check: Go harness on the real app -> traces -> extracted OCaml model (exact comparison) + executable specifications evaluated on both traces"}],
    "checks": checks,
    "not_applicable": [{"property_id": p, "reason": claims.get("_pending", {}).get(p, "check under construction in this round: model and correspondence exist, the property theorems are not finished yet (DESIGN.md section 12)")} for p in ids if p not in claims],
    "notes": "See DESIGN.md. Checks rebuild the harness from /repo's working tree on every run; scratch output under /verif/build.",
}
json.dump(m, open(os.path.join(ROOT, "MANIFEST.json"), "w"), indent=1)
print("claimed:", [c["property_id"] for c in checks])

"""Per-property configuration of ./check: number, projection pi_X (tags of the
state lines the property reads, see IO.print_state), generator profile and
history budgets."""

# tags: 1 params+flag, 2 assets, 3 validator infos, 4 delegations, 5 redelegations,
# 6 redelegation queue, 7 unbonding queue, 8 redelegation index, 9 unbonding index,
# 10 snapshots, 11 bank balances, 12 supply, 13 staking validators, 14 module delegations
PROPS = {
 "C01": dict(num=1,  proj=[2, 7, 11],                 profile="custody",   quick=192, thorough=4800),
 "C02": dict(num=2,  proj=[7, 9, 11],                 profile="unbonding", quick=192, thorough=4800),
 "C03": dict(num=3,  proj=[2, 3, 4],                  profile="shares",    quick=192, thorough=4800),
 "C04": dict(num=4,  proj=[2, 3, 4],                  profile="shares",    quick=192, thorough=4800),
 "C05": dict(num=5,  proj=[2, 3, 4, 11],              profile="general",   quick=192, thorough=4800),
 "C06": dict(num=6,  proj=[2, 3, 4, 11],              profile="slash",     quick=192, thorough=4800),
 "C07": dict(num=7,  proj=[3, 4, 5, 7, 8, 9, 11],     profile="slash",     quick=192, thorough=4800),
 "C08": dict(num=8,  proj=[1, 2, 3, 4, 5, 7, 8, 9],   profile="slash",     quick=192, thorough=4800),
 "C09": dict(num=9,  proj=[1, 2, 11],                 profile="takerate",  quick=192, thorough=4800),
 "C10": dict(num=10, proj=[1, 2, 3, 13, 14],          profile="staking",   quick=192, thorough=4800),
 "C11": dict(num=11, proj=[11, 12, 13, 14],           profile="staking",   quick=192, thorough=4800),
 "C12": dict(num=12, proj=[3, 4, 10, 11],             profile="rewards",   quick=192, thorough=4800),
 "C13": dict(num=13, proj=[3, 4, 10, 11],             profile="rewards",   quick=192, thorough=4800),
 "C14": dict(num=14, proj=[1, 2, 10],                 profile="weights",   quick=192, thorough=4800),
 "C15": dict(num=15, proj=[2, 4, 5, 6, 8, 11],        profile="redelegation", quick=192, thorough=4800),
 "C16": dict(num=16, proj=[1, 2],                     profile="gov",       quick=192, thorough=4800),
 "C17": dict(num=17, proj=[1, 2, 7, 6],               profile="general",   quick=192, thorough=4800),
 "C18": dict(num=18, proj=list(range(1, 11)),         profile="genesis",   quick=128, thorough=3200),
 "C19": dict(num=19, proj=list(range(1, 15)),         profile="determinism", quick=96, thorough=2400),
 "C20": dict(num=20, proj=[4, 5, 7, 9],               profile="queries",   quick=192, thorough=4800),
}

ALLOWED_AXIOMS = []   # no axiom is expected; Print Assumptions must be closed

TRUSTED_BASE = [
 "Coq 8.16.1 kernel (coqc full .vo build; coqchk in the thorough tier); vm_compute for witnesses and the finite forallb of C19; no native_compute",
 "no axioms declared; every property theorem must print 'Closed under the global context'",
 "extraction: ExtrOcamlBasic only (bool, option, list, prod, unit, sumbool -> OCaml types); Z/positive/nat stay extracted inductives; hand-written OCaml = ocaml/main.ml (trace reader, decimal <-> Z, comparison)",
 "Go harness (harness/*.go): history generator, executor on the real app, raw-KV observer, event reader for the distribution oracle",
 "the hand-written model coq/theories/Model.v, tied to the code by exact differential comparison on generated histories only",
 "modelled, not verified: x/bank as a ledger, x/staking as view + hook contract + six share formulas, x/distribution as a recorded oracle, baseapp atomicity (tx/hook/endblock wrappers), store iteration order, protobuf round trip, Go time inside 1678..2262, big.Int; LegacyDec 315-bit overflow only in Power/decay (histories end when a share/token ratio exceeds 10^27)",
]

COMMON_ASSUMPTIONS = [
 "histories are Admissible: block times non-decreasing inside the sortable-time window, amounts <= 10^30, share/token ratios <= 10^27, equal-length alliance denoms",
 "x/staking and x/distribution behave as the real modules did during the run (their effects enter the model as recorded environment operations)",
]

#!/bin/sh
# rebuild.sh — extraction + driver + harness (against /repo's working tree), without running a check.
# NOTE: when copying .v files in from a scratch tree do not preserve mtimes (rsync -rc --no-times): a source
# older than a stale .vo is not rebuilt by make, and the driver is then extracted from the old model.
export GOFLAGS=-mod=mod GOPROXY=off GOSUMDB=off GOTOOLCHAIN=local
cd /verif/coq && make -k -j16 theories/Model.vo theories/Spec.vo theories/IO.vo theories/Queries.vo 2>&1 | grep -A3 Error
cd /verif/ocaml && coqc -Q ../coq/theories Alliance ../coq/theories/Extract.v > /dev/null && ocamlfind ocamlopt -w -a model.mli model.ml main.ml -o driver || exit 1
rm -f /verif/build/driver.stamp
cd /verif/harness && ./mkmod.sh && go test -c -vet=off -o /verif/build/harness.test . 2>&1 | grep -v "^WARNING"
echo rebuilt

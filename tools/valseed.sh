#!/bin/bash
# valseed.sh <seed-dir> <worktree>: confirms a seeded change in a scratch worktree
S=$1; WT=$2
export GOFLAGS=-mod=mod GOPROXY=off GOSUMDB=off GOTOOLCHAIN=local
ID=$(basename $S)
OUT=/verif/build/valseed-$ID.log
: > $OUT
cd $WT && git checkout -q -- . && git clean -fdq
META=$S/meta.json
DEMO_PATH=$(python3 -c "import json;print(json.load(open('$META'))['demo_path_in_repo'])" 2>/dev/null)
DEMO_CMD=$(python3 -c "import json;print(json.load(open('$META'))['demo_run_cmd'])" 2>/dev/null)
DEMO_FILE=$(ls $S/*_test.go | head -1)
# the agents used /tmp/wt-Ax paths in commands: rewrite to this worktree
DEMO_CMD=$(echo "$DEMO_CMD" | sed "s#/tmp/wt-[A-Z][0-9]*#$WT#g")
case "$DEMO_PATH" in
  *_test.go) DEST=$WT/$DEMO_PATH ;;
  *) DEST=$WT/$DEMO_PATH/$(basename $DEMO_FILE) ;;
esac
DEST=$(echo "$DEST" | sed "s#$WT//tmp/wt-[A-Z][0-9]*/#$WT/#; s#$WT/$WT#$WT#")
mkdir -p $(dirname $DEST); cp $DEMO_FILE $DEST
echo "demo: $DEST ; cmd: $DEMO_CMD" >> $OUT
# 1. demo passes without the change
(cd $WT && eval "$DEMO_CMD") >> $OUT 2>&1; R1=$?
# 2. apply, build
git -C $WT apply $S/patch.diff >> $OUT 2>&1; RA=$?
(cd $WT && go build ./... ) >> $OUT 2>&1; RB=$?
# 3. demo fails with the change
(cd $WT && eval "$DEMO_CMD") >> $OUT 2>&1; R2=$?
# 4. full suite passes with the change (demo file removed)
rm -f $DEST
(cd $WT && go test -vet=off -count=1 ./... 2>&1 | grep -v "no test files" | tail -15) >> $OUT 2>&1
FAILS=$(cd $WT && grep -c "^FAIL\|^--- FAIL" $OUT)
SUITE_LINES=$(tail -15 $OUT | grep -c "^ok")
cd $WT && git checkout -q -- . && git clean -fdq
echo "RESULT $ID demo_without=$R1 apply=$RA build=$RB demo_with=$R2 suite_ok_pkgs=$SUITE_LINES" | tee -a $OUT

#!/usr/bin/env python3
"""shrink.py — delta-debugging of a history on the real implementation.

  shrink.py <propnum> <signature-regex> <history.json> <out.json> [impl|monitor|mismatch]

Keeps removing blocks / actions while the harness + driver still report a line
matching the signature (PROPFAIL impl ... sig=<re> for specs, `M ... <re>` for
harness monitors).  Uses /verif/build/harness.test and /verif/ocaml/driver as
they are (build them first with ./check --setup)."""
import json, os, re, subprocess, sys, tempfile

BUILD = "/verif/build"


def fails(h, propnum, sig, mode):
    with tempfile.NamedTemporaryFile("w", suffix=".hist", dir=BUILD, delete=False) as f:
        f.write(json.dumps(h) + "\n")
        hp = f.name
    tp = hp + ".trace"
    env = dict(os.environ, H_REPLAY=hp, H_TRACE=tp)
    subprocess.run([os.path.join(BUILD, "harness.test"), "-test.run", "TestRun"], env=env, stdout=subprocess.DEVNULL, stderr=subprocess.DEVNULL)
    ok = False
    try:
        if mode == "monitor":
            for line in open(tp):
                if line.startswith("M ") and re.search(sig, line):
                    ok = True
                    break
        else:
            out = subprocess.run(["/verif/ocaml/driver", tp, str(propnum), "all"], capture_output=True, text=True).stdout
            for line in out.splitlines():
                if mode == "mismatch":
                    if line.startswith("MISMATCH") and re.search(sig, line):
                        ok = True
                        break
                elif line.startswith("PROPFAIL impl") and re.search("sig=" + sig + r"(\s|$)", line):
                    ok = True
                    break
    finally:
        for p in (hp, tp):
            if os.path.exists(p):
                os.unlink(p)
    return ok


def remove_range(h, i, j):
    """history without actions[i:j]; ForkAt (C18) keeps pointing at the same action"""
    acts = h["Actions"][:i] + h["Actions"][j:]
    f = h.get("ForkAt", 0)
    if f >= j:
        f -= (j - i)
    elif f > i:
        f = i
    return dict(h, Actions=acts, ForkAt=f)


def blocks(actions):
    """splits into groups begin .. end"""
    out, cur = [], []
    for a in actions:
        cur.append(a)
        if a["k"] == "end":
            out.append(cur)
            cur = []
    if cur:
        out.append(cur)
    return out


def main():
    propnum, sig, src, dst = int(sys.argv[1]), sys.argv[2], sys.argv[3], sys.argv[4]
    mode = sys.argv[5] if len(sys.argv) > 5 else "impl"
    h = json.loads(open(src).readline())
    h["ForkAt"] = h.get("ForkAt", 0)
    if not fails(h, propnum, sig, mode):
        print("signature not reproduced on the full history", file=sys.stderr)
        sys.exit(2)
    changed = True
    while changed:
        changed = False
        # truncate from the end first (cheap, big wins)
        bl = blocks(h["Actions"])
        lo, hi = 1, len(bl)
        while lo < hi:
            mid = (lo + hi) // 2
            keep = sum(len(b) for b in bl[:mid])
            cand = remove_range(h, keep, len(h["Actions"]))
            if fails(cand, propnum, sig, mode):
                hi = mid
            else:
                lo = mid + 1
        if hi < len(bl):
            h = remove_range(h, sum(len(b) for b in bl[:hi]), len(h["Actions"]))
            changed = True
        # drop whole blocks
        bl = blocks(h["Actions"])
        i = len(bl) - 2
        while i >= 0:
            start = sum(len(b) for b in bl[:i])
            cand = remove_range(h, start, start + len(bl[i]))
            if fails(cand, propnum, sig, mode):
                bl = bl[:i] + bl[i + 1:]
                h = cand
                changed = True
            i -= 1
        # drop single operations
        acts = h["Actions"]
        i = len(acts) - 1
        while i >= 0:
            if acts[i]["k"] not in ("begin", "end"):
                cand = remove_range(h, i, i + 1)
                if fails(cand, propnum, sig, mode):
                    acts = cand["Actions"]
                    h = cand
                    changed = True
            i -= 1
    # fewer validators / users are not attempted: ids are positional
    with open(dst, "w") as f:
        f.write(json.dumps(h) + "\n")
    print("shrunk to %d actions" % len(h["Actions"]))


if __name__ == "__main__":
    main()

// srcfacts — the translator of the static half of C19.  Scans the non-test Go
// source of the state machine (x/alliance, custom/bank) with go/parser and
// emits coq/theories/SourceFacts.v: one fact per construct that could make a
// state transition non-deterministic.  Regenerated from /repo on every run.
//
// Facts: (kind, file, function, line)
//   file          one per scanned file (line = number of lines) — non-vacuity
//   range_map     `range x` where x is syntactically a map in that function / package
//   time_now      call of time.Now / time.Since / time.Until
//   rand_import   import of math/rand, math/rand/v2 or crypto/rand
//   go_stmt       `go f()`
//   select_stmt   `select { ... }`
//   unsafe_import import of unsafe or reflect
//   float_type    use of float32 / float64
//   ptr_format    "%p" in a string literal
// The analysis is syntactic (no go/types: the module's dependencies cannot be
// type-checked cheaply offline): a map is recognised when the ranged expression
// is an identifier declared in the same function with a map type, a map
// literal, make(map...), a parameter of map type, or a package-level map /
// struct field of map type accessed by selector.
package main

import (
	"fmt"
	"go/ast"
	"go/parser"
	"go/token"
	"os"
	"path/filepath"
	"sort"
	"strings"
)

type fact struct {
	kind, file, fn string
	line           int
}

func isMapType(e ast.Expr) bool {
	switch t := e.(type) {
	case *ast.MapType:
		return true
	case *ast.ParenExpr:
		return isMapType(t.X)
	}
	return false
}

func isMapValue(e ast.Expr) bool {
	switch v := e.(type) {
	case *ast.CompositeLit:
		return v.Type != nil && isMapType(v.Type)
	case *ast.CallExpr:
		if id, ok := v.Fun.(*ast.Ident); ok && id.Name == "make" && len(v.Args) > 0 {
			return isMapType(v.Args[0])
		}
	}
	return false
}

func main() {
	root := os.Args[1]
	dirs := []string{"x/alliance", "x/alliance/keeper", "x/alliance/types", "x/alliance/bindings", "x/alliance/bindings/types",
		"custom/bank", "custom/bank/keeper", "custom/bank/types"}
	var facts []fact
	fset := token.NewFileSet()
	for _, d := range dirs {
		files, _ := filepath.Glob(filepath.Join(root, d, "*.go"))
		sort.Strings(files)
		// package-level map names and struct fields of map type
		pkgMaps := map[string]bool{}
		var parsed []*ast.File
		var names []string
		for _, f := range files {
			base := filepath.Base(f)
			if strings.HasSuffix(base, "_test.go") || strings.HasSuffix(base, ".pb.go") || strings.HasSuffix(base, ".pb.gw.go") {
				continue
			}
			af, err := parser.ParseFile(fset, f, nil, 0)
			if err != nil {
				fmt.Fprintln(os.Stderr, "parse error:", err)
				os.Exit(1)
			}
			parsed = append(parsed, af)
			names = append(names, filepath.Join(d, base))
			for _, decl := range af.Decls {
				if gd, ok := decl.(*ast.GenDecl); ok {
					for _, sp := range gd.Specs {
						switch s := sp.(type) {
						case *ast.ValueSpec:
							for i, n := range s.Names {
								if (s.Type != nil && isMapType(s.Type)) || (i < len(s.Values) && isMapValue(s.Values[i])) {
									pkgMaps[n.Name] = true
								}
							}
						case *ast.TypeSpec:
							if st, ok := s.Type.(*ast.StructType); ok {
								for _, fl := range st.Fields.List {
									if isMapType(fl.Type) {
										for _, n := range fl.Names {
											pkgMaps["."+n.Name] = true
										}
									}
								}
							}
							if isMapType(s.Type) {
								pkgMaps["type:"+s.Name.Name] = true
							}
						}
					}
				}
			}
		}
		for i, af := range parsed {
			name := names[i]
			pos := fset.File(af.Pos())
			facts = append(facts, fact{"file", name, "", pos.LineCount()})
			for _, im := range af.Imports {
				p := strings.Trim(im.Path.Value, `"`)
				switch p {
				case "math/rand", "math/rand/v2", "crypto/rand":
					facts = append(facts, fact{"rand_import", name, p, fset.Position(im.Pos()).Line})
				case "unsafe", "reflect":
					facts = append(facts, fact{"unsafe_import", name, p, fset.Position(im.Pos()).Line})
				}
			}
			for _, decl := range af.Decls {
				fd, ok := decl.(*ast.FuncDecl)
				if !ok || fd.Body == nil {
					continue
				}
				fn := fd.Name.Name
				local := map[string]bool{}
				if fd.Type.Params != nil {
					for _, p := range fd.Type.Params.List {
						if isMapType(p.Type) {
							for _, n := range p.Names {
								local[n.Name] = true
							}
						}
					}
				}
				ast.Inspect(fd.Body, func(n ast.Node) bool {
					switch s := n.(type) {
					case *ast.AssignStmt:
						for i, l := range s.Lhs {
							if id, ok := l.(*ast.Ident); ok && i < len(s.Rhs) && isMapValue(s.Rhs[i]) {
								local[id.Name] = true
							}
						}
					case *ast.DeclStmt:
						if gd, ok := s.Decl.(*ast.GenDecl); ok {
							for _, sp := range gd.Specs {
								if vs, ok := sp.(*ast.ValueSpec); ok {
									for i, nm := range vs.Names {
										if (vs.Type != nil && isMapType(vs.Type)) || (i < len(vs.Values) && isMapValue(vs.Values[i])) {
											local[nm.Name] = true
										}
									}
								}
							}
						}
					}
					return true
				})
				ast.Inspect(fd.Body, func(n ast.Node) bool {
					switch s := n.(type) {
					case *ast.RangeStmt:
						isMap := false
						switch x := s.X.(type) {
						case *ast.Ident:
							isMap = local[x.Name] || pkgMaps[x.Name]
						case *ast.SelectorExpr:
							isMap = pkgMaps["."+x.Sel.Name]
						default:
							isMap = isMapValue(s.X)
						}
						if isMap {
							facts = append(facts, fact{"range_map", name, fn, fset.Position(s.Pos()).Line})
						}
					case *ast.GoStmt:
						facts = append(facts, fact{"go_stmt", name, fn, fset.Position(s.Pos()).Line})
					case *ast.SelectStmt:
						facts = append(facts, fact{"select_stmt", name, fn, fset.Position(s.Pos()).Line})
					case *ast.CallExpr:
						if se, ok := s.Fun.(*ast.SelectorExpr); ok {
							if id, ok := se.X.(*ast.Ident); ok && id.Name == "time" && (se.Sel.Name == "Now" || se.Sel.Name == "Since" || se.Sel.Name == "Until") {
								facts = append(facts, fact{"time_now", name, fn, fset.Position(s.Pos()).Line})
							}
						}
					case *ast.Ident:
						if s.Name == "float32" || s.Name == "float64" {
							facts = append(facts, fact{"float_type", name, fn, fset.Position(s.Pos()).Line})
						}
					case *ast.BasicLit:
						if s.Kind == token.STRING && strings.Contains(s.Value, "%p") {
							facts = append(facts, fact{"ptr_format", name, fn, fset.Position(s.Pos()).Line})
						}
					}
					return true
				})
			}
		}
	}
	fmt.Println("(* GENERATED by tools/srcfacts from /repo's current source on every run — do not edit. *)")
	fmt.Println("From Coq Require Import String ZArith List.")
	fmt.Println("Import ListNotations.")
	fmt.Println("Open Scope string_scope.")
	fmt.Println("Definition source_facts : list (string * string * string * Z) :=")
	fmt.Println("  [")
	for i, f := range facts {
		sep := ";"
		if i == len(facts)-1 {
			sep = ""
		}
		fmt.Printf("   (%q, %q, %q, %d%%Z)%s\n", f.kind, f.file, f.fn, f.line, sep)
	}
	fmt.Println("  ].")
}

(* Model.v — executable Gallina model of x/alliance/keeper (commit pinned in
   /repo).  One definition per Go function, same order of reads, writes and
   early returns; comments name the Go function mirrored.  Definitions only. *)
From Coq Require Import ZArith List Bool.
From Alliance Require Import Num KMap Types Monad.
Import ListNotations.
Open Scope Z_scope.

(* ---------- identifiers ---------- *)
Definition ACC_ALLIANCE : Z := 1.     (* module account "alliance" (custody) *)
Definition ACC_REWARDS : Z := 2.      (* "alliance_rewards" *)
Definition ACC_FEE : Z := 3.          (* fee collector *)
Definition ACC_BONDED : Z := 4.       (* staking bonded pool *)
Definition ACC_NOTBONDED : Z := 5.    (* staking not-bonded pool *)
Definition BOND_DENOM : Z := 9.      (* "stake"; identifier order = string order of denoms *)
Definition AUTHORITY : Z := 7.        (* signer id of the gov authority *)
Definition ZERO_TIME : Z := -62135596800000000000. (* time.Time{} in ns since 1970 *)
Definition MAX_U64 : Z := 18446744073709551615.
Definition ST_BONDED : Z := 3.        (* stakingtypes.Bonded *)

(* ---------- bank (exact ledger) ---------- *)
Definition bal (s : State) (acct denom : Z) : Z :=
  match kget (bank s) [acct; denom] with Some v => v | None => 0 end.
Definition put_bal (acct denom v : Z) (s : State) : State :=
  set_bank (if v =? 0 then kdel (bank s) [acct; denom] else kset (bank s) [acct; denom] v) s.
Definition sup (s : State) (denom : Z) : Z :=
  match kget (supply s) [denom] with Some v => v | None => 0 end.
Definition put_sup (denom v : Z) (s : State) : State :=
  set_supply (if v =? 0 then kdel (supply s) [denom] else kset (supply s) [denom] v) s.

(* subUnlockedCoins: coin by coin, error on the first shortfall *)
Definition bank_sub (acct : Z) (c : Coins) : M unit :=
  mfor c (fun da =>
    b <- gets (fun s => bal s acct (fst da)) ;;
    if b <? snd da then fail E_INSUFFICIENT_FUNDS
    else modify (put_bal acct (fst da) (b - snd da))).
Definition bank_add (acct : Z) (c : Coins) : M unit :=
  mfor c (fun da => modify (fun s => put_bal acct (fst da) (bal s acct (fst da) + snd da) s)).
Definition bank_send (from to : Z) (c : Coins) : M unit :=
  bank_sub from c ;;; bank_add to c.
Definition bank_mint (acct : Z) (c : Coins) : M unit :=
  mfor c (fun da => modify (fun s => put_sup (fst da) (sup s (fst da) + snd da) s)) ;;;
  bank_add acct c.
Definition bank_burn (acct : Z) (c : Coins) : M unit :=
  bank_sub acct c ;;;
  mfor c (fun da => modify (fun s => put_sup (fst da) (sup s (fst da) - snd da) s)).

(* sdk.NewCoins(sdk.NewCoin(d, a)): panics on a negative amount, drops zero *)
Definition coin1 (d a : Z) : M Coins :=
  if a <? 0 then panic P_NEG_COIN else ret (if a =? 0 then [] else [(d, a)]).

(* ---------- pure share arithmetic (types/asset.go, types/validator.go) ---------- *)
(* ConvertNewTokenToShares; None = division-by-zero panic *)
Definition conv_token_to_shares (totalTokens totalShares newTokens : Z) : option Z :=
  if totalShares =? 0 then Some (dec_of_int newTokens)
  else if totalTokens =? 0 then None
  else Some (dmul_int (dquo totalShares totalTokens) newTokens).
(* ConvertNewShareToDecToken *)
Definition conv_share_to_token (totalTokens totalShares shares : Z) : Z :=
  if totalShares =? 0 then totalTokens
  else dmul (dquo shares totalShares) totalTokens.
(* AllianceValidator.TotalTokensWithAsset *)
Definition val_tokens (a : Asset) (vi : ValInfo) : Z :=
  conv_share_to_token (dec_of_int (a_tokens a)) (a_vshares a) (camount (vi_vshares vi) (a_denom a)).
(* GetValidatorShares *)
Definition validator_shares (a : Asset) (tok : Z) : option Z :=
  conv_token_to_shares (dec_of_int (a_tokens a)) (a_vshares a) tok.
(* GetDelegationTokensWithShares / GetDelegationTokens *)
Definition del_tokens_with_shares (shares : Z) (vi : ValInfo) (a : Asset) : Z :=
  dtrunc (conv_share_to_token (val_tokens a vi) (camount (vi_dshares vi) (a_denom a)) shares + ROUNDER).
Definition del_tokens (d : Delegation) (vi : ValInfo) (a : Asset) : Z :=
  del_tokens_with_shares (d_shares d) vi a.
(* GetDelegationSharesFromTokens *)
Definition del_shares_from_tokens (vi : ValInfo) (a : Asset) (tok : Z) : option Z :=
  let tds := camount (vi_dshares vi) (a_denom a) in
  if dtrunc tds =? 0 then Some (dec_of_int tok)
  else conv_token_to_shares (val_tokens a vi) tds tok.
(* AllianceAsset.RewardsStarted *)
Definition rewards_started (a : Asset) (t : Z) : bool := a_start a <=? t.

(* SubtractDecCoinsWithRounding for a single coin; None = "negative coin amount" panic *)
Definition sub_with_rounding (c : Coins) (d a2 : Z) : option Coins :=
  let a1 := camount c d in
  let r := if (a1 <? a2) && (a2 - a1 <? ONE) then csub c (cadd1 [] d a1) else csub c (cadd1 [] d a2) in
  if cany_neg r then None else Some r.

(* ---------- store access ---------- *)
Definition get_asset (d : Z) : M (option Asset) := gets (fun s => kget (assets s) [d]).
Definition set_asset (a : Asset) : M unit := modify (fun s => set_assets (kset (assets s) [a_denom a] a) s).
Definition all_assets : M (list Asset) := gets (fun s => map snd (assets s)).
Definition get_delegation (del val d : Z) : M (option Delegation) :=
  gets (fun s => kget (delegations s) [del; val; d]).
Definition set_delegation (del val d : Z) (x : Delegation) : M unit :=
  modify (fun s => set_delegations (kset (delegations s) [del; val; d] x) s).
Definition del_delegation (del val d : Z) : M unit :=
  modify (fun s => set_delegations (kdel (delegations s) [del; val; d]) s).
Definition set_valinfo (v : Z) (vi : ValInfo) : M unit :=
  modify (fun s => set_valinfos (kset (valinfos s) [v] vi) s).
Definition queue_rebalance : M unit := modify (set_flag true).
Definition empty_valinfo : ValInfo := mkValInfo [] [] [].

(* GetAllianceValidator: the staking validator must exist; the info record is
   created (and written) when absent *)
Definition get_alliance_validator (v : Z) : M (SVal * ValInfo) :=
  osv <- gets (fun s => kget (svals s) [v]) ;;
  match osv with
  | None => fail E_NO_VALIDATOR
  | Some sv =>
    ovi <- gets (fun s => kget (valinfos s) [v]) ;;
    match ovi with
    | Some vi => ret (sv, vi)
    | None => set_valinfo v empty_valinfo ;;; ret (sv, empty_valinfo)
    end
  end.

(* ---------- reward histories (types/params.go) ---------- *)
Definition rh_by_alliance (r : list RH) (a : Z) : list RH :=
  filter (fun h => (rh_alliance h =? a) || (rh_alliance h =? -1)) r.
Fixpoint rh_find (r : list RH) (d a : Z) : option RH :=
  match r with
  | [] => None
  | h :: r' => if (rh_denom h =? d) && (rh_alliance h =? a) then Some h else rh_find r' d a
  end.
(* in-place update of the first matching element *)
Fixpoint rh_set_index (r : list RH) (d a idx : Z) : list RH :=
  match r with
  | [] => []
  | h :: r' => if (rh_denom h =? d) && (rh_alliance h =? a) then set_rh_index idx h :: r'
               else h :: rh_set_index r' d a idx
  end.

(* accumulateRewards (reward.go).  -1 in rh_alliance is the legacy "" *)
Definition accumulate_rewards (latest rhs : list RH) (a : Asset) (weight : Z)
           (d : Delegation) (vi : ValInfo) : Coins * list RH :=
  let dt := dec_of_int (del_tokens d vi a) in
  fold_left (fun (acc : Coins * list RH) (h : RH) =>
    let '(rewards, rhs) := acc in
    let found := rh_find rhs (rh_denom h) (rh_alliance h) in
    let old := match found with Some x => rh_index x | None => 0 end in
    if rh_index h <=? old then acc
    else
      let cw := if rh_alliance h =? -1 then dmul dt weight else dt in
      let claim := dmul (rh_index h - old) cw in
      let rewards' := cadd1 rewards (rh_denom h) (dtrunc claim) in
      let rhs' := match found with
                  | Some _ => rh_set_index rhs (rh_denom h) (rh_alliance h) (rh_index h)
                  | None => rhs ++ [mkRH (rh_denom h) (rh_alliance h) (rh_index h)]
                  end in
      (rewards', rhs')) latest ([], rhs).

(* CalculateDelegationRewards *)
Definition calculate_delegation_rewards (s : State) (val : Z) (d : Delegation) (vi : ValInfo) (a : Asset)
  : Coins * list RH :=
  let current := rh_by_alliance (vi_hist vi) (a_denom a) in
  let drh := rh_by_alliance (d_hist d) (a_denom a) in
  let snaps := kfilter (fun k => match k with
                                 | [dn; v; h] => (dn =? a_denom a) && (v =? val) && (d_height d <=? h) && (h <? MAX_U64)
                                 | _ => false end) (snapshots s) in
  let '(total, drh') :=
    fold_left (fun (acc : Coins * list RH) (ks : Key * Snapshot) =>
      let '(tot, rhs) := acc in
      let '(rw, rhs') := accumulate_rewards (sn_hist (snd ks)) rhs a (sn_weight (snd ks)) d vi in
      (cadd tot rw, rhs')) snaps ([], drh) in
  let '(rw, _) := accumulate_rewards current drh' a (a_weight a) d vi in
  (cadd total rw, current).

(* shouldSkipRewardsToAsset *)
Definition skip_rewards (now_ : Z) (a : Asset) (vi : ValInfo) : bool :=
  (a_tokens a =? 0) || negb (rewards_started a now_) || (val_tokens a vi =? 0).

(* AddAssetsToRewardPool: returns the validator info as the callers see it
   afterwards (the Go struct shares the info through a pointer) *)
Definition add_assets_to_reward_pool (v : Z) (vi : ValInfo) (coins : Coins) : M ValInfo :=
  if (length (vi_dshares vi) =? 0)%nat then ret vi
  else
    als <- all_assets ;;
    t <- gets now ;;
    let live := filter (fun a => negb (skip_rewards t a vi)) als in
    let srw (a : Asset) := dquo_int (dmul (a_weight a) (val_tokens a vi)) (a_tokens a) in
    let total := fold_left (fun acc a => acc + srw a) live 0 in
    hist <- mfold live (vi_hist vi) (fun hist a =>
      if total =? 0 then panic P_DIV_ZERO
      else
        let nw := dquo (srw a) total in
        let tt := val_tokens a vi in
        mfold coins hist (fun hist c =>
          let diff := dquo (dmul (dec_of_int (snd c)) nw) tt in
          match rh_find hist (fst c) (a_denom a) with
          | None => ret (hist ++ [mkRH (fst c) (a_denom a) diff])
          | Some h => ret (rh_set_index hist (fst c) (a_denom a) (rh_index h + diff))
          end)) ;;
    let vi' := set_vi_hist hist vi in
    set_valinfo v vi' ;;;
    bank_send ACC_ALLIANCE ACC_REWARDS coins ;;;
    ret vi'.

(* distribution.WithdrawDelegationRewards(module, v): environment oracle.  The
   harness records, per executed operation, the withdrawals the real
   distribution module performed; the model consumes them in order. *)
Definition withdraw_oracle (v : Z) : M Coins :=
  o <- gets oracle ;;
  match o with
  | [] => fail E_ORACLE
  | (v', c) :: rest =>
    if v' =? v then modify (set_oracle rest) ;;; bank_add ACC_ALLIANCE c ;;; ret c
    else fail E_ORACLE
  end.

(* ClaimValidatorRewards *)
Definition claim_validator_rewards (v : Z) (vi : ValInfo) : M ValInfo :=
  od <- gets (fun s => kget (sdels s) [v]) ;;
  match od with
  | None => ret vi
  | Some _ =>
    coins <- withdraw_oracle v ;;
    if cis_zero coins then ret vi
    else add_assets_to_reward_pool v vi coins
  end.

(* ClaimDelegationRewards *)
Definition claim_delegation_rewards (del v : Z) (vi : ValInfo) (denom : Z) : M ValInfo :=
  oa <- get_asset denom ;;
  match oa with
  | None => fail E_UNKNOWN_ASSET
  | Some a =>
    t <- gets now ;;
    if negb (rewards_started a t) then ret vi
    else
      od <- get_delegation del v denom ;;
      match od with
      | None => fail E_NO_DELEGATION
      | Some d =>
        vi' <- claim_validator_rewards v vi ;;
        s <- gets (fun s => s) ;;
        let '(coins, idx) := calculate_delegation_rewards s v d vi' a in
        h <- gets height ;;
        set_delegation del v denom (set_d_height h (set_d_hist idx d)) ;;;
        (if cany_neg coins then panic P_NEG_COIN else ret tt) ;;;
        bank_send ACC_REWARDS del coins ;;;
        ret vi'
      end
  end.

(* ---------- delegation.go ---------- *)
(* ValidateDelegatedAmount *)
Definition validate_delegated_amount (d : Delegation) (amt : Z) (vi : ValInfo) (a : Asset) : M Z :=
  upd <- opt_or_panic P_DIV_ZERO (del_shares_from_tokens vi a amt) ;;
  if Z.abs (d_shares d - upd) <? ROUNDER then ret (d_shares d)
  else if d_shares d <? dtrunc_dec upd then fail E_INSUFFICIENT_SHARES
  else if d_shares d <? upd then ret (d_shares d)
  else ret upd.

(* upsertDelegationWithNewTokens *)
Definition upsert_delegation (del v : Z) (vi : ValInfo) (denom amt : Z) (a : Asset) : M Z :=
  ns <- opt_or_panic P_DIV_ZERO (del_shares_from_tokens vi a amt) ;;
  od <- get_delegation del v denom ;;
  h <- gets height ;;
  set_delegation del v denom
    (match od with
     | None => mkDelegation ns (vi_hist vi) h
     | Some d => set_d_shares (d_shares d + ns) d
     end) ;;;
  ret ns.

(* reduceDelegationShares *)
Definition reduce_delegation_shares (del v denom shares : Z) (d : Delegation) : M unit :=
  let d' := set_d_shares (d_shares d - shares) d in
  if d_shares d' =? 0 then del_delegation del v denom
  else set_delegation del v denom d'.

(* updateValidatorShares: AddShares / ReduceShares then SetValidator *)
Definition update_validator_shares (v : Z) (vi : ValInfo) (denom dsh vsh : Z) (isAdd : bool) : M ValInfo :=
  (if (dsh <? 0) || (vsh <? 0) then panic P_NEG_COIN else ret tt) ;;;
  if isAdd then
    let vi' := set_vi_vshares (cadd1 (vi_vshares vi) denom vsh)
                 (set_vi_dshares (cadd1 (vi_dshares vi) denom dsh) vi) in
    set_valinfo v vi' ;;; ret vi'
  else
    ds <- opt_or_panic P_NEG_COIN (sub_with_rounding (vi_dshares vi) denom dsh) ;;
    vs <- opt_or_panic P_NEG_COIN (sub_with_rounding (vi_vshares vi) denom vsh) ;;
    let vi' := set_vi_vshares vs (set_vi_dshares ds vi) in
    set_valinfo v vi' ;;; ret vi'.

(* ResetAssetAndValidators *)
Definition reset_asset_and_validators (a : Asset) : M unit :=
  if negb (a_tokens a =? 0) then ret tt
  else
    infos <- gets valinfos ;;
    mfor infos (fun kv =>
      let vi := snd kv in
      modify (fun s => set_valinfos (kset (valinfos s) (fst kv)
                (set_vi_vshares (filter (fun da => negb (fst da =? a_denom a)) (vi_vshares vi)) vi)) s)) ;;;
    set_asset (set_a_vshares 0 a).

(* ClearDustDelegation *)
Definition clear_dust_delegation (del v : Z) (vi : ValInfo) (a : Asset) : M ValInfo :=
  od <- get_delegation del v (a_denom a) ;;
  dsr <- match od with
         | Some d =>
           (* sdk.NewCoin in GetDelegationTokensWithShares panics on a negative value *)
           if del_tokens_with_shares (d_shares d) vi a <? 0 then panic P_NEG_COIN
           else if del_tokens_with_shares (d_shares d) vi a =? 0
           then del_delegation del v (a_denom a) ;;;
                (if d_shares d <? 0 then panic P_NEG_COIN else ret (d_shares d))
           else ret 0
         | None => ret 0
         end ;;
  let vsr := if val_tokens a vi =? 0 then camount (vi_vshares vi) (a_denom a) else 0 in
  (if vsr <? 0 then panic P_NEG_COIN else ret tt) ;;;
  ds <- opt_or_panic P_NEG_COIN (sub_with_rounding (vi_dshares vi) (a_denom a) dsr) ;;
  vs <- opt_or_panic P_NEG_COIN (sub_with_rounding (vi_vshares vi) (a_denom a) vsr) ;;
  let vi' := set_vi_vshares vs (set_vi_dshares ds vi) in
  set_valinfo v vi' ;;;
  reset_asset_and_validators a ;;;
  ret vi'.

(* Keeper.Delegate *)
Definition k_delegate (del v : Z) (vi : ValInfo) (denom amt : Z) : M unit :=
  oa <- get_asset denom ;;
  match oa with
  | None => fail E_UNKNOWN_ASSET
  | Some a =>
    c <- coin1 denom amt ;;
    bank_send del ACC_ALLIANCE c ;;;
    od <- get_delegation del v denom ;;
    vi1 <- match od with
           | Some _ => claim_delegation_rewards del v vi denom
           | None => claim_validator_rewards v vi
           end ;;
    ns <- upsert_delegation del v vi1 denom amt a ;;
    nvs <- opt_or_panic P_DIV_ZERO (validator_shares a amt) ;;
    set_asset (set_a_vshares (a_vshares a + nvs) (set_a_tokens (a_tokens a + amt) a)) ;;;
    _ <- update_validator_shares v vi1 denom ns nvs true ;;
    queue_rebalance
  end.

(* queueUndelegation *)
Definition queue_undelegation (del v denom amt : Z) : M unit :=
  t <- gets now ;; ub <- gets unbonding_time ;;
  let ct := t + ub in
  modify (fun s =>
    let old := match kget (undelq s) [ct; del] with Some l => l | None => [] end in
    set_undelidx (kset (undelidx s) [v; ct; denom; del] tt)
      (set_undelq (kset (undelq s) [ct; del] (old ++ [mkUndel del v denom amt])) s)).

(* Keeper.Undelegate *)
Definition k_undelegate (del v : Z) (vi : ValInfo) (denom amt : Z) : M unit :=
  oa <- get_asset denom ;;
  match oa with
  | None => fail E_UNKNOWN_ASSET
  | Some a =>
    od <- get_delegation del v denom ;;
    match od with
    | None => fail E_NO_DELEGATION
    | Some _ =>
      vi1 <- claim_delegation_rewards del v vi denom ;;
      od1 <- get_delegation del v denom ;;
      let d := match od1 with Some d => d | None => mkDelegation 0 [] 0 end in
      sh <- validate_delegated_amount d amt vi1 a ;;
      if del_tokens_with_shares sh vi1 a <? 0 then panic P_NEG_COIN
      else if del_tokens_with_shares sh vi1 a <? amt then fail E_INSUFFICIENT_TOKENS
      (* the reported balance is rounded up: the asset cannot give out more than it holds *)
      else if a_tokens a <? amt then fail E_INSUFFICIENT_TOKENS
      else
        vsr <- opt_or_panic P_DIV_ZERO (validator_shares a amt) ;;
        let a' := set_a_vshares (a_vshares a - vsr) (set_a_tokens (a_tokens a - amt) a) in
        set_asset a' ;;;
        reduce_delegation_shares del v denom sh d ;;;
        vi2 <- update_validator_shares v vi1 denom sh vsr false ;;
        _ <- clear_dust_delegation del v vi2 a' ;;
        queue_undelegation del v denom amt ;;;
        queue_rebalance
    end
  end.

(* HasRedelegation: any record with prefix (del, denom, dst) *)
Definition has_redelegation (s : State) (del dst denom : Z) : bool :=
  existsb (fun kv => kprefix [del; denom; dst] (fst kv)) (redels s).

(* addRedelegation + queueRedelegation *)
Definition queue_redelegation (del src dst denom amt ct : Z) : M unit :=
  modify (fun s =>
    let old := match kget (redelq s) [ct] with Some l => l | None => [] end in
    set_redelq (kset (redelq s) [ct] (old ++ [mkRedel del src dst denom amt])) s).
Definition add_redelegation (del src dst denom amt ct : Z) : M unit :=
  modify (fun s =>
    let r := match kget (redels s) [del; denom; dst; ct] with
             | None => mkRedel del src dst denom amt
             | Some r => set_r_amount (r_amount r + amt) r
             end in
    set_redelidx (kset (redelidx s) [src; ct; denom; dst; del] tt)
      (set_redels (kset (redels s) [del; denom; dst; ct] r) s)) ;;;
  queue_redelegation del src dst denom amt ct.

(* Keeper.Redelegate *)
Definition k_redelegate (del src : Z) (svi : ValInfo) (dst : Z) (dvi : ValInfo) (denom amt : Z) : M unit :=
  if src =? dst then fail E_SAME_VALIDATOR
  else
  oa <- get_asset denom ;;
  match oa with
  | None => fail E_UNKNOWN_ASSET
  | Some a =>
    od <- get_delegation del src denom ;;
    match od with
    | None => fail E_NO_DELEGATION
    | Some _ =>
      svi1 <- claim_delegation_rewards del src svi denom ;;
      od1 <- get_delegation del src denom ;;
      let sd := match od1 with Some d => d | None => mkDelegation 0 [] 0 end in
      odd <- get_delegation del dst denom ;;
      dvi1 <- match odd with
              | Some _ => claim_delegation_rewards del dst dvi denom
              | None => claim_validator_rewards dst dvi
              end ;;
      sh <- validate_delegated_amount sd amt svi1 a ;;
      if del_tokens_with_shares sh svi1 a <? 0 then panic P_NEG_COIN
      else if del_tokens_with_shares sh svi1 a <? amt then fail E_INSUFFICIENT_TOKENS
      else
        blocked <- gets (fun s => has_redelegation s del src denom) ;;
        if blocked then fail E_TRANSITIVE
        else
          t <- gets now ;; ub <- gets unbonding_time ;;
          cvs <- opt_or_panic P_DIV_ZERO (validator_shares a amt) ;;
          reduce_delegation_shares del src denom sh sd ;;;
          svi2 <- update_validator_shares src svi1 denom sh cvs false ;;
          _ <- clear_dust_delegation del src svi2 a ;;
          ns <- upsert_delegation del dst dvi1 denom amt a ;;
          _ <- update_validator_shares dst dvi1 denom ns cvs true ;;
          add_redelegation del src dst denom amt (t + ub) ;;;
          queue_rebalance
    end
  end.

(* ---------- msg_server.go (user messages) ---------- *)
Definition msg_delegate (del v denom amt : Z) : M unit :=
  if amt <=? 0 then fail E_INVALID_ARG
  else '(_, vi) <- get_alliance_validator v ;; k_delegate del v vi denom amt.
Definition msg_undelegate (del v denom amt : Z) : M unit :=
  if amt <=? 0 then fail E_INVALID_ARG
  else '(_, vi) <- get_alliance_validator v ;; k_undelegate del v vi denom amt.
Definition msg_redelegate (del src dst denom amt : Z) : M unit :=
  if amt <=? 0 then fail E_INVALID_ARG
  else '(_, svi) <- get_alliance_validator src ;;
       '(_, dvi) <- get_alliance_validator dst ;;
       k_redelegate del src svi dst dvi denom amt.
Definition msg_claim (del v denom : Z) : M unit :=
  '(_, vi) <- get_alliance_validator v ;;
  _ <- claim_delegation_rewards del v vi denom ;; ret tt.

(* ---------- slash.go ---------- *)
(* slashRedelegations *)
Definition slash_redelegations (v fraction : Z) : M unit :=
  idx <- gets (fun s => kfilter (kprefix [v]) (redelidx s)) ;;
  t <- gets now ;;
  mfor idx (fun ku =>
    match fst ku with
    | [_; ct; denom; dst; del] =>
      if ct <? t then ret tt
      else
        orec <- gets (fun s => kget (redels s) [del; denom; dst; ct]) ;;
        match orec with
        | None => fail E_MISSING_RECORD
        | Some r =>
          '(_, dvi) <- get_alliance_validator (r_dst r) ;;
          od0 <- get_delegation (r_del r) (r_dst r) (r_denom r) ;;
          match od0 with
          | None => ret tt            (* everything was moved out of the destination since *)
          | Some _ =>
          dvi1 <- claim_delegation_rewards (r_del r) (r_dst r) dvi (r_denom r) ;;
          od <- get_delegation (r_del r) (r_dst r) (r_denom r) ;;
          match od with
          | None => ret tt
          | Some d =>
            oa <- get_asset (r_denom r) ;;
            match oa with
            | None => ret tt
            | Some a =>
              let tok := dtrunc (dmul_int fraction (r_amount r)) in
              (* capped at what the destination position holds *)
              sh <- (if del_tokens d dvi1 a <=? tok then ret (d_shares d)
                     else upd <- opt_or_panic P_DIV_ZERO (del_shares_from_tokens dvi1 a tok) ;;
                          ret (if d_shares d <? upd then d_shares d else upd)) ;;
              (if sh <? 0 then panic P_NEG_COIN else ret tt) ;;;
              let ds := csub (vi_dshares dvi1) (cadd1 [] (a_denom a) sh) in
              (if cany_neg ds then panic P_NEG_COIN else ret tt) ;;;
              set_valinfo (r_dst r) (set_vi_dshares ds dvi1) ;;;
              set_delegation (r_del r) (r_dst r) (a_denom a) (set_d_shares (d_shares d - sh) d)
            end
          end
          end
        end
    | _ => fail E_MISSING_RECORD
    end).

(* slashUndelegations: walks the per-validator index (fresh read of the bucket per
   key) and slashes the entries of the bucket that the key stands for: those of
   this validator and of the key's denom *)
Definition slash_undelegations (v fraction : Z) : M unit :=
  idx <- gets (fun s => kfilter (kprefix [v]) (undelidx s)) ;;
  t <- gets now ;;
  mfor idx (fun ku =>
    match fst ku with
    | [_; ct; dn; del] =>
      if ct <? t then ret tt
      else
        ob <- gets (fun s => kget (undelq s) [ct; del]) ;;
        let entries := match ob with Some l => l | None => [] end in
        entries' <- mfold entries [] (fun acc e =>
          if negb ((u_val e =? v) && (u_denom e =? dn)) then ret (acc ++ [e]) else
          let tok := dtrunc (dmul_int fraction (u_amount e)) in
          (if (u_amount e - tok <? 0) || (tok <? 0) then panic P_NEG_COIN else ret tt) ;;;
          c <- coin1 (u_denom e) tok ;;
          bank_send ACC_ALLIANCE ACC_FEE c ;;;
          ret (acc ++ [set_u_amount (u_amount e - tok) e])) ;;
        modify (fun s => set_undelq (kset (undelq s) [ct; del] entries') s)
    | _ => fail E_MISSING_RECORD
    end).

(* SlashValidator *)
Definition slash_validator (v fraction : Z) : M unit :=
  if (fraction <=? 0) || (ONE <? fraction) then fail E_BAD_FRACTION
  else
    '(_, vi) <- get_alliance_validator v ;;
    vs' <- mfold (vi_vshares vi) [] (fun acc da =>
      let to_slash := dmul (snd da) fraction in
      (if snd da - to_slash <? 0 then panic P_NEG_COIN else ret tt) ;;;
      oa <- get_asset (fst da) ;;
      match oa with
      | None => fail E_UNKNOWN_ASSET
      | Some a =>
        set_asset (set_a_vshares (a_vshares a - to_slash) a) ;;;
        ret (cadd1 acc (fst da) (snd da - to_slash))
      end) ;;
    set_valinfo v (set_vi_vshares vs' vi) ;;;
    slash_redelegations v fraction ;;;
    slash_undelegations v fraction.

(* Hooks.BeforeValidatorSlashed *)
Definition hook_slash (v fraction : Z) : M unit :=
  slash_validator v fraction ;;; queue_rebalance.

(* ---------- end of block (abci.go) ---------- *)
(* CompleteRedelegations: buckets with completion strictly before block time *)
Definition complete_redelegations : M unit :=
  t <- gets now ;;
  q <- gets (fun s => kfilter (fun k => match k with [ct] => ct <? t | _ => false end) (redelq s)) ;;
  mfor q (fun kv =>
    match fst kv with
    | [ct] =>
      mfor (snd kv) (fun r =>
        modify (fun s =>
          set_redelidx (kdel (redelidx s) [r_src r; ct; r_denom r; r_dst r; r_del r])
            (set_redels (kdel (redels s) [r_del r; r_denom r; r_dst r; ct]) s))) ;;;
      modify (fun s => set_redelq (kdel (redelq s) [ct]) s)
    | _ => ret tt
    end).

(* CompleteUnbondings *)
Definition complete_unbondings : M unit :=
  t <- gets now ;;
  q <- gets (fun s => kfilter (fun k => match k with [ct; _] => ct <? t | _ => false end) (undelq s)) ;;
  mfor q (fun kv =>
    match fst kv with
    | [ct; _] =>
      mfor (snd kv) (fun u =>
        c <- coin1 (u_denom u) (u_amount u) ;;
        bank_send ACC_ALLIANCE (u_del u) c ;;;
        modify (fun s => set_undelidx (kdel (undelidx s) [u_val u; ct; u_denom u; u_del u]) s)) ;;;
      modify (fun s => set_undelq (kdel (undelq s) (fst kv)) s)
    | _ => ret tt
    end) ;;;
  b <- gets (fun s => bal s ACC_ALLIANCE BOND_DENOM) ;;
  if b =? 0 then ret tt else bank_burn ACC_ALLIANCE [(BOND_DENOM, b)].

(* InitializeAllianceAssets: works on the in-memory asset list of EndBlocker *)
Definition initialize_assets (als : list Asset) : M (list Asset) :=
  t <- gets now ;;
  mfold als [] (fun acc a =>
    if a_init a || negb (rewards_started a t) then ret (acc ++ [a])
    else let a' := set_a_init true a in set_asset a' ;;; ret (acc ++ [a'])).

Definition set_last_claim (t : Z) : M unit :=
  modify (fun s => set_params (set_p_last t (params s)) s).

(* DeductAssetsWithTakeRate.  Go integer division truncates; all quantities
   here are non-negative on the admissible domain.  The uint64 conversion of a
   negative quotient is outside the admissible time window. *)
Definition deduct_take_rate (last : Z) (als : list Asset) : M (list Asset) :=
  t <- gets now ;;
  if last =? ZERO_TIME then set_last_claim t ;;; ret als
  else
    iv <- gets (fun s => p_interval (params s)) ;;
    if iv =? 0 then panic P_DIV_ZERO_INTERVAL
    else
      let n := Z.quot (t - last) iv in
      '(als', coins, cnt) <- mfold als ([], [], 0) (fun (acc : list Asset * Coins * Z) a =>
        let '(out, coins, cnt) := acc in
        if (0 <? a_tokens a) && (0 <? a_take a) && rewards_started a t then
          m <- opt_or_panic P_OVERFLOW (dpow (ONE - a_take a) n) ;;
          let na := dmul_int m (a_tokens a) in
          if na <=? ONE then ret (out ++ [a], coins, cnt + 1)
          else
            let a' := set_a_tokens (dtrunc na) a in
            (if a_tokens a - a_tokens a' <? 0 then panic P_NEG_COIN else ret tt) ;;;
            set_asset a' ;;;
            ret (out ++ [a'], cadd1 coins (a_denom a) (a_tokens a - a_tokens a'), cnt + 1)
        else ret (out ++ [a], coins, cnt)) ;;
      if cnt =? 0 then set_last_claim t ;;; ret als'
      else if negb (length coins =? 0)%nat then
        bank_send ACC_ALLIANCE ACC_FEE coins ;;;
        set_last_claim (last + iv * n) ;;;
        ret als'
      else ret als'.

(* DeductAssetsHook *)
Definition deduct_assets_hook (als : list Asset) : M (list Asset) :=
  p <- gets params ;; t <- gets now ;;
  if p_last p + p_interval p <? t then deduct_take_rate (p_last p) als else ret als.

(* UpdateAllianceAsset *)
Definition update_alliance_asset (na : Asset) : M unit :=
  oa <- get_asset (a_denom na) ;;
  match oa with
  | None => fail E_UNKNOWN_ASSET
  | Some a =>
    if (a_weight na <? a_wmin na) || (a_wmax na <? a_weight na) then fail E_WEIGHT_OOB
    else
      (if negb (a_weight na =? a_weight a) then
         infos <- gets valinfos ;;
         mfor_swallow infos (fun kv =>
           match fst kv with
           | [v] =>
             '(_, vi) <- get_alliance_validator v ;;
             vi1 <- claim_validator_rewards v vi ;;
             h <- gets height ;;
             modify (fun s => set_snapshots (kset (snapshots s) [a_denom a; v; h]
                       (mkSnapshot (a_weight a) (rh_by_alliance (vi_hist vi1) (a_denom a)))) s)
           | _ => ret tt
           end) ;;;
         queue_rebalance
       else ret tt) ;;;
      t <- gets now ;;
      let last := if (negb (a_rate na =? a_rate a) || negb (a_interval na =? a_interval a))
                     && ((a_rate a =? ONE) || (a_interval a =? 0))
                  then t else a_last na in
      set_asset (set_a_wmax (a_wmax na) (set_a_wmin (a_wmin na) (set_a_last last
                (set_a_interval (a_interval na) (set_a_rate (a_rate na)
                (set_a_weight (a_weight na) (set_a_take (a_take na) a)))))))
  end.

(* RewardWeightChangeHook *)
Definition reward_weight_change_hook (als : list Asset) : M (list Asset) :=
  t <- gets now ;;
  mfold als [] (fun acc a =>
    if (a_interval a =? 0) || (a_rate a =? ONE) then ret (acc ++ [a])
    else if t <? a_last a + a_interval a then ret (acc ++ [a])
    else
      let n := Z.quot (t - a_last a) (a_interval a) in
      m <- opt_or_panic P_OVERFLOW (dpow (a_rate a) n) ;;
      w0 <- opt_or_panic P_OVERFLOW (dmul_chk (a_weight a) m) ;;
      let w1 := if w0 <? a_wmin a then a_wmin a else w0 in
      let w2 := if a_wmax a <? w1 then a_wmax a else w1 in
      let a' := set_a_last (a_last a + a_interval a * n) (set_a_weight w2 a) in
      queue_rebalance ;;;
      update_alliance_asset a' ;;;
      ret (acc ++ [a'])).

(* --- the six x/staking share formulas the module relies on --- *)
Definition sv_tokens_from_shares (sv : SVal) (sh : Z) : Z := dquo (dmul_int sh (sv_tokens sv)) (sv_shares sv).
Definition sv_tokens_from_shares_trunc (sv : SVal) (sh : Z) : Z := dquo_trunc (dmul_int sh (sv_tokens sv)) (sv_shares sv).
Definition is_bonded (sv : SVal) : bool := sv_status sv =? ST_BONDED.

(* GetAllianceBondedAmount *)
Definition alliance_bonded_amount (s : State) : Z :=
  dtrunc (fold_left (fun acc kv =>
    match fst kv with
    | [v] => match kget (svals s) [v] with
             | Some sv => if is_bonded sv then acc + sv_tokens_from_shares_trunc sv (snd kv) else acc
             | None => acc
             end
    | _ => acc
    end) (sdels s) 0).

(* hooks x/distribution runs inside staking.Delegate / Unbond for an existing
   delegation: a withdrawal to the delegator (the custody account) *)
Definition distr_before_shares_modified (v : Z) : M unit :=
  _ <- withdraw_oracle v ;; ret tt.

(* stakingKeeper.Delegate(module, amt, Unbonded, validator, subtractAccount=true);
   [sv] is the validator value the caller holds *)
Definition staking_delegate (v : Z) (sv : SVal) (amt : Z) : M unit :=
  if (sv_tokens sv =? 0) && (0 <? sv_shares sv) then fail E_STAKING
  else
    od <- gets (fun s => kget (sdels s) [v]) ;;
    (match od with Some _ => distr_before_shares_modified v | None => ret tt end) ;;;
    c <- coin1 BOND_DENOM amt ;;
    bank_send ACC_ALLIANCE (if is_bonded sv then ACC_BONDED else ACC_NOTBONDED) c ;;;
    issued <- (if sv_shares sv =? 0 then ret (dec_of_int amt)
               else if sv_tokens sv =? 0 then panic P_STAKING
               else ret (dquo_int (dmul_int (sv_shares sv) amt) (sv_tokens sv))) ;;
    modify (fun s => set_svals (kset (svals s) [v]
              (set_sv_shares (sv_shares sv + issued) (set_sv_tokens (sv_tokens sv + amt) sv))) s) ;;;
    modify (fun s => set_sdels (kset (sdels s) [v]
              ((match od with Some x => x | None => 0 end) + issued)) s) ;;;
    queue_rebalance.    (* alliance Hooks.AfterDelegationModified *)

(* stakingKeeper.ValidateUnbondAmount(module, v, amt) *)
Definition staking_validate_unbond (v amt : Z) : M Z :=
  osv <- gets (fun s => kget (svals s) [v]) ;;
  od <- gets (fun s => kget (sdels s) [v]) ;;
  match osv, od with
  | Some sv, Some dsh =>
    if sv_tokens sv =? 0 then fail E_STAKING
    else
      let sh := dquo_int (dmul_int (sv_shares sv) amt) (sv_tokens sv) in
      let sht := dquo_trunc (dmul_int (sv_shares sv) amt) (dec_of_int (sv_tokens sv)) in
      if dsh <? sht then fail E_STAKING
      else ret (if dsh <? sh then dsh else sh)
  | _, _ => fail E_STAKING
  end.

(* stakingKeeper.Unbond(module, v, shares): returns the tokens removed *)
Definition staking_unbond (v sh : Z) : M Z :=
  od <- gets (fun s => kget (sdels s) [v]) ;;
  match od with
  | None => fail E_STAKING
  | Some dsh =>
    distr_before_shares_modified v ;;;
    if dsh <? sh then fail E_STAKING
    else
      osv <- gets (fun s => kget (svals s) [v]) ;;
      match osv with
      | None => fail E_STAKING
      | Some sv =>
        let rest := dsh - sh in
        (* alliance Hooks.BeforeDelegationRemoved / AfterDelegationModified *)
        (if rest =? 0 then modify (fun s => set_sdels (kdel (sdels s) [v]) s) ;;; queue_rebalance
         else modify (fun s => set_sdels (kset (sdels s) [v] rest) s) ;;; queue_rebalance) ;;;
        let remaining := sv_shares sv - sh in
        issued <- (if remaining =? 0 then ret (sv_tokens sv)
                   else
                     let it := dtrunc (sv_tokens_from_shares sv sh) in
                     if sv_tokens sv - it <? 0 then panic P_STAKING else ret it) ;;
        modify (fun s => set_svals (kset (svals s) [v]
                  (set_sv_shares remaining (set_sv_tokens (sv_tokens sv - issued) sv))) s) ;;;
        ret issued
      end
  end.

(* RebalanceBondTokenWeights *)
Definition rebalance_bond_token_weights (als : list Asset) : M unit :=
  s0 <- gets (fun s => s) ;;
  let alliance_bonded := alliance_bonded_amount s0 in
  let native := bal s0 ACC_BONDED BOND_DENOM - alliance_bonded in
  t <- gets now ;;
  (* partition alliance validators into bonded ones and the shares of the rest *)
  '(bonded, unb) <- mfold_swallow (valinfos s0) ([], []) (fun (acc : list (Z * SVal * ValInfo) * Coins) kv =>
    match fst kv with
    | [v] =>
      '(sv, vi) <- get_alliance_validator v ;;
      if is_bonded sv then ret (fst acc ++ [(v, sv, vi)], snd acc)
      else ret (fst acc, cadd (snd acc) (vi_vshares vi))
    | _ => ret acc
    end) ;;
  mfor bonded (fun x =>
    let '(v, sv, vi) := x in
    od <- gets (fun s => kget (sdels s) [v]) ;;
    let current := match od with Some sh => sv_tokens_from_shares sv sh | None => 0 end in
    expected <- mfold als 0 (fun acc a =>
      if negb (rewards_started a t) then queue_rebalance ;;; ret acc
      else
        let vs := camount (vi_vshares vi) (a_denom a) in
        let ebfa := dmul_int (a_weight a) native in
        let bvs := a_vshares a - camount unb (a_denom a) in
        if (0 <? vs) && (0 <? bvs) then ret (acc + dmul (dquo vs bvs) ebfa) else ret acc) ;;
    if current <? expected then
      let amt := dtrunc (expected - current) in
      if amt =? 0 then ret tt
      else
        bank_mint ACC_ALLIANCE [(BOND_DENOM, amt)] ;;;
        _ <- claim_validator_rewards v vi ;;
        staking_delegate v sv amt
    else if expected <? current then
      let amt := dtrunc (current - expected) in
      if amt =? 0 then ret tt
      else
        sh <- staking_validate_unbond v amt ;;
        _ <- claim_validator_rewards v vi ;;
        tok <- staking_unbond v sh ;;
        c <- coin1 BOND_DENOM tok ;;
        bank_burn ACC_BONDED c
    else ret tt).

(* RebalanceHook *)
Definition rebalance_hook (als : list Asset) : M unit :=
  f <- gets flag ;;
  if f then modify (set_flag false) ;;; rebalance_bond_token_weights als else ret tt.

(* EndBlocker *)
Definition end_blocker : M unit :=
  complete_redelegations ;;;
  complete_unbondings ;;;
  als <- all_assets ;;
  als1 <- initialize_assets als ;;
  als2 <- deduct_assets_hook als1 ;;
  als3 <- reward_weight_change_hook als2 ;;
  rebalance_hook als3.

(* ---------- governance (msg_server.go) ---------- *)
(* nil decimals of a message are [None] *)
Record AllianceMsg := mkAllianceMsg {
  m_auth : Z; m_denom : Z; m_weight : option Z; m_wmin : option Z; m_wmax : option Z;
  m_take : option Z; m_rate : option Z; m_interval : Z }.

Definition nil_or (p : Z -> bool) (o : option Z) : bool :=
  match o with None => true | Some x => p x end.

(* MsgCreateAlliance; denom 0 < stands for a syntactically valid denom, <= 0 for "" / invalid *)
Definition msg_create_alliance (m : AllianceMsg) : M unit :=
  if m_denom m <? 0 then fail E_INVALID_ARG
  else if nil_or (fun w => w <? 0) (m_weight m) then fail E_INVALID_ARG
  else if nil_or (fun w => w <? 0) (m_wmin m) || nil_or (fun w => w <? 0) (m_wmax m) then fail E_INVALID_ARG
  else
    match m_weight m, m_wmin m, m_wmax m with
    | Some w, Some lo, Some hi =>
      if hi <? lo then fail E_INVALID_ARG
      else if (w <? lo) || (hi <? w) then fail E_INVALID_ARG
      else if nil_or (fun x => (x <? 0) || (ONE <=? x)) (m_take m) then fail E_INVALID_ARG
      else
        match m_take m, m_rate m with
        | Some tk, Some rt =>
          if rt <=? 0 then fail E_INVALID_ARG
          else if m_interval m <? 0 then fail E_INVALID_ARG
          else if negb (m_auth m =? AUTHORITY) then fail E_UNAUTHORIZED
          else if m_denom m =? BOND_DENOM then fail E_INVALID_ARG
          else
            oa <- get_asset (m_denom m) ;;
            match oa with
            | Some _ => fail E_ALREADY_EXISTS
            | None =>
              t <- gets now ;; dl <- gets (fun s => p_delay (params s)) ;;
              set_asset (mkAsset (m_denom m) w lo hi tk 0 0 (t + dl) rt (m_interval m) (t + dl) false)
            end
        | _, None => panic P_NIL       (* RewardChangeRate.IsZero() on a nil Dec *)
        | None, _ => fail E_INVALID_ARG
        end
    | _, _, _ => fail E_INVALID_ARG
    end.

(* MsgUpdateAlliance *)
Definition msg_update_alliance (m : AllianceMsg) : M unit :=
  if m_denom m <? 0 then fail E_INVALID_ARG
  else if nil_or (fun w => w <? 0) (m_weight m) then fail E_INVALID_ARG
  else if nil_or (fun x => (x <? 0) || (ONE <=? x)) (m_take m) then fail E_INVALID_ARG
  else
    match m_weight m, m_take m, m_rate m with
    | Some w, Some tk, Some rt =>
      if rt <=? 0 then fail E_INVALID_ARG
      else if m_interval m <? 0 then fail E_INVALID_ARG
      else if negb (m_auth m =? AUTHORITY) then fail E_UNAUTHORIZED
      else
        oa <- get_asset (m_denom m) ;;
        match oa with
        | None => fail E_UNKNOWN_ASSET
        | Some a =>
          (* Min.GT(w) || Max.LT(w): short-circuit; a comparison on a nil Dec panics *)
          match m_wmin m with
          | None => panic P_NIL
          | Some lo =>
            if w <? lo then fail E_WEIGHT_OOB
            else match m_wmax m with
                 | None => panic P_NIL
                 | Some hi =>
                   if hi <? w then fail E_WEIGHT_OOB
                   else update_alliance_asset
                          (set_a_interval (m_interval m) (set_a_rate rt (set_a_take tk (set_a_weight w
                          (set_a_wmax hi (set_a_wmin lo a))))))
                 end
          end
        end
    | _, _, None => panic P_NIL
    | _, _, _ => fail E_INVALID_ARG
    end.

(* MsgDeleteAlliance *)
Definition msg_delete_alliance (auth denom : Z) : M unit :=
  if denom <? 0 then fail E_INVALID_ARG
  else if negb (auth =? AUTHORITY) then fail E_UNAUTHORIZED
  else
    oa <- get_asset denom ;;
    match oa with
    | None => fail E_UNKNOWN_ASSET
    | Some a =>
      if 0 <? a_tokens a then fail E_ACTIVE_DELEGATIONS
      else modify (fun s => set_assets (kdel (assets s) [denom]) s)
    end.

(* MsgUpdateParams: a negative delay and a non-positive claim interval are refused *)
Definition msg_update_params (auth delay interval last : Z) : M unit :=
  if delay <? 0 then fail E_NEG_DURATION
  else if interval <=? 0 then fail E_NEG_DURATION
  else if negb (auth =? AUTHORITY) then fail E_UNAUTHORIZED
  else if interval <? 0 then fail E_NEG_DURATION
  else modify (set_params (mkParams delay interval last)).

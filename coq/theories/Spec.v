(* Spec.v — executable specifications.  [check_step p pre o c post] returns the
   codes of the clauses of property Cp that the transition
   pre --o / result class c--> post violates.  The same function is (i) what the
   theorems of Proofs/ and Properties/ are stated about, for the model's own
   transitions, and (ii) extracted and evaluated by the driver on the states the
   harness observed on the real implementation.  Definitions only. *)
From Coq Require Import ZArith List Bool.
From Alliance Require Import Num KMap Types Monad Model Step.
Import ListNotations.
Open Scope Z_scope.

Definition clause (code : Z) (ok : bool) : list Z := if ok then [] else [code].

(* ---------- helpers ---------- *)
Definition all_undels (s : State) : list Undel := flat_map snd (undelq s).
Definition unbonding_sum (s : State) (d : Z) : Z :=
  fold_right (fun u acc => (if u_denom u =? d then u_amount u else 0) + acc) 0 (all_undels s).
Definition staked_total (s : State) (d : Z) : Z :=
  match kget (assets s) [d] with Some a => a_tokens a | None => 0 end.
Definition owed (s : State) (d : Z) : Z := staked_total s d + unbonding_sum s d.
Definition custody (s : State) (d : Z) : Z := bal s ACC_ALLIANCE d.
Definition slack (s : State) (d : Z) : Z := custody s d - owed s d.

Definition nodup_z (l : list Z) : list Z :=
  fold_right (fun x acc => if existsb (Z.eqb x) acc then acc else x :: acc) [] l.
Definition denoms_of (s : State) : list Z :=
  nodup_z (map (fun kv => a_denom (snd kv)) (assets s) ++ map u_denom (all_undels s)).

Definition is_env (o : Op) : bool :=
  match o with
  | EOracle _ | EStaking _ _ | EBank _ _ | EFlag | ERemoveValInfo _ | EUnbondingTime _
  | EParams _ _ _ | EGenesisAsset _ | OBeginBlock _ _ => true
  | _ => false
  end.

(* ---------- C01 custody ---------- *)
(* distribution rewards of denom [d] that the operation may withdraw into the custody account
   (recorded by the harness from the real distribution module, see EOracle) *)
Definition pending_wd (s : State) (d : Z) : Z :=
  fold_right (fun w acc => camount (snd w) d + acc) 0 (oracle s).

Definition check_C01 (pre : State) (o : Op) (c : Z) (post : State) : list Z :=
  flat_map (fun d =>
    clause 1 (0 <=? slack post d)                                   (* never short *)
    (* no silent drift; virtual staking tokens and staking-denom rewards pass through the
       custody account and are swept every block (C11), the staking denom itself cannot be an
       alliance asset, so only the shortfall clause is meaningful for it *)
    ++ (if is_env o || (d =? BOND_DENOM) then [] else
        let drift := slack post d - slack pre d in
        clause 2 (0 <=? drift)                                       (* a margin is never eaten into *)
        (* the only source of an excess inside a module operation is a distribution withdrawal
           that is not forwarded to the reward pool (F-C01-1): bounded by what was withdrawn ... *)
        ++ clause 21 (drift <=? pending_wd pre d)
        (* ... and the exact statement of the property: no drift at all *)
        ++ clause 23 (drift =? 0)))
    (nodup_z (denoms_of pre ++ denoms_of post)).

(* ---------- C02 / C15 queue and index bookkeeping ---------- *)
Definition undel_index_of (s : State) : list Key :=
  flat_map (fun kv => match fst kv with
                      | [ct; _] => map (fun u => [u_val u; ct; u_denom u; u_del u]) (snd kv)
                      | _ => []
                      end) (undelq s).
Definition key_in (k : Key) (l : list Key) : bool := existsb (keqb k) l.
Definition paid_to (pre post : State) (u d : Z) : Z := bal post u d - bal pre u d.
Definition matured_for (s : State) (t u d : Z) : Z :=
  fold_right (fun kv acc =>
    match fst kv with
    | [ct; _] => if ct <? t
                 then fold_right (fun e a => (if (u_del e =? u) && (u_denom e =? d) then u_amount e else 0) + a) acc (snd kv)
                 else acc
    | _ => acc
    end) 0 (undelq s).
Definition users_of (s : State) : list Z := nodup_z (map u_del (all_undels s)).

Definition check_C02 (pre : State) (o : Op) (c : Z) (post : State) : list Z :=
  (* every pending entry has its per-validator index; no index without an entry *)
  clause 1 (forallb (fun k => kmem (undelidx post) k) (undel_index_of post))
  ++ clause 2 (forallb (fun kv => key_in (fst kv) (undel_index_of post)) (undelidx post))
  ++ match o with
     | OEndBlock =>
       if c =? R_OK then
         (* nothing matured is left; nothing immature is removed; payouts exact, to the owner *)
         clause 3 (forallb (fun kv => match fst kv with [ct; _] => now pre <=? ct | _ => false end) (undelq post))
         ++ clause 4 (forallb (fun kv => match fst kv with
                                         | [ct; _] => (ct <? now pre) || kmem (undelq post) (fst kv)
                                         | _ => false end) (undelq pre))
         ++ clause 5 (forallb (fun u => forallb (fun d =>
                        (d =? BOND_DENOM) || (paid_to pre post u d =? matured_for pre (now pre) u d))
                        (denoms_of pre)) (users_of pre))
       else []
     | OUndelegate del v d a =>
       if c =? R_OK then
         (* exactly one new entry: amount a, completion = now + unbonding time, nothing paid now *)
         clause 6 (match kget (undelq post) [now pre + unbonding_time pre; del] with
                   | Some l => match rev l with
                               | e :: _ => (u_del e =? del) && (u_val e =? v) && (u_denom e =? d) && (u_amount e =? a)
                               | [] => false
                               end
                   | None => false
                   end)
         ++ clause 7 (unbonding_sum post d =? unbonding_sum pre d + a)
       else []
     | _ => []
     end.

Definition redel_index_of (s : State) : list Key :=
  flat_map (fun kv => match fst kv with
                      | [ct] => map (fun r => [r_src r; ct; r_denom r; r_dst r; r_del r]) (snd kv)
                      | _ => []
                      end) (redelq s).
Definition redel_record_keys_of (s : State) : list Key :=
  flat_map (fun kv => match fst kv with
                      | [ct] => map (fun r => [r_del r; r_denom r; r_dst r; ct]) (snd kv)
                      | _ => []
                      end) (redelq s).

Definition check_C15 (pre : State) (o : Op) (c : Z) (post : State) : list Z :=
  clause 1 (forallb (fun k => kmem (redelidx post) k) (redel_index_of post))
  ++ clause 2 (forallb (fun kv => key_in (fst kv) (redel_index_of post)) (redelidx post))
  ++ clause 3 (forallb (fun k => kmem (redels post) k) (redel_record_keys_of post))
  ++ clause 4 (forallb (fun kv => key_in (fst kv) (redel_record_keys_of post)) (redels post))
  ++ match o with
     | OEndBlock =>
       if c =? R_OK then
         clause 5 (forallb (fun kv => match fst kv with [ct] => now pre <=? ct | _ => false end) (redelq post))
         ++ clause 6 (forallb (fun kv => match fst kv with
                                         | [ct] => (ct <? now pre) || kmem (redelq post) (fst kv)
                                         | _ => false end) (redelq pre))
       else []
     | ORedelegate del src dst d a =>
       if c =? R_OK then
         (* staked total, custody and the user's balance of the staked denom do not move *)
         clause 7 (staked_total post d =? staked_total pre d)
         ++ clause 8 (custody post d =? custody pre d)
         (* nothing is taken from or paid to the user out of custody (a reward payout in the
            same denom, from the pool, may only raise the balance) *)
         ++ clause 9 ((d =? BOND_DENOM) || (bal pre del d <=? bal post del d))
         ++ clause 10 (kmem (redels post) [del; d; dst; now pre + unbonding_time pre])
         (* the onward hop out of src must not have been pending *)
         ++ clause 11 (negb (has_redelegation pre del src d))
       else []
     | _ => []
     end.

(* ---------- C03 share ledger ---------- *)
Definition deleg_share_sum (s : State) (v d : Z) : Z :=
  fold_right (fun kv acc => match fst kv with
                            | [_; v'; d'] => if (v' =? v) && (d' =? d) then d_shares (snd kv) + acc else acc
                            | _ => acc end) 0 (delegations s).
Definition val_share_sum (s : State) (d : Z) : Z :=
  fold_right (fun kv acc => camount (vi_vshares (snd kv)) d + acc) 0 (valinfos s).
Definition vd_pairs (s : State) : list (Z * Z) :=
  flat_map (fun kv => match fst kv with
                      | [v] => map (fun da => (v, fst da)) (vi_dshares (snd kv))
                      | _ => [] end) (valinfos s)
  ++ flat_map (fun kv => match fst kv with [_; v; d] => [(v, d)] | _ => [] end) (delegations s).
Definition dshares_of (s : State) (v d : Z) : Z :=
  match kget (valinfos s) [v] with Some vi => camount (vi_dshares vi) d | None => 0 end.

Definition check_C03 (pre : State) (o : Op) (c : Z) (post : State) : list Z :=
  clause 1 (forallb (fun vd => deleg_share_sum post (fst vd) (snd vd) =? dshares_of post (fst vd) (snd vd)) (vd_pairs post))
  ++ clause 2 (forallb (fun kv => val_share_sum post (a_denom (snd kv)) =? a_vshares (snd kv)) (assets post))
  ++ clause 3 (forallb (fun kv => 0 <=? d_shares (snd kv)) (delegations post)
               && forallb (fun kv => forallb (fun da => 0 <=? snd da) (vi_dshares (snd kv))
                                     && forallb (fun da => 0 <=? snd da) (vi_vshares (snd kv))) (valinfos post))
  (* the staked total, kept apart: the reported balance is rounded up (0.01 rounder), so the last
     holder of an asset can exit with one unit more than the recorded total (F-C03-2) *)
  ++ clause 32 (forallb (fun kv => 0 <=? a_tokens (snd kv)) (assets post))
  (* the asset's total of validator shares, kept apart: once the two sides of clause 2 have drifted
     (F-C03-1) a large exit can drive the recorded total below zero *)
  ++ clause 33 (forallb (fun kv => 0 <=? a_vshares (snd kv)) (assets post))
  ++ clause 4 (forallb (fun kv => negb (a_tokens (snd kv) =? 0)
                                  || ((a_vshares (snd kv) =? 0) && (val_share_sum post (a_denom (snd kv)) =? 0))) (assets post)).

(* ---------- C16 / C14 asset parameters ---------- *)
Definition asset_valid (a : Asset) : bool :=
  (0 <=? a_take a) && (a_take a <? ONE) && (a_wmin a <=? a_weight a) && (a_weight a <=? a_wmax a)
  && (0 <? a_rate a) && (0 <=? a_interval a).
Definition weight_in_range (a : Asset) : bool := (a_wmin a <=? a_weight a) && (a_weight a <=? a_wmax a).

Definition assets_eqb (a b : Asset) : bool :=
  (a_denom a =? a_denom b) && (a_weight a =? a_weight b) && (a_wmin a =? a_wmin b) && (a_wmax a =? a_wmax b)
  && (a_take a =? a_take b) && (a_tokens a =? a_tokens b) && (a_vshares a =? a_vshares b) && (a_start a =? a_start b)
  && (a_rate a =? a_rate b) && (a_interval a =? a_interval b) && (a_last a =? a_last b) && Bool.eqb (a_init a) (a_init b).
Fixpoint assets_map_eqb (m1 m2 : KMap Asset) : bool :=
  match m1, m2 with
  | [], [] => true
  | (k1, a1) :: r1, (k2, a2) :: r2 => keqb k1 k2 && assets_eqb a1 a2 && assets_map_eqb r1 r2
  | _, _ => false
  end.
Definition params_eqb (p q : Params) : bool :=
  (p_delay p =? p_delay q) && (p_interval p =? p_interval q) && (p_last p =? p_last q).

Definition gov_signer (o : Op) : option Z :=
  match o with
  | OCreateAlliance m | OUpdateAlliance m => Some (m_auth m)
  | ODeleteAlliance au _ | OUpdateParams au _ _ _ => Some au
  | _ => None
  end.

Definition check_C16 (pre : State) (o : Op) (c : Z) (post : State) : list Z :=
  clause 1 (forallb (fun kv => asset_valid (snd kv)) (assets post) || negb (forallb (fun kv => asset_valid (snd kv)) (assets pre)))
  ++ match gov_signer o with
     | Some au =>
       clause 2 ((au =? AUTHORITY) || negb (c =? R_OK))
       ++ (if c =? R_OK then [] else
             clause 3 (assets_map_eqb (assets pre) (assets post) && params_eqb (params pre) (params post)
                       && Bool.eqb (flag pre) (flag post)))
     | None => []
     end
  ++ match o with
     | OUpdateAlliance m =>
       if c =? R_OK then
         clause 4 (match kget (assets pre) [m_denom m], kget (assets post) [m_denom m] with
                   | Some a, Some b => (a_tokens a =? a_tokens b) && (a_vshares a =? a_vshares b)
                                       && (a_denom a =? a_denom b) && (a_start a =? a_start b)
                   | _, _ => false
                   end)
       else []
     | ODeleteAlliance _ d =>
       if c =? R_OK then
         clause 5 (match kget (assets pre) [d] with Some a => a_tokens a <=? 0 | None => false end)
       else []
     | OCreateAlliance m =>
       if c =? R_OK then clause 6 (negb (kmem (assets pre) [m_denom m]) && kmem (assets post) [m_denom m]) else []
     | _ => []
     end.

Definition check_C14 (pre : State) (o : Op) (c : Z) (post : State) : list Z :=
  clause 1 (forallb (fun kv => weight_in_range (snd kv)) (assets post)
            || negb (forallb (fun kv => weight_in_range (snd kv)) (assets pre)))
  (* the decay clock never passes the block time and never runs backwards at end of block *)
  ++ match o with
     | OEndBlock =>
       if c =? R_OK then
         clause 2 (forallb (fun kv =>
           match kget (assets pre) (fst kv) with
           | Some a =>
             let b := snd kv in
             if (a_interval a =? 0) || (a_rate a =? ONE) || (now pre <? a_last a + a_interval a)
             then (a_weight b =? a_weight a) && (a_last b =? a_last a)
             else (a_last b <=? now pre) && (now pre <? a_last b + a_interval a)
                  && ((a_last b - a_last a) mod a_interval a =? 0)
           | None => true
           end) (assets post))
       else []
     | OUpdateAlliance m =>
       if c =? R_OK then
         match kget (assets pre) [m_denom m], kget (assets post) [m_denom m] with
         | Some a, Some b =>
           (* not retroactive: a decay schedule configured where none was running starts its
              clock now; a running schedule keeps its clock *)
           clause 3 (if (negb (a_rate b =? a_rate a) || negb (a_interval b =? a_interval a))
                        && ((a_rate a =? ONE) || (a_interval a =? 0))
                     then a_last b =? now pre else a_last b =? a_last a)
         | _, _ => []
         end
       else []
     | _ => []
     end
  (* a weight change is preceded by a settlement: every validator record whose staking validator
     exists gets a snapshot of the old weight at this height (when all of them exist: the walk
     stops at the first missing one) *)
  ++ match o with
     | OUpdateAlliance _ | OEndBlock =>
       if c =? R_OK then
         clause 4 (forallb (fun kv =>
           match kget (assets post) (fst kv) with
           | Some b =>
             (a_weight b =? a_weight (snd kv))
             || negb (forallb (fun kw => match fst kw with [v] => kmem (svals pre) [v] | _ => true end) (valinfos pre))
             || forallb (fun kw => match fst kw with
                                   | [v] => match kget (snapshots post) [a_denom (snd kv); v; height pre] with
                                            | Some sn => sn_weight sn =? a_weight (snd kv)
                                            | None => false end
                                   | _ => true end) (valinfos pre)
           | None => true
           end) (assets pre))
       else []
     | _ => []
     end.

(* ---------- C17 / C08 totality ---------- *)
Definition check_C17 (pre : State) (o : Op) (c : Z) (post : State) : list Z :=
  match o with OEndBlock => clause 1 (c =? R_OK) | _ => [] end.

(* ---------- C06 / C07 slashing ---------- *)
Definition fee (s : State) (d : Z) : Z := bal s ACC_FEE d.

(* the abstract effect of a slash of [v] by [f] at time [t] on one pending entry *)
Definition slash_entry_spec (v f t ct : Z) (e : Undel) : Undel :=
  if (u_val e =? v) && (t <=? ct) then set_u_amount (u_amount e - dtrunc (dmul_int f (u_amount e))) e else e.
Definition undel_eqb (a b : Undel) : bool :=
  (u_del a =? u_del b) && (u_val a =? u_val b) && (u_denom a =? u_denom b) && (u_amount a =? u_amount b).
Fixpoint undels_eqb (a b : list Undel) : bool :=
  match a, b with
  | [], [] => true
  | x :: a', y :: b' => undel_eqb x y && undels_eqb a' b'
  | _, _ => false
  end.

Definition vinfo_or_empty (s : State) (v : Z) : ValInfo :=
  match kget (valinfos s) [v] with Some vi => vi | None => empty_valinfo end.
Definition check_C07 (pre : State) (o : Op) (c : Z) (post : State) : list Z :=
  match o with
  | OHookSlash v f =>
    if (c =? R_OK) && (0 <? f) && (f <=? ONE) then
      (* every bucket is the entry-wise image of the abstract slash *)
      clause 1 (forallb (fun kv =>
        match fst kv, kget (undelq post) (fst kv) with
        | [ct; _], Some l => undels_eqb l (map (slash_entry_spec v f (now pre) ct) (snd kv))
        | _, _ => false
        end) (undelq pre))
      (* the fee collector receives exactly what the entries lost *)
      ++ clause 2 (forallb (fun d => fee post d - fee pre d =? unbonding_sum pre d - unbonding_sum post d) (denoms_of pre))
      (* redelegation half: the destination position of each pending redelegation out of v loses
         shares worth floor(f x the amount redelegated FROM V) tokens, capped at what it holds.
         Evaluated per destination position, in tokens at the destination's price after the bonded
         part, when at most one index key of v points at that (validator, denom) (several removals
         from one validator move its price between them).  The amounts redelegated from v are read
         off the time queue, which keeps one entry per source.  Codes: 3 too much / 4 too little
         removed; 31: too much, and the record of the position merges redelegations out of several
         sources (one record per (delegator, denom, destination, time): F-C07-2). *)
      ++ flat_map (fun kd =>
           match fst kd with
           | [del; w; d] =>
             match kget (assets post) [d] with
             | None => []
             | Some a =>
               let hits := filter (fun ki => match fst ki with
                                            | [v'; ct; d'; w'; _] => (v' =? v) && (d' =? d) && (w' =? w) && (now pre <=? ct)
                                            | _ => false end) (redelidx pre) in
               if negb (Nat.leb (length hits) 1) then []
               else
                 let sh_pre := d_shares (snd kd) in
                 let sh_post := match kget (delegations post) (fst kd) with Some x => d_shares x | None => 0 end in
                 let removed := sh_pre - sh_post in
                 let removed_w := fold_right (fun kd' acc => match fst kd' with
                                    | [_; w'; d'] => if (w' =? w) && (d' =? d)
                                                     then d_shares (snd kd') - (match kget (delegations post) (fst kd') with Some x => d_shares x | None => 0 end) + acc
                                                     else acc
                                    | _ => acc end) 0 (delegations pre) in
                 let V := val_tokens a (vinfo_or_empty post w) in
                 let D := dshares_of post w d + removed_w in
                 let tok_of (sh : Z) := if D =? 0 then 0 else Z.quot (sh * V) (D * PREC) in
                 let entries := flat_map (fun kq => match fst kq with
                                                    | [ct] => if now pre <=? ct
                                                              then filter (fun r => (r_del r =? del) && (r_dst r =? w) && (r_denom r =? d)) (snd kq)
                                                              else []
                                                    | _ => [] end) (redelq pre) in
                 let expected := fold_right (fun r acc => (if r_src r =? v then dtrunc (dmul_int f (r_amount r)) else 0) + acc) 0 entries in
                 let merged := existsb (fun r => negb (r_src r =? v)) entries in
                 let want := Z.min expected (tok_of sh_pre) in
                 (* base units, one per entry, and the 18-digit relative error against the asset's total (as in C04) *)
                 let tol := 3 + Z.of_nat (length entries) + want / 1000000000000 + 8 * (a_tokens a / PREC) in
                 (if tok_of removed <=? want + tol then [] else if merged then [31] else [3])
                 ++ (if want - tol <=? tok_of removed then [] else [4])
             end
           | _ => []
           end) (delegations pre)
    else []
  | _ => []
  end.

(* the share form of the law: the callback removes exactly the fraction f (18-digit product,
   as the code rounds it) of the slashed validator's validator shares in every asset, from the
   validator's record and from the asset's total alike, and touches nobody else's validator
   shares; a position is worth  T * (s_w / S) * (shares / delegator shares of w):  with S' = S - f*s_v
   a position on v is scaled by (1-f)*g and everybody else by g = S / S'  (Proofs/BondedSlash.v) *)
Definition vshares_of (s : State) (w d : Z) : Z := camount (vi_vshares (vinfo_or_empty s w)) d.
(* the slash of pending redelegations walks the per-source index *)
Definition has_redel_from (s : State) (v : Z) : bool :=
  existsb (fun kv => match fst kv with v' :: _ => v' =? v | [] => false end) (redelidx s).
Definition val_ids (pre post : State) : list Z :=
  nodup_z (flat_map (fun kv => match fst kv with [w] => [w] | _ => [] end) (valinfos pre ++ valinfos post)).
Definition check_C06 (pre : State) (o : Op) (c : Z) (post : State) : list Z :=
  match o with
  | OHookSlash v f =>
    if c =? R_OK then
      clause 1 (forallb (fun kv => staked_total post (a_denom (snd kv)) =? a_tokens (snd kv)) (assets pre))
      ++ clause 2 (forallb (fun d => (d =? BOND_DENOM) || (slack post d =? slack pre d)) (denoms_of pre))
      (* proportional: exactly the fraction f of the validator's shares goes, in every asset *)
      ++ clause 3 (forallb (fun kv => let d := a_denom (snd kv) in
                      let cut := dmul (vshares_of pre v d) f in
                      (vshares_of post v d =? vshares_of pre v d - cut)
                      && (match kget (assets post) (fst kv) with
                          | Some b => a_vshares b =? a_vshares (snd kv) - cut
                          | None => false end)) (assets pre))
      (* targeted: nobody else's validator shares move; delegator shares move only through the
         slash of pending redelegations out of v (C07 / C08) *)
      ++ clause 4 (forallb (fun w => forallb (fun kv => let d := a_denom (snd kv) in
                      ((w =? v) || (vshares_of post w d =? vshares_of pre w d))
                      && (has_redel_from pre v || (dshares_of post w d =? dshares_of pre w d)))
                      (assets pre)) (val_ids pre post))
      ++ clause 5 (has_redel_from pre v ||
                   forallb (fun kv => match kget (delegations post) (fst kv) with
                                      | Some d' => d_shares d' =? d_shares (snd kv)
                                      | None => false end) (delegations pre))
    else []
  | _ => []
  end.

(* ---------- C08: the callback is total, and what it returns from has been applied ---------- *)
Definition check_C08 (pre : State) (o : Op) (c : Z) (post : State) : list Z :=
  match o with
  | OHookSlash v f =>
    (* for every existing validator, with or without alliance stake *)
    if (0 <? f) && (f <=? ONE) && kmem (svals pre) [v]
    then clause 1 (c =? R_OK) ++ clause 2 (negb (c =? R_OK) || flag post)
         (* "having applied the slash to all of the validator's bonded positions, pending unbondings and
            pending redelegations": the clauses of C06 and C07 hold of the transition (the merged-record
            finding of C07, code 31, is C07's) *)
         ++ clause 6 (match check_C06 pre o c post with [] => true | _ => false end)
         ++ clause 7 (forallb (fun x => x =? 31) (check_C07 pre o c post))
    else []
  | _ => []
  end.

(* ---------- C09 take rate ---------- *)
Definition check_C09 (pre : State) (o : Op) (c : Z) (post : State) : list Z :=
  match o with
  | OEndBlock =>
    if c =? R_OK then
      let p := params pre in
      let t := now pre in
      let fires := (p_last p + p_interval p <? t) && negb (p_last p =? ZERO_TIME) in
      let n := if p_interval p =? 0 then 0 else Z.quot (t - p_last p) (p_interval p) in
      clause 1 (forallb (fun kv =>
        let a := snd kv in
        match kget (assets post) (fst kv) with
        | Some b =>
          if fires && (0 <? a_tokens a) && (0 <? a_take a) && rewards_started a t then
            match dpow (ONE - a_take a) n with
            | Some m => let na := dmul_int m (a_tokens a) in
                        a_tokens b =? (if na <=? ONE then a_tokens a else dtrunc na)
            | None => false
            end
          else a_tokens b =? a_tokens a       (* not charged: before start, rate 0, nothing staked, not due *)
        | None => true
        end) (assets pre))
      (* exactly the difference goes from custody to the fee collector *)
      ++ clause 2 (forallb (fun kv =>
           let d := a_denom (snd kv) in
           (d =? BOND_DENOM) || (fee post d - fee pre d =? staked_total pre d - staked_total post d)) (assets pre))
      (* clock: never backwards, never past the block time, whole intervals *)
      ++ clause 3 ((p_last (params post) <=? t) &&
                   ((p_last p =? ZERO_TIME) || (p_last p <=? p_last (params post))))
      ++ clause 4 ((p_last p =? ZERO_TIME) || (p_last (params post) =? p_last p) || (p_last (params post) =? t)
                   || ((p_interval p =? 0) || ((p_last (params post) - p_last p) mod p_interval p =? 0)))
      (* never retroactive: while nothing is chargeable the clock follows the block time, so
         stake deposited later is not charged for the idle intervals; when something was charged
         the clock moves by exactly the n whole intervals charged *)
      ++ clause 6 (negb (fires && forallb (fun kv => let a := snd kv in
                            negb ((0 <? a_tokens a) && (0 <? a_take a) && rewards_started a t)) (assets pre))
                   || (p_last (params post) =? t))
      ++ clause 7 (negb (fires && existsb (fun kv => match kget (assets post) (fst kv) with
                                                     | Some b => a_tokens b <? a_tokens (snd kv)
                                                     | None => false end) (assets pre))
                   || (p_last (params post) =? p_last p + p_interval p * n))
      (* a rate below one never drives a total to zero *)
      ++ clause 5 (forallb (fun kv => match kget (assets post) (fst kv) with
                                      | Some b => negb (0 <? a_tokens (snd kv)) || (0 <? a_tokens b)
                                      | None => true end) (assets pre))
    else []
  | _ => []
  end.

(* ---------- C11 virtual staking tokens ---------- *)
Definition module_stake (s : State) : Z :=   (* value of the module's own stake, 10^18-scaled *)
  fold_right (fun kv acc => match fst kv with
                            | [v] => match kget (svals s) [v] with
                                     | Some sv => if sv_shares sv =? 0 then acc else sv_tokens_from_shares sv (snd kv) + acc
                                     | None => acc end
                            | _ => acc end) 0 (sdels s).
Definition net_supply (s : State) : Z := dec_of_int (sup s BOND_DENOM) - module_stake s.

Definition check_C11 (pre : State) (o : Op) (c : Z) (post : State) : list Z :=
  match o with
  | OEndBlock =>
    if c =? R_OK then
      clause 1 (bal post ACC_ALLIANCE BOND_DENOM =? 0)
    else []
  | ODelegate _ _ _ _ | OUndelegate _ _ _ _ | ORedelegate _ _ _ _ _ | OClaim _ _ _ | OHookSlash _ _ =>
    clause 3 (sup post BOND_DENOM =? sup pre BOND_DENOM)
  | _ => []
  end.

(* ---------- C12 reward pool solvency ---------- *)
Definition claimable (s : State) (k : Key) (d : Delegation) : Coins :=
  match k with
  | [_; v; dn] =>
    match kget (assets s) [dn], kget (valinfos s) [v] with
    | Some a, Some vi => if rewards_started a (now s) then fst (calculate_delegation_rewards s v d vi a) else []
    | _, _ => []
    end
  | _ => []
  end.
Definition total_claimable (s : State) : Coins :=
  fold_left (fun acc kv => cadd acc (claimable s (fst kv) (snd kv))) (delegations s) [].
Definition check_C12 (pre : State) (o : Op) (c : Z) (post : State) : list Z :=
  clause 1 (forallb (fun da => snd da <=? bal post ACC_REWARDS (fst da)) (total_claimable post)).

(* ---------- C13 claims are stake neutral ---------- *)
Definition shares_view (s : State) : list (Key * Z) := map (fun kv => (fst kv, d_shares (snd kv))) (delegations s).
Fixpoint kz_eqb (a b : list (Key * Z)) : bool :=
  match a, b with
  | [], [] => true
  | (k1, x) :: a', (k2, y) :: b' => keqb k1 k2 && (x =? y) && kz_eqb a' b'
  | _, _ => false
  end.
(* pro-rata split between the started assets staked on a validator: the index increments of one reward
   denom satisfy  d_a : d_b = w_a / T_a : w_b / T_b  (the validator's tokens of the asset cancel against the
   per-token index).  Evaluated on claims (nothing else moves in them), for pairs of assets whose staked
   reward weights are not vanishing (the code divides integers: 18-digit relative error) and whose
   increments are at least 10^9 index units; relative tolerance 10^-6. *)
Definition idx_of (s : State) (v rd dn : Z) : Z :=
  match rh_find (vi_hist (match kget (valinfos s) [v] with Some vi => vi | None => empty_valinfo end)) rd dn with
  | Some h => rh_index h | None => 0 end.
Definition split_ok (pre post : State) (v : Z) : bool :=
  let vi := match kget (valinfos pre) [v] with Some x => x | None => empty_valinfo end in
  let live := filter (fun kv => let a := snd kv in
                 (0 <? a_tokens a) && rewards_started a (now pre) && (0 <? val_tokens a vi)
                 && (1000000000 <=? dquo_int (dmul (a_weight a) (val_tokens a vi)) (a_tokens a))) (assets pre) in
  let rds := nodup_z (map rh_denom (vi_hist (match kget (valinfos post) [v] with Some x => x | None => empty_valinfo end))) in
  forallb (fun rd =>
    forallb (fun ka => forallb (fun kb =>
      let a := snd ka in let b := snd kb in
      let da := idx_of post v rd (a_denom a) - idx_of pre v rd (a_denom a) in
      let db := idx_of post v rd (a_denom b) - idx_of pre v rd (a_denom b) in
      if (a_denom a =? a_denom b) || (da <? 1000000000) || (db <? 1000000000) then true
      else
        let l := da * a_weight b * a_tokens a in
        let r := db * a_weight a * a_tokens b in
        Z.abs (l - r) * 1000000 <=? Z.max (Z.abs l) (Z.abs r)) live) live) rds.

Definition check_C13 (pre : State) (o : Op) (c : Z) (post : State) : list Z :=
  match o with
  | OClaim del v d =>
    if c =? R_OK then
      clause 7 (split_ok pre post v) ++
      clause 1 (kz_eqb (shares_view pre) (shares_view post) && assets_map_eqb (assets pre) (assets post))
      (* nothing is claimable by this position immediately afterwards *)
      ++ clause 2 (match kget (delegations post) [del; v; d] with
                   | Some dl => cis_zero (claimable post [del; v; d] dl)
                   | None => true end)
    else []
  | ODelegate del v d a =>
    if c =? R_OK then
      (* the validator entered is settled first: when the module has stake on it (something can be
         pending in the distribution module) the operation withdraws for it — what had accrued is indexed
         before the new stake exists.  The withdrawals of the operation are recorded from the real
         distribution module (EOracle). *)
      clause 8 (negb (kmem (sdels pre) [v])
                || negb (negb (kmem (delegations pre) [del; v; d])
                         || match kget (assets pre) [d] with Some a => rewards_started a (now pre) | None => false end)
                || existsb (fun w => fst w =? v) (oracle pre)) ++
      if negb (kmem (delegations pre) [del; v; d]) then
        (* a new position starts with nothing claimable *)
        clause 3 (match kget (delegations post) [del; v; d] with
                  | Some dl => cis_zero (claimable post [del; v; d] dl)
                  | None => true end)
      else
        (* a position that grows was settled first: what accrued before is not payable on the new stake *)
        clause 4 (match kget (delegations post) [del; v; d] with
                  | Some dl => cis_zero (claimable post [del; v; d] dl)
                  | None => true end)
    else []
  | OUndelegate del v d _ =>
    if c =? R_OK then
      clause 5 (match kget (delegations post) [del; v; d] with
                | Some dl => cis_zero (claimable post [del; v; d] dl)
                | None => true end)
    else []
  | ORedelegate del src dst d _ =>
    if c =? R_OK then
      clause 6 (forallb (fun k => match kget (delegations post) k with
                                  | Some dl => cis_zero (claimable post k dl)
                                  | None => true end) [[del; src; d]; [del; dst; d]])
    else []
  | _ => []
  end.

(* ---------- C10: the flag is raised by every stake-changing operation ---------- *)
Definition check_C10 (pre : State) (o : Op) (c : Z) (post : State) : list Z :=
  match o with
  | ODelegate _ _ _ _ | OUndelegate _ _ _ _ | ORedelegate _ _ _ _ _ | OHookSlash _ _ =>
    if c =? R_OK then clause 1 (flag post) else []
  | OUpdateAlliance m =>
    if c =? R_OK then
      clause 2 (match kget (assets pre) [m_denom m], kget (assets post) [m_denom m] with
                | Some a, Some b => (a_weight a =? a_weight b) || flag post
                | _, _ => true end)
    else []
  | _ => []
  end.

(* ---------- C05 / C20: liveness probes ---------- *)
(* What a delegator can do in state [s], evaluated on a discarded copy of the state with an
   environment in which x/distribution has nothing pending for the validator ([v], no coins).
   The result is the model's error code of the message, 0 when it succeeds. *)
(* the reported balance of a position (QueryAllianceDelegation.Balance) *)
Definition reported_balance (s : State) (k : Key) : Z :=
  match k with
  | [_; v; dn] =>
    match kget (delegations s) k, kget (assets s) [dn] with
    | Some d, Some a => del_tokens d (vinfo_or_empty s v) a
    | _, _ => 0
    end
  | _ => 0
  end.
Definition quiet (v : Z) (s : State) : State := set_oracle [(v, [])] s.
Definition probe_exit (s : State) (k : Key) : Z :=
  match k with
  | [del; v; dn] => let b := reported_balance s k in
                    if 0 <? b then res_code (msg_undelegate del v dn b (quiet v s)) else 0
  | _ => 0
  end.
Definition probe_claim (s : State) (k : Key) : Z :=
  match k with
  | [del; v; dn] => if 0 <? reported_balance s k then res_code (msg_claim del v dn (quiet v s)) else 0
  | _ => 0
  end.
Definition probe_enter (s : State) (del v dn amt : Z) : Z := res_code (msg_delegate del v dn amt (quiet v s)).
(* positions that cannot leave / cannot claim *)
Definition exit_blocked (s : State) : list (Key * Z) :=
  filter (fun kz => negb (snd kz =? 0)) (map (fun kv => (fst kv, probe_exit s (fst kv))) (delegations s)).
Definition claim_blocked (s : State) : list (Key * Z) :=
  filter (fun kz => negb (snd kz =? 0)) (map (fun kv => (fst kv, probe_claim s (fst kv))) (delegations s)).

(* ---------- C04 position isolation ---------- *)
(* tolerance of an operation on denom [dn]: base units for the truncations of the values and the
   0.01 rounder, plus the 18-digit relative error: (i) every value is a product of 18-digit ratios
   with the asset's staked total, (ii) the shares issued / removed for the amount are amount x an
   18-digit shares-per-token ratio r, whose absolute error 1.5*10^-18 costs 1.5*amount/r tokens,
   for the delegator-share ratio of the validators involved and for the asset's validator-share
   ratio (NumFacts: dmul_bounds, dquo_bounds).  With ratios near 1 the last two terms vanish. *)
(* shares issued per token, as the code computes it (18 digits): for a validator's delegator
   shares and for the asset's validator shares; 0 when undefined *)
Definition ratio_del (s : State) (v dn : Z) : Z :=
  match kget (assets s) [dn] with
  | Some a => let vi := vinfo_or_empty s v in
              let tds := camount (vi_dshares vi) dn in let vt := val_tokens a vi in
              if (0 <? tds) && (0 <? vt) then dquo tds vt else 0
  | None => 0
  end.
Definition ratio_val (s : State) (dn : Z) : Z :=
  match kget (assets s) [dn] with
  | Some a => if (0 <? a_vshares a) && (0 <? a_tokens a) then dquo (a_vshares a) (dec_of_int (a_tokens a)) else 0
  | None => 0
  end.
Definition op_denom (o : Op) : Z :=
  match o with
  | ODelegate _ _ dn _ | OUndelegate _ _ dn _ | ORedelegate _ _ _ dn _ | OClaim _ _ dn => dn
  | _ => -1
  end.
Definition op_validators (o : Op) : list Z :=
  match o with
  | ODelegate _ v _ _ | OUndelegate _ v _ _ => [v]
  | ORedelegate _ src dst _ _ => [src; dst]
  | _ => []
  end.
Definition op_amount (o : Op) : Z :=
  match o with
  | ODelegate _ _ _ a | OUndelegate _ _ _ a | ORedelegate _ _ _ _ a => a
  | _ => 0
  end.
Definition min_pos (l : list Z) : Z :=   (* smallest element, at least 1 *)
  fold_right (fun x acc => Z.max 1 (Z.min x acc)) PREC l.
Definition tau_C04_op (pre post : State) (o : Op) : Z :=
  let dn := op_denom o in
  let amt := op_amount o in
  let rd := min_pos (flat_map (fun v => [ratio_del pre v dn; ratio_del post v dn]) (op_validators o)) in
  let rv := min_pos [ratio_val pre dn; ratio_val post dn] in
  3 + 8 * (Z.max (staked_total pre dn) (staked_total post dn) / PREC) + 4 * amt / rd + 4 * amt / rv.
Definition tau_C04 (pre post : State) (dn : Z) : Z :=
  2 + 8 * (Z.max (staked_total pre dn) (staked_total post dn) / PREC).
Definition expected_delta (o : Op) (k : Key) : Z :=
  match o with
  | ODelegate del v dn a => if keqb k [del; v; dn] then a else 0
  | OUndelegate del v dn a => if keqb k [del; v; dn] then - a else 0
  | ORedelegate del src dst dn a => if keqb k [del; src; dn] then - a else if keqb k [del; dst; dn] then a else 0
  | _ => 0
  end.
Definition pos_keys (pre post : State) : list Key :=
  fold_right (fun k acc => if key_in k acc then acc else k :: acc) [] (map fst (delegations pre) ++ map fst (delegations post)).
(* the 0.01-share tolerance of ValidateDelegatedAmount: when the shares wanted for the amount are
   within 0.01 share of what the position holds, the WHOLE position is removed although only the
   amount is paid out.  With shares worth more than 100 tokens each (ratio below 0.01 after
   slashes / take rate) the remainder is not dust (F-C04-3). *)
Definition rounder_sweep (pre : State) (o : Op) : bool :=
  match o with
  | OUndelegate del v dn amt | ORedelegate del v _ dn amt =>
    match kget (delegations pre) [del; v; dn], kget (assets pre) [dn] with
    | Some d, Some a =>
      match del_shares_from_tokens (vinfo_or_empty pre v) a amt with
      | Some upd => (Z.abs (d_shares d - upd) <? ROUNDER) && (amt + 2 <? reported_balance pre [del; v; dn])
      | None => false
      end
    | _, _ => false
    end
  | _ => false
  end.

Definition check_C04 (pre : State) (o : Op) (c : Z) (post : State) : list Z :=
  match o with
  | OClaim _ _ _ =>
    (* a claim moves no value at all (theorem C04_claim_moves_no_value), whatever its outcome *)
    clause 1 (forallb (fun k => reported_balance post k =? reported_balance pre k) (pos_keys pre post))
  | ODelegate _ _ _ _ | OUndelegate _ _ _ _ | ORedelegate _ _ _ _ _ =>
    if c =? R_OK then
      let dn := op_denom o in
      (* positions in other assets: untouched exactly *)
      clause 2 (forallb (fun k => match k with
                                  | [_; _; d] => (d =? dn) || (reported_balance post k =? reported_balance pre k)
                                  | _ => true end) (pos_keys pre post))
      (* the actor's position(s) move by the amount, everybody else's by nothing, within tau.
         Two states in which the code is known to hand value to the entering delegator are told
         apart (clauses 31, 32) so that a listed finding does not excuse anything else:
           31: the validator entered has less than one delegator share of the asset while its
               stake there is worth a token or more (the "empty validator: one share per token"
               shortcut of GetDelegationSharesFromTokens dilutes what is left);
           32: the asset has no validator shares at all while tokens are staked (after a 100%
               slash of every staked validator): the first validator share captures the total. *)
      ++ (let ok := forallb (fun k => match k with
                                     | [_; _; d] => negb (d =? dn) ||
                                        (Z.abs (reported_balance post k - reported_balance pre k - expected_delta o k) <=? tau_C04_op pre post o)
                                     | _ => true end) (pos_keys pre post) in
          if ok then []
          else if (ratio_val pre dn =? 0) && (0 <? staked_total pre dn) then [32]
          else if existsb (fun v => match kget (assets pre) [dn] with
                                    | Some a => let vi := vinfo_or_empty pre v in
                                                (dtrunc (camount (vi_dshares vi) dn) =? 0) && (0 <? dtrunc (val_tokens a vi))
                                    | None => false end)
                          (match o with ODelegate _ v _ _ => [v] | ORedelegate _ _ dst _ _ => [dst] | _ => [] end)
               then [31]
          else if rounder_sweep pre o then [33]
          else [3])
    else []
  | _ => []
  end.

(* diagnostics for a failing clause 3: (position, value before, value after, expected change, tolerance) *)
Definition c04_detail (pre : State) (o : Op) (post : State) : list (list Z) :=
  let dn := op_denom o in
  flat_map (fun k => match k with
                     | [_; _; d] =>
                       if (d =? dn) && negb (Z.abs (reported_balance post k - reported_balance pre k - expected_delta o k) <=? tau_C04_op pre post o)
                       then [k ++ [reported_balance pre k; reported_balance post k; expected_delta o k; tau_C04_op pre post o]] else []
                     | _ => [] end) (pos_keys pre post).

(* ---------- dispatcher ---------- *)
Definition check_step (p : Z) (pre : State) (o : Op) (c : Z) (post : State) : list Z :=
  match p with
  | 1 => check_C01 pre o c post
  | 2 => check_C02 pre o c post
  | 3 => check_C03 pre o c post
  | 4 => check_C04 pre o c post
  | 6 => check_C06 pre o c post
  | 7 => check_C07 pre o c post
  | 8 => check_C08 pre o c post
  | 9 => check_C09 pre o c post
  | 10 => check_C10 pre o c post
  | 11 => check_C11 pre o c post
  | 12 => check_C12 pre o c post
  | 13 => check_C13 pre o c post
  | 14 => check_C14 pre o c post
  | 15 => check_C15 pre o c post
  | 16 => check_C16 pre o c post
  | 17 => check_C17 pre o c post
  | _ => []
  end.

(* KMap.v — the module's KV store prefixes as sorted association lists.
   A key is a list of integers (validator / delegator / denom identifiers,
   nanosecond times, heights); lexicographic order on such lists is the byte
   order of the real store keys for the fixed-width components the harness
   uses (see DESIGN.md 3.3).  Definitions only; the algebra is in KMapFacts.v *)
From Coq Require Import ZArith List Bool.
Import ListNotations.
Open Scope Z_scope.

Definition Key := list Z.

Fixpoint kcmp (a b : Key) : comparison :=
  match a, b with
  | [], [] => Eq
  | [], _ :: _ => Lt
  | _ :: _, [] => Gt
  | x :: a', y :: b' =>
    match Z.compare x y with
    | Eq => kcmp a' b'
    | c => c
    end
  end.

Definition keqb (a b : Key) : bool := match kcmp a b with Eq => true | _ => false end.
Definition kltb (a b : Key) : bool := match kcmp a b with Lt => true | _ => false end.

Definition KMap (V : Type) := list (Key * V).

Section Ops.
  Context {V : Type}.

  Fixpoint kget (m : KMap V) (k : Key) : option V :=
    match m with
    | [] => None
    | (k', v) :: m' =>
      match kcmp k k' with
      | Eq => Some v
      | Lt => None
      | Gt => kget m' k
      end
    end.

  Fixpoint kset (m : KMap V) (k : Key) (v : V) : KMap V :=
    match m with
    | [] => [(k, v)]
    | (k', v') :: m' =>
      match kcmp k k' with
      | Eq => (k, v) :: m'
      | Lt => (k, v) :: m
      | Gt => (k', v') :: kset m' k v
      end
    end.

  Fixpoint kdel (m : KMap V) (k : Key) : KMap V :=
    match m with
    | [] => []
    | (k', v') :: m' =>
      match kcmp k k' with
      | Eq => m'
      | Lt => m
      | Gt => (k', v') :: kdel m' k
      end
    end.

  Definition kmem (m : KMap V) (k : Key) : bool :=
    match kget m k with Some _ => true | None => false end.

  Definition kkeys (m : KMap V) : list Key := map fst m.
End Ops.

(* [p] is a prefix of [k] *)
Fixpoint kprefix (p k : Key) : bool :=
  match p, k with
  | [], _ => true
  | _ :: _, [] => false
  | x :: p', y :: k' => (x =? y) && kprefix p' k'
  end.

Definition kfilter {V} (f : Key -> bool) (m : KMap V) : KMap V :=
  filter (fun kv => f (fst kv)) m.

(* sum of an integer measure over a map *)
Definition ksum {V} (f : Key -> V -> Z) (m : KMap V) : Z :=
  fold_right (fun kv acc => f (fst kv) (snd kv) + acc) 0 m.

(* --- denom-indexed decimal coins (sdk.DecCoins / sdk.Coins): sorted by denom,
       no zero entries --- *)
Definition Coins := list (Z * Z).

Fixpoint camount (c : Coins) (d : Z) : Z :=
  match c with
  | [] => 0
  | (d', a) :: c' => if d =? d' then a else camount c' d
  end.

(* safeAdd of a single coin, dropping zero results *)
Fixpoint cadd1 (c : Coins) (d a : Z) : Coins :=
  match c with
  | [] => if a =? 0 then [] else [(d, a)]
  | (d', a') :: c' =>
    if d <? d' then (if a =? 0 then c else (d, a) :: c)
    else if d =? d' then (if a + a' =? 0 then c' else (d, a + a') :: c')
    else (d', a') :: cadd1 c' d a
  end.

Definition cadd (c1 c2 : Coins) : Coins :=
  fold_left (fun acc da => cadd1 acc (fst da) (snd da)) c2 c1.

Definition cneg (c : Coins) : Coins := map (fun da => (fst da, - snd da)) c.
Definition csub (c1 c2 : Coins) : Coins := cadd c1 (cneg c2).
Definition cany_neg (c : Coins) : bool := existsb (fun da => snd da <? 0) c.
Definition cis_zero (c : Coins) : bool := forallb (fun da => snd da =? 0) c.

(* KMapFacts.v — algebra of the ordered maps used by the proofs. *)
From Coq Require Import ZArith List Bool Lia.
From Alliance Require Import KMap.
Import ListNotations.
Open Scope Z_scope.

Lemma kcmp_refl k : kcmp k k = Eq.
Proof. induction k as [|x k IH]; cbn; [reflexivity|]. rewrite Z.compare_refl; exact IH. Qed.

Lemma kcmp_eq a b : kcmp a b = Eq -> a = b.
Proof.
  revert b; induction a as [|x a IH]; intros [|y b]; cbn; try congruence.
  destruct (Z.compare_spec x y) as [Hxy|Hxy|Hxy]; try congruence. intros Hk; f_equal; auto.
Qed.

(* all values (with their keys) satisfy P *)
Definition kall {V} (P : Key -> V -> Prop) (m : KMap V) : Prop := Forall (fun kv => P (fst kv) (snd kv)) m.
Definition vall {V} (P : V -> Prop) (m : KMap V) : Prop := kall (fun _ v => P v) m.

Section Facts.
  Context {V : Type}.
  Implicit Types (m : KMap V) (k : Key) (v : V).

  Lemma kall_nil P : kall P (@nil (Key * V)).
  Proof. constructor. Qed.

  Lemma kall_kset P m k v : kall P m -> P k v -> kall P (kset m k v).
  Proof.
    intros Hm Hv; induction m as [|[k' v'] m IH]; cbn.
    - constructor; [exact Hv | constructor].
    - inversion Hm as [|? ? H1 H2]; subst. destruct (kcmp k k') eqn:E.
      + constructor; [exact Hv | exact H2].
      + constructor; [exact Hv | exact Hm].
      + constructor; [exact H1 | apply IH; exact H2].
  Qed.

  Lemma kall_kdel P m k : kall P m -> kall P (kdel m k).
  Proof.
    intros Hm; induction m as [|[k' v'] m IH]; cbn; [constructor|].
    inversion Hm as [|? ? H1 H2]; subst. destruct (kcmp k k'); [exact H2 | exact Hm |].
    constructor; [exact H1 | apply IH; exact H2].
  Qed.

  Lemma kall_kget P m k v : kall P m -> kget m k = Some v -> P k v.
  Proof.
    intros Hm; induction m as [|[k' v'] m IH]; cbn; [congruence|].
    inversion Hm as [|? ? H1 H2]; subst. destruct (kcmp k k') eqn:E; try congruence.
    - intros H; inversion H; subst. apply kcmp_eq in E; subst. exact H1.
    - auto.
  Qed.

  Lemma kall_filter P f m : kall P m -> kall P (kfilter f m).
  Proof.
    intros Hm; unfold kfilter; induction m as [|kv m IH]; cbn [filter]; [constructor|].
    inversion Hm as [|? ? H1 H2]; subst. destruct (f (fst kv)); [constructor; [exact H1 | apply IH; exact H2] | apply IH; exact H2].
  Qed.

  Lemma vall_kset (P : V -> Prop) m k v : vall P m -> P v -> vall P (kset m k v).
  Proof. apply (kall_kset (fun _ v => P v)). Qed.
  Lemma vall_kdel (P : V -> Prop) m k : vall P m -> vall P (kdel m k).
  Proof. apply (kall_kdel (fun _ v => P v)). Qed.
  Lemma vall_kget (P : V -> Prop) m k v : vall P m -> kget m k = Some v -> P v.
  Proof. apply (kall_kget (fun _ v => P v)). Qed.
  Lemma vall_in (P : V -> Prop) m kv : vall P m -> In kv m -> P (snd kv).
  Proof. intros H Hin; unfold vall, kall in H; rewrite Forall_forall in H; apply (H kv Hin). Qed.
  Lemma vall_map_snd (P : V -> Prop) m : vall P m -> Forall P (map snd m).
  Proof. intros H; induction H; cbn; constructor; auto. Qed.
End Facts.

Lemma kget_kset_same {V} (m : KMap V) k v : kget (kset m k v) k = Some v.
Proof.
  induction m as [|[k' v'] m IH]; cbn.
  - rewrite kcmp_refl; reflexivity.
  - destruct (kcmp k k') eqn:E; cbn; rewrite ?kcmp_refl, ?E; auto.
Qed.

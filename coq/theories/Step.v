(* Step.v — operations, the SDK's failure wrappers, and histories. *)
From Coq Require Import ZArith List Bool.
From Alliance Require Import Num KMap Types Monad Model.
Import ListNotations.
Open Scope Z_scope.

Inductive Op : Type :=
| OBeginBlock (time height : Z)
| OEndBlock
| ODelegate (del val denom amt : Z)
| OUndelegate (del val denom amt : Z)
| ORedelegate (del src dst denom amt : Z)
| OClaim (del val denom : Z)
| OCreateAlliance (m : AllianceMsg)
| OUpdateAlliance (m : AllianceMsg)
| ODeleteAlliance (auth denom : Z)
| OUpdateParams (auth delay interval last : Z)
| OHookSlash (val fraction : Z)
(* environment: everything the neighbouring modules do on their own *)
| EOracle (w : list (Z * Coins))                 (* withdrawals the next operation will see *)
| EStaking (vals : list (Z * SVal)) (dels : list (Z * Z))   (* new staking view *)
| EBank (bals : list (Z * Z * Z)) (sups : list (Z * Z))     (* balances / supplies set from outside *)
| EFlag                                          (* a staking hook queued a rebalance *)
| ERemoveValInfo (val : Z)                       (* AfterValidatorRemoved *)
| EUnbondingTime (t : Z)
| EParams (delay interval last : Z)              (* InitGenesis params *)
| EGenesisAsset (a : Asset).                     (* InitGenesis asset *)

(* result classes *)
Definition R_OK : Z := 0.
Definition R_ERR : Z := 1.
Definition R_PANIC : Z := 2.

(* baseapp: a message runs on a cached store; error or panic discards it *)
Definition tx (m : M unit) (s : State) : State * Z :=
  match m s with
  | Ok _ s' => (s', R_OK)
  | Err _ _ => (s, R_ERR)
  | Panic _ _ => (s, R_PANIC)
  end.
(* staking callbacks: x/staking logs a returned error and carries on — the
   partial writes stay; a panic aborts the block *)
Definition hook (m : M unit) (s : State) : State * Z :=
  match m s with
  | Ok _ s' => (s', R_OK)
  | Err _ s' => (s', R_ERR)
  | Panic _ _ => (s, R_PANIC)
  end.
(* end of block: an error or panic halts the chain; the state is the pre-state *)
Definition endblock (m : M unit) (s : State) : State * Z :=
  match m s with
  | Ok _ s' => (s', R_OK)
  | Err _ _ => (s, R_ERR)
  | Panic _ _ => (s, R_PANIC)
  end.

Definition clear_oracle (r : State * Z) : State * Z :=
  let '(s, c) := r in
  (* withdrawals recorded but not consumed: the model made fewer calls than the code *)
  (set_oracle [] s, if (c =? R_OK) && negb (length (oracle s) =? 0)%nat then 3 else c).

Definition kmap_of {V} (l : list (Key * V)) : KMap V :=
  fold_left (fun m kv => kset m (fst kv) (snd kv)) l [].

Definition step (s : State) (o : Op) : State * Z :=
  match o with
  | OBeginBlock t h => (set_height h (set_now t s), R_OK)
  | OEndBlock => clear_oracle (endblock end_blocker s)
  | ODelegate d v dn a => clear_oracle (tx (msg_delegate d v dn a) s)
  | OUndelegate d v dn a => clear_oracle (tx (msg_undelegate d v dn a) s)
  | ORedelegate d v1 v2 dn a => clear_oracle (tx (msg_redelegate d v1 v2 dn a) s)
  | OClaim d v dn => clear_oracle (tx (msg_claim d v dn) s)
  | OCreateAlliance m => clear_oracle (tx (msg_create_alliance m) s)
  | OUpdateAlliance m => clear_oracle (tx (msg_update_alliance m) s)
  | ODeleteAlliance au dn => clear_oracle (tx (msg_delete_alliance au dn) s)
  | OUpdateParams au dl iv l => clear_oracle (tx (msg_update_params au dl iv l) s)
  | OHookSlash v f => clear_oracle (hook (hook_slash v f) s)
  | EOracle w => (set_oracle w s, R_OK)
  | EStaking vs ds =>
    (set_sdels (kmap_of (map (fun vd => ([fst vd], snd vd)) ds))
       (set_svals (kmap_of (map (fun vs => ([fst vs], snd vs)) vs)) s), R_OK)
  | EBank bs ss =>
    (fold_left (fun s ds => put_sup (fst ds) (snd ds) s) ss
       (fold_left (fun s b => put_bal (fst (fst b)) (snd (fst b)) (snd b) s) bs s), R_OK)
  | EFlag => (set_flag true s, R_OK)
  | ERemoveValInfo v => (set_valinfos (kdel (valinfos s) [v]) s, R_OK)
  | EUnbondingTime t => (set_unbonding_time t s, R_OK)
  | EParams dl iv l => (set_params (mkParams dl iv l) s, R_OK)
  | EGenesisAsset a => (set_assets (kset (assets s) [a_denom a] a) s, R_OK)
  end.

Definition init_state : State :=
  mkState 0 0 (mkParams 0 0 ZERO_TIME) [] [] false [] [] [] [] [] [] [] [] [] [] [] 0 [] [].

(* a history and the trace of (operation, result class, state after) it produces *)
Fixpoint run_trace (s : State) (h : list Op) : list (Op * Z * State) :=
  match h with
  | [] => []
  | o :: h' => let '(s', c) := step s o in (o, c, s') :: run_trace s' h'
  end.
Definition run (s : State) (h : list Op) : State :=
  fold_left (fun s o => fst (step s o)) h s.

(* the model's error / panic code of an operation (0 when it succeeds): used
   only to label findings, never compared with the implementation *)
Definition res_code {A} (r : Res A) : Z := match r with Ok _ _ => 0 | Err e _ => e | Panic e _ => e end.
Definition step_err (s : State) (o : Op) : Z :=
  match o with
  | OEndBlock => res_code (end_blocker s)
  | ODelegate d v dn a => res_code (msg_delegate d v dn a s)
  | OUndelegate d v dn a => res_code (msg_undelegate d v dn a s)
  | ORedelegate d v1 v2 dn a => res_code (msg_redelegate d v1 v2 dn a s)
  | OClaim d v dn => res_code (msg_claim d v dn s)
  | OCreateAlliance m => res_code (msg_create_alliance m s)
  | OUpdateAlliance m => res_code (msg_update_alliance m s)
  | ODeleteAlliance au dn => res_code (msg_delete_alliance au dn s)
  | OUpdateParams au dl iv l => res_code (msg_update_params au dl iv l s)
  | OHookSlash v f => res_code (hook_slash v f s)
  | _ => 0
  end.

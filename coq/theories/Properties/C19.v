(* C19 — state transitions are deterministic.
   Dynamic half: the model is a Coq function, so agreement of every implementation
   run with it (correspondence) plus byte-identical replays on sibling branches
   (harness, profile "determinism") is the determinism statement.
   Static half: a rule over facts regenerated from /repo's source on every run. *)
From Coq Require Import String ZArith List Bool.
From Alliance Require Import Num KMap Types Monad Model Step SourceFacts.
From Alliance.Proofs Require Import Determinism.
Import ListNotations.

(* every construct of the state machine's non-test source that could introduce
   nondeterminism (range over a map, wall clock, randomness, goroutines, select,
   unsafe/reflect, floats, %p) is on the explicit allow-list *)
Theorem C19_static : forall f, In f source_facts -> admissible_fact f = true.
Proof. exact static_rule. Qed.
Print Assumptions C19_static.

(* non-vacuity: the translator did scan the packages *)
Theorem C19_static_nonvacuous : (30 <=? files_scanned)%nat = true.
Proof. exact scanned_enough. Qed.
Print Assumptions C19_static_nonvacuous.

(* the model's transition relation is a function: same state and history, same trace *)
Theorem C19_model_function : forall s h t1 t2, run_trace s h = t1 -> run_trace s h = t2 -> t1 = t2.
Proof. intros; congruence. Qed.
Print Assumptions C19_model_function.

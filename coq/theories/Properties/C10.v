(* C10 — voting power: which operations queue the rebalance, and that only the
   end of block consumes it.  (The numeric target of RebalanceBondTokenWeights is
   checked on the implementation by the harness monitor and by the exact
   correspondence of the staking view; it is not proved here: partial.) *)
From Coq Require Import ZArith List Bool.
From Alliance Require Import Num KMap Types Monad Model Step Spec Hoare.
From Alliance.Proofs Require Import Flag.
Import ListNotations.
Open Scope Z_scope.

Theorem C10_triggers : forall s o, snd (step s o) = R_OK ->
  match o with
  | ODelegate _ _ _ _ | OUndelegate _ _ _ _ | ORedelegate _ _ _ _ _ | OHookSlash _ _ | EFlag => flag (fst (step s o)) = true
  | _ => True
  end.
Proof. exact triggers. Qed.
Print Assumptions C10_triggers.

Theorem C10_flag_persists : forall s o, o <> OEndBlock -> flag s = true -> flag (fst (step s o)) = true.
Proof. exact flag_persists. Qed.
Print Assumptions C10_flag_persists.

(* so: a rebalance queued at any point of a block is still queued when the block ends *)
Theorem C10_queued_until_end_of_block : forall h s, Forall (fun o => o <> OEndBlock) h -> flag s = true -> flag (run s h) = true.
Proof.
  induction h as [|o h IH]; intros s Hh Hs; cbn; [exact Hs|]. inversion Hh; subst.
  apply IH; [assumption | apply flag_persists; assumption].
Qed.
Print Assumptions C10_queued_until_end_of_block.

Example C10_nonvacuous :
  let h := [EStaking [(10, mkSVal 3 1000000 (1000000 * ONE))] []; EGenesisAsset (mkAsset 1 ONE 0 (5 * ONE) 0 0 0 0 ONE 0 0 true);
            EBank [(100, 1, 1000)] []; ODelegate 100 10 1 500] in
  map (fun x => (snd (fst x), flag (snd x))) (run_trace init_state h) = [(0, false); (0, false); (0, false); (0, true)].
Proof. vm_compute. reflexivity. Qed.

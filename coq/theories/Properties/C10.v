(* C10 — voting power.  Proved: which operations queue the rebalance and that only the end of block
   consumes it; the target the rebalance computes for a bonded validator is the sum over started assets
   with bonded stake of (its fraction of the asset's bonded validator shares) x (reward weight x native
   bonded stake), assets in warm-up contributing nothing (C10_target_formula, C10_warmup_contributes_nothing);
   validators outside the bonded set are neither counted in the loop nor adjusted
   (C10_unbonded_validators_are_not_adjusted, every reachable state).
   That the stake AFTER the mint/delegate or unbond/burn equals the target within two units depends
   on x/staking's share arithmetic: harness monitor on the real staking module and exact
   correspondence of the staking view (partial; F-C10-2). *)
From Coq Require Import ZArith List Bool.
From Alliance Require Import Num KMap Types Monad Model Step Spec Hoare.
From Alliance.Proofs Require Import Flag.
From Alliance.Proofs Require Import Unbonded Target.
Import ListNotations.
Open Scope Z_scope.

Theorem C10_triggers : forall s o, snd (step s o) = R_OK ->
  match o with
  | ODelegate _ _ _ _ | OUndelegate _ _ _ _ | ORedelegate _ _ _ _ _ | OHookSlash _ _ | EFlag => flag (fst (step s o)) = true
  | _ => True
  end.
Proof. exact triggers. Qed.
Print Assumptions C10_triggers.

Theorem C10_flag_persists : forall s o, o <> OEndBlock -> flag s = true -> flag (fst (step s o)) = true.
Proof. exact flag_persists. Qed.
Print Assumptions C10_flag_persists.

(* so: a rebalance queued at any point of a block is still queued when the block ends *)
Theorem C10_queued_until_end_of_block : forall h s, Forall (fun o => o <> OEndBlock) h -> flag s = true -> flag (run s h) = true.
Proof.
  induction h as [|o h IH]; intros s Hh Hs; cbn; [exact Hs|]. inversion Hh; subst.
  apply IH; [assumption | apply flag_persists; assumption].
Qed.
Print Assumptions C10_queued_until_end_of_block.

Example C10_nonvacuous :
  let h := [EStaking [(10, mkSVal 3 1000000 (1000000 * ONE))] []; EGenesisAsset (mkAsset 1 ONE 0 (5 * ONE) 0 0 0 0 ONE 0 0 true);
            EBank [(100, 1, 1000)] []; ODelegate 100 10 1 500] in
  map (fun x => (snd (fst x), flag (snd x))) (run_trace init_state h) = [(0, false); (0, false); (0, false); (0, true)].
Proof. vm_compute. reflexivity. Qed.

(* unbonded or jailed validators are neither counted nor adjusted: in every reachable state the
   rebalance leaves the module's stake on a validator that is not bonded, and that validator's staking
   record, exactly as they were (the partition loop keeps bonded validators only; every mint /
   delegate / unbond / burn of the loop addresses a validator of that list) *)
Theorem C10_unbonded_validators_are_not_adjusted : forall h als v s', let s := run init_state h in
  match kget (svals s) [v] with Some sv => is_bonded sv = false | None => True end ->
  rebalance_bond_token_weights als s = Ok tt s' ->
  kget (sdels s') [v] = kget (sdels s) [v] /\ kget (svals s') [v] = kget (svals s) [v].
Proof. exact unbonded_validators_are_not_adjusted. Qed.
Print Assumptions C10_unbonded_validators_are_not_adjusted.

(* the loop that computes a validator's target returns exactly the formula and touches nothing but the
   rebalance flag *)
Theorem C10_target_formula : forall t native unb vi als acc s,
  exists s', mfold als acc (target_body t native unb vi) s = Ok (acc + target t native unb vi als) s' /\
             (s' = s \/ s' = set_flag true s).
Proof. exact target_loop. Qed.
Print Assumptions C10_target_formula.
Theorem C10_warmup_contributes_nothing : forall t native unb vi a,
  rewards_started a t = false -> contribution t native unb vi a = 0.
Proof. exact warmup_contributes_nothing. Qed.
Print Assumptions C10_warmup_contributes_nothing.
Theorem C10_no_stake_contributes_nothing : forall t native unb vi a,
  camount (vi_vshares vi) (a_denom a) <= 0 -> contribution t native unb vi a = 0.
Proof. exact no_stake_contributes_nothing. Qed.
Print Assumptions C10_no_stake_contributes_nothing.
(* the rebalance of the model is written with this loop (definitional equality) *)
Example C10_target_body_is_the_loop_of_the_rebalance : forall als,
  rebalance_bond_token_weights als =
  (s0 <- gets (fun s => s) ;;
   let alliance_bonded := alliance_bonded_amount s0 in
   let native := bal s0 ACC_BONDED BOND_DENOM - alliance_bonded in
   t <- gets now ;;
   '(bonded, unb) <- mfold_swallow (valinfos s0) ([], []) Unbonded.part_body ;;
   mfor bonded (fun x =>
     let '(v, sv, vi) := x in
     od <- gets (fun s => kget (sdels s) [v]) ;;
     let current := match od with Some sh => sv_tokens_from_shares sv sh | None => 0 end in
     expected <- mfold als 0 (target_body t native unb vi) ;;
     if current <? expected then
       let amt := dtrunc (expected - current) in
       if amt =? 0 then ret tt
       else
         bank_mint ACC_ALLIANCE [(BOND_DENOM, amt)] ;;;
         _ <- claim_validator_rewards v vi ;;
         staking_delegate v sv amt
     else if expected <? current then
       let amt := dtrunc (current - expected) in
       if amt =? 0 then ret tt
       else
         sh <- staking_validate_unbond v amt ;;
         _ <- claim_validator_rewards v vi ;;
         tok <- staking_unbond v sh ;;
         c <- coin1 BOND_DENOM tok ;;
         bank_burn ACC_BONDED c
     else ret tt)).
Proof. reflexivity. Qed.

(* C12 — reward pool solvency.  FALSE of the unchanged code: refutation by a
   history executed on the real implementation (claimable > pool after a slash
   raised the token value of positions with unsettled accrual).  Partial. *)
From Coq Require Import ZArith List Bool.
From Alliance Require Import Num KMap Types Monad Model Step Spec Hoare WitnessLib.
From Alliance.Witness Require Import F_C12_insolvent.
Import ListNotations.
Open Scope Z_scope.

Example C12_refuted_insolvent : witness_fails 12 1 ops_F_C12_insolvent = true.
Proof. vm_compute. reflexivity. Qed.
Print Assumptions C12_refuted_insolvent.

(* C11 — virtual staking tokens never leak.  Proved: no user / governance message or slash callback
   changes the staking-denom supply; the rebalance pairs every mint with a delegation into a staking
   pool and every burn with coins taken out of the bonded pool, so the supply OUTSIDE the two pools
   is the same before and after it (C11_minted_tokens_stay_in_the_pools, every reachable state);
   the end-of-block sweep empties the custody account of the staking denom.  That the amount
   x/staking hands back on an unbond is what the module burns, and the supply reported by the custom
   bank keeper, are covered by the exact correspondence of bank / supply / staking view and the
   harness monitors on the real modules (partial). *)
From Coq Require Import ZArith List Bool.
From Alliance Require Import Num KMap Types Monad Model Step Spec Hoare WitnessLib.
From Alliance.Witness Require Import F_C11_stranded.
From Alliance.Proofs Require Import SortedInv Misc PoolFlow.
Import ListNotations.
Open Scope Z_scope.

(* No user message, governance message or slash callback changes the supply of the staking denom. *)
Theorem C11_supply_untouched : forall s o,
  match o with
  | ODelegate _ _ _ _ | OUndelegate _ _ _ _ | ORedelegate _ _ _ _ _ | OClaim _ _ _ | OHookSlash _ _
  | OCreateAlliance _ | OUpdateAlliance _ | ODeleteAlliance _ _ | OUpdateParams _ _ _ _ =>
    sup (fst (step s o)) BOND_DENOM = sup s BOND_DENOM
  | _ => True
  end.
Proof. exact bond_supply_untouched. Qed.
Print Assumptions C11_supply_untouched.

(* In every reachable state, when CompleteUnbondings returns, the custody account holds no staking-denom coins. *)
Theorem C11_unbonding_sweep : forall h, let s := run init_state h in
  match complete_unbondings s with Ok _ s' => bal s' ACC_ALLIANCE BOND_DENOM = 0 | _ => True end.
Proof.
  intros h s. pose proof (complete_unbondings_burns_bond_balance s (reachable_Sorted h)) as H.
  destruct (complete_unbondings s); auto.
Qed.
Print Assumptions C11_unbonding_sweep.

(* the rebalance never leaks what it mints: supply(bond) - bonded pool - not-bonded pool is conserved *)
Theorem C11_minted_tokens_stay_in_the_pools : forall h als s', let s := run init_state h in
  rebalance_bond_token_weights als s = Ok tt s' -> N s' = N s.
Proof. exact minted_tokens_stay_in_the_pools. Qed.
Print Assumptions C11_minted_tokens_stay_in_the_pools.

(* ... but the block can still END with staking-denom coins in custody: rewards withdrawn by the
   rebalance (which runs after the sweep) for a validator without delegator shares stay there and
   are burned one block later (F-C01-1).  History executed on the real implementation. *)
Example C11_refuted_stranded : witness_fails 11 1 ops_F_C11_stranded = true.
Proof. vm_compute. reflexivity. Qed.
Print Assumptions C11_refuted_stranded.

(* C09 — take rate: per-asset formula, gating, clock.  Proved at the level of the
   value DeductAssetsWithTakeRate computes for each asset (the list it returns and
   stores) and of the clock: exact advance by the n whole intervals charged, and never
   retroactive — while nothing is chargeable the clock follows the block time, so stake
   deposited later is not charged for idle intervals.  The store / bank effects are covered by
   C01's proof (exact transfer), by the executable specification check_C09 evaluated on
   implementation traces and by the exact correspondence (partial). *)
From Coq Require Import ZArith List Bool.
From Alliance Require Import Num KMap Types Monad Model Step Spec Hoare.
From Alliance.Proofs Require Import TakeRate.
Import ListNotations.
Open Scope Z_scope.

(* T' = floor(m * T / 10^18) with m the fixed-point power (1-r)^(n); exactly T - T' is
   deducted; a charged total never reaches zero; nothing happens when m*T <= 1 *)
Theorem C09_asset_step : forall t n a b x, take_asset t n a = Some (b, x) ->
  if chargeable t a then
    exists m, dpow (ONE - a_take a) n = Some m /\
      let na := dmul_int m (a_tokens a) in
      (na <= ONE -> b = a /\ x = 0) /\
      (ONE < na -> a_tokens b = na / PREC /\ x = a_tokens a - a_tokens b /\ 0 <= x /\ 1 <= a_tokens b)
  else b = a /\ x = 0.
Proof. exact take_asset_spec. Qed.
Print Assumptions C09_asset_step.

(* assets before their start time, at rate zero or empty are never charged *)
Theorem C09_gating : forall t n a, (rewards_started a t = false \/ a_take a = 0) -> take_asset t n a = Some (a, 0).
Proof.
  intros t n a [H|H]; apply take_gating; [apply not_started_not_chargeable | apply zero_rate_not_chargeable]; exact H.
Qed.
Print Assumptions C09_gating.

(* the clock advances by n >= 1 whole intervals and never passes the block time *)
Theorem C09_clock : forall t last iv, 0 < iv -> last + iv < t ->
  let n := Z.quot (t - last) iv in 1 <= n /\ last + iv * n <= t /\ t < last + iv * n + iv.
Proof. exact take_clock. Qed.
Print Assumptions C09_clock.

(* the hook does nothing until block time is strictly after clock + interval; the first call only starts the clock *)
Theorem C09_not_due : forall als s, now s <= p_last (params s) + p_interval (params s) -> deduct_assets_hook als s = Ok als s.
Proof. exact hook_not_due. Qed.
Print Assumptions C09_not_due.
Theorem C09_first_call : forall als s, deduct_take_rate ZERO_TIME als s = Ok als (set_params (set_p_last (now s) (params s)) s).
Proof. exact first_call_only_starts_clock. Qed.
Print Assumptions C09_first_call.

(* never retroactive: with nothing chargeable (nothing staked, rate zero, or before the start time,
   for every asset) a due deduction moves the clock to the block time and changes nothing else *)
Theorem C09_idle_clock_follows_block_time : forall last als s,
  last <> ZERO_TIME -> p_interval (params s) <> 0 ->
  Forall (fun a => chargeable (now s) a = false) als ->
  deduct_take_rate last als s = Ok als (set_params (set_p_last (now s) (params s)) s).
Proof. exact idle_clock_follows_block_time. Qed.
Print Assumptions C09_idle_clock_follows_block_time.

(* whenever a deduction changes an asset record the clock advances by exactly n whole intervals *)
Theorem C09_charged_clock_moves_whole_intervals : forall last als s out s',
  last <> ZERO_TIME -> deduct_take_rate last als s = Ok out s' -> out <> als ->
  p_last (params s') = last + p_interval (params s) * Z.quot (now s - last) (p_interval (params s)).
Proof. exact charged_clock_moves_whole_intervals. Qed.
Print Assumptions C09_charged_clock_moves_whole_intervals.

(* proportional: a deduction changes nothing of an asset but its staked total, and touches no delegation and no
   validator record — every position keeps its shares, every validator its share of the asset, so every
   position of the asset shrinks by the one factor T'/T of C09_asset_step *)
Theorem C09_asset_keeps_every_other_field : forall t n a b x, take_asset t n a = Some (b, x) -> set_a_tokens (a_tokens a) b = a.
Proof. exact take_asset_touches_only_the_total. Qed.
Print Assumptions C09_asset_keeps_every_other_field.
Theorem C09_positions_keep_their_shares : forall als s out s',
  deduct_assets_hook als s = Ok out s' -> delegations s' = delegations s /\ valinfos s' = valinfos s.
Proof. exact take_rate_keeps_every_position_and_share. Qed.
Print Assumptions C09_positions_keep_their_shares.

Example C09_nonvacuous :
  let a := mkAsset 1 ONE 0 ONE (ONE / 2) 1000001 0 0 ONE 0 0 true in
  option_map (fun r => (a_tokens (fst r), snd r)) (take_asset 100 5 a) = Some (31250, 968751) /\ chargeable 100 a = true.
Proof. vm_compute. split; reflexivity. Qed.

(* C03 — share ledger consistency.  The validator-share half is FALSE of the
   unchanged code (refutation: a history executed on the real implementation);
   what is proved for every reachable state: all maps are key-sorted without
   duplicates (the structural part of the ledger), every asset is stored under its
   own denom.  The delegator-share sum is covered by the executable specification
   check_C03 on implementation traces (clause 1 never failed) — partial. *)
From Coq Require Import ZArith List Bool.
From Alliance Require Import Num KMap KMapSorted Types Monad Model Step Spec Hoare WitnessLib.
From Alliance.Witness Require Import F_C03_valshares.
From Alliance.Proofs Require Import SortedInv WellKeyed.
Import ListNotations.
Open Scope Z_scope.

(* F-C03-1: ClearDustDelegation drops a validator's residual shares (token value 0)
   without touching the asset's share total: sum of validator shares <> total. *)
Example C03_refuted_validator_shares : witness_fails 3 2 ops_F_C03_valshares = true.
Proof. vm_compute. reflexivity. Qed.
Print Assumptions C03_refuted_validator_shares.

Theorem C03_records_unique : forall h, let s := run init_state h in
  ksorted (delegations s) /\ ksorted (valinfos s) /\ ksorted (assets s).
Proof. intros h s. destruct (reachable_Sorted h) as (?&?&?&?&?); auto. Qed.
Print Assumptions C03_records_unique.

Theorem C03_asset_keys : forall h d a, kget (assets (run init_state h)) [d] = Some a -> a_denom a = d.
Proof. exact well_keyed. Qed.
Print Assumptions C03_asset_keys.

(* C03 — share ledger consistency.
   Delegator half, main theorem: for every validator and asset, in EVERY reachable state, the
   shares recorded in the delegations of (validator, asset) sum to the validator's recorded
   delegator-share total of that asset (0 when the validator has no record), and no delegation
   carries negative shares (Proofs/ShareLedger.v: induction over all histories through every
   keeper function; on the way: the rounding clamp of SubtractDecCoinsWithRounding can never fire
   on delegator shares, every stored share list stays denom-sorted).  Assumed of a step: a slash
   callback that returns an ERROR is excluded (C08); x/staking removes a validator record only
   when it carries no delegator shares of the asset.
   Validator half: FALSE of the code (refutation below, known finding F-C03-1): the validators'
   asset shares do not always sum to the asset's total.  Reset at zero total and non-negativity of
   validator shares: check_C03 on implementation traces (partial). *)
From Coq Require Import ZArith List Bool.
From Alliance Require Import Num KMap Types Monad Model Step Spec Hoare WitnessLib.
From Alliance.Witness Require Import F_C03_valshares F_C03_negative_total F_C03_negative_share_total.
From Alliance.Proofs Require Import SortedInv WellKeyed ShareLedger.
From Alliance.Proofs Require TokensNonneg ResetAtZero TotalFloor.
Import ListNotations.
Open Scope Z_scope.

Theorem C03_delegator_shares_sum_to_the_total : forall v dn h, adm_sl_run v dn init_state h ->
  let s := run init_state h in
  deleg_share_sum s v dn = dshares_of s v dn /\
  forall k x, kget (delegations s) k = Some x -> 0 <= d_shares x.
Proof. exact delegator_shares_sum_to_the_total. Qed.
Print Assumptions C03_delegator_shares_sum_to_the_total.

(* one step, any operation *)
Theorem C03_step : forall v dn s o, JD v dn 0 s -> adm_sl v dn s o -> JD v dn 0 (fst (step s o)).
Proof. exact step_JD. Qed.
Print Assumptions C03_step.

(* F-C03-1: sum of the validators' asset shares <> the asset's TotalValidatorShares (clause 2);
   history executed on the real implementation *)
Example C03_refuted_validator_shares : witness_fails 3 2 ops_F_C03_valshares = true.
Proof. vm_compute. reflexivity. Qed.
Print Assumptions C03_refuted_validator_shares.

(* fixed (Undelegate refuses more than the asset holds): on the history that used to drive the staked total to
   -1 (the last holder exits with its reported balance, which the 0.01 rounder rounds up to one unit more than
   the recorded total; at maturity the payout then failed and the end-of-block returned an error) the staked
   total and, on this history, the asset's share total stay non-negative; the over-ask is refused.  History
   re-recorded on the repaired application.  The ledger mismatch of clause 2 (F-C03-1) is a different defect and is still there. *)
Example C03_fixed_negative_staked_total :
  witness_fails 3 32 ops_F_C03_negative_total = false /\ witness_fails 3 33 ops_F_C03_negative_total = false /\
  witness_fails 3 3 ops_F_C03_negative_total = false /\ witness_fails 3 2 ops_F_C03_negative_total = true.
Proof. vm_compute. repeat split; reflexivity. Qed.
Print Assumptions C03_fixed_negative_staked_total.

(* F-C03-1 goes further than a mismatch: the asset's total of validator shares itself becomes negative (clause 33),
   also after 714c18a.  History found by the thorough tier of C05 on the repaired tree and shrunk on the real
   application (20 actions: two validators slashed by different fractions, a weight change, a drain); the staked
   total stays non-negative on it (clause 32), as the theorem below says it must. *)
Example C03_refuted_negative_share_total :
  witness_fails 3 33 ops_F_C03_negative_share_total = true /\ witness_fails 3 32 ops_F_C03_negative_share_total = false.
Proof. vm_compute. split; reflexivity. Qed.
Print Assumptions C03_refuted_negative_share_total.

(* ... and for EVERY history (not only that one): no stored asset ever has a negative staked total.  Assumed:
   an asset put in by genesis is valid and carries a non-negative total.  The only subtractions are the take
   rate (a truncation of a positive product) and Undelegate, which since 714c18a refuses more than the total. *)
Theorem C03_staked_total_never_negative : forall h, Forall TokensNonneg.op_ok h ->
  forall d a, kget (assets (run init_state h)) [d] = Some a -> 0 <= a_tokens a.
Proof. exact TokensNonneg.staked_total_never_negative. Qed.
Print Assumptions C03_staked_total_never_negative.
(* one step from any state (reachable or not) whose assets are valid with non-negative totals *)
Theorem C03_staked_total_step : forall s o, TokensNonneg.J s -> TokensNonneg.op_ok o ->
  forall d a, kget (assets (fst (step s o))) [d] = Some a -> 0 <= a_tokens a.
Proof. exact TokensNonneg.staked_total_step. Qed.
Print Assumptions C03_staked_total_step.

(* "When an asset's staked total returns to zero its validator-share records are reset": every reachable state,
   every Undelegate that succeeds and leaves the staked total of its asset at zero — afterwards the asset's total
   of validator shares is zero and no validator carries a validator-share record of that denom.  (The total
   decreases only in Undelegate and in the take rate, and a charged total never reaches zero: C09.) *)
Theorem C03_reset_when_total_returns_to_zero : forall h del v dn amt,
  let s := run init_state h in
  let r := step s (OUndelegate del v dn amt) in
  snd r = R_OK ->
  forall a', kget (assets (fst r)) [dn] = Some a' -> a_tokens a' = 0 ->
    a_vshares a' = 0 /\
    forall k vi, kget (valinfos (fst r)) k = Some vi -> Forall (fun da => fst da <> dn) (vi_vshares vi).
Proof. exact ResetAtZero.reachable_undelegate_resets_at_zero. Qed.
Print Assumptions C03_reset_when_total_returns_to_zero.

(* ... and Undelegate is the only place where a staked total returns to zero: from every state whose assets are
   well-keyed and valid, with totals >= 0 and the total of dn positive, every operation other than an Undelegate
   of dn (or the creation of the asset dn, where the total STARTS at zero) leaves the total of dn positive. *)
Theorem C03_total_returns_to_zero_only_in_undelegate : forall dn s o,
  TotalFloor.Positive dn s -> ~ TotalFloor.touches_floor dn o ->
  (match o with EGenesisAsset a => TotalFloor.AV (TotalFloor.lo1 dn) a | _ => True end) ->
  TotalFloor.Positive dn (fst (step s o)) /\
  forall a, kget (assets (fst (step s o))) [dn] = Some a -> 0 < a_tokens a.
Proof. exact TotalFloor.total_stays_positive. Qed.
Print Assumptions C03_total_returns_to_zero_only_in_undelegate.

(* structural invariants of every reachable state: every map is strictly sorted by key — no
   delegation / validator / asset record exists twice — and every asset sits under its denom *)
Theorem C03_records_unique : forall h, let s := run init_state h in
  SortedS s.
Proof. exact reachable_Sorted. Qed.
Print Assumptions C03_records_unique.
Theorem C03_asset_keys : forall h d a, kget (assets (run init_state h)) [d] = Some a -> a_denom a = d.
Proof. exact well_keyed. Qed.
Print Assumptions C03_asset_keys.

(* non-vacuity: delegate, delegate, redelegate, slash of the source, undelegate: admissible, sums agree *)
Definition C03_example : list Op :=
  [EStaking [(10, mkSVal 3 1000000 (1000000 * ONE)); (11, mkSVal 3 1000000 (1000000 * ONE))] []; EUnbondingTime 100; EParams 0 1000 ZERO_TIME;
   EGenesisAsset (mkAsset 1 ONE 0 (5 * ONE) 0 0 0 0 ONE 0 0 true); EBank [(100, 1, 1000); (101, 1, 1000)] [];
   OBeginBlock 10 1; ODelegate 100 10 1 500; ODelegate 101 10 1 333; ORedelegate 100 10 11 1 200;
   OHookSlash 10 (ONE / 3); OUndelegate 101 10 1 100; OUndelegate 100 11 1 50].
Example C03_nonvacuous : adm_sl_run 10 1 init_state C03_example /\ adm_sl_run 11 1 init_state C03_example /\
  let s := run init_state C03_example in
  (deleg_share_sum s 10 1 =? dshares_of s 10 1) && (deleg_share_sum s 11 1 =? dshares_of s 11 1) && (0 <? deleg_share_sum s 10 1) && (0 <? deleg_share_sum s 11 1) = true.
Proof.
  split; [|split; [|vm_compute; reflexivity]];
    (unfold C03_example; cbn [adm_sl_run]; repeat split; cbv [adm_sl]; try exact I; try (vm_compute; discriminate); try (vm_compute; intro; discriminate)).
Qed.
(* non-vacuity of the reset theorem: both holders exit; the last exit leaves total 0, and the premises hold *)
Definition C03_drain : list Op :=
  [EStaking [(10, mkSVal 3 1000000 (1000000 * ONE))] []; EUnbondingTime 100; EParams 0 1000 ZERO_TIME;
   EGenesisAsset (mkAsset 1 ONE 0 (5 * ONE) 0 0 0 0 ONE 0 0 true); EBank [(100, 1, 1000); (101, 1, 1000)] [];
   OBeginBlock 10 1; ODelegate 100 10 1 500; ODelegate 101 10 1 333; OUndelegate 101 10 1 333].
Example C03_reset_nonvacuous :
  let r := step (run init_state C03_drain) (OUndelegate 100 10 1 500) in
  snd r = R_OK /\ option_map a_tokens (kget (assets (fst r)) [1]) = Some 0 /\
  option_map a_vshares (kget (assets (fst r)) [1]) = Some 0.
Proof. vm_compute. repeat split; reflexivity. Qed.
Example C03_positive_nonvacuous : TotalFloor.Positive 1 (run init_state C03_drain).
Proof.
  unfold TotalFloor.Positive, TotalFloor.J. set (m := assets _). vm_compute in m. subst m.
  repeat constructor; vm_compute; congruence.
Qed.
Example C03_nonvacuous_total : Forall TokensNonneg.op_ok C03_example /\
  map (fun s => staked_total s 1) (map snd (skipn 6 (run_trace init_state C03_example))) = [500; 833; 833; 833; 733; 683].
Proof.
  split; [|vm_compute; reflexivity].
  unfold C03_example. repeat constructor; vm_compute; congruence.
Qed.

(* C20 — queries are exact views of delegations, unbondings and redelegations.
   Theorems about the model of the query code (Queries.v, mirroring keeper/unbonding.go after
   the fix "unbonding queries return only the entries matching their filter"), for EVERY
   reachable state: the answers of AllianceUnbondings(denom, delegator, validator) that carry
   completion time ct are exactly the entries of the delegator's bucket for ct that belong to
   that validator and denom — each once, in order, with the stored balance (the balance the
   end-of-block payout uses); the by-denom-and-delegator query likewise per (validator, time);
   no answer is foreign.  They rest on the index invariant of Proofs/IndexSync.v.
   The model's answers are compared with the answers of the real gRPC queries after every
   operation of the queries profile (trace records Q), together with an independent reference
   enumeration of the raw records in the harness.  The redelegation query by (delegator, denom)
   answers exactly the records filed under them, each once (C20_redelegations_exact / _once).
   Pagination, the "reported balance is withdrawable" clause and the wasm bindings are not
   theorems (partial): harness monitors and differential probes. *)
From Coq Require Import ZArith List Bool.
From Alliance Require Import Num KMap Types Monad Model Step Queries Spec Hoare.
From Alliance.Proofs Require Import IndexSync QueriesExact.
Import ListNotations.
Open Scope Z_scope.

Theorem C20_unbondings_exact : forall h dn del v ct, let s := run init_state h in
  filter (fun a => ans_time a =? ct) (q_unbondings s dn del v) = answers_of ct v dn (bucket_of s ct del).
Proof. exact unbondings_query_exact. Qed.
Print Assumptions C20_unbondings_exact.

Theorem C20_unbondings_nothing_foreign : forall s dn del v a, In a (q_unbondings s dn del v) ->
  exists u, In u (bucket_of s (ans_time a) del) /\ u_val u = v /\ u_denom u = dn /\ a = (v, ans_time a, u_amount u, dn).
Proof. exact unbondings_query_sound. Qed.
Print Assumptions C20_unbondings_nothing_foreign.

Theorem C20_unbondings_by_denom_exact : forall h dn del v ct, let s := run init_state h in
  filter (pvt v ct) (q_unbondings_by_denom s dn del) = answers_of ct v dn (bucket_of s ct del).
Proof. exact unbondings_by_denom_query_exact. Qed.
Print Assumptions C20_unbondings_by_denom_exact.

(* non-vacuity: two denoms from one validator and one from another in the same block share a bucket;
   each query returns its own entries only *)
Example C20_nonvacuous :
  let h := [EStaking [(10, mkSVal 3 1000000 (1000000 * ONE)); (11, mkSVal 3 1000000 (1000000 * ONE))] []; EUnbondingTime 100; EParams 0 1000 ZERO_TIME;
            EGenesisAsset (mkAsset 1 ONE 0 (5 * ONE) 0 0 0 0 ONE 0 0 true); EGenesisAsset (mkAsset 2 ONE 0 (5 * ONE) 0 0 0 0 ONE 0 0 true);
            EBank [(100, 1, 1000); (100, 2, 1000)] [];
            OBeginBlock 10 1; ODelegate 100 10 1 500; ODelegate 100 10 2 400; ODelegate 100 11 1 300;
            OUndelegate 100 10 1 50; OUndelegate 100 10 2 40; OUndelegate 100 11 1 30; OUndelegate 100 10 1 5] in
  let s := run init_state h in
  (q_unbondings s 1 100 10, q_unbondings s 2 100 10, q_unbondings s 1 100 11, q_unbondings_by_delegator s 100)
  = ([(10, 110, 50, 1); (10, 110, 5, 1)], [(10, 110, 40, 2)], [(11, 110, 30, 1)],
     [(10, 110, 50, 1); (10, 110, 5, 1); (11, 110, 30, 1); (10, 110, 40, 2)]).
Proof. vm_compute. reflexivity. Qed.

(* redelegations: the query by (delegator, denom) answers exactly the records filed under them, with the
   record's own fields and the completion time of its key (any state) ... *)
Theorem C20_redelegations_exact : forall s del dn a,
  In a (q_redelegations s del dn) <->
  exists dst ct r, In ([del; dn; dst; ct], r) (redels s) /\
                   a = (r_del r, r_src r, r_dst r, r_denom r, r_amount r, ct).
Proof. exact redelegations_query_exact. Qed.
Print Assumptions C20_redelegations_exact.

(* ... each record once *)
Theorem C20_redelegations_once : forall h del dn, let s := run init_state h in
  length (q_redelegations s del dn) = length (filter (fun kr => match fst kr with [d0; n0; _; _] => (d0 =? del) && (n0 =? dn) | _ => false end) (redels s)).
Proof. exact redelegations_query_once. Qed.
Print Assumptions C20_redelegations_once.

(* the by-delegator unbonding query: its answers in denom dn are exactly the by-denom answers when dn is
   whitelisted, none otherwise (every reachable state) — with C20_unbondings_by_denom_exact: every pending
   entry of the delegator in a whitelisted asset once, nothing else *)
Theorem C20_unbondings_by_delegator_exact : forall h del dn, let s := run init_state h in
  filter (fun a => ans_denom a =? dn) (q_unbondings_by_delegator s del) =
  if kmem (assets s) [dn] then q_unbondings_by_denom s dn del else [].
Proof. exact unbondings_by_delegator_exact_reachable. Qed.
Print Assumptions C20_unbondings_by_delegator_exact.

(* C05 — user-operation liveness: users can always enter, claim and fully exit.
   The full statement is FALSE of the code.  Refutations: histories that were executed on
   the real implementation (corpus/F_C05_*.jsonl) end in states in which the model's probe
   of "undelegate the whole reported balance" / "delegate one unit" fails, with the code
   named; the probe runs on a discarded copy of the state in an environment where
   x/distribution has nothing pending.  The same probes are run by the harness on the real
   application after every block of the liveness profiles (monitors), see DESIGN.md 12.5.
   What holds (partial): claims before an asset's reward start are no-ops that succeed;
   entering an empty asset succeeds and is worth the deposit (C04). *)
From Coq Require Import ZArith List Bool.
From Alliance Require Import Num KMap Types Monad Model Step Spec Hoare WitnessLib.
From Alliance.Witness Require Import F_C05_exit_insufficient_shares F_C05_exit_insufficient_tokens F_C05_exit_negative_coin F_C05_delegate_div_zero.
From Alliance.Proofs Require Import Weights.
From Alliance.Proofs Require Import FailureModes.
Import ListNotations.
Open Scope Z_scope.

(* the reported balance rounds up (0.01 rounder) beyond what the shares cover: "insufficient delegation shares" *)
Example C05_refuted_exit_insufficient_shares : exit_blocked_codes ops_F_C05_exit_insufficient_shares = [E_INSUFFICIENT_SHARES].
Proof. vm_compute. reflexivity. Qed.
Print Assumptions C05_refuted_exit_insufficient_shares.
(* the tokens recomputed from the capped shares are below the reported balance: "insufficient tokens" *)
Example C05_refuted_exit_insufficient_tokens : In E_INSUFFICIENT_TOKENS (exit_blocked_codes ops_F_C05_exit_insufficient_tokens).
Proof. vm_compute. tauto. Qed.
Print Assumptions C05_refuted_exit_insufficient_tokens.
(* the validator's shares would go negative by more than the clamp allows: panic "negative coin amount" *)
Example C05_refuted_exit_negative_coin : exit_blocked_codes ops_F_C05_exit_negative_coin = [P_NEG_COIN].
Proof. vm_compute. reflexivity. Qed.
Print Assumptions C05_refuted_exit_negative_coin.
(* a validator whose stake in the asset is worth nothing: Delegate divides by zero (panic) *)
Example C05_refuted_enter_division_by_zero : enter_blocked_codes 100 ops_F_C05_delegate_div_zero = [P_DIV_ZERO].
Proof. vm_compute. reflexivity. Qed.
Print Assumptions C05_refuted_enter_division_by_zero.

(* partial: before the reward start of the asset a claim succeeds and changes nothing *)
Theorem C05_claim_before_start_partial : forall s del v vi dn a,
  kget (assets s) [dn] = Some a -> rewards_started a (now s) = false ->
  claim_delegation_rewards del v vi dn s = Ok vi s.
Proof. exact claim_before_start_is_noop. Qed.
Print Assumptions C05_claim_before_start_partial.

(* every way a user message can fail: exhaustive lists of the error / panic codes its call tree can end
   with, in any state (no other code is possible).  The refusals the caller asked for: E_INVALID_ARG
   (amount <= 0), E_NO_VALIDATOR, E_UNKNOWN_ASSET, E_NO_DELEGATION, E_SAME_VALIDATOR, E_TRANSITIVE,
   E_INSUFFICIENT_SHARES / _TOKENS when more than the position holds is requested.  The others are the
   listed liveness findings: E_INSUFFICIENT_FUNDS (reward pool short, F-C12-1), P_DIV_ZERO (zero-value
   validator), P_NEG_COIN, E_INSUFFICIENT_SHARES / _TOKENS at the reported balance (rounding).
   E_ORACLE is the harness contract (recorded withdrawals), not a code of the real module. *)
Theorem C05_claim_failure_modes : forall del v dn, raises (fun e => In e claim_codes) (msg_claim del v dn).
Proof. exact claim_failure_modes. Qed.
Print Assumptions C05_claim_failure_modes.
Theorem C05_delegate_failure_modes : forall del v dn amt, raises (fun e => In e delegate_codes) (msg_delegate del v dn amt).
Proof. exact delegate_failure_modes. Qed.
Print Assumptions C05_delegate_failure_modes.
Theorem C05_undelegate_failure_modes : forall del v dn amt, raises (fun e => In e undelegate_codes) (msg_undelegate del v dn amt).
Proof. exact undelegate_failure_modes. Qed.
Print Assumptions C05_undelegate_failure_modes.
Theorem C05_redelegate_failure_modes : forall del src dst dn amt, raises (fun e => In e redelegate_codes) (msg_redelegate del src dst dn amt).
Proof. exact redelegate_failure_modes. Qed.
Print Assumptions C05_redelegate_failure_modes.

(* C16 — governance gate and asset-parameter validity.  Statements only; the
   proofs are in Proofs/InvAssets.v and Proofs/Gov.v. *)
From Coq Require Import ZArith List Bool.
From Alliance Require Import Num KMap Types Monad Model Step Spec.
From Alliance.Proofs Require Import InvAssets WellKeyed Gov.
Import ListNotations.
Open Scope Z_scope.

(* Every stored asset satisfies 0 <= takeRate < 1, min <= weight <= max,
   changeRate > 0, changeInterval >= 0 in every state reachable by ANY history of
   user messages, governance messages (any signer, any field values, nil
   included), slashing callbacks, end-of-blocks and environment events, provided
   the assets imported at genesis were valid. *)
Theorem C16_asset_valid_inv : forall h,
  Forall op_ok h -> forall d a, kget (assets (run init_state h)) [d] = Some a -> asset_valid a = true.
Proof. exact assets_valid_in_every_reachable_state. Qed.
Print Assumptions C16_asset_valid_inv.

(* A governance message not signed by the authority is rejected, for all field values. *)
Theorem C16_gate : forall s o au, gov_signer o = Some au -> au <> AUTHORITY -> snd (step s o) <> R_OK.
Proof. exact gov_gate. Qed.
Print Assumptions C16_gate.

(* Before the authority comparison the raw handlers (no transaction wrapper) have
   written nothing: they fail, and the state at the failure point is the state
   they started from.  (That ANY rejected message leaves no trace is then what
   baseapp's cached store provides; it is the [tx] wrapper of Step.v, modelled.) *)
Theorem C16_raw_handlers_write_nothing_before_the_gate : forall s,
  (forall m, m_auth m <> AUTHORITY -> untouched_failure (msg_create_alliance m s) s) /\
  (forall m, m_auth m <> AUTHORITY -> untouched_failure (msg_update_alliance m s) s) /\
  (forall au d, au <> AUTHORITY -> untouched_failure (msg_delete_alliance au d s) s) /\
  (forall au a b c, au <> AUTHORITY -> untouched_failure (msg_update_params au a b c s) s).
Proof.
  intros s; repeat split; intros.
  - apply raw_gate_create; assumption.
  - apply raw_gate_update; assumption.
  - apply raw_gate_delete; assumption.
  - apply raw_gate_params; assumption.
Qed.
Print Assumptions C16_raw_handlers_write_nothing_before_the_gate.

(* An accepted update never alters staked total, share total, denom or start time. *)
Theorem C16_update_frame : forall h m a, let s := run init_state h in
  snd (step s (OUpdateAlliance m)) = R_OK ->
  kget (assets s) [m_denom m] = Some a ->
  exists b, kget (assets (fst (step s (OUpdateAlliance m)))) [m_denom m] = Some b /\
            a_tokens b = a_tokens a /\ a_vshares b = a_vshares a /\ a_denom b = a_denom a /\ a_start b = a_start a.
Proof. intros h m a s Hok Hg. exact (gov_update_frame s m a Hok Hg (well_keyed h _ _ Hg)). Qed.
Print Assumptions C16_update_frame.

(* Deletion succeeds only while nothing is staked; creation only for an absent denom. *)
Theorem C16_delete_guard : forall s au d, snd (step s (ODeleteAlliance au d)) = R_OK ->
  exists a, kget (assets s) [d] = Some a /\ a_tokens a <= 0.
Proof. exact gov_delete_guard. Qed.
Print Assumptions C16_delete_guard.

Theorem C16_create_unique : forall s m, snd (step s (OCreateAlliance m)) = R_OK -> kget (assets s) [m_denom m] = None.
Proof. exact gov_create_unique. Qed.
Print Assumptions C16_create_unique.

(* non-vacuity: an accepted creation, an accepted update, a rejected one *)
Example C16_nonvacuous :
  let m := mkAllianceMsg AUTHORITY 1 (Some ONE) (Some 0) (Some (5 * ONE)) (Some 0) (Some ONE) 0 in
  let h := [OCreateAlliance m; OUpdateAlliance m; OUpdateAlliance (mkAllianceMsg 100 1 (Some ONE) (Some 0) (Some ONE) (Some 0) (Some ONE) 0)] in
  map (fun x => snd (fst x)) (run_trace init_state h) = [R_OK; R_OK; R_ERR]
  /\ Forall op_ok h.
Proof. split; [vm_compute; reflexivity | repeat constructor]. Qed.

(* C14 — reward weight lifecycle.  Statements only; proofs in Proofs/Weights.v. *)
From Coq Require Import ZArith List Bool.
From Alliance Require Import Num KMap Types Monad Model Step Spec.
From Alliance.Proofs Require Import InvAssets Weights.
Import ListNotations.
Open Scope Z_scope.

(* The weight lies inside its configured range in every state reachable by any
   history (decay, governance, any schedule), genesis assets being valid. *)
Theorem C14_range_inv : forall h, Forall op_ok h ->
  forall d a, kget (assets (run init_state h)) [d] = Some a -> a_wmin a <= a_weight a <= a_wmax a.
Proof. exact weight_in_range_in_every_reachable_state. Qed.
Print Assumptions C14_range_inv.

(* The end-of-block decay hook returns, for ANY list of assets and any block
   time, exactly the list decayed asset by asset (several assets in one block). *)
Theorem C14_hook_is_decay_all : forall als s,
  match reward_weight_change_hook als s with
  | Ok r _ => decay_all (now s) als = Some r
  | _ => True
  end.
Proof. exact reward_weight_change_hook_spec. Qed.
Print Assumptions C14_hook_is_decay_all.

(* One asset: decay fires iff interval > 0, rate <> 1 and last + interval <= T;
   then w' = clamp (w (x) rate^(n)) with n = floor((T - last) / interval) >= 1 whole
   intervals (fixed-point power and product as the code computes them), and the
   clock advances by exactly n intervals: last' <= T < last' + interval. *)
Theorem C14_decay_step : forall t a b, 0 <= a_interval a -> decay_asset t a = Some b ->
  if decay_due t a then
    exists n m w0, n = Z.quot (t - a_last a) (a_interval a) /\ 1 <= n /\
      dpow (a_rate a) n = Some m /\ dmul_chk (a_weight a) m = Some w0 /\
      a_weight b = clamp (a_wmin a) (a_wmax a) w0 /\
      a_last b = a_last a + a_interval a * n /\ a_last b <= t < a_last b + a_interval a
  else b = a.
Proof. exact decay_asset_spec. Qed.
Print Assumptions C14_decay_step.

Theorem C14_clamp : forall lo hi w, lo <= hi -> lo <= clamp lo hi w <= hi.
Proof. exact clamp_in_range. Qed.
Print Assumptions C14_clamp.

(* Warm-up: before its reward start time an asset's positions claim nothing and
   the asset receives no reward index. *)
Theorem C14_warmup_no_claim : forall s del v vi dn a,
  kget (assets s) [dn] = Some a -> rewards_started a (now s) = false ->
  claim_delegation_rewards del v vi dn s = Ok vi s.
Proof. exact claim_before_start_is_noop. Qed.
Print Assumptions C14_warmup_no_claim.

Theorem C14_warmup_no_index : forall t a vi, rewards_started a t = false -> skip_rewards t a vi = true.
Proof. exact not_started_skipped. Qed.
Print Assumptions C14_warmup_no_index.

(* not retroactive: when UpdateAllianceAsset returns, the stored record has the new parameters, the
   staked total / validator shares / start time of the old record, and a decay clock that starts at
   the block time exactly when a schedule is configured where none was running (rate 1 or interval
   0 before); a running schedule keeps the clock it had *)
Theorem C14_schedule_change_is_not_retroactive : forall na a s s',
  kget (assets s) [a_denom na] = Some a -> a_denom a = a_denom na ->
  update_alliance_asset na s = Ok tt s' ->
  exists b, kget (assets s') [a_denom na] = Some b /\
    a_last b = schedule_clock (now s) a na /\
    a_weight b = a_weight na /\ a_rate b = a_rate na /\ a_interval b = a_interval na /\ a_take b = a_take na /\
    a_tokens b = a_tokens a /\ a_vshares b = a_vshares a /\ a_start b = a_start a.
Proof. exact update_asset_clock. Qed.
Print Assumptions C14_schedule_change_is_not_retroactive.

(* non-vacuity: weight 1.0, rate 0.5 per hour, 3.5 hours late: 1/8, clock + 3 h *)
Example C14_nonvacuous :
  let a := mkAsset 1 ONE 0 (5 * ONE) 0 0 0 0 (ONE / 2) 3600 0 true in
  option_map (fun b => (a_weight b, a_last b)) (decay_asset 12600 a) = Some (ONE / 8, 10800)
  /\ decay_due 12600 a = true.
Proof. vm_compute. split; reflexivity. Qed.

(* C08 — the slash callback is total.  FALSE of the code (refutation: the reward
   claim inside the redelegation loop can find the pool short, F-C12-1); three
   other failure modes were repaired.  What holds: rescheduling on success,
   validators without alliance stake. *)
From Coq Require Import ZArith List Bool.
From Alliance Require Import Num KMap Types Monad Model Step Spec Hoare WitnessLib.
From Alliance.Witness Require Import F_C08_missing_destination F_C08_shrunken_destination F_C08_zero_value F_C08_pool_short F_C08_div_zero_settlement.
From Alliance.Proofs Require Import Flag Misc.
From Alliance.Proofs Require Import FailureModes RedelSync.
Import ListNotations.
Open Scope Z_scope.

(* F-C08-1, F-C08-2, F-C08-3 (FIXED in /repo by "fix: cap the slash of a redelegation at what
   the destination delegation holds"): the callback returned "delegator does not contain
   delegation" when the destination position had been fully undelegated, "insufficient
   delegation shares" when it held less than the slash, and panicked "division by zero" when
   the destination validator's token value was zero.  The three witness histories (executed on
   the real implementation before the fix) now complete. *)
Example C08_fixed_missing_destination : witness_fails 8 1 ops_F_C08_missing_destination = false.
Proof. vm_compute. reflexivity. Qed.
Print Assumptions C08_fixed_missing_destination.
Example C08_fixed_shrunken_destination : witness_fails 8 1 ops_F_C08_shrunken_destination = false.
Proof. vm_compute. reflexivity. Qed.
Print Assumptions C08_fixed_shrunken_destination.
Example C08_fixed_zero_value : witness_fails 8 1 ops_F_C08_zero_value = false.
Proof. vm_compute. reflexivity. Qed.
Print Assumptions C08_fixed_zero_value.
(* F-C12-1 seen through C08: the claim inside the loop finds the pool short *)
Example C08_refuted_pool_short : witness_fails 8 1 ops_F_C08_pool_short = true.
Proof. vm_compute. reflexivity. Qed.
Print Assumptions C08_refuted_pool_short.
(* F-C17-3 seen through C08: settling the rewards of a redelegation's destination divides by a zero
   total of staked reward weights (the destination's weight rounds to zero); the callback panics.
   History executed on the real implementation; the last result is a panic with code P_DIV_ZERO *)
Example C08_refuted_div_zero_settlement :
  witness_fails 8 1 ops_F_C08_div_zero_settlement = true /\
  option_map snd (last_result (firstn 38 ops_F_C08_div_zero_settlement)) = Some Monad.P_DIV_ZERO.
Proof. vm_compute. split; reflexivity. Qed.
Print Assumptions C08_refuted_div_zero_settlement.

(* whenever the callback succeeds a rebalance is queued *)
Theorem C08_success_reschedules : forall s v f, snd (step s (OHookSlash v f)) = R_OK -> flag (fst (step s (OHookSlash v f))) = true.
Proof. intros s v f H. exact (triggers s (OHookSlash v f) H). Qed.
Print Assumptions C08_success_reschedules.

(* a validator with no alliance stake and no pending entries: total, for every fraction in (0,1] *)
Theorem C08_no_alliance_stake : forall s v f sv, 0 < f -> f <= ONE -> kget (svals s) [v] = Some sv ->
  match kget (valinfos s) [v] with Some vi => vi_vshares vi = [] | None => True end ->
  kfilter (kprefix [v]) (redelidx s) = [] -> kfilter (kprefix [v]) (undelidx s) = [] ->
  exists s', hook_slash v f s = Ok tt s' /\ flag s' = true.
Proof. exact slash_without_alliance_stake. Qed.
Print Assumptions C08_no_alliance_stake.

(* every way the callback can fail (exhaustive list of codes, any state): a fraction outside (0,1],
   a missing staking validator / asset / record, the reward pool short, a zero-value validator, a
   negative coin; nothing else *)
Theorem C08_failure_modes : forall v f, raises (fun e => In e slash_codes) (hook_slash v f).
Proof. exact slash_failure_modes. Qed.
Print Assumptions C08_failure_modes.

(* one of those failure modes is excluded in every reachable state: every key of the per-source redelegation
   index has its record (and its entry in the time queue), so the walk over pending redelegations never meets
   a key without record *)
Theorem C08_every_index_key_has_its_record : forall h src ct dn dst del, let s := run init_state h in
  kget (redelidx s) [src; ct; dn; dst; del] = Some tt ->
  (exists r, kget (redels s) [del; dn; dst; ct] = Some r) /\
  (exists l e, kget (redelq s) [ct] = Some l /\ In e l /\ r_src e = src /\ r_del e = del /\ r_dst e = dst /\ r_denom e = dn).
Proof. exact every_index_key_has_its_record. Qed.
Print Assumptions C08_every_index_key_has_its_record.
Theorem C08_slash_of_redelegations_never_misses_a_record : forall h v f, let s := run init_state h in
  match slash_redelegations v f s with Err e _ => e <> Monad.E_MISSING_RECORD | Panic e _ => e <> Monad.E_MISSING_RECORD | Ok _ _ => True end.
Proof. exact slash_redelegations_finds_its_records. Qed.
Print Assumptions C08_slash_of_redelegations_never_misses_a_record.

(* ... nor does the callback as a whole: in every reachable state it never fails on a missing record or a
   malformed index key (the invariants hold at every intermediate state of the callback) *)
Theorem C08_callback_never_misses_a_record : forall h v f, let s := run init_state h in
  match hook_slash v f s with Err e _ => e <> Monad.E_MISSING_RECORD | Panic e _ => e <> Monad.E_MISSING_RECORD | Ok _ _ => True end.
Proof. exact slash_callback_never_misses_a_record. Qed.
Print Assumptions C08_callback_never_misses_a_record.

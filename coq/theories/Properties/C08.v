(* C08 — the slash callback is total.  FALSE of the unchanged code (four
   refutations, histories executed on the real implementation); what holds:
   rescheduling on success, validators without alliance stake. *)
From Coq Require Import ZArith List Bool.
From Alliance Require Import Num KMap Types Monad Model Step Spec Hoare WitnessLib.
From Alliance.Witness Require Import F_C08_missing_destination F_C08_shrunken_destination F_C08_zero_value F_C08_pool_short.
From Alliance.Proofs Require Import Flag Misc.
Import ListNotations.
Open Scope Z_scope.

(* F-C08-1: destination position of a pending redelegation fully undelegated:
   "delegator does not contain delegation" (error, code 4); partial state kept *)
Example C08_refuted_missing_destination : witness_fails 8 1 ops_F_C08_missing_destination = true.
Proof. vm_compute. reflexivity. Qed.
Print Assumptions C08_refuted_missing_destination.
(* F-C08-2: destination smaller than the slash: "insufficient delegation shares" (code 5) *)
Example C08_refuted_shrunken_destination : witness_fails 8 1 ops_F_C08_shrunken_destination = true.
Proof. vm_compute. reflexivity. Qed.
Print Assumptions C08_refuted_shrunken_destination.
(* F-C08-3: destination validator's token value is zero: division by zero (panic) *)
Example C08_refuted_zero_value : witness_fails 8 1 ops_F_C08_zero_value = true.
Proof. vm_compute. reflexivity. Qed.
Print Assumptions C08_refuted_zero_value.
(* F-C12-1 seen through C08: the claim inside the loop finds the pool short *)
Example C08_refuted_pool_short : witness_fails 8 1 ops_F_C08_pool_short = true.
Proof. vm_compute. reflexivity. Qed.
Print Assumptions C08_refuted_pool_short.

(* whenever the callback succeeds a rebalance is queued *)
Theorem C08_success_reschedules : forall s v f, snd (step s (OHookSlash v f)) = R_OK -> flag (fst (step s (OHookSlash v f))) = true.
Proof. intros s v f H. exact (triggers s (OHookSlash v f) H). Qed.
Print Assumptions C08_success_reschedules.

(* a validator with no alliance stake and no pending entries: total, for every fraction in (0,1] *)
Theorem C08_no_alliance_stake : forall s v f sv, 0 < f -> f <= ONE -> kget (svals s) [v] = Some sv ->
  match kget (valinfos s) [v] with Some vi => vi_vshares vi = [] | None => True end ->
  kfilter (kprefix [v]) (redelidx s) = [] -> kfilter (kprefix [v]) (undelidx s) = [] ->
  exists s', hook_slash v f s = Ok tt s' /\ flag s' = true.
Proof. exact slash_without_alliance_stake. Qed.
Print Assumptions C08_no_alliance_stake.

(* C01 — custody: the module holds the staked total plus the pending unbondings. *)
From Coq Require Import ZArith List Bool.
From Alliance Require Import Num KMap Types Monad Model Step Spec Hoare.
From Alliance.Proofs Require Import Custody.
Import ListNotations.
Open Scope Z_scope.

(* custody - staked total - pending unbondings of a denom *)
Theorem C01_slack_is_the_spec_quantity : forall d s, sl d s = slack s d.
Proof. exact sl_is_slack. Qed.
Print Assumptions C01_slack_is_the_spec_quantity.

(* C01 — custody: the module holds the staked total plus the pending unbondings. *)
From Coq Require Import ZArith List Bool.
From Alliance Require Import Num KMap Types Monad Model Step Spec Hoare.
From Alliance.Proofs Require Import Custody.
Import ListNotations.
Open Scope Z_scope.

(* custody - staked total - pending unbondings of a denom *)
Theorem C01_slack_is_the_spec_quantity : forall d s, sl d s = slack s d.
Proof. exact sl_is_slack. Qed.
Print Assumptions C01_slack_is_the_spec_quantity.

(* JC d c s: the structural invariants (sorted maps, assets keyed by their denom, recorded
   withdrawals non-negative) hold and custody of d exceeds what is owed by at least c *)
Theorem C01_delegation_keeps_custody_covering_partial : forall d, d <> BOND_DENOM ->
  forall del v vi dn amt c, del <> ACC_ALLIANCE -> 0 < amt ->
  hoare (JC d c) (k_delegate del v vi dn amt) (fun _ => JC d c) (fun _ => True).
Proof. exact jc_k_delegate. Qed.
Print Assumptions C01_delegation_keeps_custody_covering_partial.

Theorem C01_claim_keeps_custody_covering_partial : forall d del v vi dn c, del <> ACC_ALLIANCE -> inv (JC d c) (claim_delegation_rewards del v vi dn).
Proof. exact jc_claim_delegation_rewards. Qed.
Print Assumptions C01_claim_keeps_custody_covering_partial.

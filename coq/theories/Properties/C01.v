(* C01 — custody: the module holds the staked total plus the pending unbondings.
   Main theorem: for every alliance denom other than the staking denom, in EVERY state
   reachable through ANY sequence of delegations, undelegations, redelegations, claims,
   slashes, governance messages, block boundaries (end-of-block payouts, take rate, decay,
   rebalancing) and environment events, custody is at least the staked total plus all
   pending unbonding balances; and a margin once present (unsolicited transfers) is never
   eaten into.  The induction goes through every keeper function of the model (Hoare logic,
   Proofs/Custody.v), unbounded in history length, participants and amounts.
   Admissibility of a step (adm) is what is assumed, all of it stated on observables:
     - environment: third parties and genesis do not lower the slack; recorded distribution
       withdrawals are non-negative; the custody module account signs no delegation;
     - a slash callback that returns an ERROR (its partial writes stay, C08) is excluded;
     - an asset is deleted with a non-negative staked total (C03 checks non-negativity).
   The other direction ("exceeding only by unsolicited coins") is FALSE of the code: rewards
   withdrawn for a validator without delegator shares stay in custody (F-C01-1, see C11). *)
From Coq Require Import ZArith List Bool Lia.
From Alliance Require Import Num KMap Types Monad Model Step Spec Hoare.
From Alliance.Proofs Require Import Custody.
From Alliance.Proofs Require TokensNonneg CustodyClosed.
From Alliance Require Import WitnessLib.
From Alliance.Witness Require Import F_C01_stranded_alliance_denom.
Import ListNotations.
Open Scope Z_scope.

(* custody - staked total - pending unbondings of a denom: the quantity check_C01 evaluates *)
Theorem C01_slack_is_the_spec_quantity : forall d s, sl d s = slack s d.
Proof. exact sl_is_slack. Qed.
Print Assumptions C01_slack_is_the_spec_quantity.

Theorem C01_custody_never_short : forall d, d <> BOND_DENOM ->
  forall h, adm_run d init_state h -> 0 <= slack (run init_state h) d.
Proof. intros d Hd h. exact (custody_never_short d Hd h). Qed.
Print Assumptions C01_custody_never_short.

Theorem C01_margin_is_kept : forall d, d <> BOND_DENOM ->
  forall c h s, Inv s -> c <= slack s d -> adm_run d s h -> c <= slack (run s h) d.
Proof. intros d Hd c h s. exact (custody_margin_kept d Hd c h s). Qed.
Print Assumptions C01_margin_is_kept.

(* the same without the C03 assumption on DeleteAlliance: no stored asset ever has a negative total
   (TokensNonneg.v, true since fix 714c18a), so nothing is assumed of the module's own messages other than
   that a slash callback returning an ERROR is excluded; genesis assets are valid with a non-negative total *)
Theorem C01_custody_never_short_closed : forall d, d <> BOND_DENOM ->
  forall h, CustodyClosed.adm0_run d init_state h -> 0 <= slack (run init_state h) d.
Proof. intros d Hd h. exact (CustodyClosed.custody_never_short_closed d Hd h). Qed.
Print Assumptions C01_custody_never_short_closed.

(* one step, any operation *)
Theorem C01_step : forall d, d <> BOND_DENOM -> forall c s o, JC d c s -> adm d s o -> JC d c (fst (step s o)).
Proof. intros d Hd c s o. exact (step_JC d Hd c s o). Qed.
Print Assumptions C01_step.

(* non-vacuity: a history with a delegation, an undelegation, a slash while unbonding, a take-rate
   deduction and the payout satisfies the admissibility conditions, and custody is exactly what is owed *)
Definition C01_example : list Op :=
  [EStaking [(10, mkSVal 3 1000000 (1000000 * ONE))] []; EUnbondingTime 100; EParams 0 50 ZERO_TIME;
   EGenesisAsset (mkAsset 1 ONE 0 (5 * ONE) (ONE / 2) 0 0 0 ONE 0 0 true); EBank [(100, 1, 1000)] [];
   OBeginBlock 10 1; ODelegate 100 10 1 500; OUndelegate 100 10 1 200; OEndBlock;
   OBeginBlock 70 2; OHookSlash 10 (ONE / 10); OEndBlock;
   OBeginBlock 130 3; OEndBlock; OBeginBlock 131 4; OEndBlock].
Example C01_nonvacuous : adm_run 1 init_state C01_example /\
  map (fun x => (snd (fst x), slack (snd x) 1, staked_total (snd x) 1, unbonding_sum (snd x) 1, bal (snd x) 100 1)) (skipn 6 (run_trace init_state C01_example))
  = [(0, 0, 500, 0, 500); (0, 0, 300, 200, 500); (0, 0, 300, 200, 500);
     (0, 0, 300, 200, 500); (0, 0, 300, 180, 500); (0, 0, 150, 180, 500);
     (0, 0, 150, 180, 500); (0, 0, 75, 0, 680); (0, 0, 75, 0, 680); (0, 0, 75, 0, 680)].
Proof.
  split; [|vm_compute; reflexivity].
  unfold C01_example. cbn [adm_run]. repeat split; cbv [adm]; try exact I; try (unfold ACC_ALLIANCE; lia); try (vm_compute; discriminate);
    try (vm_compute; intro; discriminate); try constructor.
Qed.

Example C01_nonvacuous_closed : CustodyClosed.adm0_run 1 init_state (C01_example ++ [ODeleteAlliance AUTHORITY 1]).
Proof.
  unfold C01_example. cbn [app CustodyClosed.adm0_run]. repeat split; cbv [CustodyClosed.adm0 adm]; try exact I; try (unfold ACC_ALLIANCE; lia); try (vm_compute; discriminate);
    try (vm_compute; intro; discriminate); try constructor; try (vm_compute; congruence).
Qed.

(* the exactness half ("exceeding it only by coins third parties sent") is false of the code:
   a history executed on the real implementation (corpus/F_C01_stranded_alliance_denom.jsonl)
   in which the custody of an alliance denom grows inside the end-of-block rebalance (F-C01-1) *)
Example C01_refuted_exactness : witness_fails 1 23 ops_F_C01_stranded_alliance_denom = true
  /\ witness_fails 1 1 ops_F_C01_stranded_alliance_denom = false
  /\ witness_fails 1 2 ops_F_C01_stranded_alliance_denom = false
  /\ witness_fails 1 21 ops_F_C01_stranded_alliance_denom = false.
Proof. vm_compute. repeat split. Qed.
Print Assumptions C01_refuted_exactness.

(* C17 — end-of-block processing never fails.  The full statement is FALSE of
   the code: two refutations (a third defect was repaired, see below), each a history that was executed on
   the real implementation (corpus/F_C17_*.jsonl), shrunk there, and is replayed
   here through the model.  What does hold is stated leg by leg. *)
From Coq Require Import ZArith List Bool Lia.
From Alliance Require Import Num KMap KMapSorted Types Monad Model Step Spec Hoare WitnessLib.
From Alliance.Witness Require Import F_C17_interval_zero F_C17_decay_overflow F_C17_div_zero.
From Alliance.Proofs Require Import Totality ParamsInv.
From Alliance.Proofs Require Import FailureModes.
From Alliance.Proofs Require TokensNonneg CustodyClosed PayoutTotal PayoutReachable TotalFloor TakeTotal EndBlockPrefix EndBlockReachable.
Import ListNotations.
Open Scope Z_scope.

(* F-C17-1 (FIXED in /repo by "fix: reject a non-positive TakeRateClaimInterval in UpdateParams"):
   UpdateParams accepted TakeRateClaimInterval = 0 and the next end-of-block divided by it.
   The witness history (executed on the real implementation before the fix) now ends well:
   the parameter change is refused and the last operation, OEndBlock, succeeds. *)
Example C17_fixed_interval_zero : last_result ops_F_C17_interval_zero = Some (R_OK, 0).
Proof. vm_compute. reflexivity. Qed.
Print Assumptions C17_fixed_interval_zero.

(* acceptance implies runnability for the claim interval: an accepted UpdateParams stores a
   positive interval, and in every reachable state the interval is positive, so the integer
   division of the take-rate leg is never by zero *)
Theorem C17_accepted_interval_is_positive : forall s au dl iv l,
  snd (step s (OUpdateParams au dl iv l)) = R_OK -> 0 < p_interval (params (fst (step s (OUpdateParams au dl iv l)))).
Proof. exact accepted_interval_positive. Qed.
Print Assumptions C17_accepted_interval_is_positive.

Theorem C17_interval_positive_in_every_reachable_state : forall h s0,
  0 < p_interval (params s0) -> Forall params_op_ok h -> 0 < p_interval (params (run s0 h)).
Proof. exact run_interval_positive. Qed.
Print Assumptions C17_interval_positive_in_every_reachable_state.

Theorem C17_take_rate_leg_never_divides_by_zero : forall last als s,
  0 < p_interval (params s) -> res_code (deduct_take_rate last als s) <> P_DIV_ZERO_INTERVAL.
Proof. exact deduct_no_interval_panic. Qed.
Print Assumptions C17_take_rate_leg_never_divides_by_zero.

(* F-C17-2: governance accepts a growth rate with a tiny interval; Power overflows
   (315 bits) in the end-of-block decay hook (panic, model code 103). *)
Example C17_refuted_decay_overflow : last_result ops_F_C17_decay_overflow = Some (R_PANIC, P_OVERFLOW).
Proof. vm_compute. reflexivity. Qed.
Print Assumptions C17_refuted_decay_overflow.

(* F-C17-3: a validator whose share of an asset is below 10^-18 of the total has token
   value 0; settling its rewards during the rebalance divides by zero (panic, code 101). *)
Example C17_refuted_div_zero : last_result ops_F_C17_div_zero = Some (R_PANIC, P_DIV_ZERO).
Proof. vm_compute. reflexivity. Qed.
Print Assumptions C17_refuted_div_zero.

(* legs that are total in every state *)
Theorem C17_complete_redelegations_total : forall s, exists a s', complete_redelegations s = Ok a s'.
Proof. intros s; apply nofail_ok, complete_redelegations_total. Qed.
Print Assumptions C17_complete_redelegations_total.

Theorem C17_initialize_assets_total : forall als s, exists a s', initialize_assets als s = Ok a s'.
Proof. intros als s; apply nofail_ok, initialize_assets_total. Qed.
Print Assumptions C17_initialize_assets_total.

(* partial: the take-rate leg when the clock is not due; the decay leg without schedules *)
Theorem C17_deduct_not_due_partial : forall als s, now s <= p_last (params s) + p_interval (params s) ->
  exists s', deduct_assets_hook als s = Ok als s'.
Proof. exact deduct_hook_total_when_not_due. Qed.
Print Assumptions C17_deduct_not_due_partial.

Theorem C17_decay_without_schedule_partial : forall als s,
  Forall (fun a => a_interval a = 0 \/ a_rate a = ONE) als -> exists r s', reward_weight_change_hook als s = Ok r s'.
Proof. exact weight_hook_total_without_schedule. Qed.
Print Assumptions C17_decay_without_schedule_partial.

(* every way end-of-block can fail (exhaustive list of codes, any state).  P_DIV_ZERO_INTERVAL is
   excluded for reachable states by C17_take_rate_leg_never_divides_by_zero; P_OVERFLOW and P_DIV_ZERO
   are the findings F-C17-2/3; the others need a staking / bank environment that refuses *)
Theorem C17_failure_modes : raises (fun e => In e end_block_codes) end_blocker.
Proof. exact end_block_failure_modes. Qed.
Print Assumptions C17_failure_modes.

(* The payout leg (F-C03-2, FIXED in /repo by 714c18a "fix: undelegating more than the asset holds is refused"):
   before the fix the last holder of an asset could queue an unbonding entry of one unit more than custody
   holds, and at its maturity CompleteUnbondings failed "insufficient funds" — the end-of-block returned an
   error (observed on the real application).  Now, for EVERY admissible history and whatever the time of the
   next block, completing the matured redelegations and paying the matured unbondings returns normally:
   custody covers the pending balances (C01) because no staked total is negative (C03), pending balances are
   never negative and the payout sends exactly them.  Assumed of the history: C01's environment conditions,
   no slash callback returned an ERROR, genesis assets valid, no undelegation message names the staking denom. *)
Theorem C17_payout_never_fails : forall h t ht, PayoutReachable.history_ok h ->
  let s := fst (step (run init_state h) (OBeginBlock t ht)) in
  exists s', (complete_redelegations ;;; complete_unbondings) s = Ok tt s'.
Proof. exact PayoutReachable.payout_never_fails. Qed.
Print Assumptions C17_payout_never_fails.

(* the state-level half, any state: non-negative pending balances covered by custody are paid *)
Theorem C17_covered_payout_returns : forall s, ksorted (bank s) -> PayoutTotal.EN PayoutTotal.notbond s -> PayoutTotal.Cover s ->
  exists s', complete_unbondings s = Ok tt s'.
Proof.
  intros s H1 H2 H3. pose proof (PayoutTotal.complete_unbondings_total s (conj H1 (conj H2 H3))) as H.
  destruct (complete_unbondings s) as [[] s'|e s'|e s']; [eexists; reflexivity | contradiction | contradiction].
Qed.
Print Assumptions C17_covered_payout_returns.

(* pending balances are never negative: every history, no hypothesis *)
Theorem C17_pending_balances_never_negative : forall h ct del l u,
  kget (undelq (run init_state h)) [ct; del] = Some l -> In u l -> 0 <= u_amount u.
Proof. exact PayoutTotal.pending_balances_never_negative. Qed.
Print Assumptions C17_pending_balances_never_negative.

(* non-vacuity: the history of C01's example (delegate, undelegate, slash while unbonding, take rate, payout)
   is admissible in the sense above, for every denom *)
Definition C17_example : list Op :=
  [EStaking [(10, mkSVal 3 1000000 (1000000 * ONE))] []; EUnbondingTime 100; EParams 0 50 ZERO_TIME;
   EGenesisAsset (mkAsset 1 ONE 0 (5 * ONE) (ONE / 2) 0 0 0 ONE 0 0 true); EBank [(100, 1, 1000)] [];
   OBeginBlock 10 1; ODelegate 100 10 1 500; OUndelegate 100 10 1 200; OEndBlock;
   OBeginBlock 70 2; OHookSlash 10 (ONE / 10); OEndBlock].
Example C17_payout_nonvacuous : PayoutReachable.history_ok C17_example /\
  unbonding_sum (run init_state C17_example) 1 = 180 /\
  snd (step (fst (step (run init_state C17_example) (OBeginBlock 130 3))) OEndBlock) = R_OK.
Proof.
  split; [|split; vm_compute; reflexivity].
  split.
  - intros d Hd. unfold C17_example. cbn [CustodyClosed.adm0_run]. repeat split; cbv [CustodyClosed.adm0 Custody.adm]; try exact I;
      try (unfold ACC_ALLIANCE; lia); try (vm_compute; discriminate); try (vm_compute; intro; discriminate); try constructor;
      try (vm_compute; congruence). all: rewrite !Custody.sl_is_slack; unfold slack, custody, owed, staked_total, unbonding_sum, all_undels, bal; cbn. all: destruct (d ?= 1); cbn; try lia.
  - unfold C17_example. repeat constructor; vm_compute; discriminate.
Qed.

(* The first FOUR phases (redelegation completion, payout, asset initialisation, take-rate deduction with its
   transfer to the fee collector): for every admissible history, at the next block — claim interval positive
   (C17_interval_positive_in_every_reachable_state), block time within 2^69 ns (about 18 000 years) of the last
   claim — they return normally, and EndBlocker is exactly the weight decay and the rebalance run on their
   result.  So in these states EndBlocker can fail only in those two legs (F-C17-2, F-C17-3).  The take-rate
   leg: PowerMut on a base in [0,1] neither overflows nor leaves [0,1]; the deducted amount is between 0 and
   the staked total; custody covers the staked totals (C01 + C03). *)
Theorem C17_asset_legs_never_fail : forall h t ht, EndBlockReachable.history_ok h ->
  let s := fst (step (run init_state h) (OBeginBlock t ht)) in
  0 < p_interval (params s) ->
  (p_last (params s) = ZERO_TIME \/ 0 <= t - p_last (params s) < 2 ^ 69) ->
  exists r s', EndBlockPrefix.end_block_prefix s = Ok r s'.
Proof. exact EndBlockReachable.asset_legs_never_fail. Qed.
Print Assumptions C17_asset_legs_never_fail.

Theorem C17_end_blocker_fails_only_in_decay_or_rebalance : forall h t ht, EndBlockReachable.history_ok h ->
  let s := fst (step (run init_state h) (OBeginBlock t ht)) in
  0 < p_interval (params s) ->
  (p_last (params s) = ZERO_TIME \/ 0 <= t - p_last (params s) < 2 ^ 69) ->
  exists als2 s', EndBlockPrefix.end_block_prefix s = Ok als2 s' /\
    end_blocker s = (als3 <- reward_weight_change_hook als2 ;; rebalance_hook als3) s'.
Proof. exact EndBlockReachable.end_blocker_fails_only_after_the_prefix. Qed.
Print Assumptions C17_end_blocker_fails_only_in_decay_or_rebalance.

(* the take-rate leg at state level *)
Theorem C17_take_rate_leg_total : forall last als s,
  ksorted (bank s) -> Forall TakeTotal.AVt als ->
  (forall d, In d (map a_denom als) -> TakeTotal.tot als d <= bal s ACC_ALLIANCE d) ->
  0 < p_interval (params s) -> (last = ZERO_TIME \/ 0 <= now s - last < 2 ^ 69) ->
  exists r s', deduct_take_rate last als s = Ok r s'.
Proof. exact TakeTotal.deduct_take_rate_total. Qed.
Print Assumptions C17_take_rate_leg_total.
Theorem C17_power_of_a_unit_fraction : forall base n, 0 <= base <= ONE -> 0 <= n < 2 ^ 69 ->
  exists m, dpow base n = Some m /\ 0 <= m <= ONE.
Proof. exact TakeTotal.dpow_unit. Qed.
Print Assumptions C17_power_of_a_unit_fraction.

Example C17_prefix_nonvacuous : EndBlockReachable.history_ok C17_example /\
  let s := fst (step (run init_state C17_example) (OBeginBlock 130 3)) in
  0 < p_interval (params s) /\ 0 <= 130 - p_last (params s) < 2 ^ 69 /\
  (exists als, option_map fst (match EndBlockPrefix.end_block_prefix s with Ok r s' => Some (r, s') | _ => None end) = Some als).
Proof.
  destruct C17_payout_nonvacuous as [[H1 H2] _]. split; [split; [exact H1 | split; [exact H2|]]|].
  - unfold C17_example. repeat (apply Forall_cons || apply Forall_nil); cbn [TotalFloor.op_ok]; try exact I; try reflexivity.
    split; [vm_compute; reflexivity | split; vm_compute; discriminate].
  - split; [vm_compute; reflexivity | split; [split; [vm_compute; intro; discriminate | vm_compute; reflexivity]|]]. vm_compute. eexists; reflexivity.
Qed.

(* C17 — end-of-block processing never fails.  The full statement is FALSE of
   the unchanged code: three refutations, each a history that was executed on
   the real implementation (corpus/F_C17_*.jsonl), shrunk there, and is replayed
   here through the model.  What does hold is stated leg by leg. *)
From Coq Require Import ZArith List Bool.
From Alliance Require Import Num KMap Types Monad Model Step Spec Hoare WitnessLib.
From Alliance.Witness Require Import F_C17_interval_zero F_C17_decay_overflow F_C17_div_zero.
From Alliance.Proofs Require Import Totality.
Import ListNotations.
Open Scope Z_scope.

(* F-C17-1: UpdateParams accepts TakeRateClaimInterval = 0; the next end-of-block
   divides by it (panic, model code 106).  Last operation of the witness: OEndBlock. *)
Example C17_refuted_interval_zero : last_result ops_F_C17_interval_zero = Some (R_PANIC, P_DIV_ZERO_INTERVAL).
Proof. vm_compute. reflexivity. Qed.
Print Assumptions C17_refuted_interval_zero.

(* F-C17-2: governance accepts a growth rate with a tiny interval; Power overflows
   (315 bits) in the end-of-block decay hook (panic, model code 103). *)
Example C17_refuted_decay_overflow : last_result ops_F_C17_decay_overflow = Some (R_PANIC, P_OVERFLOW).
Proof. vm_compute. reflexivity. Qed.
Print Assumptions C17_refuted_decay_overflow.

(* F-C17-3: a validator whose share of an asset is below 10^-18 of the total has token
   value 0; settling its rewards during the rebalance divides by zero (panic, code 101). *)
Example C17_refuted_div_zero : last_result ops_F_C17_div_zero = Some (R_PANIC, P_DIV_ZERO).
Proof. vm_compute. reflexivity. Qed.
Print Assumptions C17_refuted_div_zero.

(* legs that are total in every state *)
Theorem C17_complete_redelegations_total : forall s, exists a s', complete_redelegations s = Ok a s'.
Proof. intros s; apply nofail_ok, complete_redelegations_total. Qed.
Print Assumptions C17_complete_redelegations_total.

Theorem C17_initialize_assets_total : forall als s, exists a s', initialize_assets als s = Ok a s'.
Proof. intros als s; apply nofail_ok, initialize_assets_total. Qed.
Print Assumptions C17_initialize_assets_total.

(* partial: the take-rate leg when the clock is not due; the decay leg without schedules *)
Theorem C17_deduct_not_due_partial : forall als s, now s <= p_last (params s) + p_interval (params s) ->
  exists s', deduct_assets_hook als s = Ok als s'.
Proof. exact deduct_hook_total_when_not_due. Qed.
Print Assumptions C17_deduct_not_due_partial.

Theorem C17_decay_without_schedule_partial : forall als s,
  Forall (fun a => a_interval a = 0 \/ a_rate a = ONE) als -> exists r s', reward_weight_change_hook als s = Ok r s'.
Proof. exact weight_hook_total_without_schedule. Qed.
Print Assumptions C17_decay_without_schedule_partial.

(* C17 — end-of-block processing never fails.  The full statement is FALSE of
   the code: two refutations (a third defect was repaired, see below), each a history that was executed on
   the real implementation (corpus/F_C17_*.jsonl), shrunk there, and is replayed
   here through the model.  What does hold is stated leg by leg. *)
From Coq Require Import ZArith List Bool.
From Alliance Require Import Num KMap Types Monad Model Step Spec Hoare WitnessLib.
From Alliance.Witness Require Import F_C17_interval_zero F_C17_decay_overflow F_C17_div_zero.
From Alliance.Proofs Require Import Totality ParamsInv.
From Alliance.Proofs Require Import FailureModes.
Import ListNotations.
Open Scope Z_scope.

(* F-C17-1 (FIXED in /repo by "fix: reject a non-positive TakeRateClaimInterval in UpdateParams"):
   UpdateParams accepted TakeRateClaimInterval = 0 and the next end-of-block divided by it.
   The witness history (executed on the real implementation before the fix) now ends well:
   the parameter change is refused and the last operation, OEndBlock, succeeds. *)
Example C17_fixed_interval_zero : last_result ops_F_C17_interval_zero = Some (R_OK, 0).
Proof. vm_compute. reflexivity. Qed.
Print Assumptions C17_fixed_interval_zero.

(* acceptance implies runnability for the claim interval: an accepted UpdateParams stores a
   positive interval, and in every reachable state the interval is positive, so the integer
   division of the take-rate leg is never by zero *)
Theorem C17_accepted_interval_is_positive : forall s au dl iv l,
  snd (step s (OUpdateParams au dl iv l)) = R_OK -> 0 < p_interval (params (fst (step s (OUpdateParams au dl iv l)))).
Proof. exact accepted_interval_positive. Qed.
Print Assumptions C17_accepted_interval_is_positive.

Theorem C17_interval_positive_in_every_reachable_state : forall h s0,
  0 < p_interval (params s0) -> Forall params_op_ok h -> 0 < p_interval (params (run s0 h)).
Proof. exact run_interval_positive. Qed.
Print Assumptions C17_interval_positive_in_every_reachable_state.

Theorem C17_take_rate_leg_never_divides_by_zero : forall last als s,
  0 < p_interval (params s) -> res_code (deduct_take_rate last als s) <> P_DIV_ZERO_INTERVAL.
Proof. exact deduct_no_interval_panic. Qed.
Print Assumptions C17_take_rate_leg_never_divides_by_zero.

(* F-C17-2: governance accepts a growth rate with a tiny interval; Power overflows
   (315 bits) in the end-of-block decay hook (panic, model code 103). *)
Example C17_refuted_decay_overflow : last_result ops_F_C17_decay_overflow = Some (R_PANIC, P_OVERFLOW).
Proof. vm_compute. reflexivity. Qed.
Print Assumptions C17_refuted_decay_overflow.

(* F-C17-3: a validator whose share of an asset is below 10^-18 of the total has token
   value 0; settling its rewards during the rebalance divides by zero (panic, code 101). *)
Example C17_refuted_div_zero : last_result ops_F_C17_div_zero = Some (R_PANIC, P_DIV_ZERO).
Proof. vm_compute. reflexivity. Qed.
Print Assumptions C17_refuted_div_zero.

(* legs that are total in every state *)
Theorem C17_complete_redelegations_total : forall s, exists a s', complete_redelegations s = Ok a s'.
Proof. intros s; apply nofail_ok, complete_redelegations_total. Qed.
Print Assumptions C17_complete_redelegations_total.

Theorem C17_initialize_assets_total : forall als s, exists a s', initialize_assets als s = Ok a s'.
Proof. intros als s; apply nofail_ok, initialize_assets_total. Qed.
Print Assumptions C17_initialize_assets_total.

(* partial: the take-rate leg when the clock is not due; the decay leg without schedules *)
Theorem C17_deduct_not_due_partial : forall als s, now s <= p_last (params s) + p_interval (params s) ->
  exists s', deduct_assets_hook als s = Ok als s'.
Proof. exact deduct_hook_total_when_not_due. Qed.
Print Assumptions C17_deduct_not_due_partial.

Theorem C17_decay_without_schedule_partial : forall als s,
  Forall (fun a => a_interval a = 0 \/ a_rate a = ONE) als -> exists r s', reward_weight_change_hook als s = Ok r s'.
Proof. exact weight_hook_total_without_schedule. Qed.
Print Assumptions C17_decay_without_schedule_partial.

(* every way end-of-block can fail (exhaustive list of codes, any state).  P_DIV_ZERO_INTERVAL is
   excluded for reachable states by C17_take_rate_leg_never_divides_by_zero; P_OVERFLOW and P_DIV_ZERO
   are the findings F-C17-2/3; the others need a staking / bank environment that refuses *)
Theorem C17_failure_modes : raises (fun e => In e end_block_codes) end_blocker.
Proof. exact end_block_failure_modes. Qed.
Print Assumptions C17_failure_modes.

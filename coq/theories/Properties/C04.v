(* C04 — position isolation: an operation moves its amount and nobody else's value.
   Proved: (1) a reward claim, successful or not, changes the redeemable value of no
   position at all, exactly, in every reachable state; (2) entering an empty asset on a
   validator without positions yields a position worth exactly the deposit; (3) the
   error envelopes of the 18-digit fixed-point operations every value computation is
   made of (half a unit in the last place for Mul, one and a half for Quo, exactness on
   integers, monotonicity, "a factor <= 1 never increases"); (4) a user message writes no
   delegation record but the actor's own (C04_other_delegation_records_untouched, every
   reachable state, every outcome).  The per-operation bounds
   for delegate / undelegate / redelegate on populated validators are NOT proved
   (partial); they are evaluated by check_C04 on implementation traces with the
   tolerance stated there. *)
From Coq Require Import ZArith List Bool.
From Alliance Require Import Num NumFacts KMap Types Monad Model Step Spec Hoare WitnessLib.
From Alliance.Witness Require Import F_C04_shortcut_dilution F_C04_zero_validator_shares F_C04_rounder_sweep.
From Alliance.Proofs Require Import Value.
From Alliance.Proofs Require Import Targeted.
Import ListNotations.
Open Scope Z_scope.

Theorem C04_claim_moves_no_value : forall h del v dn k, let s := run init_state h in
  value_of (fst (step s (OClaim del v dn))) k = value_of s k.
Proof. exact claim_moves_no_value. Qed.
Print Assumptions C04_claim_moves_no_value.

Theorem C04_first_position_is_worth_its_deposit : forall a vi amt,
  0 < amt -> a_tokens a = 0 -> a_vshares a = 0 -> camount (vi_dshares vi) (a_denom a) = 0 ->
  forall ns nvs, del_shares_from_tokens vi a amt = Some ns -> validator_shares a amt = Some nvs ->
  let a' := set_a_vshares (a_vshares a + nvs) (set_a_tokens (a_tokens a + amt) a) in
  forall vi', camount (vi_dshares vi') (a_denom a) = ns -> camount (vi_vshares vi') (a_denom a) = nvs ->
  del_tokens_with_shares ns vi' a' = amt.
Proof. exact first_position_is_worth_its_deposit. Qed.
Print Assumptions C04_first_position_is_worth_its_deposit.

(* the rounding envelopes (no division in the statements: 2*10^18*Mul(a,b) is within 10^18 of 2ab, ...) *)
Theorem C04_mul_half_ulp : forall a b, 2 * (a * b) - PREC <= 2 * PREC * dmul a b <= 2 * (a * b) + PREC.
Proof. exact dmul_bounds. Qed.
Print Assumptions C04_mul_half_ulp.
Theorem C04_quo_envelope : forall a b, 0 <= a -> 0 < b ->
  2 * (a * PREC) - 3 * b <= 2 * b * dquo a b <= 2 * (a * PREC) + b.
Proof. exact dquo_bounds. Qed.
Print Assumptions C04_quo_envelope.
Theorem C04_part_of_whole_is_at_most_one : forall a b, 0 <= a -> a <= b -> 0 < b -> dquo a b <= ONE.
Proof. exact dquo_le_one. Qed.
Print Assumptions C04_part_of_whole_is_at_most_one.
Theorem C04_fraction_never_increases : forall q x, 0 <= q -> q <= ONE -> 0 <= x -> dmul q x <= x.
Proof. exact dmul_le_r. Qed.
Print Assumptions C04_fraction_never_increases.

(* The full statement is FALSE of the code in two situations, each shown by a history that was
   executed on the real implementation and shrunk there (known findings F-C04-1, F-C04-2):
   clause 31 — entering a validator that holds less than one delegator share of the asset whose
   stake is still worth tokens (left behind by slashed redelegations) takes that value over;
   clause 32 — after a 100% slash of every staked validator the asset has no validator shares
   while tokens remain, and the first entrant captures the whole staked total. *)
Example C04_refuted_shortcut_dilution : witness_fails 4 31 ops_F_C04_shortcut_dilution = true.
Proof. vm_compute. reflexivity. Qed.
Print Assumptions C04_refuted_shortcut_dilution.
Example C04_refuted_zero_validator_shares : witness_fails 4 32 ops_F_C04_zero_validator_shares = true.
Proof. vm_compute. reflexivity. Qed.
Print Assumptions C04_refuted_zero_validator_shares.

(* the model's value function is the reported balance the specification reads *)
(* F-C04-3: the 0.01-share tolerance of ValidateDelegatedAmount: with shares worth more than 100 tokens
   each, undelegating 234 of a position worth 300 removes the whole position; the remaining 66 go to
   the other holder of the validator.  History executed on the real implementation. *)
Example C04_refuted_rounder_sweep : witness_fails 4 33 ops_F_C04_rounder_sweep = true.
Proof. vm_compute. reflexivity. Qed.
Print Assumptions C04_refuted_rounder_sweep.

Theorem C04_value_is_reported_balance : forall s k, value_of s k = reported_balance s k.
Proof. intros s k; destruct k as [|del [|v [|dn [|]]]]; reflexivity. Qed.
Print Assumptions C04_value_is_reported_balance.

(* non-vacuity: a delegate-then-undelegate round trip in the model returns exactly what was put in
   on a fresh asset, and a second delegator is not affected *)
Example C04_nonvacuous :
  let h := [EStaking [(10, mkSVal 3 1000000 (1000000 * ONE))] []; EUnbondingTime 100; EParams 0 1000 ZERO_TIME;
            EGenesisAsset (mkAsset 1 ONE 0 (5 * ONE) 0 0 0 0 ONE 0 0 true); EBank [(100, 1, 1000); (101, 1, 1000)] [];
            OBeginBlock 10 1; ODelegate 100 10 1 500; ODelegate 101 10 1 300; OUndelegate 100 10 1 200] in
  map (fun x => (snd (fst x), value_of (snd x) [100; 10; 1], value_of (snd x) [101; 10; 1])) (skipn 6 (run_trace init_state h))
  = [(0, 500, 0); (0, 500, 300); (0, 300, 300)].
Proof. vm_compute. reflexivity. Qed.

(* targeted: a user message writes no delegation record but the actor's own — every reachable state,
   every outcome: the records (shares, reward history, claim height) of every other (delegator,
   validator) pair are exactly what they were.  What can move for the others is only the price of
   their shares (the validator's and the asset's totals): the value clauses above and C03. *)
Theorem C04_other_delegation_records_untouched : forall h o del' v' dn', let s := run init_state h in
  match o with ODelegate _ _ _ _ | OUndelegate _ _ _ _ | OClaim _ _ _ | ORedelegate _ _ _ _ _ => True | _ => False end ->
  ~ In (del', v') (actor_pairs o) ->
  kget (delegations (fst (step s o))) [del'; v'; dn'] = kget (delegations s) [del'; v'; dn'].
Proof. exact other_delegation_records_untouched. Qed.
Print Assumptions C04_other_delegation_records_untouched.

(* C02 — unbonding payout: exactly once, exact amount, never before maturity.
   Proved about the queue: what an undelegation enqueues, and that the end of
   block removes exactly the buckets whose completion time is strictly before the
   block time (in every reachable state); the payout equals, per account and denom,
   the matured balances recorded for that account (C02_payout_exact); entries are
   filed under their own delegator with their index key; when the payout returns, the
   bucket and the index key of every paid entry are gone (C02_paid_entries_are_cleaned_up):
   nothing is left that could be paid or slashed a second time. *)
From Coq Require Import ZArith List Bool.
From Alliance Require Import Num KMap Types Monad Model Step Spec Hoare.
From Alliance.Proofs Require Import SortedInv Queues Payout IndexSync SlashQueue UndelCleanup IndexSync2.
Import ListNotations.
Open Scope Z_scope.

(* an undelegation appends exactly one entry (delegator, validator, denom, amount) to the bucket
   of (block time + unbonding period, delegator), records its per-validator index key, and moves no coins *)
Theorem C02_enqueue : forall s del v dn amt,
  exists s', queue_undelegation del v dn amt s = Ok tt s' /\
    let ct := now s + unbonding_time s in
    kget (undelq s') [ct; del] = Some ((match kget (undelq s) [ct; del] with Some l => l | None => [] end) ++ [mkUndel del v dn amt]) /\
    kget (undelidx s') [v; ct; dn; del] = Some tt /\ bank s' = bank s /\ assets s' = assets s.
Proof. exact queue_undelegation_spec. Qed.
Print Assumptions C02_enqueue.

(* in every reachable state, when CompleteUnbondings returns, the queue is the old queue
   without the buckets with completion < block time: never early, nothing else removed, nothing matured left *)
Theorem C02_exactly_the_matured_buckets_leave : forall h, let s := run init_state h in
  match complete_unbondings s with
  | Ok _ s' => undelq s' = filter (fun kv => negb (undel_matured (now s) kv)) (undelq s)
  | _ => True
  end.
Proof. intros h s. apply complete_unbondings_spec, reachable_Sorted. Qed.
Print Assumptions C02_exactly_the_matured_buckets_leave.

(* the payout: in every reachable state, when CompleteUnbondings returns normally, every account other than
   the custody account has received, per denom, exactly the balances of the matured entries recorded for it *)
Theorem C02_payout_exact : forall h u d, u <> ACC_ALLIANCE -> let s := run init_state h in
  match complete_unbondings s with
  | Ok _ s' => bal s' u d = bal s u d + matured_for s (now s) u d
  | _ => True
  end.
Proof. exact payout_exact. Qed.
Print Assumptions C02_payout_exact.

(* exactly once: when the payout returns, the bucket of every matured entry has left the queue and its
   per-validator index key is gone, so neither a later end of block nor a later slash can reach it *)
Theorem C02_paid_entries_are_cleaned_up : forall h ct dl l e, let s := run init_state h in
  In ([ct; dl], l) (undelq s) -> ct < now s -> In e l ->
  match complete_unbondings s with
  | Ok _ s' => kget (undelidx s') [u_val e; ct; u_denom e; u_del e] = None /\ kget (undelq s') [ct; dl] = None
  | _ => True
  end.
Proof. exact matured_unbondings_are_cleaned_up. Qed.
Print Assumptions C02_paid_entries_are_cleaned_up.

(* while pending, the only thing that changes an entry is a slash of its validator, by exactly floor(f x balance)
   (C07_unbondings_slashed_exactly_once), and every entry is filed under its own delegator with its index key *)
Theorem C02_entry_is_filed_under_its_delegator : forall h ct dl l u,
  kget (undelq (run init_state h)) [ct; dl] = Some l -> In u l ->
  u_del u = dl /\ kget (undelidx (run init_state h)) [u_val u; ct; u_denom u; dl] = Some tt.
Proof. exact index_sync. Qed.
Print Assumptions C02_entry_is_filed_under_its_delegator.

(* maturity is strict: a bucket completing exactly at the block time stays *)
Theorem C02_strict : forall t del l, undel_matured t ([t; del], l) = false.
Proof. intros; unfold undel_matured; cbn. apply Z.ltb_irrefl. Qed.
Print Assumptions C02_strict.

Example C02_nonvacuous :
  let h := [EStaking [(10, mkSVal 3 1000000 (1000000 * ONE))] []; EUnbondingTime 100; EParams 0 1000 ZERO_TIME;
            EGenesisAsset (mkAsset 1 ONE 0 (5 * ONE) 0 0 0 0 ONE 0 0 true); EBank [(100, 1, 1000)] [];
            OBeginBlock 10 1; ODelegate 100 10 1 500; OUndelegate 100 10 1 200;
            OBeginBlock 110 2; OEndBlock; OBeginBlock 111 3; OEndBlock] in
  map (fun x => (snd (fst x), bal (snd x) 100 1, Z.of_nat (length (undelq (snd x))))) (run_trace init_state h)
  = [(0, 0, 0); (0, 0, 0); (0, 0, 0); (0, 0, 0); (0, 1000, 0); (0, 1000, 0); (0, 500, 0); (0, 500, 1); (0, 500, 1); (0, 500, 1); (0, 500, 1); (0, 700, 0)].
Proof. vm_compute. reflexivity. Qed.

(* the converse: in every reachable state every key of the per-validator index stands for an entry that
   is really pending (same validator, denom, delegator, completion time) — nothing that is not pending
   can be slashed or looked up — and no bucket of the queue is empty *)
Theorem C02_no_index_key_without_entry : forall h v ct dn dl, let s := run init_state h in
  kget (undelidx s) [v; ct; dn; dl] = Some tt ->
  exists l e, kget (undelq s) [ct; dl] = Some l /\ In e l /\ u_val e = v /\ u_denom e = dn /\ u_del e = dl.
Proof. exact no_index_key_without_entry. Qed.
Print Assumptions C02_no_index_key_without_entry.
Theorem C02_no_empty_bucket : forall h k l, kget (undelq (run init_state h)) k = Some l -> l <> [].
Proof. exact no_empty_bucket. Qed.
Print Assumptions C02_no_empty_bucket.

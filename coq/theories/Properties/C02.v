(* C02 — unbonding payout: exactly once, exact amount, never before maturity.
   Proved about the queue: what an undelegation enqueues, and that the end of
   block removes exactly the buckets whose completion time is strictly before the
   block time (in every reachable state).  The payout amounts and recipients are
   checked by check_C02 on implementation traces and by exact correspondence of
   the queue, the index and every user balance (partial). *)
From Coq Require Import ZArith List Bool.
From Alliance Require Import Num KMap Types Monad Model Step Spec Hoare.
From Alliance.Proofs Require Import SortedInv Queues.
Import ListNotations.
Open Scope Z_scope.

(* an undelegation appends exactly one entry (delegator, validator, denom, amount) to the bucket
   of (block time + unbonding period, delegator), records its per-validator index key, and moves no coins *)
Theorem C02_enqueue : forall s del v dn amt,
  exists s', queue_undelegation del v dn amt s = Ok tt s' /\
    let ct := now s + unbonding_time s in
    kget (undelq s') [ct; del] = Some ((match kget (undelq s) [ct; del] with Some l => l | None => [] end) ++ [mkUndel del v dn amt]) /\
    kget (undelidx s') [v; ct; dn; del] = Some tt /\ bank s' = bank s /\ assets s' = assets s.
Proof. exact queue_undelegation_spec. Qed.
Print Assumptions C02_enqueue.

(* in every reachable state, when CompleteUnbondings returns, the queue is the old queue
   without the buckets with completion < block time: never early, nothing else removed, nothing matured left *)
Theorem C02_exactly_the_matured_buckets_leave : forall h, let s := run init_state h in
  match complete_unbondings s with
  | Ok _ s' => undelq s' = filter (fun kv => negb (undel_matured (now s) kv)) (undelq s)
  | _ => True
  end.
Proof. intros h s. apply complete_unbondings_spec, reachable_Sorted. Qed.
Print Assumptions C02_exactly_the_matured_buckets_leave.

(* maturity is strict: a bucket completing exactly at the block time stays *)
Theorem C02_strict : forall t del l, undel_matured t ([t; del], l) = false.
Proof. intros; unfold undel_matured; cbn. apply Z.ltb_irrefl. Qed.
Print Assumptions C02_strict.

Example C02_nonvacuous :
  let h := [EStaking [(10, mkSVal 3 1000000 (1000000 * ONE))] []; EUnbondingTime 100; EParams 0 1000 ZERO_TIME;
            EGenesisAsset (mkAsset 1 ONE 0 (5 * ONE) 0 0 0 0 ONE 0 0 true); EBank [(100, 1, 1000)] [];
            OBeginBlock 10 1; ODelegate 100 10 1 500; OUndelegate 100 10 1 200;
            OBeginBlock 110 2; OEndBlock; OBeginBlock 111 3; OEndBlock] in
  map (fun x => (snd (fst x), bal (snd x) 100 1, Z.of_nat (length (undelq (snd x))))) (run_trace init_state h)
  = [(0, 0, 0); (0, 0, 0); (0, 0, 0); (0, 0, 0); (0, 1000, 0); (0, 1000, 0); (0, 500, 0); (0, 500, 1); (0, 500, 1); (0, 500, 1); (0, 500, 1); (0, 700, 0)].
Proof. vm_compute. reflexivity. Qed.

(* C15 — redelegation.  Proved: the staked total of every asset is unchanged by a
   redelegation (every reachable state, any outcome); the onward hop is refused
   while any entry into the source validator is pending; what is recorded; the end
   of block removes exactly the matured queue buckets.  Value moved at source and
   destination, custody and record/index clean-up: check_C15 on implementation
   traces + exact correspondence (partial). *)
From Coq Require Import ZArith List Bool.
From Alliance Require Import Num KMap Types Monad Model Step Spec Hoare.
From Alliance.Proofs Require Import SortedInv Frames Queues RedelCleanup.
From Alliance.Proofs Require Import RedelSync.
Import ListNotations.
Open Scope Z_scope.

Theorem C15_staked_total_unchanged : forall h del src dst dn amt d, let s := run init_state h in
  staked_total (fst (step s (ORedelegate del src dst dn amt))) d = staked_total s d.
Proof. exact redelegation_keeps_every_staked_total. Qed.
Print Assumptions C15_staked_total_unchanged.

(* while an entry INTO src is pending, redelegating that asset OUT of src is refused — for every state *)
Theorem C15_onward_hop_blocked : forall s del src dst dn amt,
  has_redelegation s del src dn = true -> snd (step s (ORedelegate del src dst dn amt)) <> R_OK.
Proof. exact pending_entry_blocks_onward_hop. Qed.
Print Assumptions C15_onward_hop_blocked.

Theorem C15_recorded : forall s del src dst dn amt ct,
  exists s', add_redelegation del src dst dn amt ct s = Ok tt s' /\
    kget (redels s') [del; dn; dst; ct] =
      Some (match kget (redels s) [del; dn; dst; ct] with
            | None => mkRedel del src dst dn amt
            | Some r => set_r_amount (r_amount r + amt) r end) /\
    kget (redelidx s') [src; ct; dn; dst; del] = Some tt /\
    kget (redelq s') [ct] = Some ((match kget (redelq s) [ct] with Some l => l | None => [] end) ++ [mkRedel del src dst dn amt]).
Proof. exact add_redelegation_spec. Qed.
Print Assumptions C15_recorded.

(* CompleteRedelegations is total and removes exactly the buckets with completion < block time *)
Theorem C15_exactly_the_matured_buckets_leave : forall h, let s := run init_state h in
  exists s', complete_redelegations s = Ok tt s' /\
    redelq s' = filter (fun kv => negb (redel_matured (now s) kv)) (redelq s).
Proof. intros h s. apply complete_redelegations_spec, reachable_Sorted. Qed.
Print Assumptions C15_exactly_the_matured_buckets_leave.

(* nothing of a matured redelegation is left behind: its record and its per-source index key are gone
   (so the onward-hop restriction, which looks at the records, is lifted) *)
Theorem C15_matured_entries_are_cleaned_up : forall h ct l r, let s := run init_state h in
  In ([ct], l) (redelq s) -> ct < now s -> In r l ->
  exists s', complete_redelegations s = Ok tt s' /\
    kget (redels s') [r_del r; r_denom r; r_dst r; ct] = None /\
    kget (redelidx s') [r_src r; ct; r_denom r; r_dst r; r_del r] = None.
Proof. exact matured_redelegations_are_cleaned_up. Qed.
Print Assumptions C15_matured_entries_are_cleaned_up.

(* every redelegation record has an entry in the time queue at its completion time (all reachable states) ... *)
Theorem C15_every_record_is_queued : forall h del dn dst ct r, let s := run init_state h in
  kget (redels s) [del; dn; dst; ct] = Some r ->
  exists l e, kget (redelq s) [ct] = Some l /\ In e l /\ r_del e = del /\ r_denom e = dn /\ r_dst e = dst.
Proof. exact every_record_is_queued. Qed.
Print Assumptions C15_every_record_is_queued.

(* ... so when CompleteRedelegations has run, no record that completed strictly before the block time is left ... *)
Theorem C15_no_matured_record_is_left : forall h, let s := run init_state h in
  exists s', complete_redelegations s = Ok tt s' /\
    forall del dn dst ct r, kget (redels s') [del; dn; dst; ct] = Some r -> now s <= ct.
Proof. exact no_matured_record_is_left. Qed.
Print Assumptions C15_no_matured_record_is_left.

(* ... and the restriction on onward hops is lifted: after that end of block whatever still blocks a delegator
   from redelegating out of a validator is a redelegation into it that is really pending *)
Theorem C15_restriction_is_lifted : forall h del dst dn, let s := run init_state h in
  exists s', complete_redelegations s = Ok tt s' /\
    (has_redelegation s' del dst dn = true ->
     exists ct r, kget (redels s') [del; dn; dst; ct] = Some r /\ now s <= ct).
Proof. exact restriction_is_lifted. Qed.
Print Assumptions C15_restriction_is_lifted.

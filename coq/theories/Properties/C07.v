(* C07 — slashing of pending unbondings is exact, single and scoped. *)
From Coq Require Import ZArith List Bool Lia.
From Alliance Require Import Num KMap Types Monad Model Step Spec Hoare WitnessLib.
From Alliance.Witness Require Import F_C07_bucket.
Import ListNotations.
Open Scope Z_scope.

(* F-C07-1 (FIXED in /repo by "fix: slash only the unbonding entries of the slashed validator"):
   a bucket shared by entries of several validators / denoms was slashed as a whole, once per
   index key pointing at it.  The witness history (executed on the real implementation before
   the fix) no longer violates clause 1 (entry-wise exactness) nor clause 2 (fee collector). *)
Example C07_fixed_shared_bucket : witness_fails 7 1 ops_F_C07_bucket = false /\ witness_fails 7 2 ops_F_C07_bucket = false.
Proof. vm_compute. split; reflexivity. Qed.
Print Assumptions C07_fixed_shared_bucket.

(* the abstract slash of one entry removes exactly floor(f * balance) (f a 10^18-scaled
   fraction in (0,1]) and leaves foreign and matured entries untouched *)
Theorem C07_entry_amount : forall v f t ct e, 0 < f -> f <= ONE -> 0 <= u_amount e ->
  u_val e = v -> t <= ct ->
  u_amount (slash_entry_spec v f t ct e) = u_amount e - f * u_amount e / PREC /\
  0 <= u_amount (slash_entry_spec v f t ct e) <= u_amount e.
Proof.
  intros v f t ct e Hf1 Hf2 Ha Hv Ht. unfold slash_entry_spec.
  assert (E : (u_val e =? v) && (t <=? ct) = true) by (apply andb_true_intro; split; [apply Z.eqb_eq | apply Z.leb_le]; assumption).
  rewrite E. cbn [u_amount set_u_amount]. unfold dtrunc, dmul_int.
  assert (HP : 0 < PREC) by (unfold PREC; lia).
  rewrite Z.quot_div_nonneg by nia. split; [reflexivity|].
  assert (0 <= f * u_amount e / PREC) by (apply Z.div_pos; nia).
  assert (f * u_amount e / PREC <= u_amount e).
  { apply Z.div_le_upper_bound; [lia|]. unfold ONE in Hf2. nia. }
  lia.
Qed.
Print Assumptions C07_entry_amount.

Theorem C07_scope : forall v f t ct e, (u_val e <> v \/ ct < t) -> slash_entry_spec v f t ct e = e.
Proof.
  intros v f t ct e H. unfold slash_entry_spec.
  assert (E : (u_val e =? v) && (t <=? ct) = false).
  { destruct H as [H|H]; [apply Z.eqb_neq in H; rewrite H; reflexivity | apply andb_false_intro2, Z.leb_gt; exact H]. }
  rewrite E. reflexivity.
Qed.
Print Assumptions C07_scope.

(* C07 — slashing of pending unbondings is exact, single and scoped.
   Main theorem (unbonding half): in EVERY reachable state, when the slash callback returns
   normally, every bucket of the unbonding queue is the entry-wise image of the abstract slash:
   each pending entry of the slashed validator that has not matured loses exactly
   floor(f x balance), once; entries of other validators, in other buckets, or matured, are
   unchanged, and the per-validator index is untouched.  It rests on the invariant
   (Proofs/IndexSync.v, all histories) that every pending entry has its index key.
   Forwarding: when the slash of pending unbondings returns, the fee collector has received, per
   denom, exactly what the pending entries lost (C07_slashed_unbondings_go_to_the_fee_collector:
   fee balance + pending balances is conserved; all reachable states).
   The redelegation half is FALSE of the code when a delegator redelegates the same asset into one
   destination from two sources in one block: the two are merged into one record (keyed by
   delegator, denom, destination, time) and a slash of either source removes f x the MERGED amount
   from the destination position (C07_refuted_merged_redelegation, F-C07-2).  Otherwise check_C07
   evaluates it on implementation traces (clauses 3, 4) — partial. *)
From Coq Require Import ZArith List Bool Lia.
From Alliance Require Import Num KMap Types Monad Model Step Spec Hoare WitnessLib.
From Alliance.Witness Require Import F_C07_bucket F_C07_merged_redelegation.
From Alliance.Proofs Require Import IndexSync SlashQueue FeeFlow.
Import ListNotations.
Open Scope Z_scope.

(* F-C07-1 (FIXED in /repo by "fix: slash only the unbonding entries of the slashed validator"):
   a bucket shared by entries of several validators / denoms was slashed as a whole, once per
   index key pointing at it.  The witness history (executed on the real implementation before
   the fix) no longer violates clause 1 (entry-wise exactness) nor clause 2 (fee collector). *)
Example C07_fixed_shared_bucket : witness_fails 7 1 ops_F_C07_bucket = false /\ witness_fails 7 2 ops_F_C07_bucket = false.
Proof. vm_compute. split; reflexivity. Qed.
Print Assumptions C07_fixed_shared_bucket.

Theorem C07_unbondings_slashed_exactly_once : forall h v f, let s := run init_state h in
  match hook_slash v f s with
  | Ok _ s' => forall ct dl l, kget (undelq s) [ct; dl] = Some l ->
                 kget (undelq s') [ct; dl] = Some (map (slash_entry_spec v f (now s) ct) l)
  | _ => True
  end.
Proof. exact slash_callback_exact_on_unbondings. Qed.
Print Assumptions C07_unbondings_slashed_exactly_once.

(* every pending entry sits in the bucket of its own delegator and has its per-validator index key *)
(* F-C07-2: 400 000 redelegated 11 -> 10 and 300 000 redelegated 12 -> 10 in one block; validator 11 is
   slashed by 50 %: the destination position loses shares worth 350 000 tokens instead of 200 000.
   History executed on the real implementation. *)
Example C07_refuted_merged_redelegation :
  witness_fails 7 31 ops_F_C07_merged_redelegation = true /\ witness_fails 7 1 ops_F_C07_merged_redelegation = false.
Proof. vm_compute. split; reflexivity. Qed.
Print Assumptions C07_refuted_merged_redelegation.

(* forwarding: what the entries lose arrives, coin for coin, at the fee collector *)
Theorem C07_slashed_unbondings_go_to_the_fee_collector : forall h v f d, let s := run init_state h in
  match slash_undelegations v f s with
  | Ok _ s' => bal s' ACC_FEE d - bal s ACC_FEE d = unbonding_sum s d - unbonding_sum s' d
  | _ => True
  end.
Proof. exact slashed_unbondings_go_to_the_fee_collector. Qed.
Print Assumptions C07_slashed_unbondings_go_to_the_fee_collector.

Theorem C07_every_pending_entry_is_indexed : forall h ct dl l u,
  kget (undelq (run init_state h)) [ct; dl] = Some l -> In u l ->
  u_del u = dl /\ kget (undelidx (run init_state h)) [u_val u; ct; u_denom u; dl] = Some tt.
Proof. exact index_sync. Qed.
Print Assumptions C07_every_pending_entry_is_indexed.

(* the abstract slash of one entry removes exactly floor(f * balance) (f a 10^18-scaled
   fraction in (0,1]) and leaves foreign and matured entries untouched *)
Theorem C07_entry_amount : forall v f t ct e, 0 < f -> f <= ONE -> 0 <= u_amount e ->
  u_val e = v -> t <= ct ->
  u_amount (slash_entry_spec v f t ct e) = u_amount e - f * u_amount e / PREC /\
  0 <= u_amount (slash_entry_spec v f t ct e) <= u_amount e.
Proof.
  intros v f t ct e Hf1 Hf2 Ha Hv Ht. unfold slash_entry_spec.
  assert (E : (u_val e =? v) && (t <=? ct) = true) by (apply andb_true_intro; split; [apply Z.eqb_eq | apply Z.leb_le]; assumption).
  rewrite E. cbn [u_amount set_u_amount]. unfold dtrunc, dmul_int.
  assert (HP : 0 < PREC) by (unfold PREC; lia).
  rewrite Z.quot_div_nonneg by nia. split; [reflexivity|].
  assert (0 <= f * u_amount e / PREC) by (apply Z.div_pos; nia).
  assert (f * u_amount e / PREC <= u_amount e).
  { apply Z.div_le_upper_bound; [lia|]. unfold ONE in Hf2. nia. }
  lia.
Qed.
Print Assumptions C07_entry_amount.

Theorem C07_scope : forall v f t ct e, (u_val e <> v \/ ct < t) -> slash_entry_spec v f t ct e = e.
Proof.
  intros v f t ct e H. unfold slash_entry_spec.
  assert (E : (u_val e =? v) && (t <=? ct) = false).
  { destruct H as [H|H]; [apply Z.eqb_neq in H; rewrite H; reflexivity | apply andb_false_intro2, Z.leb_gt; exact H]. }
  rewrite E. reflexivity.
Qed.
Print Assumptions C07_scope.

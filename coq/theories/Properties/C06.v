(* C06 — slashing bonded stake.
   Proved, for every reachable state and every fraction:
   (a) the slash callback leaves the staked total of every asset unchanged, whatever its outcome
       (value is redistributed, not destroyed): C06_staked_totals_untouched;
   (b) proportional and targeted, in share form: when the callback returns, the slashed
       validator's validator shares are, in EVERY asset, the old ones minus exactly the fraction f
       of them (the 18-digit product the code computes); the asset's total validator shares
       lose exactly that amount; no other validator's shares in any asset move; no asset
       appears or disappears: C06_bonded_slash_is_proportional_and_targeted.
   The value of a position on validator w in an asset with staked total T, total validator
   shares S, w's validator shares s_w is  T * (s_w / S) * (its shares / delegator shares of w).
   By (a) and (b), with S' = S - f*s_v:  a position on v is multiplied by (1-f)*S/S', every other
   position of the asset by g = S/S' >= 1 (C06_value_factors: the two ratios as cross-multiplied
   identities).  Delegator shares move in the callback only through the slash of pending
   redelegations out of v (C07/C08), which redistributes within the destination validator.
   Custody minus pending unbondings unchanged: C01's theorem.  check_C06 evaluates (a), (b) and
   the delegator-share frame on every callback of the implementation's traces. *)
From Coq Require Import ZArith List Bool.
From Alliance Require Import Num KMap KMapSorted Types Monad Model Step Spec Hoare.
From Alliance.Proofs Require Import Frames ShareLedger BondedSlash.
From Coq Require Import Lia.
Import ListNotations.
Open Scope Z_scope.

Theorem C06_staked_totals_untouched : forall h v f d, let s := run init_state h in
  staked_total (fst (step s (OHookSlash v f))) d = staked_total s d.
Proof. exact slash_keeps_every_staked_total. Qed.
Print Assumptions C06_staked_totals_untouched.

Theorem C06_bonded_slash_is_proportional_and_targeted : forall v0 dn0 h v f s',
  adm_sl_run v0 dn0 init_state h ->
  let s := run init_state h in
  step s (OHookSlash v f) = (s', R_OK) ->
  (forall d, vshares_of s' v d = vshares_of s v d - dmul (vshares_of s v d) f) /\
  (forall w d, w <> v -> vshares_of s' w d = vshares_of s w d) /\
  (forall d a, kget (assets s) [d] = Some a ->
     exists b, kget (assets s') [d] = Some b /\ a_vshares b = a_vshares a - dmul (vshares_of s v d) f) /\
  (forall d, kget (assets s) [d] = None -> kget (assets s') [d] = None).
Proof. exact bonded_slash_reachable. Qed.
Print Assumptions C06_bonded_slash_is_proportional_and_targeted.

(* the same for ANY state with sorted records (not only reachable ones) *)
Theorem C06_bonded_slash_step : forall s v f s',
  ksorted (valinfos s) -> CoinFacts.csorted (vi_vshares (vinfo_or_empty s v)) -> AK s ->
  step s (OHookSlash v f) = (s', R_OK) ->
  (forall d, vshares_of s' v d = vshares_of s v d - dmul (vshares_of s v d) f) /\
  (forall w d, w <> v -> vshares_of s' w d = vshares_of s w d) /\
  (forall d a, kget (assets s) [d] = Some a ->
     exists b, kget (assets s') [d] = Some b /\ a_vshares b = a_vshares a - dmul (vshares_of s v d) f) /\
  (forall d, kget (assets s) [d] = None -> kget (assets s') [d] = None).
Proof. exact bonded_slash_step. Qed.
Print Assumptions C06_bonded_slash_step.

(* no redelegation out of v pending (no key of v in the per-source index): the callback changes no
   delegation record and no validator's delegator shares — a position's value moves only through the
   validator shares of theorem (b) *)
Theorem C06_positions_untouched_without_pending_redelegations : forall s v f s',
  ksorted (valinfos s) -> kfilter (kprefix [v]) (redelidx s) = [] ->
  slash_validator v f s = Ok tt s' ->
  delegations s' = delegations s /\ forall w, vi_dshares (vinfo_or_empty s' w) = vi_dshares (vinfo_or_empty s w).
Proof. exact slash_without_pending_redelegations_leaves_positions. Qed.
Print Assumptions C06_positions_untouched_without_pending_redelegations.

(* the two value factors, in exact rational arithmetic.  The token value of validator w's stake
   in an asset is T * s_w / S.  With c = f * s_v removed from s_v and from S (theorem above) and
   T unchanged (C06_staked_totals_untouched):
     every other validator's stake, hence every position on it, is multiplied by g = S / (S - c) >= 1;
     the slashed validator's by (1 - c / s_v) * g, i.e. (1 - f) * g. *)
Require Import QArith Qfield.
Definition stake_value (T S sw : Q) : Q := (T * sw / S)%Q.
Theorem C06_value_factors : forall T S sv sw c : Q, (0 < c)%Q -> (c < S)%Q -> (c <= sv)%Q -> ~ (sv == 0)%Q ->
  (stake_value T (S - c) sw == stake_value T S sw * (S / (S - c)))%Q /\
  (stake_value T (S - c) (sv - c) == stake_value T S sv * (1 - c / sv) * (S / (S - c)))%Q /\
  (1 <= S / (S - c))%Q.
Proof.
  intros T S sv sw c Hc HcS Hcv Hsv. unfold stake_value.
  assert (HS : ~ (S == 0)%Q) by (intro E; rewrite E in HcS; apply (Qlt_irrefl 0); apply Qlt_trans with c; assumption).
  assert (HS' : ~ (S - c == 0)%Q).
  { intro E. apply (Qlt_irrefl c). setoid_replace S with c in HcS; [exact HcS|].
    setoid_replace S with ((S - c) + c)%Q by ring. rewrite E. ring. }
  split; [field; split; assumption|]. split; [field; repeat split; assumption|].
  apply Qle_shift_div_l.
  - setoid_replace 0%Q with (c - c)%Q by ring. unfold Qminus. apply Qplus_lt_l. exact HcS.
  - setoid_replace (1 * (S - c))%Q with (S - c)%Q by ring.
    setoid_replace S with (S - 0)%Q at 2 by ring. unfold Qminus. apply Qplus_le_r. apply Qopp_le_compat. apply Qlt_le_weak. exact Hc.
Qed.
Print Assumptions C06_value_factors.
Close Scope Q_scope.
Open Scope Z_scope.

(* non-vacuity: a history with two validators and two assets; validator 10 is slashed by 10%:
   its shares in both assets lose exactly a tenth, validator 11's are untouched, the asset totals
   lose the same amounts *)
Definition C06_example : list Op :=
  [EStaking [(10, mkSVal 3 1000000 (1000000 * ONE)); (11, mkSVal 3 1000000 (1000000 * ONE))] []; EUnbondingTime 100; EParams 0 50 ZERO_TIME;
   EGenesisAsset (mkAsset 1 ONE 0 (5 * ONE) 0 0 0 0 ONE 0 0 true);
   EGenesisAsset (mkAsset 2 ONE 0 (5 * ONE) 0 0 0 0 ONE 0 0 true);
   EBank [(100, 1, 1000); (100, 2, 1000); (101, 1, 1000)] [];
   OBeginBlock 10 1; ODelegate 100 10 1 500; ODelegate 100 10 2 300; ODelegate 101 11 1 400; OEndBlock; OBeginBlock 70 2].
Example C06_nonvacuous :
  let s := run init_state C06_example in
  let '(s', c) := step s (OHookSlash 10 (ONE / 10)) in
  c = R_OK /\ adm_sl_run 10 1 init_state C06_example /\
  (vshares_of s 10 1, vshares_of s' 10 1) = (500 * ONE, 450 * ONE) /\
  (vshares_of s 10 2, vshares_of s' 10 2) = (300 * ONE, 270 * ONE) /\
  (vshares_of s 11 1, vshares_of s' 11 1) = (400 * ONE, 400 * ONE) /\
  (staked_total s 1, staked_total s' 1) = (900, 900).
Proof. vm_compute. repeat split; try reflexivity; try discriminate; try (intro; discriminate). Qed.

(* C06 — slashing bonded stake.  Proved: the slash callback leaves the staked total
   of every asset unchanged, in every reachable state and for every outcome
   (value is redistributed, not destroyed).  Custody minus pending unbondings,
   proportionality (1-f)*g / g of position values: check_C06 on implementation
   traces + exact correspondence of shares, assets and bank (partial). *)
From Coq Require Import ZArith List Bool.
From Alliance Require Import Num KMap Types Monad Model Step Spec Hoare.
From Alliance.Proofs Require Import Frames.
Import ListNotations.
Open Scope Z_scope.

Theorem C06_staked_totals_untouched : forall h v f d, let s := run init_state h in
  staked_total (fst (step s (OHookSlash v f))) d = staked_total s d.
Proof. exact slash_keeps_every_staked_total. Qed.
Print Assumptions C06_staked_totals_untouched.

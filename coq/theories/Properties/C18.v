(* C18 — genesis export / import.
   Theorems about the model of ExportGenesis / InitGenesis (Queries.v, mirroring
   keeper/genesis.go): (1) under well-formedness of the keys InitGenesis rebuilds (every
   redelegation record under the key made of its own fields, every unbonding bucket non-empty
   and under its first entry's delegator — evaluated on every state the harness forks at),
   a second export is identical to the first; (2) the rebalance flag is never part of the
   re-imported state (known finding F-C18-2: GenesisState has no field for it).
   The bisimulation half ("any continuation behaves identically") is NOT a theorem (partial):
   the harness exports, wipes and re-imports the real module on a sibling branch at a random
   block boundary and runs the same continuation on both branches in lock step, comparing
   results, records, indexes, bank and staking after every operation; the model's re-import
   of the model state is compared with the real re-imported store. *)
From Coq Require Import ZArith List Bool.
From Alliance Require Import Num KMap Types Monad Model Step Queries Spec Hoare.
From Alliance.Proofs Require Import Genesis.
From Alliance.Proofs Require Import IndexSync2.
Import ListNotations.
Open Scope Z_scope.

Theorem C18_second_export_is_identical : forall s, wf_genesis s -> export_genesis (reimport s) = export_genesis s.
Proof. exact second_export_is_identical. Qed.
Print Assumptions C18_second_export_is_identical.

Theorem C18_flag_is_not_exported : forall s, flag (reimport s) = false.
Proof. exact flag_is_not_exported. Qed.
Print Assumptions C18_flag_is_not_exported.

(* non-vacuity and a look at what re-import rebuilds: records, both indexes; the time queue of
   redelegations holds every entry twice (harmless: deletes are idempotent) *)
Definition C18_example : list Op :=
  [EStaking [(10, mkSVal 3 1000000 (1000000 * ONE)); (11, mkSVal 3 1000000 (1000000 * ONE))] []; EUnbondingTime 100; EParams 0 1000 ZERO_TIME;
   EGenesisAsset (mkAsset 1 ONE 0 (5 * ONE) 0 0 0 0 ONE 0 0 true); EBank [(100, 1, 1000)] [];
   OBeginBlock 10 1; ODelegate 100 10 1 500; ORedelegate 100 10 11 1 200; OUndelegate 100 10 1 50].
Example C18_nonvacuous :
  let s := run init_state C18_example in let s' := reimport s in
  export_genesis s' = export_genesis s /\ redelidx s' = redelidx s /\ undelidx s' = undelidx s /\
  map (fun kv => length (snd kv)) (redelq s) = [1%nat] /\ map (fun kv => length (snd kv)) (redelq s') = [2%nat] /\
  flag s = true /\ flag s' = false.
Proof. vm_compute. repeat split; reflexivity. Qed.

(* every reachable state is a well-formed genesis (records filed under their own fields, no empty
   bucket, sorted maps: IndexSync / IndexSync2 / SortedInv), so the round trip holds unconditionally
   for the states the module can actually export *)
Theorem C18_reachable_states_are_well_formed : forall h, wf_genesis (run init_state h).
Proof. exact reachable_states_are_well_formed. Qed.
Print Assumptions C18_reachable_states_are_well_formed.
Theorem C18_second_export_is_identical_in_every_reachable_state : forall h, let s := run init_state h in
  export_genesis (reimport s) = export_genesis s.
Proof. intros h s. apply second_export_is_identical. apply reachable_states_are_well_formed. Qed.
Print Assumptions C18_second_export_is_identical_in_every_reachable_state.

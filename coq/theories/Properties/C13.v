(* C13 — reward entitlement.  Proved: claiming is stake-neutral (no asset record and
   no delegation's shares change, in every state, whatever the outcome).  The
   pro-rata split, non-retroactivity and idempotence are checked by check_C13 on
   implementation traces (nothing claimable right after a claim / for a new
   position) and by exact correspondence of indices, histories and payouts (partial). *)
From Coq Require Import ZArith List Bool.
From Alliance Require Import Num KMap Types Monad Model Step Spec Hoare.
From Alliance.Proofs Require Import Frames.
Import ListNotations.
Open Scope Z_scope.

Theorem C13_claim_changes_no_asset : forall s del v dn, assets (fst (step s (OClaim del v dn))) = assets s.
Proof. exact claim_changes_no_asset. Qed.
Print Assumptions C13_claim_changes_no_asset.

Theorem C13_claim_changes_no_shares : forall s del v dn,
  share_view (fst (step s (OClaim del v dn))) = share_view s.
Proof. exact claim_changes_no_delegation_shares. Qed.
Print Assumptions C13_claim_changes_no_shares.

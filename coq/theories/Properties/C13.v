(* C13 — reward entitlement.  Proved:
   - claiming is stake-neutral (no asset record and no delegation's shares change, in every
     state, whatever the outcome);
   - not retroactive for new stake: a position created by a delegation starts with nothing to claim
     (C13_new_position_has_nothing_to_claim, every reachable state), and so does a position that
     was topped up (C13_topped_up_position_has_nothing_to_claim): it is settled first;
   - idempotence: in every reachable state, right after a successful claim the position has
     nothing to claim — an immediate second claim pays nothing (C13_nothing_claimable_after_claim).
     The proof rests on an invariant of all reachable states, that every validator's reward history
     has unique (reward denom, alliance) keys (C13_histories_have_unique_keys: induction through the
     whole keeper model, copies in memory tracked), and on the algebra of accumulateRewards.
     Side condition: no reward-weight snapshot of this validator and asset at the current height
     (a weight change earlier in the same block): then the claim replays that snapshot against the
     delegation's new history; that it adds nothing needs monotonicity of the indices, not proved.
   - pro rata: the index increments AddAssetsToRewardPool computes are exactly the stated formula
     (C13_reward_index_formula).
   The split on implementation traces (clause 7: increments of two live assets in the ratio
   weight/total), non-retroactivity for redelegated / reduced positions are checked by check_C13
   (nothing claimable right after a claim, for a new position, or for a position just topped
   up / reduced / redelegated) and by exact correspondence of indices, histories and payouts
   (partial). *)
From Coq Require Import ZArith List Bool.
From Alliance Require Import Num KMap Types Monad Model Step Spec Hoare.
From Alliance.Proofs Require Import Frames Idempotent.
From Alliance Require Import WitnessLib.
From Alliance.Witness Require Import D_C12_dust_position_topup.
Import ListNotations.
Open Scope Z_scope.

Theorem C13_claim_changes_no_asset : forall s del v dn, assets (fst (step s (OClaim del v dn))) = assets s.
Proof. exact claim_changes_no_asset. Qed.
Print Assumptions C13_claim_changes_no_asset.

Theorem C13_claim_changes_no_shares : forall s del v dn,
  share_view (fst (step s (OClaim del v dn))) = share_view s.
Proof. exact claim_changes_no_delegation_shares. Qed.
Print Assumptions C13_claim_changes_no_shares.

(* every validator's reward history has unique (reward denom, alliance denom) keys, in every reachable state *)
Theorem C13_histories_have_unique_keys : forall h v vi,
  kget (valinfos (run init_state h)) [v] = Some vi -> NoDup (map rkey (vi_hist vi)).
Proof. exact histories_have_unique_keys. Qed.
Print Assumptions C13_histories_have_unique_keys.

(* idempotence: after a successful claim nothing is claimable by that position *)
Theorem C13_nothing_claimable_after_claim : forall h del v dn s', let s := run init_state h in
  msg_claim del v dn s = Ok tt s' ->
  match kget (delegations s') [del; v; dn] with
  | Some d' => no_later_snapshot s' v d' dn -> claimable s' [del; v; dn] d' = []
  | None => True
  end.
Proof. exact nothing_claimable_after_claim. Qed.
Print Assumptions C13_nothing_claimable_after_claim.

(* not retroactive: a position that did not exist starts with nothing to claim, whatever its validator
   had accrued before (even rewards not yet withdrawn from the distribution module: the validator is
   settled first and the new position starts from the settled history) *)
Theorem C13_new_position_has_nothing_to_claim : forall h del v dn amt s', let s := run init_state h in
  kget (delegations s) [del; v; dn] = None ->
  msg_delegate del v dn amt s = Ok tt s' ->
  match kget (delegations s') [del; v; dn] with
  | Some d' => no_later_snapshot s' v d' dn -> claimable s' [del; v; dn] d' = []
  | None => True
  end.
Proof. exact new_position_has_nothing_to_claim. Qed.
Print Assumptions C13_new_position_has_nothing_to_claim.

(* ... nor on the stake added to an existing position: the position is settled first (what had accrued
   is paid on the old stake) and nothing is claimable on the grown position *)
Theorem C13_topped_up_position_has_nothing_to_claim : forall h del v dn amt d s', let s := run init_state h in
  kget (delegations s) [del; v; dn] = Some d ->
  (forall a, kget (assets s) [dn] = Some a -> rewards_started a (now s) = true) ->
  msg_delegate del v dn amt s = Ok tt s' ->
  match kget (delegations s') [del; v; dn] with
  | Some d' => no_later_snapshot s' v d' dn -> claimable s' [del; v; dn] d' = []
  | None => True
  end.
Proof. exact topped_up_position_has_nothing_to_claim. Qed.
Print Assumptions C13_topped_up_position_has_nothing_to_claim.

(* pro rata: AddAssetsToRewardPool raises, for every live (started, staked, non-zero) asset a and every coin
   of the reward, the index of (coin denom, a) by  amount x share(a) / tokens of a on V  with
   share(a) = srw(a) / sum over the live assets of srw, srw(a) = weight(a) x tokens(a on V) / total(a):
   exactly this double fold over the old history, nothing else (any state) *)
Theorem C13_reward_index_formula : forall v vi coins s,
  (length (vi_dshares vi) =? 0)%nat = false ->
  let live := filter (fun a => negb (skip_rewards (now s) a vi)) (map snd (assets s)) in
  fold_left (fun acc b => acc + srw vi b) live 0 <> 0 ->
  match add_assets_to_reward_pool v vi coins s with
  | Ok vi' _ => vi_hist vi' = new_history vi live coins
  | _ => True
  end.
Proof. exact reward_index_formula. Qed.
Print Assumptions C13_reward_index_formula.

(* the entitlement of any position whose history is its validator's current one is nothing *)
Theorem C13_settled_position_has_nothing_to_claim : forall s v d vi a,
  rh_uniq (vi_hist vi) -> rh_by_alliance (d_hist d) (a_denom a) = rh_by_alliance (vi_hist vi) (a_denom a) ->
  no_later_snapshot s v d (a_denom a) ->
  calculate_delegation_rewards s v d vi a = ([], rh_by_alliance (vi_hist vi) (a_denom a)).
Proof. exact settled_position_has_nothing_to_claim. Qed.
Print Assumptions C13_settled_position_has_nothing_to_claim.

(* non-vacuity: in the directed history executed on the real application (corpus
   D_C12_dust_position_topup) the large holder's claim pays 1 499 999 and leaves nothing claimable,
   with no snapshot in the way *)
Example C13_nonvacuous :
  match final_state (firstn 42 ops_D_C12_dust_position_topup) with
  | Some s =>
    match msg_claim 100 10 2 s with
    | Ok _ s' => bal s' 100 9 - bal s 100 9 = 1499999 /\
                 match kget (delegations s') [100; 10; 2] with
                 | Some d' => claimable s' [100; 10; 2] d' = [] /\ no_later_snapshot s' 10 d' 2
                 | None => False end
    | _ => False
    end
  | None => False
  end.
Proof. vm_compute. repeat split; reflexivity. Qed.

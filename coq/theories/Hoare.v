(* Hoare.v — a small program logic for the state/error/panic monad.
   [inv J m]: J is preserved by m whatever the outcome (the state at a failure
   point included — needed because hooks keep partial state).
   [hoare P m Q X]: from P, a normal outcome satisfies Q, a failure X. *)
From Coq Require Import ZArith List Bool Lia.
From Alliance Require Import Num KMap Types Monad.
Import ListNotations.

Definition hoare {A} (P : State -> Prop) (m : M A) (Q : A -> State -> Prop) (X : State -> Prop) : Prop :=
  forall s, P s -> match m s with Ok a s' => Q a s' | Err _ s' => X s' | Panic _ s' => X s' end.

Definition inv (J : State -> Prop) {A} (m : M A) : Prop :=
  forall s, J s -> match m s with Ok _ s' => J s' | Err _ s' => J s' | Panic _ s' => J s' end.

Lemma inv_hoare J A (m : M A) : inv J m <-> hoare J m (fun _ => J) J.
Proof. unfold inv, hoare; split; intros H s Hs; specialize (H s Hs); destruct (m s); auto. Qed.

Section Rules.
  Context (J : State -> Prop).

  Lemma inv_ret A (a : A) : inv J (ret a).
  Proof. intros s Hs; exact Hs. Qed.
  Lemma inv_fail A e : inv J (@fail A e).
  Proof. intros s Hs; exact Hs. Qed.
  Lemma inv_panic A e : inv J (@panic A e).
  Proof. intros s Hs; exact Hs. Qed.
  Lemma inv_gets A (g : State -> A) : inv J (gets g).
  Proof. intros s Hs; exact Hs. Qed.
  Lemma inv_modify f : (forall s, J s -> J (f s)) -> inv J (modify f).
  Proof. intros H s Hs; apply H; exact Hs. Qed.
  Lemma inv_bind A B (m : M A) (f : A -> M B) :
    inv J m -> (forall a, inv J (f a)) -> inv J (bind m f).
  Proof.
    intros Hm Hf s Hs; unfold bind; specialize (Hm s Hs).
    destruct (m s) as [a s'|e s'|e s']; auto. apply Hf; exact Hm.
  Qed.
  (* the value read is known to come from a state satisfying J *)
  Lemma inv_bind_gets A B (g : State -> A) (f : A -> M B) :
    (forall s0, J s0 -> inv J (f (g s0))) -> inv J (bind (gets g) f).
  Proof. intros H s Hs; unfold bind, gets; apply (H s Hs s Hs). Qed.
  Lemma inv_mfor A (l : list A) (f : A -> M unit) :
    (forall x, inv J (f x)) -> inv J (mfor l f).
  Proof.
    intros H; induction l as [|x l IH]; cbn [mfor]; [apply inv_ret|].
    apply inv_bind; [apply H | intros ?; exact IH].
  Qed.
  Lemma inv_mfold A B (l : list A) (f : B -> A -> M B) :
    (forall acc x, inv J (f acc x)) -> forall acc, inv J (mfold l acc f).
  Proof.
    intros H; induction l as [|x l IH]; intros acc; cbn [mfold]; [apply inv_ret|].
    apply inv_bind; [apply H | intros acc'; apply IH].
  Qed.
  Lemma inv_mfold_Forall A B (P : A -> Prop) (l : list A) (f : B -> A -> M B) :
    Forall P l -> (forall acc x, P x -> inv J (f acc x)) -> forall acc, inv J (mfold l acc f).
  Proof.
    intros Hl H; induction Hl as [|x l Hx Hl IH]; intros acc; cbn [mfold]; [apply inv_ret|].
    apply inv_bind; [apply H; exact Hx | intros acc'; apply IH].
  Qed.
  Lemma inv_mfor_Forall A (P : A -> Prop) (l : list A) (f : A -> M unit) :
    Forall P l -> (forall x, P x -> inv J (f x)) -> inv J (mfor l f).
  Proof.
    intros Hl H; induction Hl as [|x l Hx Hl IH]; cbn [mfor]; [apply inv_ret|].
    apply inv_bind; [apply H; exact Hx | intros ?; exact IH].
  Qed.
  Lemma inv_mfor_swallow A (l : list A) (f : A -> M unit) :
    (forall x, inv J (f x)) -> inv J (mfor_swallow l f).
  Proof.
    intros H; induction l as [|x l IH]; cbn [mfor_swallow]; [apply inv_ret|].
    intros s Hs; specialize (H x s Hs). destruct (f x s) as [a s'|e s'|e s']; auto. apply IH; exact H.
  Qed.
  Lemma inv_mfold_swallow A B (l : list A) (f : B -> A -> M B) :
    (forall acc x, inv J (f acc x)) -> forall acc, inv J (mfold_swallow l acc f).
  Proof.
    intros H; induction l as [|x l IH]; intros acc; cbn [mfold_swallow]; [apply inv_ret|].
    intros s Hs; specialize (H acc x s Hs). destruct (f acc x s) as [a s'|e s'|e s']; auto. apply IH; exact H.
  Qed.
  Lemma inv_opt_or_panic A e (o : option A) : inv J (opt_or_panic e o).
  Proof. destruct o; [apply inv_ret | apply inv_panic]. Qed.
  Lemma inv_opt_or_fail A e (o : option A) : inv J (opt_or_fail e o).
  Proof. destruct o; [apply inv_ret | apply inv_fail]. Qed.
End Rules.

Section HoareRules.
  Lemma hoare_ret A (P : State -> Prop) (a : A) (Q : A -> State -> Prop) (X : State -> Prop) : (forall s, P s -> Q a s) -> hoare P (ret a) Q X.
  Proof. intros H s Hs; apply H; exact Hs. Qed.
  Lemma hoare_fail A (P : State -> Prop) e (Q : A -> State -> Prop) (X : State -> Prop) : (forall s, P s -> X s) -> hoare P (fail e) Q X.
  Proof. intros H s Hs; apply H; exact Hs. Qed.
  Lemma hoare_panic A (P : State -> Prop) e (Q : A -> State -> Prop) (X : State -> Prop) : (forall s, P s -> X s) -> hoare P (panic e) Q X.
  Proof. intros H s Hs; apply H; exact Hs. Qed.
  Lemma hoare_gets A (P : State -> Prop) (g : State -> A) (Q : A -> State -> Prop) (X : State -> Prop) : (forall s, P s -> Q (g s) s) -> hoare P (gets g) Q X.
  Proof. intros H s Hs; apply H; exact Hs. Qed.
  Lemma hoare_modify (P : State -> Prop) f (Q : unit -> State -> Prop) (X : State -> Prop) : (forall s, P s -> Q tt (f s)) -> hoare P (modify f) Q X.
  Proof. intros H s Hs; apply H; exact Hs. Qed.
  Lemma hoare_bind A B (P : State -> Prop) (m : M A) (f : A -> M B) (Q1 : A -> State -> Prop) (Q : B -> State -> Prop) (X : State -> Prop) :
    hoare P m Q1 X -> (forall a, hoare (Q1 a) (f a) Q X) -> hoare P (bind m f) Q X.
  Proof.
    intros Hm Hf s Hs; unfold bind; specialize (Hm s Hs).
    destruct (m s) as [a s'|e s'|e s']; auto. apply Hf; exact Hm.
  Qed.
  Lemma hoare_conseq A (P P' : State -> Prop) (m : M A) (Q Q' : A -> State -> Prop) (X X' : State -> Prop) :
    hoare P' m Q' X' -> (forall s, P s -> P' s) -> (forall a s, Q' a s -> Q a s) -> (forall s, X' s -> X s) ->
    hoare P m Q X.
  Proof.
    intros H HP HQ HX s Hs; specialize (H s (HP s Hs)). destruct (m s); auto.
  Qed.
  Lemma hoare_mfor A (J X : State -> Prop) (l : list A) (f : A -> M unit) :
    (forall x, hoare J (f x) (fun _ => J) X) -> hoare J (mfor l f) (fun _ => J) X.
  Proof.
    intros H; induction l as [|x l IH]; cbn [mfor]; [apply hoare_ret; auto|].
    eapply hoare_bind; [apply H | intros ?; exact IH].
  Qed.
  (* invariant J plus a predicate on the accumulator / result *)
  Lemma hoare_mfold_acc A B (J : State -> Prop) (Pa : B -> Prop) (P : A -> Prop) (l : list A) (f : B -> A -> M B) :
    Forall P l ->
    (forall acc x, Pa acc -> P x -> hoare J (f acc x) (fun acc' s => J s /\ Pa acc') J) ->
    forall acc, Pa acc -> hoare J (mfold l acc f) (fun acc' s => J s /\ Pa acc') J.
  Proof.
    intros Hl H; induction Hl as [|x l Hx Hl IH]; intros acc Hacc; cbn [mfold].
    - apply hoare_ret; auto.
    - eapply hoare_bind; [apply H; assumption|]. intros acc'.
      intros s [Hs Ha]. exact (IH acc' Ha s Hs).
  Qed.
  Lemma inv_as_hoare A (J : State -> Prop) (P : A -> Prop) (m : M A) :
    inv J m -> (forall s, J s -> match m s with Ok a _ => P a | _ => True end) ->
    hoare J m (fun a s => J s /\ P a) J.
  Proof.
    intros Hi Hp s Hs; specialize (Hi s Hs); specialize (Hp s Hs). destruct (m s); auto.
  Qed.
  Lemma inv_hoare_true A (J : State -> Prop) (m : M A) : inv J m -> hoare J m (fun _ => J) (fun _ => True).
  Proof. intros H s Hs; specialize (H s Hs); destruct (m s); auto. Qed.
  Lemma hoare_bind_inv A B (J : State -> Prop) (m : M A) (f : A -> M B) (Q : B -> State -> Prop) :
    inv J m -> (forall a, hoare J (f a) Q J) -> hoare J (bind m f) Q J.
  Proof.
    intros Hm Hf. eapply hoare_bind; [|exact Hf].
    intros s Hs; specialize (Hm s Hs); destruct (m s); auto.
  Qed.
End HoareRules.

(* Decomposition of a goal [inv J m] along the syntax of m.  Sub-programs that
   are applications of model functions are closed from the hint database [inv]. *)
Ltac inv_step :=
  lazymatch goal with
  | |- inv _ (ret _) => apply inv_ret
  | |- inv _ (fail _) => apply inv_fail
  | |- inv _ (panic _) => apply inv_panic
  | |- inv _ (gets _) => apply inv_gets
  | |- inv _ (opt_or_panic _ _) => apply inv_opt_or_panic
  | |- inv _ (opt_or_fail _ _) => apply inv_opt_or_fail
  | |- inv _ (bind _ _) => apply inv_bind; [| intros ?]
  | |- inv _ (mfor _ _) => apply inv_mfor; intros ?
  | |- inv _ (mfold _ _ _) => apply inv_mfold; intros ? ?
  | |- inv _ (mfor_swallow _ _) => apply inv_mfor_swallow; intros ?
  | |- inv _ (mfold_swallow _ _ _) => apply inv_mfold_swallow; intros ? ?
  | |- inv _ (if ?b then _ else _) => destruct b eqn:?
  | |- inv _ (match ?x with _ => _ end) => destruct x eqn:?
  | |- inv _ (let '(_, _) := ?x in _) => destruct x eqn:?
  end.

(* goals [hoare J m (fun a s => J s /\ P a) J]: J is preserved and the value returned satisfies P *)
Ltac ho_step :=
  lazymatch goal with
  | |- hoare _ (ret _) _ _ => apply hoare_ret; intros ? ?; split; [assumption|]
  | |- hoare _ (fail _) _ _ => apply hoare_fail; auto
  | |- hoare _ (panic _) _ _ => apply hoare_panic; auto
  | |- hoare _ (bind _ _) _ _ => apply hoare_bind_inv; [| intros ?]
  | |- hoare _ (if ?b then _ else _) _ _ => destruct b eqn:?
  | |- hoare _ (match ?x with _ => _ end) _ _ => destruct x eqn:?
  end.

(* Fully automatic preservation proof for programs that do not write the part
   of the state an invariant reads.  [Jf : forall s s', pi s' = pi s -> J s -> J s']
   for some projection pi; a [modify f] leaf is closed when pi (f s) reduces to
   pi s.  Model functions are unfolded on the way down. *)
Ltac head_of t := lazymatch t with ?f _ => head_of f | _ => t end.
Ltac inv_deep Jf :=
  repeat first
    [ lazymatch goal with
      | |- inv _ (modify _) =>
        apply inv_modify; let s := fresh "s" in let Hs := fresh "Hs" in
        intros s Hs; apply (Jf s); [reflexivity | exact Hs]
      end
    | inv_step
    | lazymatch goal with
      | |- inv _ ?m => let h := head_of m in unfold h
      end ].

(* same, with a user tactic tried first on [modify] leaves that do write the
   projection *)
Ltac inv_deep_with Jf leaf :=
  repeat first
    [ lazymatch goal with
      | |- inv _ (modify _) =>
        first [ leaf
              | apply inv_modify; let s := fresh "s" in let Hs := fresh "Hs" in
                intros s Hs; apply (Jf s); [reflexivity | exact Hs] ]
      end
    | inv_step
    | lazymatch goal with
      | |- inv _ ?m => let h := head_of m in unfold h
      end ].

Lemma hoare_any A (P : State -> Prop) (m : M A) : hoare P m (fun _ _ => True) (fun _ => True).
Proof. intros s _; destruct (m s); exact I. Qed.

(* [hoare (fun _ => True) m (fun _ => Q) (fun _ => True)] where every successful
   path of m ends in a [modify] establishing Q *)
Ltac post_deep :=
  repeat first
    [ lazymatch goal with
      | |- hoare _ (bind _ _) _ _ => eapply hoare_bind with (Q1 := fun _ _ => True); [apply hoare_any | intros ?]
      | |- hoare _ (fail _) _ _ => apply hoare_fail; intros; exact I
      | |- hoare _ (panic _) _ _ => apply hoare_panic; intros; exact I
      | |- hoare _ (modify _) _ _ => apply hoare_modify; intros ? ?; cbn; reflexivity
      | |- hoare _ (if ?b then _ else _) _ _ => destruct b eqn:?
      | |- hoare _ (match ?x with _ => _ end) _ _ => destruct x eqn:?
      end
    | lazymatch goal with
      | |- hoare _ ?m _ _ => let h := head_of m in unfold h
      end ].

(* totality: no path of m fails or panics *)
Definition nofail {A} (m : M A) : Prop := hoare (fun _ => True) m (fun _ _ => True) (fun _ => False).
Lemma nofail_ok A (m : M A) s : nofail m -> exists a s', m s = Ok a s'.
Proof. intros H; specialize (H s I). destruct (m s); [eauto | contradiction | contradiction]. Qed.
Lemma nofail_mfold A B (l : list A) (f : B -> A -> M B) :
  (forall acc x, nofail (f acc x)) -> forall acc, nofail (mfold l acc f).
Proof.
  intros H; induction l as [|x l IH]; intros acc; cbn [mfold]; [apply hoare_ret; auto|].
  eapply hoare_bind; [apply H | intros acc' s _; apply IH; exact I].
Qed.
Ltac nofail_deep :=
  repeat first
    [ lazymatch goal with
      | |- nofail _ => unfold nofail
      | |- hoare _ (bind _ _) _ _ => eapply hoare_bind with (Q1 := fun _ _ => True); [| intros ?]
      | |- hoare _ (ret _) _ _ => apply hoare_ret; intros; exact I
      | |- hoare _ (gets _) _ _ => apply hoare_gets; intros; exact I
      | |- hoare _ (modify _) _ _ => apply hoare_modify; intros; exact I
      | |- hoare _ (mfor _ _) _ _ => apply (hoare_mfor _ (fun _ => True) (fun _ => False)); intros ?
      | |- hoare _ (mfold _ _ _) _ _ => apply nofail_mfold; intros ? ?
      | |- hoare _ (if ?b then _ else _) _ _ => destruct b eqn:?
      | |- hoare _ (match ?x with _ => _ end) _ _ => destruct x eqn:?
      end
    | lazymatch goal with
      | |- hoare _ ?m _ _ => let h := head_of m in unfold h
      end ].

(* a read followed by a continuation that starts in the very state that was read *)
Lemma hoare_bind_gets_eq A B (P : State -> Prop) (g : State -> A) (f : A -> M B) (Q : B -> State -> Prop) (X : State -> Prop) :
  (forall s0, P s0 -> hoare (fun s => s = s0) (f (g s0)) Q X) -> hoare P (bind (gets g) f) Q X.
Proof. intros H s Hs; unfold bind, gets. exact (H s Hs s eq_refl). Qed.
Lemma hoare_pre A (P P' : State -> Prop) (m : M A) (Q : A -> State -> Prop) (X : State -> Prop) :
  (forall s, P s -> P' s) -> hoare P' m Q X -> hoare P m Q X.
Proof. intros HP H s Hs; exact (H s (HP s Hs)). Qed.
Lemma hoare_post A (P : State -> Prop) (m : M A) (Q Q' : A -> State -> Prop) (X X' : State -> Prop) :
  (forall a s, Q' a s -> Q a s) -> (forall s, X' s -> X s) -> hoare P m Q' X' -> hoare P m Q X.
Proof. intros HQ HX H s Hs; specialize (H s Hs); destruct (m s); auto. Qed.
Lemma inv_of_hoare A (J : State -> Prop) (m : M A) : hoare J m (fun _ => J) J -> inv J m.
Proof. intros H; apply inv_hoare; exact H. Qed.

(* [raises P m]: every error or panic code m can end with satisfies P *)
Definition raises (P : Z -> Prop) {A} (m : M A) : Prop :=
  forall s, match m s with Ok _ _ => True | Err e _ => P e | Panic e _ => P e end.
Section Raises.
  Context (P : Z -> Prop).
  Lemma raises_ret A (a : A) : raises P (ret a).               Proof. intros s; exact I. Qed.
  Lemma raises_gets A (g : State -> A) : raises P (gets g).     Proof. intros s; exact I. Qed.
  Lemma raises_modify f : raises P (modify f).                   Proof. intros s; exact I. Qed.
  Lemma raises_fail A e : P e -> raises P (@fail A e).           Proof. intros H s; exact H. Qed.
  Lemma raises_panic A e : P e -> raises P (@panic A e).         Proof. intros H s; exact H. Qed.
  Lemma raises_bind A B (m : M A) (f : A -> M B) : raises P m -> (forall a, raises P (f a)) -> raises P (bind m f).
  Proof. intros Hm Hf s; unfold bind; specialize (Hm s); destruct (m s); auto. apply Hf. Qed.
  Lemma raises_mfor A (l : list A) (f : A -> M unit) : (forall x, raises P (f x)) -> raises P (mfor l f).
  Proof. intros H; induction l as [|x l IH]; cbn [mfor]; [apply raises_ret|]. apply raises_bind; [apply H | intros _; exact IH]. Qed.
  Lemma raises_mfold A B (l : list A) (f : B -> A -> M B) : (forall acc x, raises P (f acc x)) -> forall acc, raises P (mfold l acc f).
  Proof. intros H; induction l as [|x l IH]; intros acc; cbn [mfold]; [apply raises_ret|]. apply raises_bind; [apply H | intros acc'; apply IH]. Qed.
  Lemma raises_mfor_swallow A (l : list A) (f : A -> M unit) : (forall x, raises P (f x)) -> raises P (mfor_swallow l f).
  Proof.
    intros H; induction l as [|x l IH]; cbn [mfor_swallow]; [apply raises_ret|].
    intros s; specialize (H x s). destruct (f x s); auto. apply IH.
  Qed.
  Lemma raises_mfold_swallow A B (l : list A) (f : B -> A -> M B) : (forall acc x, raises P (f acc x)) -> forall acc, raises P (mfold_swallow l acc f).
  Proof.
    intros H; induction l as [|x l IH]; intros acc; cbn [mfold_swallow]; [apply raises_ret|].
    intros s; specialize (H acc x s). destruct (f acc x s); auto. apply IH.
  Qed.
  Lemma raises_opt_or_panic A e (o : option A) : P e -> raises P (opt_or_panic e o).
  Proof. intros H; destruct o; [apply raises_ret | apply raises_panic; exact H]. Qed.
  Lemma raises_opt_or_fail A e (o : option A) : P e -> raises P (opt_or_fail e o).
  Proof. intros H; destruct o; [apply raises_ret | apply raises_fail; exact H]. Qed.
End Raises.

(* [side] closes the obligations "P code" for the literal codes met on the way *)
Ltac raises_deep side :=
  repeat first
    [ lazymatch goal with
      | |- raises _ (ret _) => apply raises_ret
      | |- raises _ (gets _) => apply raises_gets
      | |- raises _ (modify _) => apply raises_modify
      | |- raises _ (fail _) => apply raises_fail; side
      | |- raises _ (panic _) => apply raises_panic; side
      | |- raises _ (opt_or_panic _ _) => apply raises_opt_or_panic; side
      | |- raises _ (opt_or_fail _ _) => apply raises_opt_or_fail; side
      | |- raises _ (bind _ _) => apply raises_bind; [| intros ?]
      | |- raises _ (mfor _ _) => apply raises_mfor; intros ?
      | |- raises _ (mfold _ _ _) => apply raises_mfold; intros ? ?
      | |- raises _ (mfor_swallow _ _) => apply raises_mfor_swallow; intros ?
      | |- raises _ (mfold_swallow _ _ _) => apply raises_mfold_swallow; intros ? ?
      | |- raises _ (if ?b then _ else _) => destruct b eqn:?
      | |- raises _ (match ?x with _ => _ end) => destruct x eqn:?
      | |- raises _ (let '(_, _) := ?x in _) => destruct x eqn:?
      end
    | lazymatch goal with
      | |- raises _ ?m => let h := head_of m in unfold h
      end ].

Lemma hoare_mfor_Forall A (P : A -> Prop) (J X : State -> Prop) (l : list A) (f : A -> M unit) :
  Forall P l -> (forall x, P x -> hoare J (f x) (fun _ => J) X) -> hoare J (mfor l f) (fun _ => J) X.
Proof.
  intros Hl H; induction Hl as [|x l Hx Hl IH]; cbn [mfor]; [apply hoare_ret; auto|].
  eapply hoare_bind; [apply H; exact Hx | intros ?; exact IH].
Qed.

(* WitnessLib.v — evaluation of recorded histories (lists of operation lines in
   the IO format) inside Coq: the witnesses of the `_refuted` theorems are
   histories that were executed on the real implementation, shrunk there, and
   are replayed here through the model by vm_compute. *)
From Coq Require Import ZArith List Bool.
From Alliance Require Import Num KMap Types Monad Model Step IO Spec.
Import ListNotations.
Open Scope Z_scope.

Fixpoint parse_all (ls : list (list Z)) : option (list Op) :=
  match ls with
  | [] => Some []
  | l :: r => match parse_op l, parse_all r with
              | Some o, Some os => Some (o :: os)
              | _, _ => None
              end
  end.

(* codes of the clauses of property p violated anywhere along the run *)
Fixpoint trace_fails (p : Z) (s : State) (h : list Op) : list Z :=
  match h with
  | [] => []
  | o :: h' => let '(s', c) := step s o in check_step p s o c s' ++ trace_fails p s' h'
  end.

Definition witness_fails (p code : Z) (ls : list (list Z)) : bool :=
  match parse_all ls with
  | Some h => existsb (Z.eqb code) (trace_fails p init_state h)
  | None => false
  end.

(* result class and error code of the last operation *)
Definition last_result (ls : list (list Z)) : option (Z * Z) :=
  match parse_all ls with
  | Some h =>
    match rev h with
    | o :: before => let s := run init_state (rev before) in Some (snd (step s o), step_err s o)
    | [] => None
    end
  | None => None
  end.

(* the state a recorded history ends in *)
Definition final_state (ls : list (list Z)) : option State :=
  match parse_all ls with Some h => Some (run init_state h) | None => None end.
(* error codes of the positions that cannot leave / claim in the final state *)
Definition exit_blocked_codes (ls : list (list Z)) : list Z :=
  match final_state ls with Some s => map snd (exit_blocked s) | None => [] end.
Definition claim_blocked_codes (ls : list (list Z)) : list Z :=
  match final_state ls with Some s => map snd (claim_blocked s) | None => [] end.
(* error codes of Delegate(1 unit) by [del] over every (validator, asset) pair it fails for *)
Definition enter_blocked_codes (del : Z) (ls : list (list Z)) : list Z :=
  match final_state ls with
  | Some s => filter (fun c => negb (c =? 0))
                (flat_map (fun kv => match fst kv with
                                     | [v] => map (fun ka => probe_enter s del v (a_denom (snd ka)) 1) (assets s)
                                     | _ => [] end) (svals s))
  | None => []
  end.

(* Extract.v — extraction of the executable model for the correspondence
   driver.  ExtrOcamlBasic only (bool, option, list, pairs, unit, sumbool map
   to OCaml's own types); Z / positive / N / nat stay the extracted inductives. *)
From Coq Require Import Extraction ExtrOcamlBasic ZArith List.
From Alliance Require Import Num KMap Types Monad Model Step Queries IO Spec.
Extraction Language OCaml.
Extraction "model.ml" init_state step parse_op print_state parse_state run_trace check_step with_ctx step_err c04_detail probe_exit probe_claim probe_enter reported_balance answer_query reimport.

(* Num.v — fixed-point arithmetic of cosmossdk.io/math v1.2.0 (LegacyDec, Int).
   Dec := Z scaled by 10^18.  Mirrors dec.go: chopPrecisionAndRound (banker's
   rounding, sign symmetric), MulMut, QuoMut (truncate THEN round), MulIntMut,
   QuoIntMut (truncated big.Int.Quo), TruncateInt, PowerMut (square & multiply
   with the same order of roundings).  Only definitions live here. *)
From Coq Require Import ZArith List Bool.
Import ListNotations.
Open Scope Z_scope.

Definition PREC : Z := 1000000000000000000.
Definition HALF : Z := 500000000000000000.
Definition ONE : Z := PREC.                    (* LegacyOneDec *)
Definition ROUNDER : Z := 10000000000000000.   (* types.Rounder = 0.01 *)
(* maxDecBitLen = 256 + 59 = 315 *)
Definition DEC_LIMIT : Z := 2 ^ 315.

(* chopPrecisionAndRound on a non-negative argument *)
Definition chop_pos (n : Z) : Z :=
  let q := n / PREC in
  let r := n mod PREC in
  if r =? 0 then q
  else if r <? HALF then q
  else if HALF <? r then q + 1
  else if Z.even q then q else q + 1.

Definition chop_round (n : Z) : Z :=
  if n <? 0 then - chop_pos (- n) else chop_pos n.

Definition dec_of_int (i : Z) : Z := i * PREC.          (* LegacyNewDecFromInt *)
Definition dmul (a b : Z) : Z := chop_round (a * b).     (* Mul *)
Definition dmul_int (a i : Z) : Z := a * i.               (* MulInt *)
(* Quo: multiply by 10^36, truncated big.Int quotient, then chop-and-round.
   Total here (Z.quot _ 0 = 0); every call site guards b <> 0 and models the
   Go panic explicitly. *)
Definition dquo (a b : Z) : Z := chop_round (Z.quot (a * PREC * PREC) b).
Definition dquo_int (a i : Z) : Z := Z.quot a i.          (* QuoInt *)
Definition dquo_trunc (a b : Z) : Z := Z.quot (Z.quot (a * PREC * PREC) b) PREC. (* QuoTruncate *)
Definition dtrunc (a : Z) : Z := Z.quot a PREC.           (* TruncateInt *)
Definition dtrunc_dec (a : Z) : Z := Z.quot a PREC * PREC. (* TruncateDec *)
Definition dec_fits (a : Z) : bool := Z.abs a <? DEC_LIMIT.

(* PowerMut.  [dpow_loop fuel d tmp i] is the for-loop "for i > 1"; None models
   the "Int overflow" panic of MulMut. *)
Definition dmul_chk (a b : Z) : option Z :=
  let r := dmul a b in if dec_fits r then Some r else None.

Fixpoint dpow_loop (fuel : nat) (d tmp i : Z) : option (Z * Z) :=
  match fuel with
  | O => None
  | S f =>
    if i <=? 1 then Some (d, tmp)
    else
      match (if Z.odd i then dmul_chk tmp d else Some tmp) with
      | None => None
      | Some tmp' =>
        match dmul_chk d d with
        | None => None
        | Some d' => dpow_loop f d' tmp' (i / 2)
        end
      end
  end.

Definition dpow (d n : Z) : option Z :=
  if n =? 0 then Some ONE
  else match dpow_loop 70 d ONE n with
       | None => None
       | Some (d', tmp) => dmul_chk d' tmp
       end.

(* IndexSync2.v — the converse of IndexSync: in every reachable state every key of the per-validator
   unbonding index stands for an entry that is really pending (same validator, denom, delegator,
   completion time), and no bucket of the queue is empty.  Together with IndexSync: the index and
   the queue describe each other exactly — nothing can be slashed or paid that is not pending, and
   nothing pending can be missed (C02 / C07), and the module state is a well-formed genesis (C18). *)
From Coq Require Import ZArith List Bool Lia.
From Alliance Require Import Num KMap KMapFacts KMapSorted Types Monad Model Step Spec Hoare.
From Alliance.Proofs Require Import SortedInv Queues IndexSync SlashQueue RedelCleanup UndelCleanup.
Import ListNotations.
Open Scope Z_scope.

Definition idx_ok (Q : KMap (list Undel)) (k : Key) (_ : unit) : Prop :=
  exists v ct dn dl l e, k = [v; ct; dn; dl] /\ kget Q [ct; dl] = Some l /\ In e l /\ u_val e = v /\ u_denom e = dn.
Definition NE (Q : KMap (list Undel)) : Prop := kall (fun _ l => l <> []) Q.
Definition CS2 (s : State) : Prop :=
  ksorted (undelq s) /\ ksorted (undelidx s) /\ kall (idx_ok (undelq s)) (undelidx s) /\ NE (undelq s).
Lemma CS2_f : forall s s', is_proj s' = is_proj s -> CS2 s -> CS2 s'.
Proof. unfold is_proj, CS2; intros s s' E H. inversion E as [[E1 E2]]. rewrite E1, E2. exact H. Qed.

(* rewriting one bucket with a list that still has an entry for every (validator, denom) it had *)
Lemma idx_ok_kset Q K l' k u : ksorted Q ->
  (forall l e, kget Q K = Some l -> In e l -> exists e', In e' l' /\ u_val e' = u_val e /\ u_denom e' = u_denom e) ->
  idx_ok Q k u -> idx_ok (kset Q K l') k u.
Proof.
  intros Hs Hl (v & ct & dn & dl & l & e & -> & Hg & Hin & Hv & Hd).
  destruct (list_eq_dec Z.eq_dec [ct; dl] K) as [E|Hne].
  - subst K. destruct (Hl l e Hg Hin) as (e' & Hin' & Hv' & Hd').
    exists v, ct, dn, dl, l', e'. rewrite kget_kset_same. repeat split; auto; congruence.
  - exists v, ct, dn, dl, l, e. rewrite kget_kset_other by assumption. repeat split; auto.
Qed.

(* ---------- queueUndelegation ---------- *)
Lemma cs2_queue_undelegation del v dn amt : inv CS2 (queue_undelegation del v dn amt).
Proof.
  unfold queue_undelegation. apply inv_bind; [apply inv_gets|]. intros t. apply inv_bind; [apply inv_gets|]. intros ub.
  apply inv_modify. intros s (Hq & Hi & Hall & Hne). unfold CS2. cbn [undelq undelidx set_undelq set_undelidx].
  set (K := [t + ub; del]). set (old := match kget (undelq s) K with Some l => l | None => [] end).
  assert (Hkeep : forall l e, kget (undelq s) K = Some l -> In e l ->
            exists e', In e' (old ++ [mkUndel del v dn amt]) /\ u_val e' = u_val e /\ u_denom e' = u_denom e).
  { intros l e Hg Hin. exists e. split; [|auto]. apply in_or_app. left. unfold old. rewrite Hg. exact Hin. }
  split; [apply ksorted_kset; exact Hq|]. split; [apply ksorted_kset; exact Hi|]. split.
  - apply kall_kset.
    + unfold kall in *. eapply Forall_impl; [|exact Hall]. intros [k0 u0]; cbn. apply idx_ok_kset; assumption.
    + exists v, (t + ub), dn, del, (old ++ [mkUndel del v dn amt]), (mkUndel del v dn amt).
      fold K. rewrite kget_kset_same. repeat split; auto. apply in_or_app. right. left. reflexivity.
  - unfold NE. apply kall_kset; [exact Hne|]. intros E. apply app_eq_nil in E. destruct E as [_ E]. discriminate.
Qed.

(* ---------- slashUndelegations ---------- *)
Lemma Forall2_In_l {A B} (R : A -> B -> Prop) l l' a : Forall2 R l l' -> In a l -> exists b, In b l' /\ R a b.
Proof.
  intros H; induction H as [|x y l l' Hxy H IH]; intros Hin; [destruct Hin|].
  destruct Hin as [->|Hin]; [exists y; split; [left; reflexivity | exact Hxy]|].
  destruct (IH Hin) as (b & Hb & Hr). exists b. split; [right; exact Hb | exact Hr].
Qed.

Lemma cs2_slash_undelegations v f : inv CS2 (slash_undelegations v f).
Proof.
  unfold slash_undelegations.
  apply inv_of_hoare. apply hoare_bind_gets_eq. intros s00 Hs00. set (idx := kfilter (kprefix [v]) (undelidx s00)).
  eapply hoare_bind with (Q1 := fun _ s => s = s00); [apply hoare_gets; auto|]. intros t.
  (* the index is not written by the loop: every key walked is a key of the current index *)
  assert (Hloop : inv (fun s => CS2 s /\ undelidx s = undelidx s00)
            (mfor idx (fun ku =>
               match fst ku with
               | [_; ct; dn; del] =>
                 if ct <? t then ret tt
                 else
                   ob <- gets (fun s => kget (undelq s) [ct; del]) ;;
                   let entries := match ob with Some l => l | None => [] end in
                   entries' <- mfold entries [] (fun acc e =>
                     if negb ((u_val e =? v) && (u_denom e =? dn)) then ret (acc ++ [e]) else
                     let tok := dtrunc (dmul_int f (u_amount e)) in
                     (if (u_amount e - tok <? 0) || (tok <? 0) then panic P_NEG_COIN else ret tt) ;;;
                     c <- coin1 (u_denom e) tok ;;
                     bank_send ACC_ALLIANCE ACC_FEE c ;;;
                     ret (acc ++ [set_u_amount (u_amount e - tok) e])) ;;
                   modify (fun s => set_undelq (kset (undelq s) [ct; del] entries') s)
               | _ => fail E_MISSING_RECORD
               end))).
  { apply (inv_mfor_Forall _ _ (fun ku : Key * unit => In ku (undelidx s00))).
    - apply Forall_forall. intros ku Hin. unfold idx, kfilter in Hin. apply filter_In in Hin. tauto.
    - intros ku Hku.
      destruct (fst ku) as [|v0 [|ct [|dn [|del [|]]]]] eqn:Ek;
        lazymatch goal with |- inv _ (fail _) => apply inv_fail | _ => idtac end.
      destruct (ct <? t); [apply inv_ret|].
      apply inv_of_hoare. apply hoare_bind_gets_eq. intros s0 [Hs0 Hi0].
      set (entries := match kget (undelq s0) [ct; del] with Some l => l | None => [] end).
      apply (hoare_pre _ _ (Pq (undelq s0) (undelidx s0))); [intros s ->; split; reflexivity|].
      assert (Hback : forall s, Pq (undelq s0) (undelidx s0) s -> CS2 s /\ undelidx s = undelidx s00).
      { intros s [E1 E2]. split; [unfold CS2; rewrite E1, E2; exact Hs0 | congruence]. }
      eapply hoare_bind.
      { eapply hoare_post; [| |apply (slash_entries_ids v dn f (undelq s0) (undelidx s0) entries [] [])]; [intros a s H; exact H | exact Hback | constructor]. }
      intros entries'; cbv beta. apply hoare_modify. intros s [[E1 E2] Hids]. cbn [app] in Hids.
      destruct Hs0 as (Hq & Hi & Hall & Hne). split; [|cbn; congruence].
      unfold CS2. cbn [undelq undelidx set_undelq]. rewrite E1, E2.
      split; [apply ksorted_kset; exact Hq|]. split; [exact Hi|].
      assert (Hkeep : forall l e, kget (undelq s0) [ct; del] = Some l -> In e l ->
                exists e', In e' entries' /\ u_val e' = u_val e /\ u_denom e' = u_denom e).
      { intros l e Hg Hin. assert (He : In e entries) by (unfold entries; rewrite Hg; exact Hin).
        destruct (Forall2_In_l _ _ _ _ Hids He) as (e' & Hin' & (_ & Hv & Hd)). exists e'. auto. }
      split.
      + unfold kall in *. eapply Forall_impl; [|exact Hall]. intros [k0 u0]; cbn. apply idx_ok_kset; assumption.
      + unfold NE. apply kall_kset; [exact Hne|].
        (* the key walked is in the index, hence stands for an entry of this bucket: it is not empty *)
        rewrite <- Hi0 in Hku. destruct ku as [k u]. cbn [fst] in Ek. subst k.
        assert (Hok : idx_ok (undelq s0) [v0; ct; dn; del] u) by (unfold kall in Hall; rewrite Forall_forall in Hall; exact (Hall _ Hku)).
        destruct Hok as (v1 & ct1 & dn1 & dl1 & l1 & e1 & Ekey & Hg1 & Hin1 & _). inversion Ekey; subst v1 ct1 dn1 dl1.
        destruct (Hkeep l1 e1 Hg1 Hin1) as (e' & Hin' & _). intros E. rewrite E in Hin'. destruct Hin'. }
  intros s ->. specialize (Hloop s00 (conj Hs00 eq_refl)). cbv beta.
  destruct (mfor idx _ s00); tauto.
Qed.

(* ---------- CompleteUnbondings (when it returns normally) ---------- *)
Lemma kget_in_sorted {V} (m : KMap V) k v : ksorted m -> In (k, v) m -> kget m k = Some v.
Proof.
  induction m as [|[k0 v0] m IH]; intros Hs Hin; [destruct Hin|].
  apply ksorted_inv in Hs. destruct Hs as [Hs Hall]. cbn [kget]. destruct Hin as [E|Hin].
  - inversion E; subst. rewrite kcmp_refl. reflexivity.
  - assert (Hlt : klt k0 k) by (rewrite Forall_forall in Hall; exact (Hall _ Hin)).
    rewrite (kcmp_lt_gt _ _ Hlt). apply IH; assumption.
Qed.

Lemma is_body x : static_ok x -> hoare IS (undel_body x) (fun _ => IS) (fun _ => True).
Proof.
  intros Hx s Hs. pose proof (is_undel_loop [x] (Forall_cons _ Hx (Forall_nil _)) s Hs) as H.
  cbn [mfor] in H. unfold bind in H. destruct (undel_body x s); auto.
Qed.

(* phase 1 of a bucket: the index loses keys only; the queue is frozen *)
Definition X1 (Q : KMap (list Undel)) (s : State) : Prop :=
  ksorted (undelidx s) /\ undelq s = Q /\ kall (idx_ok Q) (undelidx s).
Lemma X1_f Q : forall s s', is_proj s' = is_proj s -> X1 Q s -> X1 Q s'.
Proof. unfold is_proj, X1; intros s s' E H. inversion E as [[E1 E2]]. rewrite E1, E2. exact H. Qed.
Lemma x1_pay Q ct e : hoare (X1 Q) (pay ct e) (fun _ => X1 Q) (fun _ => True).
Proof.
  unfold pay. eapply hoare_bind with (Q1 := fun _ => X1 Q); [apply inv_hoare_true; inv_deep (X1_f Q)|]. intros c.
  eapply hoare_bind with (Q1 := fun _ => X1 Q); [apply inv_hoare_true; inv_deep (X1_f Q)|]. intros _.
  apply hoare_modify. intros s (Hi & Hq & Hall). unfold X1. cbn [undelq undelidx set_undelidx].
  split; [apply ksorted_kdel; exact Hi|]. split; [exact Hq|]. apply kall_kdel. exact Hall.
Qed.

Lemma cs2_body ct dl l : Forall (fun u => u_del u = dl) l ->
  hoare (fun s => CS2 s /\ kget (undelq s) [ct; dl] = Some l) (undel_body ([ct; dl], l))
        (fun _ s' => CS2 s') (fun _ => True).
Proof.
  intros Hdl s [(Hq & Hi & Hall & Hne) Hg]. rewrite undel_body_unfold. unfold bind at 1.
  pose proof (hoare_mfor _ _ (fun _ => True) l (pay ct) (x1_pay (undelq s) ct) s (conj Hi (conj eq_refl Hall))) as P1.
  assert (P2 : forall e0, In e0 l -> match mfor l (pay ct) s with Ok _ s1 => UGone (ukey ct e0) s1 | _ => True end).
  { intros e0 Hin. exact (hits_entries ct e0 l Hin s Hi). }
  destruct (mfor l (pay ct) s) as [[] s1|e s1|e s1]; try exact I.
  destruct P1 as (Hi1 & Hq1 & Hall1). cbn [modify].
  unfold CS2. cbn [undelq undelidx set_undelq]. rewrite Hq1.
  split; [apply ksorted_kdel; exact Hq|]. split; [exact Hi1|]. split; [|unfold NE; apply kall_kdel; exact Hne].
  unfold kall in *. apply Forall_forall. intros [k u] Hin. cbn [fst snd].
  rewrite Forall_forall in Hall1.
  destruct (Hall1 _ Hin) as (v & ct' & dn & dl' & l0 & e & Ek & Hg0 & Hin0 & Hv & Hd). cbn [fst] in Ek. subst k.
  destruct (list_eq_dec Z.eq_dec [ct'; dl'] [ct; dl]) as [E|Hne'].
  - (* the key would stand for an entry of the bucket just paid: its key was deleted *)
    inversion E; subst ct' dl'. rewrite Hg in Hg0. inversion Hg0; subst l0.
    exfalso. pose proof (P2 e Hin0) as [_ Hgone]. unfold ukey in Hgone.
    assert (Hde : u_del e = dl) by (rewrite Forall_forall in Hdl; exact (Hdl _ Hin0)).
    rewrite Hv, Hd, Hde in Hgone.
    pose proof (kget_in_sorted _ _ _ Hi1 Hin) as Hsome. rewrite Hgone in Hsome. discriminate.
  - exists v, ct', dn, dl', l0, e. rewrite kget_kdel_other by assumption. repeat split; auto.
Qed.

(* the loop over the matured buckets *)
Definition OL (rest : KMap (list Undel)) (s : State) : Prop :=
  IS s /\ CS2 s /\ Forall (fun kv => kget (undelq s) (fst kv) = Some (snd kv)) rest.
Lemma ol_loop : forall rest, NoDup (map fst rest) -> hoare (OL rest) (mfor rest undel_body) (fun _ s => IS s /\ CS2 s) (fun _ => True).
Proof.
  induction rest as [|[k l] rest IH]; intros Hnd; cbn [mfor]; [apply hoare_ret; intros s H; unfold OL in H; tauto|].
  inversion Hnd as [|? ? Hnot Hnd']; subst.
  eapply hoare_bind with (Q1 := fun _ => OL rest); [|intros _; apply IH; exact Hnd'].
  intros s HOL. unfold OL in HOL. destruct HOL as (His & Hcs & Hall). inversion Hall as [|? ? Hk Hrest]; subst. cbn [fst snd] in Hk.
  (* the bucket is well-formed: filed under [ct; dl] with its delegator *)
  destruct His as (Hq & Hi & Hbuckets). destruct (kall_kget _ _ _ _ Hbuckets Hk) as (ct & dl & -> & Hok).
  assert (Hdl : Forall (fun u => u_del u = dl) l) by (eapply Forall_impl; [|exact Hok]; intros u [H _]; exact H).
  assert (Hst : static_ok ([ct; dl], l)) by (exists ct, dl; split; [reflexivity | exact Hdl]).
  assert (B3' : match undel_body ([ct; dl], l) s with Ok _ s' => undelq s' = kdel (undelq s) [ct; dl] | _ => True end).
  { rewrite undel_body_unfold. unfold bind at 1.
    assert (F : inv (UQis (undelq s)) (mfor l (pay ct))) by (unfold pay; inv_deep (UQf (undelq s))).
    specialize (F s eq_refl). destruct (mfor l (pay ct) s) as [[] s1| |]; try exact I. cbn. unfold UQis in F. rewrite F. reflexivity. }
  match goal with |- match ?m with _ => _ end =>
    assert (B1 : match m with Ok _ s' => IS s' | _ => True end) by exact (is_body _ Hst s (conj Hq (conj Hi Hbuckets)));
    assert (B2 : match m with Ok _ s' => CS2 s' | _ => True end) by exact (cs2_body ct dl l Hdl s (conj Hcs Hk));
    assert (B3 : match m with Ok _ s' => undelq s' = kdel (undelq s) [ct; dl] | _ => True end) by exact B3';
    destruct m as [[] s'|e s'|e s']; try exact I
  end.
  cbv beta. unfold OL. split; [exact B1|]. split; [exact B2|].
  apply Forall_forall. intros [k' l'] Hin. cbn [fst snd]. rewrite B3. rewrite Forall_forall in Hrest.
  rewrite kget_kdel_other; [exact (Hrest _ Hin) | exact Hq|].
  intros E. subst k'. apply Hnot. apply in_map_iff. exists ([ct; dl], l'). split; [reflexivity | exact Hin].
Qed.

Definition CS (s : State) : Prop := IS s /\ CS2 s.

Lemma cs_complete_unbondings : hoare CS complete_unbondings (fun _ => CS) (fun _ => True).
Proof.
  rewrite complete_unbondings_unfold.
  eapply hoare_bind with (Q1 := fun _ => CS); [apply hoare_gets; auto|]. intros t.
  apply hoare_bind_gets_eq. intros s0 [His0 Hcs0].
  set (q := kfilter (fun k => match k with [ct; _] => ct <? t | _ => false end) (undelq s0)).
  assert (Hsq : ksorted (undelq s0)) by (destruct His0; assumption).
  assert (Hnd : NoDup (map fst q)).
  { apply ksorted_NoDup_keys. unfold q, kfilter. apply ksorted_filter. exact Hsq. }
  assert (Hq : Forall (fun kv => kget (undelq s0) (fst kv) = Some (snd kv)) q).
  { apply Forall_forall. intros [k l] Hin. unfold q, kfilter in Hin. apply filter_In in Hin. destruct Hin as [Hin _].
    cbn [fst snd]. apply kget_in_sorted; assumption. }
  apply (hoare_pre _ _ (OL q)); [intros s ->; unfold OL; auto|].
  eapply hoare_bind; [apply (ol_loop q Hnd)|]. intros ?; cbv beta.
  apply inv_hoare_true. unfold sweep.
  intros s [H1 H2].
  assert (I1 : inv IS (b <- gets (fun s => bal s ACC_ALLIANCE BOND_DENOM) ;; if b =? 0 then ret tt else bank_burn ACC_ALLIANCE [(BOND_DENOM, b)])) by (inv_deep ISf).
  assert (I2 : inv CS2 (b <- gets (fun s => bal s ACC_ALLIANCE BOND_DENOM) ;; if b =? 0 then ret tt else bank_burn ACC_ALLIANCE [(BOND_DENOM, b)])) by (inv_deep CS2_f).
  specialize (I1 s H1). specialize (I2 s H2).
  destruct ((b <- gets (fun s => bal s ACC_ALLIANCE BOND_DENOM) ;; if b =? 0 then ret tt else bank_burn ACC_ALLIANCE [(BOND_DENOM, b)]) s); split; assumption.
Qed.

(* everything else: the two halves separately *)
Ltac cs2_step :=
  first
    [ lazymatch goal with
      | |- inv _ (queue_undelegation _ _ _ _) => apply cs2_queue_undelegation
      | |- inv _ (slash_undelegations _ _) => apply cs2_slash_undelegations
      | |- inv _ (modify _) =>
        apply inv_modify; let s := fresh "s" in let Hs := fresh "Hs" in
        intros s Hs; apply (CS2_f s); [reflexivity | exact Hs]
      end
    | inv_step
    | lazymatch goal with |- inv _ ?m => let h := head_of m in unfold h end ].
Ltac cs2_auto := repeat cs2_step.

Lemma CS2_msg_delegate a b c d : inv CS2 (msg_delegate a b c d).        Proof. cs2_auto. Qed.
Lemma CS2_msg_undelegate a b c d : inv CS2 (msg_undelegate a b c d).    Proof. cs2_auto. Qed.
Lemma CS2_msg_redelegate a b c d e : inv CS2 (msg_redelegate a b c d e). Proof. cs2_auto. Qed.
Lemma CS2_msg_claim a b c : inv CS2 (msg_claim a b c).                  Proof. cs2_auto. Qed.
Lemma CS2_msg_create m : inv CS2 (msg_create_alliance m).               Proof. cs2_auto. Qed.
Lemma CS2_msg_update m : inv CS2 (msg_update_alliance m).               Proof. cs2_auto. Qed.
Lemma CS2_msg_delete a b : inv CS2 (msg_delete_alliance a b).           Proof. cs2_auto. Qed.
Lemma CS2_msg_params a b c d : inv CS2 (msg_update_params a b c d).     Proof. cs2_auto. Qed.
Lemma CS2_hook_slash v f : inv CS2 (hook_slash v f).                    Proof. cs2_auto. Qed.

Lemma inv_and (A B : State -> Prop) X (m : M X) : inv A m -> inv B m -> inv (fun s => A s /\ B s) m.
Proof. intros H1 H2 s [Ha Hb]. specialize (H1 s Ha). specialize (H2 s Hb). destruct (m s); split; assumption. Qed.

Lemma cs_end_blocker : hoare CS end_blocker (fun _ => CS) (fun _ => True).
Proof.
  unfold end_blocker.
  eapply hoare_bind with (Q1 := fun _ => CS).
  { apply inv_hoare_true. apply inv_and; [is_auto | cs2_auto]. }
  intros _. eapply hoare_bind; [apply cs_complete_unbondings|]. intros ?; cbv beta.
  apply inv_hoare_true. apply inv_and; [is_auto | cs2_auto].
Qed.

Lemma CS_wrap_tx (m : M unit) s : inv IS m -> inv CS2 m -> CS s -> CS (fst (clear_oracle (tx m s))).
Proof. intros H1 H2 [Ha Hb]. specialize (H1 s Ha). specialize (H2 s Hb). unfold tx, clear_oracle. destruct (m s); cbn; split; assumption. Qed.
Lemma CS_wrap_hook (m : M unit) s : inv IS m -> inv CS2 m -> CS s -> CS (fst (clear_oracle (hook m s))).
Proof. intros H1 H2 [Ha Hb]. specialize (H1 s Ha). specialize (H2 s Hb). unfold hook, clear_oracle. destruct (m s); cbn; split; assumption. Qed.

Theorem step_CS s o : CS s -> CS (fst (step s o)).
Proof.
  intros Hs; destruct o; cbn [step]; try exact Hs.
  - pose proof (cs_end_blocker s Hs) as H. unfold endblock, clear_oracle. destruct (end_blocker s); cbn; assumption.
  - apply CS_wrap_tx; [apply IS_msg_delegate | apply CS2_msg_delegate | exact Hs].
  - apply CS_wrap_tx; [apply IS_msg_undelegate | apply CS2_msg_undelegate | exact Hs].
  - apply CS_wrap_tx; [apply IS_msg_redelegate | apply CS2_msg_redelegate | exact Hs].
  - apply CS_wrap_tx; [apply IS_msg_claim | apply CS2_msg_claim | exact Hs].
  - apply CS_wrap_tx; [apply IS_msg_create | apply CS2_msg_create | exact Hs].
  - apply CS_wrap_tx; [apply IS_msg_update | apply CS2_msg_update | exact Hs].
  - apply CS_wrap_tx; [apply IS_msg_delete | apply CS2_msg_delete | exact Hs].
  - apply CS_wrap_tx; [apply IS_msg_params | apply CS2_msg_params | exact Hs].
  - apply CS_wrap_hook; [apply IS_hook_slash | apply CS2_hook_slash | exact Hs].
  - destruct Hs as [Ha Hb]. cbn. split; [apply IS_fold_put_sup, IS_fold_put_bal; exact Ha|].
    eapply CS2_f; [|exact Hb]. unfold is_proj.
    match goal with |- (undelq (fold_left _ ?ss (fold_left _ ?bs s)), _) = _ =>
      generalize bs, ss end.
    intros bs ss. generalize s. induction bs as [|b bs IHb]; intros st; cbn [fold_left].
    + induction ss as [|x ss IHs] in st |- *; cbn [fold_left]; [reflexivity|]. rewrite IHs. reflexivity.
    + rewrite IHb. reflexivity.
Qed.
Theorem run_CS h : forall s, CS s -> CS (run s h).
Proof. induction h as [|o h IH]; intros s Hs; cbn; [exact Hs | apply IH, step_CS, Hs]. Qed.
Lemma CS_init : CS init_state.
Proof. split; [apply IS_init|]. repeat split; constructor. Qed.

(* in every reachable state: every key of the per-validator index stands for a pending entry *)
Theorem no_index_key_without_entry h v ct dn dl : let s := run init_state h in
  kget (undelidx s) [v; ct; dn; dl] = Some tt ->
  exists l e, kget (undelq s) [ct; dl] = Some l /\ In e l /\ u_val e = v /\ u_denom e = dn /\ u_del e = dl.
Proof.
  intros s Hg. destruct (run_CS h init_state CS_init) as [His (Hq & Hi & Hall & _)]. fold s in His, Hq, Hi, Hall.
  assert (Hin : In ([v; ct; dn; dl], tt) (undelidx s)).
  { clear - Hg. induction (undelidx s) as [|[k0 u0] m IH]; cbn [kget] in Hg; [discriminate|].
    destruct (kcmp [v; ct; dn; dl] k0) eqn:E; try discriminate.
    - apply kcmp_eq in E. subst k0. inversion Hg; subst. left; reflexivity.
    - right. apply IH. exact Hg. }
  unfold kall in Hall. rewrite Forall_forall in Hall. destruct (Hall _ Hin) as (v' & ct' & dn' & dl' & l & e & Ek & Hgq & Hine & Hv & Hd).
  cbn [fst] in Ek. inversion Ek; subst v' ct' dn' dl'. exists l, e. repeat split; auto.
  destruct His as (_ & _ & Hb). destruct (kall_kget _ _ _ _ Hb Hgq) as (ct0 & dl0 & Ek0 & Hok). inversion Ek0; subst ct0 dl0.
  rewrite Forall_forall in Hok. exact (proj1 (Hok e Hine)).
Qed.
(* ... and no bucket of the queue is empty *)
Theorem no_empty_bucket h k l : kget (undelq (run init_state h)) k = Some l -> l <> [].
Proof.
  intros Hg. destruct (run_CS h init_state CS_init) as [_ (_ & _ & _ & Hne)]. exact (kall_kget _ _ _ _ Hne Hg).
Qed.

(* ---------- redelegation records are filed under their own fields ---------- *)
From Alliance.Proofs Require Import Genesis.
Definition RK (s : State) : Prop := kall redel_key_ok (redels s).
Lemma RK_f : forall s s', redels s' = redels s -> RK s -> RK s'.
Proof. unfold RK; intros s s' E H; rewrite E; exact H. Qed.
Lemma rk_add_redelegation del src dst dn amt ct : inv RK (add_redelegation del src dst dn amt ct).
Proof.
  unfold add_redelegation. apply inv_bind; [|intros _; inv_deep RK_f].
  apply inv_modify. intros s Hs. unfold RK in *. cbn [redels set_redels set_redelidx].
  apply kall_kset; [exact Hs|].
  destruct (kget (redels s) [del; dn; dst; ct]) as [r|] eqn:E.
  - destruct (kall_kget _ _ _ _ Hs E) as (ct' & Ek). inversion Ek. exists ct. destruct r; cbn in *. congruence.
  - exists ct. reflexivity.
Qed.
Ltac rk_step :=
  first
    [ lazymatch goal with
      | |- inv _ (add_redelegation _ _ _ _ _ _) => apply rk_add_redelegation
      | |- inv RK (modify _) =>
        first [ apply inv_modify; let s := fresh "s" in let Hs := fresh "Hs" in
                intros s Hs; apply (RK_f s); [reflexivity | exact Hs]
              | apply inv_modify; let s := fresh "s" in let Hs := fresh "Hs" in
                intros s Hs; unfold RK in *; cbn; apply kall_kdel; exact Hs ]
      end
    | inv_step
    | lazymatch goal with |- inv _ ?m => let h := head_of m in unfold h end ].
Ltac rk_auto := repeat rk_step.
Lemma RK_end_blocker : inv RK end_blocker.                              Proof. rk_auto. Qed.
Lemma RK_msg_delegate a b c d : inv RK (msg_delegate a b c d).          Proof. rk_auto. Qed.
Lemma RK_msg_undelegate a b c d : inv RK (msg_undelegate a b c d).      Proof. rk_auto. Qed.
Lemma RK_msg_redelegate a b c d e : inv RK (msg_redelegate a b c d e).  Proof. rk_auto. Qed.
Lemma RK_msg_claim a b c : inv RK (msg_claim a b c).                    Proof. rk_auto. Qed.
Lemma RK_msg_create m : inv RK (msg_create_alliance m).                 Proof. rk_auto. Qed.
Lemma RK_msg_update m : inv RK (msg_update_alliance m).                 Proof. rk_auto. Qed.
Lemma RK_msg_delete a b : inv RK (msg_delete_alliance a b).             Proof. rk_auto. Qed.
Lemma RK_msg_params a b c d : inv RK (msg_update_params a b c d).       Proof. rk_auto. Qed.
Lemma RK_hook_slash v f : inv RK (hook_slash v f).                      Proof. rk_auto. Qed.

Theorem step_RK s o : RK s -> RK (fst (step s o)).
Proof.
  intros Hs. assert (W : forall (m : M unit), inv RK m -> RK (fst (clear_oracle (tx m s))) /\ RK (fst (clear_oracle (hook m s))) /\ RK (fst (clear_oracle (endblock m s)))).
  { intros m Hm. specialize (Hm s Hs). unfold tx, hook, endblock, clear_oracle. destruct (m s) as [[] s'|e s'|e s']; cbn; repeat split; auto. }
  destruct o; cbn [step fst]; try exact Hs.
  - apply (W _ RK_end_blocker).
  - apply (W _ (RK_msg_delegate _ _ _ _)).
  - apply (W _ (RK_msg_undelegate _ _ _ _)).
  - apply (W _ (RK_msg_redelegate _ _ _ _ _)).
  - apply (W _ (RK_msg_claim _ _ _)).
  - apply (W _ (RK_msg_create _)).
  - apply (W _ (RK_msg_update _)).
  - apply (W _ (RK_msg_delete _ _)).
  - apply (W _ (RK_msg_params _ _ _ _)).
  - apply (W _ (RK_hook_slash _ _)).
  - eapply RK_f; [|exact Hs].
    match goal with |- redels (fold_left _ ?ss (fold_left _ ?bs s)) = _ => generalize bs, ss end.
    intros bs ss. generalize s. induction bs as [|b bs IHb]; intros st; cbn [fold_left].
    + induction ss as [|x ss IHs] in st |- *; cbn [fold_left]; [reflexivity|]. rewrite IHs. reflexivity.
    + rewrite IHb. reflexivity.
Qed.
Theorem run_RK h : forall s, RK s -> RK (run s h).
Proof. induction h as [|o h IH]; intros s Hs; cbn; [exact Hs | apply IH, step_RK, Hs]. Qed.

(* C18: every reachable state is a well-formed genesis: the round-trip theorem applies to it *)
Theorem reachable_states_are_well_formed h : wf_genesis (run init_state h).
Proof.
  pose proof (reachable_Sorted h) as (_&_&_&_&Hr&_&Hq&_). split; [exact Hr|]. split; [exact Hq|]. split.
  - apply (run_RK h init_state). constructor.
  - destruct (run_CS h init_state CS_init) as [(_ & _ & Hb) (_ & _ & _ & Hne)].
    unfold NE, kall in *. rewrite Forall_forall in Hb, Hne. apply Forall_forall. intros [k l] Hin. cbn [fst snd].
    destruct (Hb _ Hin) as (ct & dl & Ek & Hok). cbn [fst snd] in *. subst k.
    pose proof (Hne _ Hin) as Hl. cbn [snd] in Hl. destruct l as [|e l']; [congruence|].
    exists ct, e, l'. split; [reflexivity|]. inversion Hok as [|? ? Hh Ht]; subst. destruct Hh as [He _]. rewrite He. reflexivity.
Qed.

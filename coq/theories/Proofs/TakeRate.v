(* TakeRate.v — C09: what one take-rate deduction does to each asset, to the
   list of transfers and to the take-rate clock. *)
From Coq Require Import ZArith List Bool Lia.
From Alliance Require Import Num KMap KMapFacts Types Monad Model Step Spec Hoare.
Import ListNotations.
Open Scope Z_scope.

Definition chargeable (t : Z) (a : Asset) : bool :=
  (0 <? a_tokens a) && (0 <? a_take a) && rewards_started a t.

(* one asset: Some (asset afterwards, amount deducted); None = the Power overflow panic *)
Definition take_asset (t n : Z) (a : Asset) : option (Asset * Z) :=
  if chargeable t a then
    match dpow (ONE - a_take a) n with
    | None => None
    | Some m =>
      let na := dmul_int m (a_tokens a) in
      if na <=? ONE then Some (a, 0)
      else if a_tokens a - dtrunc na <? 0 then None
      else Some (set_a_tokens (dtrunc na) a, a_tokens a - dtrunc na)
    end
  else Some (a, 0).

Fixpoint take_all (t n : Z) (als : list Asset) : option (list Asset * Coins * Z) :=
  match als with
  | [] => Some ([], [], 0)
  | a :: r =>
    match take_asset t n a, take_all t n r with
    | Some (a', x), Some (out, coins, cnt) =>
      Some (a' :: out, cadd1 coins (a_denom a) x, (if chargeable t a then 1 else 0) + cnt)
    | _, _ => None
    end
  end.

(* the loop of DeductAssetsWithTakeRate computes, left to right, exactly [take_asset] per asset *)
Lemma take_loop_spec t n als : forall acc s,
  match mfold als acc (fun (acc : list Asset * Coins * Z) a =>
          let '(out, coins, cnt) := acc in
          if (0 <? a_tokens a) && (0 <? a_take a) && rewards_started a t then
            m <- opt_or_panic P_OVERFLOW (dpow (ONE - a_take a) n) ;;
            let na := dmul_int m (a_tokens a) in
            if na <=? ONE then ret (out ++ [a], coins, cnt + 1)
            else
              let a' := set_a_tokens (dtrunc na) a in
              (if a_tokens a - a_tokens a' <? 0 then panic P_NEG_COIN else ret tt) ;;;
              set_asset a' ;;;
              ret (out ++ [a'], cadd1 coins (a_denom a) (a_tokens a - a_tokens a'), cnt + 1)
          else ret (out ++ [a], coins, cnt)) s with
  | Ok r _ => exists out coins cnt, r = (out, coins, cnt) /\
              forall o0 c0 n0, acc = (o0, c0, n0) ->
                exists outs, out = o0 ++ outs /\ length outs = length als /\
                  Forall2 (fun a b => exists x, take_asset t n a = Some (b, x)) als outs
  | _ => True
  end.
Proof.
  induction als as [|a als IH]; intros [[o0 c0] n0] s; cbn [mfold].
  - cbn. do 3 eexists; split; [reflexivity|]. intros ? ? ? E; inversion E; subst.
    exists []; repeat split; [rewrite app_nil_r; reflexivity | constructor].
  - unfold bind at 1. unfold take_asset, chargeable.
    destruct ((0 <? a_tokens a) && (0 <? a_take a) && rewards_started a t) eqn:Ec.
    + unfold bind at 1. destruct (dpow (ONE - a_take a) n) as [m|] eqn:Em; cbn [opt_or_panic ret panic]; [|exact I].
      destruct (dmul_int m (a_tokens a) <=? ONE) eqn:E1.
      * cbn [ret]. specialize (IH (o0 ++ [a], c0, n0 + 1) s). destruct (mfold als _ _ s); auto.
        destruct IH as (out & coins & cnt & -> & IH). do 3 eexists; split; [reflexivity|].
        intros ? ? ? E; inversion E; subst. destruct (IH _ _ _ eq_refl) as (outs & -> & Hl & HF).
        exists (a :: outs); repeat split; [rewrite <- app_assoc; reflexivity | cbn; lia |].
        constructor; [|exact HF]. exists 0. unfold take_asset, chargeable. rewrite Ec, Em, E1. reflexivity.
      * unfold bind at 1. cbn [a_tokens set_a_tokens].
        destruct (a_tokens a - dtrunc (dmul_int m (a_tokens a)) <? 0) eqn:E2; cbn [panic ret]; [exact I|].
        unfold bind at 1. cbn [set_asset modify ret].
        match goal with |- match mfold als ?acc' _ ?s' with _ => _ end => specialize (IH acc' s') end.
        destruct (mfold als _ _ _); auto.
        destruct IH as (out & coins & cnt & -> & IH). do 3 eexists; split; [reflexivity|].
        intros ? ? ? E; inversion E; subst. destruct (IH _ _ _ eq_refl) as (outs & -> & Hl & HF).
        eexists (_ :: outs); repeat split; [rewrite <- app_assoc; reflexivity | cbn; lia |].
        constructor; [|exact HF]. eexists. unfold take_asset, chargeable. rewrite Ec, Em, E1, E2. reflexivity.
    + cbn [ret]. specialize (IH (o0 ++ [a], c0, n0) s). destruct (mfold als _ _ s); auto.
      destruct IH as (out & coins & cnt & -> & IH). do 3 eexists; split; [reflexivity|].
      intros ? ? ? E; inversion E; subst. destruct (IH _ _ _ eq_refl) as (outs & -> & Hl & HF).
      exists (a :: outs); repeat split; [rewrite <- app_assoc; reflexivity | cbn; lia |].
      constructor; [|exact HF]. exists 0. unfold take_asset, chargeable. rewrite Ec. reflexivity.
Qed.

(* numeric content of one charged asset *)
Theorem take_asset_spec t n a b x : take_asset t n a = Some (b, x) ->
  if chargeable t a then
    exists m, dpow (ONE - a_take a) n = Some m /\
      let na := dmul_int m (a_tokens a) in
      (na <= ONE -> b = a /\ x = 0) /\
      (ONE < na -> a_tokens b = na / PREC /\ x = a_tokens a - a_tokens b /\ 0 <= x /\ 1 <= a_tokens b)
  else b = a /\ x = 0.
Proof.
  unfold take_asset. intros Ht. destruct (chargeable t a) eqn:Ec; [|inversion Ht; auto].
  destruct (dpow (ONE - a_take a) n) as [m|] eqn:Em; [|discriminate]. exists m; split; [reflexivity|].
  cbn zeta in *. destruct (dmul_int m (a_tokens a) <=? ONE) eqn:E1.
  - inversion Ht; subst. split; [auto | intros; lia].
  - destruct (a_tokens a - dtrunc (dmul_int m (a_tokens a)) <? 0) eqn:E2; [discriminate|].
    inversion Ht; subst; clear Ht. split; [intros; lia|]. intros Hna. cbn [a_tokens set_a_tokens].
    assert (HP : 0 < PREC) by (unfold PREC; lia).
    assert (Hq : dtrunc (dmul_int m (a_tokens a)) = dmul_int m (a_tokens a) / PREC).
    { unfold dtrunc. apply Z.quot_div_nonneg; unfold ONE in *; lia. }
    rewrite Hq in *. repeat split; try lia.
    apply Z.div_le_lower_bound; unfold ONE in *; lia.
Qed.

(* the clock: n whole intervals, never past the block time *)
Lemma take_clock t last iv : 0 < iv -> last + iv < t ->
  let n := Z.quot (t - last) iv in 1 <= n /\ last + iv * n <= t /\ t < last + iv * n + iv.
Proof.
  intros Hiv Hdue n. subst n. rewrite Z.quot_div_nonneg by lia.
  pose proof (Z.div_mod (t - last) iv ltac:(lia)) as Hdm.
  pose proof (Z.mod_pos_bound (t - last) iv Hiv) as Hmod.
  assert (1 <= (t - last) / iv) by (apply Z.div_le_lower_bound; lia).
  lia.
Qed.

(* gating: before its start time, at rate zero, or with nothing staked an asset is never charged *)
Theorem take_gating t n a : chargeable t a = false -> take_asset t n a = Some (a, 0).
Proof. unfold take_asset; intros ->; reflexivity. Qed.
Theorem not_started_not_chargeable t a : rewards_started a t = false -> chargeable t a = false.
Proof. unfold chargeable; intros ->; rewrite andb_false_r; reflexivity. Qed.
Theorem zero_rate_not_chargeable t a : a_take a = 0 -> chargeable t a = false.
Proof. unfold chargeable; intros ->; cbn. rewrite andb_false_r; reflexivity. Qed.

(* the hook fires only strictly after clock + interval, and the first call only starts the clock *)
Theorem hook_not_due als s : now s <= p_last (params s) + p_interval (params s) ->
  deduct_assets_hook als s = Ok als s.
Proof.
  intros H. unfold deduct_assets_hook, bind, gets.
  assert (E : p_last (params s) + p_interval (params s) <? now s = false) by (apply Z.ltb_ge; lia).
  rewrite E. reflexivity.
Qed.
Theorem first_call_only_starts_clock als s :
  deduct_take_rate ZERO_TIME als s = Ok als (set_params (set_p_last (now s) (params s)) s).
Proof. unfold deduct_take_rate, bind, gets. cbn. reflexivity. Qed.

(* ---------- the clock, exactly (never retroactive) ---------- *)
Definition take_body (t n : Z) (acc : list Asset * Coins * Z) (a : Asset) : M (list Asset * Coins * Z) :=
  let '(out, coins, cnt) := acc in
  if (0 <? a_tokens a) && (0 <? a_take a) && rewards_started a t then
    m <- opt_or_panic P_OVERFLOW (dpow (ONE - a_take a) n) ;;
    let na := dmul_int m (a_tokens a) in
    if na <=? ONE then ret (out ++ [a], coins, cnt + 1)
    else
      let a' := set_a_tokens (dtrunc na) a in
      (if a_tokens a - a_tokens a' <? 0 then panic P_NEG_COIN else ret tt) ;;;
      set_asset a' ;;;
      ret (out ++ [a'], cadd1 coins (a_denom a) (a_tokens a - a_tokens a'), cnt + 1)
  else ret (out ++ [a], coins, cnt).

(* nothing chargeable: the loop is the identity *)
Lemma take_loop_idle t n als : Forall (fun a => chargeable t a = false) als ->
  forall o0 c0 n0 s, mfold als (o0, c0, n0) (take_body t n) s = Ok (o0 ++ als, c0, n0) s.
Proof.
  induction 1 as [|a als Ha _ IH]; intros o0 c0 n0 s; cbn [mfold]; [rewrite app_nil_r; reflexivity|].
  unfold bind at 1. unfold take_body at 1. unfold chargeable in Ha. rewrite Ha. cbn [ret].
  rewrite IH. rewrite <- app_assoc. reflexivity.
Qed.

Definition cpos (c : Coins) : Prop := Forall (fun da => 0 < snd da) c.
Lemma cadd1_pos c d x : cpos c -> 0 < x -> cpos (cadd1 c d x) /\ cadd1 c d x <> [].
Proof.
  intros Hc Hx. induction Hc as [|[d' a'] c Ha Hc IH]; cbn [cadd1].
  - assert (E : x =? 0 = false) by (apply Z.eqb_neq; lia). rewrite E. split; [repeat constructor; exact Hx | discriminate].
  - cbn [snd] in Ha. destruct (d <? d').
    + assert (E : x =? 0 = false) by (apply Z.eqb_neq; lia). rewrite E.
      split; [constructor; [exact Hx | constructor; assumption] | discriminate].
    + destruct (d =? d').
      * assert (E : x + a' =? 0 = false) by (apply Z.eqb_neq; lia). rewrite E.
        split; [constructor; [cbn; lia | exact Hc] | discriminate].
      * split; [constructor; [exact Ha | apply IH] | discriminate].
Qed.
Lemma set_tokens_same a : set_a_tokens (a_tokens a) a = a.
Proof. destruct a; reflexivity. Qed.

Definition pnow (s : State) := (params s, now s).
Lemma take_loop_charged t n als : forall o0 c0 n0 s, cpos c0 ->
  match mfold als (o0, c0, n0) (take_body t n) s with
  | Ok (out, coins, cnt) s' =>
    pnow s' = pnow s /\ cpos coins /\ n0 <= cnt /\ (c0 <> [] -> coins <> []) /\
    exists outs, out = o0 ++ outs /\ (outs <> als -> coins <> [] /\ n0 < cnt)
  | _ => True
  end.
Proof.
  induction als as [|a als IH]; intros o0 c0 n0 s Hc0; cbn [mfold].
  - cbn. repeat split; auto; try lia. exists []; split; [rewrite app_nil_r; reflexivity | intros H; congruence].
  - unfold bind at 1. unfold take_body at 1.
    destruct ((0 <? a_tokens a) && (0 <? a_take a) && rewards_started a t).
    + unfold bind at 1. destruct (dpow (ONE - a_take a) n) as [m|]; cbn [opt_or_panic ret panic]; [|exact I].
      destruct (dmul_int m (a_tokens a) <=? ONE).
      * cbn [ret]. specialize (IH (o0 ++ [a]) c0 (n0 + 1) s Hc0).
        destruct (mfold als _ _ s) as [[[out coins] cnt] s'| |]; auto.
        destruct IH as (Hp & Hc & Hn & Hne & outs & -> & Hd).
        repeat split; auto; try lia. exists (a :: outs). split; [rewrite <- app_assoc; reflexivity|].
        intros Hdiff. assert (outs <> als) by congruence. destruct (Hd H); split; [assumption | lia].
      * unfold bind at 1. cbn [a_tokens set_a_tokens].
        set (x := a_tokens a - dtrunc (dmul_int m (a_tokens a))).
        destruct (x <? 0) eqn:Ex; cbn [panic ret]; [exact I|]. apply Z.ltb_ge in Ex.
        unfold bind at 1. unfold set_asset at 1, modify. cbn [ret].
        match goal with |- match mfold als ?acc' _ ?s1 with _ => _ end => set (s1' := s1) end.
        destruct (Z.eq_dec x 0) as [E0|Hx].
        -- (* nothing was actually deducted: the record is rewritten as it was *)
           assert (Hsame : set_a_tokens (dtrunc (dmul_int m (a_tokens a))) a = a).
           { replace (dtrunc (dmul_int m (a_tokens a))) with (a_tokens a) by (subst x; lia). apply set_tokens_same. }
           assert (Hc1 : cpos (cadd1 c0 (a_denom a) x)).
           { rewrite E0. clear - Hc0. induction Hc0 as [|[d' a'] c Ha Hc IH]; cbn [cadd1]; [constructor|].
             cbn [snd] in Ha. destruct (a_denom a <? d'); [constructor; assumption|].
             destruct (a_denom a =? d') eqn:E; [|constructor; assumption].
             assert (E1 : 0 + a' =? 0 = false) by (apply Z.eqb_neq; lia). rewrite E1. constructor; [cbn; lia | exact Hc]. }
           specialize (IH (o0 ++ [set_a_tokens (dtrunc (dmul_int m (a_tokens a))) a]) (cadd1 c0 (a_denom a) x) (n0 + 1) s1' Hc1).
           destruct (mfold als _ _ s1') as [[[out coins] cnt] s'| |]; auto.
           destruct IH as (Hp & Hc & Hn & Hne & outs & -> & Hd).
           split; [exact Hp|]. split; [exact Hc|]. split; [lia|]. split.
           { intros H0. apply Hne. rewrite E0. clear - Hc0 H0. destruct Hc0 as [|[d' a'] c Ha Hc]; [congruence|]. cbn [cadd1].
             cbn [snd] in Ha. destruct (a_denom a <? d'); [discriminate|]. destruct (a_denom a =? d'); [|discriminate].
             assert (E1 : 0 + a' =? 0 = false) by (apply Z.eqb_neq; lia). rewrite E1. discriminate. }
           exists (set_a_tokens (dtrunc (dmul_int m (a_tokens a))) a :: outs). split; [rewrite <- app_assoc; reflexivity|].
           intros Hdiff. rewrite Hsame in Hdiff. assert (outs <> als) by congruence. destruct (Hd H); split; [assumption | lia].
        -- destruct (cadd1_pos c0 (a_denom a) x Hc0 ltac:(lia)) as [Hc1 Hne1].
           specialize (IH (o0 ++ [set_a_tokens (dtrunc (dmul_int m (a_tokens a))) a]) (cadd1 c0 (a_denom a) x) (n0 + 1) s1' Hc1).
           destruct (mfold als _ _ s1') as [[[out coins] cnt] s'| |]; auto.
           destruct IH as (Hp & Hc & Hn & Hne & outs & -> & Hd).
           split; [exact Hp|]. split; [exact Hc|]. split; [lia|]. split; [intros _; apply Hne; exact Hne1|].
           eexists (_ :: outs). split; [rewrite <- app_assoc; reflexivity|].
           intros _. split; [apply Hne; exact Hne1 | lia].
    + cbn [ret]. specialize (IH (o0 ++ [a]) c0 n0 s Hc0).
      destruct (mfold als _ _ s) as [[[out coins] cnt] s'| |]; auto.
      destruct IH as (Hp & Hc & Hn & Hne & outs & -> & Hd).
      repeat split; auto. exists (a :: outs). split; [rewrite <- app_assoc; reflexivity|].
      intros Hdiff. assert (outs <> als) by congruence. exact (Hd H).
Qed.

Lemma deduct_unfold last als :
  deduct_take_rate last als =
  (t <- gets now ;;
   if last =? ZERO_TIME then set_last_claim t ;;; ret als
   else
     iv <- gets (fun s => p_interval (params s)) ;;
     if iv =? 0 then panic P_DIV_ZERO_INTERVAL
     else
       let n := Z.quot (t - last) iv in
       '(als', coins, cnt) <- mfold als ([], [], 0) (take_body t n) ;;
       if cnt =? 0 then set_last_claim t ;;; ret als'
       else if negb (length coins =? 0)%nat then
         bank_send ACC_ALLIANCE ACC_FEE coins ;;;
         set_last_claim (last + iv * n) ;;;
         ret als'
       else ret als').
Proof. reflexivity. Qed.

(* while nothing is chargeable the clock follows the block time: stake deposited later is not
   charged for the idle intervals *)
Theorem idle_clock_follows_block_time last als s :
  last <> ZERO_TIME -> p_interval (params s) <> 0 ->
  Forall (fun a => chargeable (now s) a = false) als ->
  deduct_take_rate last als s = Ok als (set_params (set_p_last (now s) (params s)) s).
Proof.
  intros Hl Hiv Hidle. rewrite deduct_unfold. unfold bind at 1, gets at 1.
  apply Z.eqb_neq in Hl; rewrite Hl. unfold bind at 1, gets at 1. apply Z.eqb_neq in Hiv; rewrite Hiv.
  cbv zeta. unfold bind at 1. rewrite (take_loop_idle (now s) _ als Hidle [] [] 0 s). cbn [app].
  cbn. reflexivity.
Qed.

Lemma params_bank_send p0 a b c : inv (fun s => pnow s = p0) (bank_send a b c).
Proof. inv_deep (fun s s' (E : pnow s' = pnow s) (H : pnow s = p0) => eq_trans E H). Qed.

(* whenever the deduction changes an asset record, the clock moves by exactly the n whole
   intervals charged *)
Theorem charged_clock_moves_whole_intervals last als s out s' :
  last <> ZERO_TIME -> deduct_take_rate last als s = Ok out s' -> out <> als ->
  p_last (params s') = last + p_interval (params s) * Z.quot (now s - last) (p_interval (params s)).
Proof.
  intros Hl Hrun Hdiff. rewrite deduct_unfold in Hrun. unfold bind at 1, gets at 1 in Hrun.
  apply Z.eqb_neq in Hl; rewrite Hl in Hrun. unfold bind at 1, gets at 1 in Hrun.
  destruct (p_interval (params s) =? 0); [discriminate|]. cbv zeta in Hrun. unfold bind at 1 in Hrun.
  pose proof (take_loop_charged (now s) (Z.quot (now s - last) (p_interval (params s))) als [] [] 0 s ltac:(constructor)) as L.
  destruct (mfold als _ _ s) as [[[out' coins] cnt] s1| |]; try discriminate.
  destruct L as (Hp & _ & _ & _ & outs & Ho & Hd). cbn [app] in Ho. subst out'.
  destruct (cnt =? 0) eqn:Ec.
  - unfold set_last_claim, bind, modify in Hrun. cbn in Hrun. inversion Hrun; subst. destruct (Hd Hdiff) as [_ Hlt]. apply Z.eqb_eq in Ec. lia.
  - destruct (negb (length coins =? 0)%nat) eqn:El.
    + unfold bind at 1 in Hrun.
      pose proof (params_bank_send (pnow s1) ACC_ALLIANCE ACC_FEE coins s1 eq_refl) as B.
      destruct (bank_send ACC_ALLIANCE ACC_FEE coins s1) as [[] s2| |]; try discriminate.
      unfold set_last_claim, bind, modify in Hrun. cbn in Hrun. inversion Hrun; subst. cbn [params set_params p_last set_p_last].
      reflexivity.
    + cbn in Hrun. inversion Hrun; subst. destruct (Hd Hdiff) as [Hne _].
      destruct coins; [congruence | discriminate].
Qed.

(* ---------- proportional: a deduction changes nothing but the staked totals ---------- *)
(* an asset leaves a deduction with every field but the staked total as it was *)
Theorem take_asset_touches_only_the_total t n a b x : take_asset t n a = Some (b, x) -> set_a_tokens (a_tokens a) b = a.
Proof.
  unfold take_asset. destruct (chargeable t a); [|intros H; inversion H; subst; apply set_tokens_same].
  destruct (dpow (ONE - a_take a) n) as [m|]; [|discriminate].
  destruct (dmul_int m (a_tokens a) <=? ONE); [intros H; inversion H; subst; apply set_tokens_same|].
  destruct (a_tokens a - dtrunc (dmul_int m (a_tokens a)) <? 0); [discriminate|].
  intros H; inversion H; subst. destruct a; reflexivity.
Qed.

(* delegation records and validator records (hence every position's shares and every validator's share of
   the asset) are not touched: each position keeps its fraction of the asset, whose total alone shrinks *)
Definition pos_proj (s : State) := (delegations s, valinfos s).
Lemma deduct_keeps_positions x als : inv (fun s => pos_proj s = x) (deduct_assets_hook als).
Proof. inv_deep (fun s s' (E : pos_proj s' = pos_proj s) (H : pos_proj s = x) => eq_trans E H). Qed.
Theorem take_rate_keeps_every_position_and_share als s out s' :
  deduct_assets_hook als s = Ok out s' -> delegations s' = delegations s /\ valinfos s' = valinfos s.
Proof.
  intros Hrun. pose proof (deduct_keeps_positions (pos_proj s) als s eq_refl) as H. rewrite Hrun in H.
  unfold pos_proj in H. inversion H. auto.
Qed.

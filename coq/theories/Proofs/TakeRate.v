(* TakeRate.v — C09: what one take-rate deduction does to each asset, to the
   list of transfers and to the take-rate clock. *)
From Coq Require Import ZArith List Bool Lia.
From Alliance Require Import Num KMap KMapFacts Types Monad Model Step Spec Hoare.
Import ListNotations.
Open Scope Z_scope.

Definition chargeable (t : Z) (a : Asset) : bool :=
  (0 <? a_tokens a) && (0 <? a_take a) && rewards_started a t.

(* one asset: Some (asset afterwards, amount deducted); None = the Power overflow panic *)
Definition take_asset (t n : Z) (a : Asset) : option (Asset * Z) :=
  if chargeable t a then
    match dpow (ONE - a_take a) n with
    | None => None
    | Some m =>
      let na := dmul_int m (a_tokens a) in
      if na <=? ONE then Some (a, 0)
      else if a_tokens a - dtrunc na <? 0 then None
      else Some (set_a_tokens (dtrunc na) a, a_tokens a - dtrunc na)
    end
  else Some (a, 0).

Fixpoint take_all (t n : Z) (als : list Asset) : option (list Asset * Coins * Z) :=
  match als with
  | [] => Some ([], [], 0)
  | a :: r =>
    match take_asset t n a, take_all t n r with
    | Some (a', x), Some (out, coins, cnt) =>
      Some (a' :: out, cadd1 coins (a_denom a) x, (if chargeable t a then 1 else 0) + cnt)
    | _, _ => None
    end
  end.

(* the loop of DeductAssetsWithTakeRate computes, left to right, exactly [take_asset] per asset *)
Lemma take_loop_spec t n als : forall acc s,
  match mfold als acc (fun (acc : list Asset * Coins * Z) a =>
          let '(out, coins, cnt) := acc in
          if (0 <? a_tokens a) && (0 <? a_take a) && rewards_started a t then
            m <- opt_or_panic P_OVERFLOW (dpow (ONE - a_take a) n) ;;
            let na := dmul_int m (a_tokens a) in
            if na <=? ONE then ret (out ++ [a], coins, cnt + 1)
            else
              let a' := set_a_tokens (dtrunc na) a in
              (if a_tokens a - a_tokens a' <? 0 then panic P_NEG_COIN else ret tt) ;;;
              set_asset a' ;;;
              ret (out ++ [a'], cadd1 coins (a_denom a) (a_tokens a - a_tokens a'), cnt + 1)
          else ret (out ++ [a], coins, cnt)) s with
  | Ok r _ => exists out coins cnt, r = (out, coins, cnt) /\
              forall o0 c0 n0, acc = (o0, c0, n0) ->
                exists outs, out = o0 ++ outs /\ length outs = length als /\
                  Forall2 (fun a b => exists x, take_asset t n a = Some (b, x)) als outs
  | _ => True
  end.
Proof.
  induction als as [|a als IH]; intros [[o0 c0] n0] s; cbn [mfold].
  - cbn. do 3 eexists; split; [reflexivity|]. intros ? ? ? E; inversion E; subst.
    exists []; repeat split; [rewrite app_nil_r; reflexivity | constructor].
  - unfold bind at 1. unfold take_asset, chargeable.
    destruct ((0 <? a_tokens a) && (0 <? a_take a) && rewards_started a t) eqn:Ec.
    + unfold bind at 1. destruct (dpow (ONE - a_take a) n) as [m|] eqn:Em; cbn [opt_or_panic ret panic]; [|exact I].
      destruct (dmul_int m (a_tokens a) <=? ONE) eqn:E1.
      * cbn [ret]. specialize (IH (o0 ++ [a], c0, n0 + 1) s). destruct (mfold als _ _ s); auto.
        destruct IH as (out & coins & cnt & -> & IH). do 3 eexists; split; [reflexivity|].
        intros ? ? ? E; inversion E; subst. destruct (IH _ _ _ eq_refl) as (outs & -> & Hl & HF).
        exists (a :: outs); repeat split; [rewrite <- app_assoc; reflexivity | cbn; lia |].
        constructor; [|exact HF]. exists 0. unfold take_asset, chargeable. rewrite Ec, Em, E1. reflexivity.
      * unfold bind at 1. cbn [a_tokens set_a_tokens].
        destruct (a_tokens a - dtrunc (dmul_int m (a_tokens a)) <? 0) eqn:E2; cbn [panic ret]; [exact I|].
        unfold bind at 1. cbn [set_asset modify ret].
        match goal with |- match mfold als ?acc' _ ?s' with _ => _ end => specialize (IH acc' s') end.
        destruct (mfold als _ _ _); auto.
        destruct IH as (out & coins & cnt & -> & IH). do 3 eexists; split; [reflexivity|].
        intros ? ? ? E; inversion E; subst. destruct (IH _ _ _ eq_refl) as (outs & -> & Hl & HF).
        eexists (_ :: outs); repeat split; [rewrite <- app_assoc; reflexivity | cbn; lia |].
        constructor; [|exact HF]. eexists. unfold take_asset, chargeable. rewrite Ec, Em, E1, E2. reflexivity.
    + cbn [ret]. specialize (IH (o0 ++ [a], c0, n0) s). destruct (mfold als _ _ s); auto.
      destruct IH as (out & coins & cnt & -> & IH). do 3 eexists; split; [reflexivity|].
      intros ? ? ? E; inversion E; subst. destruct (IH _ _ _ eq_refl) as (outs & -> & Hl & HF).
      exists (a :: outs); repeat split; [rewrite <- app_assoc; reflexivity | cbn; lia |].
      constructor; [|exact HF]. exists 0. unfold take_asset, chargeable. rewrite Ec. reflexivity.
Qed.

(* numeric content of one charged asset *)
Theorem take_asset_spec t n a b x : take_asset t n a = Some (b, x) ->
  if chargeable t a then
    exists m, dpow (ONE - a_take a) n = Some m /\
      let na := dmul_int m (a_tokens a) in
      (na <= ONE -> b = a /\ x = 0) /\
      (ONE < na -> a_tokens b = na / PREC /\ x = a_tokens a - a_tokens b /\ 0 <= x /\ 1 <= a_tokens b)
  else b = a /\ x = 0.
Proof.
  unfold take_asset. intros Ht. destruct (chargeable t a) eqn:Ec; [|inversion Ht; auto].
  destruct (dpow (ONE - a_take a) n) as [m|] eqn:Em; [|discriminate]. exists m; split; [reflexivity|].
  cbn zeta in *. destruct (dmul_int m (a_tokens a) <=? ONE) eqn:E1.
  - inversion Ht; subst. split; [auto | intros; lia].
  - destruct (a_tokens a - dtrunc (dmul_int m (a_tokens a)) <? 0) eqn:E2; [discriminate|].
    inversion Ht; subst; clear Ht. split; [intros; lia|]. intros Hna. cbn [a_tokens set_a_tokens].
    assert (HP : 0 < PREC) by (unfold PREC; lia).
    assert (Hq : dtrunc (dmul_int m (a_tokens a)) = dmul_int m (a_tokens a) / PREC).
    { unfold dtrunc. apply Z.quot_div_nonneg; unfold ONE in *; lia. }
    rewrite Hq in *. repeat split; try lia.
    apply Z.div_le_lower_bound; unfold ONE in *; lia.
Qed.

(* the clock: n whole intervals, never past the block time *)
Lemma take_clock t last iv : 0 < iv -> last + iv < t ->
  let n := Z.quot (t - last) iv in 1 <= n /\ last + iv * n <= t /\ t < last + iv * n + iv.
Proof.
  intros Hiv Hdue n. subst n. rewrite Z.quot_div_nonneg by lia.
  pose proof (Z.div_mod (t - last) iv ltac:(lia)) as Hdm.
  pose proof (Z.mod_pos_bound (t - last) iv Hiv) as Hmod.
  assert (1 <= (t - last) / iv) by (apply Z.div_le_lower_bound; lia).
  lia.
Qed.

(* gating: before its start time, at rate zero, or with nothing staked an asset is never charged *)
Theorem take_gating t n a : chargeable t a = false -> take_asset t n a = Some (a, 0).
Proof. unfold take_asset; intros ->; reflexivity. Qed.
Theorem not_started_not_chargeable t a : rewards_started a t = false -> chargeable t a = false.
Proof. unfold chargeable; intros ->; rewrite andb_false_r; reflexivity. Qed.
Theorem zero_rate_not_chargeable t a : a_take a = 0 -> chargeable t a = false.
Proof. unfold chargeable; intros ->; cbn. rewrite andb_false_r; reflexivity. Qed.

(* the hook fires only strictly after clock + interval, and the first call only starts the clock *)
Theorem hook_not_due als s : now s <= p_last (params s) + p_interval (params s) ->
  deduct_assets_hook als s = Ok als s.
Proof.
  intros H. unfold deduct_assets_hook, bind, gets.
  assert (E : p_last (params s) + p_interval (params s) <? now s = false) by (apply Z.ltb_ge; lia).
  rewrite E. reflexivity.
Qed.
Theorem first_call_only_starts_clock als s :
  deduct_take_rate ZERO_TIME als s = Ok als (set_params (set_p_last (now s) (params s)) s).
Proof. unfold deduct_take_rate, bind, gets. cbn. reflexivity. Qed.

(* CustodyClosed.v — C01 without the C03 hypothesis.  Custody.v assumes of a DeleteAlliance step that the
   asset deleted has a non-negative staked total.  TokensNonneg.v proves that no stored asset ever has a
   negative total (since fix 714c18a), so the assumption is discharged: what is left to assume of a
   history is about the environment (third parties, genesis, the distribution oracle), the custody
   account not signing delegations, and slash callbacks that return an error (C08). *)
From Coq Require Import ZArith List Bool Lia.
From Alliance Require Import Num KMap KMapFacts Types Monad Model Step Spec Hoare.
From Alliance.Proofs Require Import Custody TokensNonneg.
Import ListNotations.
Open Scope Z_scope.

Section Denom.
  Variable d : Z.
  Hypothesis Hd : d <> BOND_DENOM.

  (* the admissibility of Custody.v minus its condition on DeleteAlliance; genesis assets are valid
     and start with a non-negative total *)
  Definition adm0 (s : State) (o : Op) : Prop :=
    match o with
    | ODeleteAlliance _ _ => True
    | EGenesisAsset a => adm d s o /\ AV a
    | _ => adm d s o
    end.
  Fixpoint adm0_run (s : State) (h : list Op) : Prop :=
    match h with
    | [] => True
    | o :: h' => adm0 s o /\ adm0_run (fst (step s o)) h'
    end.

  Lemma adm0_adm s o : J s -> adm0 s o -> adm d s o /\ op_ok o.
  Proof.
    intros Hs Ha. destruct o; cbn [adm0 adm op_ok] in *; try (split; [exact Ha | exact I]).
    - split; [apply J_staked_total; exact Hs | exact I].
    - exact Ha.
  Qed.

  Lemma adm0_run_adm h : forall s, J s -> adm0_run s h -> adm_run d s h.
  Proof.
    induction h as [|o h IH]; intros s Hs Ha; cbn [adm_run adm0_run] in *; [exact I|].
    destruct Ha as [Ha1 Ha2]. destruct (adm0_adm s o Hs Ha1) as [H1 H2].
    split; [exact H1|]. apply IH; [apply step_J; assumption | exact Ha2].
  Qed.

  Theorem custody_never_short_closed h : adm0_run init_state h -> 0 <= slack (run init_state h) d.
  Proof. intros Ha. apply (custody_never_short d Hd). apply adm0_run_adm; [exact J_init | exact Ha]. Qed.

  Theorem custody_margin_kept_closed c h s : Inv s -> J s -> c <= slack s d -> adm0_run s h -> c <= slack (run s h) d.
  Proof. intros Hi Hj Hc Ha. apply (custody_margin_kept d Hd c h s Hi Hc). apply adm0_run_adm; assumption. Qed.
End Denom.

(* ResetAtZero.v — C03, last sentence: "when an asset's staked total returns to zero its validator-share
   records are reset".  The staked total of an asset decreases only in Undelegate (and in the take rate,
   which never reaches zero: TakeRate.v).  Theorem: from every state with sorted maps and assets filed under
   their denom (every reachable state), when an Undelegate message succeeds and leaves the staked total of
   its asset at zero, then in the state after it the asset's total of validator shares is zero and no
   validator carries a validator-share record of that denom — nothing of the finished staking cycle is
   left to be priced into the next one. *)
From Coq Require Import ZArith List Bool Lia.
From Alliance Require Import Num KMap KMapFacts KMapSorted Types Monad Model Step Spec Hoare.
From Alliance.Proofs Require Import SortedInv WellKeyed.
Import ListNotations.
Open Scope Z_scope.

Section Denom.
  Variable dn : Z.

  Definition clean (vi : ValInfo) : Prop := Forall (fun da => fst da <> dn) (vi_vshares vi).
  Definition tokens_at (s : State) : option Z := option_map a_tokens (kget (assets s) [dn]).
  Definition vshares_at (s : State) : option Z := option_map a_vshares (kget (assets s) [dn]).
  Definition all_clean (s : State) : Prop := forall k vi, kget (valinfos s) k = Some vi -> clean vi.
  (* the reset has happened whenever the total is zero *)
  Definition ZP (s : State) : Prop := tokens_at s = Some 0 -> vshares_at s = Some 0 /\ all_clean s.

  Lemma clean_filter vi : clean (set_vi_vshares (filter (fun da => negb (fst da =? dn)) (vi_vshares vi)) vi).
  Proof.
    unfold clean; cbn. induction (vi_vshares vi) as [|da l IH]; cbn; [constructor|].
    destruct (fst da =? dn) eqn:E; cbn; [exact IH|]. constructor; [apply Z.eqb_neq; exact E | exact IH].
  Qed.

  Lemma kget_In {V} (m : KMap V) k v : kget m k = Some v -> In (k, v) m.
  Proof.
    induction m as [|[k' v'] m IH]; cbn; [discriminate|]. destruct (kcmp k k') eqn:E; try discriminate.
    - intros H; inversion H; subst. apply kcmp_eq in E; subst. left; reflexivity.
    - intros H; right; apply IH; exact H.
  Qed.

  (* the walk over the snapshot of the validator records *)
  Definition LoopInv (R : list (Key * ValInfo)) (s : State) : Prop :=
    SortedS s /\ forall k vi, kget (valinfos s) k = Some vi -> clean vi \/ In (k, vi) R.
  Lemma reset_loop : forall R,
    hoare (LoopInv R)
          (mfor R (fun kv =>
             let vi := snd kv in
             modify (fun s => set_valinfos (kset (valinfos s) (fst kv)
                       (set_vi_vshares (filter (fun da => negb (fst da =? dn)) (vi_vshares vi)) vi)) s)))
          (fun _ => LoopInv []) (fun _ => True).
  Proof.
    induction R as [|kv R IH]; cbn [mfor]; [apply hoare_ret; auto|].
    eapply hoare_bind with (Q1 := fun _ => LoopInv R); [|intros ?; exact IH].
    cbv zeta. apply hoare_modify. intros s [Hs H]. split.
    - unfold SortedS in *; cbn. destruct Hs as (?&?&?&?&?&?&?&?&?&?&?&?&?). repeat split; auto using ksorted_kset.
    - intros k vi. cbn. destruct (list_eq_dec Z.eq_dec k (fst kv)) as [->|Hne].
      + rewrite kget_kset_same. intros E; inversion E; subst. left. apply clean_filter.
      + assert (Hv : ksorted (valinfos s)) by (unfold SortedS in Hs; tauto).
        rewrite kget_kset_other by assumption. intros E. destruct (H k vi E) as [Hc|[Heq|Hin]]; [left; exact Hc | | right; exact Hin].
        exfalso. apply Hne. rewrite Heq. reflexivity.
  Qed.

  (* in-memory copy a agrees with the stored asset on the total *)
  Definition P1 (a : Asset) (s : State) : Prop := SortedS s /\ tokens_at s = Some (a_tokens a).
  Definition ZPS (s : State) : Prop := SortedS s /\ ZP s.

  Lemma reset_spec a : a_denom a = dn ->
    hoare (P1 a) (reset_asset_and_validators a) (fun _ => ZPS) (fun _ => True).
  Proof.
    intros Hdn. unfold reset_asset_and_validators, set_asset. rewrite Hdn. destruct (a_tokens a =? 0) eqn:E0; cbn [negb].
    - apply hoare_bind_gets_eq. intros s0 [Hs0 Ht0].
      eapply hoare_bind with (Q1 := fun _ => LoopInv []).
      + eapply hoare_pre; [|apply reset_loop]. intros s ->. split; [exact Hs0|]. intros k vi E. right. apply kget_In; exact E.
      + intros ?. apply hoare_modify. intros s [Hs H]. split.
        * unfold SortedS in *; cbn. destruct Hs as (?&?&?&?&?&?&?&?&?&?&?&?&?). repeat split; auto using ksorted_kset.
        * intros _. split.
          -- unfold vshares_at; cbn. rewrite ?Hdn. rewrite kget_kset_same. reflexivity.
          -- intros k vi Ek. cbn in Ek. destruct (H k vi Ek) as [Hc|[]]. exact Hc.
    - apply hoare_ret. intros s [Hs Ht]. split; [exact Hs|]. intros Hz. rewrite Ht in Hz. inversion Hz as [Hz'].
      apply Z.eqb_neq in E0. contradiction.
  Qed.

  (* frames *)
  Ltac sorted_of_modify :=
    lazymatch goal with
    | |- inv _ (modify ?f) =>
      let H := fresh "Hsrt" in
      assert (H : inv SortedS (modify f)) by srt_leaf
    end.
  Lemma P1_f a : forall s s', maps_of s' = maps_of s -> P1 a s -> P1 a s'.
  Proof.
    intros s s' E [Hs Ht]. split; [apply (Sf s); assumption|].
    assert (Ea : assets s' = assets s) by exact (f_equal (fun t => let '(a,_,_,_,_,_,_,_,_,_,_,_,_) := t in a) E).
    unfold tokens_at. rewrite Ea. exact Ht.
  Qed.
  Lemma ZPS_f : forall s s', maps_of s' = maps_of s -> ZPS s -> ZPS s'.
  Proof.
    intros s s' E [Hs Hz]. split; [apply (Sf s); assumption|].
    assert (Ea : assets s' = assets s) by exact (f_equal (fun t => let '(a,_,_,_,_,_,_,_,_,_,_,_,_) := t in a) E).
    assert (Ev : valinfos s' = valinfos s) by exact (f_equal (fun t => let '(_,v,_,_,_,_,_,_,_,_,_,_,_) := t in v) E).
    unfold ZP, tokens_at, vshares_at, all_clean. rewrite Ea, Ev. exact Hz.
  Qed.

  Lemma hoare_bind_inv_true A B (J : State -> Prop) (m : M A) (f : A -> M B) (Q : B -> State -> Prop) :
    inv J m -> (forall a, hoare J (f a) Q (fun _ => True)) -> hoare J (bind m f) Q (fun _ => True).
  Proof. intros Hm Hf. eapply hoare_bind with (Q1 := fun _ => J); [apply inv_hoare_true; exact Hm | exact Hf]. Qed.

  Ltac keep_leaf :=
    idtac; lazymatch goal with
    | |- inv _ (modify ?f) =>
      let H := fresh "Hsrt" in
      assert (H : inv SortedS (modify f)) by srt_leaf;
      apply inv_modify; let s := fresh "s" in let Hs := fresh "Hs" in let Ht := fresh "Ht" in
      intros s [Hs Ht]; split;
      [ exact (H s Hs)
      | first [ unfold tokens_at in *; cbn; exact Ht
              | unfold ZP, tokens_at, vshares_at, all_clean in *; cbn; exact Ht ] ]
    end.
  Ltac p1 a := inv_deep_with (P1_f a) keep_leaf.
  Ltac zps := inv_deep_with ZPS_f keep_leaf.
  Ltac step_p1 a :=
    eapply hoare_bind with (Q1 := fun _ => P1 a); [apply inv_hoare_true; p1 a | intros ?].

  Lemma clear_dust_spec del v vi a : a_denom a = dn ->
    hoare (P1 a) (clear_dust_delegation del v vi a) (fun _ => ZPS) (fun _ => True).
  Proof.
    intros Hdn. unfold clear_dust_delegation.
    step_p1 a. step_p1 a. cbv zeta. step_p1 a. step_p1 a. step_p1 a. step_p1 a.
    eapply hoare_bind with (Q1 := fun _ => ZPS); [apply reset_spec; exact Hdn | intros ?].
    apply hoare_ret; auto.
  Qed.

  Lemma k_undelegate_spec del v vi amt :
    hoare (fun s => SortedS s /\ WK s) (k_undelegate del v vi dn amt) (fun _ => ZPS) (fun _ => True).
  Proof.
    unfold k_undelegate, get_asset. apply hoare_bind_gets_eq. intros s0 [Hs0 Hw0].
    destruct (kget (assets s0) [dn]) as [a|] eqn:Ea; [|apply hoare_fail; auto].
    assert (Hdn : a_denom a = dn).
    { pose proof (kall_kget _ _ _ _ Hw0 Ea) as H. cbn in H. inversion H; reflexivity. }
    eapply hoare_pre with (P' := SortedS); [intros s ->; exact Hs0|].
    apply hoare_bind_inv_true; [unfold get_delegation; inv_deep Sf|]. intros od.
    destruct od as [d0|]; [|apply hoare_fail; auto].
    apply hoare_bind_inv_true; [srt|]. intros vi1.
    apply hoare_bind_inv_true; [srt|]. intros od1.
    apply hoare_bind_inv_true; [srt|]. intros sh.
    destruct (del_tokens_with_shares sh vi1 a <? 0); [apply hoare_panic; auto|].
    destruct (del_tokens_with_shares sh vi1 a <? amt); [apply hoare_fail; auto|].
    destruct (a_tokens a <? amt); [apply hoare_fail; auto|].
    apply hoare_bind_inv_true; [srt|]. intros vsr. cbv zeta.
    set (a' := set_a_vshares (a_vshares a - vsr) (set_a_tokens (a_tokens a - amt) a)).
    assert (Hdn' : a_denom a' = dn) by exact Hdn.
    eapply hoare_bind with (Q1 := fun _ => P1 a').
    { unfold set_asset. apply hoare_modify. intros s Hs. split.
      - unfold SortedS in *; cbn. destruct Hs as (?&?&?&?&?&?&?&?&?&?&?&?&?). repeat split; auto using ksorted_kset.
      - unfold tokens_at; cbn. rewrite Hdn. rewrite kget_kset_same. reflexivity. }
    intros ?. step_p1 a'. step_p1 a'.
    eapply hoare_bind with (Q1 := fun _ => ZPS); [apply clear_dust_spec; exact Hdn' | intros ?].
    apply inv_hoare_true. zps.
  Qed.
End Denom.

Lemma msg_undelegate_spec del v dn amt :
  hoare (fun s => SortedS s /\ WK s) (msg_undelegate del v dn amt) (fun _ => ZPS dn) (fun _ => True).
Proof.
  unfold msg_undelegate. destruct (amt <=? 0); [apply hoare_fail; auto|].
  eapply hoare_bind with (Q1 := fun _ s => SortedS s /\ WK s).
  - assert (H1 : inv SortedS (get_alliance_validator v)) by srt.
    assert (H2 : inv WK (get_alliance_validator v)) by (inv_deep WKf).
    intros s [Ha Hb]. specialize (H1 s Ha). specialize (H2 s Hb). destruct (get_alliance_validator v s); auto.
  - intros [sv vi]. apply k_undelegate_spec.
Qed.

(* every state with sorted maps and well-keyed assets (every reachable state): a successful Undelegate that
   leaves the asset's staked total at zero leaves no validator-share record of that denom and a zero total
   of validator shares *)
Theorem undelegate_resets_at_zero s del v dn amt : SortedS s -> WK s ->
  let r := step s (OUndelegate del v dn amt) in
  snd r = R_OK ->
  forall a', kget (assets (fst r)) [dn] = Some a' -> a_tokens a' = 0 ->
    a_vshares a' = 0 /\
    forall k vi, kget (valinfos (fst r)) k = Some vi -> Forall (fun da => fst da <> dn) (vi_vshares vi).
Proof.
  intros Hs Hw r Hok a' Ea Ht. subst r. cbn [step] in *.
  pose proof (msg_undelegate_spec del v dn amt s (conj Hs Hw)) as H. unfold tx, clear_oracle in *.
  destruct (msg_undelegate del v dn amt s) as [[] s1|e s1|e s1]; cbn in Hok, Ea |- *;
    try (destruct (negb (length (oracle s) =? 0)%nat); discriminate).
  destruct H as [_ Hz]. unfold ZP, tokens_at, vshares_at, all_clean in Hz. rewrite Ea in Hz. cbn in Hz.
  rewrite Ht in Hz. destruct (Hz eq_refl) as [Hv Hc]. split; [inversion Hv; reflexivity | exact Hc].
Qed.

Theorem reachable_undelegate_resets_at_zero h del v dn amt :
  let s := run init_state h in
  let r := step s (OUndelegate del v dn amt) in
  snd r = R_OK ->
  forall a', kget (assets (fst r)) [dn] = Some a' -> a_tokens a' = 0 ->
    a_vshares a' = 0 /\
    forall k vi, kget (valinfos (fst r)) k = Some vi -> Forall (fun da => fst da <> dn) (vi_vshares vi).
Proof.
  intros s r. apply undelegate_resets_at_zero; [apply reachable_Sorted | apply run_WK; apply kall_nil].
Qed.

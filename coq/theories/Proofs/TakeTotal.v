(* TakeTotal.v — C17: the take-rate leg of EndBlocker cannot fail where custody covers the staked totals.
   1. PowerMut on a base in [0,1] never overflows and stays in [0,1] (any exponent below 2^69).
   2. The per-asset loop therefore never panics (no overflow, no negative coin), and what it collects per
      denom is between 0 and the staked totals of that denom.
   3. The transfer of the collected coins to the fee collector is covered by custody. *)
From Coq Require Import ZArith List Bool Lia.
From Alliance Require Import Num NumFacts KMap KMapFacts KMapSorted CoinFacts Types Monad Model Step Spec Hoare.
From Alliance.Proofs Require Import Misc TakeRate.
Import ListNotations.
Open Scope Z_scope.

Lemma ONE_pos : 0 < ONE.  Proof. reflexivity. Qed.
Lemma unit_fits r : 0 <= r <= ONE -> dec_fits r = true.
Proof. intros H. unfold dec_fits. apply Z.ltb_lt. rewrite Z.abs_eq by lia. assert (ONE < DEC_LIMIT) by reflexivity. lia. Qed.
Lemma dmul_unit a b : 0 <= a <= ONE -> 0 <= b <= ONE -> 0 <= dmul a b <= ONE.
Proof.
  intros Ha Hb. split; [apply dmul_nonneg; lia|].
  assert (dmul a b <= b) by (apply dmul_le_r; lia). lia.
Qed.
Lemma dmul_chk_unit a b : 0 <= a <= ONE -> 0 <= b <= ONE -> exists r, dmul_chk a b = Some r /\ 0 <= r <= ONE.
Proof.
  intros Ha Hb. pose proof (dmul_unit a b Ha Hb) as H. unfold dmul_chk. cbv zeta. rewrite (unit_fits _ H). eauto.
Qed.

Lemma dpow_loop_unit : forall fuel d tmp i, 0 <= d <= ONE -> 0 <= tmp <= ONE -> 0 <= i < 2 ^ Z.of_nat fuel ->
  exists d' tmp', dpow_loop (S fuel) d tmp i = Some (d', tmp') /\ 0 <= d' <= ONE /\ 0 <= tmp' <= ONE.
Proof.
  induction fuel as [|f IH]; intros d tmp i Hd Ht Hi.
  - cbn in Hi. assert (i = 0) by lia. subst. cbn. eauto.
  - remember (S f) as sf. cbn [dpow_loop]. destruct (i <=? 1) eqn:E1; [eauto|]. apply Z.leb_gt in E1.
    assert (Htmp : exists t', (if Z.odd i then dmul_chk tmp d else Some tmp) = Some t' /\ 0 <= t' <= ONE).
    { destruct (Z.odd i); [apply dmul_chk_unit; assumption | eauto]. }
    destruct Htmp as (t' & -> & Ht'). destruct (dmul_chk_unit d d Hd Hd) as (d' & -> & Hd').
    subst sf. apply IH; try assumption. rewrite Nat2Z.inj_succ, Z.pow_succ_r in Hi by lia.
    split; [apply Z.div_pos; lia | apply Z.div_lt_upper_bound; lia].
Qed.

Theorem dpow_unit base n : 0 <= base <= ONE -> 0 <= n < 2 ^ 69 -> exists m, dpow base n = Some m /\ 0 <= m <= ONE.
Proof.
  intros Hb Hn. unfold dpow. destruct (n =? 0); [exists ONE; split; [reflexivity | pose proof ONE_pos; lia]|].
  assert (H1 : 0 <= ONE <= ONE) by (pose proof ONE_pos; lia).
  destruct (dpow_loop_unit 69 base ONE n Hb H1) as (d' & tmp' & E & Hd' & Ht').
  { split; [lia|]. assert (2 ^ 69 = 2 ^ Z.of_nat 69) by (vm_compute; reflexivity). lia. }
  change (dpow_loop 70 base ONE n) with (dpow_loop (S 69) base ONE n). rewrite E.
  apply dmul_chk_unit; assumption.
Qed.

(* ---------- the transfer ---------- *)
Lemma camount_head d x c : camount ((d, x) :: c) d = x.
Proof. cbn. rewrite Z.eqb_refl. reflexivity. Qed.

(* every entry positive and covered by the balance of its denom *)
Lemma bank_sub_total acct : forall c s, csorted c -> ksorted (bank s) ->
  Forall (fun da => 0 < snd da <= bal s acct (fst da)) c ->
  exists s', bank_sub acct c s = Ok tt s'.
Proof.
  unfold bank_sub. induction c as [|[d x] c IH]; intros s Hc Hb Hle; cbn [mfor]; [eauto|].
  destruct (csorted_inv _ _ Hc) as [Hc' Habove]. inversion Hle as [|? ? Hd Hle']; subst. cbn [fst snd] in *.
  unfold bind at 1. unfold bind at 1. unfold gets at 1.
  destruct (bal s acct d <? x) eqn:E; [apply Z.ltb_lt in E; lia|]. cbn [modify].
  apply IH; [exact Hc'| |].
  - unfold put_bal; cbn. match goal with |- context[if ?b then _ else _] => destruct b end; [apply ksorted_kdel | apply ksorted_kset]; exact Hb.
  - rewrite Forall_forall in *. intros [d' x'] Hin. cbn [fst snd]. specialize (Hle' _ Hin). specialize (Habove _ Hin). cbn [fst snd] in *.
    rewrite bal_put_bal_other; [exact Hle' | exact Hb | intros K; inversion K; lia].
Qed.

Lemma bank_add_total acct c s : exists s', bank_add acct c s = Ok tt s'.
Proof.
  unfold bank_add. revert s. induction c as [|da c IH]; intros s; cbn [mfor]; [eauto|].
  unfold bind at 1, modify at 1. apply IH.
Qed.

Lemma bank_send_total a b c s : csorted c -> ksorted (bank s) ->
  Forall (fun da => 0 < snd da <= bal s a (fst da)) c ->
  exists s', bank_send a b c s = Ok tt s'.
Proof.
  intros Hc Hb Hle. unfold bank_send. destruct (bank_sub_total a c s Hc Hb Hle) as (s1 & E1).
  unfold bind. rewrite E1. apply bank_add_total.
Qed.

(* ---------- the per-asset loop ---------- *)
Definition AVt (a : Asset) : Prop := 0 <= a_take a < ONE /\ 0 <= a_tokens a.
Definition tot (als : list Asset) (d : Z) : Z :=
  fold_right (fun a acc => (if a_denom a =? d then a_tokens a else 0) + acc) 0 als.

Lemma dtrunc_le m T : 0 <= m <= ONE -> 0 <= T -> 0 <= dtrunc (dmul_int m T) <= T.
Proof.
  intros Hm HT. unfold dmul_int. assert (H0 : 0 <= m * T) by nia.
  pose proof (dtrunc_bounds (m * T) H0) as [H1 H2]. unfold ONE in Hm. pose proof PREC_pos. split; nia.
Qed.

Lemma cadd1_zero c d : cpos c -> cadd1 c d 0 = c.
Proof.
  intros Hc. induction Hc as [|[d' a'] c Ha Hc IH]; cbn [cadd1]; [reflexivity|]. cbn [snd] in Ha.
  destruct (d <? d'); [reflexivity|]. destruct (d =? d') eqn:E.
  - apply Z.eqb_eq in E; subst. assert (E0 : 0 + a' =? 0 = false) by (apply Z.eqb_neq; lia). rewrite E0. reflexivity.
  - rewrite IH. reflexivity.
Qed.
Lemma cadd1_keys c d x k : In k (map fst (cadd1 c d x)) -> k = d \/ In k (map fst c).
Proof.
  induction c as [|[d' a'] c IH]; cbn [cadd1].
  - destruct (x =? 0); cbn; intuition congruence.
  - destruct (d <? d'); [destruct (x =? 0); cbn; intuition congruence|].
    destruct (d =? d') eqn:E.
    + apply Z.eqb_eq in E; subst. destruct (x + a' =? 0); cbn; intuition congruence.
    + cbn. intros [H|H]; [tauto | destruct (IH H); tauto].
Qed.
Lemma camount_in c d x : csorted c -> In (d, x) c -> camount c d = x.
Proof.
  induction c as [|[d' a'] c IH]; intros Hc Hin; [contradiction|]. destruct (csorted_inv _ _ Hc) as [Hc' Habove].
  destruct Hin as [E|Hin]; [inversion E; subst; apply camount_head|].
  cbn. rewrite Forall_forall in Habove. specialize (Habove _ Hin). cbn in Habove.
  destruct (d =? d') eqn:E; [apply Z.eqb_eq in E; lia | apply IH; assumption].
Qed.

(* D: the denoms for which the bound B is known; the assets still to be processed have their denom in D *)
Lemma take_loop_total t n (B : Z -> Z) (D : list Z) : 0 <= n < 2 ^ 69 ->
  forall als out coins cnt s, Forall AVt als -> Forall (fun a => In (a_denom a) D) als ->
  csorted coins -> cpos coins -> (forall k, In k (map fst coins) -> In k D) ->
  (forall d, In d D -> camount coins d + tot als d <= B d) ->
  exists out' coins' cnt' s', mfold als (out, coins, cnt) (take_body t n) s = Ok (out', coins', cnt') s' /\
    bank s' = bank s /\ csorted coins' /\ Forall (fun da => 0 < snd da <= B (fst da)) coins'.
Proof.
  intros Hn. induction als as [|a als IH]; intros out coins cnt s Hav HD Hc Hp Hk Hle; cbn [mfold].
  - exists out, coins, cnt, s. repeat split; auto. apply Forall_forall. intros [d x] Hin. cbn [fst snd].
    unfold cpos in Hp. rewrite Forall_forall in Hp. pose proof (Hp _ Hin) as Hx. cbn in Hx.
    assert (Hd : In d D) by (apply Hk; apply in_map_iff; exists (d, x); auto).
    specialize (Hle d Hd). rewrite (camount_in _ _ _ Hc Hin) in Hle. cbn [tot fold_right] in Hle. lia.
  - inversion Hav as [|? ? [Htk Htok] Hav']; subst. inversion HD as [|? ? Had HD']; subst.
    assert (Hrest : forall d, tot (a :: als) d = (if a_denom a =? d then a_tokens a else 0) + tot als d) by reflexivity.
    assert (Hskip : forall d, In d D -> camount coins d + tot als d <= B d).
    { intros d Hd. specialize (Hle d Hd). rewrite Hrest in Hle. destruct (a_denom a =? d); lia. }
    unfold bind at 1. unfold take_body at 1.
    destruct ((0 <? a_tokens a) && (0 <? a_take a) && rewards_started a t) eqn:Ec; [|cbn [ret]; apply IH; auto].
    destruct (dpow_unit (ONE - a_take a) n) as (m & Em & Hm); [lia | exact Hn |].
    unfold bind at 1. rewrite Em. cbn [opt_or_panic ret]. cbv zeta.
    destruct (dmul_int m (a_tokens a) <=? ONE) eqn:E1; [cbn [ret]; apply IH; auto|].
    pose proof (dtrunc_le m (a_tokens a) Hm Htok) as Hd. cbn [a_tokens set_a_tokens].
    unfold bind at 1. destruct (a_tokens a - dtrunc (dmul_int m (a_tokens a)) <? 0) eqn:E2; [apply Z.ltb_lt in E2; lia|].
    cbn [ret]. unfold bind at 1, set_asset at 1, modify at 1. cbn [ret].
    set (x := a_tokens a - dtrunc (dmul_int m (a_tokens a))) in *.
    assert (Hx0 : 0 <= x) by (apply Z.ltb_ge in E2; exact E2).
    match goal with |- context[mfold als ?acc _ ?s1] =>
      destruct (IH (fst (fst acc)) (snd (fst acc)) (snd acc) s1 Hav' HD') as (o' & c' & n' & s' & E' & Hb' & Hc' & Hle') end; cbn [fst snd].
    + apply csorted_cadd1; exact Hc.
    + destruct (Z.eq_dec x 0) as [->|Hne]; [rewrite cadd1_zero by exact Hp; exact Hp | apply cadd1_pos; [exact Hp | lia]].
    + intros k Hin. destruct (cadd1_keys _ _ _ _ Hin) as [->|H]; [exact Had | apply Hk; exact H].
    + intros d Hdd. rewrite camount_cadd1 by exact Hc. specialize (Hle d Hdd). rewrite Hrest in Hle.
      destruct (d =? a_denom a) eqn:Ed.
      * apply Z.eqb_eq in Ed. subst d. rewrite Z.eqb_refl in Hle. unfold x. lia.
      * rewrite Z.eqb_sym in Ed. rewrite Ed in Hle. lia.
    + cbn [fst snd] in E'. exists o', c', n', s'. split; [exact E'|]. repeat split; auto.
Qed.

Lemma set_last_claim_total x s : exists s', set_last_claim x s = Ok tt s'.
Proof. unfold set_last_claim, modify. eauto. Qed.

(* DeductAssetsWithTakeRate returns normally when custody covers, for the denom of every asset it is given,
   the staked totals of that denom (valid take rates, totals >= 0), the claim interval is positive and the time
   since the last claim is below 2^69 ns *)
Theorem deduct_take_rate_total last als s :
  ksorted (bank s) -> Forall AVt als ->
  (forall d, In d (map a_denom als) -> tot als d <= bal s ACC_ALLIANCE d) ->
  0 < p_interval (params s) -> (last = ZERO_TIME \/ 0 <= now s - last < 2 ^ 69) ->
  exists r s', deduct_take_rate last als s = Ok r s'.
Proof.
  intros Hb Hav Hcov Hiv Ht. rewrite deduct_unfold. unfold bind at 1, gets at 1.
  destruct (last =? ZERO_TIME) eqn:Ez.
  { destruct (set_last_claim_total (now s) s) as (s' & E). unfold bind. rewrite E. cbn. eauto. }
  destruct Ht as [Ht|Ht]; [apply Z.eqb_neq in Ez; contradiction|].
  unfold bind at 1, gets at 1. destruct (p_interval (params s) =? 0) eqn:E0; [apply Z.eqb_eq in E0; lia|].
  cbv zeta. set (n := Z.quot (now s - last) (p_interval (params s))).
  assert (Hn : 0 <= n < 2 ^ 69).
  { unfold n. split; [apply Z.quot_pos; lia|].
    assert (Z.quot (now s - last) (p_interval (params s)) <= now s - last) by (apply Z.quot_le_upper_bound; nia). lia. }
  destruct (take_loop_total (now s) n (fun d => bal s ACC_ALLIANCE d) (map a_denom als) Hn als [] [] 0 s Hav) as (o' & c' & n' & s' & E' & Hb' & Hc' & Hle').
  { apply Forall_forall. intros a Hin. apply in_map. exact Hin. }
  { exact csorted_nil. } { constructor. } { intros k []. }
  { intros d Hd. cbn [camount]. specialize (Hcov d Hd). lia. }
  unfold bind at 1.
  match goal with |- context[match ?m with Ok _ _ => _ | Err _ _ => _ | Panic _ _ => _ end] =>
    replace m with (Ok (o', c', n') s') by (symmetry; exact E') end.
  destruct (n' =? 0).
  { destruct (set_last_claim_total (now s) s') as (s2 & E). unfold bind. rewrite E. cbn. eauto. }
  destruct (negb (length c' =? 0)%nat); [|cbn; eauto].
  destruct (bank_send_total ACC_ALLIANCE ACC_FEE c' s' Hc') as (s2 & E2).
  { rewrite Hb'. exact Hb. }
  { unfold bal. rewrite Hb'. exact Hle'. }
  unfold bind at 1. rewrite E2.
  destruct (set_last_claim_total (last + p_interval (params s) * n) s2) as (s3 & E3). unfold bind. rewrite E3. cbn. eauto.
Qed.

(* Flag.v — C10 (triggers) / C08 (rescheduling): which operations queue a
   voting-power rebalance, and that nothing but the end of block consumes it. *)
From Coq Require Import ZArith List Bool Lia.
From Alliance Require Import Num KMap KMapFacts Types Monad Model Step Spec Hoare.
Import ListNotations.
Open Scope Z_scope.

Definition FlagSet (s : State) : Prop := flag s = true.
Definition post_flag {A} (m : M A) : Prop := hoare (fun _ => True) m (fun _ s => FlagSet s) (fun _ => True).

Lemma post_msg_delegate a b c d : post_flag (msg_delegate a b c d).
Proof. unfold post_flag, FlagSet; post_deep. Qed.
Lemma post_msg_undelegate a b c d : post_flag (msg_undelegate a b c d).
Proof. unfold post_flag, FlagSet; post_deep. Qed.
Lemma post_msg_redelegate a b c d e : post_flag (msg_redelegate a b c d e).
Proof. unfold post_flag, FlagSet; post_deep. Qed.
Lemma post_hook_slash v f : post_flag (hook_slash v f).
Proof. unfold post_flag, FlagSet; post_deep. Qed.

(* the flag, once set, survives everything except the end of block *)
Lemma Ff : forall s s', flag s' = flag s -> FlagSet s -> FlagSet s'.
Proof. unfold FlagSet; intros; congruence. Qed.
Ltac flag_leaf := apply inv_modify; intros ? ?; unfold FlagSet; cbn; reflexivity.
Ltac fl := inv_deep_with Ff flag_leaf.

Lemma flag_msg_delegate a b c d : inv FlagSet (msg_delegate a b c d).       Proof. fl. Qed.
Lemma flag_msg_undelegate a b c d : inv FlagSet (msg_undelegate a b c d).   Proof. fl. Qed.
Lemma flag_msg_redelegate a b c d e : inv FlagSet (msg_redelegate a b c d e). Proof. fl. Qed.
Lemma flag_msg_claim a b c : inv FlagSet (msg_claim a b c).                 Proof. fl. Qed.
Lemma flag_msg_create m : inv FlagSet (msg_create_alliance m).              Proof. fl. Qed.
Lemma flag_msg_update m : inv FlagSet (msg_update_alliance m).              Proof. fl. Qed.
Lemma flag_msg_delete a b : inv FlagSet (msg_delete_alliance a b).          Proof. fl. Qed.
Lemma flag_msg_params a b c d : inv FlagSet (msg_update_params a b c d).    Proof. fl. Qed.
Lemma flag_hook_slash v f : inv FlagSet (hook_slash v f).                   Proof. fl. Qed.

Lemma wrap_flag (m : M unit) s : inv FlagSet m -> FlagSet s ->
  FlagSet (fst (clear_oracle (tx m s))) /\ FlagSet (fst (clear_oracle (hook m s))).
Proof. intros Hm Hs; specialize (Hm s Hs); unfold tx, hook, clear_oracle; destruct (m s); cbn; auto. Qed.

Lemma F_fold_put_bal bs s : FlagSet s -> FlagSet (fold_left (fun s b => put_bal (fst (fst b)) (snd (fst b)) (snd b) s) bs s).
Proof. revert s; induction bs as [|b bs IH]; intros s Hs; cbn; auto. Qed.
Lemma F_fold_put_sup ss s : FlagSet s -> FlagSet (fold_left (fun s ds => put_sup (fst ds) (snd ds) s) ss s).
Proof. revert s; induction ss as [|b bs IH]; intros s Hs; cbn; auto. Qed.

Theorem flag_persists s o : o <> OEndBlock -> FlagSet s -> FlagSet (fst (step s o)).
Proof.
  intros Ho Hs; destruct o; cbn [step]; try exact Hs; try congruence.
  - apply wrap_flag; [apply flag_msg_delegate | exact Hs].
  - apply wrap_flag; [apply flag_msg_undelegate | exact Hs].
  - apply wrap_flag; [apply flag_msg_redelegate | exact Hs].
  - apply wrap_flag; [apply flag_msg_claim | exact Hs].
  - apply wrap_flag; [apply flag_msg_create | exact Hs].
  - apply wrap_flag; [apply flag_msg_update | exact Hs].
  - apply wrap_flag; [apply flag_msg_delete | exact Hs].
  - apply wrap_flag; [apply flag_msg_params | exact Hs].
  - apply wrap_flag; [apply flag_hook_slash | exact Hs].
  - cbn. apply F_fold_put_sup, F_fold_put_bal; exact Hs.
  - reflexivity.
Qed.

Lemma ok_post (m : M unit) s (Q : State -> Prop) :
  hoare (fun _ => True) m (fun _ s' => Q s') (fun _ => True) ->
  (forall s' o, Q s' -> Q (set_oracle o s')) ->
  (snd (clear_oracle (tx m s)) = R_OK -> Q (fst (clear_oracle (tx m s)))) /\
  (snd (clear_oracle (hook m s)) = R_OK -> Q (fst (clear_oracle (hook m s)))).
Proof.
  intros H Ho; specialize (H s I); unfold tx, hook, clear_oracle; destruct (m s); cbn; split; intros; try discriminate; auto.
Qed.

(* every successful stake-changing message and every successful slash callback
   leaves a rebalance queued *)
Theorem triggers s o : snd (step s o) = R_OK ->
  match o with
  | ODelegate _ _ _ _ | OUndelegate _ _ _ _ | ORedelegate _ _ _ _ _ | OHookSlash _ _ | EFlag => FlagSet (fst (step s o))
  | _ => True
  end.
Proof.
  assert (Ho : forall s' o, FlagSet s' -> FlagSet (set_oracle o s')) by (intros; assumption).
  destruct o; cbn [step]; intros Hok; try exact I.
  - apply (ok_post _ s FlagSet (post_msg_delegate _ _ _ _) Ho); exact Hok.
  - apply (ok_post _ s FlagSet (post_msg_undelegate _ _ _ _) Ho); exact Hok.
  - apply (ok_post _ s FlagSet (post_msg_redelegate _ _ _ _ _) Ho); exact Hok.
  - apply (ok_post _ s FlagSet (post_hook_slash _ _) Ho); exact Hok.
  - reflexivity.
Qed.

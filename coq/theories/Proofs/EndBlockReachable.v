(* EndBlockReachable.v — C17: for every admissible history, at the next block (any block time within 2^69 ns of
   the last take-rate claim, positive claim interval), the first four phases of EndBlocker return normally. *)
From Coq Require Import ZArith List Bool Lia.
From Alliance Require Import Num KMap KMapFacts KMapSorted Types Monad Model Step Spec Hoare.
From Alliance.Proofs Require Import SortedInv Custody PayoutTotal EndBlockPrefix.
From Alliance.Proofs Require TokensNonneg CustodyClosed TotalFloor.
Import ListNotations.
Open Scope Z_scope.

(* what is assumed of a history: C01's conditions for every alliance denom (environment does not take coins out
   of custody, recorded withdrawals non-negative, the custody account signs no delegation, no slash callback
   returned an ERROR), genesis assets valid with totals >= 0 and not in the staking denom, no undelegation
   message names the staking denom *)
Definition history_ok (h : list Op) : Prop :=
  (forall d, d <> BOND_DENOM -> CustodyClosed.adm0_run d init_state h) /\
  Forall (op_okd notbond) h /\
  Forall (TotalFloor.op_ok zero) h.

Theorem reachable_Pre3 h : history_ok h -> Pre3 (run init_state h).
Proof.
  intros (Hadm & Hnb & Hok). split; [|split].
  - intros d Hd. apply (run_JC d Hd 0 h init_state (JC_init d)).
    apply CustodyClosed.adm0_run_adm; [exact TokensNonneg.J_init | exact (Hadm d Hd)].
  - apply run_EN; [exact Hnb | constructor].
  - apply (TotalFloor.run_J zero zero_range h init_state (TotalFloor.J_init zero) Hok).
Qed.

Lemma Pre3_begin_block s t ht : Pre3 s -> Pre3 (fst (step s (OBeginBlock t ht))).
Proof.
  intros (Hjc & Hen & Hj). cbn [step fst]. split; [|split].
  - intros d Hd. apply (JC_f d 0 s); [reflexivity | exact (Hjc d Hd)].
  - apply (EN_f notbond s); [reflexivity | exact Hen].
  - exact Hj.
Qed.

Theorem asset_legs_never_fail h t ht : history_ok h ->
  let s := fst (step (run init_state h) (OBeginBlock t ht)) in
  0 < p_interval (params s) ->
  (p_last (params s) = ZERO_TIME \/ 0 <= t - p_last (params s) < 2 ^ 69) ->
  exists r s', end_block_prefix s = Ok r s'.
Proof.
  intros Hh s Hiv Ht. apply prefix_total; [apply Pre3_begin_block; apply reachable_Pre3; exact Hh | exact Hiv | exact Ht].
Qed.

(* so a failure of EndBlocker in such a state comes from the weight decay or the rebalance *)
Theorem end_blocker_fails_only_after_the_prefix h t ht : history_ok h ->
  let s := fst (step (run init_state h) (OBeginBlock t ht)) in
  0 < p_interval (params s) ->
  (p_last (params s) = ZERO_TIME \/ 0 <= t - p_last (params s) < 2 ^ 69) ->
  exists als2 s', end_block_prefix s = Ok als2 s' /\
    end_blocker s = (als3 <- reward_weight_change_hook als2 ;; rebalance_hook als3) s'.
Proof.
  intros Hh s Hiv Ht. destruct (asset_legs_never_fail h t ht Hh Hiv Ht) as (als2 & s' & E).
  subst s. exists als2, s'. split; [exact E|]. rewrite end_blocker_factors. unfold bind at 1. cbv zeta in E. rewrite E. reflexivity.
Qed.

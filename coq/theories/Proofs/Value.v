(* Value.v — C04: the redeemable token value of a position and what provably
   does not move it.  [value_of s [del; v; dn]] is the model of the reported
   balance (GetDelegationTokens); a missing validator-info record counts as the
   empty record, which is what GetAllianceValidator creates on first use. *)
From Coq Require Import ZArith List Bool Lia.
From Alliance Require Import Num NumFacts KMap KMapFacts KMapSorted Types Monad Model Step Spec Hoare.
From Alliance.Proofs Require Import SortedInv WellKeyed Frames.
Import ListNotations.
Open Scope Z_scope.

Definition vinfo_of (s : State) (v : Z) : ValInfo :=
  match kget (valinfos s) [v] with Some vi => vi | None => empty_valinfo end.
Definition vshares_of (s : State) (v : Z) : Coins * Coins :=
  (vi_dshares (vinfo_of s v), vi_vshares (vinfo_of s v)).

Definition value_of (s : State) (k : Key) : Z :=
  match k with
  | [del; v; dn] =>
    match kget (delegations s) k, kget (assets s) [dn] with
    | Some d, Some a => del_tokens d (vinfo_of s v) a
    | _, _ => 0
    end
  | _ => 0
  end.

(* the value is a function of: the position's shares, the asset record, the validator's share totals *)
Lemma kget_view {V W} (f : V -> W) (m : KMap V) k :
  kget (map (fun kv => (fst kv, f (snd kv))) m) k = option_map f (kget m k).
Proof.
  induction m as [|[k0 v0] m IH]; cbn; [reflexivity|]. destruct (kcmp k k0); [reflexivity | reflexivity | exact IH].
Qed.

Lemma value_of_views s s' k :
  share_view s' = share_view s -> assets s' = assets s -> (forall v, vshares_of s' v = vshares_of s v) ->
  value_of s' k = value_of s k.
Proof.
  intros Hsh Ha Hv. unfold value_of. destruct k as [|del [|v [|dn [|]]]]; try reflexivity.
  rewrite Ha.
  assert (Hd : option_map d_shares (kget (delegations s') [del; v; dn]) = option_map d_shares (kget (delegations s) [del; v; dn])).
  { rewrite <- !kget_view. unfold share_view in Hsh. rewrite Hsh. reflexivity. }
  destruct (kget (delegations s') [del; v; dn]) as [d'|], (kget (delegations s) [del; v; dn]) as [d|]; cbn in Hd; try discriminate; [|reflexivity].
  destruct (kget (assets s) [dn]) as [a|]; [|reflexivity].
  inversion Hd as [Hds]. specialize (Hv v). unfold vshares_of in Hv. inversion Hv as [[H1 H2]].
  unfold del_tokens, del_tokens_with_shares, val_tokens. rewrite Hds, H1, H2. reflexivity.
Qed.

(* ---------- a claim leaves every validator's share totals as they are ---------- *)
Section ClaimVShares.
  Variable F0 : Z -> Coins * Coins.
  Definition JV (s : State) : Prop := ksorted (valinfos s) /\ forall v, vshares_of s v = F0 v.
  Lemma JVf : forall s s', valinfos s' = valinfos s -> JV s -> JV s'.
  Proof. unfold JV, vshares_of, vinfo_of; intros s s' E H; rewrite E; exact H. Qed.

  (* writing, under [v], a record with the share totals [v] already has *)
  Lemma JV_set_same s v vi :
    JV s -> (vi_dshares vi, vi_vshares vi) = vshares_of s v -> JV (set_valinfos (kset (valinfos s) [v] vi) s).
  Proof.
    intros [Hs Hf] Heq. split; [cbn; apply ksorted_kset; exact Hs|].
    intros v'. unfold vshares_of, vinfo_of; cbn. destruct (Z.eq_dec v' v) as [->|Hne].
    - rewrite kget_kset_same. rewrite <- Hf. exact Heq.
    - rewrite kget_kset_other by (auto; congruence). apply Hf.
  Qed.

  (* provenance: the in-memory copy [vi] carries the share totals stored for [v] *)
  Definition Pv (v : Z) (vi : ValInfo) (s : State) : Prop := JV s /\ (vi_dshares vi, vi_vshares vi) = vshares_of s v.
  Lemma Pvf v vi : forall s s', valinfos s' = valinfos s -> Pv v vi s -> Pv v vi s'.
  Proof. unfold Pv, JV, vshares_of, vinfo_of; intros s s' E H; rewrite E; exact H. Qed.

  Lemma pv_add_assets v vi coins :
    hoare (Pv v vi) (add_assets_to_reward_pool v vi coins) (fun vi' s => Pv v vi' s) (fun _ => True).
  Proof.
    unfold add_assets_to_reward_pool. destruct (length (vi_dshares vi) =? 0)%nat; [apply hoare_ret; auto|].
    eapply hoare_bind with (Q1 := fun _ => Pv v vi); [unfold all_assets; apply hoare_gets; auto|]. intros als.
    eapply hoare_bind with (Q1 := fun _ => Pv v vi); [apply hoare_gets; auto|]. intros t.
    eapply hoare_bind with (Q1 := fun _ => Pv v vi); [apply inv_hoare_true; inv_deep (Pvf v vi)|]. intros hist.
    eapply hoare_bind with (Q1 := fun _ => Pv v (set_vi_hist hist vi)).
    { unfold set_valinfo. apply hoare_modify. intros s [HJ Heq]. split.
      - apply JV_set_same; [exact HJ | exact Heq].
      - unfold vshares_of, vinfo_of; cbn. rewrite kget_kset_same. reflexivity. }
    intros _. eapply hoare_bind with (Q1 := fun _ => Pv v (set_vi_hist hist vi)); [apply inv_hoare_true; inv_deep (Pvf v (set_vi_hist hist vi))|].
    intros _. apply hoare_ret. auto.
  Qed.

  Lemma pv_claim_validator_rewards v vi :
    hoare (Pv v vi) (claim_validator_rewards v vi) (fun vi' s => Pv v vi' s) (fun _ => True).
  Proof.
    unfold claim_validator_rewards.
    eapply hoare_bind with (Q1 := fun _ => Pv v vi); [apply hoare_gets; auto|]. intros od.
    destruct od; [|apply hoare_ret; auto].
    eapply hoare_bind with (Q1 := fun _ => Pv v vi); [apply inv_hoare_true; inv_deep (Pvf v vi)|]. intros coins.
    destruct (cis_zero coins); [apply hoare_ret; auto | apply pv_add_assets].
  Qed.

  Lemma pv_claim_delegation_rewards del v vi dn :
    hoare (Pv v vi) (claim_delegation_rewards del v vi dn) (fun vi' s => Pv v vi' s) (fun _ => True).
  Proof.
    unfold claim_delegation_rewards.
    eapply hoare_bind with (Q1 := fun _ => Pv v vi); [unfold get_asset; apply hoare_gets; auto|]. intros oa.
    destruct oa as [a|]; [|apply hoare_fail; auto].
    eapply hoare_bind with (Q1 := fun _ => Pv v vi); [apply hoare_gets; auto|]. intros t.
    destruct (negb (rewards_started a t)); [apply hoare_ret; auto|].
    eapply hoare_bind with (Q1 := fun _ => Pv v vi); [unfold get_delegation; apply hoare_gets; auto|]. intros od.
    destruct od as [d|]; [|apply hoare_fail; auto].
    eapply hoare_bind; [apply pv_claim_validator_rewards|]. intros vi'.
    eapply hoare_bind with (Q1 := fun _ => Pv v vi'); [apply hoare_gets; auto|]. intros s1.
    destruct (calculate_delegation_rewards s1 v d vi' a) as [coins idx].
    eapply hoare_bind with (Q1 := fun _ => Pv v vi'); [apply hoare_gets; auto|]. intros h.
    eapply hoare_bind with (Q1 := fun _ => Pv v vi'); [apply inv_hoare_true; inv_deep (Pvf v vi')|]. intros _.
    eapply hoare_bind with (Q1 := fun _ => Pv v vi'); [apply inv_hoare_true; inv_deep (Pvf v vi')|]. intros _.
    eapply hoare_bind with (Q1 := fun _ => Pv v vi'); [apply inv_hoare_true; inv_deep (Pvf v vi')|]. intros _.
    apply hoare_ret; auto.
  Qed.

  Lemma jv_get_alliance_validator v :
    hoare JV (get_alliance_validator v) (fun r s => Pv v (snd r) s) (fun _ => True).
  Proof.
    unfold get_alliance_validator. eapply hoare_bind with (Q1 := fun _ => JV); [apply hoare_gets; auto|]. intros osv.
    destruct osv as [sv|]; [|apply hoare_fail; auto].
    apply hoare_bind_gets_eq. intros s0 Hs0.
    destruct (kget (valinfos s0) [v]) as [vi|] eqn:Eg.
    - apply hoare_ret. intros s ->. split; [exact Hs0|]. unfold vshares_of, vinfo_of. rewrite Eg. reflexivity.
    - eapply hoare_bind with (Q1 := fun _ => Pv v empty_valinfo); [|intros _; apply hoare_ret; auto].
      unfold set_valinfo. apply hoare_modify. intros s ->. split.
      + apply JV_set_same; [exact Hs0|]. unfold vshares_of, vinfo_of. rewrite Eg. reflexivity.
      + unfold vshares_of, vinfo_of; cbn. rewrite kget_kset_same. reflexivity.
  Qed.

  Lemma jv_msg_claim del v dn : hoare JV (msg_claim del v dn) (fun _ => JV) (fun _ => True).
  Proof.
    unfold msg_claim. eapply hoare_bind; [apply jv_get_alliance_validator|]. intros [sv vi]. cbn [snd].
    eapply hoare_bind; [apply pv_claim_delegation_rewards|]. intros vi'. apply hoare_ret. intros s [H _]; exact H.
  Qed.
End ClaimVShares.

Theorem claim_changes_no_validator_share_totals s del v dn : ksorted (valinfos s) ->
  forall v', vshares_of (fst (step s (OClaim del v dn))) v' = vshares_of s v'.
Proof.
  intros Hs v'. cbn [step].
  pose proof (jv_msg_claim (vshares_of s) del v dn s (conj Hs (fun _ => eq_refl))) as H.
  unfold tx, clear_oracle. destruct (msg_claim del v dn s); cbn; auto. destruct H as [_ H]. apply H.
Qed.

(* C04, claims: a reward claim — successful or not — changes the redeemable value of no position, exactly *)
Theorem claim_moves_no_value h del v dn k : let s := run init_state h in
  value_of (fst (step s (OClaim del v dn))) k = value_of s k.
Proof.
  intros s. apply value_of_views.
  - apply claim_changes_no_delegation_shares.
  - apply claim_changes_no_asset.
  - apply claim_changes_no_validator_share_totals. pose proof (reachable_Sorted h) as (?&?&_). assumption.
Qed.

(* C04, entering an empty asset on a validator without positions: the position is worth exactly
   what was put in (no rounding at all) *)
Theorem first_position_is_worth_its_deposit a vi amt :
  0 < amt -> a_tokens a = 0 -> a_vshares a = 0 ->
  camount (vi_dshares vi) (a_denom a) = 0 ->
  forall ns nvs, del_shares_from_tokens vi a amt = Some ns -> validator_shares a amt = Some nvs ->
  let a' := set_a_vshares (a_vshares a + nvs) (set_a_tokens (a_tokens a + amt) a) in
  forall vi', camount (vi_dshares vi') (a_denom a) = ns -> camount (vi_vshares vi') (a_denom a) = nvs ->
  del_tokens_with_shares ns vi' a' = amt.
Proof.
  intros Hamt Ht Hv Hd ns nvs Hns Hnvs.
  unfold del_shares_from_tokens in Hns. rewrite Hd in Hns. cbn in Hns. inversion Hns; subst ns; clear Hns.
  unfold validator_shares, conv_token_to_shares in Hnvs. rewrite Hv in Hnvs. cbn in Hnvs. inversion Hnvs; subst nvs; clear Hnvs.
  intros a' vi' Hcd Hcv.
  unfold del_tokens_with_shares, val_tokens. subst a'. cbn [a_tokens a_vshares a_denom set_a_vshares set_a_tokens].
  rewrite Hcd, Hcv, Ht, Hv. cbn [Z.add].
  unfold conv_share_to_token, dec_of_int.
  assert (Hp : 0 < amt * PREC) by (pose proof PREC_pos; nia).
  assert (E : amt * PREC =? 0 = false) by (apply Z.eqb_neq; lia).
  rewrite E. rewrite (dquo_self (amt * PREC) Hp). rewrite !dmul_one_l.
  unfold ROUNDER. apply dtrunc_of_int; [lia | unfold PREC; lia].
Qed.

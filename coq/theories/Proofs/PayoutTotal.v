(* PayoutTotal.v — C17 / C02: the payout of matured unbondings cannot fail.
   Part A (every history): every pending unbonding entry carries a non-negative balance
     (queued with a positive amount; a slash leaves balance - floor(f x balance), and panics rather
     than write a negative one; nothing else writes the queue).
   Part B (every state): when custody covers, per denom, the pending unbonding balances and these are
     non-negative, the first two phases of EndBlocker — CompleteRedelegations and
     CompleteUnbondings — return normally: no "insufficient funds", no negative-coin panic.
   With C01 (custody >= staked total + pending unbondings) and C03 (staked total >= 0, true since
   fix 714c18a) the cover holds in every reachable state: the failure that fix repaired (one entry
   promising one unit more than custody holds, the end-of-block failing at its maturity) cannot
   come back by any history.  *)
From Coq Require Import ZArith List Bool Lia ZifyBool.
From Alliance Require Import Num KMap KMapFacts KMapSorted Types Monad Model Step Spec Hoare.
From Alliance.Proofs Require Import SortedInv Misc.
Import ListNotations.
Open Scope Z_scope.

(* ---------- Part A: balances of pending entries are never negative ---------- *)
Section Good.
(* [okd]: what is known of the denom of every entry (instantiated below with "anything" and with "not the staking denom") *)
Variable okd : Z -> Prop.
Definition good (u : Undel) : Prop := 0 <= u_amount u /\ okd (u_denom u).
Definition EN (s : State) : Prop := vall (Forall good) (undelq s).
Lemma EN_f : forall s s', undelq s' = undelq s -> EN s -> EN s'.
Proof. unfold EN; intros s s' E H; rewrite E; exact H. Qed.

Lemma en_queue_modify del v denom amt ct : 0 <= amt -> okd denom ->
  inv EN (modify (fun s =>
    let old := match kget (undelq s) [ct; del] with Some l => l | None => [] end in
    set_undelidx (kset (undelidx s) [v; ct; denom; del] tt)
      (set_undelq (kset (undelq s) [ct; del] (old ++ [mkUndel del v denom amt])) s))).
Proof.
  intros Hamt Hok. apply inv_modify. intros s Hs. unfold EN in *; cbn. apply vall_kset; [exact Hs|].
  apply Forall_app; split.
  - destruct (kget (undelq s) [ct; del]) as [l|] eqn:E; [exact (vall_kget _ _ _ _ Hs E) | constructor].
  - constructor; [split; [exact Hamt | exact Hok] | constructor].
Qed.

Lemma en_kdel_modify k : inv EN (modify (fun s => set_undelq (kdel (undelq s) k) s)).
Proof. apply inv_modify. intros s Hs. unfold EN in *; cbn. apply vall_kdel; exact Hs. Qed.

Ltac en_leaf :=
  first [ apply en_queue_modify; [lia | assumption]
        | apply en_kdel_modify ].
Ltac en := inv_deep_with EN_f en_leaf.

Lemma en_bank_send a b c : inv EN (bank_send a b c).
Proof. en. Qed.
Lemma en_coin1 d a : inv EN (coin1 d a).
Proof. en. Qed.

Lemma en_slash_undelegations v f : inv EN (slash_undelegations v f).
Proof.
  unfold slash_undelegations. apply inv_bind; [en|]; intros idx. apply inv_bind; [en|]; intros t.
  apply inv_mfor; intros ku. destruct (fst ku) as [|? [|ct [|dn [|del [|? ?]]]]]; try (lazymatch goal with |- inv _ (fail _) => apply inv_fail end).
  destruct (ct <? t); [apply inv_ret|].
  apply inv_bind_gets; intros s0 Hs0.
  assert (He : Forall good (match kget (undelq s0) [ct; del] with Some l => l | None => [] end)).
  { destruct (kget (undelq s0) [ct; del]) as [l|] eqn:E; [exact (vall_kget _ _ _ _ Hs0 E) | constructor]. }
  apply inv_hoare. eapply hoare_bind.
  - apply (hoare_mfold_acc _ _ EN (Forall good) good); [exact He| |constructor].
    intros acc e Hacc Hgood.
    destruct (negb ((u_val e =? v) && (u_denom e =? dn))).
    + apply hoare_ret. intros s Hs; split; [exact Hs|]. apply Forall_app; split; [exact Hacc | constructor; [exact Hgood | constructor]].
    + cbv zeta. set (tok := dtrunc (dmul_int f (u_amount e))).
      destruct ((u_amount e - tok <? 0) || (tok <? 0)) eqn:Eg.
      * unfold bind at 1. intros s Hs; cbn; exact Hs.
      * apply orb_false_elim in Eg; destruct Eg as [Eg _]. apply Z.ltb_ge in Eg.
        apply hoare_bind_inv; [apply inv_ret|]; intros ?.
        apply hoare_bind_inv; [apply en_coin1|]; intros c.
        apply hoare_bind_inv; [apply en_bank_send|]; intros ?.
        apply hoare_ret. intros s Hs; split; [exact Hs|]. apply Forall_app; split; [exact Hacc|].
        constructor; [unfold good; cbn; split; [exact Eg | exact (proj2 Hgood)] | constructor].
  - intros entries' s [Hs He']. revert s Hs. apply inv_hoare. apply inv_modify. intros s Hs.
    unfold EN in *; cbn. apply vall_kset; assumption.
Qed.

Ltac en2 :=
  repeat first
    [ apply en_slash_undelegations
    | lazymatch goal with
      | |- inv _ (modify _) =>
        first [ en_leaf
              | apply inv_modify; let s := fresh "s" in let Hs := fresh "Hs" in
                intros s Hs; apply (EN_f s); [reflexivity | exact Hs] ]
      end
    | inv_step
    | lazymatch goal with |- inv _ ?m => let h := head_of m in unfold h end ].

Lemma en_msg_delegate d v dn a : inv EN (msg_delegate d v dn a).        Proof. en2. Qed.
Lemma en_msg_undelegate d v dn a : okd dn -> inv EN (msg_undelegate d v dn a).    Proof. intros Hok. en2. Qed.
Lemma en_msg_redelegate d a b dn x : inv EN (msg_redelegate d a b dn x). Proof. en2. Qed.
Lemma en_msg_claim d v dn : inv EN (msg_claim d v dn).                  Proof. en2. Qed.
Lemma en_msg_create m : inv EN (msg_create_alliance m).                 Proof. en2. Qed.
Lemma en_msg_update m : inv EN (msg_update_alliance m).                 Proof. en2. Qed.
Lemma en_msg_delete au d : inv EN (msg_delete_alliance au d).           Proof. en2. Qed.
Lemma en_msg_params au a b c : inv EN (msg_update_params au a b c).     Proof. en2. Qed.
Lemma en_hook_slash v f : inv EN (hook_slash v f).                      Proof. en2. Qed.
Lemma en_end_blocker : inv EN end_blocker.                              Proof. en2. Qed.

Lemma undelq_fold_put_bal bs s : undelq (fold_left (fun s b => put_bal (fst (fst b)) (snd (fst b)) (snd b) s) bs s) = undelq s.
Proof. revert s; induction bs as [|b bs IH]; intros s; cbn [fold_left]; [reflexivity|]. rewrite IH. reflexivity. Qed.
Lemma undelq_fold_put_sup ss s : undelq (fold_left (fun s ds => put_sup (fst ds) (snd ds) s) ss s) = undelq s.
Proof. revert s; induction ss as [|b bs IH]; intros s; cbn [fold_left]; [reflexivity|]. rewrite IH. reflexivity. Qed.

Lemma EN_wrap (w : M unit -> State -> State * Z) (m : M unit) s :
  (w = tx \/ w = hook \/ w = endblock) -> inv EN m -> EN s -> EN (fst (clear_oracle (w m s))).
Proof.
  intros Hw Hm Hs. specialize (Hm s Hs). unfold clear_oracle.
  destruct Hw as [->|[->| ->]]; unfold tx, hook, endblock; destruct (m s); cbn; first [exact Hm | exact Hs].
Qed.

Definition op_okd (o : Op) : Prop := match o with OUndelegate _ _ dn _ => okd dn | _ => True end.
Lemma step_EN s o : op_okd o -> EN s -> EN (fst (step s o)).
Proof.
  intros Ho Hs. destruct o; cbn [step fst]; try exact Hs;
    try (apply EN_wrap; [auto | | exact Hs]).
  - apply en_end_blocker.
  - apply en_msg_delegate.
  - apply en_msg_undelegate. exact Ho.
  - apply en_msg_redelegate.
  - apply en_msg_claim.
  - apply en_msg_create.
  - apply en_msg_update.
  - apply en_msg_delete.
  - apply en_msg_params.
  - apply en_hook_slash.
  - unfold EN. rewrite undelq_fold_put_sup, undelq_fold_put_bal. exact Hs.
Qed.

Theorem run_EN h : forall s, Forall op_okd h -> EN s -> EN (run s h).
Proof.
  induction h as [|o h IH]; intros s Hh Hs; cbn; [exact Hs|]. inversion Hh; subst.
  apply IH; [assumption|]. apply step_EN; assumption.
Qed.

End Good.

(* every history: no pending unbonding entry carries a negative balance *)
Theorem pending_balances_never_negative h ct del l u :
  kget (undelq (run init_state h)) [ct; del] = Some l -> In u l -> 0 <= u_amount u.
Proof.
  intros Hg Hin. assert (H : EN (fun _ => True) (run init_state h)).
  { apply run_EN; [|constructor]. apply Forall_forall. intros o _. destruct o; exact I. }
  pose proof (vall_kget _ _ _ _ H Hg) as Hl. rewrite Forall_forall in Hl. exact (proj1 (Hl u Hin)).
Qed.

(* ... and, when no undelegation message names the staking denom, none is in the staking denom *)
Definition notbond (d : Z) : Prop := d <> BOND_DENOM.
Notation goodB := (good notbond).
Notation ENB := (EN notbond).

(* ---------- Part B: the payout returns normally when custody covers the pending balances ---------- *)
Definition amt_of (d : Z) (u : Undel) : Z := if u_denom u =? d then u_amount u else 0.
Definition needl (d : Z) (l : list Undel) : Z := fold_right (fun u acc => amt_of d u + acc) 0 l.
Definition need (d : Z) (q : KMap (list Undel)) : Z := needl d (flat_map snd q).
Lemma need_is_unbonding_sum d s : need d (undelq s) = unbonding_sum s d.
Proof. reflexivity. Qed.
Lemma needl_app d a b : needl d (a ++ b) = needl d a + needl d b.
Proof. unfold needl. induction a as [|x a IH]; cbn; [reflexivity|]. rewrite IH. lia. Qed.
Lemma need_cons d kv q : need d (kv :: q) = needl d (snd kv) + need d q.
Proof. unfold need. cbn [flat_map]. apply needl_app. Qed.
Lemma needl_nonneg d l : Forall goodB l -> 0 <= needl d l.
Proof.
  induction 1 as [|x l Hx Hl IH]; cbn; [lia|]. unfold amt_of at 1. destruct Hx as [Hx _].
  fold (needl d l). destruct (u_denom x =? d); lia.
Qed.
Lemma need_filter_le d (f : Key * list Undel -> bool) q : vall (Forall goodB) q -> need d (filter f q) <= need d q.
Proof.
  intros H. induction q as [|kv q IH]; cbn [filter]; [lia|].
  assert (Hkv : Forall goodB (snd kv)) by (apply (vall_in _ _ kv H); left; reflexivity).
  assert (Hq : vall (Forall goodB) q) by (unfold vall, kall in *; inversion H; assumption).
  specialize (IH Hq). pose proof (needl_nonneg d _ Hkv). rewrite (need_cons d kv q).
  destruct (f kv); [rewrite need_cons|]; lia.
Qed.

Lemma need_nonneg d q : vall (Forall goodB) q -> 0 <= need d q.
Proof.
  intros H. unfold need. apply needl_nonneg. induction q as [|kv q IH]; cbn [flat_map]; [constructor|].
  unfold vall, kall in *. inversion H; subst. apply Forall_app; split; [assumption | apply IH; assumption].
Qed.

(* what the loops keep: the bank map sorted, custody covering what is still to be paid *)
Definition CovL (l : list Undel) (q : KMap (list Undel)) (s : State) : Prop :=
  ksorted (bank s) /\ forall d, d <> BOND_DENOM -> needl d l + need d q <= bal s ACC_ALLIANCE d.

Lemma pay_one u l q :
  goodB u -> Forall goodB l -> vall (Forall goodB) q ->
  hoare (CovL (u :: l) q)
        (c <- coin1 (u_denom u) (u_amount u) ;; bank_send ACC_ALLIANCE (u_del u) c)
        (fun _ => CovL l q) (fun _ => False).
Proof.
  intros [Hu Hub] Hl Hq s [Hb Hc]. unfold notbond in Hub. unfold coin1, bind at 1.
  destruct (u_amount u <? 0) eqn:E0; [lia|]. cbn [ret].
  destruct (u_amount u =? 0) eqn:E1.
  - (* nothing to send *) cbn. split; [exact Hb|]. intros d Hdb. specialize (Hc d Hdb). cbn [needl fold_right] in Hc. fold (needl d l) in Hc.
    unfold amt_of in Hc. destruct (u_denom u =? d); lia.
  - unfold bank_send, bank_sub, bank_add. cbn [mfor]. unfold bind, gets, modify, ret, fail; cbn [fst snd].
    pose proof (Hc (u_denom u) Hub) as Hd. cbn [needl fold_right] in Hd. fold (needl (u_denom u) l) in Hd.
    unfold amt_of in Hd at 1. rewrite Z.eqb_refl in Hd.
    pose proof (needl_nonneg (u_denom u) l Hl) as Hn1. pose proof (need_nonneg (u_denom u) q Hq) as Hn2.
    destruct (bal s ACC_ALLIANCE (u_denom u) <? u_amount u) eqn:E2.
    + (* the send cannot be refused: what is still owed in this denom is at least this entry *)
      exfalso. lia.
    + split.
      * unfold put_bal; cbn. repeat match goal with |- context[if ?b then _ else _] => destruct b end;
          repeat first [apply ksorted_kset | apply ksorted_kdel]; exact Hb.
      * intros d Hdb. specialize (Hc d Hdb). cbn [needl fold_right] in Hc. fold (needl d l) in Hc. unfold amt_of in Hc at 1.
        set (s1 := put_bal ACC_ALLIANCE (u_denom u) (bal s ACC_ALLIANCE (u_denom u) - u_amount u) s).
        assert (Hb1 : ksorted (bank s1)).
        { unfold s1, put_bal; cbn. match goal with |- context[if ?b then _ else _] => destruct b end; [apply ksorted_kdel | apply ksorted_kset]; exact Hb. }
        destruct (Z.eq_dec (u_del u) ACC_ALLIANCE) as [Ea|Ea].
        -- (* paid to the custody account itself *)
           rewrite Ea. destruct (Z.eq_dec d (u_denom u)) as [->|Ed].
           ++ rewrite bal_put_bal_same by exact Hb1. unfold s1 at 1. rewrite bal_put_bal_same by exact Hb.
              rewrite Z.eqb_refl in Hc. lia.
           ++ rewrite bal_put_bal_other by (auto; congruence). unfold s1. rewrite bal_put_bal_other by (auto; congruence).
              destruct (u_denom u =? d) eqn:E3; [apply Z.eqb_eq in E3; congruence | lia].
        -- rewrite bal_put_bal_other by (auto; congruence).
           destruct (Z.eq_dec d (u_denom u)) as [->|Ed].
           ++ unfold s1. rewrite bal_put_bal_same by exact Hb. rewrite Z.eqb_refl in Hc. lia.
           ++ unfold s1. rewrite bal_put_bal_other by (auto; congruence).
              destruct (u_denom u =? d) eqn:E3; [apply Z.eqb_eq in E3; congruence | lia].
Qed.

Lemma CovL_f l q s s' : bank s' = bank s -> CovL l q s -> CovL l q s'.
Proof. unfold CovL, bal. intros E H. rewrite E. exact H. Qed.

Lemma pay_entry u l q (f : State -> State) :
  (forall s, bank (f s) = bank s) ->
  goodB u -> Forall goodB l -> vall (Forall goodB) q ->
  hoare (CovL (u :: l) q)
        (c <- coin1 (u_denom u) (u_amount u) ;; bank_send ACC_ALLIANCE (u_del u) c ;;; modify f)
        (fun _ => CovL l q) (fun _ => False).
Proof.
  intros Hf Hu Hl Hq s Hs. pose proof (pay_one u l q Hu Hl Hq s Hs) as H. unfold bind in *.
  destruct (coin1 (u_denom u) (u_amount u) s) as [c s1|e s1|e s1]; try contradiction.
  destruct (bank_send ACC_ALLIANCE (u_del u) c s1) as [[] s2|e s2|e s2]; try contradiction.
  cbn. apply (CovL_f l q s2); [apply Hf | exact H].
Qed.

(* one bucket: every entry is paid, then the bucket is dropped *)
Lemma pay_bucket (g : Undel -> State -> State) (h : State -> State) : forall l q,
  (forall u s, bank (g u s) = bank s) -> (forall s, bank (h s) = bank s) ->
  Forall goodB l -> vall (Forall goodB) q ->
  hoare (CovL l q)
        (mfor l (fun u => c <- coin1 (u_denom u) (u_amount u) ;; bank_send ACC_ALLIANCE (u_del u) c ;;; modify (g u)) ;;; modify h)
        (fun _ => CovL [] q) (fun _ => False).
Proof.
  intros l q Hg Hh Hl Hq. eapply hoare_bind with (Q1 := fun _ => CovL [] q).
  - induction Hl as [|u l Hu Hl IH]; cbn [mfor]; [apply hoare_ret; auto|].
    eapply hoare_bind; [apply pay_entry; auto | intros ?; exact IH].
  - intros ?. apply hoare_modify. intros s Hs. apply (CovL_f [] q s); [apply Hh | exact Hs].
Qed.

(* all matured buckets *)
Lemma pay_all : forall q,
  vall (Forall goodB) q ->
  hoare (CovL [] q)
        (mfor q (fun kv =>
           match fst kv with
           | [ct; _] =>
             mfor (snd kv) (fun u =>
               c <- coin1 (u_denom u) (u_amount u) ;;
               bank_send ACC_ALLIANCE (u_del u) c ;;;
               modify (fun s => set_undelidx (kdel (undelidx s) [u_val u; ct; u_denom u; u_del u]) s)) ;;;
             modify (fun s => set_undelq (kdel (undelq s) (fst kv)) s)
           | _ => ret tt
           end))
        (fun _ s => ksorted (bank s)) (fun _ => False).
Proof.
  induction q as [|kv q IH]; intros Hq; cbn [mfor].
  - apply hoare_ret. intros s [Hb _]; exact Hb.
  - assert (Hkv : Forall goodB (snd kv)) by (apply (vall_in _ _ kv Hq); left; reflexivity).
    assert (Hq' : vall (Forall goodB) q) by (unfold vall, kall in *; inversion Hq; assumption).
    eapply hoare_bind with (Q1 := fun _ => CovL [] q); [|intros ?; apply IH; exact Hq'].
    assert (Hstart : forall s, CovL [] (kv :: q) s -> CovL (snd kv) q s).
    { intros s [Hb Hc]. split; [exact Hb|]. intros d Hdb. specialize (Hc d Hdb). rewrite need_cons in Hc. cbn [needl fold_right] in Hc. lia. }
    destruct (fst kv) as [|ct [|x [|? ?]]];
      try (apply hoare_ret; intros s Hs; destruct (Hstart s Hs) as [Hb Hc]; split; [exact Hb|];
           intros d Hdb; specialize (Hc d Hdb); pose proof (needl_nonneg d _ Hkv); cbn [needl fold_right]; lia).
    eapply hoare_pre; [exact Hstart|].
    apply (pay_bucket (fun u s => set_undelidx (kdel (undelidx s) [u_val u; ct; u_denom u; u_del u]) s)
                         (fun s => set_undelq (kdel (undelq s) [ct; x]) s)); auto.
Qed.

Definition Cover (s : State) : Prop := forall d, d <> BOND_DENOM -> unbonding_sum s d <= bal s ACC_ALLIANCE d.

(* CompleteUnbondings returns normally from every state in which pending balances are non-negative and
   covered by custody *)
Theorem complete_unbondings_total :
  hoare (fun s => ksorted (bank s) /\ ENB s /\ Cover s) complete_unbondings (fun _ _ => True) (fun _ => False).
Proof.
  unfold complete_unbondings.
  apply hoare_bind_gets_eq; intros s0 (Hb & He & Hc).
  apply hoare_bind_gets_eq; intros s1 ->. cbv beta.
  set (q := kfilter _ (undelq s0)).
  assert (Hq : vall (Forall goodB) q).
  { unfold q, kfilter, vall, kall. apply Forall_forall. intros kv Hin. apply filter_In in Hin.
    apply (vall_in _ _ kv He). tauto. }
  eapply hoare_bind with (Q1 := fun _ s => ksorted (bank s)).
  - eapply hoare_pre; [|apply pay_all; exact Hq]. intros s ->. split; [exact Hb|]. intros d Hdb.
    cbn [needl fold_right]. pose proof (need_filter_le d (fun kv => match fst kv with [ct; _] => ct <? now s0 | _ => false end) (undelq s0) He) as Hle.
    specialize (Hc d Hdb). rewrite <- need_is_unbonding_sum in Hc. unfold q, kfilter. lia.
  - intros ?. apply hoare_bind_gets_eq; intros s2 Hs2.
    destruct (bal s2 ACC_ALLIANCE BOND_DENOM =? 0); [apply hoare_ret; auto|].
    intros s ->. unfold bank_burn, bank_sub. cbn [mfor]. unfold bind, gets, modify, ret, fail; cbn [fst snd].
    rewrite Z.ltb_irrefl. exact I.
Qed.

(* Queues.v — C02 / C15: what Undelegate and Redelegate put into the queues, and
   that end-of-block removes exactly the buckets whose completion time is
   strictly before the block time — nothing earlier, nothing else. *)
From Coq Require Import ZArith List Bool Lia.
From Alliance Require Import Num KMap KMapFacts KMapSorted Types Monad Model Step Spec Hoare.
From Alliance.Proofs Require Import SortedInv.
Import ListNotations.
Open Scope Z_scope.

(* ---------- deleting the keys selected by a filter = keeping the others ---------- *)
Section FoldDel.
  Context {V : Type}.
  Implicit Types (m : KMap V).

  Lemma fold_kdel_above (kv : Key * V) m (ks : list Key) :
    Forall (fun k => klt (fst kv) k) ks ->
    fold_left (fun m k => kdel m k) ks (kv :: m) = kv :: fold_left (fun m k => kdel m k) ks m.
  Proof.
    revert m; induction ks as [|k ks IH]; intros m Hks; cbn [fold_left]; [reflexivity|].
    inversion Hks as [|? ? Hk Hks']; subst. destruct kv as [k0 v0]. cbn [kdel fst] in *.
    rewrite (kcmp_lt_gt _ _ Hk). apply IH; exact Hks'.
  Qed.

  Lemma fold_kdel_filter (p : Key * V -> bool) m : ksorted m ->
    fold_left (fun m k => kdel m k) (map fst (filter p m)) m = filter (fun kv => negb (p kv)) m.
  Proof.
    intros Hm; induction m as [|kv m IH]; cbn [filter map fold_left]; [reflexivity|].
    apply ksorted_inv' in Hm. destruct Hm as [Hm Hall]. destruct (p kv) eqn:E; cbn [negb map fold_left].
    - destruct kv as [k0 v0]. cbn [kdel fst]. rewrite kcmp_refl. apply IH; exact Hm.
    - rewrite fold_kdel_above; [rewrite IH by exact Hm; reflexivity|].
      apply Forall_forall. intros k Hk. apply in_map_iff in Hk. destruct Hk as (kv' & <- & Hin).
      apply filter_In in Hin. destruct Hin as [Hin _]. rewrite Forall_forall in Hall. apply Hall; exact Hin.
  Qed.
End FoldDel.

(* ---------- CompleteRedelegations ---------- *)
Definition redel_matured (t : Z) (kv : Key * list Redel) : bool :=
  match fst kv with [ct] => ct <? t | _ => false end.

Section RQ.
  Variable Q : KMap (list Redel).
  Definition RQis (s : State) : Prop := redelq s = Q.
  Lemma RQf : forall s s', redelq s' = redelq s -> RQis s -> RQis s'.
  Proof. unfold RQis; intros; congruence. Qed.
End RQ.

Definition redel_body (kv : Key * list Redel) : M unit :=
  match fst kv with
  | [ct] =>
    mfor (snd kv) (fun r =>
      modify (fun s =>
        set_redelidx (kdel (redelidx s) [r_src r; ct; r_denom r; r_dst r; r_del r])
          (set_redels (kdel (redels s) [r_del r; r_denom r; r_dst r; ct]) s))) ;;;
    modify (fun s => set_redelq (kdel (redelq s) [ct]) s)
  | _ => ret tt
  end.

Lemma redel_loop q : forall Q, Forall (fun kv => exists ct, fst kv = [ct]) q ->
  hoare (RQis Q) (mfor q redel_body) (fun _ s => redelq s = fold_left (fun m k => kdel m k) (map fst q) Q) (fun _ => False).
Proof.
  induction q as [|kv q IH]; intros Q Hq; cbn [mfor map fold_left].
  - apply hoare_ret. auto.
  - inversion Hq as [|? ? [ct Hct] Hq']; subst. destruct kv as [k l]; cbn [fst snd] in *; subst k.
    eapply hoare_bind with (Q1 := fun _ => RQis (kdel Q [ct])).
    + unfold redel_body. cbn [fst snd].
      eapply hoare_bind with (Q1 := fun _ => RQis Q).
      * apply (hoare_mfor _ (RQis Q) (fun _ => False)). intros r. apply hoare_modify. intros s Hs. exact Hs.
      * intros _. apply hoare_modify. intros s Hs. unfold RQis in *. cbn. rewrite Hs. reflexivity.
    + intros _. apply IH. exact Hq'.
Qed.

Lemma complete_redelegations_unfold :
  complete_redelegations =
  (t <- gets now ;;
   q <- gets (fun s => kfilter (fun k => match k with [ct] => ct <? t | _ => false end) (redelq s)) ;;
   mfor q redel_body).
Proof. reflexivity. Qed.

Theorem complete_redelegations_spec s0 : SortedS s0 ->
  exists s', complete_redelegations s0 = Ok tt s' /\
    redelq s' = filter (fun kv => negb (redel_matured (now s0) kv)) (redelq s0).
Proof.
  intros HS. rewrite complete_redelegations_unfold. unfold bind at 1, gets at 1. unfold bind at 1, gets at 1.
  set (q := kfilter (fun k => match k with [ct] => ct <? now s0 | _ => false end) (redelq s0)).
  assert (Hq : Forall (fun kv => exists ct, fst kv = [ct]) q).
  { apply Forall_forall. intros kv Hin. unfold q, kfilter in Hin. apply filter_In in Hin. destruct Hin as [_ H].
    destruct kv as [k l]; cbn [fst] in *. destruct k as [|ct [|? ?]]; try discriminate. eauto. }
  match goal with |- exists s', ?prog = Ok tt s' /\ _ =>
    pose proof (redel_loop q (redelq s0) Hq s0 eq_refl
                : match prog with Ok _ s' => redelq s' = fold_left (fun mm k => kdel mm k) (map fst q) (redelq s0) | _ => False end) as H;
    revert H; destruct prog as [[] s'|e s'|e s']; intros H; try contradiction end.
  exists s'; split; [reflexivity|]. rewrite H. unfold q, kfilter.
  destruct HS as (?&?&?&?&?&Hrq&?). rewrite fold_kdel_filter by exact Hrq. reflexivity.
Qed.

(* ---------- CompleteUnbondings: exactly the matured buckets leave the queue ---------- *)
Definition undel_matured (t : Z) (kv : Key * list Undel) : bool :=
  match fst kv with [ct; _] => ct <? t | _ => false end.

Section UQ.
  Variable Q : KMap (list Undel).
  Definition UQis (s : State) : Prop := undelq s = Q.
  Lemma UQf : forall s s', undelq s' = undelq s -> UQis s -> UQis s'.
  Proof. unfold UQis; intros; congruence. Qed.
End UQ.

Definition undel_body (kv : Key * list Undel) : M unit :=
  match fst kv with
  | [ct; _] =>
    mfor (snd kv) (fun u =>
      c <- coin1 (u_denom u) (u_amount u) ;;
      bank_send ACC_ALLIANCE (u_del u) c ;;;
      modify (fun s => set_undelidx (kdel (undelidx s) [u_val u; ct; u_denom u; u_del u]) s)) ;;;
    modify (fun s => set_undelq (kdel (undelq s) (fst kv)) s)
  | _ => ret tt
  end.

Lemma undel_loop q : forall Q, Forall (fun kv => exists ct dl, fst kv = [ct; dl]) q ->
  hoare (UQis Q) (mfor q undel_body) (fun _ s => undelq s = fold_left (fun m k => kdel m k) (map fst q) Q) (fun _ => True).
Proof.
  induction q as [|kv q IH]; intros Q Hq; cbn [mfor map fold_left].
  - apply hoare_ret. auto.
  - inversion Hq as [|? ? (ct & dl & Hct) Hq']; subst. destruct kv as [k l]; cbn [fst snd] in *; subst k.
    eapply hoare_bind with (Q1 := fun _ => UQis (kdel Q [ct; dl])).
    + unfold undel_body. cbn [fst snd].
      eapply hoare_bind with (Q1 := fun _ => UQis Q).
      * apply inv_hoare_true. inv_deep (UQf Q).
      * intros _. apply hoare_modify. intros s Hs. unfold UQis in *. cbn. rewrite Hs. reflexivity.
    + intros _. apply IH. exact Hq'.
Qed.

Definition sweep : M unit :=
  b <- gets (fun s => bal s ACC_ALLIANCE BOND_DENOM) ;;
  if b =? 0 then ret tt else bank_burn ACC_ALLIANCE [(BOND_DENOM, b)].

Lemma complete_unbondings_unfold :
  complete_unbondings =
  (t <- gets now ;;
   q <- gets (fun s => kfilter (fun k => match k with [ct; _] => ct <? t | _ => false end) (undelq s)) ;;
   mfor q undel_body ;;; sweep).
Proof. reflexivity. Qed.

Theorem complete_unbondings_spec s0 : SortedS s0 ->
  match complete_unbondings s0 with
  | Ok _ s' => undelq s' = filter (fun kv => negb (undel_matured (now s0) kv)) (undelq s0)
  | _ => True
  end.
Proof.
  intros HS. rewrite complete_unbondings_unfold. unfold bind at 1, gets at 1. unfold bind at 1, gets at 1.
  set (q := kfilter (fun k => match k with [ct; _] => ct <? now s0 | _ => false end) (undelq s0)).
  assert (Hq : Forall (fun kv => exists ct dl, fst kv = [ct; dl]) q).
  { apply Forall_forall. intros kv Hin. unfold q, kfilter in Hin. apply filter_In in Hin. destruct Hin as [_ H].
    destruct kv as [k l]; cbn [fst] in *. destruct k as [|ct [|dl [|? ?]]]; try discriminate. eauto. }
  unfold bind at 1.
  match goal with |- match (match ?prog with _ => _ end) with _ => _ end =>
    pose proof (undel_loop q (undelq s0) Hq s0 eq_refl
                : match prog with Ok _ s' => undelq s' = fold_left (fun mm k => kdel mm k) (map fst q) (undelq s0) | _ => True end) as H;
    revert H; destruct prog as [[] s1|e s1|e s1]; intros H; try exact I end.
  (* the sweep of the staking denom does not touch the queue *)
  assert (Hs : inv (UQis (undelq s1)) sweep) by (unfold sweep; inv_deep (UQf (undelq s1))).
  specialize (Hs s1 eq_refl). revert Hs.
  destruct (sweep s1) as [x s2|e s2|e s2]; intros Hs; try exact I.
  unfold UQis in Hs. rewrite Hs, H. unfold q, kfilter.
  destruct HS as (?&?&?&?&?&?&Huq&?). rewrite fold_kdel_filter by exact Huq. reflexivity.
Qed.

(* ---------- what Undelegate / Redelegate enqueue ---------- *)
Theorem queue_undelegation_spec s del v dn amt :
  exists s', queue_undelegation del v dn amt s = Ok tt s' /\
    let ct := now s + unbonding_time s in
    kget (undelq s') [ct; del] = Some ((match kget (undelq s) [ct; del] with Some l => l | None => [] end) ++ [mkUndel del v dn amt]) /\
    kget (undelidx s') [v; ct; dn; del] = Some tt /\
    bank s' = bank s /\ assets s' = assets s.
Proof.
  unfold queue_undelegation, bind, gets, modify. eexists; split; [reflexivity|]. cbn.
  rewrite !kget_kset_same. auto.
Qed.

Theorem add_redelegation_spec s del src dst dn amt ct :
  exists s', add_redelegation del src dst dn amt ct s = Ok tt s' /\
    kget (redels s') [del; dn; dst; ct] =
      Some (match kget (redels s) [del; dn; dst; ct] with
            | None => mkRedel del src dst dn amt
            | Some r => set_r_amount (r_amount r + amt) r end) /\
    kget (redelidx s') [src; ct; dn; dst; del] = Some tt /\
    kget (redelq s') [ct] = Some ((match kget (redelq s) [ct] with Some l => l | None => [] end) ++ [mkRedel del src dst dn amt]).
Proof.
  unfold add_redelegation, queue_redelegation, bind, modify. eexists; split; [reflexivity|]. cbn.
  rewrite !kget_kset_same. auto.
Qed.

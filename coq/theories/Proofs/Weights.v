(* Weights.v — C14: reward-weight range, the decay clock, warm-up gating. *)
From Coq Require Import ZArith List Bool Lia.
From Alliance Require Import Num KMap KMapFacts Types Monad Model Step Spec Hoare.
From Alliance.Proofs Require Import InvAssets.
Import ListNotations.
Open Scope Z_scope.

Lemma asset_valid_range a : asset_valid a = true -> weight_in_range a = true.
Proof.
  unfold asset_valid, weight_in_range; intros H.
  repeat (apply andb_prop in H; destruct H as [H ?]).
  apply andb_true_intro; split; assumption.
Qed.

Theorem weight_in_range_in_every_reachable_state h :
  Forall op_ok h -> forall d a, kget (assets (run init_state h)) [d] = Some a -> a_wmin a <= a_weight a <= a_wmax a.
Proof.
  intros Hh d a Hg. pose proof (assets_valid_in_every_reachable_state h Hh d a Hg) as H.
  apply asset_valid_range in H. unfold weight_in_range in H. apply andb_prop in H. lia.
Qed.

(* the decay clock: n whole intervals, never past the block time *)
Lemma decay_clock t last iv : 0 < iv -> last + iv <= t ->
  let n := Z.quot (t - last) iv in
  1 <= n /\ last + iv * n <= t /\ t < last + iv * n + iv.
Proof.
  intros Hiv Hdue n. subst n. rewrite Z.quot_div_nonneg by lia.
  pose proof (Z.div_mod (t - last) iv ltac:(lia)) as Hdm.
  pose proof (Z.mod_pos_bound (t - last) iv Hiv) as Hmod.
  assert (1 <= (t - last) / iv) by (apply Z.div_le_lower_bound; lia).
  lia.
Qed.

(* what RewardWeightChangeHook does to one asset (None = the Power / Mul overflow panic) *)
Definition decay_due (t : Z) (a : Asset) : bool :=
  negb ((a_interval a =? 0) || (a_rate a =? ONE)) && negb (t <? a_last a + a_interval a).
Definition clamp (lo hi w : Z) : Z := let w1 := if w <? lo then lo else w in if hi <? w1 then hi else w1.
Definition decay_asset (t : Z) (a : Asset) : option Asset :=
  if decay_due t a then
    let n := Z.quot (t - a_last a) (a_interval a) in
    match dpow (a_rate a) n with
    | None => None
    | Some m => match dmul_chk (a_weight a) m with
                | None => None
                | Some w0 => Some (set_a_last (a_last a + a_interval a * n)
                                     (set_a_weight (clamp (a_wmin a) (a_wmax a) w0) a))
                end
    end
  else Some a.

Fixpoint decay_all (t : Z) (als : list Asset) : option (list Asset) :=
  match als with
  | [] => Some []
  | a :: r => match decay_asset t a, decay_all t r with
              | Some b, Some r' => Some (b :: r')
              | _, _ => None
              end
  end.

(* the hook returns exactly the decayed list (when it returns) *)
Lemma hook_loop_spec t als : forall acc s,
  match mfold als acc (fun acc a =>
          if (a_interval a =? 0) || (a_rate a =? ONE) then ret (acc ++ [a])
          else if t <? a_last a + a_interval a then ret (acc ++ [a])
          else
            let n := Z.quot (t - a_last a) (a_interval a) in
            m <- opt_or_panic P_OVERFLOW (dpow (a_rate a) n) ;;
            w0 <- opt_or_panic P_OVERFLOW (dmul_chk (a_weight a) m) ;;
            let w1 := if w0 <? a_wmin a then a_wmin a else w0 in
            let w2 := if a_wmax a <? w1 then a_wmax a else w1 in
            let a' := set_a_last (a_last a + a_interval a * n) (set_a_weight w2 a) in
            queue_rebalance ;;; update_alliance_asset a' ;;; ret (acc ++ [a'])) s with
  | Ok r _ => exists r', decay_all t als = Some r' /\ r = acc ++ r'
  | _ => True
  end.
Proof.
  induction als as [|a als IH]; intros acc s; cbn [mfold decay_all].
  - cbn. exists []; split; [reflexivity | rewrite app_nil_r; reflexivity].
  - unfold bind at 1. unfold decay_asset, decay_due.
    destruct ((a_interval a =? 0) || (a_rate a =? ONE)) eqn:E1; cbn [negb andb].
    + cbn [ret]. specialize (IH (acc ++ [a]) s). destruct (mfold als _ _ s); auto.
      destruct IH as (r' & Hr & ->). rewrite Hr. exists (a :: r'); split; [reflexivity | rewrite <- app_assoc; reflexivity].
    + destruct (t <? a_last a + a_interval a) eqn:E2; cbn [negb].
      * cbn [ret]. specialize (IH (acc ++ [a]) s). destruct (mfold als _ _ s); auto.
        destruct IH as (r' & Hr & ->). rewrite Hr. exists (a :: r'); split; [reflexivity | rewrite <- app_assoc; reflexivity].
      * unfold bind at 1. destruct (dpow (a_rate a) (Z.quot (t - a_last a) (a_interval a))) as [m|]; cbn [opt_or_panic ret panic]; [|exact I].
        unfold bind at 1. destruct (dmul_chk (a_weight a) m) as [w0|]; cbn [opt_or_panic ret panic]; [|exact I].
        unfold bind at 1. cbn [queue_rebalance modify].
        unfold bind at 1.
        match goal with |- context[update_alliance_asset ?x ?y] =>
          destruct (update_alliance_asset x y) as [u s1|e s1|e s1] end; try exact I.
        cbn [ret].
        match goal with |- match mfold als ?acc' _ s1 with _ => _ end => specialize (IH acc' s1) end.
        destruct (mfold als _ _ s1); auto.
        destruct IH as (r' & Hr & ->). rewrite Hr. eexists; split; [reflexivity | rewrite <- app_assoc; reflexivity].
Qed.

Theorem reward_weight_change_hook_spec als s :
  match reward_weight_change_hook als s with
  | Ok r _ => decay_all (now s) als = Some r
  | _ => True
  end.
Proof.
  unfold reward_weight_change_hook, bind at 1, gets at 1.
  pose proof (hook_loop_spec (now s) als [] s) as H.
  destruct (mfold als [] _ s); auto. destruct H as (r' & Hr & ->). exact Hr.
Qed.

(* one decayed asset: exact compounded-and-clamped weight, exact clock *)
Theorem decay_asset_spec t a b : 0 <= a_interval a -> decay_asset t a = Some b ->
  if decay_due t a then
    exists n m w0, n = Z.quot (t - a_last a) (a_interval a) /\ 1 <= n /\
      dpow (a_rate a) n = Some m /\ dmul_chk (a_weight a) m = Some w0 /\
      a_weight b = clamp (a_wmin a) (a_wmax a) w0 /\
      a_last b = a_last a + a_interval a * n /\ a_last b <= t < a_last b + a_interval a
  else b = a.
Proof.
  intros Hiv; unfold decay_asset. destruct (decay_due t a) eqn:Ed; [|intros H; inversion H; reflexivity].
  unfold decay_due in Ed. apply andb_prop in Ed; destruct Ed as [E1 E2].
  apply negb_true_iff in E1, E2. apply orb_false_elim in E1; destruct E1 as [E1 _].
  assert (0 < a_interval a) by lia. assert (a_last a + a_interval a <= t) by lia.
  destruct (decay_clock t (a_last a) (a_interval a)) as (Hn & Hlo & Hhi); [assumption..|].
  destruct (dpow _ _) as [m|] eqn:Em; [|discriminate]. destruct (dmul_chk _ m) as [w0|] eqn:Ew; [|discriminate].
  intros Hb; inversion Hb; subst b; clear Hb. do 3 eexists. repeat split; try reflexivity; try eassumption; cbn; lia.
Qed.

Lemma clamp_in_range lo hi w : lo <= hi -> lo <= clamp lo hi w <= hi.
Proof. unfold clamp; intros; destruct (w <? lo) eqn:E1; [destruct (hi <? lo) eqn:E2 | destruct (hi <? w) eqn:E2]; lia. Qed.

(* warm-up gating: before its start time an asset's positions cannot claim *)
Theorem claim_before_start_is_noop s del v vi dn a :
  kget (assets s) [dn] = Some a -> rewards_started a (now s) = false ->
  claim_delegation_rewards del v vi dn s = Ok vi s.
Proof.
  intros Hg Hs. unfold claim_delegation_rewards, get_asset, bind at 1, gets at 1. rewrite Hg.
  unfold bind at 1, gets at 1. rewrite Hs. reflexivity.
Qed.

(* ... and it receives no reward index *)
Theorem not_started_skipped t a vi : rewards_started a t = false -> skip_rewards t a vi = true.
Proof. intros H; unfold skip_rewards; rewrite H; cbn. rewrite orb_true_r; reflexivity. Qed.

(* ---------- a schedule change is not retroactive; a weight change is preceded by a snapshot ---------- *)
Definition NowIs (t : Z) (s : State) : Prop := now s = t.
Lemma NowIs_f t : forall s s', now s' = now s -> NowIs t s -> NowIs t s'.
Proof. unfold NowIs; intros; congruence. Qed.

Definition settle_loop (a : Asset) : M unit :=
  infos <- gets valinfos ;;
  mfor_swallow infos (fun kv =>
    match fst kv with
    | [v] =>
      '(_, vi) <- get_alliance_validator v ;;
      vi1 <- claim_validator_rewards v vi ;;
      h <- gets height ;;
      modify (fun s => set_snapshots (kset (snapshots s) [a_denom a; v; h]
                (mkSnapshot (a_weight a) (rh_by_alliance (vi_hist vi1) (a_denom a)))) s)
    | _ => ret tt
    end) ;;;
  queue_rebalance.
Lemma now_settle_loop t a : inv (NowIs t) (settle_loop a).
Proof. unfold settle_loop. inv_deep (NowIs_f t). Qed.

Definition schedule_clock (t : Z) (a na : Asset) : Z :=
  if (negb (a_rate na =? a_rate a) || negb (a_interval na =? a_interval a))
     && ((a_rate a =? ONE) || (a_interval a =? 0))
  then t else a_last na.

(* UpdateAllianceAsset, when it returns: the stored record carries the new parameters, the staked
   total / shares / start time of the OLD record, and a decay clock that starts NOW exactly when a
   schedule is configured where none was running (rate 1 or interval 0 before) *)
Theorem update_asset_clock na a s s' :
  kget (assets s) [a_denom na] = Some a -> a_denom a = a_denom na ->
  update_alliance_asset na s = Ok tt s' ->
  exists b, kget (assets s') [a_denom na] = Some b /\
    a_last b = schedule_clock (now s) a na /\
    a_weight b = a_weight na /\ a_rate b = a_rate na /\ a_interval b = a_interval na /\ a_take b = a_take na /\
    a_tokens b = a_tokens a /\ a_vshares b = a_vshares a /\ a_start b = a_start a.
Proof.
  intros Ha Hd Hrun. unfold update_alliance_asset in Hrun. unfold bind at 1, get_asset at 1, gets at 1 in Hrun. rewrite Ha in Hrun.
  destruct ((a_weight na <? a_wmin na) || (a_wmax na <? a_weight na)); [discriminate|].
  unfold bind at 1 in Hrun.
  assert (Hnow : forall s1, (if negb (a_weight na =? a_weight a) then settle_loop a else ret tt) s = Ok tt s1 -> now s1 = now s).
  { intros s1 E. destruct (negb (a_weight na =? a_weight a)).
    - pose proof (now_settle_loop (now s) a s eq_refl) as H. rewrite E in H. exact H.
    - inversion E; reflexivity. }
  change (if negb (a_weight na =? a_weight a) then _ else ret tt) with
         (if negb (a_weight na =? a_weight a) then settle_loop a else ret tt) in Hrun.
  destruct ((if negb (a_weight na =? a_weight a) then settle_loop a else ret tt) s) as [[] s1| |] eqn:E1; try discriminate.
  specialize (Hnow s1 eq_refl). unfold bind at 1, gets at 1 in Hrun.
  unfold set_asset, modify in Hrun. inversion Hrun; subst s'. clear Hrun.
  cbn [a_denom set_a_wmax set_a_wmin set_a_last set_a_interval set_a_rate set_a_weight set_a_take assets set_assets].
  rewrite Hd. rewrite kget_kset_same. eexists; split; [reflexivity|].
  cbn. rewrite Hnow. unfold schedule_clock. repeat split; reflexivity.
Qed.

(* Target.v — C10: the target the rebalance computes for a bonded validator is the sum, over the
   assets whose rewards have started and that have stake on bonded validators, of
       (validator's share of the asset's bonded validator shares) x (reward weight x native bonded stake)
   in the 18-digit arithmetic of the code; assets still in their warm-up period contribute nothing
   (they only keep the rebalance queued). *)
From Coq Require Import ZArith List Bool Lia.
From Alliance Require Import Num KMap Types Monad Model Step Spec Hoare.
Import ListNotations.
Open Scope Z_scope.

Definition contribution (t native : Z) (unb : Coins) (vi : ValInfo) (a : Asset) : Z :=
  if negb (rewards_started a t) then 0
  else
    let vs := camount (vi_vshares vi) (a_denom a) in
    let bvs := a_vshares a - camount unb (a_denom a) in
    if (0 <? vs) && (0 <? bvs) then dmul (dquo vs bvs) (dmul_int (a_weight a) native) else 0.
Definition target (t native : Z) (unb : Coins) (vi : ValInfo) (als : list Asset) : Z :=
  fold_right (fun a acc => contribution t native unb vi a + acc) 0 als.

Definition target_body (t native : Z) (unb : Coins) (vi : ValInfo) (acc : Z) (a : Asset) : M Z :=
  if negb (rewards_started a t) then queue_rebalance ;;; ret acc
  else
    let vs := camount (vi_vshares vi) (a_denom a) in
    let ebfa := dmul_int (a_weight a) native in
    let bvs := a_vshares a - camount unb (a_denom a) in
    if (0 <? vs) && (0 <? bvs) then ret (acc + dmul (dquo vs bvs) ebfa) else ret acc.

(* the loop returns the accumulated target and touches nothing but the rebalance flag *)
Theorem target_loop t native unb vi als : forall acc s,
  exists s', mfold als acc (target_body t native unb vi) s = Ok (acc + target t native unb vi als) s' /\
             (s' = s \/ s' = set_flag true s).
Proof.
  induction als as [|a als IH]; intros acc s; cbn [mfold target fold_right].
  - exists s. split; [rewrite Z.add_0_r; reflexivity | left; reflexivity].
  - unfold bind at 1. unfold target_body at 1, contribution at 1.
    destruct (negb (rewards_started a t)).
    + unfold bind at 1, queue_rebalance, modify. cbn [ret].
      destruct (IH acc (set_flag true s)) as (s' & E & Hs'). exists s'. split.
      * rewrite E. rewrite Z.add_0_l. reflexivity.
      * right. destruct Hs' as [->| ->]; destruct s; reflexivity.
    + cbv zeta. destruct ((0 <? camount (vi_vshares vi) (a_denom a)) && (0 <? a_vshares a - camount unb (a_denom a))); cbn [ret].
      * destruct (IH (acc + dmul (dquo (camount (vi_vshares vi) (a_denom a)) (a_vshares a - camount unb (a_denom a))) (dmul_int (a_weight a) native)) s) as (s' & E & Hs').
        exists s'. split; [rewrite E; rewrite Z.add_assoc; reflexivity | exact Hs'].
      * destruct (IH acc s) as (s' & E & Hs'). exists s'. split; [rewrite E; rewrite Z.add_0_l; reflexivity | exact Hs'].
Qed.

(* warm-up: an asset whose rewards have not started contributes nothing, whatever is staked in it *)
Theorem warmup_contributes_nothing t native unb vi a : rewards_started a t = false -> contribution t native unb vi a = 0.
Proof. unfold contribution. intros ->. reflexivity. Qed.
(* no stake of the validator in the asset, or no bonded stake in it at all: nothing *)
Theorem no_stake_contributes_nothing t native unb vi a :
  camount (vi_vshares vi) (a_denom a) <= 0 -> contribution t native unb vi a = 0.
Proof.
  unfold contribution. intros H. destruct (negb _); [reflexivity|]. cbv zeta.
  assert (E : 0 <? camount (vi_vshares vi) (a_denom a) = false) by (apply Z.ltb_ge; exact H). rewrite E. reflexivity.
Qed.

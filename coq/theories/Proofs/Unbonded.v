(* Unbonded.v — C10: the rebalance neither counts nor adjusts validators outside the bonded set: the
   module's stake on a validator that is not bonded (and that validator's staking record) is the same
   before and after RebalanceBondTokenWeights. *)
From Coq Require Import ZArith List Bool Lia.
From Alliance Require Import Num KMap KMapFacts KMapSorted Types Monad Model Step Spec Hoare.
From Alliance.Proofs Require Import SortedInv BondedSlash.
Import ListNotations.
Open Scope Z_scope.

Section V.
  Variable v : Z.
  Variables (x : option Z) (y : option SVal).
  Definition NV (s : State) : Prop :=
    ksorted (svals s) /\ ksorted (sdels s) /\ kget (sdels s) [v] = x /\ kget (svals s) [v] = y.
  Definition nv_proj (s : State) := (svals s, sdels s).
  Lemma NV_f : forall s s', nv_proj s' = nv_proj s -> NV s -> NV s'.
  Proof. unfold NV, nv_proj. intros s s' E H. inversion E as [[E1 E2]]. rewrite E1, E2. exact H. Qed.

  (* writes of another validator's staking records *)
  Ltac nv_leaf w Hw :=
    apply inv_modify; let s := fresh "s" in intros s (H1 & H2 & H3 & H4); unfold NV; cbn;
    repeat split; try (apply ksorted_kset; assumption); try (apply ksorted_kdel; assumption); try assumption;
    try (rewrite kget_kset_other by (auto; congruence); assumption);
    try (rewrite kget_kdel_other by (auto; congruence); assumption).

  Lemma nv_staking_delegate w sv amt : w <> v -> inv NV (staking_delegate w sv amt).
  Proof. intros Hw. inv_deep_with NV_f ltac:(nv_leaf w Hw). Qed.
  Lemma nv_staking_unbond w sh : w <> v -> inv NV (staking_unbond w sh).
  Proof. intros Hw. inv_deep_with NV_f ltac:(nv_leaf w Hw). Qed.

  (* the partition keeps only validators other than v when v is not bonded *)
  Definition elemW (e : Z * SVal * ValInfo) : Prop := let '(w, _, _) := e in w <> v.
  Hypothesis v_not_bonded : match y with Some sv => is_bonded sv = false | None => True end.

  Lemma nv_gav w : hoare NV (get_alliance_validator w) (fun r s => NV s /\ (w = v -> y = Some (fst r))) NV.
  Proof.
    unfold get_alliance_validator. intros s Hs. unfold bind, gets.
    destruct (kget (svals s) [w]) as [sv|] eqn:E; cbn; [|exact Hs].
    assert (Hy : w = v -> y = Some sv). { intros ->. destruct Hs as (_ & _ & _ & H4). congruence. }
    destruct (kget (valinfos s) [w]); cbn; (split; [|exact Hy]); [exact Hs|].
    eapply NV_f; [|exact Hs]. reflexivity.
  Qed.

  Definition part_body (acc : list (Z * SVal * ValInfo) * Coins) (kv : Key * ValInfo) : M (list (Z * SVal * ValInfo) * Coins) :=
    match fst kv with
    | [w] =>
      '(sv, vi) <- get_alliance_validator w ;;
      if is_bonded sv then ret (fst acc ++ [(w, sv, vi)], snd acc)
      else ret (fst acc, cadd (snd acc) (vi_vshares vi))
    | _ => ret acc
    end.
  Lemma nv_part_body acc kv : Forall elemW (fst acc) ->
    hoare NV (part_body acc kv) (fun acc' s => NV s /\ Forall elemW (fst acc')) NV.
  Proof.
    intros Hacc. unfold part_body. destruct (fst kv) as [|w [|? ?]]; try (apply hoare_ret; auto).
    eapply hoare_bind_with; [apply nv_gav|]. intros [sv vi] Hy. cbn [fst] in Hy.
    destruct (is_bonded sv) eqn:Eb; apply hoare_ret; intros s Hs; (split; [exact Hs|]); cbn [fst]; [|exact Hacc].
    apply Forall_app. split; [exact Hacc|]. constructor; [|constructor]. unfold elemW. intros ->.
    rewrite (Hy eq_refl) in v_not_bonded. congruence.
  Qed.
  Lemma nv_partition (l : KMap ValInfo) : forall acc, Forall elemW (fst acc) ->
    hoare NV (mfold_swallow l acc part_body) (fun acc' s => NV s /\ Forall elemW (fst acc')) NV.
  Proof.
    induction l as [|kv l IH]; intros acc Hacc; cbn [mfold_swallow]; [apply hoare_ret; auto|].
    intros s Hs. pose proof (nv_part_body acc kv Hacc s Hs) as H.
    destruct (part_body acc kv s) as [acc' s'|e s'|e s'].
    - destruct H as [Hs' Hacc']. exact (IH acc' Hacc' s' Hs').
    - split; [exact H | exact Hacc].
    - exact H.
  Qed.

  Theorem nv_rebalance als : inv NV (rebalance_bond_token_weights als).
  Proof.
    unfold rebalance_bond_token_weights. apply inv_bind; [apply inv_gets|]. intros s0. cbv zeta.
    apply inv_bind; [apply inv_gets|]. intros t.
    eapply inv_bind_with with (P := fun acc : list (Z * SVal * ValInfo) * Coins => Forall elemW (fst acc)).
    { apply (nv_partition (valinfos s0) ([], [])). constructor. }
    intros [bonded unb] Hb. cbn [fst] in Hb.
    apply (inv_mfor_Forall NV _ elemW); [exact Hb|]. intros [[w sv] vi] Hw. unfold elemW in Hw.
    apply inv_bind; [apply inv_gets|]. intros od. cbv zeta.
    apply inv_bind.
    { apply inv_mfold. intros acc a. destruct (negb _); [apply inv_bind; [inv_deep NV_f | intros _; apply inv_ret]|].
      cbv zeta. destruct (_ && _); apply inv_ret. }
    intros expected.
    destruct (_ <? expected).
    - cbv zeta. destruct (_ =? 0); [apply inv_ret|].
      apply inv_bind; [inv_deep NV_f|]. intros _.
      apply inv_bind; [inv_deep NV_f|]. intros _. apply nv_staking_delegate; exact Hw.
    - destruct (expected <? _); [|apply inv_ret]. cbv zeta. destruct (_ =? 0); [apply inv_ret|].
      apply inv_bind; [inv_deep NV_f|]. intros sh.
      apply inv_bind; [inv_deep NV_f|]. intros _.
      apply inv_bind; [apply nv_staking_unbond; exact Hw|]. intros tok.
      inv_deep NV_f.
  Qed.
End V.

(* C10: in every reachable state the rebalance leaves the module's stake on a validator that is not
   bonded, and that validator's staking record, exactly as they were *)
Theorem unbonded_validators_are_not_adjusted h als v s' : let s := run init_state h in
  match kget (svals s) [v] with Some sv => is_bonded sv = false | None => True end ->
  rebalance_bond_token_weights als s = Ok tt s' ->
  kget (sdels s') [v] = kget (sdels s) [v] /\ kget (svals s') [v] = kget (svals s) [v].
Proof.
  intros s Hnb Hrun.
  pose proof (reachable_Sorted h) as (_&_&_&_&_&_&_&_&_&_&_&Hsv&Hsd). fold s in Hsv, Hsd.
  pose proof (nv_rebalance v (kget (sdels s) [v]) (kget (svals s) [v]) Hnb als s (conj Hsv (conj Hsd (conj eq_refl eq_refl)))) as H.
  rewrite Hrun in H. destruct H as (_ & _ & H3 & H4). split; assumption.
Qed.

(* Determinism.v — C19.  Static half: the rule of DeterminismDefs.v holds of the
   facts the translator tools/srcfacts regenerates from /repo's source on every run. *)
From Coq Require Import String ZArith List Bool.
From Alliance Require Import SourceFacts.
From Alliance.Proofs Require Export DeterminismDefs.
Import ListNotations.
Open Scope string_scope.

Lemma static_rule_checked : forallb admissible_fact source_facts = true.
Proof. vm_compute. reflexivity. Qed.

Theorem static_rule : forall f, In f source_facts -> admissible_fact f = true.
Proof. apply forallb_forall. exact static_rule_checked. Qed.

Lemma scanned_enough : (30 <=? files_scanned)%nat = true.
Proof. vm_compute. reflexivity. Qed.

(* RedelCleanup.v — C15: when CompleteRedelegations has run, every entry of every matured
   bucket of the time queue has lost its record (delegator, denom, destination, time) and its
   per-source index key; combined with Queues.complete_redelegations_spec (exactly the matured
   buckets leave the queue) nothing of a matured redelegation is left behind. *)
From Coq Require Import ZArith List Bool Lia.
From Alliance Require Import Num KMap KMapFacts KMapSorted Types Monad Model Step Spec Hoare.
From Alliance.Proofs Require Import SortedInv Queues.
Import ListNotations.
Open Scope Z_scope.

Definition RS (s : State) : Prop := ksorted (redels s) /\ ksorted (redelidx s).
Definition rkey (ct : Z) (r : Redel) : Key := [r_del r; r_denom r; r_dst r; ct].
Definition ikey (ct : Z) (r : Redel) : Key := [r_src r; ct; r_denom r; r_dst r; r_del r].
Definition RGone (kr ki : Key) (s : State) : Prop := RS s /\ kget (redels s) kr = None /\ kget (redelidx s) ki = None.

Definition del_entry (ct : Z) (r : Redel) : M unit :=
  modify (fun s => set_redelidx (kdel (redelidx s) [r_src r; ct; r_denom r; r_dst r; r_del r])
                     (set_redels (kdel (redels s) [r_del r; r_denom r; r_dst r; ct]) s)).

Lemma kget_kdel_none {V} (m : KMap V) k k' : ksorted m -> kget m k' = None -> kget (kdel m k) k' = None.
Proof.
  intros Hs Hn. destruct (list_eq_dec Z.eq_dec k' k) as [->|Hne]; [apply kget_kdel_same; exact Hs|].
  rewrite kget_kdel_other by assumption. exact Hn.
Qed.

Lemma rs_del ct r : hoare RS (del_entry ct r) (fun _ => RS) (fun _ => False).
Proof. apply hoare_modify. intros s [H1 H2]. split; cbn; apply ksorted_kdel; assumption. Qed.
Lemma gone_del kr ki ct r : hoare (RGone kr ki) (del_entry ct r) (fun _ => RGone kr ki) (fun _ => False).
Proof.
  apply hoare_modify. intros s ([H1 H2] & H3 & H4). split; [split; cbn; apply ksorted_kdel; assumption|].
  cbn. split; apply kget_kdel_none; assumption.
Qed.
Lemma hits_del ct r : hoare RS (del_entry ct r) (fun _ => RGone (rkey ct r) (ikey ct r)) (fun _ => False).
Proof.
  apply hoare_modify. intros s [H1 H2]. split; [split; cbn; apply ksorted_kdel; assumption|].
  cbn. split; apply kget_kdel_same; assumption.
Qed.

Lemma gone_entries kr ki ct : forall l, hoare (RGone kr ki) (mfor l (del_entry ct)) (fun _ => RGone kr ki) (fun _ => False).
Proof. intros l. apply hoare_mfor. intros r. apply gone_del. Qed.
Lemma rs_entries ct : forall l, hoare RS (mfor l (del_entry ct)) (fun _ => RS) (fun _ => False).
Proof. intros l. apply hoare_mfor. intros r. apply rs_del. Qed.

Lemma hits_entries ct r0 : forall l, In r0 l ->
  hoare RS (mfor l (del_entry ct)) (fun _ => RGone (rkey ct r0) (ikey ct r0)) (fun _ => False).
Proof.
  induction l as [|r l IH]; intros Hin; [destruct Hin|]. cbn [mfor]. destruct Hin as [->|Hin].
  - eapply hoare_bind; [apply hits_del|]. intros ?; cbv beta. apply gone_entries.
  - eapply hoare_bind; [apply rs_del|]. intros ?; cbv beta. apply IH; exact Hin.
Qed.

Lemma redel_body_unfold ct l : redel_body ([ct], l) = (mfor l (del_entry ct) ;;; modify (fun s => set_redelq (kdel (redelq s) [ct]) s)).
Proof. reflexivity. Qed.

Lemma rs_body kv : hoare RS (redel_body kv) (fun _ => RS) (fun _ => False).
Proof.
  destruct kv as [k l]. destruct k as [|ct [|]]; try (unfold redel_body; cbn [fst]; apply hoare_ret; auto).
  rewrite redel_body_unfold.
  eapply hoare_bind; [apply rs_entries|]. intros ?; cbv beta. apply hoare_modify. intros s H; exact H.
Qed.
Lemma gone_body kr ki kv : hoare (RGone kr ki) (redel_body kv) (fun _ => RGone kr ki) (fun _ => False).
Proof.
  destruct kv as [k l]. destruct k as [|ct [|]]; try (unfold redel_body; cbn [fst]; apply hoare_ret; auto).
  rewrite redel_body_unfold.
  eapply hoare_bind; [apply gone_entries|]. intros ?; cbv beta. apply hoare_modify. intros s H; exact H.
Qed.
Lemma hits_body ct l r0 : In r0 l -> hoare RS (redel_body ([ct], l)) (fun _ => RGone (rkey ct r0) (ikey ct r0)) (fun _ => False).
Proof.
  intros Hin. rewrite redel_body_unfold. eapply hoare_bind; [apply hits_entries; exact Hin|]. intros ?; cbv beta.
  apply hoare_modify. intros s H; exact H.
Qed.

Lemma hits_loop ct l r0 : In r0 l -> forall q : KMap (list Redel), In (([ct] : Key), l) q ->
  hoare RS (mfor q redel_body) (fun _ => RGone (rkey ct r0) (ikey ct r0)) (fun _ => False).
Proof.
  intros Hr. induction q as [|kv q IH]; intros Hin; [destruct Hin|]. cbn [mfor]. destruct Hin as [->|Hin].
  - eapply hoare_bind; [apply hits_body; exact Hr|]. intros ?; cbv beta. apply hoare_mfor. intros kv'. apply gone_body.
  - eapply hoare_bind; [apply rs_body|]. intros ?; cbv beta. apply IH; exact Hin.
Qed.

(* C15: nothing of a matured redelegation entry is left in the record store or in the per-source index *)
Theorem matured_redelegations_are_cleaned_up h ct l r : let s := run init_state h in
  In ([ct], l) (redelq s) -> ct < now s -> In r l ->
  exists s', complete_redelegations s = Ok tt s' /\
    kget (redels s') [r_del r; r_denom r; r_dst r; ct] = None /\
    kget (redelidx s') [r_src r; ct; r_denom r; r_dst r; r_del r] = None.
Proof.
  intros s Hin Hct Hr. rewrite complete_redelegations_unfold. unfold bind at 1, gets at 1. unfold bind at 1, gets at 1.
  set (q := kfilter (fun k => match k with [ct0] => ct0 <? now s | _ => false end) (redelq s)).
  assert (Hq : In ([ct], l) q).
  { unfold q, kfilter. apply filter_In. split; [exact Hin|]. cbn. apply Z.ltb_lt. exact Hct. }
  assert (Hs : RS s).
  { pose proof (reachable_Sorted h) as (?&?&?&?&?&?&?&?&?&?&?&?&?). split; assumption. }
  pose proof (hits_loop ct l r Hr q Hq s Hs) as H.
  revert H. destruct (mfor q redel_body s) as [x s'|? ?|? ?]; intros H; try contradiction.
  destruct x. exists s'. split; [reflexivity|]. destruct H as (_ & H1 & H2). split; assumption.
Qed.

(* Targeted.v — C04: a user message writes no delegation record but the actor's own.  For every state,
   every outcome: Delegate / Undelegate / Claim by (delegator, validator, denom) leave every OTHER
   delegation record (shares, reward history, claim height) exactly as it was; Redelegate every
   record other than the actor's source and destination positions.  (What can move for other
   delegators is only the price of their shares — the validator's and the asset's totals — which is
   the subject of the value clauses and of C03.) *)
From Coq Require Import ZArith List Bool Lia.
From Alliance Require Import Num KMap KMapFacts KMapSorted Types Monad Model Step Spec Hoare.
From Alliance.Proofs Require Import SortedInv.
Import ListNotations.
Open Scope Z_scope.

Section K.
  Variable K : Key.
  Variable x : option Delegation.
  Definition DK (s : State) : Prop := ksorted (delegations s) /\ kget (delegations s) K = x.
  Lemma DK_f : forall s s', delegations s' = delegations s -> DK s -> DK s'.
  Proof. unfold DK. intros s s' E H. rewrite E. exact H. Qed.

  Lemma dk_set_delegation del v dn d : [del; v; dn] <> K -> inv DK (set_delegation del v dn d).
  Proof.
    intros Hne. unfold set_delegation. apply inv_modify. intros s [Hs Hk]. split; cbn; [apply ksorted_kset; exact Hs|].
    rewrite kget_kset_other by (auto; congruence). exact Hk.
  Qed.
  Lemma dk_del_delegation del v dn : [del; v; dn] <> K -> inv DK (del_delegation del v dn).
  Proof.
    intros Hne. unfold del_delegation. apply inv_modify. intros s [Hs Hk]. split; cbn; [apply ksorted_kdel; exact Hs|].
    rewrite kget_kdel_other by (auto; congruence). exact Hk.
  Qed.

  Ltac dk :=
    repeat first
      [ lazymatch goal with
        | |- inv DK (set_delegation _ _ _ _) => apply dk_set_delegation; auto
        | |- inv DK (del_delegation _ _ _) => apply dk_del_delegation; auto
        | |- inv DK (modify _) =>
          apply inv_modify; let s := fresh "s" in let Hs := fresh "Hs" in
          intros s Hs; apply (DK_f s); [reflexivity | exact Hs]
        end
      | inv_step
      | lazymatch goal with |- inv _ ?m => let h := head_of m in unfold h end ].

  Lemma dk_msg_delegate del v dn amt : (forall d', [del; v; d'] <> K) -> inv DK (msg_delegate del v dn amt).
  Proof. intros Hne. dk. Qed.
  Lemma dk_msg_undelegate del v dn amt : (forall d', [del; v; d'] <> K) -> inv DK (msg_undelegate del v dn amt).
  Proof. intros Hne. dk. Qed.
  Lemma dk_msg_claim del v dn : (forall d', [del; v; d'] <> K) -> inv DK (msg_claim del v dn).
  Proof. intros Hne. dk. Qed.
  Lemma dk_msg_redelegate del src dst dn amt : (forall d', [del; src; d'] <> K) -> (forall d', [del; dst; d'] <> K) ->
    inv DK (msg_redelegate del src dst dn amt).
  Proof. intros Hne1 Hne2. dk. Qed.
End K.

(* the (delegator, validator) pairs a user message acts for *)
Definition actor_pairs (o : Op) : list (Z * Z) :=
  match o with
  | ODelegate del v _ _ | OUndelegate del v _ _ | OClaim del v _ => [(del, v)]
  | ORedelegate del src dst _ _ => [(del, src); (del, dst)]
  | _ => []
  end.

(* every reachable state, every user message, every outcome: the delegation records of every other
   (delegator, validator) pair are exactly what they were *)
Theorem other_delegation_records_untouched h o del' v' dn' : let s := run init_state h in
  match o with ODelegate _ _ _ _ | OUndelegate _ _ _ _ | OClaim _ _ _ | ORedelegate _ _ _ _ _ => True | _ => False end ->
  ~ In (del', v') (actor_pairs o) ->
  kget (delegations (fst (step s o))) [del'; v'; dn'] = kget (delegations s) [del'; v'; dn'].
Proof.
  intros s Ho Hk. set (K := [del'; v'; dn']).
  pose proof (reachable_Sorted h) as (_&_&_&Hd&_). fold s in Hd.
  assert (W : forall m : M unit, inv (DK K (kget (delegations s) K)) m ->
              kget (delegations (fst (clear_oracle (tx m s)))) K = kget (delegations s) K).
  { intros m Hm. specialize (Hm s (conj Hd eq_refl)). unfold tx, clear_oracle. destruct (m s) as [[] s1|e s1|e s1]; cbn; try reflexivity.
    destruct Hm as [_ H]. exact H. }
  destruct o; try contradiction; cbn [step actor_pairs In] in *; apply W.
  - apply dk_msg_delegate. intros d' E. apply Hk. left. unfold K in E. inversion E; reflexivity.
  - apply dk_msg_undelegate. intros d' E. apply Hk. left. unfold K in E. inversion E; reflexivity.
  - apply dk_msg_redelegate; intros d' E; apply Hk; [left | right; left]; unfold K in E; inversion E; reflexivity.
  - apply dk_msg_claim. intros d' E. apply Hk. left. unfold K in E. inversion E; reflexivity.
Qed.

(* QueriesExact.v — C20: the unbonding queries are exact views of the pending entries.
   For every completion time, the answers of AllianceUnbondings(denom, delegator, validator)
   carrying that time are exactly the entries of the delegator's bucket for that time that
   belong to the validator and denom — each once, in order, with the stored balance — in every
   state in which each pending entry has its index key (IndexSync: every reachable state). *)
From Coq Require Import ZArith List Bool Lia.
From Alliance Require Import Num KMap KMapFacts KMapSorted Types Monad Model Step Queries Spec Hoare.
From Alliance.Proofs Require Import SortedInv IndexSync.
Import ListNotations.
Open Scope Z_scope.

Definition ans_time (a : UnbAnswer) : Z := snd (fst (fst a)).

Lemma answers_time ct v dn l : Forall (fun a => ans_time a = ct) (answers_of ct v dn l).
Proof. unfold answers_of. apply Forall_forall. intros a Hin. apply in_map_iff in Hin. destruct Hin as (u & <- & _). reflexivity. Qed.

Lemma filter_all {A} (p : A -> bool) l : Forall (fun a => p a = true) l -> filter p l = l.
Proof. intros H; induction H as [|a l Ha Hl IH]; cbn; [reflexivity|]. rewrite Ha, IH. reflexivity. Qed.
Lemma filter_none {A} (p : A -> bool) l : Forall (fun a => p a = false) l -> filter p l = [].
Proof. intros H; induction H as [|a l Ha Hl IH]; cbn; [reflexivity|]. rewrite Ha, IH. reflexivity. Qed.
Lemma filter_flat_map {A B} (p : B -> bool) (F : A -> list B) l : filter p (flat_map F l) = flat_map (fun x => filter p (F x)) l.
Proof. induction l as [|x l IH]; cbn; [reflexivity|]. rewrite filter_app, IH. reflexivity. Qed.

Section Q.
  Variables (s : State) (dn del v : Z).

  Definition contrib (ku : Key * unit) : list UnbAnswer :=
    match fst ku with
    | [v'; ct; dn1; del1] => if (v' =? v) && (dn1 =? dn) && (del1 =? del) then answers_of ct v dn (bucket_of s ct del) else []
    | _ => []
    end.

  (* the contribution of an index key, restricted to time ct *)
  Lemma contrib_at ct ku : filter (fun a => ans_time a =? ct) (contrib ku) =
    if keqb (fst ku) [v; ct; dn; del] then answers_of ct v dn (bucket_of s ct del) else [].
  Proof.
    unfold contrib.
    assert (Hshape : forall k : Key, (forall a b c d, k <> [a; b; c; d]) ->
              @nil UnbAnswer = if keqb k [v; ct; dn; del] then answers_of ct v dn (bucket_of s ct del) else []).
    { intros k Hk. destruct (keqb k [v; ct; dn; del]) eqn:Ek; [|reflexivity]. exfalso.
      unfold keqb in Ek. destruct (kcmp k [v; ct; dn; del]) eqn:E; try discriminate. apply kcmp_eq in E. exact (Hk _ _ _ _ E). }
    destruct (fst ku) as [|v' [|ct1 [|dn1 [|del1 [|]]]]]; try (cbn [filter]; apply Hshape; intros; discriminate).
    destruct ((v' =? v) && (dn1 =? dn) && (del1 =? del)) eqn:Em.
    - apply andb_prop in Em. destruct Em as [Em E3]. apply andb_prop in Em. destruct Em as [E1 E2].
      apply Z.eqb_eq in E1, E2, E3. subst v' dn1 del1.
      destruct (Z.eq_dec ct1 ct) as [->|Hne].
      + assert (Ek : keqb [v; ct; dn; del] [v; ct; dn; del] = true) by (unfold keqb; rewrite kcmp_refl; reflexivity). rewrite Ek.
        apply filter_all. eapply Forall_impl; [|apply answers_time]. intros a Ha. cbv beta in Ha. rewrite Ha. apply Z.eqb_refl.
      + assert (Ek : keqb [v; ct1; dn; del] [v; ct; dn; del] = false).
        { unfold keqb. destruct (kcmp [v; ct1; dn; del] [v; ct; dn; del]) eqn:E; try reflexivity. apply kcmp_eq in E. inversion E. contradiction. }
        rewrite Ek. apply filter_none. eapply Forall_impl; [|apply answers_time]. intros a Ha. cbv beta in Ha. rewrite Ha. apply Z.eqb_neq. exact Hne.
    - cbn [filter]. destruct (keqb [v'; ct1; dn1; del1] [v; ct; dn; del]) eqn:Ek; [|reflexivity].
      unfold keqb in Ek. destruct (kcmp [v'; ct1; dn1; del1] [v; ct; dn; del]) eqn:E; try discriminate. apply kcmp_eq in E. inversion E; subst.
      rewrite !Z.eqb_refl in Em. discriminate.
  Qed.

  (* over a sorted map (distinct keys) exactly the key [v; ct; dn; del], if present, contributes *)
  Lemma one_key ct (G : list UnbAnswer) (m : KMap unit) : ksorted m ->
    flat_map (fun ku => if keqb (fst ku) [v; ct; dn; del] then G else []) m =
    if kmem m [v; ct; dn; del] then G else [].
  Proof.
    intros Hs. unfold kmem. induction m as [|[k0 []] m IH]; cbn [flat_map kget fst]; [reflexivity|].
    apply ksorted_inv in Hs. destruct Hs as [Hm Hall]. unfold keqb at 1. rewrite kcmp_antisym.
    destruct (kcmp [v; ct; dn; del] k0) eqn:E; cbn [CompOpp].
    - (* this is the key; no later key equals it *)
      apply kcmp_eq in E. subst k0. rewrite IH by exact Hm. rewrite (kget_below _ _ Hall). apply app_nil_r.
    - (* the key is smaller than every key of the map: absent *)
      cbn [app]. rewrite IH by exact Hm. assert (Hb : kget m [v; ct; dn; del] = None).
      { apply kget_below. eapply Forall_impl; [|exact Hall]. intros y Hy. eapply klt_trans; [exact E | exact Hy]. }
      rewrite Hb. reflexivity.
    - cbn [app]. apply IH; exact Hm.
  Qed.

  (* C20: the answers carrying completion time ct *)
  Theorem unbondings_at_time ct : ksorted (undelidx s) ->
    filter (fun a => ans_time a =? ct) (q_unbondings s dn del v) =
    if kmem (undelidx s) [v; ct; dn; del] then answers_of ct v dn (bucket_of s ct del) else [].
  Proof.
    intros Hs. unfold q_unbondings. rewrite filter_flat_map.
    rewrite (flat_map_ext _ (fun ku => if keqb (fst ku) [v; ct; dn; del] then answers_of ct v dn (bucket_of s ct del) else [])).
    - apply one_key; exact Hs.
    - intros ku. apply (contrib_at ct ku).
  Qed.
End Q.

(* with the index in sync (every reachable state) the key is there whenever the bucket has a matching entry:
   the answers at time ct are EXACTLY the matching entries of the bucket (ct, delegator) *)
Theorem unbondings_query_exact h dn del v ct : let s := run init_state h in
  filter (fun a => ans_time a =? ct) (q_unbondings s dn del v) = answers_of ct v dn (bucket_of s ct del).
Proof.
  intros s. destruct (run_IS h init_state IS_init) as (Hq & Hi & Hall). fold s in Hq, Hi, Hall.
  rewrite unbondings_at_time by exact Hi. unfold kmem.
  destruct (kget (undelidx s) [v; ct; dn; del]) eqn:Ek; [reflexivity|].
  (* no key: then no entry of the bucket matches (every entry has its key) *)
  unfold answers_of, bucket_of. destruct (kget (undelq s) [ct; del]) as [l|] eqn:Eb; [|reflexivity].
  destruct (kall_kget _ _ _ _ Hall Eb) as (ct1 & dl1 & E & Hok). inversion E; subst ct1 dl1.
  assert (Hn : filter (fun u => (u_val u =? v) && (u_denom u =? dn)) l = []).
  { apply filter_none. eapply Forall_impl; [|exact Hok]. intros u [_ Hidx]. cbv beta.
    destruct ((u_val u =? v) && (u_denom u =? dn)) eqn:Em; [|reflexivity]. apply andb_prop in Em. destruct Em as [E1 E2].
    apply Z.eqb_eq in E1, E2. rewrite E1, E2 in Hidx. congruence. }
  rewrite Hn. reflexivity.
Qed.

(* nothing foreign: every answer is an entry of this validator, denom and delegator's bucket, with the stored balance *)
Theorem unbondings_query_sound s dn del v a : In a (q_unbondings s dn del v) ->
  exists u, In u (bucket_of s (ans_time a) del) /\ u_val u = v /\ u_denom u = dn /\ a = (v, ans_time a, u_amount u, dn).
Proof.
  unfold q_unbondings. intros Hin. apply in_flat_map in Hin. destruct Hin as (ku & _ & Hin).
  destruct (fst ku) as [|v1 [|ct1 [|dn1 [|del1 [|]]]]]; try destruct Hin.
  destruct ((v1 =? v) && (dn1 =? dn) && (del1 =? del)); [|destruct Hin].
  unfold answers_of in Hin. apply in_map_iff in Hin. destruct Hin as (u & <- & Hu). apply filter_In in Hu. destruct Hu as [Hu Hm].
  apply andb_prop in Hm. destruct Hm as [E1 E2]. apply Z.eqb_eq in E1, E2.
  exists u. cbn [ans_time fst snd]. repeat split; try assumption. rewrite E1, E2. reflexivity.
Qed.

(* ---------- the by-denom-and-delegator query: same, per (validator, time) ---------- *)
Definition ans_val (a : UnbAnswer) : Z := fst (fst (fst a)).
Lemma answers_val ct v dn l : Forall (fun a => ans_val a = v) (answers_of ct v dn l).
Proof.
  unfold answers_of. apply Forall_forall. intros a Hin. apply in_map_iff in Hin. destruct Hin as (u & <- & Hu).
  apply filter_In in Hu. destruct Hu as [_ Hm]. apply andb_prop in Hm. destruct Hm as [E _]. apply Z.eqb_eq in E. exact E.
Qed.

Section QD.
  Variables (s : State) (dn del v ct : Z).
  Definition pvt (a : UnbAnswer) : bool := (ans_val a =? v) && (ans_time a =? ct).

  Lemma contrib_denom_at (ku : Key * unit) :
    filter pvt (match fst ku with
                | [v1; ct1; dn1; del1] => if (dn1 =? dn) && (del1 =? del) then answers_of ct1 v1 dn (bucket_of s ct1 del) else []
                | _ => [] end) =
    if keqb (fst ku) [v; ct; dn; del] then answers_of ct v dn (bucket_of s ct del) else [].
  Proof.
    assert (Hshape : forall k : Key, (forall a b c d, k <> [a; b; c; d]) ->
              @nil UnbAnswer = if keqb k [v; ct; dn; del] then answers_of ct v dn (bucket_of s ct del) else []).
    { intros k Hk. destruct (keqb k [v; ct; dn; del]) eqn:Ek; [|reflexivity]. exfalso.
      unfold keqb in Ek. destruct (kcmp k [v; ct; dn; del]) eqn:E; try discriminate. apply kcmp_eq in E. exact (Hk _ _ _ _ E). }
    destruct (fst ku) as [|v1 [|ct1 [|dn1 [|del1 [|]]]]]; try (cbn [filter]; apply Hshape; intros; discriminate).
    destruct ((dn1 =? dn) && (del1 =? del)) eqn:Em.
    - apply andb_prop in Em. destruct Em as [E2 E3]. apply Z.eqb_eq in E2, E3. subst dn1 del1.
      destruct (Z.eq_dec v1 v) as [->|Hv]; [destruct (Z.eq_dec ct1 ct) as [->|Hc]|].
      + assert (Ek : keqb [v; ct; dn; del] [v; ct; dn; del] = true) by (unfold keqb; rewrite kcmp_refl; reflexivity). rewrite Ek.
        apply filter_all. apply Forall_forall. intros a Ha. unfold pvt.
        pose proof (answers_val ct v dn (bucket_of s ct del)) as H1. pose proof (answers_time ct v dn (bucket_of s ct del)) as H2.
        rewrite Forall_forall in H1, H2. rewrite (H1 a Ha), (H2 a Ha), !Z.eqb_refl. reflexivity.
      + assert (Ek : keqb [v; ct1; dn; del] [v; ct; dn; del] = false).
        { unfold keqb. destruct (kcmp [v; ct1; dn; del] [v; ct; dn; del]) eqn:E; try reflexivity. apply kcmp_eq in E. inversion E. contradiction. }
        rewrite Ek. apply filter_none. apply Forall_forall. intros a Ha. unfold pvt.
        pose proof (answers_time ct1 v dn (bucket_of s ct1 del)) as H2. rewrite Forall_forall in H2. rewrite (H2 a Ha).
        assert (E : ct1 =? ct = false) by (apply Z.eqb_neq; exact Hc). rewrite E. apply Bool.andb_false_r.
      + assert (Ek : keqb [v1; ct1; dn; del] [v; ct; dn; del] = false).
        { unfold keqb. destruct (kcmp [v1; ct1; dn; del] [v; ct; dn; del]) eqn:E; try reflexivity. apply kcmp_eq in E. inversion E. contradiction. }
        rewrite Ek. apply filter_none. apply Forall_forall. intros a Ha. unfold pvt.
        pose proof (answers_val ct1 v1 dn (bucket_of s ct1 del)) as H1. rewrite Forall_forall in H1. rewrite (H1 a Ha).
        assert (E : v1 =? v = false) by (apply Z.eqb_neq; exact Hv). rewrite E. reflexivity.
    - cbn [filter]. destruct (keqb [v1; ct1; dn1; del1] [v; ct; dn; del]) eqn:Ek; [|reflexivity].
      unfold keqb in Ek. destruct (kcmp [v1; ct1; dn1; del1] [v; ct; dn; del]) eqn:E; try discriminate. apply kcmp_eq in E. inversion E; subst.
      rewrite !Z.eqb_refl in Em. discriminate.
  Qed.
End QD.

Theorem unbondings_by_denom_query_exact h dn del v ct : let s := run init_state h in
  filter (pvt v ct) (q_unbondings_by_denom s dn del) = answers_of ct v dn (bucket_of s ct del).
Proof.
  intros s. destruct (run_IS h init_state IS_init) as (Hq & Hi & Hall). fold s in Hq, Hi, Hall.
  unfold q_unbondings_by_denom. rewrite filter_flat_map.
  rewrite (flat_map_ext _ (fun ku => if keqb (fst ku) [v; ct; dn; del] then answers_of ct v dn (bucket_of s ct del) else [])).
  2:{ intros ku. apply (contrib_denom_at s dn del v ct ku). }
  rewrite (one_key dn del v ct _ _ Hi). unfold kmem.
  destruct (kget (undelidx s) [v; ct; dn; del]) eqn:Ek; [reflexivity|].
  unfold answers_of, bucket_of. destruct (kget (undelq s) [ct; del]) as [l|] eqn:Eb; [|reflexivity].
  destruct (kall_kget _ _ _ _ Hall Eb) as (ct1 & dl1 & E & Hok). inversion E; subst ct1 dl1.
  assert (Hn : filter (fun u => (u_val u =? v) && (u_denom u =? dn)) l = []).
  { apply filter_none. eapply Forall_impl; [|exact Hok]. intros u [_ Hidx]. cbv beta.
    destruct ((u_val u =? v) && (u_denom u =? dn)) eqn:Em; [|reflexivity]. apply andb_prop in Em. destruct Em as [E1 E2].
    apply Z.eqb_eq in E1, E2. rewrite E1, E2 in Hidx. congruence. }
  rewrite Hn. reflexivity.
Qed.

(* ---------- redelegation queries ---------- *)
Lemma kprefix_spec p : forall k, kprefix p k = true <-> exists r, k = p ++ r.
Proof.
  induction p as [|x p IH]; intros k; cbn [kprefix app].
  - split; [intros _; exists k; reflexivity | reflexivity].
  - destruct k as [|y k]; [split; [discriminate | intros [r E]; discriminate]|].
    rewrite andb_true_iff, Z.eqb_eq, IH. split.
    + intros [-> [r ->]]. exists r; reflexivity.
    + intros [r E]. inversion E; subst. split; [reflexivity | exists r; reflexivity].
Qed.

(* the query by (delegator, denom) answers exactly the records filed under that delegator and denom:
   one answer per record, carrying the record's fields and the completion time of its key *)
Theorem redelegations_query_exact s del dn a :
  In a (q_redelegations s del dn) <->
  exists dst ct r, In ([del; dn; dst; ct], r) (redels s) /\
                   a = (r_del r, r_src r, r_dst r, r_denom r, r_amount r, ct).
Proof.
  unfold q_redelegations. rewrite in_flat_map. split.
  - intros [[k r] [Hin Ha]]. unfold kfilter in Hin. apply filter_In in Hin. destruct Hin as [Hin Hp]. cbn [fst] in Hp.
    apply kprefix_spec in Hp. destruct Hp as [rest ->]. unfold red_answer in Ha. cbn [fst snd app] in Ha.
    destruct rest as [|dst [|ct [|? ?]]]; try (destruct Ha; fail). destruct Ha as [<-|[]]. exists dst, ct, r. split; [exact Hin | reflexivity].
  - intros (dst & ct & r & Hin & ->). exists ([del; dn; dst; ct], r). split.
    + unfold kfilter. apply filter_In. split; [exact Hin|]. cbn [fst]. apply kprefix_spec. exists [dst; ct]. reflexivity.
    + unfold red_answer. cbn. left. reflexivity.
Qed.

(* each record once: in a reachable state the answers are as many as the matching records *)
Theorem redelegations_query_once h del dn : let s := run init_state h in
  length (q_redelegations s del dn) = length (filter (fun kr => match fst kr with [d0; n0; _; _] => (d0 =? del) && (n0 =? dn) | _ => false end) (redels s)).
Proof.
  intros s. unfold q_redelegations, kfilter. induction (redels s) as [|[k r] m IH]; [reflexivity|]. cbn [filter fst].
  destruct (kprefix [del; dn] k) eqn:Ep.
  - apply kprefix_spec in Ep. destruct Ep as [rest ->]. cbn [app flat_map red_answer fst snd].
    destruct rest as [|dst [|ct [|? ?]]]; cbn [app length]; rewrite ?Z.eqb_refl; cbn [andb length]; rewrite ?IH; try reflexivity.
  - assert (E : match k with [d0; n0; _; _] => (d0 =? del) && (n0 =? dn) | _ => false end = false).
    { destruct k as [|d0 [|n0 [|x [|y [|? ?]]]]]; try reflexivity.
      destruct ((d0 =? del) && (n0 =? dn)) eqn:E; [|reflexivity]. apply andb_prop in E. destruct E as [E1 E2].
      apply Z.eqb_eq in E1, E2. subst. exfalso. cbn in Ep. rewrite !Z.eqb_refl in Ep. discriminate. }
    rewrite E. exact IH.
Qed.

(* ---------- the by-delegator unbonding query: the by-denom answers of the whitelisted assets ---------- *)
Definition ans_denom (a : UnbAnswer) : Z := snd a.
Lemma answers_denom ct v dn l : Forall (fun a => ans_denom a = dn) (answers_of ct v dn l).
Proof.
  unfold answers_of. apply Forall_forall. intros a Hin. apply in_map_iff in Hin. destruct Hin as (u & <- & Hu).
  apply filter_In in Hu. destruct Hu as [_ Hm]. apply andb_prop in Hm. destruct Hm as [_ E]. apply Z.eqb_eq in E. exact E.
Qed.
Lemma by_denom_answers_denom s dn del : Forall (fun a => ans_denom a = dn) (q_unbondings_by_denom s dn del).
Proof.
  unfold q_unbondings_by_denom. apply Forall_forall. intros a Hin. apply in_flat_map in Hin. destruct Hin as ([k u] & _ & Ha).
  cbn [fst] in Ha. destruct k as [|v1 [|ct1 [|dn1 [|del1 [|]]]]]; try destruct Ha.
  destruct ((dn1 =? dn) && (del1 =? del)); [|destruct Ha].
  pose proof (answers_denom ct1 v1 dn (bucket_of s ct1 del)) as H. rewrite Forall_forall in H. exact (H a Ha).
Qed.

(* the answers of the by-delegator query that carry denom dn are exactly the by-denom answers, once per
   whitelisted asset record of that denom (reachable states have at most one) *)
Theorem unbondings_by_delegator_exact s del dn :
  filter (fun a => ans_denom a =? dn) (q_unbondings_by_delegator s del) =
  flat_map (fun ka => if a_denom (snd ka) =? dn then q_unbondings_by_denom s dn del else []) (assets s).
Proof.
  unfold q_unbondings_by_delegator. rewrite filter_flat_map. apply flat_map_ext. intros ka.
  destruct (a_denom (snd ka) =? dn) eqn:E.
  - apply Z.eqb_eq in E. rewrite E. apply filter_all. eapply Forall_impl; [|apply by_denom_answers_denom].
    intros a Ha. cbv beta in Ha. rewrite Ha. apply Z.eqb_refl.
  - apply filter_none. eapply Forall_impl; [|apply by_denom_answers_denom]. intros a Ha. cbv beta in Ha. rewrite Ha. exact E.
Qed.

From Alliance.Proofs Require Import WellKeyed SortedInv.
Lemma one_asset_per_denom {X} (x : list X) (m : KMap Asset) dn : ksorted m -> kall (fun k a => k = [a_denom a]) m ->
  flat_map (fun ka => if a_denom (snd ka) =? dn then x else []) m = if kmem m [dn] then x else [].
Proof.
  intros Hs Hw. unfold kmem. induction m as [|[k a] m IH]; [reflexivity|].
  apply ksorted_inv in Hs. destruct Hs as [Hs Hall]. inversion Hw as [|? ? Hk Hw']; subst. cbn [fst snd] in Hk. subst k.
  cbn [flat_map snd kget]. specialize (IH Hs Hw').
  destruct (Z.eqb_spec (a_denom a) dn) as [E|Hne].
  - subst dn. rewrite kcmp_refl. rewrite IH.
    rewrite (kget_below [a_denom a] m Hall). apply app_nil_r.
  - rewrite IH. cbn [app].
    destruct (kcmp [dn] [a_denom a]) eqn:Ec.
    + apply kcmp_eq in Ec. inversion Ec. congruence.
    + (* [dn] < [a_denom a] <= every later key: not in the rest *)
      assert (Hb : Forall (fun y => klt [dn] (fst y)) m).
      { eapply Forall_impl; [|exact Hall]. intros y Hy. cbn in Hy. eapply klt_trans; [exact Ec | exact Hy]. }
      rewrite (kget_below [dn] m Hb). reflexivity.
    + reflexivity.
Qed.

Theorem unbondings_by_delegator_exact_reachable h del dn : let s := run init_state h in
  filter (fun a => ans_denom a =? dn) (q_unbondings_by_delegator s del) =
  if kmem (assets s) [dn] then q_unbondings_by_denom s dn del else [].
Proof.
  intros s. rewrite unbondings_by_delegator_exact. apply one_asset_per_denom.
  - pose proof (reachable_Sorted h) as (H & _). exact H.
  - exact (run_WK h init_state ltac:(constructor)).
Qed.

(* ShareLedger.v — C03, delegator half: for every validator and asset, in every reachable
   state, the shares recorded in the delegations of (validator, asset) sum to the validator's
   TotalDelegatorShares of that asset (0 when the validator has no record), and no delegation
   carries negative shares.  A consequence proved on the way: the rounding clamp of
   SubtractDecCoinsWithRounding never fires on delegator shares. *)
From Coq Require Import ZArith List Bool Lia.
From Alliance Require Import Num KMap KMapFacts KMapSorted CoinFacts Types Monad Model Step Spec Hoare.
From Alliance.Proofs Require Import SortedInv WellKeyed.
Import ListNotations.
Open Scope Z_scope.


Lemma kget_in_sorted_vi (m : KMap ValInfo) kv : ksorted m -> In kv m -> kget m (fst kv) = Some (snd kv).
Proof.
  intros Hm Hin; induction m as [|[k0 v0] m IH]; [destruct Hin|].
  apply ksorted_inv in Hm. destruct Hm as [Hm Hall]. cbn [kget]. destruct Hin as [<-|Hin].
  - cbn. rewrite kcmp_refl. reflexivity.
  - rewrite Forall_forall in Hall. specialize (Hall kv Hin). cbn in Hall.
    rewrite (kcmp_lt_gt _ _ Hall). apply IH; assumption.
Qed.

Section Pair.
  Variables (v dn : Z).

  (* shares of a delegation record counted for (v, dn) *)
  Definition fsh (k : Key) (x : Delegation) : Z :=
    match k with [_; v1; dn1] => if (v1 =? v) && (dn1 =? dn) then d_shares x else 0 | _ => 0 end.
  Definition SUM (s : State) : Z := ksum fsh (delegations s).
  Definition stored_vi (s : State) (v0 : Z) : ValInfo := match kget (valinfos s) [v0] with Some vi => vi | None => empty_valinfo end.
  Definition TOT (s : State) : Z := camount (vi_dshares (stored_vi s v)) dn.

  (* structural part: sorted maps, every stored validator record has denom-sorted share lists,
     every delegation has non-negative shares, delegation keys have three components *)
  Definition vi_ok (vi : ValInfo) : Prop := csorted (vi_dshares vi) /\ csorted (vi_vshares vi).
  Definition Base0 (s : State) : Prop :=
    ksorted (delegations s) /\ ksorted (valinfos s) /\ vall vi_ok (valinfos s) /\ WK s /\
    kall (fun k (_ : Delegation) => exists a b c, k = [a; b; c]) (delegations s).
  Definition NN (s : State) : Prop := vall (fun x => 0 <= d_shares x) (delegations s).
  Definition Base (s : State) : Prop := Base0 s /\ NN s.
  (* [g] guards the non-negativity part: between the write of a delegation and the sign check of
     the shares just added the guard is "the shares added are non-negative" *)
  Definition JDg (g : Prop) (delta : Z) (s : State) : Prop := Base0 s /\ (g -> NN s) /\ SUM s = TOT s + delta.
  Definition JD (delta : Z) (s : State) : Prop := JDg True delta s.

  Definition sl_proj (s : State) := (delegations s, valinfos s, assets s).
  Lemma JDg_f g delta : forall s s', sl_proj s' = sl_proj s -> JDg g delta s -> JDg g delta s'.
  Proof.
    unfold sl_proj, JDg, Base0, NN, WK, SUM, TOT, stored_vi. intros s s' E H. inversion E as [[E1 E2 E3]]. rewrite E1, E2, E3. exact H.
  Qed.
  Lemma JD_f delta : forall s s', sl_proj s' = sl_proj s -> JD delta s -> JD delta s'.
  Proof. apply JDg_f. Qed.

  Lemma JDg_eq g d1 d2 s : d1 = d2 -> JDg g d1 s -> JDg g d2 s.
  Proof. intros ->; auto. Qed.

  Lemma vi_ok_empty : vi_ok empty_valinfo.
  Proof. split; constructor. Qed.
  Lemma stored_ok s v0 : Base0 s -> vi_ok (stored_vi s v0).
  Proof.
    intros (_ & _ & Hv & _). unfold stored_vi. destruct (kget (valinfos s) [v0]) eqn:E; [|apply vi_ok_empty].
    exact (vall_kget _ _ _ _ Hv E).
  Qed.

  (* ---------- writing a validator record ---------- *)
  Lemma TOT_set_valinfo s v0 vi : ksorted (valinfos s) ->
    TOT (set_valinfos (kset (valinfos s) [v0] vi) s) = if v0 =? v then camount (vi_dshares vi) dn else TOT s.
  Proof.
    intros Hs. unfold TOT, stored_vi; cbn [valinfos set_valinfos]. destruct (v0 =? v) eqn:E.
    - apply Z.eqb_eq in E. subst. rewrite kget_kset_same. reflexivity.
    - apply Z.eqb_neq in E. rewrite kget_kset_other by (auto; congruence). reflexivity.
  Qed.
  Lemma Base0_set_valinfo s v0 vi : Base0 s -> vi_ok vi -> Base0 (set_valinfos (kset (valinfos s) [v0] vi) s).
  Proof.
    intros (H1 & H2 & H3 & H4 & H5) Hok. unfold Base0, WK; cbn [delegations valinfos assets set_valinfos].
    split; [exact H1|]. split; [apply ksorted_kset; exact H2|]. split; [apply vall_kset; assumption|]. split; [exact H4 | exact H5].
  Qed.
  (* a record whose delegator-share amount of dn is that of the stored record *)
  Lemma jd_set_valinfo g delta v0 vi x :
    hoare (fun s => JDg g delta s /\ vi_ok vi /\ (v0 = v -> camount (vi_dshares vi) dn = TOT s + x))
          (set_valinfo v0 vi) (fun _ => JDg g (delta - (if v0 =? v then x else 0))) (fun _ => False).
  Proof.
    unfold set_valinfo. apply hoare_modify. intros s ((Hb & Hn & Hsum) & Hok & Hp). split; [apply Base0_set_valinfo; assumption|].
    split; [exact Hn|]. unfold SUM in *. cbn [delegations set_valinfos].
    rewrite TOT_set_valinfo by (destruct Hb as (_ & H & _); exact H).
    destruct (v0 =? v) eqn:E; [apply Z.eqb_eq in E; rewrite (Hp E); lia | lia].
  Qed.

  (* ---------- writing a delegation ---------- *)
  Lemma SUM_set_delegation s k x : ksorted (delegations s) ->
    SUM (set_delegations (kset (delegations s) k x) s) = SUM s - (match kget (delegations s) k with Some o => fsh k o | None => 0 end) + fsh k x.
  Proof. intros Hs. unfold SUM; cbn [delegations set_delegations]. rewrite ksum_kset by exact Hs. unfold kval. reflexivity. Qed.
  Lemma SUM_del_delegation s k : ksorted (delegations s) ->
    SUM (set_delegations (kdel (delegations s) k) s) = SUM s - (match kget (delegations s) k with Some o => fsh k o | None => 0 end).
  Proof. intros Hs. unfold SUM; cbn [delegations set_delegations]. rewrite ksum_kdel by exact Hs. unfold kval. reflexivity. Qed.
  Lemma TOT_set_delegations s m : TOT (set_delegations m s) = TOT s.
  Proof. reflexivity. Qed.

  Lemma Base0_set_delegation s del v0 d0 x : Base0 s -> Base0 (set_delegations (kset (delegations s) [del; v0; d0] x) s).
  Proof.
    intros (H1 & H2 & H3 & H4 & H5). unfold Base0, WK; cbn [delegations valinfos assets set_delegations].
    split; [apply ksorted_kset; exact H1|]. split; [exact H2|]. split; [exact H3|]. split; [exact H4|].
    apply kall_kset; [exact H5 | eauto].
  Qed.
  Lemma Base0_del_delegation s k : Base0 s -> Base0 (set_delegations (kdel (delegations s) k) s).
  Proof.
    intros (H1 & H2 & H3 & H4 & H5). unfold Base0, WK; cbn [delegations valinfos assets set_delegations].
    split; [apply ksorted_kdel; exact H1|]. split; [exact H2|]. split; [exact H3|]. split; [exact H4 | apply kall_kdel; exact H5].
  Qed.
  Lemma NN_set_delegation s k x : NN s -> 0 <= d_shares x -> NN (set_delegations (kset (delegations s) k x) s).
  Proof. intros H Hx. unfold NN; cbn. apply vall_kset; assumption. Qed.
  Lemma NN_del_delegation s k : NN s -> NN (set_delegations (kdel (delegations s) k) s).
  Proof. intros H. unfold NN; cbn. apply vall_kdel; exact H. Qed.

  Definition hit (v0 d0 : Z) : bool := (v0 =? v) && (d0 =? dn).
  Lemma fsh_key del v0 d0 x : fsh [del; v0; d0] x = if hit v0 d0 then d_shares x else 0.
  Proof. reflexivity. Qed.

  (* non-negative shares: the sum is non-negative and bounds each member *)
  Lemma fsh_nonneg k x : 0 <= d_shares x -> 0 <= fsh k x.
  Proof. intros H. unfold fsh. destruct k as [|a [|b [|c [|]]]]; try lia. destruct ((b =? v) && (c =? dn)); lia. Qed.
  Lemma SUM_nonneg s : NN s -> 0 <= SUM s.
  Proof.
    unfold NN, SUM, vall, kall, ksum. intros H. induction H as [|[k x] m Hx _ IH]; cbn [fold_right fst snd]; [lia|].
    cbn [fst snd] in Hx. pose proof (fsh_nonneg k x Hx). lia.
  Qed.
  Lemma member_le_sum s del x : ksorted (delegations s) -> NN s -> kget (delegations s) [del; v; dn] = Some x -> d_shares x <= SUM s.
  Proof.
    unfold NN, SUM. generalize (delegations s). intros m Hs Hnn Hg.
    induction m as [|[k0 x0] m IH]; [discriminate|].
    apply ksorted_inv in Hs. destruct Hs as [Hs Hall]. inversion Hnn as [|? ? H0 Hnn']; subst. cbn [fst snd] in H0.
    assert (Hrest : 0 <= ksum fsh m).
    { clear - Hnn'. unfold ksum. induction Hnn' as [|[k1 x1] m1 Hx _ IHm]; cbn [fold_right fst snd]; [lia|]. cbn [fst snd] in Hx. pose proof (fsh_nonneg k1 x1 Hx). lia. }
    unfold ksum. cbn [fold_right fst snd]. fold (ksum fsh m). cbn [kget] in Hg.
    destruct (kcmp [del; v; dn] k0) eqn:E.
    - apply kcmp_eq in E. subst k0. inversion Hg; subst x0. rewrite fsh_key. unfold hit. rewrite !Z.eqb_refl. cbn. lia.
    - discriminate.
    - specialize (IH Hs Hnn' Hg). pose proof (fsh_nonneg k0 x0 H0). lia.
  Qed.

  (* ================= the keeper functions (success-only) ================= *)
  Definition PV (v0 : Z) (vi : ValInfo) (s : State) : Prop :=
    vi_ok vi /\ (v0 = v -> camount (vi_dshares vi) dn = TOT s).
  Definition hitZ (v0 d0 : Z) (x : Z) : Z := if hit v0 d0 then x else 0.

  Lemma PV_f v0 vi : forall s s', valinfos s' = valinfos s -> PV v0 vi s -> PV v0 vi s'.
  Proof. unfold PV, TOT, stored_vi. intros s s' E H. rewrite E. exact H. Qed.

  (* programs that write none of delegations / validator records / assets *)
  Ltac frame g delta := apply inv_hoare_true; inv_deep (JDg_f g delta).

  (* combining a triple with an invariant of another projection *)
  Lemma hoare_and_inv A (P : State -> Prop) (I : State -> Prop) (m : M A) (Q : A -> State -> Prop) :
    hoare P m Q (fun _ => True) -> inv I m -> hoare (fun s => P s /\ I s) m (fun a s => Q a s /\ I s) (fun _ => True).
  Proof. intros H1 H2 s [HP HI]. specialize (H1 s HP). specialize (H2 s HI). destruct (m s); auto. Qed.

  Lemma hoare_opt_or_panic A (P : State -> Prop) e (o : option A) :
    hoare P (opt_or_panic e o) (fun x s => P s /\ o = Some x) (fun _ => True).
  Proof. destruct o; cbn; [apply hoare_ret; auto | apply hoare_panic; auto]. Qed.

  (* ---------- GetAllianceValidator ---------- *)
  Lemma sl_get_alliance_validator g delta v0 :
    hoare (JDg g delta) (get_alliance_validator v0) (fun r s => JDg g delta s /\ PV v0 (snd r) s) (fun _ => True).
  Proof.
    unfold get_alliance_validator. eapply hoare_bind with (Q1 := fun _ => JDg g delta); [apply hoare_gets; auto|]. intros osv.
    destruct osv as [sv|]; [|apply hoare_fail; auto].
    apply hoare_bind_gets_eq. intros s0 Hs0.
    destruct (kget (valinfos s0) [v0]) as [vi|] eqn:Eg.
    - apply hoare_ret. intros s ->. split; [exact Hs0|]. cbn [snd]. split.
      + destruct Hs0 as ((_ & _ & Hv & _) & _). exact (vall_kget _ _ _ _ Hv Eg).
      + intros ->. unfold TOT, stored_vi. rewrite Eg. reflexivity.
    - eapply hoare_bind with (Q1 := fun _ s => JDg g delta s /\ PV v0 empty_valinfo s); [|intros _; apply hoare_ret; auto].
      intros s ->. pose proof (jd_set_valinfo g delta v0 empty_valinfo 0 s0) as H.
      assert (Hpre : JDg g delta s0 /\ vi_ok empty_valinfo /\ (v0 = v -> camount (vi_dshares empty_valinfo) dn = TOT s0 + 0)).
      { split; [exact Hs0|]. split; [apply vi_ok_empty|]. intros ->. unfold TOT, stored_vi. rewrite Eg. cbn. reflexivity. }
      specialize (H Hpre). unfold set_valinfo, modify in *. cbn in H |- *.
      split.
      + destruct (v0 =? v); rewrite Z.sub_0_r in H; exact H.
      + split; [apply vi_ok_empty|]. intros ->. unfold TOT, stored_vi. cbn [valinfos set_valinfos]. rewrite kget_kset_same. reflexivity.
  Qed.

  (* ---------- reward settlement: only reward histories change ---------- *)
  Lemma sl_add_assets g delta v0 vi coins :
    hoare (fun s => JDg g delta s /\ PV v0 vi s) (add_assets_to_reward_pool v0 vi coins)
          (fun vi' s => (JDg g delta s /\ PV v0 vi' s) /\ vi_dshares vi' = vi_dshares vi) (fun _ => True).
  Proof.
    unfold add_assets_to_reward_pool. destruct (length (vi_dshares vi) =? 0)%nat; [apply hoare_ret; intros s H; split; [exact H | reflexivity]|].
    eapply hoare_bind with (Q1 := fun _ s => JDg g delta s /\ PV v0 vi s); [unfold all_assets; apply hoare_gets; auto|]. intros als.
    eapply hoare_bind with (Q1 := fun _ s => JDg g delta s /\ PV v0 vi s); [apply hoare_gets; auto|]. intros t.
    eapply hoare_bind with (Q1 := fun _ s => JDg g delta s /\ PV v0 vi s).
    { apply hoare_and_inv; [frame g delta | inv_deep (PV_f v0 vi)]. }
    intros hist.
    eapply hoare_bind with (Q1 := fun _ s => JDg g delta s /\ PV v0 (set_vi_hist hist vi) s).
    { intros s [HJ [Hok Hp]]. pose proof (jd_set_valinfo g delta v0 (set_vi_hist hist vi) 0 s) as H.
      assert (Hpre : JDg g delta s /\ vi_ok (set_vi_hist hist vi) /\ (v0 = v -> camount (vi_dshares (set_vi_hist hist vi)) dn = TOT s + 0)).
      { split; [exact HJ|]. split; [exact Hok|]. intros E. cbn. rewrite (Hp E). lia. }
      specialize (H Hpre). unfold set_valinfo, modify in *. cbn in H |- *. split.
      - destruct (v0 =? v); rewrite Z.sub_0_r in H; exact H.
      - split; [exact Hok|]. intros ->. unfold TOT, stored_vi. cbn [valinfos set_valinfos]. rewrite kget_kset_same. reflexivity. }
    intros _.
    eapply hoare_bind with (Q1 := fun _ s => JDg g delta s /\ PV v0 (set_vi_hist hist vi) s).
    { apply hoare_and_inv; [frame g delta | inv_deep (PV_f v0 (set_vi_hist hist vi))]. }
    intros _. apply hoare_ret. intros s H; split; [exact H | reflexivity].
  Qed.

  Lemma sl_claim_validator_rewards_same g delta v0 vi :
    hoare (fun s => JDg g delta s /\ PV v0 vi s) (claim_validator_rewards v0 vi)
          (fun vi' s => (JDg g delta s /\ PV v0 vi' s) /\ vi_dshares vi' = vi_dshares vi) (fun _ => True).
  Proof.
    unfold claim_validator_rewards.
    eapply hoare_bind with (Q1 := fun _ s => JDg g delta s /\ PV v0 vi s); [apply hoare_gets; auto|]. intros od.
    destruct od; [|apply hoare_ret; auto].
    eapply hoare_bind with (Q1 := fun _ s => JDg g delta s /\ PV v0 vi s).
    { apply hoare_and_inv; [frame g delta | inv_deep (PV_f v0 vi)]. }
    intros coins. destruct (cis_zero coins); [apply hoare_ret; intros s H; split; [exact H | reflexivity] | apply (sl_add_assets g delta v0 vi coins)].
  Qed.

  Lemma sl_claim_validator_rewards g delta v0 vi :
    hoare (fun s => JDg g delta s /\ PV v0 vi s) (claim_validator_rewards v0 vi)
          (fun vi' s => JDg g delta s /\ PV v0 vi' s) (fun _ => True).
  Proof. eapply hoare_post; [| |apply sl_claim_validator_rewards_same]; [intros ? ? [H _]; exact H | auto]. Qed.

  (* writing a delegation whose shares differ by x from the stored ones (absent = 0) *)
  Lemma sl_set_delegation (g g' : Prop) delta del v0 d0 (x' : Delegation) old :
    (forall s, (g -> NN s) -> g' -> 0 <= d_shares x') ->
    (g' -> g) ->
    hoare (fun s => JDg g delta s /\ old = (match kget (delegations s) [del; v0; d0] with Some o => d_shares o | None => 0 end))
          (set_delegation del v0 d0 x') (fun _ => JDg g' (delta + hitZ v0 d0 (d_shares x' - old))) (fun _ => False).
  Proof.
    intros Hnn Hg. unfold set_delegation. apply hoare_modify. intros s ((Hb & Hn & Hsum) & Hold).
    split; [apply Base0_set_delegation; exact Hb|]. split.
    - intros Hg'. apply NN_set_delegation; [apply Hn, Hg, Hg' | apply (Hnn s Hn Hg')].
    - rewrite SUM_set_delegation by (destruct Hb as (H & _); exact H). rewrite TOT_set_delegations. rewrite !fsh_key.
      unfold hitZ. destruct (kget (delegations s) [del; v0; d0]) as [o|]; rewrite ?fsh_key; destruct (hit v0 d0); subst old; lia.
  Qed.

  Lemma delegations_frame_claim_validator D0 v0 vi : inv (fun s => delegations s = D0) (claim_validator_rewards v0 vi).
  Proof. inv_deep (fun s s' (E : delegations s' = delegations s) (H : delegations s = D0) => eq_trans E H). Qed.

  Lemma sl_claim_delegation_rewards (g : Prop) delta del v0 vi d0 :
    hoare (fun s => JDg g delta s /\ PV v0 vi s) (claim_delegation_rewards del v0 vi d0)
          (fun vi' s => JDg g delta s /\ PV v0 vi' s) (fun _ => True).
  Proof.
    unfold claim_delegation_rewards.
    eapply hoare_bind with (Q1 := fun _ s => JDg g delta s /\ PV v0 vi s); [unfold get_asset; apply hoare_gets; auto|]. intros oa.
    destruct oa as [a|]; [|apply hoare_fail; auto].
    eapply hoare_bind with (Q1 := fun _ s => JDg g delta s /\ PV v0 vi s); [apply hoare_gets; auto|]. intros t.
    destruct (negb (rewards_started a t)); [apply hoare_ret; auto|].
    unfold get_delegation. apply hoare_bind_gets_eq. intros s0 Hs0.
    destruct (kget (delegations s0) [del; v0; d0]) as [d|] eqn:Eg; [|apply hoare_fail; auto].
    apply (hoare_pre _ _ (fun s => (JDg g delta s /\ PV v0 vi s) /\ delegations s = delegations s0)); [intros s ->; auto|].
    eapply hoare_bind.
    { apply hoare_and_inv; [apply sl_claim_validator_rewards | apply delegations_frame_claim_validator]. }
    intros vi'; cbv beta.
    eapply hoare_bind with (Q1 := fun _ s => (JDg g delta s /\ PV v0 vi' s) /\ delegations s = delegations s0); [apply hoare_gets; auto|]. intros s1.
    destruct (calculate_delegation_rewards s1 v0 d vi' a) as [coins idx].
    eapply hoare_bind with (Q1 := fun _ s => (JDg g delta s /\ PV v0 vi' s) /\ delegations s = delegations s0); [apply hoare_gets; auto|]. intros h.
    eapply hoare_bind with (Q1 := fun _ s => JDg g delta s /\ PV v0 vi' s).
    { intros s [[HJ HP] HD].
      pose proof (sl_set_delegation g g delta del v0 d0 (set_d_height h (set_d_hist idx d)) (d_shares d)) as H.
      assert (Hnn : forall s', (g -> NN s') -> g -> 0 <= d_shares (set_d_height h (set_d_hist idx d))).
      { intros s' _ Hg. cbn. destruct HJ as (_ & Hn & _). specialize (Hn Hg). unfold NN in Hn. rewrite HD in Hn. exact (vall_kget _ _ _ _ Hn Eg). }
      (* the guard speaks about the state at the call; restate pointwise *)
      specialize (H (fun s' Hn' Hg => Hnn s' Hn' Hg) (fun x => x) s).
      assert (Hpre : JDg g delta s /\ d_shares d = match kget (delegations s) [del; v0; d0] with Some o => d_shares o | None => 0 end).
      { split; [exact HJ|]. rewrite HD, Eg. reflexivity. }
      specialize (H Hpre). unfold set_delegation, modify in *. cbn in H |- *. split.
      - unfold hitZ in H. cbn in H. rewrite Z.sub_diag in H. destruct (hit v0 d0); rewrite Z.add_0_r in H; exact H.
      - eapply PV_f; [|exact HP]. reflexivity. }
    intros _.
    eapply hoare_bind with (Q1 := fun _ s => JDg g delta s /\ PV v0 vi' s).
    { apply hoare_and_inv; [frame g delta | inv_deep (PV_f v0 vi')]. }
    intros _.
    eapply hoare_bind with (Q1 := fun _ s => JDg g delta s /\ PV v0 vi' s).
    { apply hoare_and_inv; [frame g delta | inv_deep (PV_f v0 vi')]. }
    intros _. apply hoare_ret; auto.
  Qed.

  (* ---------- updateValidatorShares ---------- *)
  Lemma vi_ok_add vi d0 a b : vi_ok vi -> vi_ok (set_vi_vshares (cadd1 (vi_vshares vi) d0 b) (set_vi_dshares (cadd1 (vi_dshares vi) d0 a) vi)).
  Proof. intros [H1 H2]. split; cbn; apply csorted_cadd1; assumption. Qed.

  Lemma sl_update_add (g : Prop) delta v0 vi d0 dsh vsh :
    hoare (fun s => JDg (0 <= dsh) delta s /\ PV v0 vi s) (update_validator_shares v0 vi d0 dsh vsh true)
          (fun vi' s => JD (delta - hitZ v0 d0 dsh) s /\ PV v0 vi' s) (fun _ => True).
  Proof.
    unfold update_validator_shares. destruct ((dsh <? 0) || (vsh <? 0)) eqn:Eneg.
    { intros s _. unfold bind, panic. exact I. }
    apply Bool.orb_false_elim in Eneg. destruct Eneg as [E1 _]. apply Z.ltb_ge in E1.
    eapply hoare_bind with (Q1 := fun _ s => JDg (0 <= dsh) delta s /\ PV v0 vi s); [apply hoare_ret; auto|]. intros _.
    set (vi' := set_vi_vshares (cadd1 (vi_vshares vi) d0 vsh) (set_vi_dshares (cadd1 (vi_dshares vi) d0 dsh) vi)).
    eapply hoare_bind with (Q1 := fun _ s => JD (delta - hitZ v0 d0 dsh) s /\ PV v0 vi' s); [|intros _; apply hoare_ret; auto].
    intros s [HJ [Hok Hp]].
    pose proof (jd_set_valinfo (0 <= dsh) delta v0 vi' (if d0 =? dn then dsh else 0) s) as H.
    assert (Hpre : JDg (0 <= dsh) delta s /\ vi_ok vi' /\ (v0 = v -> camount (vi_dshares vi') dn = TOT s + (if d0 =? dn then dsh else 0))).
    { split; [exact HJ|]. split; [apply vi_ok_add; exact Hok|]. intros E. unfold vi'. cbn [vi_dshares set_vi_dshares set_vi_vshares].
      rewrite camount_cadd1 by (destruct Hok; assumption). rewrite (Hp E). rewrite (Z.eqb_sym dn d0). reflexivity. }
    specialize (H Hpre). unfold set_valinfo, modify in *. cbn in H |- *. split.
    - destruct H as (Hb & Hn & Hs). split; [exact Hb|]. split; [intros _; apply Hn; exact E1|].
      unfold hitZ, hit. destruct (v0 =? v); destruct (d0 =? dn); cbn [andb]; lia.
    - split; [apply vi_ok_add; exact Hok|]. intros ->. unfold TOT, stored_vi. cbn [valinfos set_valinfos]. rewrite kget_kset_same. reflexivity.
  Qed.

  Lemma sub_with_rounding_amount c d0 a2 r d' : csorted c -> sub_with_rounding c d0 a2 = Some r ->
    csorted r /\ (d' <> d0 -> camount r d' = camount c d') /\
    (~ ((camount c d0 <? a2) && (a2 - camount c d0 <? ONE) = true) -> camount r d0 = camount c d0 - a2).
  Proof.
    intros Hs. unfold sub_with_rounding. cbv zeta. destruct ((camount c d0 <? a2) && (a2 - camount c d0 <? ONE)) eqn:Ec.
    - destruct (cany_neg (csub c (cadd1 [] d0 (camount c d0)))); [discriminate|]. intros E.
      assert (Er : r = csub c (cadd1 [] d0 (camount c d0))) by (inversion E; reflexivity). clear E. rewrite Er.
      split; [apply csorted_csub1; exact Hs|]. split.
      + intros Hne. rewrite camount_csub1 by exact Hs. assert (E' : d' =? d0 = false) by (apply Z.eqb_neq; exact Hne). rewrite E'. lia.
      + intros Hc. exfalso. apply Hc. reflexivity.
    - destruct (cany_neg (csub c (cadd1 [] d0 a2))); [discriminate|]. intros E.
      assert (Er : r = csub c (cadd1 [] d0 a2)) by (inversion E; reflexivity). clear E. rewrite Er.
      split; [apply csorted_csub1; exact Hs|]. split.
      + intros Hne. rewrite camount_csub1 by exact Hs. assert (E' : d' =? d0 = false) by (apply Z.eqb_neq; exact Hne). rewrite E'. lia.
      + intros _. rewrite camount_csub1 by exact Hs. rewrite Z.eqb_refl. reflexivity.
  Qed.

  (* removing dsh delegator shares: the clamp cannot fire on the pair (v, dn) because the
     delegations still sum to a non-negative amount after dsh has been taken out of one of them *)
  Lemma sl_write_sub delta v0 vi d0 dsh vsh ds vs : delta = - hitZ v0 d0 dsh ->
    sub_with_rounding (vi_dshares vi) d0 dsh = Some ds -> sub_with_rounding (vi_vshares vi) d0 vsh = Some vs ->
    hoare (fun s => JD delta s /\ PV v0 vi s) (set_valinfo v0 (set_vi_vshares vs (set_vi_dshares ds vi)))
          (fun _ s => JD 0 s /\ PV v0 (set_vi_vshares vs (set_vi_dshares ds vi)) s) (fun _ => False).
  Proof.
    intros Hdelta Eds Evs. set (vi' := set_vi_vshares vs (set_vi_dshares ds vi)).
    intros s [HJ [[Hok1 Hok2] Hp]].
    destruct (sub_with_rounding_amount _ _ _ _ dn Hok1 Eds) as (Hs1 & Hother & Hsame).
    destruct (sub_with_rounding_amount _ _ _ _ dn Hok2 Evs) as (Hs2 & _ & _).
    assert (Hok' : vi_ok vi') by (split; assumption).
    pose proof (jd_set_valinfo True delta v0 vi' (- (if d0 =? dn then dsh else 0)) s) as H.
    assert (Hpre : JDg True delta s /\ vi_ok vi' /\ (v0 = v -> camount (vi_dshares vi') dn = TOT s + - (if d0 =? dn then dsh else 0))).
    { split; [exact HJ|]. split; [exact Hok'|]. intros E. unfold vi'. cbn [vi_dshares set_vi_dshares set_vi_vshares].
      destruct (d0 =? dn) eqn:Ed.
      - apply Z.eqb_eq in Ed. subst d0. rewrite Hsame; [rewrite (Hp E); lia|].
        intros Hc. apply andb_prop in Hc. destruct Hc as [Hc _]. apply Z.ltb_lt in Hc. rewrite (Hp E) in Hc.
        destruct HJ as (_ & Hn & Hsum). pose proof (SUM_nonneg s (Hn I)) as Hpos.
        subst delta. unfold hitZ, hit in Hsum. rewrite E, !Z.eqb_refl in Hsum. cbn in Hsum. lia.
      - apply Z.eqb_neq in Ed. rewrite Hother by congruence. rewrite (Hp E). lia. }
    specialize (H Hpre). unfold set_valinfo, modify in *. cbn in H |- *. split.
    - destruct H as (Hb & Hn & Hs). split; [exact Hb|]. split; [exact Hn|]. subst delta.
      unfold hitZ, hit in *. destruct (v0 =? v); destruct (d0 =? dn); cbn [andb] in *; lia.
    - split; [exact Hok'|]. intros ->. unfold TOT, stored_vi. cbn [valinfos set_valinfos]. rewrite kget_kset_same. reflexivity.
  Qed.

  Lemma sl_update_sub delta v0 vi d0 dsh vsh : delta = - hitZ v0 d0 dsh ->
    hoare (fun s => JD delta s /\ PV v0 vi s) (update_validator_shares v0 vi d0 dsh vsh false)
          (fun vi' s => JD 0 s /\ PV v0 vi' s) (fun _ => True).
  Proof.
    intros Hdelta. unfold update_validator_shares. destruct ((dsh <? 0) || (vsh <? 0)); [intros s _; unfold bind, panic; exact I|].
    eapply hoare_bind with (Q1 := fun _ s => JD delta s /\ PV v0 vi s); [apply hoare_ret; auto|]. intros _.
    eapply hoare_bind; [apply hoare_opt_or_panic|]. intros ds; cbv beta.
    eapply hoare_bind; [apply hoare_opt_or_panic|]. intros vs; cbv beta.
    eapply hoare_bind with (Q1 := fun _ s => JD 0 s /\ PV v0 (set_vi_vshares vs (set_vi_dshares ds vi)) s); [|intros _; apply hoare_ret; auto].
    intros s [[HJP Eds] Evs]. pose proof (sl_write_sub delta v0 vi d0 dsh vsh ds vs Hdelta Eds Evs s HJP) as H.
    destruct (set_valinfo v0 _ s); auto; contradiction.
  Qed.

  (* ---------- upsertDelegationWithNewTokens ---------- *)
  Lemma sl_upsert delta del v0 vi d0 amt a :
    hoare (fun s => JD delta s /\ PV v0 vi s) (upsert_delegation del v0 vi d0 amt a)
          (fun ns s => JDg (0 <= ns) (delta + hitZ v0 d0 ns) s /\ PV v0 vi s) (fun _ => True).
  Proof.
    unfold upsert_delegation. eapply hoare_bind; [apply hoare_opt_or_panic|]. intros ns; cbv beta.
    unfold get_delegation. apply hoare_bind_gets_eq. intros s0 [[HJ0 HP0] _].
    eapply hoare_bind with (Q1 := fun _ s => s = s0); [apply hoare_gets; auto|]. intros h.
    eapply hoare_bind with (Q1 := fun _ s => JDg (0 <= ns) (delta + hitZ v0 d0 ns) s /\ PV v0 vi s); [|intros _; apply hoare_ret; auto].
    intros s ->.
    destruct (kget (delegations s0) [del; v0; d0]) as [d|] eqn:Eg.
    - pose proof (sl_set_delegation True (0 <= ns) delta del v0 d0 (set_d_shares (d_shares d + ns) d) (d_shares d)) as H.
      assert (Hnn : forall s', (True -> NN s') -> 0 <= ns -> 0 <= d_shares (set_d_shares (d_shares d + ns) d)).
      { intros s' _ Hns. cbn. destruct HJ0 as (_ & Hn & _). specialize (Hn I). unfold NN in Hn. pose proof (vall_kget (fun x => 0 <= d_shares x) _ _ _ Hn Eg) as Hd. cbv beta in Hd. lia. }
      specialize (H Hnn (fun _ => I) s0).
      assert (Hpre : JDg True delta s0 /\ d_shares d = match kget (delegations s0) [del; v0; d0] with Some o => d_shares o | None => 0 end)
        by (split; [exact HJ0 | rewrite Eg; reflexivity]).
      specialize (H Hpre). unfold set_delegation, modify in *. cbn in H |- *. split.
      + replace (d_shares d + ns - d_shares d) with ns in H by lia. exact H.
      + eapply PV_f; [|exact HP0]. reflexivity.
    - pose proof (sl_set_delegation True (0 <= ns) delta del v0 d0 (mkDelegation ns (vi_hist vi) h) 0) as H.
      specialize (H (fun _ _ Hns => Hns) (fun _ => I) s0).
      assert (Hpre : JDg True delta s0 /\ 0 = match kget (delegations s0) [del; v0; d0] with Some o => d_shares o | None => 0 end)
        by (split; [exact HJ0 | rewrite Eg; reflexivity]).
      specialize (H Hpre). unfold set_delegation, modify in *. cbn in H |- *. split.
      + replace (ns - 0) with ns in H by lia. exact H.
      + eapply PV_f; [|exact HP0]. reflexivity.
  Qed.

  (* ---------- ValidateDelegatedAmount never returns more than the position holds ---------- *)
  Lemma validate_le d amt vi a s : match validate_delegated_amount d amt vi a s with Ok sh _ => sh <= d_shares d | _ => True end.
  Proof.
    unfold validate_delegated_amount. unfold bind. destruct (del_shares_from_tokens vi a amt) as [upd|]; cbn [opt_or_panic ret panic]; [|exact I].
    destruct (Z.abs (d_shares d - upd) <? ROUNDER); [cbn; lia|].
    destruct (d_shares d <? dtrunc_dec upd); [exact I|].
    destruct (d_shares d <? upd) eqn:E; cbn; [lia | apply Z.ltb_ge in E; lia].
  Qed.
  Lemma validate_state d amt vi a s : match validate_delegated_amount d amt vi a s with Ok _ s' => s' = s | Err _ s' => s' = s | Panic _ s' => s' = s end.
  Proof.
    unfold validate_delegated_amount. unfold bind. destruct (del_shares_from_tokens vi a amt) as [upd|]; cbn [opt_or_panic ret panic]; [|reflexivity].
    destruct (Z.abs (d_shares d - upd) <? ROUNDER); [reflexivity|].
    destruct (d_shares d <? dtrunc_dec upd); [reflexivity|]. destruct (d_shares d <? upd); reflexivity.
  Qed.
  Lemma hoare_validate (P : State -> Prop) d amt vi a :
    hoare P (validate_delegated_amount d amt vi a) (fun sh s => P s /\ sh <= d_shares d) (fun _ => True).
  Proof.
    intros s Hs. pose proof (validate_le d amt vi a s). pose proof (validate_state d amt vi a s).
    destruct (validate_delegated_amount d amt vi a s); auto. subst. auto.
  Qed.

  (* ---------- reduceDelegationShares ---------- *)
  Definition stored_shares (s : State) (k : Key) : Z := match kget (delegations s) k with Some o => d_shares o | None => 0 end.
  Lemma sl_reduce delta del v0 d0 sh d : sh <= d_shares d ->
    hoare (fun s => JD delta s /\ stored_shares s [del; v0; d0] = d_shares d) (reduce_delegation_shares del v0 d0 sh d)
          (fun _ => JD (delta - hitZ v0 d0 sh)) (fun _ => True).
  Proof.
    intros Hle. unfold reduce_delegation_shares. cbn [d_shares set_d_shares].
    destruct (d_shares d - sh =? 0) eqn:E0.
    - unfold del_delegation. apply hoare_modify. intros s [(Hb & Hn & Hsum) Hg]. split; [apply Base0_del_delegation; exact Hb|].
      split; [intros _; apply NN_del_delegation; apply Hn; exact I|].
      rewrite SUM_del_delegation by (destruct Hb as (H & _); exact H). rewrite TOT_set_delegations.
      apply Z.eqb_eq in E0. unfold stored_shares in Hg. unfold hitZ.
      destruct (kget (delegations s) [del; v0; d0]) as [o|]; rewrite ?fsh_key; destruct (hit v0 d0); lia.
    - intros s [HJ Hg]. pose proof (sl_set_delegation True True delta del v0 d0 (set_d_shares (d_shares d - sh) d) (d_shares d)) as H.
      specialize (H (fun _ _ _ => ltac:(cbn; lia)) (fun x => x) s).
      assert (Hpre : JDg True delta s /\ d_shares d = match kget (delegations s) [del; v0; d0] with Some o => d_shares o | None => 0 end)
        by (split; [exact HJ | symmetry; exact Hg]).
      specialize (H Hpre). unfold set_delegation, modify in *. cbn in H |- *.
      replace (delta + hitZ v0 d0 (d_shares d - sh - d_shares d)) with (delta - hitZ v0 d0 sh) in H; [exact H|].
      unfold hitZ. destruct (hit v0 d0); lia.
  Qed.

  (* writing an asset under its own denom touches neither side of the ledger *)
  Lemma sl_set_asset g delta a' : inv (JDg g delta) (set_asset a').
  Proof.
    unfold set_asset. apply inv_modify. intros s ((H1 & H2 & H3 & H4 & H5) & Hn & Hsum).
    split; [|split; [exact Hn | exact Hsum]].
    unfold Base0, WK. cbn [delegations valinfos assets set_assets]. repeat split; try assumption.
    apply kall_kset; [exact H4 | reflexivity].
  Qed.

  (* ---------- ResetAssetAndValidators: validator shares only ---------- *)
  (* every stored record keeps its delegator shares: stated as "the function v0 |-> delegator shares" *)
  Definition DS (F : Z -> Coins) (s : State) : Prop := forall v0, vi_dshares (stored_vi s v0) = F v0.
  Lemma TOT_of_DS F s : DS F s -> TOT s = camount (F v) dn.
  Proof. intros H. unfold TOT. rewrite H. reflexivity. Qed.

  Lemma sl_reset g delta a T0 : hoare (fun s => JDg g delta s /\ TOT s = T0) (reset_asset_and_validators a) (fun _ s => JDg g delta s /\ TOT s = T0) (fun _ => True).
  Proof.
    unfold reset_asset_and_validators. destruct (negb (a_tokens a =? 0)); [apply hoare_ret; auto|].
    apply hoare_bind_gets_eq. intros s0 [Hs0 HT0].
    set (F := fun v0 => vi_dshares (stored_vi s0 v0)).
    set (K := fun s => JDg g delta s /\ DS F s).
    apply (hoare_pre _ _ K); [intros s ->; split; [exact Hs0 | intros v0; reflexivity]|].
    eapply hoare_bind with (Q1 := fun _ s => JDg g delta s /\ TOT s = T0).
    - (* the loop over the snapshot: each record is rewritten with its own delegator shares *)
      assert (Hsnap : Forall (fun kv => vi_ok (snd kv) /\ forall v0, fst kv = [v0] -> vi_dshares (snd kv) = F v0) (valinfos s0)).
      { destruct Hs0 as ((_ & Hsv & Hv & _) & _). apply Forall_forall. intros kv Hin. split.
        - unfold vall, kall in Hv. rewrite Forall_forall in Hv. exact (Hv kv Hin).
        - intros v0 Hk. unfold F, stored_vi. pose proof (kget_in_sorted_vi _ _ Hsv Hin) as Hg. destruct kv as [k0 x0]. cbn [fst snd] in *. subst k0. rewrite Hg. reflexivity. }
      eapply hoare_post; [| |apply (hoare_mfor_Forall _ _ K (fun _ => True) _ _ Hsnap)]; [intros ? s [H HF]; split; [exact H | rewrite (TOT_of_DS F s HF); rewrite <- HT0; unfold TOT, F; reflexivity] | auto|].
      intros kv [Hok Hds]. apply hoare_modify. intros s [(Hb & Hn & Hsum) HF].
      set (vi' := set_vi_vshares (filter (fun da => negb (fst da =? a_denom a)) (vi_vshares (snd kv))) (snd kv)).
      assert (Hok' : vi_ok vi') by (destruct Hok; split; [assumption | apply csorted_filter; assumption]).
      destruct Hb as (H1 & H2 & H3 & H4 & H5).
      assert (HF' : DS F (set_valinfos (kset (valinfos s) (fst kv) vi') s)).
      { intros v0. unfold stored_vi. cbn [valinfos set_valinfos]. destruct (list_eq_dec Z.eq_dec [v0] (fst kv)) as [E|Hne].
        - rewrite E, kget_kset_same. cbn. apply Hds. symmetry; exact E.
        - rewrite kget_kset_other by assumption. apply HF. }
      split; [|exact HF'].
      split; [|split; [exact Hn|]].
      + unfold Base0, WK. cbn [delegations valinfos assets set_valinfos]. split; [exact H1|]. split; [apply ksorted_kset; exact H2|].
        split; [apply vall_kset; assumption|]. split; assumption.
      + unfold SUM in *. cbn [delegations set_valinfos].
        match goal with |- _ = TOT ?st + _ => replace (TOT st) with (TOT s) end; [exact Hsum|].
        rewrite (TOT_of_DS F s HF). symmetry. apply (TOT_of_DS F). exact HF'.
    - intros _. apply inv_hoare_true. apply inv_modify. intros s [HJ HT]. split; [|exact HT].
      pose proof (sl_set_asset g delta (set_a_vshares 0 a) s HJ) as H. exact H.
  Qed.

  (* ---------- ClearDustDelegation ---------- *)
  Lemma sl_clear_dust del v0 vi a :
    hoare (fun s => JD 0 s /\ PV v0 vi s) (clear_dust_delegation del v0 vi a) (fun vi' s => JD 0 s /\ PV v0 vi' s) (fun _ => True).
  Proof.
    unfold clear_dust_delegation, get_delegation. apply hoare_bind_gets_eq. intros s0 [HJ0 HP0].
    set (d0 := a_denom a).
    (* first: the dust position, if any, is deleted and its shares are what has to leave the validator *)
    eapply hoare_bind with (Q1 := fun dsr s => JD (- hitZ v0 d0 dsr) s /\ PV v0 vi s).
    { destruct (kget (delegations s0) [del; v0; d0]) as [d|] eqn:Eg; [|apply hoare_ret; intros s ->; unfold hitZ; destruct (hit v0 d0); auto].
      destruct (del_tokens_with_shares (d_shares d) vi a <? 0); [apply hoare_panic; auto|].
      destruct (del_tokens_with_shares (d_shares d) vi a =? 0); [|apply hoare_ret; intros s ->; unfold hitZ; destruct (hit v0 d0); auto].
      eapply hoare_bind with (Q1 := fun _ s => JD (- hitZ v0 d0 (d_shares d)) s /\ PV v0 vi s).
      - unfold del_delegation. apply hoare_modify. intros s ->. destruct HJ0 as (Hb & Hn & Hsum). split; [|eapply PV_f; [|exact HP0]; reflexivity].
        split; [apply Base0_del_delegation; exact Hb|]. split; [intros _; apply NN_del_delegation, Hn; exact I|].
        rewrite SUM_del_delegation by (destruct Hb as (H & _); exact H). rewrite TOT_set_delegations. fold d0. rewrite Eg, fsh_key.
        unfold hitZ. destruct (hit v0 d0); lia.
      - intros _. destruct (d_shares d <? 0); [apply hoare_panic; auto | apply hoare_ret; auto]. }
    intros dsr. cbv zeta.
    eapply hoare_bind with (Q1 := fun _ s => JD (- hitZ v0 d0 dsr) s /\ PV v0 vi s).
    { match goal with |- hoare _ (if ?b then _ else _) _ _ => destruct b end; [apply hoare_panic; auto | apply hoare_ret; auto]. }
    intros _.
    eapply hoare_bind; [apply hoare_opt_or_panic|]. intros ds; cbv beta.
    eapply hoare_bind; [apply hoare_opt_or_panic|]. intros vs; cbv beta.
    eapply hoare_bind with (Q1 := fun _ s => JD 0 s /\ PV v0 (set_vi_vshares vs (set_vi_dshares ds vi)) s).
    { intros s [[HJP Eds] Evs]. pose proof (sl_write_sub _ v0 vi d0 dsr _ ds vs eq_refl Eds Evs s HJP) as H.
      destruct (set_valinfo v0 _ s); auto; contradiction. }
    intros _.
    eapply hoare_bind with (Q1 := fun _ s => JD 0 s /\ PV v0 (set_vi_vshares vs (set_vi_dshares ds vi)) s); [|intros _; apply hoare_ret; auto].
    (* the reset rewrites validator shares of stored records only: the in-memory copy stays current *)
    intros s [HJ [Hok HP]]. pose proof (sl_reset True 0 a (TOT s) s (conj HJ eq_refl)) as H.
    destruct (reset_asset_and_validators a s) as [x s'|? ?|? ?]; auto. destruct H as [H HT]. split; [exact H|].
    split; [exact Hok|]. intros E. rewrite HT. apply HP; exact E.
  Qed.

  (* ---------- Delegate / Undelegate / Redelegate ---------- *)
  Ltac fr g delta v0 vi := apply hoare_and_inv; [frame g delta | inv_deep (PV_f v0 vi)].
  Lemma PV_set_asset v0 vi a' : inv (PV v0 vi) (set_asset a').
  Proof. inv_deep (PV_f v0 vi). Qed.

  Lemma sl_k_delegate del v0 vi d0 amt :
    hoare (fun s => JD 0 s /\ PV v0 vi s) (k_delegate del v0 vi d0 amt) (fun _ => JD 0) (fun _ => True).
  Proof.
    unfold k_delegate.
    eapply hoare_bind with (Q1 := fun _ s => JD 0 s /\ PV v0 vi s); [unfold get_asset; apply hoare_gets; auto|]. intros oa.
    destruct oa as [a|]; [|apply hoare_fail; auto].
    eapply hoare_bind with (Q1 := fun _ s => JD 0 s /\ PV v0 vi s); [fr True 0 v0 vi|]. intros c.
    eapply hoare_bind with (Q1 := fun _ s => JD 0 s /\ PV v0 vi s); [fr True 0 v0 vi|]. intros _.
    eapply hoare_bind with (Q1 := fun _ s => JD 0 s /\ PV v0 vi s); [unfold get_delegation; apply hoare_gets; auto|]. intros od.
    eapply hoare_bind with (Q1 := fun vi1 s => JD 0 s /\ PV v0 vi1 s).
    { destruct od; [apply sl_claim_delegation_rewards | apply sl_claim_validator_rewards]. }
    intros vi1.
    eapply hoare_bind; [apply sl_upsert|]. intros ns; cbv beta.
    eapply hoare_bind with (Q1 := fun _ s => JDg (0 <= ns) (0 + hitZ v0 d0 ns) s /\ PV v0 vi1 s); [fr (0 <= ns) (0 + hitZ v0 d0 ns) v0 vi1|]. intros nvs.
    eapply hoare_bind with (Q1 := fun _ s => JDg (0 <= ns) (0 + hitZ v0 d0 ns) s /\ PV v0 vi1 s).
    { apply hoare_and_inv; [apply inv_hoare_true, sl_set_asset | apply PV_set_asset]. }
    intros _.
    eapply hoare_bind; [apply (sl_update_add True)|]. intros vi2; cbv beta.
    apply (hoare_pre _ _ (JD 0)); [intros s [H _]; replace (0 + hitZ v0 d0 ns - hitZ v0 d0 ns) with 0 in H by lia; exact H|].
    frame True 0.
  Qed.

  (* the delegations map is untouched by what lies between reading a delegation and reducing it *)
  Definition DF (D0 : KMap Delegation) (s : State) : Prop := delegations s = D0.
  Lemma DF_f D0 : forall s s', delegations s' = delegations s -> DF D0 s -> DF D0 s'.
  Proof. unfold DF; intros; congruence. Qed.

  Lemma sl_k_undelegate del v0 vi d0 amt :
    hoare (fun s => JD 0 s /\ PV v0 vi s) (k_undelegate del v0 vi d0 amt) (fun _ => JD 0) (fun _ => True).
  Proof.
    unfold k_undelegate.
    eapply hoare_bind with (Q1 := fun _ s => JD 0 s /\ PV v0 vi s); [unfold get_asset; apply hoare_gets; auto|]. intros oa.
    destruct oa as [a|]; [|apply hoare_fail; auto].
    eapply hoare_bind with (Q1 := fun _ s => JD 0 s /\ PV v0 vi s); [unfold get_delegation; apply hoare_gets; auto|]. intros od.
    destruct od as [dd|]; [|apply hoare_fail; auto].
    eapply hoare_bind; [apply sl_claim_delegation_rewards|]. intros vi1; cbv beta.
    unfold get_delegation. apply hoare_bind_gets_eq. intros s0 [HJ0 HP0].
    set (d := match kget (delegations s0) [del; v0; d0] with Some d => d | None => mkDelegation 0 [] 0 end).
    assert (Hst : stored_shares s0 [del; v0; d0] = d_shares d).
    { unfold stored_shares, d. destruct (kget (delegations s0) [del; v0; d0]); reflexivity. }
    apply (hoare_pre _ _ (fun s => (JD 0 s /\ PV v0 vi1 s) /\ DF (delegations s0) s)); [intros s ->; split; [auto | reflexivity]|].
    eapply hoare_bind with (Q1 := fun sh s => ((JD 0 s /\ PV v0 vi1 s) /\ DF (delegations s0) s) /\ sh <= d_shares d); [apply hoare_validate|].
    intros sh. match goal with |- hoare _ (if ?b then _ else _) _ _ => destruct b end; [apply hoare_panic; auto|].
    match goal with |- hoare _ (if ?b then _ else _) _ _ => destruct b end; [apply hoare_fail; auto|].
    match goal with |- hoare _ (if ?b then _ else _) _ _ => destruct b end; [apply hoare_fail; auto|].
    eapply hoare_bind; [apply hoare_opt_or_panic|].
    intros vsr; cbv beta. set (a' := set_a_vshares (a_vshares a - vsr) (set_a_tokens (a_tokens a - amt) a)).
    apply (hoare_pre _ _ (fun s => ((JD 0 s /\ PV v0 vi1 s) /\ DF (delegations s0) s) /\ sh <= d_shares d)); [intros s [H _]; exact H|].
    eapply hoare_bind with (Q1 := fun _ s => ((JD 0 s /\ PV v0 vi1 s) /\ DF (delegations s0) s) /\ sh <= d_shares d).
    { apply hoare_and_inv; [|intros s1 H1; destruct (set_asset a' s1); exact H1].
      apply hoare_and_inv; [|inv_deep (DF_f (delegations s0))].
      apply hoare_and_inv; [apply inv_hoare_true, sl_set_asset | apply PV_set_asset].
}
    intros _.
    eapply hoare_bind with (Q1 := fun _ s => JD (0 - hitZ v0 d0 sh) s /\ PV v0 vi1 s).
    { intros s [[[HJ HP] HD] Hle]. pose proof (sl_reduce 0 del v0 d0 sh d Hle s) as H.
      assert (Hpre : JD 0 s /\ stored_shares s [del; v0; d0] = d_shares d).
      { split; [exact HJ|]. unfold stored_shares. rewrite HD. exact Hst. }
      specialize (H Hpre). assert (Hpv : inv (PV v0 vi1) (reduce_delegation_shares del v0 d0 sh d)) by (inv_deep (PV_f v0 vi1)).
      specialize (Hpv s HP). destruct (reduce_delegation_shares del v0 d0 sh d s); auto. }
    intros _.
    eapply hoare_bind; [apply (sl_update_sub (0 - hitZ v0 d0 sh)); lia|]. intros vi2; cbv beta.
    eapply hoare_bind; [apply sl_clear_dust|]. intros vi3; cbv beta.
    apply (hoare_pre _ _ (JD 0)); [intros s [H _]; exact H|]. frame True 0.
  Qed.

  (* ---------- operations on another validator leave this validator's total alone ---------- *)
  Definition TF (T0 : Z) (s : State) : Prop := ksorted (valinfos s) /\ TOT s = T0.
  Lemma TF_f T0 : forall s s', valinfos s' = valinfos s -> TF T0 s -> TF T0 s'.
  Proof. unfold TF, TOT, stored_vi. intros s s' E H. rewrite E. exact H. Qed.
  Lemma tf_set_valinfo T0 v0 vi : v0 <> v -> inv (TF T0) (set_valinfo v0 vi).
  Proof.
    intros Hne. unfold set_valinfo. apply inv_modify. intros s [Hs Ht]. split; [cbn; apply ksorted_kset; exact Hs|].
    rewrite TOT_set_valinfo by exact Hs. assert (E : v0 =? v = false) by (apply Z.eqb_neq; exact Hne). rewrite E. exact Ht.
  Qed.
  Ltac tf_auto T0 Hne :=
    repeat first
      [ lazymatch goal with
        | |- inv _ (set_valinfo _ _) => apply tf_set_valinfo; exact Hne
        | |- inv _ (modify _) =>
          apply inv_modify; let s := fresh "s" in let Hs := fresh "Hs" in
          intros s Hs; apply (TF_f T0 s); [reflexivity | exact Hs]
        end
      | inv_step
      | lazymatch goal with |- inv _ ?m =>
          let h := head_of m in lazymatch h with set_valinfo => fail | _ => unfold h end end ].

  Lemma tf_claim_delegation_rewards T0 del v0 vi d0 : v0 <> v -> inv (TF T0) (claim_delegation_rewards del v0 vi d0).
  Proof. intros Hne. tf_auto T0 Hne. Qed.
  Lemma tf_claim_validator_rewards T0 v0 vi : v0 <> v -> inv (TF T0) (claim_validator_rewards v0 vi).
  Proof. intros Hne. tf_auto T0 Hne. Qed.
  Lemma tf_update_validator_shares T0 v0 vi d0 a b isAdd : v0 <> v -> inv (TF T0) (update_validator_shares v0 vi d0 a b isAdd).
  Proof. intros Hne. tf_auto T0 Hne. Qed.
  Lemma tf_reduce T0 del v0 d0 sh d : inv (TF T0) (reduce_delegation_shares del v0 d0 sh d).
  Proof. inv_deep (TF_f T0). Qed.
  Lemma tf_upsert T0 del v0 vi d0 amt a : inv (TF T0) (upsert_delegation del v0 vi d0 amt a).
  Proof. inv_deep (TF_f T0). Qed.

  Lemma tf_reset T0 a : inv (TF T0) (reset_asset_and_validators a).
  Proof.
    unfold reset_asset_and_validators. destruct (negb (a_tokens a =? 0)); [apply inv_ret|].
    apply inv_of_hoare. apply hoare_bind_gets_eq. intros s0 [Hs0 HT0].
    set (F := fun v0 => vi_dshares (stored_vi s0 v0)).
    set (K := fun s => ksorted (valinfos s) /\ DS F s).
    assert (HKT : forall s, K s -> TF T0 s).
    { intros s [Hs HF]. split; [exact Hs|]. rewrite (TOT_of_DS F s HF). rewrite <- HT0. unfold TOT, F. reflexivity. }
    apply (hoare_pre _ _ K); [intros s ->; split; [exact Hs0 | intros v0; reflexivity]|].
    eapply hoare_bind with (Q1 := fun _ => K).
    - assert (Hsnap : Forall (fun kv : Key * ValInfo => forall v0, fst kv = [v0] -> vi_dshares (snd kv) = F v0) (valinfos s0)).
      { apply Forall_forall. intros kv Hin v0 Hk. unfold F, stored_vi. pose proof (kget_in_sorted_vi _ _ Hs0 Hin) as Hg.
        destruct kv as [k0 x0]. cbn [fst snd] in *. subst k0. rewrite Hg. reflexivity. }
      eapply hoare_post; [| |apply (hoare_mfor_Forall _ _ K (TF T0) _ _ Hsnap)]; [intros ? s H; exact H | auto|].
      intros kv Hds. apply hoare_modify. intros s [Hs HF]. split; [cbn; apply ksorted_kset; exact Hs|].
      intros v0. unfold stored_vi. cbn [valinfos set_valinfos]. destruct (list_eq_dec Z.eq_dec [v0] (fst kv)) as [E|Hne].
      + rewrite E, kget_kset_same. cbn. apply Hds. symmetry; exact E.
      + rewrite kget_kset_other by assumption. apply HF.
    - intros _. eapply hoare_post; [| |apply inv_hoare; apply inv_modify; intros s H; exact H]; [intros ? s H; apply HKT; exact H | apply HKT].
  Qed.

  Lemma tf_clear_dust T0 del v0 vi a : v0 <> v -> inv (TF T0) (clear_dust_delegation del v0 vi a).
  Proof.
    intros Hne. unfold clear_dust_delegation.
    repeat first
      [ apply tf_reset
      | lazymatch goal with
        | |- inv _ (set_valinfo _ _) => apply tf_set_valinfo; exact Hne
        | |- inv _ (modify _) =>
          apply inv_modify; let s := fresh "s" in let Hs := fresh "Hs" in
          intros s Hs; apply (TF_f T0 s); [reflexivity | exact Hs]
        end
      | inv_step
      | lazymatch goal with |- inv _ ?m =>
          let h := head_of m in lazymatch h with set_valinfo => fail | reset_asset_and_validators => fail | _ => unfold h end end ].
  Qed.

  Lemma hoare_and_hoare A (P P' : State -> Prop) (m : M A) (Q Q' : A -> State -> Prop) :
    hoare P m Q (fun _ => True) -> hoare P' m Q' (fun _ => True) ->
    hoare (fun s => P s /\ P' s) m (fun a s => Q a s /\ Q' a s) (fun _ => True).
  Proof. intros H1 H2 s [HP HP']. specialize (H1 s HP). specialize (H2 s HP'). destruct (m s); auto. Qed.

  (* an in-memory copy of ANOTHER validator stays current while m works on validator v0 *)
  Lemma keep_PV A v0 v1 vi1 (m : M A) : v0 <> v1 -> (v0 <> v -> forall T0, inv (TF T0) m) ->
    hoare (fun s => ksorted (valinfos s) /\ PV v1 vi1 s) m (fun _ s => PV v1 vi1 s) (fun _ => True).
  Proof.
    intros Hne Htf s [Hs [Hok Hp]]. destruct (Z.eq_dec v1 v) as [E|E].
    - assert (Hv0 : v0 <> v) by congruence. specialize (Htf Hv0 (TOT s) s (conj Hs eq_refl)).
      destruct (m s) as [x s'|? ?|? ?]; auto. destruct Htf as [_ Ht]. split; [exact Hok|]. intros _. rewrite Ht. apply Hp; exact E.
    - destruct (m s); auto. split; [exact Hok|]. intros E'. contradiction.
  Qed.
  Lemma JDg_sorted g delta s : JDg g delta s -> ksorted (valinfos s).
  Proof. intros ((_ & H & _) & _). exact H. Qed.

  (* the shares stored under another key are not touched by a claim *)
  Definition SS (K : Key) (x : Z) (s : State) : Prop := ksorted (delegations s) /\ stored_shares s K = x.
  Lemma SS_f K x : forall s s', delegations s' = delegations s -> SS K x s -> SS K x s'.
  Proof. unfold SS, stored_shares. intros s s' E H. rewrite E. exact H. Qed.
  Lemma ss_set_delegation K x del v0 d0 y : [del; v0; d0] <> K -> inv (SS K x) (set_delegation del v0 d0 y).
  Proof.
    intros Hne. unfold set_delegation. apply inv_modify. intros s [Hs Hx]. split; [cbn; apply ksorted_kset; exact Hs|].
    unfold stored_shares in *. cbn [delegations set_delegations]. rewrite kget_kset_other by (auto; congruence). exact Hx.
  Qed.
  Lemma ss_claim K x del v0 vi d0 : [del; v0; d0] <> K -> inv (SS K x) (claim_delegation_rewards del v0 vi d0).
  Proof.
    intros Hne.
    repeat first
      [ lazymatch goal with
        | |- inv _ (set_delegation _ _ _ _) => apply ss_set_delegation; exact Hne
        | |- inv _ (modify _) =>
          apply inv_modify; let s := fresh "s" in let Hs := fresh "Hs" in
          intros s Hs; apply (SS_f K x s); [reflexivity | exact Hs]
        end
      | inv_step
      | lazymatch goal with |- inv _ ?m =>
          let h := head_of m in lazymatch h with set_delegation => fail | _ => unfold h end end ].
  Qed.
  Lemma ss_claim_validator K x v0 vi : inv (SS K x) (claim_validator_rewards v0 vi).
  Proof. inv_deep (SS_f K x). Qed.

  Lemma sl_k_redelegate del src svi dst dvi d0 amt :
    hoare (fun s => JD 0 s /\ PV src svi s /\ PV dst dvi s) (k_redelegate del src svi dst dvi d0 amt) (fun _ => JD 0) (fun _ => True).
  Proof.
    unfold k_redelegate. destruct (src =? dst) eqn:Esd; [apply hoare_fail; auto|]. apply Z.eqb_neq in Esd.
    assert (Hds : dst <> src) by congruence.
    eapply hoare_bind with (Q1 := fun _ s => JD 0 s /\ PV src svi s /\ PV dst dvi s); [unfold get_asset; apply hoare_gets; auto|]. intros oa.
    destruct oa as [a|]; [|apply hoare_fail; auto].
    eapply hoare_bind with (Q1 := fun _ s => JD 0 s /\ PV src svi s /\ PV dst dvi s); [unfold get_delegation; apply hoare_gets; auto|]. intros od.
    destruct od as [dd|]; [|apply hoare_fail; auto].
    (* settle the source *)
    eapply hoare_bind with (Q1 := fun svi1 s => JD 0 s /\ PV src svi1 s /\ PV dst dvi s).
    { intros s (HJ & HPs & HPd).
      pose proof (sl_claim_delegation_rewards True 0 del src svi d0 s (conj HJ HPs)) as H1.
      pose proof (keep_PV _ src dst dvi (claim_delegation_rewards del src svi d0) Esd (fun Hv T0 => tf_claim_delegation_rewards T0 del src svi d0 Hv) s (conj (JDg_sorted _ _ _ HJ) HPd)) as H2.
      destruct (claim_delegation_rewards del src svi d0 s); auto. destruct H1; auto. }
    intros svi1.
    (* the source position as stored now *)
    unfold get_delegation. apply hoare_bind_gets_eq. intros s0 (HJ0 & HPs0 & HPd0).
    set (sd := match kget (delegations s0) [del; src; d0] with Some d => d | None => mkDelegation 0 [] 0 end).
    assert (Hst : stored_shares s0 [del; src; d0] = d_shares sd).
    { unfold stored_shares, sd. destruct (kget (delegations s0) [del; src; d0]); reflexivity. }
    set (K := [del; src; d0]). set (X := d_shares sd).
    apply (hoare_pre _ _ (fun s => (JD 0 s /\ PV src svi1 s /\ PV dst dvi s) /\ SS K X s)).
    { intros s ->. split; [auto|]. split; [destruct HJ0 as ((H & _) & _); exact H | exact Hst]. }
    eapply hoare_bind with (Q1 := fun _ s => (JD 0 s /\ PV src svi1 s /\ PV dst dvi s) /\ SS K X s); [apply hoare_gets; auto|]. intros odd.
    (* settle the destination *)
    eapply hoare_bind with (Q1 := fun dvi1 s => (JD 0 s /\ PV src svi1 s /\ PV dst dvi1 s) /\ SS K X s).
    { intros s ((HJ & HPs & HPd) & HS). destruct odd as [ddst|].
      - pose proof (sl_claim_delegation_rewards True 0 del dst dvi d0 s (conj HJ HPd)) as H1.
        pose proof (keep_PV _ dst src svi1 (claim_delegation_rewards del dst dvi d0) Hds (fun Hv T0 => tf_claim_delegation_rewards T0 del dst dvi d0 Hv) s (conj (JDg_sorted _ _ _ HJ) HPs)) as H2.
        assert (Hk : [del; dst; d0] <> K) by (unfold K; congruence).
        pose proof (ss_claim K X del dst dvi d0 Hk s HS) as H3.
        destruct (claim_delegation_rewards del dst dvi d0 s); auto. destruct H1; auto.
      - pose proof (sl_claim_validator_rewards True 0 dst dvi s (conj HJ HPd)) as H1.
        pose proof (keep_PV _ dst src svi1 (claim_validator_rewards dst dvi) Hds (fun Hv T0 => tf_claim_validator_rewards T0 dst dvi Hv) s (conj (JDg_sorted _ _ _ HJ) HPs)) as H2.
        pose proof (ss_claim_validator K X dst dvi s HS) as H3.
        destruct (claim_validator_rewards dst dvi s); auto. destruct H1; auto. }
    intros dvi1.
    eapply hoare_bind with (Q1 := fun sh s => ((JD 0 s /\ PV src svi1 s /\ PV dst dvi1 s) /\ SS K X s) /\ sh <= d_shares sd); [apply hoare_validate|].
    intros sh. match goal with |- hoare _ (if ?b then _ else _) _ _ => destruct b end; [apply hoare_panic; auto|].
    match goal with |- hoare _ (if ?b then _ else _) _ _ => destruct b end; [apply hoare_fail; auto|].
    eapply hoare_bind with (Q1 := fun _ s => ((JD 0 s /\ PV src svi1 s /\ PV dst dvi1 s) /\ SS K X s) /\ sh <= d_shares sd); [apply hoare_gets; auto|]. intros blocked.
    destruct blocked; [apply hoare_fail; auto|].
    eapply hoare_bind with (Q1 := fun _ s => ((JD 0 s /\ PV src svi1 s /\ PV dst dvi1 s) /\ SS K X s) /\ sh <= d_shares sd); [apply hoare_gets; auto|]. intros t.
    eapply hoare_bind with (Q1 := fun _ s => ((JD 0 s /\ PV src svi1 s /\ PV dst dvi1 s) /\ SS K X s) /\ sh <= d_shares sd); [apply hoare_gets; auto|]. intros ub.
    eapply hoare_bind; [apply hoare_opt_or_panic|]. intros cvs; cbv beta.
    (* take the shares out of the source position and the source validator *)
    eapply hoare_bind with (Q1 := fun _ s => JD (0 - hitZ src d0 sh) s /\ PV src svi1 s /\ PV dst dvi1 s).
    { intros s ((((HJ & HPs & HPd) & [_ HS]) & Hle) & _). pose proof (sl_reduce 0 del src d0 sh sd Hle s (conj HJ HS)) as H.
      assert (H1 : inv (PV src svi1) (reduce_delegation_shares del src d0 sh sd)) by (inv_deep (PV_f src svi1)).
      assert (H2 : inv (PV dst dvi1) (reduce_delegation_shares del src d0 sh sd)) by (inv_deep (PV_f dst dvi1)).
      specialize (H1 s HPs). specialize (H2 s HPd). destruct (reduce_delegation_shares del src d0 sh sd s); auto. }
    intros _.
    eapply hoare_bind with (Q1 := fun svi2 s => JD 0 s /\ PV src svi2 s /\ PV dst dvi1 s).
    { intros s (HJ & HPs & HPd).
      pose proof (sl_update_sub (0 - hitZ src d0 sh) src svi1 d0 sh cvs ltac:(lia) s (conj HJ HPs)) as H1.
      pose proof (keep_PV _ src dst dvi1 (update_validator_shares src svi1 d0 sh cvs false) Esd (fun Hv T0 => tf_update_validator_shares T0 src svi1 d0 sh cvs false Hv) s (conj (JDg_sorted _ _ _ HJ) HPd)) as H2.
      destruct (update_validator_shares src svi1 d0 sh cvs false s); auto. destruct H1; auto. }
    intros svi2.
    eapply hoare_bind with (Q1 := fun _ s => JD 0 s /\ PV dst dvi1 s).
    { intros s (HJ & HPs & HPd).
      pose proof (sl_clear_dust del src svi2 a s (conj HJ HPs)) as H1.
      pose proof (keep_PV _ src dst dvi1 (clear_dust_delegation del src svi2 a) Esd (fun Hv T0 => tf_clear_dust T0 del src svi2 a Hv) s (conj (JDg_sorted _ _ _ HJ) HPd)) as H2.
      destruct (clear_dust_delegation del src svi2 a s); auto. destruct H1; auto. }
    intros _.
    (* and put them into the destination *)
    eapply hoare_bind; [apply sl_upsert|]. intros ns; cbv beta.
    eapply hoare_bind; [apply (sl_update_add True)|]. intros dvi2; cbv beta.
    apply (hoare_pre _ _ (JD 0)); [intros s [H _]; replace (0 + hitZ dst d0 ns - hitZ dst d0 ns) with 0 in H by lia; exact H|].
    frame True 0.
  Qed.

  (* ---------- slashing the destination positions of pending redelegations ---------- *)
  Lemma a_denom_of_base s d0 a : Base0 s -> kget (assets s) [d0] = Some a -> a_denom a = d0.
  Proof. intros (_ & _ & _ & Hw & _) Hg. pose proof (kall_kget _ _ _ _ Hw Hg) as Hk. cbn in Hk. inversion Hk; reflexivity. Qed.

  Lemma sl_slash_redelegations v0 f : hoare (JD 0) (slash_redelegations v0 f) (fun _ => JD 0) (fun _ => True).
  Proof.
    unfold slash_redelegations.
    eapply hoare_bind with (Q1 := fun _ => JD 0); [apply hoare_gets; auto|]. intros idx.
    eapply hoare_bind with (Q1 := fun _ => JD 0); [apply hoare_gets; auto|]. intros t.
    apply hoare_mfor. intros ku.
    destruct (fst ku) as [|x0 [|ct [|denom [|dst [|del [|]]]]]]; try (apply hoare_fail; auto).
    destruct (ct <? t); [apply hoare_ret; auto|].
    eapply hoare_bind with (Q1 := fun _ => JD 0); [apply hoare_gets; auto|]. intros orec.
    destruct orec as [r|]; [|apply hoare_fail; auto].
    eapply hoare_bind; [apply sl_get_alliance_validator|]. intros [sv dvi]; cbv beta; cbn [snd].
    eapply hoare_bind with (Q1 := fun _ s => JD 0 s /\ PV (r_dst r) dvi s); [unfold get_delegation; apply hoare_gets; auto|]. intros od0.
    destruct od0 as [d00|]; [|apply hoare_ret; intros s [H _]; exact H].
    eapply hoare_bind; [apply sl_claim_delegation_rewards|]. intros dvi1; cbv beta.
    unfold get_delegation. apply hoare_bind_gets_eq. intros s0 [HJ0 HP0].
    destruct (kget (delegations s0) [r_del r; r_dst r; r_denom r]) as [d|] eqn:Ed; [|apply hoare_ret; intros s ->; exact HJ0].
    unfold get_asset. apply hoare_bind_gets_eq. intros s1 ->.
    destruct (kget (assets s0) [r_denom r]) as [a|] eqn:Ea; [|apply hoare_ret; intros s ->; exact HJ0].
    pose proof (a_denom_of_base s0 (r_denom r) a (proj1 HJ0) Ea) as Hda.
    cbv zeta. set (tok := dtrunc (dmul_int f (r_amount r))).
    (* the shares to slash never exceed what the position holds *)
    eapply hoare_bind with (Q1 := fun sh s => s = s0 /\ sh <= d_shares d).
    { destruct (del_tokens d dvi1 a <=? tok).
      - apply hoare_ret. intros s ->. split; [reflexivity | lia].
      - eapply hoare_bind; [apply hoare_opt_or_panic|]. intros upd; cbv beta.
        apply hoare_ret. intros s [-> _]. split; [reflexivity|]. destruct (d_shares d <? upd) eqn:E; [lia | apply Z.ltb_ge in E; lia]. }
    intros sh.
    eapply hoare_bind with (Q1 := fun _ s => (s = s0 /\ sh <= d_shares d) /\ 0 <= sh).
    { destruct (sh <? 0) eqn:En; [apply hoare_panic; auto|]. apply hoare_ret. intros s H. split; [exact H | apply Z.ltb_ge in En; exact En]. }
    intros _.
    set (ds := csub (vi_dshares dvi1) (cadd1 [] (a_denom a) sh)).
    eapply hoare_bind with (Q1 := fun _ s => (s = s0 /\ sh <= d_shares d) /\ 0 <= sh).
    { destruct (cany_neg ds); [apply hoare_panic; auto | apply hoare_ret; auto]. }
    intros _.
    destruct HP0 as [[Hok1 Hok2] Hp0].
    eapply hoare_bind with (Q1 := fun _ s => JD (0 + hitZ (r_dst r) (a_denom a) sh) s /\ stored_shares s [r_del r; r_dst r; a_denom a] = d_shares d /\ sh <= d_shares d).
    { intros s [[-> Hle] Hpos].
      pose proof (jd_set_valinfo True 0 (r_dst r) (set_vi_dshares ds dvi1) (- (if dn =? a_denom a then sh else 0)) s0) as H.
      assert (Hpre : JDg True 0 s0 /\ vi_ok (set_vi_dshares ds dvi1) /\
                     (r_dst r = v -> camount (vi_dshares (set_vi_dshares ds dvi1)) dn = TOT s0 + - (if dn =? a_denom a then sh else 0))).
      { split; [exact HJ0|]. split; [split; cbn; [apply csorted_csub1; exact Hok1 | exact Hok2]|].
        intros E. cbn [vi_dshares set_vi_dshares]. unfold ds. rewrite camount_csub1 by exact Hok1. rewrite (Hp0 E). lia. }
      specialize (H Hpre). unfold set_valinfo, modify in *. cbn in H |- *. split.
      - unfold hitZ, hit. rewrite (Z.eqb_sym (a_denom a) dn). revert H.
        destruct (r_dst r =? v); destruct (dn =? a_denom a); cbn [andb]; intros H.
        all: eapply JDg_eq; [|exact H]; lia.
      - split; [|exact Hle]. unfold stored_shares. cbn [delegations set_valinfos]. rewrite Hda, Ed. reflexivity. }
    intros _.
    intros s (HJ & Hst & Hle).
    pose proof (sl_set_delegation True True (0 + hitZ (r_dst r) (a_denom a) sh) (r_del r) (r_dst r) (a_denom a) (set_d_shares (d_shares d - sh) d) (d_shares d)) as H.
    specialize (H (fun _ _ _ => ltac:(cbn; lia)) (fun x => x) s).
    assert (Hpre : JDg True (0 + hitZ (r_dst r) (a_denom a) sh) s /\
                   d_shares d = match kget (delegations s) [r_del r; r_dst r; a_denom a] with Some o => d_shares o | None => 0 end)
      by (split; [exact HJ | symmetry; exact Hst]).
    specialize (H Hpre). unfold set_delegation, modify in *. cbn in H |- *.
    match goal with H : JDg _ ?x _ |- JD ?y _ => replace y with x; [exact H|] end.
    unfold hitZ. destruct (hit (r_dst r) (a_denom a)); lia.
  Qed.

  (* ---------- the slash callback ---------- *)
  Lemma sl_slash_validator v0 f : hoare (JD 0) (slash_validator v0 f) (fun _ => JD 0) (fun _ => True).
  Proof.
    unfold slash_validator. destruct ((f <=? 0) || (ONE <? f)); [apply hoare_fail; auto|].
    eapply hoare_bind; [apply sl_get_alliance_validator|]. intros [sv vi]; cbv beta; cbn [snd].
    (* the loop over the validator's shares writes assets only; what it returns is denom-sorted *)
    eapply hoare_bind with (Q1 := fun vs' s => (JD 0 s /\ PV v0 vi s) /\ csorted vs').
    { pose proof (hoare_mfold_acc (Z * Z) Coins (fun s => JD 0 s /\ PV v0 vi s) csorted (fun _ => True) (vi_vshares vi)) as H.
      eapply hoare_post; [| |apply H]; [intros a s [H1 H2]; split; assumption | auto | apply Forall_forall; auto | | constructor]. clear H.
      intros acc da Hacc _. cbv zeta.
      eapply hoare_bind with (Q1 := fun _ s => JD 0 s /\ PV v0 vi s).
      { match goal with |- hoare _ (if ?b then _ else _) _ _ => destruct b end; [apply hoare_panic; auto | apply hoare_ret; auto]. }
      intros _.
      eapply hoare_bind with (Q1 := fun _ s => JD 0 s /\ PV v0 vi s); [unfold get_asset; apply hoare_gets; auto|]. intros oa.
      destruct oa as [a|]; [|apply hoare_fail; auto].
      eapply hoare_bind with (Q1 := fun _ s => JD 0 s /\ PV v0 vi s).
      { apply hoare_post with (Q' := fun _ s => JD 0 s /\ PV v0 vi s) (X' := fun s => JD 0 s /\ PV v0 vi s); [auto | auto|].
        apply inv_hoare. apply inv_modify. intros s [HJ HP]. split; [exact (sl_set_asset True 0 _ s HJ) | eapply PV_f; [|exact HP]; reflexivity]. }
      intros _. apply hoare_ret. intros s Hs. split; [exact Hs | apply csorted_cadd1; exact Hacc]. }
    intros vs'.
    eapply hoare_bind with (Q1 := fun _ => JD 0).
    { intros s [[HJ [[Hok1 Hok2] Hp]] Hvs].
      pose proof (jd_set_valinfo True 0 v0 (set_vi_vshares vs' vi) 0 s) as H.
      assert (Hpre : JDg True 0 s /\ vi_ok (set_vi_vshares vs' vi) /\ (v0 = v -> camount (vi_dshares (set_vi_vshares vs' vi)) dn = TOT s + 0)).
      { split; [exact HJ|]. split; [split; cbn; assumption|]. intros E. cbn. rewrite (Hp E). lia. }
      specialize (H Hpre). unfold set_valinfo, modify in *. cbn in H |- *. eapply JDg_eq; [|exact H]. destruct (v0 =? v); lia. }
    intros _.
    eapply hoare_bind; [apply sl_slash_redelegations|]. intros ?; cbv beta.
    frame True 0.
  Qed.

  Lemma sl_hook_slash v0 f : hoare (JD 0) (hook_slash v0 f) (fun _ => JD 0) (fun _ => True).
  Proof. unfold hook_slash. eapply hoare_bind; [apply sl_slash_validator|]. intros ?; cbv beta. frame True 0. Qed.

  (* ---------- messages ---------- *)
  Lemma sl_msg_delegate del v0 d0 amt : hoare (JD 0) (msg_delegate del v0 d0 amt) (fun _ => JD 0) (fun _ => True).
  Proof.
    unfold msg_delegate. destruct (amt <=? 0); [apply hoare_fail; auto|].
    eapply hoare_bind; [apply sl_get_alliance_validator|]. intros [sv vi]; cbv beta; cbn [snd]. apply sl_k_delegate.
  Qed.
  Lemma sl_msg_undelegate del v0 d0 amt : hoare (JD 0) (msg_undelegate del v0 d0 amt) (fun _ => JD 0) (fun _ => True).
  Proof.
    unfold msg_undelegate. destruct (amt <=? 0); [apply hoare_fail; auto|].
    eapply hoare_bind; [apply sl_get_alliance_validator|]. intros [sv vi]; cbv beta; cbn [snd]. apply sl_k_undelegate.
  Qed.
  Lemma sl_msg_claim del v0 d0 : hoare (JD 0) (msg_claim del v0 d0) (fun _ => JD 0) (fun _ => True).
  Proof.
    unfold msg_claim. eapply hoare_bind; [apply sl_get_alliance_validator|]. intros [sv vi]; cbv beta; cbn [snd].
    eapply hoare_bind; [apply sl_claim_delegation_rewards|]. intros vi'; cbv beta. apply hoare_ret. intros s [H _]; exact H.
  Qed.
  (* fetching a validator never changes this validator's total (a created record is empty) *)
  Lemma tf_get_alliance_validator T0 v0 : inv (TF T0) (get_alliance_validator v0).
  Proof.
    unfold get_alliance_validator. apply inv_bind; [apply inv_gets|]. intros osv. destruct osv; [|apply inv_fail].
    apply inv_of_hoare. apply hoare_bind_gets_eq. intros s0 Hs0.
    destruct (kget (valinfos s0) [v0]) as [vi|] eqn:Eg; [apply hoare_ret; intros s1 ->; exact Hs0|].
    eapply hoare_bind with (Q1 := fun _ => TF T0); [|intros _; apply hoare_ret; auto].
    unfold set_valinfo. apply hoare_modify. intros s1 ->. destruct Hs0 as [Hs Ht]. split; [cbn; apply ksorted_kset; exact Hs|].
    rewrite TOT_set_valinfo by exact Hs. destruct (v0 =? v) eqn:E; [|exact Ht].
    apply Z.eqb_eq in E. subst v0. rewrite <- Ht. unfold TOT, stored_vi. rewrite Eg. reflexivity.
  Qed.

  Lemma sl_msg_redelegate del src dst d0 amt : hoare (JD 0) (msg_redelegate del src dst d0 amt) (fun _ => JD 0) (fun _ => True).
  Proof.
    unfold msg_redelegate. destruct (amt <=? 0); [apply hoare_fail; auto|].
    eapply hoare_bind; [apply sl_get_alliance_validator|]. intros [sv svi]; cbv beta; cbn [snd].
    (* fetching the destination may create its (empty) record: the source copy stays current *)
    eapply hoare_bind with (Q1 := fun r s => JD 0 s /\ PV src svi s /\ PV dst (snd r) s).
    { intros s [HJ [Hok Hp]]. pose proof (sl_get_alliance_validator True 0 dst s HJ) as H1.
      pose proof (tf_get_alliance_validator (TOT s) dst s (conj (JDg_sorted _ _ _ HJ) eq_refl)) as H2.
      destruct (get_alliance_validator dst s) as [[sv2 dvi] s'|? ?|? ?]; auto. destruct H1 as [H1 H1']. destruct H2 as [_ H2].
      split; [exact H1|]. split; [|exact H1']. split; [exact Hok|]. intros E. rewrite H2. apply Hp; exact E. }
    intros [sv2 dvi]; cbn [snd]. apply sl_k_redelegate.
  Qed.

  (* ---------- versions that also hold at failure points (loops that swallow errors) ---------- *)
  Lemma jd_inv_get_alliance_validator v1 : inv (JD 0) (get_alliance_validator v1).
  Proof.
    apply inv_of_hoare. intros s Hs. pose proof (sl_get_alliance_validator True 0 v1 s Hs) as H.
    unfold get_alliance_validator, bind, gets in *. destruct (kget (svals s) [v1]); [|exact Hs].
    destruct (kget (valinfos s) [v1]); [exact Hs|]. unfold set_valinfo, modify, ret in *. destruct H as [H _]. exact H.
  Qed.

  Lemma frame2 A (J I X : State -> Prop) (m : M A) : inv J m -> inv I m -> (forall s, J s /\ I s -> X s) ->
    hoare (fun s => J s /\ I s) m (fun _ s => J s /\ I s) X.
  Proof. intros H1 H2 HX s [HJ HI]. specialize (H1 s HJ). specialize (H2 s HI). destruct (m s); auto. Qed.

  Lemma jd_add_assets_all v1 vi coins :
    hoare (fun s => JD 0 s /\ PV v1 vi s) (add_assets_to_reward_pool v1 vi coins) (fun _ => JD 0) (JD 0).
  Proof.
    assert (Hw : forall vi0 s, JD 0 s /\ PV v1 vi0 s -> JD 0 s) by (intros vi0 s [H _]; exact H).
    unfold add_assets_to_reward_pool. destruct (length (vi_dshares vi) =? 0)%nat; [apply hoare_ret; apply Hw|].
    eapply hoare_bind with (Q1 := fun _ s => JD 0 s /\ PV v1 vi s); [unfold all_assets; apply hoare_gets; auto|]. intros als.
    eapply hoare_bind with (Q1 := fun _ s => JD 0 s /\ PV v1 vi s); [apply hoare_gets; auto|]. intros t.
    eapply hoare_bind with (Q1 := fun _ s => JD 0 s /\ PV v1 vi s).
    { apply frame2; [inv_deep (JDg_f True 0) | inv_deep (PV_f v1 vi) | apply Hw]. }
    intros hist.
    eapply hoare_bind with (Q1 := fun _ s => JD 0 s /\ PV v1 (set_vi_hist hist vi) s).
    { intros s [HJ [Hok Hp]]. pose proof (jd_set_valinfo True 0 v1 (set_vi_hist hist vi) 0 s) as H.
      assert (Hpre : JDg True 0 s /\ vi_ok (set_vi_hist hist vi) /\ (v1 = v -> camount (vi_dshares (set_vi_hist hist vi)) dn = TOT s + 0)).
      { split; [exact HJ|]. split; [exact Hok|]. intros E. cbn. rewrite (Hp E). lia. }
      specialize (H Hpre). unfold set_valinfo, modify in *. cbn in H |- *. split.
      - eapply JDg_eq; [|exact H]. destruct (v1 =? v); lia.
      - split; [exact Hok|]. intros ->. unfold TOT, stored_vi. cbn [valinfos set_valinfos]. rewrite kget_kset_same. reflexivity. }
    intros _.
    eapply hoare_bind with (Q1 := fun _ s => JD 0 s /\ PV v1 (set_vi_hist hist vi) s).
    { apply frame2; [inv_deep (JDg_f True 0) | inv_deep (PV_f v1 (set_vi_hist hist vi)) | apply Hw]. }
    intros _. apply hoare_ret. apply Hw.
  Qed.

  Lemma jd_claim_validator_all v1 vi :
    hoare (fun s => JD 0 s /\ PV v1 vi s) (claim_validator_rewards v1 vi) (fun _ => JD 0) (JD 0).
  Proof.
    assert (Hw : forall s, JD 0 s /\ PV v1 vi s -> JD 0 s) by (intros s [H _]; exact H).
    unfold claim_validator_rewards.
    eapply hoare_bind with (Q1 := fun _ s => JD 0 s /\ PV v1 vi s); [apply hoare_gets; auto|]. intros od.
    destruct od; [|apply hoare_ret; exact Hw].
    eapply hoare_bind with (Q1 := fun _ s => JD 0 s /\ PV v1 vi s).
    { apply frame2; [inv_deep (JDg_f True 0) | inv_deep (PV_f v1 vi) | exact Hw]. }
    intros coins. destruct (cis_zero coins); [apply hoare_ret; exact Hw | apply jd_add_assets_all].
  Qed.

  (* fetch a validator and settle its rewards: the body of the loops over all validators *)
  Lemma jd_inv_fetch_and_claim A v1 (k : ValInfo -> M A) : (forall vi1, inv (JD 0) (k vi1)) ->
    inv (JD 0) ('(_, vi) <- get_alliance_validator v1 ;; vi1 <- claim_validator_rewards v1 vi ;; k vi1).
  Proof.
    intros Hk. apply inv_of_hoare.
    eapply hoare_bind with (Q1 := fun r s => JD 0 s /\ PV v1 (snd r) s).
    { intros s Hs. pose proof (sl_get_alliance_validator True 0 v1 s Hs) as H. pose proof (jd_inv_get_alliance_validator v1 s Hs) as H'.
      destruct (get_alliance_validator v1 s); auto. }
    intros [sv vi]; cbn [snd].
    eapply hoare_bind; [apply jd_claim_validator_all|]. intros vi1; cbv beta. apply inv_hoare. apply Hk.
  Qed.

  (* ---------- asset updates (governance and decay) ---------- *)
  Lemma sl_update_alliance_asset na : hoare (JD 0) (update_alliance_asset na) (fun _ => JD 0) (fun _ => True).
  Proof.
    unfold update_alliance_asset.
    eapply hoare_bind with (Q1 := fun _ => JD 0); [unfold get_asset; apply hoare_gets; auto|]. intros oa.
    destruct oa as [a|]; [|apply hoare_fail; auto].
    match goal with |- hoare _ (if ?b then _ else _) _ _ => destruct b end; [apply hoare_fail; auto|].
    eapply hoare_bind with (Q1 := fun _ => JD 0).
    { destruct (negb (a_weight na =? a_weight a)); [|apply hoare_ret; auto].
      eapply hoare_bind with (Q1 := fun _ => JD 0); [apply hoare_gets; auto|]. intros infos.
      eapply hoare_bind with (Q1 := fun _ => JD 0); [|intros _; frame True 0].
      apply inv_hoare_true. apply inv_mfor_swallow. intros kv.
      destruct (fst kv) as [|v1 [|]]; try apply inv_ret.
      apply jd_inv_fetch_and_claim. intros vi1. inv_deep (JDg_f True 0). }
    intros _.
    eapply hoare_bind with (Q1 := fun _ => JD 0); [apply hoare_gets; auto|]. intros t.
    apply inv_hoare_true. apply sl_set_asset.
  Qed.

  Lemma succ_mfold A B (J : State -> Prop) (l : list A) (f : B -> A -> M B) :
    (forall acc x, hoare J (f acc x) (fun _ => J) (fun _ => True)) -> forall acc, hoare J (mfold l acc f) (fun _ => J) (fun _ => True).
  Proof.
    intros H; induction l as [|x l IH]; intros acc; cbn [mfold]; [apply hoare_ret; auto|].
    eapply hoare_bind; [apply H | intros acc'; apply IH].
  Qed.
  Lemma succ_mfor A (J : State -> Prop) (l : list A) (f : A -> M unit) :
    (forall x, hoare J (f x) (fun _ => J) (fun _ => True)) -> hoare J (mfor l f) (fun _ => J) (fun _ => True).
  Proof. intros H. apply hoare_mfor. exact H. Qed.

  Lemma sl_reward_weight_change_hook als : hoare (JD 0) (reward_weight_change_hook als) (fun _ => JD 0) (fun _ => True).
  Proof.
    unfold reward_weight_change_hook. eapply hoare_bind with (Q1 := fun _ => JD 0); [apply hoare_gets; auto|]. intros t.
    apply succ_mfold. intros acc a.
    destruct ((a_interval a =? 0) || (a_rate a =? ONE)); [apply hoare_ret; auto|].
    destruct (t <? a_last a + a_interval a); [apply hoare_ret; auto|]. cbv zeta.
    eapply hoare_bind with (Q1 := fun _ => JD 0); [frame True 0|]. intros m.
    eapply hoare_bind with (Q1 := fun _ => JD 0); [frame True 0|]. intros w0.
    eapply hoare_bind with (Q1 := fun _ => JD 0); [frame True 0|]. intros _.
    eapply hoare_bind; [apply sl_update_alliance_asset|]. intros ?; cbv beta. apply hoare_ret; auto.
  Qed.

  (* ---------- rebalancing: validators are fetched once, settled later ---------- *)
  Definition elem_ok (T0 : Z) (x : Z * SVal * ValInfo) : Prop :=
    let '(v1, _, vi) := x in vi_ok vi /\ (v1 = v -> camount (vi_dshares vi) dn = T0).
  Definition JT0 (T0 : Z) (s : State) : Prop := JD 0 s /\ TOT s = T0.

  Lemma jt_frame T0 A (m : M A) : inv (JD 0) m -> inv (TF T0) m -> inv (JT0 T0) m.
  Proof.
    intros H1 H2 s [HJ HT]. specialize (H1 s HJ). specialize (H2 s (conj (JDg_sorted _ _ _ HJ) HT)).
    destruct (m s); (split; [exact H1 | destruct H2; assumption]).
  Qed.

  Lemma jt_partition T0 : forall (l : KMap ValInfo) (acc : list (Z * SVal * ValInfo) * Coins), Forall (elem_ok T0) (fst acc) ->
    hoare (JT0 T0)
      (mfold_swallow l acc (fun (acc : list (Z * SVal * ValInfo) * Coins) (kv : Key * ValInfo) =>
         match fst kv with
         | [v1] =>
           '(sv, vi) <- get_alliance_validator v1 ;;
           if is_bonded sv then ret (fst acc ++ [(v1, sv, vi)], snd acc)
           else ret (fst acc, cadd (snd acc) (vi_vshares vi))
         | _ => ret acc
         end))
      (fun r s => JT0 T0 s /\ Forall (elem_ok T0) (fst r)) (fun _ => True).
  Proof.
    induction l as [|kv l IH]; intros acc Hacc; cbn [mfold_swallow]; [apply hoare_ret; auto|].
    intros s Hs.
    assert (Hbody : match (match fst kv with
                           | [v1] => '(sv, vi) <- get_alliance_validator v1 ;;
                                     if is_bonded sv then ret (fst acc ++ [(v1, sv, vi)], snd acc) else ret (fst acc, cadd (snd acc) (vi_vshares vi))
                           | _ => ret acc end) s with
                    | Ok acc' s' => JT0 T0 s' /\ Forall (elem_ok T0) (fst acc')
                    | Err _ s' => JT0 T0 s'
                    | Panic _ _ => True end).
    { destruct (fst kv) as [|v1 [|]]; try (cbn; auto).
      unfold bind. destruct Hs as [HJ HT].
      pose proof (sl_get_alliance_validator True 0 v1 s HJ) as H1.
      pose proof (jd_inv_get_alliance_validator v1 s HJ) as H1'.
      pose proof (tf_get_alliance_validator T0 v1 s (conj (JDg_sorted _ _ _ HJ) HT)) as H2.
      destruct (get_alliance_validator v1 s) as [[sv vi] s'|e s'|e s']; [|split; [exact H1' | destruct H2; assumption] | exact I].
      destruct H1 as [H1 [Hok Hp]]. cbn [snd] in Hok, Hp. destruct H2 as [_ H2]. destruct (is_bonded sv); cbn [ret fst snd].
      - split; [split; assumption|]. apply Forall_app. split; [exact Hacc|]. constructor; [|constructor].
        cbn. split; [exact Hok|]. intros E. rewrite (Hp E). exact H2.
      - split; [split; assumption | exact Hacc]. }
    revert Hbody. match goal with |- match ?b with _ => _ end -> _ => destruct b as [acc' s'|e s'|e s'] end; intros Hbody.
    - destruct Hbody as [Hs' Hacc']. apply (IH acc' Hacc' s' Hs').
    - cbn. split; [exact Hbody | exact Hacc].
    - exact I.
  Qed.

  Lemma jt_claim T0 v1 vi : vi_ok vi -> (v1 = v -> camount (vi_dshares vi) dn = T0) ->
    hoare (JT0 T0) (claim_validator_rewards v1 vi) (fun _ => JT0 T0) (fun _ => True).
  Proof.
    intros Hok Hp s [HJ HT].
    assert (HP : PV v1 vi s) by (split; [exact Hok | intros E; rewrite HT; apply Hp; exact E]).
    pose proof (sl_claim_validator_rewards_same True 0 v1 vi s (conj HJ HP)) as H1.
    destruct (Z.eq_dec v1 v) as [E|Hne].
    - destruct (claim_validator_rewards v1 vi s) as [vi' s'|? ?|? ?]; auto. destruct H1 as [[H1 [_ Hp']] Hsame].
      split; [exact H1|]. rewrite <- (Hp' E), Hsame. apply Hp; exact E.
    - pose proof (tf_claim_validator_rewards T0 v1 vi Hne s (conj (JDg_sorted _ _ _ HJ) HT)) as H2.
      destruct (claim_validator_rewards v1 vi s) as [vi' s'|? ?|? ?]; auto. destruct H1 as [[H1 _] _]. destruct H2 as [_ H2]. split; assumption.
  Qed.
  Ltac jt T0 := apply inv_hoare_true; apply jt_frame; [inv_deep (JDg_f True 0) | inv_deep (TF_f T0)].

  Lemma sl_rebalance als : hoare (JD 0) (rebalance_bond_token_weights als) (fun _ => JD 0) (fun _ => True).
  Proof.
    unfold rebalance_bond_token_weights. apply hoare_bind_gets_eq. intros s0 Hs0.
    set (T0 := TOT s0).
    apply (hoare_pre _ _ (JT0 T0)); [intros s ->; split; [exact Hs0 | reflexivity]|].
    eapply hoare_bind with (Q1 := fun _ => JT0 T0); [apply hoare_gets; auto|]. intros t.
    eapply hoare_bind; [apply (jt_partition T0 (valinfos s0) ([], [])); constructor|]. intros [bonded unb]; cbv beta; cbn [fst].
    intros s [Hs Hall].
    match goal with |- match mfor bonded ?F s with _ => _ end =>
      assert (Hb : forall x, elem_ok T0 x -> hoare (JT0 T0) (F x) (fun _ => JT0 T0) (fun _ => True));
        [| pose proof (hoare_mfor_Forall _ _ _ _ _ _ Hall Hb s Hs) as H; destruct (mfor bonded F s); auto; destruct H; assumption]
    end.
    clear s Hs.
    intros [[v1 sv] vi] [Hok Hp].
    eapply hoare_bind with (Q1 := fun _ => JT0 T0); [apply hoare_gets; auto|]. intros od.
    eapply hoare_bind with (Q1 := fun _ => JT0 T0); [jt T0|]. intros expected.
    match goal with |- hoare _ (if ?b then _ else _) _ _ => destruct b end.
    - cbv zeta. match goal with |- hoare _ (if ?b then _ else _) _ _ => destruct b end; [apply hoare_ret; auto|].
      eapply hoare_bind with (Q1 := fun _ => JT0 T0); [jt T0|]. intros _.
      eapply hoare_bind; [apply (jt_claim T0 v1 vi Hok Hp)|]. intros ?; cbv beta. jt T0.
    - match goal with |- hoare _ (if ?b then _ else _) _ _ => destruct b end; [|apply hoare_ret; auto].
      cbv zeta. match goal with |- hoare _ (if ?b then _ else _) _ _ => destruct b end; [apply hoare_ret; auto|].
      eapply hoare_bind with (Q1 := fun _ => JT0 T0); [jt T0|]. intros sh.
      eapply hoare_bind; [apply (jt_claim T0 v1 vi Hok Hp)|]. intros ?; cbv beta.
      eapply hoare_bind with (Q1 := fun _ => JT0 T0); [jt T0|]. intros tok.
      eapply hoare_bind with (Q1 := fun _ => JT0 T0); [jt T0|]. intros c.
      jt T0.
  Qed.

  (* ---------- the whole end of block ---------- *)
  Lemma sl_initialize_assets als : hoare (JD 0) (initialize_assets als) (fun _ => JD 0) (fun _ => True).
  Proof.
    unfold initialize_assets. eapply hoare_bind with (Q1 := fun _ => JD 0); [apply hoare_gets; auto|]. intros t.
    apply succ_mfold. intros acc a. destruct (a_init a || negb (rewards_started a t)); [apply hoare_ret; auto|]. cbv zeta.
    eapply hoare_bind with (Q1 := fun _ => JD 0); [apply inv_hoare_true, sl_set_asset | intros _; apply hoare_ret; auto].
  Qed.

  Lemma sl_deduct_assets_hook als : hoare (JD 0) (deduct_assets_hook als) (fun _ => JD 0) (fun _ => True).
  Proof.
    apply inv_hoare_true.
    repeat first
      [ lazymatch goal with
        | |- inv _ (set_asset _) => apply sl_set_asset
        | |- inv _ (modify _) =>
          apply inv_modify; let s := fresh "s" in let Hs := fresh "Hs" in
          intros s Hs; apply (JDg_f True 0 s); [reflexivity | exact Hs]
        end
      | inv_step
      | lazymatch goal with |- inv _ ?m =>
          let h := head_of m in lazymatch h with set_asset => fail | _ => unfold h end end ].
  Qed.

  Lemma sl_end_blocker : hoare (JD 0) end_blocker (fun _ => JD 0) (fun _ => True).
  Proof.
    unfold end_blocker.
    eapply hoare_bind with (Q1 := fun _ => JD 0); [frame True 0|]. intros _.
    eapply hoare_bind with (Q1 := fun _ => JD 0); [frame True 0|]. intros _.
    eapply hoare_bind with (Q1 := fun _ => JD 0); [unfold all_assets; apply hoare_gets; auto|]. intros als.
    eapply hoare_bind; [apply sl_initialize_assets|]. intros als1; cbv beta.
    eapply hoare_bind; [apply sl_deduct_assets_hook|]. intros als2; cbv beta.
    eapply hoare_bind; [apply sl_reward_weight_change_hook|]. intros als3; cbv beta.
    unfold rebalance_hook. eapply hoare_bind with (Q1 := fun _ => JD 0); [apply hoare_gets; auto|]. intros f.
    destruct f; [|apply hoare_ret; auto].
    eapply hoare_bind with (Q1 := fun _ => JD 0); [frame True 0|]. intros _. apply sl_rebalance.
  Qed.

  (* ---------- governance ---------- *)
  Lemma sl_msg_create m : hoare (JD 0) (msg_create_alliance m) (fun _ => JD 0) (fun _ => True).
  Proof.
    apply inv_hoare_true.
    repeat first
      [ lazymatch goal with
        | |- inv _ (set_asset _) => apply sl_set_asset
        | |- inv _ (modify _) =>
          apply inv_modify; let s := fresh "s" in let Hs := fresh "Hs" in
          intros s Hs; apply (JDg_f True 0 s); [reflexivity | exact Hs]
        end
      | inv_step
      | lazymatch goal with |- inv _ ?m =>
          let h := head_of m in lazymatch h with set_asset => fail | _ => unfold h end end ].
  Qed.
  Lemma sl_msg_update m : hoare (JD 0) (msg_update_alliance m) (fun _ => JD 0) (fun _ => True).
  Proof.
    unfold msg_update_alliance.
    repeat match goal with
           | |- hoare _ (if ?b then _ else _) _ _ => destruct b
           | |- hoare _ (match ?x with _ => _ end) _ _ => destruct x
           | |- hoare _ (fail _) _ _ => apply hoare_fail; auto
           | |- hoare _ (panic _) _ _ => apply hoare_panic; auto
           | |- hoare _ (bind (get_asset _) _) _ _ => eapply hoare_bind with (Q1 := fun _ => JD 0); [unfold get_asset; apply hoare_gets; auto | intros ?]
           | |- hoare _ (update_alliance_asset _) _ _ => apply sl_update_alliance_asset
           end.
  Qed.
  (* deleting an asset keeps both sides of the ledger (it removes an asset record only) *)
  Lemma sl_msg_delete au d0 : hoare (JD 0) (msg_delete_alliance au d0) (fun _ => JD 0) (fun _ => True).
  Proof.
    unfold msg_delete_alliance. destruct (d0 <? 0); [apply hoare_fail; auto|]. destruct (negb (au =? AUTHORITY)); [apply hoare_fail; auto|].
    eapply hoare_bind with (Q1 := fun _ => JD 0); [unfold get_asset; apply hoare_gets; auto|]. intros oa.
    destruct oa as [a|]; [|apply hoare_fail; auto]. destruct (0 <? a_tokens a); [apply hoare_fail; auto|].
    apply hoare_modify. intros s ((H1 & H2 & H3 & H4 & H5) & Hn & Hsum). split; [|split; [exact Hn | exact Hsum]].
    unfold Base0, WK. cbn [delegations valinfos assets set_assets]. repeat split; try assumption. apply kall_kdel; exact H4.
  Qed.
  Lemma sl_msg_params au a b c : hoare (JD 0) (msg_update_params au a b c) (fun _ => JD 0) (fun _ => True).
  Proof. frame True 0. Qed.

  (* ---------- every operation; every history ---------- *)
  (* assumed of a step: a slash callback that returns an ERROR keeps partial writes (C08) and is
     excluded; x/staking removes a validator (AfterValidatorRemoved deletes its record) only when the
     record carries no delegator shares of the asset *)
  Definition adm_sl (s : State) (o : Op) : Prop :=
    match o with
    | OHookSlash _ _ => snd (step s o) <> R_ERR
    | ERemoveValInfo v0 => v0 = v -> TOT s = 0
    | _ => True
    end.

  Lemma JD_set_oracle o s : JD 0 s -> JD 0 (set_oracle o s).
  Proof. intros H; exact H. Qed.
  Lemma sl_wrap_tx (m : M unit) s : hoare (JD 0) m (fun _ => JD 0) (fun _ => True) -> JD 0 s -> JD 0 (fst (clear_oracle (tx m s))).
  Proof. intros Hm Hs. specialize (Hm s Hs). unfold tx, clear_oracle. destruct (m s); cbn; assumption. Qed.
  Lemma sl_wrap_endblock (m : M unit) s : hoare (JD 0) m (fun _ => JD 0) (fun _ => True) -> JD 0 s -> JD 0 (fst (clear_oracle (endblock m s))).
  Proof. intros Hm Hs. specialize (Hm s Hs). unfold endblock, clear_oracle. destruct (m s); cbn; assumption. Qed.
  Lemma sl_wrap_hook (m : M unit) s : hoare (JD 0) m (fun _ => JD 0) (fun _ => True) -> JD 0 s ->
    snd (clear_oracle (hook m s)) <> R_ERR -> JD 0 (fst (clear_oracle (hook m s))).
  Proof.
    intros Hm Hs Hne. specialize (Hm s Hs). unfold hook, clear_oracle in *. destruct (m s); cbn in *; try assumption.
    exfalso. apply Hne. reflexivity.
  Qed.
  Lemma JD_fold_put_bal bs s : JD 0 s -> JD 0 (fold_left (fun s b => put_bal (fst (fst b)) (snd (fst b)) (snd b) s) bs s).
  Proof. revert s; induction bs as [|b bs IH]; intros s Hs; cbn; auto. Qed.
  Lemma JD_fold_put_sup ss s : JD 0 s -> JD 0 (fold_left (fun s ds => put_sup (fst ds) (snd ds) s) ss s).
  Proof. revert s; induction ss as [|b bs IH]; intros s Hs; cbn; auto. Qed.

  Theorem step_JD s o : JD 0 s -> adm_sl s o -> JD 0 (fst (step s o)).
  Proof.
    intros Hs Ha; destruct o; cbn [step adm_sl] in *; try exact Hs.
    - apply sl_wrap_endblock; [apply sl_end_blocker | exact Hs].
    - apply sl_wrap_tx; [apply sl_msg_delegate | exact Hs].
    - apply sl_wrap_tx; [apply sl_msg_undelegate | exact Hs].
    - apply sl_wrap_tx; [apply sl_msg_redelegate | exact Hs].
    - apply sl_wrap_tx; [apply sl_msg_claim | exact Hs].
    - apply sl_wrap_tx; [apply sl_msg_create | exact Hs].
    - apply sl_wrap_tx; [apply sl_msg_update | exact Hs].
    - apply sl_wrap_tx; [apply sl_msg_delete | exact Hs].
    - apply sl_wrap_tx; [apply sl_msg_params | exact Hs].
    - apply sl_wrap_hook; [apply sl_hook_slash | exact Hs | exact Ha].
    - cbn. apply JD_fold_put_sup, JD_fold_put_bal; exact Hs.
    - (* the validator record is removed *)
      destruct Hs as ((H1 & H2 & H3 & H4 & H5) & Hn & Hsum). split; [|split; [exact Hn|]].
      + unfold Base0, WK. cbn [delegations valinfos assets set_valinfos]. repeat split; try assumption; [apply ksorted_kdel; exact H2 | apply vall_kdel; exact H3].
      + transitivity (SUM s); [reflexivity|]. rewrite Hsum. f_equal.
        unfold TOT, stored_vi. cbn [valinfos set_valinfos fst].
        destruct (Z.eq_dec val v) as [E|Hne].
        * subst val. rewrite kget_kdel_same by exact H2. specialize (Ha eq_refl). unfold TOT, stored_vi in Ha. rewrite Ha. reflexivity.
        * rewrite kget_kdel_other by (auto; congruence). reflexivity.
    - (* a genesis asset *)
      destruct Hs as ((H1 & H2 & H3 & H4 & H5) & Hn & Hsum). split; [|split; [exact Hn | exact Hsum]].
      unfold Base0, WK. cbn [delegations valinfos assets set_assets]. repeat split; try assumption. apply kall_kset; [exact H4 | reflexivity].
  Qed.

  Fixpoint adm_sl_run (s : State) (h : list Op) : Prop :=
    match h with [] => True | o :: h' => adm_sl s o /\ adm_sl_run (fst (step s o)) h' end.
  Theorem run_JD h : forall s, JD 0 s -> adm_sl_run s h -> JD 0 (run s h).
  Proof.
    induction h as [|o h IH]; intros s Hs Ha; cbn [run fold_left]; [exact Hs|].
    destruct Ha as [Ha1 Ha2]. apply IH; [apply step_JD; assumption | exact Ha2].
  Qed.
  Lemma JD_init : JD 0 init_state.
  Proof. split; [repeat split; constructor|]. split; [intros _; constructor | reflexivity]. Qed.

  (* the two sides in the words of the specification (Spec.check_C03, clause 1) *)
  Lemma SUM_is_spec s : SUM s = deleg_share_sum s v dn.
  Proof.
    unfold SUM, deleg_share_sum, ksum. induction (delegations s) as [|[k x] m IH]; cbn [fold_right fst snd]; [reflexivity|].
    rewrite IH. unfold fsh. destruct k as [|a [|b [|c [|]]]]; try lia. destruct ((b =? v) && (c =? dn)); lia.
  Qed.
  Lemma TOT_is_spec s : TOT s = dshares_of s v dn.
  Proof. unfold TOT, dshares_of, stored_vi. destruct (kget (valinfos s) [v]); reflexivity. Qed.
End Pair.

(* C03, delegator half: in every reachable state the delegations of (validator, asset) sum to the validator's
   recorded delegator shares of that asset, and no delegation has negative shares *)
Theorem delegator_shares_sum_to_the_total v dn h : adm_sl_run v dn init_state h ->
  let s := run init_state h in
  deleg_share_sum s v dn = dshares_of s v dn /\
  forall k x, kget (delegations s) k = Some x -> 0 <= d_shares x.
Proof.
  intros Ha s. pose proof (run_JD v dn h init_state (JD_init v dn) Ha) as (Hb & Hn & Hsum). fold s in Hb, Hn, Hsum. split.
  - rewrite <- SUM_is_spec, <- TOT_is_spec. lia.
  - intros k x Hg. specialize (Hn I). exact (vall_kget (fun x => 0 <= d_shares x) _ _ _ Hn Hg).
Qed.

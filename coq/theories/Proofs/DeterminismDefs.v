(* DeterminismDefs.v — C19 static half: the rule (definitions only). *)
From Coq Require Import String ZArith List Bool.
From Alliance Require Import SourceFacts.
Import ListNotations.
Open Scope string_scope.

Definition fact := (string * string * string * Z)%type.

(* the only places allowed to range over a Go map or to mention a float type *)
Definition allowed : list (string * string * string) :=
  [ ("range_map", "x/alliance/invariants.go", "DelegatorSharesInvariant");  (* crisis invariant: result is a boolean + message, not state *)
    ("float_type", "custom/bank/keeper/msg_server.go", "Send") ].             (* telemetry gauge in a deferred closure *)

Definition admissible_fact (f : fact) : bool :=
  let '(kind, file, fn, _) := f in
  if String.eqb kind "file" then true
  else existsb (fun a => let '(k, fl, g) := a in String.eqb k kind && String.eqb fl file && String.eqb g fn) allowed.

Definition files_scanned : nat := length (filter (fun f : fact => let '(kind, _, _, _) := f in String.eqb kind "file") source_facts).


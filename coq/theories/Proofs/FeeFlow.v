(* FeeFlow.v — C07: what the slash of pending unbondings takes from the entries arrives, coin for
   coin, at the fee collector:  fee-collector balance + pending unbonding balances of a denom is
   the same before and after slashUndelegations.  With SlashQueue (each entry of the validator is
   reduced by floor(f x balance) exactly once, nothing else is touched) the fee collector receives
   exactly the sum of those amounts. *)
From Coq Require Import ZArith List Bool Lia.
From Alliance Require Import Num KMap KMapFacts KMapSorted Types Monad Model Step Spec Hoare.
From Alliance.Proofs Require Import SortedInv Misc Payout Custody.
Import ListNotations.
Open Scope Z_scope.

Section Denom.
  Variable d : Z.
  Notation lsum := (Custody.lsum d).
  Notation U := (Custody.U d).
  Definition F (s : State) : Z := bal s ACC_FEE d.

  Lemma fee_not_custody : ACC_FEE <> ACC_ALLIANCE.
  Proof. unfold ACC_FEE, ACC_ALLIANCE; lia. Qed.

  (* fee balance while the queue is frozen (inner loop) *)
  Definition KQ (c : Z) (Q0 : KMap (list Undel)) (s : State) : Prop := JB ACC_FEE d c s /\ undelq s = Q0.
  Definition amt (e : Undel) : Z := if u_denom e =? d then u_amount e else 0.

  Lemma kq_frame c Q0 A (m : M A) : inv (JB ACC_FEE d c) m -> (forall Q, inv (fun s => undelq s = Q) m) -> inv (KQ c Q0) m.
  Proof. intros H1 H2 s [Ha Hb]. specialize (H1 s Ha). specialize (H2 Q0 s Hb). destruct (m s); split; assumption. Qed.

  Lemma fee_entry v dn f Q0 acc e c :
    hoare (KQ c Q0) (slash_entry_body v dn f acc e)
      (fun acc' s => exists e', acc' = acc ++ [e'] /\ KQ (c + amt e - amt e') Q0 s) (fun _ => True).
  Proof.
    unfold slash_entry_body. destruct (negb ((u_val e =? v) && (u_denom e =? dn))).
    - apply hoare_ret. intros s H. exists e. split; [reflexivity|]. replace (c + amt e - amt e) with c by lia. exact H.
    - cbv zeta. set (tok := dtrunc (dmul_int f (u_amount e))).
      eapply hoare_bind with (Q1 := fun _ => KQ c Q0).
      { destruct ((u_amount e - tok <? 0) || (tok <? 0)); [apply hoare_panic; auto | apply hoare_ret; auto]. }
      intros _. unfold coin1. destruct (tok <? 0); [intros s _; exact I|]. unfold bind at 1, ret at 1.
      eapply hoare_bind with (Q1 := fun _ => KQ (c + (if u_denom e =? d then tok else 0)) Q0).
      { unfold bank_send.
        eapply hoare_bind with (Q1 := fun _ => KQ c Q0).
        { apply inv_hoare_true. apply kq_frame; [apply jb_sub_other; apply not_eq_sym, fee_not_custody | intros Q; inv_deep (Custody.Qf Q)]. }
        intros _. intros s [Ha Hb].
        pose proof (jb_add1 ACC_FEE d fee_not_custody c ACC_FEE (u_denom e) tok s Ha) as H.
        assert (Hq : inv (fun s => undelq s = Q0) (bank_add ACC_FEE (if tok =? 0 then [] else [(u_denom e, tok)]))) by (inv_deep (Custody.Qf Q0)).
        specialize (Hq s Hb).
        destruct (bank_add ACC_FEE _ s); try contradiction. rewrite Z.eqb_refl in H. cbn [andb] in H. split; assumption. }
      intros _. apply hoare_ret. intros s H. eexists; split; [reflexivity|].
      unfold amt. cbn [u_denom u_amount set_u_amount]. destruct H as [H HQ]. split; [|exact HQ].
      destruct (u_denom e =? d); [replace (c + u_amount e - (u_amount e - tok)) with (c + tok) by lia | replace (c + 0 - 0) with (c + 0) by lia]; exact H.
  Qed.

  Lemma lsum_snoc l e : lsum (l ++ [e]) = lsum l + amt e.
  Proof. rewrite Custody.lsum_app. unfold amt, Custody.lsum. cbn. lia. Qed.

  Lemma fee_entries v dn f Q0 : forall rest acc c,
    hoare (KQ c Q0) (mfold rest acc (slash_entry_body v dn f))
      (fun acc' => KQ (c + lsum acc + lsum rest - lsum acc') Q0) (fun _ => True).
  Proof.
    induction rest as [|e rest IH]; intros acc c; cbn [mfold].
    - apply hoare_ret. intros s H. replace (c + lsum acc + lsum [] - lsum acc) with c by (unfold Custody.lsum; cbn; lia). exact H.
    - eapply hoare_bind; [apply fee_entry|]. intros acc'; cbv beta.
      intros s (e' & -> & HJ).
      pose proof (IH (acc ++ [e']) _ s HJ) as H.
      destruct (mfold rest (acc ++ [e']) (slash_entry_body v dn f) s) as [r s'|? ?|? ?]; auto.
      replace (c + lsum acc + lsum (e :: rest) - lsum r) with (c + amt e - amt e' + lsum (acc ++ [e']) + lsum rest - lsum r); [exact H|].
      rewrite lsum_snoc. unfold amt, Custody.lsum. cbn [fold_right]. lia.
  Qed.

  (* fee + pending is conserved *)
  Definition K (c : Z) (s : State) : Prop := ksorted (bank s) /\ ksorted (undelq s) /\ F s + U s = c.

  Theorem fee_plus_pending_conserved v f c :
    hoare (K c) (slash_undelegations v f) (fun _ => K c) (fun _ => True).
  Proof.
    unfold slash_undelegations.
    eapply hoare_bind with (Q1 := fun _ => K c); [apply hoare_gets; auto|]. intros idx.
    eapply hoare_bind with (Q1 := fun _ => K c); [apply hoare_gets; auto|]. intros t.
    apply hoare_mfor. intros ku.
    destruct (fst ku) as [|v0 [|ct [|dn [|del [|]]]]]; try (apply hoare_fail; auto).
    destruct (ct <? t); [apply hoare_ret; auto|].
    apply hoare_bind_gets_eq. intros s0 (Hb0 & Hq0 & Hc0).
    set (entries := match kget (undelq s0) [ct; del] with Some l => l | None => [] end).
    apply (hoare_pre _ _ (KQ (F s0) (undelq s0))); [intros s ->; split; [split; [exact Hb0 | reflexivity] | reflexivity]|].
    eapply hoare_bind; [apply (fee_entries v dn f (undelq s0) entries [] (F s0))|]. intros entries'; cbv beta.
    apply hoare_modify. intros s [[Hbs Hf] HQ]. split; [exact Hbs|]. split; [cbn; rewrite HQ; apply ksorted_kset; exact Hq0|].
    unfold F, Custody.U in *. cbn [undelq set_undelq bank set_undelq]. change (bal (set_undelq _ s) ACC_FEE d) with (bal s ACC_FEE d).
    rewrite HQ. rewrite ksum_kset by exact Hq0. unfold kval. fold entries.
    assert (Hl : match kget (undelq s0) [ct; del] with Some o => lsum o | None => 0 end = lsum entries).
    { unfold entries. destruct (kget (undelq s0) [ct; del]); reflexivity. }
    rewrite Hl. rewrite Hf. unfold Custody.lsum at 1. cbn [fold_right]. lia.
  Qed.
End Denom.

(* C07: in every reachable state, when the slash of pending unbondings returns, the fee collector has
   received, per denom, exactly what the pending entries lost *)
Theorem slashed_unbondings_go_to_the_fee_collector h v f d : let s := run init_state h in
  match slash_undelegations v f s with
  | Ok _ s' => bal s' ACC_FEE d - bal s ACC_FEE d = unbonding_sum s d - unbonding_sum s' d
  | _ => True
  end.
Proof.
  intros s. pose proof (reachable_Sorted h) as (_&_&_&_&_&_&Hq&_&_&Hb&_). fold s in Hq, Hb.
  pose proof (fee_plus_pending_conserved d v f (F d s + Custody.U d s) s (conj Hb (conj Hq eq_refl))) as H.
  destruct (slash_undelegations v f s) as [x s'| |]; try exact I.
  destruct H as (_ & _ & H). unfold F in H. rewrite !Custody.U_is_unbonding_sum in H. lia.
Qed.

(* Custody.v — C01: custody of an alliance denom never falls below what is owed
   (staked total + pending unbondings), in every reachable state. *)
From Coq Require Import ZArith List Bool Lia.
From Alliance Require Import Num KMap KMapFacts KMapSorted Types Monad Model Step Spec Hoare.
From Alliance.Proofs Require Import SortedInv WellKeyed Misc Frames Queues.
Import ListNotations.
Open Scope Z_scope.


(* a sorted map returns, under the key of one of its bindings, that binding *)
Lemma kget_in_sorted {V} (m : KMap V) kv : ksorted m -> In kv m -> kget m (fst kv) = Some (snd kv).
Proof.
  intros Hm Hin; induction m as [|[k0 v0] m IH]; [destruct Hin|].
  apply ksorted_inv in Hm. destruct Hm as [Hm Hall]. cbn [kget]. destruct Hin as [<-|Hin].
  - cbn. rewrite kcmp_refl. reflexivity.
  - rewrite Forall_forall in Hall. specialize (Hall kv Hin). cbn in Hall.
    rewrite (kcmp_lt_gt _ _ Hall). apply IH; assumption.
Qed.


Lemma oracle_fold_put_bal bs : forall s, oracle (fold_left (fun s b => put_bal (fst (fst b)) (snd (fst b)) (snd b) s) bs s) = oracle s.
Proof. induction bs as [|b bs IH]; intros s; cbn [fold_left]; [reflexivity | rewrite IH; reflexivity]. Qed.
Lemma oracle_fold_put_sup ss : forall s, oracle (fold_left (fun s ds => put_sup (fst ds) (snd ds) s) ss s) = oracle s.
Proof. induction ss as [|b bs IH]; intros s; cbn [fold_left]; [reflexivity | rewrite IH; reflexivity]. Qed.

Section Denom.
  Variable d : Z.
  Hypothesis d_not_bond : d <> BOND_DENOM.

  (* ---------- the three quantities ---------- *)
  Definition B (s : State) : Z := bal s ACC_ALLIANCE d.
  Definition T (s : State) : Z := staked_total s d.
  Definition lsum (l : list Undel) : Z :=
    fold_right (fun u acc => (if u_denom u =? d then u_amount u else 0) + acc) 0 l.
  Definition U (s : State) : Z := ksum (fun _ l => lsum l) (undelq s).
  Definition sl (s : State) : Z := B s - T s - U s.

  Lemma lsum_app a b : lsum (a ++ b) = lsum a + lsum b.
  Proof. unfold lsum; induction a as [|x a IH]; cbn; [lia|]. fold (lsum (a ++ b)) in *. fold (lsum a) in *. lia. Qed.

  Lemma U_is_unbonding_sum s : U s = unbonding_sum s d.
  Proof.
    unfold U, unbonding_sum, all_undels, ksum. induction (undelq s) as [|[k l] m IH]; cbn; [reflexivity|].
    rewrite IH. clear IH. induction l as [|u l IHl]; cbn; [reflexivity|]. unfold lsum in *. cbn. lia.
  Qed.
  Lemma sl_is_slack s : sl s = slack s d.
  Proof. unfold sl, slack, custody, owed, B, T. rewrite U_is_unbonding_sum. lia. Qed.

  (* ---------- the invariants carried along ---------- *)
  (* recorded withdrawals carry non-negative amounts (admissibility of EOracle) *)
  Definition coins_nonneg (c : Coins) : Prop := Forall (fun da => 0 <= snd da) c.
  Definition ON (s : State) : Prop := Forall (fun vc => coins_nonneg (snd vc)) (oracle s).
  Definition Inv (s : State) : Prop := SortedS s /\ WK s /\ ON s.
  Definition JC (c : Z) (s : State) : Prop := Inv s /\ c <= sl s.

  Lemma Inv_sorted_bank s : Inv s -> ksorted (bank s).
  Proof. intros [(?&?&?&?&?&?&?&?&?&?&?&?&?) _]; assumption. Qed.
  Lemma Inv_sorted_assets s : Inv s -> ksorted (assets s).
  Proof. intros [(?&?&?&?&?&?&?&?&?&?&?&?&?) _]; assumption. Qed.
  Lemma Inv_sorted_undelq s : Inv s -> ksorted (undelq s).
  Proof. intros [(?&?&?&?&?&?&?&?&?&?&?&?&?) _]; assumption. Qed.
  Lemma Inv_WK s : Inv s -> WK s.
  Proof. intros (_ & H & _); exact H. Qed.

  (* Inv is preserved by everything (SortedInv, WellKeyed): as Hoare-style facts *)
  Lemma Inv_f : forall s s', maps_of s' = maps_of s -> oracle s' = oracle s -> Inv s -> Inv s'.
  Proof.
    intros s s' E Eo (H1 & H2 & H3); split; [eapply Sf; eauto|]. split.
    - eapply WKf; [|exact H2]. unfold maps_of in E. inversion E; reflexivity.
    - unfold ON in *. rewrite Eo. exact H3.
  Qed.

  (* ---------- effect of the primitive writes on B, T, U ---------- *)
  Lemma B_put_bal_custody s v : Inv s -> B (put_bal ACC_ALLIANCE d v s) = v.
  Proof. intros H; apply bal_put_bal_same, Inv_sorted_bank, H. Qed.
  Lemma B_put_bal_other s a d' v : Inv s -> (a, d') <> (ACC_ALLIANCE, d) -> B (put_bal a d' v s) = B s.
  Proof. intros H Hne; apply bal_put_bal_other; [apply Inv_sorted_bank, H|]. congruence. Qed.

  Lemma T_put_bal s a d' v : T (put_bal a d' v s) = T s.
  Proof. reflexivity. Qed.
  Lemma U_put_bal s a d' v : U (put_bal a d' v s) = U s.
  Proof. reflexivity. Qed.

  Lemma T_set_asset s a : Inv s ->
    T (set_assets (kset (assets s) [a_denom a] a) s) = if a_denom a =? d then a_tokens a else T s.
  Proof.
    intros H. unfold T, staked_total; cbn. destruct (a_denom a =? d) eqn:E.
    - apply Z.eqb_eq in E; subst. rewrite kget_kset_same. reflexivity.
    - apply Z.eqb_neq in E. rewrite kget_kset_other; [reflexivity | apply Inv_sorted_assets, H | congruence].
  Qed.

  Lemma U_set_bucket s k l : Inv s ->
    U (set_undelq (kset (undelq s) k l) s) = U s - (match kget (undelq s) k with Some o => lsum o | None => 0 end) + lsum l.
  Proof. intros H. unfold U; cbn [undelq set_undelq]. rewrite ksum_kset by (apply Inv_sorted_undelq, H). unfold kval. reflexivity. Qed.
  Lemma U_del_bucket s k : Inv s ->
    U (set_undelq (kdel (undelq s) k) s) = U s - (match kget (undelq s) k with Some o => lsum o | None => 0 end).
  Proof. intros H. unfold U; cbn [undelq set_undelq]. rewrite ksum_kdel by (apply Inv_sorted_undelq, H). unfold kval. reflexivity. Qed.

  (* ---------- Inv at a modify leaf ---------- *)
  Ltac inv_goal Hi :=
    destruct Hi as (HS & HW & HO); split;
    [ unfold SortedS in *; unfold put_bal, put_sup; cbn;
      destruct HS as (?&?&?&?&?&?&?&?&?&?&?&?&?); srt_solve
    | split;
      [ unfold WK in *; cbn; first [ exact HW | apply kall_kset; [exact HW | reflexivity] | apply kall_kdel; exact HW ]
      | unfold ON in *; cbn; first [ exact HO | inversion HO; assumption ] ] ].

  (* a write that touches neither the bank, nor the assets, nor the unbonding queue *)
  Ltac neutral_leaf :=
    apply inv_modify; let s := fresh "s" in let H := fresh "H" in
    intros s [Hi Hc]; split; [inv_goal Hi | exact Hc].
  Definition proj (s : State) := (bank s, assets s, undelq s).
  Lemma JC_f c : forall s s', (maps_of s', oracle s') = (maps_of s, oracle s) -> JC c s -> JC c s'.
  Proof.
    intros s s' E0 [Hi Hc].
    assert (E : maps_of s' = maps_of s) by congruence. assert (Eo : oracle s' = oracle s) by congruence.
    split; [eapply Inv_f; eauto|].
    assert (Eb : bank s' = bank s) by (unfold maps_of in E; congruence).
    assert (Ea : assets s' = assets s) by (unfold maps_of in E; congruence).
    assert (Eu : undelq s' = undelq s) by (unfold maps_of in E; congruence).
    unfold sl, B, T, U, bal, staked_total in *. rewrite Eb, Ea, Eu. exact Hc.
  Qed.

  (* ---------- bank ---------- *)
  Definition csum (c : Coins) : Z := fold_right (fun da acc => (if fst da =? d then snd da else 0) + acc) 0 c.

  Lemma csum_cons d' a' coins : csum ((d', a') :: coins) = (if d' =? d then a' else 0) + csum coins.
  Proof. reflexivity. Qed.

  (* taking coins out of an account other than custody / adding to one: neutral *)
  Lemma jc_bank_sub_other c a coins : a <> ACC_ALLIANCE -> inv (JC c) (bank_sub a coins).
  Proof.
    intros Ha. unfold bank_sub. apply inv_mfor; intros da.
    apply inv_bind; [apply inv_gets|]; intros b. destruct (b <? snd da); [apply inv_fail|].
    apply inv_modify; intros s [Hi Hc]; split; [inv_goal Hi|].
    unfold sl in *. rewrite B_put_bal_other, T_put_bal, U_put_bal by (auto; congruence). exact Hc.
  Qed.
  Lemma jc_bank_add_other c a coins : a <> ACC_ALLIANCE -> inv (JC c) (bank_add a coins).
  Proof.
    intros Ha. unfold bank_add. apply inv_mfor; intros da.
    apply inv_modify; intros s [Hi Hc]; split; [inv_goal Hi|].
    unfold sl in *. rewrite B_put_bal_other, T_put_bal, U_put_bal by (auto; congruence). exact Hc.
  Qed.

  (* adding to custody: slack grows by what was added *)
  Lemma jc_bank_add_custody coins : forall c,
    hoare (JC c) (bank_add ACC_ALLIANCE coins) (fun _ => JC (c + csum coins)) (fun _ => False).
  Proof.
    unfold bank_add. induction coins as [|[d' a'] coins IH]; intros c; cbn [mfor]; [|rewrite csum_cons].
    - apply hoare_ret. intros s H. cbn. rewrite Z.add_0_r. exact H.
    - eapply hoare_bind with (Q1 := fun _ => JC (c + (if d' =? d then a' else 0))).
      + apply hoare_modify. intros s [Hi Hc]. split; [inv_goal Hi|]. cbn [fst snd]. unfold sl in *.
        destruct (d' =? d) eqn:E.
        * apply Z.eqb_eq in E; subst d'. rewrite B_put_bal_custody, T_put_bal, U_put_bal by exact Hi. unfold B in *. lia.
        * apply Z.eqb_neq in E. rewrite B_put_bal_other, T_put_bal, U_put_bal by (auto; congruence). lia.
      + intros _. cbn [fst snd].
        replace (c + ((if d' =? d then a' else 0) + csum coins)) with (c + (if d' =? d then a' else 0) + csum coins) by lia. apply IH.
  Qed.

  (* taking out of custody: slack shrinks by what was taken (on success) *)
  Lemma jc_bank_sub_custody coins : forall c,
    hoare (JC c) (bank_sub ACC_ALLIANCE coins) (fun _ => JC (c - csum coins)) (fun _ => True).
  Proof.
    unfold bank_sub. induction coins as [|[d' a'] coins IH]; intros c; cbn [mfor]; [|rewrite csum_cons].
    - apply hoare_ret. intros s H. cbn. rewrite Z.sub_0_r. exact H.
    - eapply hoare_bind with (Q1 := fun _ => JC (c - (if d' =? d then a' else 0))).
      + eapply hoare_bind with (Q1 := fun b s => JC c s /\ b = bal s ACC_ALLIANCE d'); [apply hoare_gets; auto|].
        intros b. cbn [fst snd]. destruct (b <? a'); [apply hoare_fail; auto|].
        apply hoare_modify. intros s [[Hi Hc] Hb]. split; [inv_goal Hi|]. unfold sl in *.
        destruct (d' =? d) eqn:E.
        * apply Z.eqb_eq in E; subst d'. rewrite B_put_bal_custody, T_put_bal, U_put_bal by exact Hi. unfold B in *. lia.
        * apply Z.eqb_neq in E. rewrite B_put_bal_other, T_put_bal, U_put_bal by (auto; congruence). lia.
      + intros _. cbn [fst snd].
        replace (c - ((if d' =? d then a' else 0) + csum coins)) with (c - (if d' =? d then a' else 0) - csum coins) by lia. apply IH.
  Qed.

  (* ---------- with non-negative coins every exit of the custody debit is bounded ---------- *)
  Lemma csum_nonneg coins : coins_nonneg coins -> 0 <= csum coins.
  Proof.
    intros H; induction H as [|[d' a'] coins Ha Hc IH]; cbn; [lia|]. fold (csum coins). cbn in Ha.
    destruct (d' =? d); lia.
  Qed.
  Lemma JC_weaken c c' s : c' <= c -> JC c s -> JC c' s.
  Proof. intros Hle [Hi Hc]; split; [exact Hi | lia]. Qed.

  Lemma jc_bank_sub_custody_strong coins : coins_nonneg coins -> forall c,
    hoare (JC c) (bank_sub ACC_ALLIANCE coins) (fun _ => JC (c - csum coins)) (JC (c - csum coins)).
  Proof.
    unfold bank_sub. intros Hn; induction Hn as [|[d' a'] coins Ha Hn IH]; intros c; cbn [mfor]; [|rewrite csum_cons].
    - apply hoare_ret. intros s H. cbn. rewrite Z.sub_0_r. exact H.
    - cbn in Ha. pose proof (csum_nonneg coins Hn) as Hcs.
      eapply hoare_bind with (Q1 := fun _ => JC (c - (if d' =? d then a' else 0))).
      + eapply hoare_bind with (Q1 := fun b s => JC c s /\ b = bal s ACC_ALLIANCE d'); [apply hoare_gets; auto|].
        intros b. cbn [fst snd]. destruct (b <? a').
        * apply hoare_fail. intros s [H _]. eapply JC_weaken; [|exact H]. destruct (d' =? d); lia.
        * apply hoare_modify. intros s [[Hi Hc] Hb]. split; [inv_goal Hi|]. unfold sl in *.
          destruct (d' =? d) eqn:E.
          -- apply Z.eqb_eq in E; subst d'. rewrite B_put_bal_custody, T_put_bal, U_put_bal by exact Hi. unfold B in *. lia.
          -- apply Z.eqb_neq in E. rewrite B_put_bal_other, T_put_bal, U_put_bal by (auto; congruence). lia.
      + intros _. cbn [fst snd].
        replace (c - ((if d' =? d then a' else 0) + csum coins)) with (c - (if d' =? d then a' else 0) - csum coins) by lia. apply IH.
  Qed.

  (* ---------- automation for programs that only make neutral writes ---------- *)
  Ltac acc_ne := first [ assumption | unfold ACC_ALLIANCE, ACC_REWARDS, ACC_FEE, ACC_BONDED, ACC_NOTBONDED in *; lia ].
  Ltac jc_leaf c :=
    first
      [ apply inv_modify; let s := fresh "s" in let Hs := fresh "Hs" in
        intros s Hs; apply (JC_f c s); [reflexivity | exact Hs]
      | apply inv_modify; let s := fresh "s" in
        intros s [Hi Hc]; split; [inv_goal Hi | exact Hc] ].
  Ltac jc_step c :=
    first
      [ lazymatch goal with
        | |- inv _ (modify _) => jc_leaf c
        | |- inv _ (bank_sub ?a _) => apply jc_bank_sub_other; acc_ne
        | |- inv _ (bank_add ?a _) => apply jc_bank_add_other; acc_ne
        end
      | inv_step
      | lazymatch goal with
        | |- inv _ ?m => let h := head_of m in unfold h
        end ].
  Ltac jc_auto c := repeat (jc_step c).

  (* ---------- reward settlement ---------- *)
  Lemma jc_withdraw_oracle v c :
    hoare (JC c) (withdraw_oracle v) (fun coins s => JC (c + csum coins) s /\ coins_nonneg coins) (JC c).
  Proof.
    unfold withdraw_oracle. apply hoare_bind_gets_eq. intros s0 Hs0.
    destruct (oracle s0) as [|[v' cs] rest] eqn:Eo; [apply hoare_fail; intros; subst; exact Hs0|].
    destruct (v' =? v); [|apply hoare_fail; intros; subst; exact Hs0].
    assert (Hn : coins_nonneg cs).
    { destruct Hs0 as [(_ & _ & HO) _]. unfold ON in HO. rewrite Eo in HO. inversion HO; assumption. }
    eapply hoare_bind with (Q1 := fun _ => JC c).
    { apply hoare_modify. intros s ->. destruct Hs0 as [Hi Hc]. split; [|exact Hc].
      destruct Hi as (HS & HW & HO). split; [exact HS|]. split; [exact HW|]. unfold ON in *. cbn. rewrite Eo in HO. inversion HO; assumption. }
    intros _. eapply hoare_bind with (Q1 := fun _ => JC (c + csum cs)).
    { eapply hoare_post; [| |apply jc_bank_add_custody]; cbn; [auto | intros ? []]. }
    intros _. apply hoare_ret. intros s H; split; [exact H | exact Hn].
  Qed.

  Lemma jc_add_assets_to_reward_pool v vi coins c : coins_nonneg coins ->
    hoare (JC (c + csum coins)) (add_assets_to_reward_pool v vi coins) (fun _ => JC c) (JC c).
  Proof.
    intros Hn. pose proof (csum_nonneg coins Hn) as Hcs.
    assert (Hw : forall s, JC (c + csum coins) s -> JC c s) by (intros s; apply JC_weaken; lia).
    unfold add_assets_to_reward_pool. destruct (length (vi_dshares vi) =? 0)%nat; [apply hoare_ret; exact Hw|].
    eapply hoare_bind with (Q1 := fun _ => JC (c + csum coins)); [unfold all_assets; apply hoare_gets; auto|]. intros als.
    eapply hoare_bind with (Q1 := fun _ => JC (c + csum coins)); [apply hoare_gets; auto|]. intros t.
    eapply hoare_bind with (Q1 := fun _ => JC (c + csum coins)).
    { eapply hoare_post; [| |apply inv_hoare]; [intros ? ? H; exact H | exact Hw |]. jc_auto (c + csum coins). }
    intros hist.
    eapply hoare_bind with (Q1 := fun _ => JC (c + csum coins)).
    { eapply hoare_post; [| |apply inv_hoare]; [intros ? ? H; exact H | exact Hw |]. jc_auto (c + csum coins). }
    intros _. unfold bank_send.
    eapply hoare_bind with (Q1 := fun _ => JC c).
    { eapply hoare_bind with (Q1 := fun _ => JC c).
      - eapply hoare_post; [| |apply (jc_bank_sub_custody_strong coins Hn)];
          [intros ? ? H; replace c with (c + csum coins - csum coins) by lia; exact H
          |intros ? H; replace c with (c + csum coins - csum coins) by lia; exact H].
      - intros _. apply inv_hoare. apply jc_bank_add_other. acc_ne. }
    intros _. apply hoare_ret. auto.
  Qed.

  Lemma jc_claim_validator_rewards v vi c : inv (JC c) (claim_validator_rewards v vi).
  Proof.
    apply inv_of_hoare. unfold claim_validator_rewards.
    eapply hoare_bind with (Q1 := fun _ => JC c); [apply hoare_gets; auto|]. intros od.
    destruct od; [|apply hoare_ret; auto].
    eapply hoare_bind; [apply jc_withdraw_oracle|]. intros coins.
    destruct (cis_zero coins).
    - apply hoare_ret. intros s [H Hn]. eapply JC_weaken; [|exact H]. pose proof (csum_nonneg coins Hn). lia.
    - intros s [H Hn]. exact (jc_add_assets_to_reward_pool v vi coins c Hn s H).
  Qed.

  (* a claim by a delegator that is not the custody account *)
  Lemma jc_claim_delegation_rewards del v vi dn c : del <> ACC_ALLIANCE ->
    inv (JC c) (claim_delegation_rewards del v vi dn).
  Proof.
    intros Hdel. unfold claim_delegation_rewards.
    repeat (first [ apply jc_claim_validator_rewards | jc_step c ]).
  Qed.

  (* ---------- carrying a fact about the assets map through programs that do not write it ---------- *)
  Lemma inv_with_assets A (J : State -> Prop) (R : KMap Asset -> Prop) (m : M A) :
    inv J m -> (forall A0, inv (JA A0) m) -> inv (fun s => J s /\ R (assets s)) m.
  Proof.
    intros H1 H2 s [HJ HR]. specialize (H1 s HJ). specialize (H2 (assets s) s eq_refl). unfold JA in H2.
    destruct (m s); rewrite H2; auto.
  Qed.
  Ltac assets_frame := let A0 := fresh "A0" in intros A0; inv_deep (JAf A0).

  (* T read off the assets map *)
  Lemma T_of_kget s a : WK s -> kget (assets s) [d] = Some a -> T s = a_tokens a.
  Proof. intros _ H; unfold T, staked_total; rewrite H; reflexivity. Qed.

  (* ---------- Delegate ---------- *)
  Lemma jc_k_delegate del v vi dn amt c : del <> ACC_ALLIANCE -> 0 < amt ->
    hoare (JC c) (k_delegate del v vi dn amt) (fun _ => JC c) (fun _ => True).
  Proof.
    intros Hdel Hamt. unfold k_delegate, get_asset. apply hoare_bind_gets_eq. intros s0 Hs0.
    destruct (kget (assets s0) [dn]) as [a|] eqn:Eg; [|apply hoare_fail; auto].
    assert (Hda : a_denom a = dn).
    { pose proof (kall_kget _ _ _ _ (Inv_WK _ (proj1 Hs0)) Eg) as Hk. cbn in Hk. inversion Hk; reflexivity. }
    set (x := if dn =? d then amt else 0).
    set (R := fun A0 : KMap Asset => kget A0 [dn] = Some a).
    unfold coin1. assert (E : amt <? 0 = false) by (apply Z.ltb_ge; lia). rewrite E.
    assert (E2 : amt =? 0 = false) by (apply Z.eqb_neq; lia). rewrite E2.
    unfold bind at 1. unfold ret at 1.
    (* coins in *)
    eapply hoare_bind with (Q1 := fun _ s => JC (c + x) s /\ R (assets s)).
    { apply (hoare_pre _ _ (fun s => JC c s /\ R (assets s))); [intros s ->; split; [exact Hs0 | exact Eg]|].
      unfold bank_send.
      eapply hoare_bind with (Q1 := fun _ s => JC c s /\ R (assets s)).
      - apply inv_hoare_true. apply inv_with_assets; [apply jc_bank_sub_other; exact Hdel | assets_frame].
      - intros _. intros s [HJ HR]. pose proof (jc_bank_add_custody [(dn, amt)] c s HJ) as H.
        assert (HA : inv (JA (assets s)) (bank_add ACC_ALLIANCE [(dn, amt)])) by (inv_deep (JAf (assets s))).
        specialize (HA s eq_refl). unfold JA in HA.
        destruct (bank_add ACC_ALLIANCE [(dn, amt)] s); try exact I.
        split; [|rewrite HA; exact HR]. cbn in H. unfold x. rewrite Z.add_0_r in H. exact H. }
    intros _.
    (* settlement and the delegation record: slack-monotone, assets untouched *)
    eapply hoare_bind with (Q1 := fun _ s => JC (c + x) s /\ R (assets s)).
    { apply inv_hoare_true. apply inv_with_assets; [unfold get_delegation; apply inv_gets | assets_frame]. }
    intros od.
    eapply hoare_bind with (Q1 := fun _ s => JC (c + x) s /\ R (assets s)).
    { apply inv_hoare_true. apply inv_with_assets; [|assets_frame].
      destruct od; [apply jc_claim_delegation_rewards; exact Hdel | apply jc_claim_validator_rewards]. }
    intros vi1.
    eapply hoare_bind with (Q1 := fun _ s => JC (c + x) s /\ R (assets s)).
    { apply inv_hoare_true. apply inv_with_assets; [jc_auto (c + x) | assets_frame]. }
    intros ns.
    eapply hoare_bind with (Q1 := fun _ s => JC (c + x) s /\ R (assets s)).
    { apply inv_hoare_true. apply inv_with_assets; [jc_auto (c + x) | assets_frame]. }
    intros nvs.
    (* the staked total catches up *)
    eapply hoare_bind with (Q1 := fun _ => JC c).
    { unfold set_asset. apply hoare_modify. intros s [[Hi Hc] HR]. unfold R in HR. split; [inv_goal Hi|].
      unfold sl in *. rewrite T_set_asset by exact Hi. cbn [a_denom a_tokens set_a_vshares set_a_tokens].
      change (B (set_assets _ s)) with (B s). change (U (set_assets _ s)) with (U s).
      unfold x in Hc. rewrite Hda. destruct (dn =? d) eqn:E3.
      - apply Z.eqb_eq in E3. subst dn. rewrite E3 in HR. rewrite (T_of_kget s a (Inv_WK _ Hi) HR) in Hc. lia.
      - lia. }
    intros _. apply inv_hoare_true. jc_auto c.
  Qed.

  (* ================================================================================
     Success-only preservation: [HS c m] — if m returns normally from a state with
     margin c, the margin is still c.  (A failing message is rolled back by baseapp;
     a failing slash callback is the subject of C08 and is excluded by the theorem.) *)
  Definition HS (c : Z) {A} (m : M A) : Prop := hoare (JC c) m (fun _ => JC c) (fun _ => True).
  Lemma HS_of_inv c A (m : M A) : inv (JC c) m -> HS c m.
  Proof. intros H; apply inv_hoare_true; exact H. Qed.
  Lemma HS_bind c A B (m : M A) (f : A -> M B) : HS c m -> (forall a, HS c (f a)) -> HS c (bind m f).
  Proof. intros Hm Hf; eapply hoare_bind; [exact Hm | exact Hf]. Qed.
  Lemma HS_ret c A (a : A) : HS c (ret a).
  Proof. apply hoare_ret; auto. Qed.
  Lemma HS_fail c A e : HS c (@fail A e).
  Proof. apply hoare_fail; auto. Qed.
  Lemma HS_panic c A e : HS c (@panic A e).
  Proof. apply hoare_panic; auto. Qed.
  Lemma HS_mfor c A (l : list A) (f : A -> M unit) : (forall x, HS c (f x)) -> HS c (mfor l f).
  Proof. intros H; apply hoare_mfor; exact H. Qed.
  Lemma HS_mfold c A B (l : list A) (f : B -> A -> M B) : (forall acc x, HS c (f acc x)) -> forall acc, HS c (mfold l acc f).
  Proof.
    intros H; induction l as [|x l IH]; intros acc; cbn [mfold]; [apply HS_ret|].
    apply HS_bind; [apply H | intros acc'; apply IH].
  Qed.
  Lemma HS_mfor_swallow c A (l : list A) (f : A -> M unit) : (forall x, inv (JC c) (f x)) -> HS c (mfor_swallow l f).
  Proof. intros H; apply HS_of_inv, inv_mfor_swallow; exact H. Qed.

  (* coins known to be non-negative *)
  Lemma cany_neg_false coins : cany_neg coins = false -> coins_nonneg coins.
  Proof.
    unfold cany_neg, coins_nonneg. induction coins as [|da coins IH]; cbn; [constructor|].
    intros H. apply orb_false_elim in H; destruct H as [H1 H2]. constructor; [apply Z.ltb_ge in H1; exact H1 | apply IH; exact H2].
  Qed.
  Lemma coin1_nonneg dn a : forall s, match coin1 dn a s with Ok coins _ => coins_nonneg coins /\ csum coins = (if dn =? d then a else 0) | _ => True end.
  Proof.
    intros s. unfold coin1. destruct (a <? 0) eqn:E; cbn; [exact I|]. apply Z.ltb_ge in E.
    destruct (a =? 0) eqn:E0; cbn.
    - apply Z.eqb_eq in E0; subst. split; [constructor|]. destruct (dn =? d); reflexivity.
    - split; [constructor; [exact E | constructor]|]. destruct (dn =? d); lia.
  Qed.

  (* crediting any account with non-negative coins never lowers the margin *)
  Lemma jc_bank_add_any c a coins : coins_nonneg coins -> hoare (JC c) (bank_add a coins) (fun _ => JC c) (fun _ => False).
  Proof.
    intros Hn. destruct (Z.eq_dec a ACC_ALLIANCE) as [->|Hne].
    - eapply hoare_post; [| |apply jc_bank_add_custody]; [|intros ? []].
      intros ? s H. eapply JC_weaken; [|exact H]. pose proof (csum_nonneg coins Hn). lia.
    - intros s Hs. pose proof (jc_bank_add_other c a coins Hne s Hs) as H.
      assert (Hnf : nofail (bank_add a coins)) by (unfold bank_add; nofail_deep).
      specialize (Hnf s I). destruct (bank_add a coins s); auto.
  Qed.

  (* custody pays out: the margin shrinks by what left (on success) *)
  Lemma jc_send_from_custody c to coins : coins_nonneg coins ->
    hoare (JC c) (bank_send ACC_ALLIANCE to coins) (fun _ => JC (c - csum coins)) (fun _ => True).
  Proof.
    intros Hn. unfold bank_send. eapply hoare_bind; [apply jc_bank_sub_custody|]. intros ?; cbv beta.
    eapply hoare_post; [| |apply (jc_bank_add_any (c - csum coins) to coins Hn)]; [intros ? ? H; exact H | intros ? []].
  Qed.

  (* a claim by anybody (the payout is non-negative) *)
  Lemma jc_claim_any del v vi dn c : HS c (claim_delegation_rewards del v vi dn).
  Proof.
    unfold claim_delegation_rewards.
    apply HS_bind; [apply HS_of_inv; unfold get_asset; apply inv_gets|]. intros oa. destruct oa as [a|]; [|apply HS_fail].
    apply HS_bind; [apply HS_of_inv, inv_gets|]. intros t. destruct (negb (rewards_started a t)); [apply HS_ret|].
    apply HS_bind; [apply HS_of_inv; unfold get_delegation; apply inv_gets|]. intros od. destruct od as [dl|]; [|apply HS_fail].
    apply HS_bind; [apply HS_of_inv, jc_claim_validator_rewards|]. intros vi'.
    apply HS_bind; [apply HS_of_inv, inv_gets|]. intros s1.
    destruct (calculate_delegation_rewards s1 v dl vi' a) as [coins idx].
    apply HS_bind; [apply HS_of_inv, inv_gets|]. intros h.
    apply HS_bind; [apply HS_of_inv; jc_auto c|]. intros _.
    destruct (cany_neg coins) eqn:En.
    - intros s Hs. unfold bind, panic. exact I.
    - apply HS_bind; [apply HS_ret|]. intros _.
      apply HS_bind; [|intros; apply HS_ret].
      unfold bank_send. apply HS_bind; [apply HS_of_inv, jc_bank_sub_other; acc_ne|]. intros _.
      eapply hoare_post; [| |apply (jc_bank_add_any c del coins (cany_neg_false _ En))]; [intros ? ? H; exact H | intros ? []].
  Qed.

  (* ---------- carrying "the asset stored under dn is a0" along ---------- *)
  Definition Rk (dn : Z) (a0 : Asset) (A0 : KMap Asset) : Prop := kget A0 [dn] = Some a0.
  Lemma HS_with_assets c A (R : KMap Asset -> Prop) (m : M A) :
    HS c m -> (forall A0, inv (JA A0) m) ->
    hoare (fun s => JC c s /\ R (assets s)) m (fun _ s => JC c s /\ R (assets s)) (fun _ => True).
  Proof.
    intros H1 H2 s [HJ HR]. specialize (H1 s HJ). specialize (H2 (assets s) s eq_refl). unfold JA in H2.
    destruct (m s); auto. rewrite H2; auto.
  Qed.
  Lemma a_denom_of_kget s dn a : Inv s -> kget (assets s) [dn] = Some a -> a_denom a = dn.
  Proof. intros Hi Hg. pose proof (kall_kget _ _ _ _ (Inv_WK _ Hi) Hg) as Hk. cbn in Hk. inversion Hk; reflexivity. Qed.

  (* writing back, under its own key, an asset whose total differs by x from the stored one *)
  Lemma jc_set_asset_delta c dn a a' x :
    a_denom a' = dn -> a_tokens a' = a_tokens a - x ->
    hoare (fun s => JC c s /\ Rk dn a (assets s)) (set_asset a')
          (fun _ s => JC (c + (if dn =? d then x else 0)) s /\ Rk dn a' (assets s)) (fun _ => True).
  Proof.
    intros Hd Ht. unfold set_asset. apply hoare_modify. intros s [[Hi Hc] HR]. unfold Rk in *. split.
    - split; [inv_goal Hi|]. unfold sl in *. rewrite T_set_asset by exact Hi.
      change (B (set_assets _ s)) with (B s). change (U (set_assets _ s)) with (U s). rewrite Hd.
      destruct (dn =? d) eqn:E.
      + apply Z.eqb_eq in E. rewrite E in HR. rewrite (T_of_kget s a (Inv_WK _ Hi) HR) in Hc. lia.
      + lia.
    - cbn. rewrite Hd. apply kget_kset_same.
  Qed.

  (* ResetAssetAndValidators on the asset that is stored: the total is untouched *)
  Lemma jc_reset c dn a : a_denom a = dn ->
    hoare (fun s => JC c s /\ Rk dn a (assets s)) (reset_asset_and_validators a) (fun _ => JC c) (fun _ => True).
  Proof.
    intros Hd. unfold reset_asset_and_validators. destruct (negb (a_tokens a =? 0)); [apply hoare_ret; intros s [H _]; exact H|].
    eapply hoare_bind with (Q1 := fun _ s => JC c s /\ Rk dn a (assets s)); [apply hoare_gets; auto|]. intros infos.
    eapply hoare_bind with (Q1 := fun _ s => JC c s /\ Rk dn a (assets s)).
    { apply (HS_with_assets c _ (Rk dn a)); [apply HS_of_inv; jc_auto c | assets_frame]. }
    intros _.
    eapply hoare_post; [| |apply (jc_set_asset_delta c dn a (set_a_vshares 0 a) 0)]; cbn; try lia; auto.
    intros _ s [H _]. destruct (dn =? d); rewrite Z.add_0_r in H; exact H.
  Qed.

  Lemma jc_clear_dust c del v vi dn a : a_denom a = dn ->
    hoare (fun s => JC c s /\ Rk dn a (assets s)) (clear_dust_delegation del v vi a) (fun _ => JC c) (fun _ => True).
  Proof.
    intros Hd. unfold clear_dust_delegation.
    eapply hoare_bind with (Q1 := fun _ s => JC c s /\ Rk dn a (assets s)).
    { apply (HS_with_assets c _ (Rk dn a)); [apply HS_of_inv; unfold get_delegation; apply inv_gets | assets_frame]. }
    intros od.
    eapply hoare_bind with (Q1 := fun _ s => JC c s /\ Rk dn a (assets s)).
    { apply (HS_with_assets c _ (Rk dn a)); [apply HS_of_inv; jc_auto c | assets_frame]. }
    intros dsr.
    eapply hoare_bind with (Q1 := fun _ s => JC c s /\ Rk dn a (assets s)).
    { apply (HS_with_assets c _ (Rk dn a)); [apply HS_of_inv; jc_auto c | assets_frame]. }
    intros _.
    eapply hoare_bind with (Q1 := fun _ s => JC c s /\ Rk dn a (assets s)).
    { apply (HS_with_assets c _ (Rk dn a)); [apply HS_of_inv; jc_auto c | assets_frame]. }
    intros ds.
    eapply hoare_bind with (Q1 := fun _ s => JC c s /\ Rk dn a (assets s)).
    { apply (HS_with_assets c _ (Rk dn a)); [apply HS_of_inv; jc_auto c | assets_frame]. }
    intros vs.
    eapply hoare_bind with (Q1 := fun _ s => JC c s /\ Rk dn a (assets s)).
    { apply (HS_with_assets c _ (Rk dn a)); [apply HS_of_inv; jc_auto c | assets_frame]. }
    intros _.
    eapply hoare_bind; [apply (jc_reset c dn a Hd)|]. intros ?; cbv beta. apply hoare_ret; auto.
  Qed.

  (* queueUndelegation: the pending sum grows by the amount *)
  Lemma jc_queue_undelegation c del v dn amt :
    hoare (JC (c + (if dn =? d then amt else 0))) (queue_undelegation del v dn amt) (fun _ => JC c) (fun _ => True).
  Proof.
    unfold queue_undelegation.
    eapply hoare_bind with (Q1 := fun _ => JC (c + (if dn =? d then amt else 0))); [apply hoare_gets; auto|]. intros t.
    eapply hoare_bind with (Q1 := fun _ => JC (c + (if dn =? d then amt else 0))); [apply hoare_gets; auto|]. intros ub.
    apply hoare_modify. intros s [Hi Hc]. split; [inv_goal Hi|].
    unfold sl in *.
    change (B (set_undelidx _ (set_undelq _ s))) with (B s). change (T (set_undelidx _ (set_undelq _ s))) with (T s).
    change (U (set_undelidx ?x (set_undelq ?q s))) with (U (set_undelq q s)).
    rewrite U_set_bucket by exact Hi. rewrite lsum_app. cbn [lsum fold_right u_denom u_amount].
    destruct (kget (undelq s) [t + ub; del]); destruct (dn =? d); unfold lsum; cbn [fold_right]; lia.
  Qed.

  (* ---------- Undelegate ---------- *)
  Lemma jc_k_undelegate del v vi dn amt c : HS c (k_undelegate del v vi dn amt).
  Proof.
    unfold k_undelegate, get_asset. apply hoare_bind_gets_eq. intros s0 Hs0.
    destruct (kget (assets s0) [dn]) as [a|] eqn:Eg; [|apply hoare_fail; auto].
    pose proof (a_denom_of_kget s0 dn a (proj1 Hs0) Eg) as Hda.
    set (x := if dn =? d then amt else 0).
    apply (hoare_pre _ _ (fun s => JC c s /\ Rk dn a (assets s))); [intros s ->; split; [exact Hs0 | exact Eg]|].
    eapply hoare_bind with (Q1 := fun _ s => JC c s /\ Rk dn a (assets s)).
    { apply (HS_with_assets c _ (Rk dn a)); [apply HS_of_inv; unfold get_delegation; apply inv_gets | assets_frame]. }
    intros od. destruct od as [d0|]; [|apply hoare_fail; auto].
    eapply hoare_bind with (Q1 := fun _ s => JC c s /\ Rk dn a (assets s)).
    { apply (HS_with_assets c _ (Rk dn a)); [apply jc_claim_any | assets_frame]. }
    intros vi1.
    eapply hoare_bind with (Q1 := fun _ s => JC c s /\ Rk dn a (assets s)).
    { apply (HS_with_assets c _ (Rk dn a)); [apply HS_of_inv; unfold get_delegation; apply inv_gets | assets_frame]. }
    intros od1.
    eapply hoare_bind with (Q1 := fun _ s => JC c s /\ Rk dn a (assets s)).
    { apply (HS_with_assets c _ (Rk dn a)); [apply HS_of_inv; jc_auto c | assets_frame]. }
    intros sh.
    match goal with |- hoare _ (if ?b then _ else _) _ _ => destruct b end; [apply hoare_panic; auto|].
    match goal with |- hoare _ (if ?b then _ else _) _ _ => destruct b end; [apply hoare_fail; auto|].
    match goal with |- hoare _ (if ?b then _ else _) _ _ => destruct b end; [apply hoare_fail; auto|].
    eapply hoare_bind with (Q1 := fun _ s => JC c s /\ Rk dn a (assets s)).
    { apply (HS_with_assets c _ (Rk dn a)); [apply HS_of_inv; jc_auto c | assets_frame]. }
    intros vsr.
    set (a' := set_a_vshares (a_vshares a - vsr) (set_a_tokens (a_tokens a - amt) a)).
    eapply hoare_bind.
    { apply (jc_set_asset_delta c dn a a' amt); [exact Hda | reflexivity]. }
    intros ?; cbv beta. fold x.
    eapply hoare_bind with (Q1 := fun _ s => JC (c + x) s /\ Rk dn a' (assets s)).
    { apply (HS_with_assets (c + x) _ (Rk dn a')); [apply HS_of_inv; jc_auto (c + x) | assets_frame]. }
    intros _.
    eapply hoare_bind with (Q1 := fun _ s => JC (c + x) s /\ Rk dn a' (assets s)).
    { apply (HS_with_assets (c + x) _ (Rk dn a')); [apply HS_of_inv; jc_auto (c + x) | assets_frame]. }
    intros vi2.
    eapply hoare_bind; [apply (jc_clear_dust (c + x) del v vi2 dn a'); exact Hda|]. intros ?; cbv beta.
    eapply hoare_bind; [apply jc_queue_undelegation|]. intros ?; cbv beta.
    apply HS_of_inv. jc_auto c.
  Qed.

  (* ---------- automation for success-only goals ---------- *)
  Ltac hs_step c :=
    first
      [ lazymatch goal with
        | |- HS _ (claim_delegation_rewards _ _ _ _) => apply jc_claim_any
        | |- HS _ (claim_validator_rewards _ _) => apply HS_of_inv, jc_claim_validator_rewards
        | |- HS _ (ret _) => apply HS_ret
        | |- HS _ (fail _) => apply HS_fail
        | |- HS _ (panic _) => apply HS_panic
        | |- HS _ (bind _ _) => apply HS_bind; [| intros ?]
        | |- HS _ (mfor _ _) => apply HS_mfor; intros ?
        | |- HS _ (mfold _ _ _) => apply HS_mfold; intros ? ?
        | |- HS _ (gets _) => apply HS_of_inv, inv_gets
        | |- HS _ (modify _) => apply HS_of_inv; jc_leaf c
        | |- HS _ (opt_or_panic _ _) => apply HS_of_inv, inv_opt_or_panic
        | |- HS _ (opt_or_fail _ _) => apply HS_of_inv, inv_opt_or_fail
        | |- HS _ (if ?b then _ else _) => destruct b eqn:?
        | |- HS _ (match ?x with _ => _ end) => destruct x eqn:?
        | |- HS _ (let '(_, _) := ?x in _) => destruct x eqn:?
        end
      | lazymatch goal with |- HS _ ?m => let h := head_of m in unfold h end ].
  Ltac hs_auto c := repeat (hs_step c).

  (* ---------- Redelegate ---------- *)
  Lemma jc_k_redelegate del src svi dst dvi dn amt c : HS c (k_redelegate del src svi dst dvi dn amt).
  Proof.
    unfold k_redelegate. destruct (src =? dst); [apply HS_fail|]. unfold get_asset. apply hoare_bind_gets_eq. intros s0 Hs0.
    destruct (kget (assets s0) [dn]) as [a|] eqn:Eg; [|apply hoare_fail; auto].
    pose proof (a_denom_of_kget s0 dn a (proj1 Hs0) Eg) as Hda.
    apply (hoare_pre _ _ (fun s => JC c s /\ Rk dn a (assets s))); [intros s ->; split; [exact Hs0 | exact Eg]|].
    assert (Hstep : forall A (m : M A), HS c m -> (forall A0, inv (JA A0) m) ->
              hoare (fun s => JC c s /\ Rk dn a (assets s)) m (fun _ s => JC c s /\ Rk dn a (assets s)) (fun _ => True))
      by (intros A m; apply (HS_with_assets c A (Rk dn a))).
    eapply hoare_bind; [apply Hstep; [apply HS_of_inv; unfold get_delegation; apply inv_gets | assets_frame]|]. intros od; cbv beta.
    destruct od as [d0|]; [|apply hoare_fail; auto].
    eapply hoare_bind; [apply Hstep; [apply jc_claim_any | assets_frame]|]. intros svi1; cbv beta.
    eapply hoare_bind; [apply Hstep; [apply HS_of_inv; unfold get_delegation; apply inv_gets | assets_frame]|]. intros od1; cbv beta.
    eapply hoare_bind; [apply Hstep; [apply HS_of_inv; unfold get_delegation; apply inv_gets | assets_frame]|]. intros odd; cbv beta.
    eapply hoare_bind.
    { apply Hstep; [destruct odd; [apply jc_claim_any | apply HS_of_inv, jc_claim_validator_rewards] | destruct odd; assets_frame]. }
    intros dvi1; cbv beta.
    eapply hoare_bind; [apply Hstep; [apply HS_of_inv; jc_auto c | assets_frame]|]. intros sh; cbv beta.
    match goal with |- hoare _ (if ?b then _ else _) _ _ => destruct b end; [apply hoare_panic; auto|].
    match goal with |- hoare _ (if ?b then _ else _) _ _ => destruct b end; [apply hoare_fail; auto|].
    eapply hoare_bind; [apply Hstep; [apply HS_of_inv, inv_gets | assets_frame]|]. intros blocked; cbv beta.
    destruct blocked; [apply hoare_fail; auto|].
    eapply hoare_bind; [apply Hstep; [apply HS_of_inv, inv_gets | assets_frame]|]. intros t; cbv beta.
    eapply hoare_bind; [apply Hstep; [apply HS_of_inv, inv_gets | assets_frame]|]. intros ub; cbv beta.
    eapply hoare_bind; [apply Hstep; [apply HS_of_inv, inv_opt_or_panic | assets_frame]|]. intros cvs; cbv beta.
    eapply hoare_bind; [apply Hstep; [apply HS_of_inv; jc_auto c | assets_frame]|]. intros ?; cbv beta.
    eapply hoare_bind; [apply Hstep; [apply HS_of_inv; jc_auto c | assets_frame]|]. intros svi2; cbv beta.
    eapply hoare_bind; [apply (jc_clear_dust c del src svi2 dn a Hda)|]. intros ?; cbv beta.
    apply HS_of_inv. jc_auto c.
  Qed.

  (* ---------- Slash: bonded shares ---------- *)
  Lemma jc_slash_shares_loop c f (l : Coins) : forall acc,
    HS c (mfold l acc (fun acc da =>
      let to_slash := dmul (snd da) f in
      (if snd da - to_slash <? 0 then panic P_NEG_COIN else ret tt) ;;;
      oa <- get_asset (fst da) ;;
      match oa with
      | None => fail E_UNKNOWN_ASSET
      | Some a => set_asset (set_a_vshares (a_vshares a - to_slash) a) ;;; ret (cadd1 acc (fst da) (snd da - to_slash))
      end)).
  Proof.
    apply HS_mfold. intros acc da. cbv zeta.
    apply HS_bind; [destruct (snd da - dmul (snd da) f <? 0); [apply HS_panic | apply HS_ret]|]. intros _.
    unfold get_asset. apply hoare_bind_gets_eq. intros s0 Hs0.
    destruct (kget (assets s0) [fst da]) as [a|] eqn:Eg; [|apply hoare_fail; auto].
    pose proof (a_denom_of_kget s0 (fst da) a (proj1 Hs0) Eg) as Hda.
    apply (hoare_pre _ _ (fun s => JC c s /\ Rk (fst da) a (assets s))); [intros s ->; split; [exact Hs0 | exact Eg]|].
    eapply hoare_bind; [apply (jc_set_asset_delta c (fst da) a (set_a_vshares (a_vshares a - dmul (snd da) f) a) 0); cbn; [exact Hda | lia]|].
    intros ?; cbv beta. apply hoare_ret. intros s [H _]. destruct (fst da =? d); rewrite Z.add_0_r in H; exact H.
  Qed.

  (* ---------- Slash: pending redelegations (only claims and share records) ---------- *)
  Lemma jc_slash_redelegations v f c : HS c (slash_redelegations v f).
  Proof. hs_auto c. Qed.

  (* ---------- Slash: pending unbondings ---------- *)
  Definition JCQ (c : Z) (Q0 : KMap (list Undel)) (s : State) : Prop := JC c s /\ undelq s = Q0.
  (* bank operations do not touch the queue *)
  Lemma jcq_of_hoare c c' Q0 A (m : M A) :
    hoare (JC c) m (fun _ => JC c') (fun _ => True) -> (forall Q, inv (fun s => undelq s = Q) m) ->
    hoare (JCQ c Q0) m (fun _ => JCQ c' Q0) (fun _ => True).
  Proof.
    intros H1 H2 s [HJ HQ]. specialize (H1 s HJ). specialize (H2 Q0 s HQ). destruct (m s); auto. split; assumption.
  Qed.
  Lemma Qf Q : forall s s', undelq s' = undelq s -> undelq s = Q -> undelq s' = Q.
  Proof. intros; congruence. Qed.
  Lemma lsum_cons e l : lsum (e :: l) = (if u_denom e =? d then u_amount e else 0) + lsum l.
  Proof. reflexivity. Qed.
  Lemma lsum_nil : lsum [] = 0.
  Proof. reflexivity. Qed.

  Definition slash_entry_body (v dn f : Z) (acc : list Undel) (e : Undel) : M (list Undel) :=
    if negb ((u_val e =? v) && (u_denom e =? dn)) then ret (acc ++ [e]) else
    let tok := dtrunc (dmul_int f (u_amount e)) in
    (if (u_amount e - tok <? 0) || (tok <? 0) then panic P_NEG_COIN else ret tt) ;;;
    c <- coin1 (u_denom e) tok ;;
    bank_send ACC_ALLIANCE ACC_FEE c ;;;
    ret (acc ++ [set_u_amount (u_amount e - tok) e]).

  (* one entry: the value returned and what left custody *)
  Lemma jc_slash_entry v dn f Q0 acc e c :
    hoare (JCQ c Q0) (slash_entry_body v dn f acc e)
      (fun acc' s => exists e', acc' = acc ++ [e'] /\ u_denom e' = u_denom e /\
                     JCQ (c - ((if u_denom e =? d then u_amount e else 0) - (if u_denom e =? d then u_amount e' else 0))) Q0 s)
      (fun _ => True).
  Proof.
    unfold slash_entry_body. destruct (negb ((u_val e =? v) && (u_denom e =? dn))).
    - apply hoare_ret. intros s H. exists e. repeat split; try reflexivity; try apply H.
      destruct H as [H _]. eapply JC_weaken; [|exact H]. lia.
    - cbv zeta. set (tok := dtrunc (dmul_int f (u_amount e))).
      eapply hoare_bind with (Q1 := fun _ => JCQ c Q0).
      { destruct ((u_amount e - tok <? 0) || (tok <? 0)); [apply hoare_panic; auto | apply hoare_ret; auto]. }
      intros _.
      eapply hoare_bind with (Q1 := fun coins s => JCQ c Q0 s /\ coins_nonneg coins /\ csum coins = (if u_denom e =? d then tok else 0)).
      { intros s Hs. pose proof (coin1_nonneg (u_denom e) tok s) as H. unfold coin1 in *.
        destruct (tok <? 0); cbn in *; [exact I|]. destruct H as [H1 H2]. auto. }
      intros coins.
      eapply hoare_bind with (Q1 := fun _ s => JCQ (c - (if u_denom e =? d then tok else 0)) Q0 s).
      { intros s (HJ & Hn & Hcs). rewrite <- Hcs.
        exact (jcq_of_hoare c (c - csum coins) Q0 _ _ (jc_send_from_custody c ACC_FEE coins Hn)
                 (fun Q => ltac:(inv_deep (Qf Q))) s HJ). }
      intros _. apply hoare_ret. intros s H. eexists; repeat split; try reflexivity; try apply H.
      destruct H as [H _]. cbn [u_denom u_amount set_u_amount]. eapply JC_weaken; [|exact H].
      destruct (u_denom e =? d); lia.
  Qed.

  Lemma jc_slash_entries v dn f Q0 : forall rest acc c,
    hoare (JCQ c Q0) (mfold rest acc (slash_entry_body v dn f))
      (fun acc' => JCQ (c - (lsum acc + lsum rest - lsum acc')) Q0) (fun _ => True).
  Proof.
    induction rest as [|e rest IH]; intros acc c; cbn [mfold].
    - apply hoare_ret. intros s H. rewrite lsum_nil. replace (c - (lsum acc + 0 - lsum acc)) with c by lia. exact H.
    - eapply hoare_bind; [apply jc_slash_entry|]. intros acc'; cbv beta.
      intros s (e' & -> & Hde & HJ).
      pose proof (IH (acc ++ [e']) _ s HJ) as H.
      destruct (mfold rest (acc ++ [e']) (slash_entry_body v dn f) s) as [r s'|? ?|? ?]; auto.
      destruct H as [H HQ]. split; [|exact HQ]. eapply JC_weaken; [|exact H].
      rewrite lsum_app, !lsum_cons, lsum_nil, Hde. lia.
  Qed.

  Lemma jc_slash_undelegations v f c : HS c (slash_undelegations v f).
  Proof.
    unfold slash_undelegations.
    apply HS_bind; [apply HS_of_inv, inv_gets|]. intros idx.
    apply HS_bind; [apply HS_of_inv, inv_gets|]. intros t.
    apply HS_mfor. intros ku.
    destruct (fst ku) as [|v0 [|ct [|dn [|del [|]]]]]; try apply HS_fail.
    destruct (ct <? t); [apply HS_ret|].
    apply hoare_bind_gets_eq. intros s0 Hs0.
    set (entries := match kget (undelq s0) [ct; del] with Some l => l | None => [] end).
    apply (hoare_pre _ _ (JCQ c (undelq s0))); [intros s ->; split; [exact Hs0 | reflexivity]|].
    eapply hoare_bind; [apply (jc_slash_entries v dn f (undelq s0) entries [] c)|]. intros entries'; cbv beta.
    apply hoare_modify. intros s [[Hi Hc] HQ]. split; [inv_goal Hi|].
    unfold sl in *. change (B (set_undelq _ s)) with (B s). change (T (set_undelq _ s)) with (T s).
    rewrite U_set_bucket by exact Hi. rewrite HQ. fold entries.
    assert (Hl : match kget (undelq s0) [ct; del] with Some o => lsum o | None => 0 end = lsum entries).
    { unfold entries. destruct (kget (undelq s0) [ct; del]); reflexivity. }
    rewrite Hl. rewrite lsum_nil in Hc. lia.
  Qed.

  (* ---------- the slash callback ---------- *)
  Lemma jc_hook_slash v f c : HS c (hook_slash v f).
  Proof.
    unfold hook_slash. apply HS_bind; [|intros _; apply HS_of_inv; jc_auto c].
    unfold slash_validator. destruct ((f <=? 0) || (ONE <? f)); [apply HS_fail|].
    apply HS_bind; [apply HS_of_inv; jc_auto c|]. intros [sv vi].
    apply HS_bind; [apply jc_slash_shares_loop|]. intros vs'.
    apply HS_bind; [apply HS_of_inv; jc_auto c|]. intros _.
    apply HS_bind; [apply jc_slash_redelegations|]. intros _.
    apply jc_slash_undelegations.
  Qed.

  (* ---------- end of block: matured unbondings are paid ---------- *)
  Definition pay_entry (ct : Z) (u : Undel) : M unit :=
    c <- coin1 (u_denom u) (u_amount u) ;;
    bank_send ACC_ALLIANCE (u_del u) c ;;;
    modify (fun s => set_undelidx (kdel (undelidx s) [u_val u; ct; u_denom u; u_del u]) s).

  Lemma jc_pay_entries ct Q0 : forall entries c,
    hoare (JCQ c Q0) (mfor entries (pay_entry ct)) (fun _ => JCQ (c - lsum entries) Q0) (fun _ => True).
  Proof.
    induction entries as [|u entries IH]; intros c; cbn [mfor].
    - apply hoare_ret. intros s H. rewrite lsum_nil, Z.sub_0_r. exact H.
    - eapply hoare_bind with (Q1 := fun _ => JCQ (c - (if u_denom u =? d then u_amount u else 0)) Q0).
      + unfold pay_entry.
        eapply hoare_bind with (Q1 := fun coins s => JCQ c Q0 s /\ coins_nonneg coins /\ csum coins = (if u_denom u =? d then u_amount u else 0)).
        { intros s Hs. pose proof (coin1_nonneg (u_denom u) (u_amount u) s) as H. unfold coin1 in *.
          destruct (u_amount u <? 0); cbn in *; [exact I|]. destruct H as [H1 H2]. auto. }
        intros coins.
        eapply hoare_bind with (Q1 := fun _ s => JCQ (c - (if u_denom u =? d then u_amount u else 0)) Q0 s).
        { intros s (HJ & Hn & Hcs). rewrite <- Hcs.
          exact (jcq_of_hoare c (c - csum coins) Q0 _ _ (jc_send_from_custody c (u_del u) coins Hn)
                   (fun Q => ltac:(inv_deep (Qf Q))) s HJ). }
        intros _. apply hoare_modify. intros s [[Hi Hc] HQ]. split; [|exact HQ]. split; [inv_goal Hi | exact Hc].
      + intros _. intros s Hs. pose proof (IH _ s Hs) as H. destruct (mfor entries (pay_entry ct) s); auto.
        destruct H as [H HQ]. split; [|exact HQ]. eapply JC_weaken; [|exact H]. rewrite lsum_cons. lia.
  Qed.

  Lemma jc_undel_loop : forall q Q c, ksorted Q -> ksorted q ->
    Forall (fun kv => exists ct dl, fst kv = [ct; dl]) q ->
    Forall (fun kv => kget Q (fst kv) = Some (snd kv)) q ->
    hoare (JCQ c Q) (mfor q undel_body) (fun _ => JC c) (fun _ => True).
  Proof.
    induction q as [|kv q IH]; intros Q c HQs Hqs Hshape Hall; cbn [mfor].
    - apply hoare_ret. intros s [H _]; exact H.
    - inversion Hall as [|? ? Hkv Hall']; subst. inversion Hshape as [|? ? (ct & dl & Hk) Hshape']; subst.
      apply ksorted_inv' in Hqs. destruct Hqs as [Hqs Hlt].
      destruct kv as [k l]; cbn [fst snd] in *; subst k.
      eapply hoare_bind with (Q1 := fun _ => JCQ c (kdel Q [ct; dl])).
      + unfold undel_body. cbn [fst snd].
        eapply hoare_bind; [apply (jc_pay_entries ct Q l c)|]. intros ?; cbv beta.
        apply hoare_modify. intros s [[Hi Hc] HQ]. split; [|cbn; rewrite HQ; reflexivity].
        split; [inv_goal Hi|]. unfold sl in *. change (B (set_undelq _ s)) with (B s). change (T (set_undelq _ s)) with (T s).
        rewrite U_del_bucket by exact Hi. rewrite HQ, Hkv. lia.
      + intros _. apply IH; [apply ksorted_kdel; exact HQs | exact Hqs | exact Hshape'|].
        rewrite Forall_forall in *. intros kv' Hin. rewrite kget_kdel_other; [apply Hall'; exact Hin | exact HQs|].
        specialize (Hlt kv' Hin). intros E. rewrite E in Hlt. exact (klt_irrefl _ Hlt).
  Qed.

  Lemma jc_complete_unbondings c : HS c complete_unbondings.
  Proof.
    rewrite complete_unbondings_unfold.
    apply HS_bind; [apply HS_of_inv, inv_gets|]. intros t.
    apply hoare_bind_gets_eq. intros s0 Hs0.
    set (q := kfilter (fun k => match k with [ct; _] => ct <? t | _ => false end) (undelq s0)).
    pose proof (Inv_sorted_undelq _ (proj1 Hs0)) as HQs.
    assert (Hshape : Forall (fun kv => exists ct dl, fst kv = [ct; dl]) q).
    { apply Forall_forall. intros kv Hin. unfold q, kfilter in Hin. apply filter_In in Hin. destruct Hin as [_ H].
      destruct kv as [k l]; cbn [fst] in *. destruct k as [|ct [|dl [|? ?]]]; try discriminate. eauto. }
    assert (Hall : Forall (fun kv => kget (undelq s0) (fst kv) = Some (snd kv)) q).
    { apply Forall_forall. intros kv Hin. unfold q, kfilter in Hin. apply filter_In in Hin. destruct Hin as [Hin _].
      apply kget_in_sorted; assumption. }
    assert (Hqs : ksorted q) by (unfold q, kfilter; apply ksorted_filter; exact HQs).
    apply (hoare_pre _ _ (JCQ c (undelq s0))); [intros s ->; split; [exact Hs0 | reflexivity]|].
    eapply hoare_bind; [apply (jc_undel_loop q (undelq s0) c HQs Hqs Hshape Hall)|]. intros ?; cbv beta.
    (* the sweep burns the staking denom only *)
    unfold sweep. apply HS_bind; [apply HS_of_inv, inv_gets|]. intros b. destruct (b =? 0); [apply HS_ret|].
    unfold bank_burn. apply HS_bind.
    - eapply hoare_post; [| |apply (jc_bank_sub_custody [(BOND_DENOM, b)] c)]; [|auto].
      intros ? s H. unfold csum in H; cbn [fold_right fst snd] in H. assert (E : BOND_DENOM =? d = false) by (apply Z.eqb_neq; congruence). rewrite E in H.
      replace (c - (0 + 0)) with c in H by lia. exact H.
    - intros _. apply HS_of_inv. jc_auto c.
  Qed.

  (* ---------- end of block: the asset list EndBlocker carries in memory ---------- *)
  (* every element agrees with the store on the staked total; denoms are those of D0 (distinct) *)
  Definition coh1 (s : State) (a : Asset) : Prop := exists a0, kget (assets s) [a_denom a] = Some a0 /\ a_tokens a0 = a_tokens a.
  Definition CohL (l : list Asset) (s : State) : Prop := Forall (coh1 s) l.
  Definition JL (c : Z) (D0 : list Z) (l : list Asset) (s : State) : Prop :=
    JC c s /\ CohL l s /\ map a_denom l = D0.

  Lemma coh1_frame s s' a : assets s' = assets s -> coh1 s a -> coh1 s' a.
  Proof. unfold coh1; intros E H; rewrite E; exact H. Qed.
  Lemma CohL_frame s s' l : assets s' = assets s -> CohL l s -> CohL l s'.
  Proof. intros E H. unfold CohL in *. eapply Forall_impl; [|exact H]. intros a; apply coh1_frame; exact E. Qed.

  Lemma coh1_set_other s a' b : ksorted (assets s) -> a_denom b <> a_denom a' ->
    coh1 s b -> coh1 (set_assets (kset (assets s) [a_denom a'] a') s) b.
  Proof. intros Hs Hne (a0 & Hg & Ht). exists a0. split; [|exact Ht]. cbn. rewrite kget_kset_other; [exact Hg | exact Hs | congruence]. Qed.
  Lemma coh1_set_same s a' : coh1 (set_assets (kset (assets s) [a_denom a'] a') s) a'.
  Proof. exists a'. split; [cbn; apply kget_kset_same | reflexivity]. Qed.

  (* replacing the element in the middle by one of the same denom that was just written *)
  Lemma CohL_step s acc a a' rest : ksorted (assets s) -> NoDup (map a_denom (acc ++ a :: rest)) -> a_denom a' = a_denom a ->
    CohL (acc ++ a :: rest) s -> CohL ((acc ++ [a']) ++ rest) (set_assets (kset (assets s) [a_denom a'] a') s).
  Proof.
    intros Hs Hnd Hd H. unfold CohL in *. rewrite <- app_assoc. cbn [app].
    apply Forall_app in H. destruct H as [H1 H2]. inversion H2 as [|? ? _ H3]; subst.
    rewrite map_app in Hnd. cbn [map] in Hnd.
    apply Forall_app; split; [|constructor; [apply coh1_set_same|]].
    - rewrite Forall_forall in *. intros b Hb. apply coh1_set_other; [exact Hs | | apply H1; exact Hb].
      rewrite Hd. intros E. apply NoDup_remove_2 in Hnd. apply Hnd. apply in_or_app. left. rewrite <- E. apply in_map; exact Hb.
    - rewrite Forall_forall in *. intros b Hb. apply coh1_set_other; [exact Hs | | apply H3; exact Hb].
      rewrite Hd. intros E. apply NoDup_remove_2 in Hnd. apply Hnd. apply in_or_app. right. rewrite <- E. apply in_map; exact Hb.
  Qed.

  (* T after writing an element that agrees with the store except for the total *)
  Lemma sl_set_coherent s a a' c x : Inv s -> coh1 s a -> a_denom a' = a_denom a -> a_tokens a' = a_tokens a - x ->
    c <= sl s -> c + (if a_denom a =? d then x else 0) <= sl (set_assets (kset (assets s) [a_denom a'] a') s).
  Proof.
    intros Hi (a0 & Hg & Ht0) Hd Ht Hc. unfold sl in *. rewrite T_set_asset by exact Hi.
    change (B (set_assets _ s)) with (B s). change (U (set_assets _ s)) with (U s). rewrite Hd.
    destruct (a_denom a =? d) eqn:E; [|lia].
    apply Z.eqb_eq in E. rewrite E in Hg. rewrite (T_of_kget s a0 (Inv_WK _ Hi) Hg) in Hc. lia.
  Qed.

  Lemma jl_set_asset c D0 acc a a' rest x : a_denom a' = a_denom a -> a_tokens a' = a_tokens a - x -> NoDup D0 ->
    hoare (JL c D0 (acc ++ a :: rest)) (set_asset a')
          (fun _ => JL (c + (if a_denom a =? d then x else 0)) D0 ((acc ++ [a']) ++ rest)) (fun _ => True).
  Proof.
    intros Hd Ht Hnd. unfold set_asset. apply hoare_modify. intros s ([Hi Hc] & Hcoh & Hmap).
    assert (Hc1 : coh1 s a) by (unfold CohL in Hcoh; apply Forall_app in Hcoh; destruct Hcoh as [_ H]; inversion H; assumption).
    split; [split; [inv_goal Hi | apply (sl_set_coherent s a a' c x Hi Hc1 Hd Ht Hc)]|]. split.
    - apply (CohL_step s acc a a' rest); [apply Inv_sorted_assets; exact Hi | rewrite Hmap; exact Hnd | exact Hd | exact Hcoh].
    - rewrite <- Hmap. rewrite <- app_assoc. rewrite !map_app. cbn [map app]. rewrite Hd. reflexivity.
  Qed.

  (* programs that do not write assets keep JL *)
  Lemma JL_frame c D0 l A (m : M A) : HS c m -> (forall A0, inv (JA A0) m) ->
    hoare (JL c D0 l) m (fun _ => JL c D0 l) (fun _ => True).
  Proof.
    intros H1 H2 s (HJ & Hcoh & Hmap). specialize (H1 s HJ). specialize (H2 (assets s) s eq_refl). unfold JA in H2.
    destruct (m s); auto. split; [exact H1|]. split; [eapply CohL_frame; eauto | exact Hmap].
  Qed.
  Lemma JL_weaken c c' D0 l s : c' <= c -> JL c D0 l s -> JL c' D0 l s.
  Proof. intros Hle (H1 & H2 & H3). split; [eapply JC_weaken; eauto | auto]. Qed.

  (* InitializeAllianceAssets *)
  Lemma jl_initialize_assets c D0 t : NoDup D0 -> forall rest acc,
    hoare (JL c D0 (acc ++ rest))
      (mfold rest acc (fun acc a =>
         if a_init a || negb (rewards_started a t) then ret (acc ++ [a])
         else let a' := set_a_init true a in set_asset a' ;;; ret (acc ++ [a'])))
      (fun out => JL c D0 out) (fun _ => True).
  Proof.
    intros Hnd. induction rest as [|a rest IH]; intros acc; cbn [mfold].
    - apply hoare_ret. intros s H. rewrite app_nil_r in H. exact H.
    - destruct (a_init a || negb (rewards_started a t)).
      + unfold bind at 1, ret at 1. intros s H. apply (IH (acc ++ [a])). rewrite <- app_assoc. exact H.
      + cbv zeta. unfold bind at 1.
        intros s H. pose proof (jl_set_asset c D0 acc a (set_a_init true a) rest 0 eq_refl ltac:(cbn; lia) Hnd s H) as H1.
        unfold bind. destruct (set_asset (set_a_init true a) s) as [x s1|? ?|? ?]; auto. unfold ret at 1.
        apply (IH (acc ++ [set_a_init true a])). eapply JL_weaken; [|exact H1]. destruct (a_denom a =? d); lia.
  Qed.

  (* ---------- end of block: take rate ---------- *)
  Lemma csum_cadd1 coins dn x : csum (cadd1 coins dn x) = csum coins + (if dn =? d then x else 0).
  Proof.
    induction coins as [|[d' a'] coins IH]; cbn [cadd1].
    - destruct (x =? 0) eqn:E; [apply Z.eqb_eq in E; subst; unfold csum; cbn; destruct (dn =? d); lia|].
      unfold csum; cbn. lia.
    - destruct (dn <? d') eqn:E1.
      + destruct (x =? 0) eqn:E; [apply Z.eqb_eq in E; subst; destruct (dn =? d); lia|]. rewrite !csum_cons. lia.
      + destruct (dn =? d') eqn:E2.
        * apply Z.eqb_eq in E2; subst d'. destruct (x + a' =? 0) eqn:E; rewrite ?csum_cons.
          -- apply Z.eqb_eq in E. destruct (dn =? d); lia.
          -- destruct (dn =? d); lia.
        * rewrite !csum_cons, IH. lia.
  Qed.

  Lemma jc_send_from_custody_other c to coins : to <> ACC_ALLIANCE ->
    hoare (JC c) (bank_send ACC_ALLIANCE to coins) (fun _ => JC (c - csum coins)) (fun _ => True).
  Proof.
    intros Hto. unfold bank_send. eapply hoare_bind; [apply jc_bank_sub_custody|]. intros ?; cbv beta.
    apply inv_hoare_true. apply jc_bank_add_other. exact Hto.
  Qed.

  Definition take_body (t n : Z) (acc : list Asset * Coins * Z) (a : Asset) : M (list Asset * Coins * Z) :=
    let '(out, coins, cnt) := acc in
    if (0 <? a_tokens a) && (0 <? a_take a) && rewards_started a t then
      m <- opt_or_panic P_OVERFLOW (dpow (ONE - a_take a) n) ;;
      let na := dmul_int m (a_tokens a) in
      if na <=? ONE then ret (out ++ [a], coins, cnt + 1)
      else
        let a' := set_a_tokens (dtrunc na) a in
        (if a_tokens a - a_tokens a' <? 0 then panic P_NEG_COIN else ret tt) ;;;
        set_asset a' ;;;
        ret (out ++ [a'], cadd1 coins (a_denom a) (a_tokens a - a_tokens a'), cnt + 1)
    else ret (out ++ [a], coins, cnt).

  Lemma jl_take_body c D0 t n out coins cnt a rest : NoDup D0 ->
    hoare (JL (c + csum coins) D0 (out ++ a :: rest)) (take_body t n (out, coins, cnt) a)
      (fun r s => exists (a' : Asset) (coins' : Coins) (cnt' : Z), r = (out ++ [a'], coins', cnt') /\
                  JL (c + csum coins') D0 ((out ++ [a']) ++ rest) s /\ (0 <= csum coins -> 0 <= csum coins'))
      (fun _ => True).
  Proof.
    intros Hnd. unfold take_body.
    assert (Hsame : forall (cnt' : Z) s, JL (c + csum coins) D0 (out ++ a :: rest) s ->
              exists (a' : Asset) (coins' : Coins) (cnt'0 : Z), (out ++ [a], coins, cnt') = (out ++ [a'], coins', cnt'0) /\
                JL (c + csum coins') D0 ((out ++ [a']) ++ rest) s /\ (0 <= csum coins -> 0 <= csum coins')).
    { intros cnt' s H. exists a, coins, cnt'. split; [reflexivity|]. split; [rewrite <- app_assoc; exact H | auto]. }
    destruct ((0 <? a_tokens a) && (0 <? a_take a) && rewards_started a t); [|apply hoare_ret; apply Hsame].
    eapply hoare_bind with (Q1 := fun _ => JL (c + csum coins) D0 (out ++ a :: rest)).
    { destruct (dpow (ONE - a_take a) n); cbn [opt_or_panic]; [apply hoare_ret; auto | apply hoare_panic; auto]. }
    intros m. cbv zeta. destruct (dmul_int m (a_tokens a) <=? ONE); [apply hoare_ret; apply Hsame|].
    set (a' := set_a_tokens (dtrunc (dmul_int m (a_tokens a))) a).
    destruct (a_tokens a - a_tokens a' <? 0) eqn:Eneg.
    { intros s Hs. unfold bind at 1, panic. exact I. }
    apply Z.ltb_ge in Eneg.
    eapply hoare_bind with (Q1 := fun _ => JL (c + csum coins) D0 (out ++ a :: rest)); [apply hoare_ret; auto|]. intros _.
    eapply hoare_bind.
    { apply (jl_set_asset (c + csum coins) D0 out a a' rest (a_tokens a - a_tokens a') eq_refl ltac:(lia) Hnd). }
    intros ?; cbv beta. apply hoare_ret. intros s H.
    exists a', (cadd1 coins (a_denom a) (a_tokens a - a_tokens a')), (cnt + 1). split; [reflexivity|].
    rewrite csum_cadd1. split; [|destruct (a_denom a =? d); lia].
    replace (c + (csum coins + (if a_denom a =? d then a_tokens a - a_tokens a' else 0)))
      with (c + csum coins + (if a_denom a =? d then a_tokens a - a_tokens a' else 0)) by lia. exact H.
  Qed.

  Lemma jl_take_loop c D0 t n : NoDup D0 -> forall rest out coins cnt, 0 <= csum coins ->
    hoare (JL (c + csum coins) D0 (out ++ rest)) (mfold rest (out, coins, cnt) (take_body t n))
      (fun r s => JL (c + csum (snd (fst r))) D0 (fst (fst r)) s /\ 0 <= csum (snd (fst r))) (fun _ => True).
  Proof.
    intros Hnd. induction rest as [|a rest IH]; intros out coins cnt Hpos; cbn [mfold].
    - apply hoare_ret. intros s H. cbn. rewrite app_nil_r in H. auto.
    - eapply hoare_bind; [apply (jl_take_body c D0 t n out coins cnt a rest Hnd)|]. intros r; cbv beta.
      intros s (a' & coins' & cnt' & -> & HJ & Hp). apply (IH (out ++ [a']) coins' cnt' (Hp Hpos) s HJ).
  Qed.

  Lemma deduct_take_rate_unfold last als :
    deduct_take_rate last als =
    (t <- gets now ;;
     if last =? ZERO_TIME then set_last_claim t ;;; ret als
     else
       iv <- gets (fun s => p_interval (params s)) ;;
       if iv =? 0 then panic P_DIV_ZERO_INTERVAL
       else
         let n := Z.quot (t - last) iv in
         '(als', coins, cnt) <- mfold als ([], [], 0) (take_body t n) ;;
         if cnt =? 0 then set_last_claim t ;;; ret als'
         else if negb (length coins =? 0)%nat then
           bank_send ACC_ALLIANCE ACC_FEE coins ;;;
           set_last_claim (last + iv * n) ;;;
           ret als'
         else ret als').
  Proof. reflexivity. Qed.

  Lemma jl_deduct_take_rate c D0 last als : NoDup D0 ->
    hoare (JL c D0 als) (deduct_take_rate last als) (fun _ => JC c) (fun _ => True).
  Proof.
    intros Hnd. rewrite deduct_take_rate_unfold.
    assert (HJ : forall c' l s, JL c' D0 l s -> JC c' s) by (intros c' l s (H & _); exact H).
    eapply hoare_bind with (Q1 := fun _ => JL c D0 als); [apply hoare_gets; auto|]. intros t.
    destruct (last =? ZERO_TIME).
    { apply (hoare_pre _ _ (JC c)); [apply HJ|]. apply HS_of_inv. jc_auto c. }
    eapply hoare_bind with (Q1 := fun _ => JL c D0 als); [apply hoare_gets; auto|]. intros iv.
    destruct (iv =? 0); [apply hoare_panic; auto|]. cbv zeta.
    eapply hoare_bind.
    { apply (hoare_pre _ _ (JL (c + csum []) D0 ([] ++ als))); [intros s H; unfold csum; cbn; rewrite Z.add_0_r; exact H|].
      apply (jl_take_loop c D0 t (Z.quot (t - last) iv) Hnd als [] [] 0). unfold csum; cbn; lia. }
    intros [[als' coins] cnt]. cbn [fst snd].
    apply (hoare_pre _ _ (fun s => JC (c + csum coins) s /\ 0 <= csum coins)); [intros s [H1 H2]; split; [eapply HJ; exact H1 | exact H2]|].
    assert (Hw : forall s, JC (c + csum coins) s /\ 0 <= csum coins -> JC c s) by (intros s [H1 H2]; eapply JC_weaken; [|exact H1]; lia).
    destruct (cnt =? 0).
    { apply (hoare_pre _ _ (JC c)); [exact Hw|]. apply HS_of_inv. jc_auto c. }
    destruct (negb (length coins =? 0)%nat).
    - eapply hoare_bind with (Q1 := fun _ => JC c).
      + intros s [H _]. pose proof (jc_send_from_custody_other (c + csum coins) ACC_FEE coins ltac:(acc_ne) s H) as H1.
        destruct (bank_send ACC_ALLIANCE ACC_FEE coins s); auto. replace c with (c + csum coins - csum coins) by lia. exact H1.
      + intros _. apply HS_of_inv. jc_auto c.
    - apply hoare_ret. intros s H. apply Hw; exact H.
  Qed.

  Lemma jl_deduct_assets_hook c D0 als : NoDup D0 ->
    hoare (JL c D0 als) (deduct_assets_hook als) (fun _ => JC c) (fun _ => True).
  Proof.
    intros Hnd. unfold deduct_assets_hook.
    eapply hoare_bind with (Q1 := fun _ => JL c D0 als); [apply hoare_gets; auto|]. intros p.
    eapply hoare_bind with (Q1 := fun _ => JL c D0 als); [apply hoare_gets; auto|]. intros t.
    destruct (p_last p + p_interval p <? t); [apply jl_deduct_take_rate; exact Hnd|].
    apply hoare_ret. intros s (H & _); exact H.
  Qed.

  (* ---------- asset parameter updates (governance and decay): the total is read and written back ---------- *)
  Lemma jc_update_alliance_asset c na : HS c (update_alliance_asset na).
  Proof.
    unfold update_alliance_asset, get_asset. apply hoare_bind_gets_eq. intros s0 Hs0.
    destruct (kget (assets s0) [a_denom na]) as [a|] eqn:Eg; [|apply hoare_fail; auto].
    pose proof (a_denom_of_kget s0 (a_denom na) a (proj1 Hs0) Eg) as Hda.
    destruct ((a_weight na <? a_wmin na) || (a_wmax na <? a_weight na)); [apply hoare_fail; auto|].
    apply (hoare_pre _ _ (fun s => JC c s /\ Rk (a_denom na) a (assets s))); [intros s ->; split; [exact Hs0 | exact Eg]|].
    eapply hoare_bind with (Q1 := fun _ s => JC c s /\ Rk (a_denom na) a (assets s)).
    { apply (HS_with_assets c _ (Rk (a_denom na) a)); [|assets_frame].
      destruct (negb (a_weight na =? a_weight a)); [|apply HS_ret].
      apply HS_bind; [apply HS_of_inv, inv_gets|]. intros infos.
      apply HS_bind; [|intros _; apply HS_of_inv; jc_auto c].
      apply HS_mfor_swallow. intros kv. destruct (fst kv) as [|v [|]]; try apply inv_ret.
      apply inv_bind; [jc_auto c|]. intros [sv vi].
      apply inv_bind; [apply jc_claim_validator_rewards|]. intros vi1.
      jc_auto c. }
    intros _.
    eapply hoare_bind with (Q1 := fun _ s => JC c s /\ Rk (a_denom na) a (assets s)); [apply hoare_gets; auto|]. intros t.
    eapply hoare_post; [| |apply (jc_set_asset_delta c (a_denom na) a _ 0)]; cbn; try lia; auto.
    intros _ s [H _]. destruct (a_denom na =? d); rewrite Z.add_0_r in H; exact H.
  Qed.

  Lemma jc_reward_weight_change_hook c als : HS c (reward_weight_change_hook als).
  Proof.
    unfold reward_weight_change_hook. apply HS_bind; [apply HS_of_inv, inv_gets|]. intros t.
    apply HS_mfold. intros acc a.
    destruct ((a_interval a =? 0) || (a_rate a =? ONE)); [apply HS_ret|].
    destruct (t <? a_last a + a_interval a); [apply HS_ret|]. cbv zeta.
    apply HS_bind; [apply HS_of_inv, inv_opt_or_panic|]. intros m.
    apply HS_bind; [apply HS_of_inv, inv_opt_or_panic|]. intros w0.
    apply HS_bind; [apply HS_of_inv; jc_auto c|]. intros _.
    apply HS_bind; [apply jc_update_alliance_asset|]. intros _. apply HS_ret.
  Qed.

  (* ---------- rebalancing: only the staking denom moves ---------- *)
  Lemma csum_bond amt : csum [(BOND_DENOM, amt)] = 0.
  Proof. unfold csum; cbn [fold_right fst snd]. assert (E : BOND_DENOM =? d = false) by (apply Z.eqb_neq; congruence). rewrite E. lia. Qed.
  Lemma csum_coin1_bond amt s : match coin1 BOND_DENOM amt s with Ok coins _ => csum coins = 0 | _ => True end.
  Proof.
    unfold coin1. destruct (amt <? 0); cbn; [exact I|]. destruct (amt =? 0); [reflexivity | apply csum_bond].
  Qed.
  Lemma jc_withdraw_oracle_hs c v : HS c (withdraw_oracle v).
  Proof.
    eapply hoare_post; [| |apply jc_withdraw_oracle]; [|auto].
    intros coins s [H Hn]. eapply JC_weaken; [|exact H]. pose proof (csum_nonneg coins Hn). lia.
  Qed.
  Lemma jc_bank_mint_bond c amt : HS c (bank_mint ACC_ALLIANCE [(BOND_DENOM, amt)]).
  Proof.
    unfold bank_mint. apply HS_bind; [apply HS_of_inv; jc_auto c|]. intros _.
    eapply hoare_post; [| |apply (jc_bank_add_custody [(BOND_DENOM, amt)] c)]; [|intros ? []].
    intros ? s H. rewrite csum_bond, Z.add_0_r in H. exact H.
  Qed.
  (* sending staking-denom coins out of custody *)
  Lemma jc_send_bond c to amt : to <> ACC_ALLIANCE ->
    HS c (cc <- coin1 BOND_DENOM amt ;; bank_send ACC_ALLIANCE to cc).
  Proof.
    intros Hto. eapply hoare_bind with (Q1 := fun coins s => JC c s /\ csum coins = 0).
    - intros s Hs. pose proof (csum_coin1_bond amt s) as H. unfold coin1 in *. destruct (amt <? 0); cbn in *; auto.
    - intros coins s [Hs Hz]. pose proof (jc_send_from_custody_other c to coins Hto s Hs) as H.
      destruct (bank_send ACC_ALLIANCE to coins s); auto. rewrite Hz, Z.sub_0_r in H. exact H.
  Qed.

  Lemma jc_staking_delegate c v sv amt : HS c (staking_delegate v sv amt).
  Proof.
    unfold staking_delegate. destruct ((sv_tokens sv =? 0) && (0 <? sv_shares sv)); [apply HS_fail|].
    apply HS_bind; [apply HS_of_inv, inv_gets|]. intros od.
    apply HS_bind.
    { destruct od; [|apply HS_ret]. unfold distr_before_shares_modified. apply HS_bind; [apply jc_withdraw_oracle_hs | intros; apply HS_ret]. }
    intros _.
    (* c <- coin1 ...;; bank_send ... ;;; rest  =  (c <- coin1 ;; bank_send) ;;; rest, up to the monad laws: go through directly *)
    eapply hoare_bind with (Q1 := fun coins s => JC c s /\ csum coins = 0).
    { intros s Hs. pose proof (csum_coin1_bond amt s) as H. unfold coin1 in *. destruct (amt <? 0); cbn in *; auto. }
    intros coins.
    eapply hoare_bind with (Q1 := fun _ => JC c).
    { intros s [Hs Hz].
      assert (Hto : (if is_bonded sv then ACC_BONDED else ACC_NOTBONDED) <> ACC_ALLIANCE) by (destruct (is_bonded sv); acc_ne).
      pose proof (jc_send_from_custody_other c _ coins Hto s Hs) as H.
      destruct (bank_send ACC_ALLIANCE _ coins s); auto. rewrite Hz, Z.sub_0_r in H. exact H. }
    intros _. apply HS_of_inv. jc_auto c.
  Qed.

  Lemma jc_staking_unbond c v sh : HS c (staking_unbond v sh).
  Proof.
    unfold staking_unbond. apply HS_bind; [apply HS_of_inv, inv_gets|]. intros od.
    destruct od as [dsh|]; [|apply HS_fail].
    apply HS_bind.
    { unfold distr_before_shares_modified. apply HS_bind; [apply jc_withdraw_oracle_hs | intros; apply HS_ret]. }
    intros _. apply HS_of_inv. jc_auto c.
  Qed.

  Lemma jc_rebalance c als : HS c (rebalance_bond_token_weights als).
  Proof.
    unfold rebalance_bond_token_weights.
    apply HS_bind; [apply HS_of_inv, inv_gets|]. intros s0.
    apply HS_bind; [apply HS_of_inv, inv_gets|]. intros t.
    apply HS_bind.
    { apply HS_of_inv. apply inv_mfold_swallow. intros acc kv. jc_auto c. }
    intros [bonded unb]. apply HS_mfor. intros [[v sv] vi].
    apply HS_bind; [apply HS_of_inv, inv_gets|]. intros od.
    apply HS_bind; [apply HS_of_inv; jc_auto c|]. intros expected.
    match goal with |- HS _ (if ?b then _ else _) => destruct b end.
    - cbv zeta. match goal with |- HS _ (if ?b then _ else _) => destruct b end; [apply HS_ret|].
      apply HS_bind; [apply jc_bank_mint_bond|]. intros _.
      apply HS_bind; [apply HS_of_inv, jc_claim_validator_rewards|]. intros _.
      apply jc_staking_delegate.
    - match goal with |- HS _ (if ?b then _ else _) => destruct b end; [|apply HS_ret].
      cbv zeta. match goal with |- HS _ (if ?b then _ else _) => destruct b end; [apply HS_ret|].
      apply HS_bind; [apply HS_of_inv; jc_auto c|]. intros sh.
      apply HS_bind; [apply HS_of_inv, jc_claim_validator_rewards|]. intros _.
      apply HS_bind; [apply jc_staking_unbond|]. intros tok.
      apply HS_bind; [apply HS_of_inv; jc_auto c|]. intros coins.
      apply HS_of_inv. unfold bank_burn. jc_auto c.
  Qed.

  (* ---------- the whole end of block ---------- *)
  Lemma NoDup_denoms s : Inv s -> NoDup (map a_denom (map snd (assets s))).
  Proof.
    intros Hi. pose proof (Inv_sorted_assets _ Hi) as Hs. pose proof (Inv_WK _ Hi) as Hw. unfold WK, kall in Hw.
    induction (assets s) as [|[k a] m IH]; cbn; [constructor|].
    apply ksorted_inv in Hs. destruct Hs as [Hs Hall]. inversion Hw as [|? ? Hk Hw']; subst. cbn in Hk.
    constructor; [|apply IH; assumption].
    intros Hin. rewrite map_map in Hin. apply in_map_iff in Hin. destruct Hin as ([k' a'] & Hd & Hin). cbn in Hd.
    rewrite Forall_forall in Hall, Hw'. specialize (Hall _ Hin). specialize (Hw' _ Hin). cbn in Hall, Hw'.
    subst k k'. rewrite Hd in Hall. exact (klt_irrefl _ Hall).
  Qed.
  Lemma CohL_all s : Inv s -> CohL (map snd (assets s)) s.
  Proof.
    intros Hi. pose proof (Inv_sorted_assets _ Hi) as Hs. pose proof (Inv_WK _ Hi) as Hw.
    unfold CohL. apply Forall_forall. intros a Hin. apply in_map_iff in Hin. destruct Hin as ([k a'] & <- & Hin). cbn.
    exists a'. split; [|reflexivity].
    pose proof (kget_in_sorted _ _ Hs Hin) as Hg. cbn in Hg.
    unfold WK, kall in Hw. rewrite Forall_forall in Hw. specialize (Hw _ Hin). cbn in Hw. subst k. exact Hg.
  Qed.

  Lemma jc_end_blocker c : HS c end_blocker.
  Proof.
    unfold end_blocker.
    apply HS_bind; [apply HS_of_inv; unfold complete_redelegations; jc_auto c|]. intros _.
    apply HS_bind; [apply jc_complete_unbondings|]. intros _.
    unfold all_assets. apply hoare_bind_gets_eq. intros s0 Hs0.
    set (als := map snd (assets s0)). set (D0 := map a_denom als).
    assert (Hnd : NoDup D0) by (apply NoDup_denoms; exact (proj1 Hs0)).
    apply (hoare_pre _ _ (JL c D0 ([] ++ als))); [intros s ->; split; [exact Hs0 | split; [apply CohL_all; exact (proj1 Hs0) | reflexivity]]|].
    eapply hoare_bind.
    { unfold initialize_assets. eapply hoare_bind with (Q1 := fun _ => JL c D0 ([] ++ als)); [apply hoare_gets; auto|]. intros t.
      apply (jl_initialize_assets c D0 t Hnd als []). }
    intros als1; cbv beta.
    eapply hoare_bind; [apply (jl_deduct_assets_hook c D0 als1 Hnd)|]. intros als2; cbv beta.
    apply HS_bind; [apply jc_reward_weight_change_hook|]. intros als3.
    unfold rebalance_hook. apply HS_bind; [apply HS_of_inv, inv_gets|]. intros f.
    destruct f; [|apply HS_ret]. apply HS_bind; [apply HS_of_inv; jc_auto c|]. intros _. apply jc_rebalance.
  Qed.

  (* ---------- messages ---------- *)
  Lemma jc_get_alliance_validator c v : inv (JC c) (get_alliance_validator v).
  Proof. jc_auto c. Qed.

  Lemma jc_msg_delegate c del v dn amt : del <> ACC_ALLIANCE -> HS c (msg_delegate del v dn amt).
  Proof.
    intros Hdel. unfold msg_delegate. destruct (amt <=? 0) eqn:E; [apply HS_fail|]. apply Z.leb_gt in E.
    apply HS_bind; [apply HS_of_inv, jc_get_alliance_validator|]. intros [sv vi]. apply jc_k_delegate; assumption.
  Qed.
  Lemma jc_msg_undelegate c del v dn amt : HS c (msg_undelegate del v dn amt).
  Proof.
    unfold msg_undelegate. destruct (amt <=? 0); [apply HS_fail|].
    apply HS_bind; [apply HS_of_inv, jc_get_alliance_validator|]. intros [sv vi]. apply jc_k_undelegate.
  Qed.
  Lemma jc_msg_redelegate c del src dst dn amt : HS c (msg_redelegate del src dst dn amt).
  Proof.
    unfold msg_redelegate. destruct (amt <=? 0); [apply HS_fail|].
    apply HS_bind; [apply HS_of_inv, jc_get_alliance_validator|]. intros [sv svi].
    apply HS_bind; [apply HS_of_inv, jc_get_alliance_validator|]. intros [sv2 dvi]. apply jc_k_redelegate.
  Qed.
  Lemma jc_msg_claim c del v dn : HS c (msg_claim del v dn).
  Proof.
    unfold msg_claim. apply HS_bind; [apply HS_of_inv, jc_get_alliance_validator|]. intros [sv vi].
    apply HS_bind; [apply jc_claim_any | intros; apply HS_ret].
  Qed.

  (* a brand-new asset starts with nothing staked *)
  Lemma jc_set_asset_new c a : a_tokens a = 0 ->
    hoare (fun s => JC c s /\ kget (assets s) [a_denom a] = None) (set_asset a) (fun _ => JC c) (fun _ => True).
  Proof.
    intros Ht. unfold set_asset. apply hoare_modify. intros s [[Hi Hc] Hn]. split; [inv_goal Hi|].
    unfold sl in *. rewrite T_set_asset by exact Hi.
    change (B (set_assets _ s)) with (B s). change (U (set_assets _ s)) with (U s).
    destruct (a_denom a =? d) eqn:E; [|exact Hc]. apply Z.eqb_eq in E. rewrite E in Hn.
    unfold T, staked_total in Hc. rewrite Hn in Hc. lia.
  Qed.
  Lemma jc_msg_create c m : HS c (msg_create_alliance m).
  Proof.
    unfold msg_create_alliance.
    repeat match goal with
           | |- HS _ (if ?b then _ else _) => destruct b
           | |- HS _ (match ?x with _ => _ end) => destruct x
           | |- HS _ (fail _) => apply HS_fail
           | |- HS _ (panic _) => apply HS_panic
           end.
    unfold get_asset. apply hoare_bind_gets_eq. intros s0 Hs0.
    destruct (kget (assets s0) [m_denom m]) eqn:Eg; [apply hoare_fail; auto|].
    apply (hoare_pre _ _ (fun s => JC c s /\ kget (assets s) [m_denom m] = None)); [intros s ->; split; assumption|].
    eapply hoare_bind with (Q1 := fun _ s => JC c s /\ kget (assets s) [m_denom m] = None); [apply hoare_gets; auto|]. intros t.
    eapply hoare_bind with (Q1 := fun _ s => JC c s /\ kget (assets s) [m_denom m] = None); [apply hoare_gets; auto|]. intros dl.
    apply (jc_set_asset_new c (mkAsset (m_denom m) _ _ _ _ 0 0 _ _ _ _ false)). reflexivity.
  Qed.
  Lemma jc_msg_update c m : HS c (msg_update_alliance m).
  Proof.
    unfold msg_update_alliance.
    repeat match goal with
           | |- HS _ (if ?b then _ else _) => destruct b
           | |- HS _ (match ?x with _ => _ end) => destruct x
           | |- HS _ (fail _) => apply HS_fail
           | |- HS _ (panic _) => apply HS_panic
           | |- HS _ (bind (get_asset _) _) => apply HS_bind; [apply HS_of_inv; unfold get_asset; apply inv_gets | intros ?]
           | |- HS _ (update_alliance_asset _) => apply jc_update_alliance_asset
           end.
  Qed.
  (* deleting an asset: nothing may be staked; the handler only refuses a positive total, so the
     statement carries "the total is not negative" (C03) as a precondition *)
  Lemma jc_msg_delete c au dn :
    hoare (fun s => JC c s /\ 0 <= staked_total s dn) (msg_delete_alliance au dn) (fun _ => JC c) (fun _ => True).
  Proof.
    unfold msg_delete_alliance. destruct (dn <? 0); [apply hoare_fail; auto|]. destruct (negb (au =? AUTHORITY)); [apply hoare_fail; auto|].
    unfold get_asset. apply hoare_bind_gets_eq. intros s0 [Hs0 Hpos].
    destruct (kget (assets s0) [dn]) as [a|] eqn:Eg; [|apply hoare_fail; auto].
    destruct (0 <? a_tokens a) eqn:E; [apply hoare_fail; auto|]. apply Z.ltb_ge in E.
    apply hoare_modify. intros s ->. destruct Hs0 as [Hi Hc]. split; [inv_goal Hi|].
    unfold sl in *. change (B (set_assets _ s0)) with (B s0). change (U (set_assets _ s0)) with (U s0).
    unfold T, staked_total in *. cbn [assets set_assets].
    destruct (Z.eq_dec dn d) as [->|Hne].
    - rewrite kget_kdel_same by (apply Inv_sorted_assets; exact Hi). rewrite Eg in Hc, Hpos. lia.
    - rewrite kget_kdel_other by (try apply Inv_sorted_assets; auto; congruence). exact Hc.
  Qed.
  Lemma jc_msg_params c au a b l : HS c (msg_update_params au a b l).
  Proof. apply HS_of_inv. jc_auto c. Qed.

  (* ---------- every operation; every history ---------- *)
  (* What is assumed of one step.  Environment: third parties only add coins to the custody
     account and genesis assets start empty (stated on the slack itself); recorded withdrawals are
     non-negative; the custody module account does not sign delegations.  Two conditions on the
     module itself: a slash callback that returns an ERROR leaves its partial writes behind (that
     is C08's subject), and a deleted asset must not have a negative total (C03). *)
  Definition adm (s : State) (o : Op) : Prop :=
    match o with
    | ODelegate del _ _ _ => del <> ACC_ALLIANCE
    | ODeleteAlliance _ dn => 0 <= staked_total s dn
    | OHookSlash _ _ => snd (step s o) <> R_ERR
    | EOracle w => Forall (fun vc => coins_nonneg (snd vc)) w
    | EBank _ _ | EGenesisAsset _ => sl s <= sl (fst (step s o))
    | _ => True
    end.

  Lemma JC_set_oracle_nil c s : JC c s -> JC c (set_oracle [] s).
  Proof.
    intros [(HS_ & HW & HO) Hc]. split; [|exact Hc]. split; [exact HS_|]. split; [exact HW|]. unfold ON; cbn. constructor.
  Qed.
  Lemma JC_wrap_tx c (m : M unit) s : HS c m -> JC c s -> JC c (fst (clear_oracle (tx m s))).
  Proof.
    intros Hm Hs. specialize (Hm s Hs). unfold tx, clear_oracle. destruct (m s); cbn; apply JC_set_oracle_nil; assumption.
  Qed.
  Lemma JC_wrap_endblock c (m : M unit) s : HS c m -> JC c s -> JC c (fst (clear_oracle (endblock m s))).
  Proof.
    intros Hm Hs. specialize (Hm s Hs). unfold endblock, clear_oracle. destruct (m s); cbn; apply JC_set_oracle_nil; assumption.
  Qed.
  Lemma JC_wrap_hook c (m : M unit) s : HS c m -> JC c s -> snd (clear_oracle (hook m s)) <> R_ERR ->
    JC c (fst (clear_oracle (hook m s))).
  Proof.
    intros Hm Hs Hne. specialize (Hm s Hs). unfold hook, clear_oracle in *. destruct (m s); cbn in *; try (apply JC_set_oracle_nil; assumption).
    exfalso. apply Hne. reflexivity.
  Qed.

  Lemma Inv_step s o : Inv s -> (match o with EOracle w => Forall (fun vc => coins_nonneg (snd vc)) w | _ => True end) -> Inv (fst (step s o)).
  Proof.
    intros (H1 & H2 & H3) Ho. split; [apply step_Sorted; exact H1|]. split; [apply step_WK; exact H2|].
    unfold ON in *. destruct o; cbn [step]; try exact H3;
      try (match goal with |- context[clear_oracle ?r] => destruct r as [s' cl]; cbn; constructor end).
    - cbn. exact Ho.
    - cbn. rewrite oracle_fold_put_sup, oracle_fold_put_bal. exact H3.
  Qed.

  Theorem step_JC c s o : JC c s -> adm s o -> JC c (fst (step s o)).
  Proof.
    intros Hs Ha. destruct o; cbn [step adm] in *.
    - (* begin block *) destruct Hs as [Hi Hc]. split; [|exact Hc]. apply (Inv_step s (OBeginBlock time height) Hi I).
    - apply JC_wrap_endblock; [apply jc_end_blocker | exact Hs].
    - apply JC_wrap_tx; [apply jc_msg_delegate; exact Ha | exact Hs].
    - apply JC_wrap_tx; [apply jc_msg_undelegate | exact Hs].
    - apply JC_wrap_tx; [apply jc_msg_redelegate | exact Hs].
    - apply JC_wrap_tx; [apply jc_msg_claim | exact Hs].
    - apply JC_wrap_tx; [apply jc_msg_create | exact Hs].
    - apply JC_wrap_tx; [apply jc_msg_update | exact Hs].
    - (* delete *)
      pose proof (jc_msg_delete c auth denom s (conj Hs Ha)) as H. unfold tx, clear_oracle.
      destruct (msg_delete_alliance auth denom s); cbn; apply JC_set_oracle_nil; assumption.
    - apply JC_wrap_tx; [apply jc_msg_params | exact Hs].
    - apply JC_wrap_hook; [apply jc_hook_slash | exact Hs | exact Ha].
    - (* oracle *) destruct Hs as [Hi Hc]. split; [|exact Hc]. apply (Inv_step s (EOracle w) Hi Ha).
    - (* staking view *) destruct Hs as [Hi Hc]. split; [|exact Hc]. apply (Inv_step s (EStaking vals dels) Hi I).
    - (* bank *) destruct Hs as [Hi Hc]. split; [apply (Inv_step s (EBank bals sups) Hi I)|]. eapply Z.le_trans; [exact Hc | exact Ha].
    - destruct Hs as [Hi Hc]. split; [|exact Hc]. apply (Inv_step s EFlag Hi I).
    - destruct Hs as [Hi Hc]. split; [|exact Hc]. apply (Inv_step s (ERemoveValInfo val) Hi I).
    - destruct Hs as [Hi Hc]. split; [|exact Hc]. apply (Inv_step s (EUnbondingTime t) Hi I).
    - destruct Hs as [Hi Hc]. split; [|exact Hc]. apply (Inv_step s (EParams delay interval last) Hi I).
    - (* genesis asset *) destruct Hs as [Hi Hc]. split; [apply (Inv_step s (EGenesisAsset a) Hi I)|]. eapply Z.le_trans; [exact Hc | exact Ha].
  Qed.

  Fixpoint adm_run (s : State) (h : list Op) : Prop :=
    match h with
    | [] => True
    | o :: h' => adm s o /\ adm_run (fst (step s o)) h'
    end.

  Theorem run_JC c h : forall s, JC c s -> adm_run s h -> JC c (run s h).
  Proof.
    induction h as [|o h IH]; intros s Hs Ha; cbn [run fold_left]; [exact Hs|].
    destruct Ha as [Ha1 Ha2]. apply IH; [apply step_JC; assumption | exact Ha2].
  Qed.

  Lemma JC_init : JC 0 init_state.
  Proof.
    split; [split; [apply Sorted_init | split; [apply kall_nil | constructor]]|]. unfold sl, B, T, U, bal, staked_total; cbn. lia.
  Qed.

  (* C01: in every reachable state custody covers the staked total plus the pending unbondings *)
  Theorem custody_never_short h : adm_run init_state h -> 0 <= slack (run init_state h) d.
  Proof.
    intros Ha. pose proof (run_JC 0 h init_state JC_init Ha) as [_ H]. rewrite sl_is_slack in H. exact H.
  Qed.
  (* and a margin once present (donations) is never eaten into *)
  Theorem custody_margin_kept c h s : Inv s -> c <= slack s d -> adm_run s h -> c <= slack (run s h) d.
  Proof.
    intros Hi Hc Ha. rewrite <- sl_is_slack in Hc. pose proof (run_JC c h s (conj Hi Hc) Ha) as [_ H]. rewrite sl_is_slack in H. exact H.
  Qed.
End Denom.

(* Custody.v — C01: custody of an alliance denom never falls below what is owed
   (staked total + pending unbondings), in every reachable state. *)
From Coq Require Import ZArith List Bool Lia.
From Alliance Require Import Num KMap KMapFacts KMapSorted Types Monad Model Step Spec Hoare.
From Alliance.Proofs Require Import SortedInv WellKeyed Misc Frames.
Import ListNotations.
Open Scope Z_scope.

Section Denom.
  Variable d : Z.
  Hypothesis d_not_bond : d <> BOND_DENOM.

  (* ---------- the three quantities ---------- *)
  Definition B (s : State) : Z := bal s ACC_ALLIANCE d.
  Definition T (s : State) : Z := staked_total s d.
  Definition lsum (l : list Undel) : Z :=
    fold_right (fun u acc => (if u_denom u =? d then u_amount u else 0) + acc) 0 l.
  Definition U (s : State) : Z := ksum (fun _ l => lsum l) (undelq s).
  Definition sl (s : State) : Z := B s - T s - U s.

  Lemma lsum_app a b : lsum (a ++ b) = lsum a + lsum b.
  Proof. unfold lsum; induction a as [|x a IH]; cbn; [lia|]. fold (lsum (a ++ b)) in *. fold (lsum a) in *. lia. Qed.

  Lemma U_is_unbonding_sum s : U s = unbonding_sum s d.
  Proof.
    unfold U, unbonding_sum, all_undels, ksum. induction (undelq s) as [|[k l] m IH]; cbn; [reflexivity|].
    rewrite IH. clear IH. induction l as [|u l IHl]; cbn; [reflexivity|]. unfold lsum in *. cbn. lia.
  Qed.
  Lemma sl_is_slack s : sl s = slack s d.
  Proof. unfold sl, slack, custody, owed, B, T. rewrite U_is_unbonding_sum. lia. Qed.

  (* ---------- the invariants carried along ---------- *)
  (* recorded withdrawals carry non-negative amounts (admissibility of EOracle) *)
  Definition coins_nonneg (c : Coins) : Prop := Forall (fun da => 0 <= snd da) c.
  Definition ON (s : State) : Prop := Forall (fun vc => coins_nonneg (snd vc)) (oracle s).
  Definition Inv (s : State) : Prop := SortedS s /\ WK s /\ ON s.
  Definition JC (c : Z) (s : State) : Prop := Inv s /\ c <= sl s.

  Lemma Inv_sorted_bank s : Inv s -> ksorted (bank s).
  Proof. intros [(?&?&?&?&?&?&?&?&?&?&?&?&?) _]; assumption. Qed.
  Lemma Inv_sorted_assets s : Inv s -> ksorted (assets s).
  Proof. intros [(?&?&?&?&?&?&?&?&?&?&?&?&?) _]; assumption. Qed.
  Lemma Inv_sorted_undelq s : Inv s -> ksorted (undelq s).
  Proof. intros [(?&?&?&?&?&?&?&?&?&?&?&?&?) _]; assumption. Qed.
  Lemma Inv_WK s : Inv s -> WK s.
  Proof. intros (_ & H & _); exact H. Qed.

  (* Inv is preserved by everything (SortedInv, WellKeyed): as Hoare-style facts *)
  Lemma Inv_f : forall s s', maps_of s' = maps_of s -> oracle s' = oracle s -> Inv s -> Inv s'.
  Proof.
    intros s s' E Eo (H1 & H2 & H3); split; [eapply Sf; eauto|]. split.
    - eapply WKf; [|exact H2]. unfold maps_of in E. inversion E; reflexivity.
    - unfold ON in *. rewrite Eo. exact H3.
  Qed.

  (* ---------- effect of the primitive writes on B, T, U ---------- *)
  Lemma B_put_bal_custody s v : Inv s -> B (put_bal ACC_ALLIANCE d v s) = v.
  Proof. intros H; apply bal_put_bal_same, Inv_sorted_bank, H. Qed.
  Lemma B_put_bal_other s a d' v : Inv s -> (a, d') <> (ACC_ALLIANCE, d) -> B (put_bal a d' v s) = B s.
  Proof. intros H Hne; apply bal_put_bal_other; [apply Inv_sorted_bank, H|]. congruence. Qed.

  Lemma T_put_bal s a d' v : T (put_bal a d' v s) = T s.
  Proof. reflexivity. Qed.
  Lemma U_put_bal s a d' v : U (put_bal a d' v s) = U s.
  Proof. reflexivity. Qed.

  Lemma T_set_asset s a : Inv s ->
    T (set_assets (kset (assets s) [a_denom a] a) s) = if a_denom a =? d then a_tokens a else T s.
  Proof.
    intros H. unfold T, staked_total; cbn. destruct (a_denom a =? d) eqn:E.
    - apply Z.eqb_eq in E; subst. rewrite kget_kset_same. reflexivity.
    - apply Z.eqb_neq in E. rewrite kget_kset_other; [reflexivity | apply Inv_sorted_assets, H | congruence].
  Qed.

  Lemma U_set_bucket s k l : Inv s ->
    U (set_undelq (kset (undelq s) k l) s) = U s - (match kget (undelq s) k with Some o => lsum o | None => 0 end) + lsum l.
  Proof. intros H. unfold U; cbn [undelq set_undelq]. rewrite ksum_kset by (apply Inv_sorted_undelq, H). unfold kval. reflexivity. Qed.
  Lemma U_del_bucket s k : Inv s ->
    U (set_undelq (kdel (undelq s) k) s) = U s - (match kget (undelq s) k with Some o => lsum o | None => 0 end).
  Proof. intros H. unfold U; cbn [undelq set_undelq]. rewrite ksum_kdel by (apply Inv_sorted_undelq, H). unfold kval. reflexivity. Qed.

  (* ---------- Inv at a modify leaf ---------- *)
  Ltac inv_goal Hi :=
    destruct Hi as (HS & HW & HO); split;
    [ unfold SortedS in *; unfold put_bal, put_sup; cbn;
      destruct HS as (?&?&?&?&?&?&?&?&?&?&?&?&?); srt_solve
    | split;
      [ unfold WK in *; cbn; first [ exact HW | apply kall_kset; [exact HW | reflexivity] | apply kall_kdel; exact HW ]
      | unfold ON in *; cbn; first [ exact HO | inversion HO; assumption ] ] ].

  (* a write that touches neither the bank, nor the assets, nor the unbonding queue *)
  Ltac neutral_leaf :=
    apply inv_modify; let s := fresh "s" in let H := fresh "H" in
    intros s [Hi Hc]; split; [inv_goal Hi | exact Hc].
  Definition proj (s : State) := (bank s, assets s, undelq s).
  Lemma JC_f c : forall s s', (maps_of s', oracle s') = (maps_of s, oracle s) -> JC c s -> JC c s'.
  Proof.
    intros s s' E0 [Hi Hc].
    assert (E : maps_of s' = maps_of s) by congruence. assert (Eo : oracle s' = oracle s) by congruence.
    split; [eapply Inv_f; eauto|].
    assert (Eb : bank s' = bank s) by (unfold maps_of in E; congruence).
    assert (Ea : assets s' = assets s) by (unfold maps_of in E; congruence).
    assert (Eu : undelq s' = undelq s) by (unfold maps_of in E; congruence).
    unfold sl, B, T, U, bal, staked_total in *. rewrite Eb, Ea, Eu. exact Hc.
  Qed.

  (* ---------- bank ---------- *)
  Definition csum (c : Coins) : Z := fold_right (fun da acc => (if fst da =? d then snd da else 0) + acc) 0 c.

  Lemma csum_cons d' a' coins : csum ((d', a') :: coins) = (if d' =? d then a' else 0) + csum coins.
  Proof. reflexivity. Qed.

  (* taking coins out of an account other than custody / adding to one: neutral *)
  Lemma jc_bank_sub_other c a coins : a <> ACC_ALLIANCE -> inv (JC c) (bank_sub a coins).
  Proof.
    intros Ha. unfold bank_sub. apply inv_mfor; intros da.
    apply inv_bind; [apply inv_gets|]; intros b. destruct (b <? snd da); [apply inv_fail|].
    apply inv_modify; intros s [Hi Hc]; split; [inv_goal Hi|].
    unfold sl in *. rewrite B_put_bal_other, T_put_bal, U_put_bal by (auto; congruence). exact Hc.
  Qed.
  Lemma jc_bank_add_other c a coins : a <> ACC_ALLIANCE -> inv (JC c) (bank_add a coins).
  Proof.
    intros Ha. unfold bank_add. apply inv_mfor; intros da.
    apply inv_modify; intros s [Hi Hc]; split; [inv_goal Hi|].
    unfold sl in *. rewrite B_put_bal_other, T_put_bal, U_put_bal by (auto; congruence). exact Hc.
  Qed.

  (* adding to custody: slack grows by what was added *)
  Lemma jc_bank_add_custody coins : forall c,
    hoare (JC c) (bank_add ACC_ALLIANCE coins) (fun _ => JC (c + csum coins)) (fun _ => False).
  Proof.
    unfold bank_add. induction coins as [|[d' a'] coins IH]; intros c; cbn [mfor]; [|rewrite csum_cons].
    - apply hoare_ret. intros s H. cbn. rewrite Z.add_0_r. exact H.
    - eapply hoare_bind with (Q1 := fun _ => JC (c + (if d' =? d then a' else 0))).
      + apply hoare_modify. intros s [Hi Hc]. split; [inv_goal Hi|]. cbn [fst snd]. unfold sl in *.
        destruct (d' =? d) eqn:E.
        * apply Z.eqb_eq in E; subst d'. rewrite B_put_bal_custody, T_put_bal, U_put_bal by exact Hi. unfold B in *. lia.
        * apply Z.eqb_neq in E. rewrite B_put_bal_other, T_put_bal, U_put_bal by (auto; congruence). lia.
      + intros _. cbn [fst snd].
        replace (c + ((if d' =? d then a' else 0) + csum coins)) with (c + (if d' =? d then a' else 0) + csum coins) by lia. apply IH.
  Qed.

  (* taking out of custody: slack shrinks by what was taken (on success) *)
  Lemma jc_bank_sub_custody coins : forall c,
    hoare (JC c) (bank_sub ACC_ALLIANCE coins) (fun _ => JC (c - csum coins)) (fun _ => True).
  Proof.
    unfold bank_sub. induction coins as [|[d' a'] coins IH]; intros c; cbn [mfor]; [|rewrite csum_cons].
    - apply hoare_ret. intros s H. cbn. rewrite Z.sub_0_r. exact H.
    - eapply hoare_bind with (Q1 := fun _ => JC (c - (if d' =? d then a' else 0))).
      + eapply hoare_bind with (Q1 := fun b s => JC c s /\ b = bal s ACC_ALLIANCE d'); [apply hoare_gets; auto|].
        intros b. cbn [fst snd]. destruct (b <? a'); [apply hoare_fail; auto|].
        apply hoare_modify. intros s [[Hi Hc] Hb]. split; [inv_goal Hi|]. unfold sl in *.
        destruct (d' =? d) eqn:E.
        * apply Z.eqb_eq in E; subst d'. rewrite B_put_bal_custody, T_put_bal, U_put_bal by exact Hi. unfold B in *. lia.
        * apply Z.eqb_neq in E. rewrite B_put_bal_other, T_put_bal, U_put_bal by (auto; congruence). lia.
      + intros _. cbn [fst snd].
        replace (c - ((if d' =? d then a' else 0) + csum coins)) with (c - (if d' =? d then a' else 0) - csum coins) by lia. apply IH.
  Qed.

  (* ---------- with non-negative coins every exit of the custody debit is bounded ---------- *)
  Lemma csum_nonneg coins : coins_nonneg coins -> 0 <= csum coins.
  Proof.
    intros H; induction H as [|[d' a'] coins Ha Hc IH]; cbn; [lia|]. fold (csum coins). cbn in Ha.
    destruct (d' =? d); lia.
  Qed.
  Lemma JC_weaken c c' s : c' <= c -> JC c s -> JC c' s.
  Proof. intros Hle [Hi Hc]; split; [exact Hi | lia]. Qed.

  Lemma jc_bank_sub_custody_strong coins : coins_nonneg coins -> forall c,
    hoare (JC c) (bank_sub ACC_ALLIANCE coins) (fun _ => JC (c - csum coins)) (JC (c - csum coins)).
  Proof.
    unfold bank_sub. intros Hn; induction Hn as [|[d' a'] coins Ha Hn IH]; intros c; cbn [mfor]; [|rewrite csum_cons].
    - apply hoare_ret. intros s H. cbn. rewrite Z.sub_0_r. exact H.
    - cbn in Ha. pose proof (csum_nonneg coins Hn) as Hcs.
      eapply hoare_bind with (Q1 := fun _ => JC (c - (if d' =? d then a' else 0))).
      + eapply hoare_bind with (Q1 := fun b s => JC c s /\ b = bal s ACC_ALLIANCE d'); [apply hoare_gets; auto|].
        intros b. cbn [fst snd]. destruct (b <? a').
        * apply hoare_fail. intros s [H _]. eapply JC_weaken; [|exact H]. destruct (d' =? d); lia.
        * apply hoare_modify. intros s [[Hi Hc] Hb]. split; [inv_goal Hi|]. unfold sl in *.
          destruct (d' =? d) eqn:E.
          -- apply Z.eqb_eq in E; subst d'. rewrite B_put_bal_custody, T_put_bal, U_put_bal by exact Hi. unfold B in *. lia.
          -- apply Z.eqb_neq in E. rewrite B_put_bal_other, T_put_bal, U_put_bal by (auto; congruence). lia.
      + intros _. cbn [fst snd].
        replace (c - ((if d' =? d then a' else 0) + csum coins)) with (c - (if d' =? d then a' else 0) - csum coins) by lia. apply IH.
  Qed.

  (* ---------- automation for programs that only make neutral writes ---------- *)
  Ltac acc_ne := first [ assumption | unfold ACC_ALLIANCE, ACC_REWARDS, ACC_FEE, ACC_BONDED, ACC_NOTBONDED in *; lia ].
  Ltac jc_leaf c :=
    first
      [ apply inv_modify; let s := fresh "s" in let Hs := fresh "Hs" in
        intros s Hs; apply (JC_f c s); [reflexivity | exact Hs]
      | apply inv_modify; let s := fresh "s" in
        intros s [Hi Hc]; split; [inv_goal Hi | exact Hc] ].
  Ltac jc_step c :=
    first
      [ lazymatch goal with
        | |- inv _ (modify _) => jc_leaf c
        | |- inv _ (bank_sub ?a _) => apply jc_bank_sub_other; acc_ne
        | |- inv _ (bank_add ?a _) => apply jc_bank_add_other; acc_ne
        end
      | inv_step
      | lazymatch goal with
        | |- inv _ ?m => let h := head_of m in unfold h
        end ].
  Ltac jc_auto c := repeat (jc_step c).

  (* ---------- reward settlement ---------- *)
  Lemma jc_withdraw_oracle v c :
    hoare (JC c) (withdraw_oracle v) (fun coins s => JC (c + csum coins) s /\ coins_nonneg coins) (JC c).
  Proof.
    unfold withdraw_oracle. apply hoare_bind_gets_eq. intros s0 Hs0.
    destruct (oracle s0) as [|[v' cs] rest] eqn:Eo; [apply hoare_fail; intros; subst; exact Hs0|].
    destruct (v' =? v); [|apply hoare_fail; intros; subst; exact Hs0].
    assert (Hn : coins_nonneg cs).
    { destruct Hs0 as [(_ & _ & HO) _]. unfold ON in HO. rewrite Eo in HO. inversion HO; assumption. }
    eapply hoare_bind with (Q1 := fun _ => JC c).
    { apply hoare_modify. intros s ->. destruct Hs0 as [Hi Hc]. split; [|exact Hc].
      destruct Hi as (HS & HW & HO). split; [exact HS|]. split; [exact HW|]. unfold ON in *. cbn. rewrite Eo in HO. inversion HO; assumption. }
    intros _. eapply hoare_bind with (Q1 := fun _ => JC (c + csum cs)).
    { eapply hoare_post; [| |apply jc_bank_add_custody]; cbn; [auto | intros ? []]. }
    intros _. apply hoare_ret. intros s H; split; [exact H | exact Hn].
  Qed.

  Lemma jc_add_assets_to_reward_pool v vi coins c : coins_nonneg coins ->
    hoare (JC (c + csum coins)) (add_assets_to_reward_pool v vi coins) (fun _ => JC c) (JC c).
  Proof.
    intros Hn. pose proof (csum_nonneg coins Hn) as Hcs.
    assert (Hw : forall s, JC (c + csum coins) s -> JC c s) by (intros s; apply JC_weaken; lia).
    unfold add_assets_to_reward_pool. destruct (length (vi_dshares vi) =? 0)%nat; [apply hoare_ret; exact Hw|].
    eapply hoare_bind with (Q1 := fun _ => JC (c + csum coins)); [unfold all_assets; apply hoare_gets; auto|]. intros als.
    eapply hoare_bind with (Q1 := fun _ => JC (c + csum coins)); [apply hoare_gets; auto|]. intros t.
    eapply hoare_bind with (Q1 := fun _ => JC (c + csum coins)).
    { eapply hoare_post; [| |apply inv_hoare]; [intros ? ? H; exact H | exact Hw |]. jc_auto (c + csum coins). }
    intros hist.
    eapply hoare_bind with (Q1 := fun _ => JC (c + csum coins)).
    { eapply hoare_post; [| |apply inv_hoare]; [intros ? ? H; exact H | exact Hw |]. jc_auto (c + csum coins). }
    intros _. unfold bank_send.
    eapply hoare_bind with (Q1 := fun _ => JC c).
    { eapply hoare_bind with (Q1 := fun _ => JC c).
      - eapply hoare_post; [| |apply (jc_bank_sub_custody_strong coins Hn)];
          [intros ? ? H; replace c with (c + csum coins - csum coins) by lia; exact H
          |intros ? H; replace c with (c + csum coins - csum coins) by lia; exact H].
      - intros _. apply inv_hoare. apply jc_bank_add_other. acc_ne. }
    intros _. apply hoare_ret. auto.
  Qed.

  Lemma jc_claim_validator_rewards v vi c : inv (JC c) (claim_validator_rewards v vi).
  Proof.
    apply inv_of_hoare. unfold claim_validator_rewards.
    eapply hoare_bind with (Q1 := fun _ => JC c); [apply hoare_gets; auto|]. intros od.
    destruct od; [|apply hoare_ret; auto].
    eapply hoare_bind; [apply jc_withdraw_oracle|]. intros coins.
    destruct (cis_zero coins).
    - apply hoare_ret. intros s [H Hn]. eapply JC_weaken; [|exact H]. pose proof (csum_nonneg coins Hn). lia.
    - intros s [H Hn]. exact (jc_add_assets_to_reward_pool v vi coins c Hn s H).
  Qed.

  (* a claim by a delegator that is not the custody account *)
  Lemma jc_claim_delegation_rewards del v vi dn c : del <> ACC_ALLIANCE ->
    inv (JC c) (claim_delegation_rewards del v vi dn).
  Proof.
    intros Hdel. unfold claim_delegation_rewards.
    repeat (first [ apply jc_claim_validator_rewards | jc_step c ]).
  Qed.

  (* ---------- carrying a fact about the assets map through programs that do not write it ---------- *)
  Lemma inv_with_assets A (J : State -> Prop) (R : KMap Asset -> Prop) (m : M A) :
    inv J m -> (forall A0, inv (JA A0) m) -> inv (fun s => J s /\ R (assets s)) m.
  Proof.
    intros H1 H2 s [HJ HR]. specialize (H1 s HJ). specialize (H2 (assets s) s eq_refl). unfold JA in H2.
    destruct (m s); rewrite H2; auto.
  Qed.
  Ltac assets_frame := let A0 := fresh "A0" in intros A0; inv_deep (JAf A0).

  (* T read off the assets map *)
  Lemma T_of_kget s a : WK s -> kget (assets s) [d] = Some a -> T s = a_tokens a.
  Proof. intros _ H; unfold T, staked_total; rewrite H; reflexivity. Qed.

  (* ---------- Delegate ---------- *)
  Lemma jc_k_delegate del v vi dn amt c : del <> ACC_ALLIANCE -> 0 < amt ->
    hoare (JC c) (k_delegate del v vi dn amt) (fun _ => JC c) (fun _ => True).
  Proof.
    intros Hdel Hamt. unfold k_delegate, get_asset. apply hoare_bind_gets_eq. intros s0 Hs0.
    destruct (kget (assets s0) [dn]) as [a|] eqn:Eg; [|apply hoare_fail; auto].
    assert (Hda : a_denom a = dn).
    { pose proof (kall_kget _ _ _ _ (Inv_WK _ (proj1 Hs0)) Eg) as Hk. cbn in Hk. inversion Hk; reflexivity. }
    set (x := if dn =? d then amt else 0).
    set (R := fun A0 : KMap Asset => kget A0 [dn] = Some a).
    unfold coin1. assert (E : amt <? 0 = false) by (apply Z.ltb_ge; lia). rewrite E.
    assert (E2 : amt =? 0 = false) by (apply Z.eqb_neq; lia). rewrite E2.
    unfold bind at 1. unfold ret at 1.
    (* coins in *)
    eapply hoare_bind with (Q1 := fun _ s => JC (c + x) s /\ R (assets s)).
    { apply (hoare_pre _ _ (fun s => JC c s /\ R (assets s))); [intros s ->; split; [exact Hs0 | exact Eg]|].
      unfold bank_send.
      eapply hoare_bind with (Q1 := fun _ s => JC c s /\ R (assets s)).
      - apply inv_hoare_true. apply inv_with_assets; [apply jc_bank_sub_other; exact Hdel | assets_frame].
      - intros _. intros s [HJ HR]. pose proof (jc_bank_add_custody [(dn, amt)] c s HJ) as H.
        assert (HA : inv (JA (assets s)) (bank_add ACC_ALLIANCE [(dn, amt)])) by (inv_deep (JAf (assets s))).
        specialize (HA s eq_refl). unfold JA in HA.
        destruct (bank_add ACC_ALLIANCE [(dn, amt)] s); try exact I.
        split; [|rewrite HA; exact HR]. cbn in H. unfold x. rewrite Z.add_0_r in H. exact H. }
    intros _.
    (* settlement and the delegation record: slack-monotone, assets untouched *)
    eapply hoare_bind with (Q1 := fun _ s => JC (c + x) s /\ R (assets s)).
    { apply inv_hoare_true. apply inv_with_assets; [unfold get_delegation; apply inv_gets | assets_frame]. }
    intros od.
    eapply hoare_bind with (Q1 := fun _ s => JC (c + x) s /\ R (assets s)).
    { apply inv_hoare_true. apply inv_with_assets; [|assets_frame].
      destruct od; [apply jc_claim_delegation_rewards; exact Hdel | apply jc_claim_validator_rewards]. }
    intros vi1.
    eapply hoare_bind with (Q1 := fun _ s => JC (c + x) s /\ R (assets s)).
    { apply inv_hoare_true. apply inv_with_assets; [jc_auto (c + x) | assets_frame]. }
    intros ns.
    eapply hoare_bind with (Q1 := fun _ s => JC (c + x) s /\ R (assets s)).
    { apply inv_hoare_true. apply inv_with_assets; [jc_auto (c + x) | assets_frame]. }
    intros nvs.
    (* the staked total catches up *)
    eapply hoare_bind with (Q1 := fun _ => JC c).
    { unfold set_asset. apply hoare_modify. intros s [[Hi Hc] HR]. unfold R in HR. split; [inv_goal Hi|].
      unfold sl in *. rewrite T_set_asset by exact Hi. cbn [a_denom a_tokens set_a_vshares set_a_tokens].
      change (B (set_assets _ s)) with (B s). change (U (set_assets _ s)) with (U s).
      unfold x in Hc. rewrite Hda. destruct (dn =? d) eqn:E3.
      - apply Z.eqb_eq in E3. subst dn. rewrite E3 in HR. rewrite (T_of_kget s a (Inv_WK _ Hi) HR) in Hc. lia.
      - lia. }
    intros _. apply inv_hoare_true. jc_auto c.
  Qed.
End Denom.

(* Custody.v — C01: custody of an alliance denom never falls below what is owed
   (staked total + pending unbondings), in every reachable state. *)
From Coq Require Import ZArith List Bool Lia.
From Alliance Require Import Num KMap KMapFacts KMapSorted Types Monad Model Step Spec Hoare.
From Alliance.Proofs Require Import SortedInv WellKeyed Misc.
Import ListNotations.
Open Scope Z_scope.

Section Denom.
  Variable d : Z.
  Hypothesis d_not_bond : d <> BOND_DENOM.

  (* ---------- the three quantities ---------- *)
  Definition B (s : State) : Z := bal s ACC_ALLIANCE d.
  Definition T (s : State) : Z := staked_total s d.
  Definition lsum (l : list Undel) : Z :=
    fold_right (fun u acc => (if u_denom u =? d then u_amount u else 0) + acc) 0 l.
  Definition U (s : State) : Z := ksum (fun _ l => lsum l) (undelq s).
  Definition sl (s : State) : Z := B s - T s - U s.

  Lemma lsum_app a b : lsum (a ++ b) = lsum a + lsum b.
  Proof. unfold lsum; induction a as [|x a IH]; cbn; [lia|]. fold (lsum (a ++ b)) in *. fold (lsum a) in *. lia. Qed.

  Lemma U_is_unbonding_sum s : U s = unbonding_sum s d.
  Proof.
    unfold U, unbonding_sum, all_undels, ksum. induction (undelq s) as [|[k l] m IH]; cbn; [reflexivity|].
    rewrite IH. clear IH. induction l as [|u l IHl]; cbn; [reflexivity|]. unfold lsum in *. cbn. lia.
  Qed.
  Lemma sl_is_slack s : sl s = slack s d.
  Proof. unfold sl, slack, custody, owed, B, T. rewrite U_is_unbonding_sum. lia. Qed.

  (* ---------- the invariants carried along ---------- *)
  Definition Inv (s : State) : Prop := SortedS s /\ WK s.
  Definition JC (c : Z) (s : State) : Prop := Inv s /\ c <= sl s.

  Lemma Inv_sorted_bank s : Inv s -> ksorted (bank s).
  Proof. intros [(?&?&?&?&?&?&?&?&?&?&?&?&?) _]; assumption. Qed.
  Lemma Inv_sorted_assets s : Inv s -> ksorted (assets s).
  Proof. intros [(?&?&?&?&?&?&?&?&?&?&?&?&?) _]; assumption. Qed.
  Lemma Inv_sorted_undelq s : Inv s -> ksorted (undelq s).
  Proof. intros [(?&?&?&?&?&?&?&?&?&?&?&?&?) _]; assumption. Qed.

  (* Inv is preserved by everything (SortedInv, WellKeyed): as Hoare-style facts *)
  Lemma Inv_f : forall s s', maps_of s' = maps_of s -> Inv s -> Inv s'.
  Proof.
    intros s s' E [H1 H2]; split; [eapply Sf; eauto|]. eapply WKf; [|exact H2].
    unfold maps_of in E. inversion E; reflexivity.
  Qed.

  (* ---------- effect of the primitive writes on B, T, U ---------- *)
  Lemma B_put_bal_custody s v : Inv s -> B (put_bal ACC_ALLIANCE d v s) = v.
  Proof. intros H; apply bal_put_bal_same, Inv_sorted_bank, H. Qed.
  Lemma B_put_bal_other s a d' v : Inv s -> (a, d') <> (ACC_ALLIANCE, d) -> B (put_bal a d' v s) = B s.
  Proof. intros H Hne; apply bal_put_bal_other; [apply Inv_sorted_bank, H|]. congruence. Qed.

  Lemma T_put_bal s a d' v : T (put_bal a d' v s) = T s.
  Proof. reflexivity. Qed.
  Lemma U_put_bal s a d' v : U (put_bal a d' v s) = U s.
  Proof. reflexivity. Qed.

  Lemma T_set_asset s a : Inv s ->
    T (set_assets (kset (assets s) [a_denom a] a) s) = if a_denom a =? d then a_tokens a else T s.
  Proof.
    intros H. unfold T, staked_total; cbn. destruct (a_denom a =? d) eqn:E.
    - apply Z.eqb_eq in E; subst. rewrite kget_kset_same. reflexivity.
    - apply Z.eqb_neq in E. rewrite kget_kset_other; [reflexivity | apply Inv_sorted_assets, H | congruence].
  Qed.

  Lemma U_set_bucket s k l : Inv s ->
    U (set_undelq (kset (undelq s) k l) s) = U s - (match kget (undelq s) k with Some o => lsum o | None => 0 end) + lsum l.
  Proof. intros H. unfold U; cbn [undelq set_undelq]. rewrite ksum_kset by (apply Inv_sorted_undelq, H). unfold kval. reflexivity. Qed.
  Lemma U_del_bucket s k : Inv s ->
    U (set_undelq (kdel (undelq s) k) s) = U s - (match kget (undelq s) k with Some o => lsum o | None => 0 end).
  Proof. intros H. unfold U; cbn [undelq set_undelq]. rewrite ksum_kdel by (apply Inv_sorted_undelq, H). unfold kval. reflexivity. Qed.

  (* ---------- Inv at a modify leaf ---------- *)
  Ltac inv_goal Hi :=
    destruct Hi as [HS HW]; split;
    [ unfold SortedS in *; unfold put_bal, put_sup; cbn;
      destruct HS as (?&?&?&?&?&?&?&?&?&?&?&?&?); srt_solve
    | unfold WK in *; cbn; first [ exact HW | apply kall_kset; [exact HW | reflexivity] | apply kall_kdel; exact HW ] ].

  (* a write that touches neither the bank, nor the assets, nor the unbonding queue *)
  Ltac neutral_leaf :=
    apply inv_modify; let s := fresh "s" in let H := fresh "H" in
    intros s [Hi Hc]; split; [inv_goal Hi | exact Hc].
  Definition proj (s : State) := (bank s, assets s, undelq s).
  Lemma JC_f c : forall s s', maps_of s' = maps_of s -> JC c s -> JC c s'.
  Proof.
    intros s s' E [Hi Hc]; split; [eapply Inv_f; eauto|].
    unfold maps_of in E; inversion E as [[E1 E2 E3 E4 E5 E6 E7 E8 E9 E10 E11 E12 E13]].
    unfold sl, B, T, U, bal, staked_total in *. rewrite E1, E7, E10. exact Hc.
  Qed.

  (* ---------- bank ---------- *)
  Definition csum (c : Coins) : Z := fold_right (fun da acc => (if fst da =? d then snd da else 0) + acc) 0 c.

  Lemma csum_cons d' a' coins : csum ((d', a') :: coins) = (if d' =? d then a' else 0) + csum coins.
  Proof. reflexivity. Qed.

  (* taking coins out of an account other than custody / adding to one: neutral *)
  Lemma jc_bank_sub_other c a coins : a <> ACC_ALLIANCE -> inv (JC c) (bank_sub a coins).
  Proof.
    intros Ha. unfold bank_sub. apply inv_mfor; intros da.
    apply inv_bind; [apply inv_gets|]; intros b. destruct (b <? snd da); [apply inv_fail|].
    apply inv_modify; intros s [Hi Hc]; split; [inv_goal Hi|].
    unfold sl in *. rewrite B_put_bal_other, T_put_bal, U_put_bal by (auto; congruence). exact Hc.
  Qed.
  Lemma jc_bank_add_other c a coins : a <> ACC_ALLIANCE -> inv (JC c) (bank_add a coins).
  Proof.
    intros Ha. unfold bank_add. apply inv_mfor; intros da.
    apply inv_modify; intros s [Hi Hc]; split; [inv_goal Hi|].
    unfold sl in *. rewrite B_put_bal_other, T_put_bal, U_put_bal by (auto; congruence). exact Hc.
  Qed.

  (* adding to custody: slack grows by what was added *)
  Lemma jc_bank_add_custody coins : forall c,
    hoare (JC c) (bank_add ACC_ALLIANCE coins) (fun _ => JC (c + csum coins)) (fun _ => True).
  Proof.
    unfold bank_add. induction coins as [|[d' a'] coins IH]; intros c; cbn [mfor]; [|rewrite csum_cons].
    - apply hoare_ret. intros s H. cbn. rewrite Z.add_0_r. exact H.
    - eapply hoare_bind with (Q1 := fun _ => JC (c + (if d' =? d then a' else 0))).
      + apply hoare_modify. intros s [Hi Hc]. split; [inv_goal Hi|]. cbn [fst snd]. unfold sl in *.
        destruct (d' =? d) eqn:E.
        * apply Z.eqb_eq in E; subst d'. rewrite B_put_bal_custody, T_put_bal, U_put_bal by exact Hi. unfold B in *. lia.
        * apply Z.eqb_neq in E. rewrite B_put_bal_other, T_put_bal, U_put_bal by (auto; congruence). lia.
      + intros _. cbn [fst snd].
        replace (c + ((if d' =? d then a' else 0) + csum coins)) with (c + (if d' =? d then a' else 0) + csum coins) by lia. apply IH.
  Qed.

  (* taking out of custody: slack shrinks by what was taken (on success) *)
  Lemma jc_bank_sub_custody coins : forall c,
    hoare (JC c) (bank_sub ACC_ALLIANCE coins) (fun _ => JC (c - csum coins)) (fun _ => True).
  Proof.
    unfold bank_sub. induction coins as [|[d' a'] coins IH]; intros c; cbn [mfor]; [|rewrite csum_cons].
    - apply hoare_ret. intros s H. cbn. rewrite Z.sub_0_r. exact H.
    - eapply hoare_bind with (Q1 := fun _ => JC (c - (if d' =? d then a' else 0))).
      + eapply hoare_bind with (Q1 := fun b s => JC c s /\ b = bal s ACC_ALLIANCE d'); [apply hoare_gets; auto|].
        intros b. cbn [fst snd]. destruct (b <? a'); [apply hoare_fail; auto|].
        apply hoare_modify. intros s [[Hi Hc] Hb]. split; [inv_goal Hi|]. unfold sl in *.
        destruct (d' =? d) eqn:E.
        * apply Z.eqb_eq in E; subst d'. rewrite B_put_bal_custody, T_put_bal, U_put_bal by exact Hi. unfold B in *. lia.
        * apply Z.eqb_neq in E. rewrite B_put_bal_other, T_put_bal, U_put_bal by (auto; congruence). lia.
      + intros _. cbn [fst snd].
        replace (c - ((if d' =? d then a' else 0) + csum coins)) with (c - (if d' =? d then a' else 0) - csum coins) by lia. apply IH.
  Qed.
End Denom.

(* PayoutReachable.v — C17: in every reachable state the first two phases of EndBlocker
   (CompleteRedelegations, CompleteUnbondings) return normally.  Puts together
     C01  custody >= staked total + pending unbondings      (Custody.v, CustodyClosed.v)
     C03  staked total >= 0                                 (TokensNonneg.v; true since fix 714c18a)
     pending balances >= 0, none in the staking denom       (PayoutTotal.v part A)
     the payout returns when custody covers the pending     (PayoutTotal.v part B).
   Assumed of the history: what C01 assumes (environment does not take coins out of custody,
   recorded withdrawals non-negative, the custody account signs no delegation, no slash callback
   returned an ERROR, genesis assets valid) and that no undelegation message names the staking denom. *)
From Coq Require Import ZArith List Bool Lia.
From Alliance Require Import Num KMap KMapFacts KMapSorted Types Monad Model Step Spec Hoare.
From Alliance.Proofs Require Import SortedInv Custody TokensNonneg CustodyClosed PayoutTotal.
Import ListNotations.
Open Scope Z_scope.

Definition Pre (s : State) : Prop := ksorted (bank s) /\ ENB s /\ Cover s.
Definition pre_proj (s : State) := (bank s, undelq s).
Lemma Pre_f : forall s s', pre_proj s' = pre_proj s -> Pre s -> Pre s'.
Proof.
  unfold pre_proj, Pre, EN, Cover, unbonding_sum, all_undels, bal. intros s s' E H. inversion E as [[E1 E2]].
  rewrite E1, E2. exact H.
Qed.

Lemma pre_complete_redelegations : inv Pre complete_redelegations.
Proof. inv_deep Pre_f. Qed.
Lemma nofail_complete_redelegations : nofail complete_redelegations.
Proof. nofail_deep. Qed.

Theorem first_phases_total :
  hoare Pre (complete_redelegations ;;; complete_unbondings) (fun _ _ => True) (fun _ => False).
Proof.
  eapply hoare_bind with (Q1 := fun _ => Pre).
  - intros s Hs. pose proof (pre_complete_redelegations s Hs) as H1. pose proof (nofail_complete_redelegations s I) as H2.
    destruct (complete_redelegations s); [exact H1 | contradiction | contradiction].
  - intros ?. apply complete_unbondings_total.
Qed.

Definition history_ok (h : list Op) : Prop :=
  (forall d, d <> BOND_DENOM -> adm0_run d init_state h) /\ Forall (op_okd notbond) h.

Lemma adm0_run_op_ok d h : forall s, J s -> adm0_run d s h -> Forall op_ok h.
Proof.
  induction h as [|o h IH]; intros s Hs Ha; [constructor|]. cbn [adm0_run] in Ha. destruct Ha as [Ha1 Ha2].
  destruct (adm0_adm d s o Hs Ha1) as [_ Hok]. constructor; [exact Hok|].
  apply (IH (fst (step s o))); [apply step_J; assumption | exact Ha2].
Qed.

Theorem reachable_Pre h : history_ok h -> Pre (run init_state h).
Proof.
  intros [Hadm Hnb]. split; [|split].
  - pose proof (reachable_Sorted h) as HS. unfold SortedS in HS. tauto.
  - apply run_EN; [exact Hnb | constructor].
  - intros d Hd.
    pose proof (custody_never_short_closed d Hd h (Hadm d Hd)) as Hsl.
    assert (Hok : Forall op_ok h) by (apply (adm0_run_op_ok d h init_state J_init (Hadm d Hd))).
    pose proof (J_staked_total _ d (run_J h init_state J_init Hok)) as Hst.
    unfold slack, owed, custody in Hsl. lia.
Qed.

(* every admissible history: at the next end of block, whatever the block time, completing the
   matured redelegations and paying the matured unbondings returns normally *)
Theorem payout_never_fails h t ht : history_ok h ->
  let s := fst (step (run init_state h) (OBeginBlock t ht)) in
  exists s', (complete_redelegations ;;; complete_unbondings) s = Ok tt s'.
Proof.
  intros Hh s. assert (Hp : Pre s).
  { apply (Pre_f (run init_state h)); [reflexivity | apply reachable_Pre; exact Hh]. }
  pose proof (first_phases_total s Hp) as H.
  destruct ((complete_redelegations ;;; complete_unbondings) s) as [[] s'|e s'|e s']; [eexists; reflexivity | contradiction | contradiction].
Qed.

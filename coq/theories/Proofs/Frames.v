(* Frames.v — what some operations provably leave untouched.
   C13: a claim changes no asset and no share quantity.
   C06: a slash changes no staked total.
   C15: a redelegation changes no staked total. *)
From Coq Require Import ZArith List Bool Lia.
From Alliance Require Import Num KMap KMapFacts KMapSorted Types Monad Model Step Spec Hoare.
From Alliance.Proofs Require Import SortedInv WellKeyed.
Import ListNotations.
Open Scope Z_scope.

(* ---------- replacing a value by one with the same projection ---------- *)
Lemma map_kset_same_view {V W} (f : V -> W) (m : KMap V) k v v' :
  kget m k = Some v -> f v' = f v ->
  map (fun kv => (fst kv, f (snd kv))) (kset m k v') = map (fun kv => (fst kv, f (snd kv))) m.
Proof.
  intros Hg Hf; induction m as [|[k0 v0] m IH]; cbn in *; [discriminate|].
  destruct (kcmp k k0) eqn:E.
  - inversion Hg; subst. apply kcmp_eq in E; subst. cbn. rewrite Hf. reflexivity.
  - discriminate.
  - cbn. rewrite IH by exact Hg. reflexivity.
Qed.

(* ---------- C13: claims ---------- *)
Section ClaimAssets.
  Variable A0 : KMap Asset.
  Definition JA (s : State) : Prop := assets s = A0.
  Lemma JAf : forall s s', assets s' = assets s -> JA s -> JA s'.
  Proof. unfold JA; intros; congruence. Qed.
  Lemma claim_keeps_assets a b c : inv JA (msg_claim a b c).
  Proof. inv_deep JAf. Qed.
End ClaimAssets.

Theorem claim_changes_no_asset s del v dn : assets (fst (step s (OClaim del v dn))) = assets s.
Proof.
  cbn [step]. pose proof (claim_keeps_assets (assets s) del v dn s eq_refl) as H.
  unfold tx, clear_oracle. destruct (msg_claim del v dn s); cbn; auto.
Qed.

(* delegation shares: the only write of a claim to a delegation replaces it by a
   record with the same shares *)
Definition share_view (s : State) : list (Key * Z) := map (fun kv => (fst kv, d_shares (snd kv))) (delegations s).

Section ClaimShares.
  Variable V0 : list (Key * Z).
  Definition JSh (s : State) : Prop := share_view s = V0.
  Lemma JShf : forall s s', delegations s' = delegations s -> JSh s -> JSh s'.
  Proof. unfold JSh, share_view; intros s s' E H; rewrite E; exact H. Qed.

  Lemma shares_claim_validator_rewards v vi : inv JSh (claim_validator_rewards v vi).
  Proof. inv_deep JShf. Qed.

  Lemma shares_claim_delegation_rewards del v vi dn : inv JSh (claim_delegation_rewards del v vi dn).
  Proof.
    unfold claim_delegation_rewards.
    apply inv_bind; [inv_deep JShf|]; intros oa. destruct oa as [a|]; [|apply inv_fail].
    apply inv_bind; [apply inv_gets|]; intros t. destruct (negb (rewards_started a t)); [apply inv_ret|].
    apply inv_of_hoare. unfold get_delegation. apply hoare_bind_gets_eq. intros s0 Hs0.
    destruct (kget (delegations s0) [del; v; dn]) as [dl|] eqn:Eg; [|apply hoare_fail; intros; subst; exact Hs0].
    (* P: the view is V0 and the record under the key still has the shares of dl *)
    set (P := fun s : State => JSh s /\ exists x, kget (delegations s) [del; v; dn] = Some x /\ d_shares x = d_shares dl).
    assert (Pf : forall s s', delegations s' = delegations s -> P s -> P s').
    { unfold P, JSh, share_view; intros s s' E [H1 H2]; rewrite E; auto. }
    assert (PJ : forall s, P s -> JSh s) by (intros s [H _]; exact H).
    apply (hoare_pre _ _ P); [intros s ->; split; [exact Hs0 | exists dl; auto]|].
    eapply hoare_bind with (Q1 := fun _ => P).
    { apply (hoare_post _ _ _ _ (fun _ => P) _ P); auto. apply inv_hoare. inv_deep Pf. }
    intros vi'. eapply hoare_bind with (Q1 := fun _ => P); [apply hoare_gets; auto|]. intros s1.
    destruct (calculate_delegation_rewards s1 v dl vi' a) as [coins idx].
    eapply hoare_bind with (Q1 := fun _ => P); [apply hoare_gets; auto|]. intros h.
    eapply hoare_bind with (Q1 := fun _ => JSh).
    { unfold set_delegation. apply hoare_modify. intros s [HJ (x & Hx & Hsh)]. unfold JSh, share_view in *. cbn.
      rewrite (map_kset_same_view d_shares _ _ x); [exact HJ | exact Hx | cbn; congruence]. }
    intros _. apply inv_hoare. inv_deep JShf.
  Qed.

  Lemma shares_msg_claim del v dn : inv JSh (msg_claim del v dn).
  Proof.
    unfold msg_claim. apply inv_bind; [inv_deep JShf|]. intros [sv vi].
    apply inv_bind; [apply shares_claim_delegation_rewards | intros ?; apply inv_ret].
  Qed.
End ClaimShares.

Theorem claim_changes_no_delegation_shares s del v dn : share_view (fst (step s (OClaim del v dn))) = share_view s.
Proof.
  cbn [step]. pose proof (shares_msg_claim (share_view s) del v dn s eq_refl) as H.
  unfold tx, clear_oracle. destruct (msg_claim del v dn s); cbn; auto.
Qed.

(* ---------- C06 / C15: staked totals are untouched by a slash and by a redelegation ---------- *)
Definition token_view (s : State) : list (Key * Z) := map (fun kv => (fst kv, a_tokens (snd kv))) (assets s).

Section Totals.
  Variable V0 : list (Key * Z).
  Definition JT (s : State) : Prop := WK s /\ token_view s = V0.
  Lemma JTf : forall s s', assets s' = assets s -> JT s -> JT s'.
  Proof. unfold JT, WK, token_view; intros s s' E H; rewrite E; exact H. Qed.

  (* writing back an asset that was read under its own key, with the same total *)
  Lemma JT_set_asset_same s dn a a' : JT s -> kget (assets s) [dn] = Some a ->
    a_denom a' = a_denom a -> a_tokens a' = a_tokens a ->
    JT (set_assets (kset (assets s) [a_denom a'] a') s).
  Proof.
    intros [Hw Hv] Hg Hd Ht. pose proof (kall_kget _ _ _ _ Hw Hg) as Hk; cbn in Hk. inversion Hk as [Hdn].
    split.
    - unfold WK; cbn. apply kall_kset; [exact Hw | reflexivity].
    - unfold token_view in *; cbn. rewrite Hd, <- Hdn.
      rewrite (map_kset_same_view a_tokens _ _ a); auto.
  Qed.

  Lemma totals_reset a : inv JT (reset_asset_and_validators a) ->
    inv JT (reset_asset_and_validators a).
  Proof. auto. Qed.

  (* SlashValidator's first loop: read the asset, write it back with fewer shares *)
  Lemma totals_slash_validator v f : inv JT (slash_validator v f).
  Proof.
    unfold slash_validator. destruct ((f <=? 0) || (ONE <? f)); [apply inv_fail|].
    apply inv_bind; [inv_deep JTf|]. intros [sv vi].
    apply inv_bind; [|intros ?; inv_deep JTf].
    apply inv_mfold; intros acc da.
    apply inv_bind; [inv_deep JTf|]; intros _.
    unfold get_asset. apply inv_of_hoare. apply hoare_bind_gets_eq. intros s0 Hs0.
    destruct (kget (assets s0) [fst da]) as [a|] eqn:Eg; [|apply hoare_fail; intros; subst; exact Hs0].
    eapply hoare_bind with (Q1 := fun _ => JT); [|intros _; apply hoare_ret; auto].
    unfold set_asset. apply hoare_modify. intros s ->.
    apply (JT_set_asset_same s0 (fst da) a); auto.
  Qed.

  Lemma totals_hook_slash v f : inv JT (hook_slash v f).
  Proof. unfold hook_slash. apply inv_bind; [apply totals_slash_validator | intros _; inv_deep JTf]. Qed.
End Totals.

Theorem slash_changes_no_staked_total s v f : WK s ->
  token_view (fst (step s (OHookSlash v f))) = token_view s.
Proof.
  intros Hw. cbn [step]. pose proof (totals_hook_slash (token_view s) v f s (conj Hw eq_refl)) as H.
  unfold hook, clear_oracle. destruct (hook_slash v f s) as [a s'|e s'|e s']; cbn; try reflexivity; destruct H; auto.
Qed.

Lemma token_view_total s d : staked_total s d = match kget (map (fun kv => (fst kv, a_tokens (snd kv))) (assets s)) [d] with Some t => t | None => 0 end.
Proof.
  unfold staked_total. induction (assets s) as [|[k a] m IH]; cbn [map kget fst snd]; [reflexivity|].
  destruct (kcmp [d] k); [reflexivity | reflexivity | exact IH].
Qed.

Theorem slash_keeps_every_staked_total h v f d : let s := run init_state h in
  staked_total (fst (step s (OHookSlash v f))) d = staked_total s d.
Proof.
  intros s. rewrite !token_view_total.
  pose proof (slash_changes_no_staked_total s v f (run_WK h init_state (kall_nil _))) as H.
  unfold token_view in H. rewrite H. reflexivity.
Qed.

(* ---------- C15: a redelegation changes no staked total ---------- *)
Section RedelTotals.
  Variable V0 : list (Key * Z).
  Variables (dn : Z) (a : Asset).
  Definition PR (s : State) : Prop :=
    JT V0 s /\ exists x, kget (assets s) [dn] = Some x /\ a_tokens x = a_tokens a /\ a_denom x = a_denom a.
  Lemma PRf : forall s s', assets s' = assets s -> PR s -> PR s'.
  Proof. unfold PR, JT, WK, token_view; intros s s' E H; rewrite E; exact H. Qed.

  Ltac pr_leaf :=
    apply inv_modify; let s := fresh "s" in intros s [HJ (x & Hx & Ht & Hd)];
    assert (Hdn : a_denom x = dn) by
      (destruct HJ as [Hw _]; pose proof (kall_kget _ _ _ _ Hw Hx) as Hk; cbn in Hk; inversion Hk; reflexivity);
    split;
    [ apply (JT_set_asset_same V0 s dn x); cbn; auto; congruence
    | cbn; eexists; split; [ replace dn with (a_denom a) by congruence; apply kget_kset_same | cbn; auto ] ].

  Lemma redel_reset : inv PR (reset_asset_and_validators a).
  Proof.
    unfold reset_asset_and_validators. destruct (negb (a_tokens a =? 0)); [apply inv_ret|].
    apply inv_bind; [apply inv_gets|]; intros infos.
    apply inv_bind; [inv_deep PRf|]; intros _.
    unfold set_asset. pr_leaf.
  Qed.

  Lemma redel_clear_dust del v vi : inv PR (clear_dust_delegation del v vi a).
  Proof.
    unfold clear_dust_delegation.
    repeat (first [ apply redel_reset
                  | lazymatch goal with
                    | |- inv _ (modify _) => apply inv_modify; intros ? ?; apply (PRf s); [reflexivity | assumption]
                    end
                  | inv_step
                  | lazymatch goal with |- inv _ ?m =>
                      let h := head_of m in
                      lazymatch h with reset_asset_and_validators => fail | _ => unfold h end end ]).
  Qed.
End RedelTotals.

Lemma totals_k_redelegate V0 del src svi dst dvi dn amt : inv (JT V0) (k_redelegate del src svi dst dvi dn amt).
Proof.
  unfold k_redelegate. destruct (src =? dst); [apply inv_fail|].
  unfold get_asset. apply inv_of_hoare. apply hoare_bind_gets_eq. intros s0 Hs0.
  destruct (kget (assets s0) [dn]) as [a|] eqn:Eg; [|apply hoare_fail; intros; subst; exact Hs0].
  apply (hoare_pre _ _ (PR V0 dn a)); [intros s ->; split; [exact Hs0 | exists a; auto]|].
  apply (hoare_post _ _ _ _ (fun _ => PR V0 dn a) _ (PR V0 dn a)); [intros ? ? [H _]; exact H | intros ? [H _]; exact H |].
  apply inv_hoare.
  repeat (first [ apply redel_clear_dust
                | lazymatch goal with
                  | |- inv _ (modify _) => apply inv_modify; intros ? ?; eapply PRf; [reflexivity | eassumption]
                  end
                | inv_step
                | lazymatch goal with |- inv _ ?m =>
                    let h := head_of m in
                    lazymatch h with clear_dust_delegation => fail | _ => unfold h end end ]).
Qed.

Lemma totals_msg_redelegate V0 del src dst dn amt : inv (JT V0) (msg_redelegate del src dst dn amt).
Proof.
  unfold msg_redelegate. destruct (amt <=? 0); [apply inv_fail|].
  apply inv_bind; [inv_deep (JTf V0)|]. intros [sv1 svi].
  apply inv_bind; [inv_deep (JTf V0)|]. intros [sv2 dvi].
  apply totals_k_redelegate.
Qed.

Theorem redelegation_keeps_every_staked_total h del src dst dn amt d : let s := run init_state h in
  staked_total (fst (step s (ORedelegate del src dst dn amt))) d = staked_total s d.
Proof.
  intros s. rewrite !token_view_total. cbn [step].
  pose proof (totals_msg_redelegate (token_view s) del src dst dn amt s (conj (run_WK h init_state (kall_nil _)) eq_refl)) as H.
  unfold tx, clear_oracle. destruct (msg_redelegate del src dst dn amt s) as [x s'|e s'|e s']; cbn; try reflexivity.
  destruct H as [_ H]. unfold token_view in H. rewrite H. reflexivity.
Qed.

(* ---------- C15: the onward hop is blocked while an entry into the source is pending ---------- *)
Section Blocked.
  Variables (del src dn : Z).
  Definition Blk (s : State) : Prop := has_redelegation s del src dn = true.
  Lemma Blkf : forall s s', redels s' = redels s -> Blk s -> Blk s'.
  Proof. unfold Blk, has_redelegation; intros s s' E H; rewrite E; exact H. Qed.

  Lemma blocked_k_redelegate svi dst dvi amt :
    hoare Blk (k_redelegate del src svi dst dvi dn amt) (fun _ _ => False) (fun _ => True).
  Proof.
    unfold k_redelegate. destruct (src =? dst); [apply hoare_fail; auto|].
    eapply hoare_bind with (Q1 := fun _ => Blk); [apply hoare_gets; auto|]. intros oa.
    destruct oa as [a|]; [|apply hoare_fail; auto].
    eapply hoare_bind with (Q1 := fun _ => Blk); [apply hoare_gets; auto|]. intros od.
    destruct od; [|apply hoare_fail; auto].
    eapply hoare_bind with (Q1 := fun _ => Blk); [apply inv_hoare_true; inv_deep Blkf|]. intros svi1.
    eapply hoare_bind with (Q1 := fun _ => Blk); [apply hoare_gets; auto|]. intros od1.
    eapply hoare_bind with (Q1 := fun _ => Blk); [apply hoare_gets; auto|]. intros odd.
    eapply hoare_bind with (Q1 := fun _ => Blk).
    { destruct odd; apply inv_hoare_true; inv_deep Blkf. }
    intros dvi1.
    eapply hoare_bind with (Q1 := fun _ => Blk); [apply inv_hoare_true; inv_deep Blkf|]. intros sh.
    match goal with |- hoare _ (if ?b then _ else _) _ _ => destruct b end; [apply hoare_panic; auto|].
    match goal with |- hoare _ (if ?b then _ else _) _ _ => destruct b end; [apply hoare_fail; auto|].
    apply hoare_bind_gets_eq. intros s0 Hs0. unfold Blk in Hs0. rewrite Hs0. apply hoare_fail; auto.
  Qed.
End Blocked.

Theorem pending_entry_blocks_onward_hop s del src dst dn amt :
  has_redelegation s del src dn = true -> snd (step s (ORedelegate del src dst dn amt)) <> R_OK.
Proof.
  intros Hb. cbn [step]. unfold tx, clear_oracle, msg_redelegate.
  destruct (amt <=? 0); [cbn; discriminate|].
  unfold bind at 1. destruct (get_alliance_validator src s) as [[sv1 svi] s1|e s1|e s1] eqn:E1; try (cbn; discriminate).
  unfold bind at 1. destruct (get_alliance_validator dst s1) as [[sv2 dvi] s2|e s2|e s2] eqn:E2; try (cbn; discriminate).
  assert (Hb2 : Blk del src dn s2).
  { assert (H1 : inv (Blk del src dn) (get_alliance_validator src)) by (inv_deep (Blkf del src dn)).
    assert (H2 : inv (Blk del src dn) (get_alliance_validator dst)) by (inv_deep (Blkf del src dn)).
    specialize (H1 s Hb). rewrite E1 in H1. specialize (H2 s1 H1). rewrite E2 in H2. exact H2. }
  pose proof (blocked_k_redelegate del src dn svi dst dvi amt s2 Hb2) as H.
  destruct (k_redelegate del src svi dst dvi dn amt s2); cbn; [contradiction | discriminate | discriminate].
Qed.

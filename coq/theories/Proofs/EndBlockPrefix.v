(* EndBlockPrefix.v — C17: the first four phases of EndBlocker return normally in every admissible
   reachable state: CompleteRedelegations, CompleteUnbondings, asset initialisation and the take-rate
   deduction (with its transfer to the fee collector).  What is left of EndBlocker after them is the
   weight decay (F-C17-2: Power overflow) and the rebalance (F-C17-3: division by zero; staking contract),
   which do fail in some reachable states.
   Used: C01 (custody >= staked + pending, Custody.v), C03 (totals >= 0, assets well-keyed and valid, never
   the staking denom: TotalFloor.v with floor 0), pending balances >= 0 (PayoutTotal.v), the payout and
   take-rate totality lemmas (PayoutTotal.v, TakeTotal.v). *)
From Coq Require Import ZArith List Bool Lia.
From Alliance Require Import Num NumFacts KMap KMapFacts KMapSorted CoinFacts Types Monad Model Step Spec Hoare.
From Alliance.Proofs Require Import SortedInv WellKeyed Misc Custody PayoutTotal TakeRate TakeTotal Totality.
From Alliance.Proofs Require TotalFloor.
Import ListNotations.
Open Scope Z_scope.

Definition zero (_ : Z) : Z := 0.
Lemma zero_range d : 0 <= zero d <= 1.  Proof. unfold zero; lia. Qed.
Notation J0 := (TotalFloor.J zero).
Notation AV0 := (TotalFloor.AV zero).

(* ---------- the stored asset list, per denom ---------- *)
Lemma kcmp1 d x : kcmp [d] [x] = (d ?= x).
Proof. cbn. destruct (d ?= x); reflexivity. Qed.

Lemma tot_above d (m : KMap Asset) :
  Forall (fun kv => fst kv = [a_denom (snd kv)]) m -> Forall (fun y => klt [d] (fst y)) m -> tot (map snd m) d = 0.
Proof.
  induction m as [|[k a] m IH]; intros Hk Hl; cbn [map tot fold_right]; [reflexivity|].
  inversion Hk as [|? ? Hka Hk']; subst. inversion Hl as [|? ? Hla Hl']; subst. cbn [fst snd] in *.
  fold (tot (map snd m) d). rewrite (IH Hk' Hl'). subst k. unfold klt in Hla. rewrite kcmp1 in Hla.
  destruct (a_denom a =? d) eqn:E; [apply Z.eqb_eq in E; rewrite E in Hla; rewrite Z.compare_refl in Hla; discriminate | reflexivity].
Qed.

Lemma tot_assets d (m : KMap Asset) : ksorted m -> Forall (fun kv => fst kv = [a_denom (snd kv)]) m ->
  tot (map snd m) d = match kget m [d] with Some a => a_tokens a | None => 0 end.
Proof.
  induction m as [|[k a] m IH]; intros Hs Hk; cbn [map tot fold_right kget]; [reflexivity|].
  inversion Hk as [|? ? Hka Hk']; subst. cbn [fst snd] in *. subst k.
  destruct (ksorted_inv _ _ _ Hs) as [Hs' Habove]. fold (tot (map snd m) d). rewrite kcmp1.
  destruct (d ?= a_denom a) eqn:E.
  - apply Z.compare_eq in E. subst d. rewrite Z.eqb_refl. rewrite (tot_above _ m Hk' Habove). lia.
  - assert (En : a_denom a =? d = false). { apply Z.eqb_neq. rewrite Z.compare_lt_iff in E. lia. } rewrite En.
    rewrite (tot_above d m Hk'); [reflexivity|].
    apply Forall_forall. intros y Hy. rewrite Forall_forall in Habove. specialize (Habove y Hy).
    apply (klt_trans _ [a_denom a]); [unfold klt; rewrite kcmp1; exact E | exact Habove].
  - assert (En : a_denom a =? d = false) by (apply Z.eqb_neq; rewrite Z.compare_gt_iff in E; lia). rewrite En.
    rewrite (IH Hs' Hk'). lia.
Qed.

Lemma J0_keys s : J0 s -> Forall (fun kv => fst kv = [a_denom (snd kv)]) (assets s).
Proof. unfold TotalFloor.J, kall. intros H. rewrite Forall_forall in *. intros kv Hin. exact (proj1 (H kv Hin)). Qed.
Lemma J0_vals s : J0 s -> Forall AV0 (map snd (assets s)).
Proof.
  unfold TotalFloor.J, kall. intros H. apply Forall_forall. intros a Hin. apply in_map_iff in Hin.
  destruct Hin as [[k a'] [E Hin]]; cbn in E; subst a'. rewrite Forall_forall in H. exact (proj2 (H (k, a) Hin)).
Qed.
Lemma AV0_AVt a : AV0 a -> AVt a.
Proof.
  intros H. destruct (TotalFloor.AV_elim zero a H) as (H1 & H2 & _ & _ & _ & _ & H3 & _). unfold zero in H3. split; lia.
Qed.

(* ---------- asset initialisation: total, touches neither bank nor clock, keeps totals and rates ---------- *)
Definition same_money (a b : Asset) : Prop := a_denom b = a_denom a /\ a_tokens b = a_tokens a /\ a_take b = a_take a.
Lemma init_loop t : forall als acc s,
  exists out s', mfold als acc (fun acc a =>
      if a_init a || negb (rewards_started a t) then ret (acc ++ [a])
      else let a' := set_a_init true a in set_asset a' ;;; ret (acc ++ [a'])) s = Ok (acc ++ out) s' /\
    bank s' = bank s /\ params s' = params s /\ now s' = now s /\ Forall2 same_money als out.
Proof.
  induction als as [|a als IH]; intros acc s; cbn [mfold].
  - exists [], s. rewrite app_nil_r. repeat split; auto.
  - unfold bind at 1. destruct (a_init a || negb (rewards_started a t)).
    + cbn [ret]. destruct (IH (acc ++ [a]) s) as (out & s' & E & Hb & Hp & Hn & HF).
      exists (a :: out), s'. rewrite <- app_assoc in E. split; [exact E|]. repeat split; auto. constructor; [repeat split | exact HF].
    + cbv zeta. unfold bind at 1, set_asset at 1, modify at 1. cbn [ret].
      match goal with |- context[mfold als ?acc1 _ ?s1] => destruct (IH acc1 s1) as (out & s' & E & Hb & Hp & Hn & HF) end.
      exists (set_a_init true a :: out), s'. rewrite <- app_assoc in E. split; [exact E|]. repeat split; auto. constructor; [repeat split | exact HF].
Qed.

Lemma same_money_tot als out d : Forall2 same_money als out -> tot out d = tot als d.
Proof.
  induction 1 as [|a b als out (H1 & H2 & H3) HF IH]; [reflexivity|]. cbn [tot fold_right]. fold (tot out d). fold (tot als d).
  rewrite IH, H1, H2. reflexivity.
Qed.
Lemma same_money_AVt als out : Forall2 same_money als out -> Forall AVt als -> Forall AVt out.
Proof.
  induction 1 as [|a b als out (H1 & H2 & H3) HF IH]; intros Hav; [constructor|]. inversion Hav; subst.
  constructor; [unfold AVt in *; rewrite H2, H3; assumption | apply IH; assumption].
Qed.
Lemma same_money_denoms als out : Forall2 same_money als out -> map a_denom out = map a_denom als.
Proof. induction 1 as [|a b als out (H1 & _) HF IH]; [reflexivity|]. cbn. rewrite IH, H1. reflexivity. Qed.

(* ---------- the state the take-rate leg needs ---------- *)
(* custody covers the staked total of every stored asset; assets well-keyed, valid, totals >= 0 *)
Definition Staked (s : State) : Prop :=
  SortedS s /\ J0 s /\ forall d a, kget (assets s) [d] = Some a -> a_tokens a <= bal s ACC_ALLIANCE d.

Theorem asset_phases_total s :
  Staked s -> 0 < p_interval (params s) ->
  (p_last (params s) = ZERO_TIME \/ 0 <= now s - p_last (params s) < 2 ^ 69) ->
  exists r s', (als <- all_assets ;; als1 <- initialize_assets als ;; deduct_assets_hook als1) s = Ok r s'.
Proof.
  intros (Hs & Hj & Hcov) Hiv Htime. unfold all_assets, bind at 1, gets at 1.
  set (als := map snd (assets s)). unfold initialize_assets. unfold bind at 1, gets at 1. unfold bind at 1.
  destruct (init_loop (now s) als [] s) as (out & s1 & E & Hb & Hp & Hn & HF). cbn [app] in E.
  match goal with |- context[match ?m with Ok _ _ => _ | Err _ _ => _ | Panic _ _ => _ end] =>
    replace m with (Ok out s1) by (symmetry; exact E) end.
  unfold deduct_assets_hook. unfold bind at 1, gets at 1. unfold bind at 1, gets at 1.
  destruct (p_last (params s1) + p_interval (params s1) <? now s1) eqn:Edue; [|cbn; eauto].
  apply deduct_take_rate_total.
  - rewrite Hb. unfold SortedS in Hs. tauto.
  - apply (same_money_AVt als out HF). apply Forall_forall. intros a Hin.
    apply AV0_AVt. pose proof (J0_vals s Hj) as Hv. rewrite Forall_forall in Hv. exact (Hv a Hin).
  - intros d Hd. rewrite (same_money_denoms _ _ HF) in Hd. rewrite (same_money_tot _ _ d HF).
    unfold als. rewrite (tot_assets d (assets s)); [|unfold SortedS in Hs; tauto | apply J0_keys; exact Hj].
    unfold bal. rewrite Hb. fold (bal s ACC_ALLIANCE d).
    destruct (kget (assets s) [d]) as [a|] eqn:Ea; [exact (Hcov d a Ea)|].
    (* d is the denom of a stored asset, so the asset is there *)
    exfalso. unfold als in Hd. apply in_map_iff in Hd. destruct Hd as (a & Hda & Hin). apply in_map_iff in Hin.
    destruct Hin as ([k a'] & Eq & Hin). cbn in Eq; subst a'.
    pose proof (J0_keys s Hj) as Hk. rewrite Forall_forall in Hk. specialize (Hk _ Hin). cbn in Hk. subst k d.
    assert (Hg : kget (assets s) [a_denom a] <> None).
    { clear -Hin Hs. assert (Hsa : ksorted (assets s)) by (unfold SortedS in Hs; tauto). revert Hsa Hin.
      generalize (assets s) as m. induction m as [|[k' v'] m IH]; intros Hsm Hin; [contradiction|].
      destruct (ksorted_inv _ _ _ Hsm) as [Hsm' Hab]. cbn [kget]. destruct Hin as [Eq|Hin].
      - inversion Eq; subst. rewrite kcmp_refl. discriminate.
      - rewrite Forall_forall in Hab. specialize (Hab _ Hin). cbn in Hab. unfold klt in Hab.
        rewrite (kcmp_lt_gt _ _ Hab). apply IH; assumption. }
    contradiction.
  - rewrite Hp. exact Hiv.
  - rewrite Hp, Hn. exact Htime.
Qed.

(* ---------- through the two queue phases ---------- *)
Lemma inv_conj (A B : State -> Prop) X (m : M X) : inv A m -> inv B m -> inv (fun s => A s /\ B s) m.
Proof. intros Ha Hb s [H1 H2]. specialize (Ha s H1). specialize (Hb s H2). destruct (m s); auto. Qed.

Section D.
  Variable d : Z.
  Definition Rest (c : Z) (s : State) : Prop := WK s /\ ON s /\ c <= sl d s.
  Definition rest_proj (s : State) := (assets s, oracle s, bank s, undelq s).
  Lemma Rest_f c : forall s s', rest_proj s' = rest_proj s -> Rest c s -> Rest c s'.
  Proof.
    intros s s' E H. unfold rest_proj in E. inversion E as [[E1 E2 E3 E4]].
    unfold Rest, WK, ON, sl, B, T, U, staked_total, bal in *. rewrite E1, E2, E3, E4. exact H.
  Qed.
  Lemma JC_split c s : JC d c s <-> SortedS s /\ Rest c s.
  Proof. unfold JC, Inv, Rest. tauto. Qed.
  Lemma jc_complete_redelegations c : inv (JC d c) complete_redelegations.
  Proof.
    assert (H1 : inv SortedS complete_redelegations) by srt.
    assert (H2 : inv (Rest c) complete_redelegations) by (inv_deep (Rest_f c)).
    intros s Hs. apply JC_split in Hs. pose proof (inv_conj _ _ _ _ H1 H2 s Hs) as H.
    destruct (complete_redelegations s); apply JC_split; exact H.
  Qed.
End D.

Definition Pre3 (s : State) : Prop := (forall d, d <> BOND_DENOM -> JC d 0 s) /\ ENB s /\ J0 s.
Definition clock (s : State) := (params s, now s).
Lemma clock_f p0 : forall s s', clock s' = clock s -> clock s = p0 -> clock s' = p0.
Proof. intros s s' E H. rewrite E. exact H. Qed.

Lemma pre3_complete_redelegations p0 :
  hoare (fun s => Pre3 s /\ clock s = p0) complete_redelegations (fun _ s => Pre3 s /\ clock s = p0) (fun _ => False).
Proof.
  intros s [(Hjc & Hen & Hj) Hc].
  assert (H2 : inv ENB complete_redelegations) by (inv_deep (EN_f notbond)).
  assert (H4 : inv (fun s => clock s = p0) complete_redelegations) by (inv_deep (clock_f p0)).
  pose proof (TotalFloor.inv_complete_redelegations zero s Hj) as H3.
  pose proof (complete_redelegations_total s I) as H5. specialize (H2 s Hen). specialize (H4 s Hc).
  assert (H1 : forall d, d <> BOND_DENOM -> match complete_redelegations s with Ok _ s' | Err _ s' | Panic _ s' => JC d 0 s' end).
  { intros d Hd. exact (jc_complete_redelegations d 0 s (Hjc d Hd)). }
  destruct (complete_redelegations s); try contradiction. split; [split; [exact H1 | split; [exact H2 | exact H3]] | exact H4].
Qed.

Lemma pre3_cover s : Pre3 s -> ksorted (bank s) /\ Cover s.
Proof.
  intros (Hjc & Hen & Hj). split.
  - assert (Hd : BOND_DENOM + 1 <> BOND_DENOM) by lia. destruct (Hjc _ Hd) as [[Hs _] _]. unfold SortedS in Hs. tauto.
  - intros d Hd. destruct (Hjc d Hd) as [_ Hsl]. rewrite sl_is_slack in Hsl.
    pose proof (TotalFloor.J_floor zero s d) as Hfl. unfold slack, owed, custody, staked_total in Hsl.
    destruct (kget (assets s) [d]) as [a|] eqn:Ea; [specialize (Hfl a Hj eq_refl); unfold zero in Hfl; lia | lia].
Qed.

Lemma pre3_complete_unbondings p0 :
  hoare (fun s => Pre3 s /\ clock s = p0) complete_unbondings (fun _ s => Pre3 s /\ clock s = p0) (fun _ => False).
Proof.
  intros s [Hp Hc]. pose proof Hp as (Hjc & Hen & Hj). destruct (pre3_cover s Hp) as [Hb Hcov].
  pose proof (complete_unbondings_total s (conj Hb (conj Hen Hcov))) as Htot.
  assert (H2 : inv ENB complete_unbondings).
  { unfold complete_unbondings. inv_deep_with (EN_f notbond) ltac:(idtac; apply en_kdel_modify). }
  assert (H4 : inv (fun s => clock s = p0) complete_unbondings) by (inv_deep (clock_f p0)).
  pose proof (TotalFloor.inv_complete_unbondings zero s Hj) as H3. specialize (H2 s Hen). specialize (H4 s Hc).
  assert (H1 : forall d, d <> BOND_DENOM -> match complete_unbondings s with Ok _ s' => JC d 0 s' | _ => True end).
  { intros d Hd. exact (jc_complete_unbondings d Hd 0 s (Hjc d Hd)). }
  destruct (complete_unbondings s); try contradiction. split; [split; [exact H1 | split; [exact H2 | exact H3]] | exact H4].
Qed.

Lemma pre3_staked s : Pre3 s -> Staked s.
Proof.
  intros Hp. pose proof Hp as (Hjc & Hen & Hj). split; [|split; [exact Hj|]].
  - assert (Hd : BOND_DENOM + 1 <> BOND_DENOM) by lia. destruct (Hjc _ Hd) as [[Hs _] _]. exact Hs.
  - intros d a Ea. pose proof (TotalFloor.J_not_bond zero s d a Hj Ea) as Hd.
    destruct (Hjc d Hd) as [_ Hsl]. rewrite sl_is_slack in Hsl. unfold slack, owed, custody, staked_total in Hsl. rewrite Ea in Hsl.
    assert (0 <= unbonding_sum s d); [|lia].
    rewrite <- need_is_unbonding_sum. apply need_nonneg. exact Hen.
Qed.

(* the first four phases of EndBlocker, as a program *)
Definition end_block_prefix : M (list Asset) :=
  complete_redelegations ;;; complete_unbondings ;;;
  als <- all_assets ;; als1 <- initialize_assets als ;; deduct_assets_hook als1.

(* EndBlocker is this prefix followed by the weight decay and the rebalance *)
Lemma end_blocker_factors s :
  end_blocker s = (als2 <- end_block_prefix ;; als3 <- reward_weight_change_hook als2 ;; rebalance_hook als3) s.
Proof.
  unfold end_blocker, end_block_prefix, bind.
  destruct (complete_redelegations s) as [? s1|? ?|? ?]; [|reflexivity|reflexivity].
  destruct (complete_unbondings s1) as [? s2|? ?|? ?]; [|reflexivity|reflexivity].
  destruct (all_assets s2) as [als s3|? ?|? ?]; [|reflexivity|reflexivity].
  destruct (initialize_assets als s3) as [als1 s4|? ?|? ?]; [|reflexivity|reflexivity].
  destruct (deduct_assets_hook als1 s4) as [als2 s5|? ?|? ?]; reflexivity.
Qed.

Theorem prefix_total s :
  Pre3 s -> 0 < p_interval (params s) ->
  (p_last (params s) = ZERO_TIME \/ 0 <= now s - p_last (params s) < 2 ^ 69) ->
  exists r s', end_block_prefix s = Ok r s'.
Proof.
  intros Hp Hiv Htime. unfold end_block_prefix.
  pose proof (pre3_complete_redelegations (clock s) s (conj Hp eq_refl)) as H1. unfold bind at 1.
  destruct (complete_redelegations s) as [[] s1|? ?|? ?]; try contradiction. destruct H1 as [Hp1 Hc1].
  pose proof (pre3_complete_unbondings (clock s) s1 (conj Hp1 Hc1)) as H2. unfold bind at 1.
  destruct (complete_unbondings s1) as [[] s2|? ?|? ?]; try contradiction. destruct H2 as [Hp2 Hc2].
  unfold clock in Hc2. inversion Hc2 as [[Hpar Hnow]].
  apply asset_phases_total; [apply pre3_staked; exact Hp2 | rewrite Hpar; exact Hiv | rewrite Hpar, Hnow; exact Htime].
Qed.

(* Genesis.v — C18: exporting and re-importing the module state.
   [wf_genesis s]: every redelegation record sits under the key made of its own fields
   and every unbonding bucket is non-empty and sits under its first entry's delegator
   (what InitGenesis uses to rebuild the keys).  Under it a second export is identical to
   the first: export (reimport s) = export s. *)
From Coq Require Import ZArith List Bool Lia.
From Alliance Require Import Num KMap KMapFacts KMapSorted Types Monad Model Step Queries Spec Hoare.
From Alliance.Proofs Require Import SortedInv.
Import ListNotations.
Open Scope Z_scope.

Definition redel_key_ok (k : Key) (r : Redel) : Prop := exists ct, k = [r_del r; r_denom r; r_dst r; ct].
Definition undel_key_ok (k : Key) (l : list Undel) : Prop := exists ct e l', l = e :: l' /\ k = [ct; u_del e].
Definition wf_genesis (s : State) : Prop :=
  ksorted (redels s) /\ ksorted (undelq s) /\ kall redel_key_ok (redels s) /\ kall undel_key_ok (undelq s).

(* inserting the bindings of a sorted map, in order, into the empty map rebuilds it *)
Lemma kset_append {V} (m : KMap V) k x : ksorted m -> Forall (fun y => klt (fst y) k) m -> kset m k x = m ++ [(k, x)].
Proof.
  intros Hs Hlt; induction m as [|[k0 x0] m IH]; cbn; [reflexivity|].
  inversion Hlt as [|? ? H0 Hm]; subst. cbn in H0. rewrite (kcmp_lt_gt _ _ H0).
  apply ksorted_inv in Hs. destruct Hs as [Hs _]. rewrite IH by assumption. reflexivity.
Qed.

Lemma sorted_prefix_lt {V} (p : KMap V) kv (r : KMap V) : ksorted (p ++ kv :: r) -> Forall (fun y => klt (fst y) (fst kv)) p.
Proof.
  induction p as [|a p IH]; intros H; [constructor|]. cbn in H. apply ksorted_inv' in H. destruct H as [H Hall].
  constructor; [|apply IH; exact H]. rewrite Forall_forall in Hall. apply Hall. apply in_or_app. right. left. reflexivity.
Qed.
Lemma sorted_prefix {V} (p r : KMap V) : ksorted (p ++ r) -> ksorted p.
Proof.
  induction p as [|a p IH]; intros H; [constructor|]. cbn in H. apply ksorted_inv' in H. destruct H as [H Hall].
  constructor; [apply IH; exact H|]. rewrite Forall_forall in *. intros y Hy. apply Hall. apply in_or_app. left; exact Hy.
Qed.

(* ---------- redelegation records ---------- *)
Lemma redels_import_redel st (k : Key) r ct : k = [r_del r; r_denom r; r_dst r; ct] -> kget (redels st) k = None ->
  redels (import_redel st (k, r)) = kset (redels st) k r.
Proof.
  intros -> Hn. unfold import_redel. cbn [fst snd]. unfold add_redelegation, queue_redelegation, bind, modify, ok_or. cbn.
  rewrite Hn. destruct r; reflexivity.
Qed.
Lemma import_redel_frame st kr : undelq (import_redel st kr) = undelq st /\ undelidx (import_redel st kr) = undelidx st
  /\ params (import_redel st kr) = params st /\ assets (import_redel st kr) = assets st /\ valinfos (import_redel st kr) = valinfos st
  /\ delegations (import_redel st kr) = delegations st /\ snapshots (import_redel st kr) = snapshots st.
Proof.
  unfold import_redel. destruct (fst kr) as [|a [|b [|c [|d [|]]]]]; try (repeat split; reflexivity).
Qed.

Lemma fold_import_redel : forall (rest p : KMap Redel) st,
  ksorted (p ++ rest) -> kall redel_key_ok rest -> redels st = p ->
  redels (fold_left import_redel rest st) = p ++ rest.
Proof.
  induction rest as [|[k r] rest IH]; intros p st Hs Hok Hp; cbn [fold_left]; [rewrite app_nil_r; exact Hp|].
  unfold kall in Hok. apply Forall_cons_iff in Hok. destruct Hok as [(ct & Hk) Hok']. cbn [fst snd] in Hk.
  replace (p ++ (k, r) :: rest) with ((p ++ [(k, r)]) ++ rest) by (rewrite <- app_assoc; reflexivity).
  apply IH; [rewrite <- app_assoc; exact Hs | exact Hok'|].
  pose proof (sorted_prefix_lt p (k, r) rest Hs) as Hlt. cbn [fst] in Hlt.
  rewrite (redels_import_redel st k r ct Hk); rewrite Hp.
  - apply kset_append; [apply (sorted_prefix p ((k, r) :: rest) Hs) | exact Hlt].
  - clear - Hlt. induction p as [|[k0 x0] m IHm]; [reflexivity|]. inversion Hlt as [|? ? H0 Hm]; subst. cbn in H0. cbn [kget].
    rewrite (kcmp_lt_gt _ _ H0). apply IHm; exact Hm.
Qed.

(* ---------- unbonding buckets ---------- *)
Lemma fold_idx_frame ct del : forall us st1,
  undelq (fold_left (fun st u => set_undelidx (kset (undelidx st) [u_val u; ct; u_denom u; del] tt) st) us st1) = undelq st1 /\
  redels (fold_left (fun st u => set_undelidx (kset (undelidx st) [u_val u; ct; u_denom u; del] tt) st) us st1) = redels st1 /\
  params (fold_left (fun st u => set_undelidx (kset (undelidx st) [u_val u; ct; u_denom u; del] tt) st) us st1) = params st1 /\
  assets (fold_left (fun st u => set_undelidx (kset (undelidx st) [u_val u; ct; u_denom u; del] tt) st) us st1) = assets st1 /\
  valinfos (fold_left (fun st u => set_undelidx (kset (undelidx st) [u_val u; ct; u_denom u; del] tt) st) us st1) = valinfos st1 /\
  delegations (fold_left (fun st u => set_undelidx (kset (undelidx st) [u_val u; ct; u_denom u; del] tt) st) us st1) = delegations st1 /\
  snapshots (fold_left (fun st u => set_undelidx (kset (undelidx st) [u_val u; ct; u_denom u; del] tt) st) us st1) = snapshots st1.
Proof.
  induction us as [|u us IH]; intros st1; cbn [fold_left]; [repeat split; reflexivity|].
  destruct (IH (set_undelidx (kset (undelidx st1) [u_val u; ct; u_denom u; del] tt) st1)) as (H1 & H2 & H3 & H4 & H5 & H6 & H7).
  rewrite H1, H2, H3, H4, H5, H6, H7. repeat split; reflexivity.
Qed.

Lemma undelq_import_undel st (k : Key) l ct e l' : l = e :: l' -> k = [ct; u_del e] ->
  undelq (import_undel st (k, l)) = kset (undelq st) k l.
Proof.
  intros -> ->. unfold import_undel. cbn [fst snd].
  destruct (fold_idx_frame ct (u_del e) (e :: l') (set_undelq (kset (undelq st) [ct; u_del e] (e :: l')) st)) as (H & _).
  rewrite H. reflexivity.
Qed.
Lemma import_undel_frame st kb : redels (import_undel st kb) = redels st
  /\ params (import_undel st kb) = params st /\ assets (import_undel st kb) = assets st /\ valinfos (import_undel st kb) = valinfos st
  /\ delegations (import_undel st kb) = delegations st /\ snapshots (import_undel st kb) = snapshots st.
Proof.
  unfold import_undel. destruct (fst kb) as [|ct [|dl [|]]]; try (repeat split; reflexivity).
  destruct (snd kb) as [|e0 l0]; [repeat split; reflexivity|].
  destruct (fold_idx_frame ct (u_del e0) (e0 :: l0) (set_undelq (kset (undelq st) [ct; u_del e0] (e0 :: l0)) st)) as (_ & H2 & H3 & H4 & H5 & H6 & H7).
  rewrite H2, H3, H4, H5, H6, H7. repeat split; reflexivity.
Qed.

Lemma fold_import_undel : forall (rest p : KMap (list Undel)) st,
  ksorted (p ++ rest) -> kall undel_key_ok rest -> undelq st = p ->
  undelq (fold_left import_undel rest st) = p ++ rest.
Proof.
  induction rest as [|[k l] rest IH]; intros p st Hs Hok Hp; cbn [fold_left]; [rewrite app_nil_r; exact Hp|].
  unfold kall in Hok. apply Forall_cons_iff in Hok. destruct Hok as [(ct & e & l' & Hl & Hk) Hok']. cbn [fst snd] in Hl, Hk.
  replace (p ++ (k, l) :: rest) with ((p ++ [(k, l)]) ++ rest) by (rewrite <- app_assoc; reflexivity).
  apply IH; [rewrite <- app_assoc; exact Hs | exact Hok'|].
  pose proof (sorted_prefix_lt p (k, l) rest Hs) as Hlt. cbn [fst] in Hlt.
  rewrite (undelq_import_undel st k l ct e l' Hl Hk), Hp.
  apply kset_append; [apply (sorted_prefix p ((k, l) :: rest) Hs) | exact Hlt].
Qed.

Lemma fold_frames_redel : forall rest st,
  undelq (fold_left import_redel rest st) = undelq st /\ params (fold_left import_redel rest st) = params st /\
  assets (fold_left import_redel rest st) = assets st /\ valinfos (fold_left import_redel rest st) = valinfos st /\
  delegations (fold_left import_redel rest st) = delegations st /\ snapshots (fold_left import_redel rest st) = snapshots st.
Proof.
  induction rest as [|kr rest IH]; intros st; cbn [fold_left]; [repeat split; reflexivity|].
  destruct (IH (import_redel st kr)) as (H1 & H2 & H3 & H4 & H5 & H6). destruct (import_redel_frame st kr) as (F1 & _ & F3 & F4 & F5 & F6 & F7).
  rewrite H1, H2, H3, H4, H5, H6, F1, F3, F4, F5, F6, F7. repeat split; reflexivity.
Qed.
Lemma fold_frames_undel : forall rest st,
  redels (fold_left import_undel rest st) = redels st /\ params (fold_left import_undel rest st) = params st /\
  assets (fold_left import_undel rest st) = assets st /\ valinfos (fold_left import_undel rest st) = valinfos st /\
  delegations (fold_left import_undel rest st) = delegations st /\ snapshots (fold_left import_undel rest st) = snapshots st.
Proof.
  induction rest as [|kb rest IH]; intros st; cbn [fold_left]; [repeat split; reflexivity|].
  destruct (IH (import_undel st kb)) as (H1 & H2 & H3 & H4 & H5 & H6). destruct (import_undel_frame st kb) as (F1 & F2 & F3 & F4 & F5 & F6).
  rewrite H1, H2, H3, H4, H5, H6, F1, F2, F3, F4, F5, F6. repeat split; reflexivity.
Qed.

(* C18: a second export is identical to the first *)
Theorem second_export_is_identical s : wf_genesis s -> export_genesis (reimport s) = export_genesis s.
Proof.
  intros (Hr & Hu & Hrk & Huk). unfold reimport, import_genesis, export_genesis. cbn [g_params g_assets g_valinfos g_delegations g_redels g_undels g_snapshots].
  set (base := set_snapshots _ _).
  set (s1 := fold_left import_redel (redels s) base).
  destruct (fold_frames_undel (undelq s) s1) as (U1 & U2 & U3 & U4 & U5 & U6).
  destruct (fold_frames_redel (redels s) base) as (R1 & R2 & R3 & R4 & R5 & R6). fold s1 in R1, R2, R3, R4, R5, R6.
  assert (Er : redels s1 = redels s) by (apply (fold_import_redel (redels s) [] base); [exact Hr | exact Hrk | reflexivity]).
  assert (Eu : undelq (fold_left import_undel (undelq s) s1) = undelq s).
  { apply (fold_import_undel (undelq s) [] s1); [exact Hu | exact Huk|]. rewrite R1. reflexivity. }
  rewrite U1, U2, U3, U4, U5, U6, Eu, Er, R2, R3, R4, R5, R6. reflexivity.
Qed.

(* the rebalance flag is not part of the genesis: re-importing a state in which a rebalance is queued loses it
   (known finding F-C18-2) *)
Theorem flag_is_not_exported s : flag (reimport s) = false.
Proof.
  unfold reimport, import_genesis. cbn [g_redels g_undels export_genesis].
  assert (Hr : forall rest st, flag (fold_left import_redel rest st) = flag st).
  { induction rest as [|kr rest IH]; intros st; cbn [fold_left]; [reflexivity|]. rewrite IH. unfold import_redel.
    destruct (fst kr) as [|a [|b [|c [|d [|]]]]]; reflexivity. }
  assert (Hi : forall ct del us st1, flag (fold_left (fun st u => set_undelidx (kset (undelidx st) [u_val u; ct; u_denom u; del] tt) st) us st1) = flag st1).
  { intros ct del. induction us as [|u us IH]; intros st1; cbn [fold_left]; [reflexivity | rewrite IH; reflexivity]. }
  assert (Hu : forall rest st, flag (fold_left import_undel rest st) = flag st).
  { induction rest as [|kb rest IH]; intros st; cbn [fold_left]; [reflexivity|]. rewrite IH. unfold import_undel.
    destruct (fst kb) as [|ct [|dl [|]]]; try reflexivity. destruct (snd kb); [reflexivity|]. rewrite Hi. reflexivity. }
  rewrite Hu, Hr. reflexivity.
Qed.

(* FailureModes.v — C05: every way a user message can fail, as the exhaustive list of error and
   panic codes its paths can end with (error-code analysis of the whole call tree, all states).
   A code outside the list cannot occur; each code in the list is either a refusal the caller asked
   for (unknown asset / validator, no position, non-positive amount, more than the position holds,
   onward hop) or one of the listed liveness findings (pool short: E_INSUFFICIENT_FUNDS; zero-value
   validator: P_DIV_ZERO; negative coin: P_NEG_COIN). *)
From Coq Require Import ZArith List Bool Lia.
From Alliance Require Import Num KMap Types Monad Model Step Spec Hoare.
Import ListNotations.
Open Scope Z_scope.

Ltac in_list := cbn [In]; repeat first [ left; reflexivity | right ].

Definition claim_codes : list Z :=
  [E_NO_VALIDATOR; E_UNKNOWN_ASSET; E_NO_DELEGATION; E_ORACLE; E_INSUFFICIENT_FUNDS; P_DIV_ZERO; P_NEG_COIN].
Theorem claim_failure_modes del v dn : raises (fun e => In e claim_codes) (msg_claim del v dn).
Proof. unfold claim_codes. raises_deep in_list. Qed.

Definition delegate_codes : list Z :=
  [E_INVALID_ARG; E_NO_VALIDATOR; E_UNKNOWN_ASSET; E_NO_DELEGATION; E_ORACLE; E_INSUFFICIENT_FUNDS; P_DIV_ZERO; P_NEG_COIN].
Theorem delegate_failure_modes del v dn amt : raises (fun e => In e delegate_codes) (msg_delegate del v dn amt).
Proof. unfold delegate_codes. raises_deep in_list. Qed.

Definition undelegate_codes : list Z :=
  [E_INVALID_ARG; E_NO_VALIDATOR; E_UNKNOWN_ASSET; E_NO_DELEGATION; E_ORACLE; E_INSUFFICIENT_FUNDS;
   E_INSUFFICIENT_SHARES; E_INSUFFICIENT_TOKENS; P_DIV_ZERO; P_NEG_COIN].
Theorem undelegate_failure_modes del v dn amt : raises (fun e => In e undelegate_codes) (msg_undelegate del v dn amt).
Proof. unfold undelegate_codes. raises_deep in_list. Qed.

Definition redelegate_codes : list Z :=
  [E_INVALID_ARG; E_NO_VALIDATOR; E_SAME_VALIDATOR; E_UNKNOWN_ASSET; E_NO_DELEGATION; E_ORACLE; E_INSUFFICIENT_FUNDS;
   E_INSUFFICIENT_SHARES; E_INSUFFICIENT_TOKENS; E_TRANSITIVE; P_DIV_ZERO; P_NEG_COIN].
Theorem redelegate_failure_modes del src dst dn amt : raises (fun e => In e redelegate_codes) (msg_redelegate del src dst dn amt).
Proof. unfold redelegate_codes. raises_deep in_list. Qed.

(* C08: the slash callback *)
Definition slash_codes : list Z :=
  [E_BAD_FRACTION; E_NO_VALIDATOR; E_UNKNOWN_ASSET; E_MISSING_RECORD; E_NO_DELEGATION; E_ORACLE; E_INSUFFICIENT_FUNDS;
   P_DIV_ZERO; P_NEG_COIN].
Theorem slash_failure_modes v f : raises (fun e => In e slash_codes) (hook_slash v f).
Proof. unfold slash_codes. raises_deep in_list. Qed.

(* C17: end of block *)
Definition end_block_codes : list Z :=
  [E_NO_VALIDATOR; E_UNKNOWN_ASSET; E_ORACLE; E_INSUFFICIENT_FUNDS; E_WEIGHT_OOB; E_STAKING;
   P_DIV_ZERO; P_NEG_COIN; P_OVERFLOW; P_STAKING; P_DIV_ZERO_INTERVAL].
Theorem end_block_failure_modes : raises (fun e => In e end_block_codes) end_blocker.
Proof. unfold end_block_codes. raises_deep in_list. Qed.

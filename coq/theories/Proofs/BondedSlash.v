(* BondedSlash.v — C06: what the slash callback does to validator shares.
   SlashValidator removes from the slashed validator's validator shares, in every asset,
   exactly the fraction f (the 18-digit product the code computes), takes the same amount off
   the asset's total validator shares, and nothing else in the callback (the slash of pending
   redelegations and unbondings, the reward settlement they trigger) touches any validator
   share.  The value of a position on w in an asset is
       T * (s_w / S) * (shares / delegator shares of w)
   so with S' = S - f*s_v a position on v is scaled by (1-f)*S/S' and every other position
   of the asset by g = S/S' >= 1 while the staked total T is unchanged (C06_staked_totals_untouched). *)
From Coq Require Import ZArith List Bool Lia.
From Alliance Require Import Num KMap KMapFacts KMapSorted CoinFacts Types Monad Model Step Spec Hoare.
From Alliance.Proofs Require Import SortedInv WellKeyed ShareLedger.
Import ListNotations.
Open Scope Z_scope.

(* ---------- the frame: validator shares of every record, as a function ---------- *)
Definition VS (X : Z -> Coins) (s : State) : Prop :=
  ksorted (valinfos s) /\ forall w, vi_vshares (vinfo_or_empty s w) = X w.
Lemma VS_f X : forall s s', valinfos s' = valinfos s -> VS X s -> VS X s'.
Proof. unfold VS, vinfo_or_empty. intros s s' E H. rewrite E. exact H. Qed.

Lemma vs_write X w vi s : VS X s -> vi_vshares vi = X w -> VS X (set_valinfos (kset (valinfos s) [w] vi) s).
Proof.
  intros [Hs HX] Hv. split; cbn [valinfos set_valinfos]; [apply ksorted_kset; exact Hs|].
  intros w'. unfold vinfo_or_empty. cbn [valinfos set_valinfos].
  destruct (Z.eq_dec w' w) as [->|Hne].
  - rewrite kget_kset_same. exact Hv.
  - rewrite kget_kset_other by (auto; congruence). apply HX.
Qed.
Lemma vs_set_valinfo X w vi : vi_vshares vi = X w -> inv (VS X) (set_valinfo w vi).
Proof. intros Hv. unfold set_valinfo. apply inv_modify. intros s Hs. apply vs_write; assumption. Qed.

Lemma inv_bind_with A B (J : State -> Prop) (P : A -> Prop) (m : M A) (k : A -> M B) :
  hoare J m (fun r s => J s /\ P r) J -> (forall r, P r -> inv J (k r)) -> inv J (bind m k).
Proof.
  intros Hm Hk s Hs. unfold bind. specialize (Hm s Hs). destruct (m s) as [a s'|e s'|e s']; auto.
  destruct Hm as [Hs' Ha]. exact (Hk a Ha s' Hs').
Qed.
Lemma hoare_bind_with A B (J : State -> Prop) (P : A -> Prop) (Q : B -> Prop) (m : M A) (k : A -> M B) :
  hoare J m (fun r s => J s /\ P r) J -> (forall r, P r -> hoare J (k r) (fun r s => J s /\ Q r) J) ->
  hoare J (bind m k) (fun r s => J s /\ Q r) J.
Proof.
  intros Hm Hk s Hs. unfold bind. specialize (Hm s Hs). destruct (m s) as [a s'|e s'|e s']; auto.
  destruct Hm as [Hs' Ha]. exact (Hk a Ha s' Hs').
Qed.

Ltac vsframe X := inv_deep (VS_f X).

Lemma vs_get_alliance_validator X w :
  hoare (VS X) (get_alliance_validator w) (fun r s => VS X s /\ vi_vshares (snd r) = X w) (VS X).
Proof.
  unfold get_alliance_validator.
  apply hoare_bind_inv; [apply inv_gets|]. intros osv. destruct osv as [sv|]; [|apply hoare_fail; auto].
  intros s Hs. unfold bind, gets. destruct (kget (valinfos s) [w]) as [vi|] eqn:E.
  - cbn. split; [exact Hs|]. destruct Hs as [_ HX]. rewrite <- (HX w). unfold vinfo_or_empty. rewrite E. reflexivity.
  - cbn. assert (Hw : X w = []). { destruct Hs as [_ HX]. rewrite <- (HX w). unfold vinfo_or_empty. rewrite E. reflexivity. }
    split; [|symmetry; exact Hw]. apply vs_write; [exact Hs | symmetry; exact Hw].
Qed.

Lemma vs_add_assets X w vi coins : vi_vshares vi = X w ->
  hoare (VS X) (add_assets_to_reward_pool w vi coins) (fun r s => VS X s /\ vi_vshares r = X w) (VS X).
Proof.
  intros Hv. unfold add_assets_to_reward_pool.
  destruct (length (vi_dshares vi) =? 0)%nat; [apply hoare_ret; auto|].
  apply hoare_bind_inv; [vsframe X|]. intros als.
  apply hoare_bind_inv; [apply inv_gets|]. intros t.
  apply hoare_bind_inv.
  { apply inv_mfold. intros hist a. destruct (_ =? 0); [apply inv_panic|].
    apply inv_mfold. intros h c. destruct (rh_find _ _ _); apply inv_ret. }
  intros hist.
  apply hoare_bind_inv; [apply vs_set_valinfo; exact Hv|]. intros _.
  apply hoare_bind_inv; [vsframe X|]. intros _.
  apply hoare_ret. intros s Hs; split; [exact Hs | exact Hv].
Qed.

Lemma vs_claim_validator_rewards X w vi : vi_vshares vi = X w ->
  hoare (VS X) (claim_validator_rewards w vi) (fun r s => VS X s /\ vi_vshares r = X w) (VS X).
Proof.
  intros Hv. unfold claim_validator_rewards.
  apply hoare_bind_inv; [apply inv_gets|]. intros od. destruct od; [|apply hoare_ret; auto].
  apply hoare_bind_inv; [vsframe X|]. intros coins.
  destruct (cis_zero coins); [apply hoare_ret; auto | apply vs_add_assets; exact Hv].
Qed.

Lemma vs_claim_delegation_rewards X del w vi dn : vi_vshares vi = X w ->
  hoare (VS X) (claim_delegation_rewards del w vi dn) (fun r s => VS X s /\ vi_vshares r = X w) (VS X).
Proof.
  intros Hv. unfold claim_delegation_rewards.
  apply hoare_bind_inv; [vsframe X|]. intros oa. destruct oa as [a|]; [|apply hoare_fail; auto].
  apply hoare_bind_inv; [apply inv_gets|]. intros t.
  destruct (negb (rewards_started a t)); [apply hoare_ret; auto|].
  apply hoare_bind_inv; [vsframe X|]. intros od. destruct od as [d|]; [|apply hoare_fail; auto].
  eapply hoare_bind_with; [apply vs_claim_validator_rewards; exact Hv|]. intros vi' Hv'.
  apply hoare_bind_inv; [apply inv_gets|]. intros s0.
  destruct (calculate_delegation_rewards s0 w d vi' a) as [coins idx].
  apply hoare_bind_inv; [apply inv_gets|]. intros h.
  apply hoare_bind_inv; [vsframe X|]. intros _.
  apply hoare_bind_inv; [destruct (cany_neg coins); [apply inv_panic | apply inv_ret]|]. intros _.
  apply hoare_bind_inv; [vsframe X|]. intros _.
  apply hoare_ret. intros s Hs; split; [exact Hs | exact Hv'].
Qed.

Lemma vs_slash_undelegations X v f : inv (VS X) (slash_undelegations v f).
Proof. vsframe X. Qed.

Lemma vs_slash_redelegations X v f : inv (VS X) (slash_redelegations v f).
Proof.
  unfold slash_redelegations.
  apply inv_bind; [apply inv_gets|]. intros idx.
  apply inv_bind; [apply inv_gets|]. intros t.
  apply inv_mfor. intros ku.
  destruct (fst ku) as [|k0 [|ct [|denom [|dst [|del [|? ?]]]]]];
    try (lazymatch goal with |- inv _ (fail _) => apply inv_fail end).
  destruct (ct <? t); cbv iota; [apply inv_ret|].
  apply inv_bind; [apply inv_gets|]. intros orec. destruct orec as [r|]; [|apply inv_fail].
  eapply inv_bind_with; [apply vs_get_alliance_validator|]. intros [sv dvi] Hd. cbn [snd] in Hd.
  apply inv_bind; [vsframe X|]. intros od0. destruct od0 as [d0|]; [|apply inv_ret].
  eapply inv_bind_with; [apply vs_claim_delegation_rewards; exact Hd|]. intros dvi1 Hd1.
  apply inv_bind; [vsframe X|]. intros od. destruct od as [d|]; [|apply inv_ret].
  apply inv_bind; [vsframe X|]. intros oa. destruct oa as [a|]; [|apply inv_ret].
  apply inv_bind.
  { destruct (_ <=? _); cbv iota; [apply inv_ret|]. apply inv_bind; [apply inv_opt_or_panic | intros ?; apply inv_ret]. }
  intros sh.
  apply inv_bind; [destruct (sh <? 0); cbv iota; [apply inv_panic | apply inv_ret]|]. intros _.
  apply inv_bind; [destruct (cany_neg _); cbv iota; [apply inv_panic | apply inv_ret]|]. intros _.
  apply inv_bind; [apply vs_set_valinfo; exact Hd1|]. intros _.
  vsframe X.
Qed.

(* ---------- the frame: the asset records ---------- *)
Definition AF (A0 : KMap Asset) (s : State) : Prop := assets s = A0.
Lemma AF_f A0 : forall s s', assets s' = assets s -> AF A0 s -> AF A0 s'.
Proof. unfold AF; intros s s' E H; rewrite E; exact H. Qed.
Lemma af_slash_redelegations A0 v f : inv (AF A0) (slash_redelegations v f).
Proof. inv_deep (AF_f A0). Qed.
Lemma af_slash_undelegations A0 v f : inv (AF A0) (slash_undelegations v f).
Proof. inv_deep (AF_f A0). Qed.

(* ---------- the bonded part: the loop over the validator's shares ---------- *)
Definition cuts (l : Coins) (f d : Z) : Z :=
  fold_right (fun da r => (if d =? fst da then dmul (snd da) f else 0) + r) 0 l.
Definition amts (l : Coins) (d : Z) : Z :=
  fold_right (fun da r => (if d =? fst da then snd da else 0) + r) 0 l.

Lemma dmul_0_l f : dmul 0 f = 0.
Proof. reflexivity. Qed.

Lemma amts_sorted l d : csorted l -> amts l d = camount l d.
Proof.
  induction l as [|[d0 x] l IH]; intros Hs; [reflexivity|].
  apply csorted_inv in Hs. destruct Hs as [Hs Hall]. cbn [amts fold_right camount fst snd].
  fold (amts l d). rewrite (IH Hs). destruct (d =? d0) eqn:E; [|lia].
  apply Z.eqb_eq in E; subst. rewrite camount_above by exact Hall. lia.
Qed.
Lemma cuts_sorted l f d : csorted l -> cuts l f d = dmul (camount l d) f.
Proof.
  induction l as [|[d0 x] l IH]; intros Hs; [reflexivity|].
  apply csorted_inv in Hs. destruct Hs as [Hs Hall]. cbn [cuts fold_right camount fst snd].
  fold (cuts l f d). rewrite (IH Hs). destruct (d =? d0) eqn:E; [|lia].
  apply Z.eqb_eq in E; subst. rewrite camount_above by exact Hall. rewrite dmul_0_l. lia.
Qed.

(* asset records are stored under their own denom *)
Definition AK (s : State) : Prop :=
  ksorted (assets s) /\ forall d a, kget (assets s) [d] = Some a -> a_denom a = d.

Definition slash_body (f : Z) (acc : Coins) (da : Z * Z) : M Coins :=
  let to_slash := dmul (snd da) f in
  (if snd da - to_slash <? 0 then panic P_NEG_COIN else ret tt) ;;;
  oa <- get_asset (fst da) ;;
  match oa with
  | None => fail E_UNKNOWN_ASSET
  | Some a =>
    set_asset (set_a_vshares (a_vshares a - to_slash) a) ;;;
    ret (cadd1 acc (fst da) (snd da - to_slash))
  end.

Lemma slash_loop_spec f l : forall acc s, AK s -> csorted acc ->
  match mfold l acc (slash_body f) s with
  | Ok vs' s' =>
    AK s' /\ csorted vs' /\ s' = set_assets (assets s') s /\
    (forall d, camount vs' d = camount acc d + amts l d - cuts l f d) /\
    (forall d, kget (assets s) [d] = None -> kget (assets s') [d] = None) /\
    (forall d a, kget (assets s) [d] = Some a ->
       exists b, kget (assets s') [d] = Some b /\ a_vshares b = a_vshares a - cuts l f d)
  | _ => True
  end.
Proof.
  induction l as [|[d0 x] l IH]; intros acc s Hak Hacc; cbn [mfold].
  - cbn. repeat split; auto; try (destruct Hak; assumption).
    + destruct s; reflexivity.
    + intros d; lia.
    + intros d a Ha. exists a. split; [exact Ha | lia].
  - unfold bind at 1. unfold slash_body at 1. cbn [fst snd].
    unfold bind at 1. destruct (x - dmul x f <? 0); cbn [panic ret]; [exact I|].
    unfold bind at 1. unfold get_asset at 1, gets.
    destruct (kget (assets s) [d0]) as [a0|] eqn:Ea0; [|exact I].
    unfold bind at 1. unfold set_asset at 1, modify. cbn [ret].
    destruct Hak as [Hsa Hk]. pose proof (Hk _ _ Ea0) as Hd0. cbn [a_denom set_a_vshares]. rewrite Hd0.
    set (a1 := set_a_vshares (a_vshares a0 - dmul x f) a0).
    set (s1 := set_assets (kset (assets s) [d0] a1) s).
    assert (Hak1 : AK s1).
    { split; [apply ksorted_kset; exact Hsa|]. intros d a. subst s1; cbn [assets set_assets].
      destruct (Z.eq_dec d d0) as [->|Hne].
      - rewrite kget_kset_same. intros E; inversion E; subst a. subst a1. cbn. exact Hd0.
      - rewrite kget_kset_other by (auto; congruence). apply Hk. }
    specialize (IH (cadd1 acc d0 (x - dmul x f)) s1 Hak1 (csorted_cadd1 _ _ _ Hacc)).
    destruct (mfold l _ (slash_body f) s1) as [vs' s'| |]; auto.
    destruct IH as (Hak' & Hvs' & Hst & Hcam & Hnone & Hsome).
    split; [exact Hak'|]. split; [exact Hvs'|]. split.
    { rewrite Hst. subst s1. destruct s; reflexivity. }
    split.
    { intros d. rewrite Hcam. rewrite camount_cadd1 by exact Hacc. cbn [amts cuts fold_right fst snd].
      fold (amts l d). fold (cuts l f d). destruct (d =? d0); lia. }
    split.
    { intros d Hd. apply Hnone. subst s1; cbn [assets set_assets].
      destruct (Z.eq_dec d d0) as [->|Hne]; [congruence|]. rewrite kget_kset_other by (auto; congruence). exact Hd. }
    intros d a Ha. cbn [cuts fold_right fst snd]. fold (cuts l f d).
    destruct (Z.eq_dec d d0) as [->|Hne].
    + rewrite Ea0 in Ha. inversion Ha; subst a.
      destruct (Hsome d0 a1) as (b & Hb & Hvb). { subst s1; cbn [assets set_assets]. apply kget_kset_same. }
      exists b. split; [exact Hb|]. rewrite Hvb. subst a1. cbn [a_vshares set_a_vshares]. rewrite Z.eqb_refl. lia.
    + destruct (Hsome d a) as (b & Hb & Hvb).
      { subst s1; cbn [assets set_assets]. rewrite kget_kset_other by (auto; congruence). exact Ha. }
      exists b. split; [exact Hb|]. rewrite Hvb. apply Z.eqb_neq in Hne. rewrite Hne. lia.
Qed.

Lemma af_get_alliance_validator A0 w : inv (AF A0) (get_alliance_validator w).
Proof. inv_deep (AF_f A0). Qed.

Definition upd (X : Z -> Coins) (v : Z) (c : Coins) : Z -> Coins := fun w => if w =? v then c else X w.
Lemma vs_overwrite X v vi s : VS X s -> VS (upd X v (vi_vshares vi)) (set_valinfos (kset (valinfos s) [v] vi) s).
Proof.
  intros [Hs HX]. split; cbn [valinfos set_valinfos]; [apply ksorted_kset; exact Hs|].
  intros w. unfold vinfo_or_empty, upd. cbn [valinfos set_valinfos].
  destruct (Z.eqb_spec w v) as [->|Hne].
  - rewrite kget_kset_same. reflexivity.
  - rewrite kget_kset_other by (auto; congruence). apply HX.
Qed.

Definition tail (v f : Z) : M unit := slash_redelegations v f ;;; slash_undelegations v f.
Lemma tail_frames X A0 v f : inv (fun s => VS X s /\ AF A0 s) (tail v f).
Proof.
  intros s [H1 H2]. unfold tail, bind.
  pose proof (vs_slash_redelegations X v f s H1) as R1. pose proof (af_slash_redelegations A0 v f s H2) as R2.
  destruct (slash_redelegations v f s) as [[] s1|e s1|e s1]; auto.
  pose proof (vs_slash_undelegations X v f s1 R1) as U1. pose proof (af_slash_undelegations A0 v f s1 R2) as U2.
  destruct (slash_undelegations v f s1); auto.
Qed.

(* the callback, when it returns without error *)
Theorem slash_validator_shares s v f s' :
  ksorted (valinfos s) -> csorted (vi_vshares (vinfo_or_empty s v)) -> AK s ->
  slash_validator v f s = Ok tt s' ->
  (forall d, camount (vi_vshares (vinfo_or_empty s' v)) d
             = camount (vi_vshares (vinfo_or_empty s v)) d - dmul (camount (vi_vshares (vinfo_or_empty s v)) d) f) /\
  (forall w, w <> v -> vi_vshares (vinfo_or_empty s' w) = vi_vshares (vinfo_or_empty s w)) /\
  (forall d a, kget (assets s) [d] = Some a ->
     exists b, kget (assets s') [d] = Some b /\
               a_vshares b = a_vshares a - dmul (camount (vi_vshares (vinfo_or_empty s v)) d) f) /\
  (forall d, kget (assets s) [d] = None -> kget (assets s') [d] = None).
Proof.
  intros Hsv Hcs Hak Hrun.
  set (X := fun w => vi_vshares (vinfo_or_empty s w)).
  assert (HVS : VS X s) by (split; [exact Hsv | reflexivity]).
  unfold slash_validator in Hrun.
  destruct ((f <=? 0) || (ONE <? f)); [discriminate|].
  unfold bind at 1 in Hrun.
  pose proof (vs_get_alliance_validator X v s HVS) as G1.
  pose proof (af_get_alliance_validator (assets s) v s eq_refl) as G2.
  destruct (get_alliance_validator v s) as [[sv vi] s1|e s1|e s1]; try discriminate.
  destruct G1 as [HVS1 Hvi]. cbn [snd] in Hvi. unfold AF in G2.
  assert (Hak1 : AK s1) by (unfold AK; rewrite G2; exact Hak).
  unfold bind at 1 in Hrun.
  pose proof (slash_loop_spec f (vi_vshares vi) [] s1 Hak1 csorted_nil) as L.
  change (mfold (vi_vshares vi) [] (slash_body f) s1) with
    (mfold (vi_vshares vi) [] (fun (acc : Coins) (da : Z * Z) =>
       let to_slash := dmul (snd da) f in
       (if snd da - to_slash <? 0 then panic P_NEG_COIN else ret tt) ;;;
       oa <- get_asset (fst da) ;;
       match oa with
       | None => fail E_UNKNOWN_ASSET
       | Some a => set_asset (set_a_vshares (a_vshares a - to_slash) a) ;;; ret (cadd1 acc (fst da) (snd da - to_slash))
       end) s1) in L.
  destruct (mfold (vi_vshares vi) [] _ s1) as [vs' s2|e s2|e s2]; try discriminate.
  destruct L as (Hak2 & Hvs' & Hst2 & Hcam & Hnone & Hsome).
  assert (HVS2 : VS X s2) by (apply (VS_f X s1); [rewrite Hst2; reflexivity | exact HVS1]).
  unfold bind at 1 in Hrun. unfold set_valinfo at 1, modify in Hrun.
  set (s3 := set_valinfos (kset (valinfos s2) [v] (set_vi_vshares vs' vi)) s2) in Hrun.
  assert (HVS3 : VS (upd X v vs') s3).
  { subst s3. pose proof (vs_overwrite X v (set_vi_vshares vs' vi) s2 HVS2) as H. cbn [vi_vshares set_vi_vshares] in H. exact H. }
  assert (HA3 : AF (assets s2) s3) by reflexivity.
  pose proof (tail_frames (upd X v vs') (assets s2) v f s3 (conj HVS3 HA3)) as T.
  change (slash_redelegations v f ;;; slash_undelegations v f) with (tail v f) in Hrun.
  destruct (tail v f s3) as [[] s4|e s4|e s4]; try discriminate.
  inversion Hrun; subst s4. destruct T as [[_ HX'] HA'].
  rewrite Hvi in *. unfold AF in HA'.
  split; [|split; [|split]].
  - intros d. rewrite (HX' v). unfold upd. rewrite Z.eqb_refl. rewrite Hcam.
    rewrite amts_sorted, cuts_sorted by exact Hcs. cbn [camount]. subst X. cbn beta. lia.
  - intros w Hne. rewrite (HX' w). unfold upd. apply Z.eqb_neq in Hne. rewrite Hne. reflexivity.
  - intros d a Ha. rewrite HA'. rewrite <- G2 in Ha. destruct (Hsome d a Ha) as (b & Hb & Hvb).
    exists b. split; [exact Hb|]. rewrite Hvb. rewrite cuts_sorted by exact Hcs. reflexivity.
  - intros d Hd. rewrite HA'. apply Hnone. rewrite G2. exact Hd.
Qed.

(* ... as one step of the state machine (hook wrapper, rebalance queued, oracle cleared) *)
Theorem bonded_slash_step s v f s' :
  ksorted (valinfos s) -> csorted (vi_vshares (vinfo_or_empty s v)) -> AK s ->
  step s (OHookSlash v f) = (s', R_OK) ->
  (forall d, vshares_of s' v d = vshares_of s v d - dmul (vshares_of s v d) f) /\
  (forall w d, w <> v -> vshares_of s' w d = vshares_of s w d) /\
  (forall d a, kget (assets s) [d] = Some a ->
     exists b, kget (assets s') [d] = Some b /\ a_vshares b = a_vshares a - dmul (vshares_of s v d) f) /\
  (forall d, kget (assets s) [d] = None -> kget (assets s') [d] = None).
Proof.
  intros Hsv Hcs Hak Hstep. cbn [step] in Hstep. unfold hook, hook_slash in Hstep. unfold bind at 1 in Hstep.
  pose proof (slash_validator_shares s v f) as SV.
  destruct (slash_validator v f s) as [[] s1|e s1|e s1].
  - specialize (SV s1 Hsv Hcs Hak eq_refl). destruct SV as (H1 & H2 & H3 & H4).
    unfold queue_rebalance, modify, clear_oracle in Hstep.
    destruct ((R_OK =? R_OK) && negb (length (oracle (set_flag true s1)) =? 0)%nat); inversion Hstep; subst s'.
    unfold vshares_of, vinfo_or_empty in *. cbn [valinfos set_oracle set_flag assets].
    repeat split.
    + exact H1.
    + intros w d Hne. rewrite (H2 w Hne). reflexivity.
    + exact H3.
    + exact H4.
  - unfold clear_oracle in Hstep. cbn in Hstep. inversion Hstep.
  - unfold clear_oracle in Hstep. cbn in Hstep. inversion Hstep.
Qed.

(* ... in every reachable state (share lists denom-sorted: the structural part of the share-ledger
   invariant, under its admissibility conditions) *)
Theorem bonded_slash_reachable v0 dn0 h v f s' : adm_sl_run v0 dn0 init_state h ->
  let s := run init_state h in
  step s (OHookSlash v f) = (s', R_OK) ->
  (forall d, vshares_of s' v d = vshares_of s v d - dmul (vshares_of s v d) f) /\
  (forall w d, w <> v -> vshares_of s' w d = vshares_of s w d) /\
  (forall d a, kget (assets s) [d] = Some a ->
     exists b, kget (assets s') [d] = Some b /\ a_vshares b = a_vshares a - dmul (vshares_of s v d) f) /\
  (forall d, kget (assets s) [d] = None -> kget (assets s') [d] = None).
Proof.
  intros Ha s Hstep.
  pose proof (reachable_Sorted h) as (HsA & HsV & _). fold s in HsA, HsV.
  pose proof (run_JD v0 dn0 h init_state (JD_init v0 dn0) Ha) as (Hb & _). fold s in Hb.
  apply (bonded_slash_step s v f s'); auto.
  - pose proof (stored_ok s v Hb) as [_ H]. exact H.
  - split; [exact HsA|]. intros d a Hg. exact (well_keyed h d a Hg).
Qed.

(* ---------- delegator shares and delegation records: untouched unless a redelegation out of v is pending ---------- *)
Definition DSF (X : Z -> Coins) (D0 : KMap Delegation) (R0 : KMap unit) (s : State) : Prop :=
  ksorted (valinfos s) /\ (forall w, vi_dshares (vinfo_or_empty s w) = X w) /\ delegations s = D0 /\ redelidx s = R0.
Lemma DSF_f X D0 R0 : forall s s', (valinfos s', delegations s', redelidx s') = (valinfos s, delegations s, redelidx s) -> DSF X D0 R0 s -> DSF X D0 R0 s'.
Proof. unfold DSF, vinfo_or_empty. intros s s' E H. inversion E as [[E1 E2 E3]]. rewrite E1, E2, E3. exact H. Qed.
Lemma dsf_write X D0 R0 w vi s : DSF X D0 R0 s -> vi_dshares vi = X w -> DSF X D0 R0 (set_valinfos (kset (valinfos s) [w] vi) s).
Proof.
  intros (Hs & HX & HD & HR) Hv. split; cbn [valinfos set_valinfos]; [apply ksorted_kset; exact Hs|]. split; [|split; assumption].
  intros w'. unfold vinfo_or_empty. cbn [valinfos set_valinfos].
  destruct (Z.eq_dec w' w) as [->|Hne]; [rewrite kget_kset_same; exact Hv|].
  rewrite kget_kset_other by (auto; congruence). apply HX.
Qed.

Theorem slash_without_pending_redelegations_leaves_positions s v f s' :
  ksorted (valinfos s) -> kfilter (kprefix [v]) (redelidx s) = [] ->
  slash_validator v f s = Ok tt s' ->
  delegations s' = delegations s /\ forall w, vi_dshares (vinfo_or_empty s' w) = vi_dshares (vinfo_or_empty s w).
Proof.
  intros Hsv Hidx Hrun.
  set (X := fun w => vi_dshares (vinfo_or_empty s w)).
  assert (H0 : DSF X (delegations s) (redelidx s) s) by (repeat split; auto).
  unfold slash_validator in Hrun. destruct ((f <=? 0) || (ONE <? f)); [discriminate|].
  unfold bind at 1 in Hrun.
  assert (G : match get_alliance_validator v s with
              | Ok r s1 => DSF X (delegations s) (redelidx s) s1 /\ vi_dshares (snd r) = X v | _ => True end).
  { unfold get_alliance_validator, bind, gets. destruct (kget (svals s) [v]); cbn; [|exact I].
    destruct (kget (valinfos s) [v]) as [vi|] eqn:E; cbn.
    - split; [exact H0|]. subst X. cbn beta. unfold vinfo_or_empty. rewrite E. reflexivity.
    - assert (Hx : X v = []) by (subst X; cbn beta; unfold vinfo_or_empty; rewrite E; reflexivity).
      split; [apply dsf_write; [exact H0 | symmetry; exact Hx] | symmetry; exact Hx]. }
  destruct (get_alliance_validator v s) as [[sv vi] s1|e s1|e s1]; try discriminate.
  destruct G as [H1 Hvi]. cbn [snd] in Hvi.
  unfold bind at 1 in Hrun.
  assert (L : inv (DSF X (delegations s) (redelidx s)) (mfold (vi_vshares vi) [] (slash_body f))) by (unfold slash_body; inv_deep (DSF_f X (delegations s) (redelidx s))).
  specialize (L s1 H1).
  change (mfold (vi_vshares vi) [] (slash_body f) s1) with
    (mfold (vi_vshares vi) [] (fun (acc : Coins) (da : Z * Z) =>
       let to_slash := dmul (snd da) f in
       (if snd da - to_slash <? 0 then panic P_NEG_COIN else ret tt) ;;;
       oa <- get_asset (fst da) ;;
       match oa with
       | None => fail E_UNKNOWN_ASSET
       | Some a => set_asset (set_a_vshares (a_vshares a - to_slash) a) ;;; ret (cadd1 acc (fst da) (snd da - to_slash))
       end) s1) in L.
  destruct (mfold (vi_vshares vi) [] _ s1) as [vs' s2|e s2|e s2]; try discriminate.
  unfold bind at 1 in Hrun. unfold set_valinfo at 1, modify in Hrun.
  set (s3 := set_valinfos (kset (valinfos s2) [v] (set_vi_vshares vs' vi)) s2) in Hrun.
  assert (H3 : DSF X (delegations s) (redelidx s) s3) by (apply dsf_write; [exact L | exact Hvi]).
  unfold bind at 1 in Hrun.
  (* no index key of v: the loop over pending redelegations has nothing to walk *)
  assert (R : slash_redelegations v f s3 = Ok tt s3).
  { unfold slash_redelegations, bind, gets. destruct H3 as (_ & _ & _ & HR). rewrite HR, Hidx. reflexivity. }
  rewrite R in Hrun.
  assert (U : inv (DSF X (delegations s) (redelidx s)) (slash_undelegations v f)) by (inv_deep (DSF_f X (delegations s) (redelidx s))).
  specialize (U s3 H3). rewrite Hrun in U. destruct U as (_ & HX' & HD' & _).
  split; [exact HD' | exact HX'].
Qed.

(* TotalFloor.v — C03: the invariant of TokensNonneg.v with a floor per denom.  [lo d] (0 or 1) is a lower
   bound of the staked total of the asset of denom d.  Every operation keeps "total >= lo denom" for every
   stored asset, except — when lo d = 1 — an Undelegate of denom d and the creation (governance or genesis)
   of the asset d.  With lo = (1 at dn, 0 elsewhere): the staked total of dn, once positive, stays positive
   through every operation but an Undelegate of dn; so a staked total RETURNS to zero only in Undelegate,
   where ResetAtZero.v shows the reset.  Assets are kept well-keyed in the same invariant. *)
From Coq Require Import ZArith List Bool Lia.
From Alliance Require Import Num KMap KMapFacts Types Monad Model Step Spec Hoare.
Import ListNotations.
Open Scope Z_scope.

Section Floor.
Variable lo : Z -> Z.
Hypothesis lo_range : forall d, 0 <= lo d <= 1.

Definition AV (a : Asset) : Prop := asset_valid a = true /\ lo (a_denom a) <= a_tokens a /\ a_denom a <> BOND_DENOM.
Definition J (s : State) : Prop := kall (fun k a => k = [a_denom a] /\ AV a) (assets s).

(* field updates that do not touch the governed parameters *)
Lemma AV_tokens a v : AV a -> lo (a_denom a) <= v -> AV (set_a_tokens v a).  Proof. intros (H & _ & Hb) Hv; split; [exact H | split; [exact Hv | exact Hb]]. Qed.
Lemma AV_vshares a v : AV a -> AV (set_a_vshares v a). Proof. exact (fun H => H). Qed.
Lemma AV_init a v : AV a -> AV (set_a_init v a).       Proof. exact (fun H => H). Qed.
Lemma AV_last a v : AV a -> AV (set_a_last v a).       Proof. exact (fun H => H). Qed.

Ltac inv_leaf :=
  lazymatch goal with
  | |- inv _ (modify _) => apply inv_modify; intros ? ?; cbn; auto
  end.
Ltac inv_auto := repeat first [ solve [eauto with inv] | inv_leaf | inv_step ].

(* --- bank and the other primitives leave [assets] alone --- *)
Lemma J_put_bal a d v s : J s -> J (put_bal a d v s).  Proof. exact (fun H => H). Qed.
Lemma J_put_sup d v s : J s -> J (put_sup d v s).      Proof. exact (fun H => H). Qed.
#[local] Hint Resolve J_put_bal J_put_sup : inv.

Lemma inv_bank_sub a c : inv J (bank_sub a c).
Proof. unfold bank_sub; inv_auto. Qed.
Lemma inv_bank_add a c : inv J (bank_add a c).
Proof. unfold bank_add; inv_auto. Qed.
#[local] Hint Resolve inv_bank_sub inv_bank_add : inv.
Lemma inv_bank_send a b c : inv J (bank_send a b c).
Proof. unfold bank_send; inv_auto. Qed.
Lemma inv_bank_mint a c : inv J (bank_mint a c).
Proof. unfold bank_mint; inv_auto. Qed.
Lemma inv_bank_burn a c : inv J (bank_burn a c).
Proof. unfold bank_burn; inv_auto. Qed.
Lemma inv_coin1 d a : inv J (coin1 d a).
Proof. unfold coin1; inv_auto. Qed.
#[local] Hint Resolve inv_bank_send inv_bank_mint inv_bank_burn inv_coin1 : inv.

Lemma inv_set_asset a : AV a -> inv J (set_asset a).
Proof. intros Ha; unfold set_asset; apply inv_modify; intros s Hs; unfold J; cbn. apply kall_kset; [exact Hs | split; [reflexivity | exact Ha]]. Qed.
Lemma inv_get_asset d : inv J (get_asset d).
Proof. unfold get_asset; inv_auto. Qed.
Lemma inv_all_assets : inv J all_assets.
Proof. unfold all_assets; inv_auto. Qed.
Lemma inv_get_delegation a b c : inv J (get_delegation a b c).
Proof. unfold get_delegation; inv_auto. Qed.
Lemma inv_set_delegation a b c d : inv J (set_delegation a b c d).
Proof. unfold set_delegation; inv_auto. Qed.
Lemma inv_del_delegation a b c : inv J (del_delegation a b c).
Proof. unfold del_delegation; inv_auto. Qed.
Lemma inv_set_valinfo v vi : inv J (set_valinfo v vi).
Proof. unfold set_valinfo; inv_auto. Qed.
Lemma inv_queue_rebalance : inv J queue_rebalance.
Proof. unfold queue_rebalance; inv_auto. Qed.
#[local] Hint Resolve inv_set_asset inv_get_asset inv_all_assets inv_get_delegation inv_set_delegation
  inv_del_delegation inv_set_valinfo inv_queue_rebalance : inv.
Lemma inv_get_alliance_validator v : inv J (get_alliance_validator v).
Proof. unfold get_alliance_validator; inv_auto. Qed.
#[local] Hint Resolve inv_get_alliance_validator : inv.

(* reading an asset from a state satisfying J yields a valid asset *)
Lemma J_get s d a : J s -> kget (assets s) [d] = Some a -> AV a.
Proof. intros H E. exact (proj2 (kall_kget _ _ _ _ H E)). Qed.
Lemma J_get_denom s d a : J s -> kget (assets s) [d] = Some a -> a_denom a = d.
Proof. intros H E. pose proof (proj1 (kall_kget _ _ _ _ H E)) as K. inversion K; reflexivity. Qed.

(* --- rewards --- *)
Lemma inv_add_assets_to_reward_pool v vi c : inv J (add_assets_to_reward_pool v vi c).
Proof. unfold add_assets_to_reward_pool; inv_auto. Qed.
Lemma inv_withdraw_oracle v : inv J (withdraw_oracle v).
Proof. unfold withdraw_oracle; inv_auto. Qed.
#[local] Hint Resolve inv_add_assets_to_reward_pool inv_withdraw_oracle : inv.
Lemma inv_claim_validator_rewards v vi : inv J (claim_validator_rewards v vi).
Proof. unfold claim_validator_rewards; inv_auto. Qed.
#[local] Hint Resolve inv_claim_validator_rewards : inv.
Lemma inv_claim_delegation_rewards d v vi dn : inv J (claim_delegation_rewards d v vi dn).
Proof. unfold claim_delegation_rewards; inv_auto. Qed.
#[local] Hint Resolve inv_claim_delegation_rewards : inv.

(* --- delegation.go --- *)
Lemma inv_validate_delegated_amount d amt vi a : inv J (validate_delegated_amount d amt vi a).
Proof. unfold validate_delegated_amount; inv_auto. Qed.
Lemma inv_upsert_delegation d v vi dn amt a : inv J (upsert_delegation d v vi dn amt a).
Proof. unfold upsert_delegation; inv_auto. Qed.
Lemma inv_reduce_delegation_shares d v dn sh x : inv J (reduce_delegation_shares d v dn sh x).
Proof. unfold reduce_delegation_shares; inv_auto. Qed.
Lemma inv_update_validator_shares v vi dn a b c : inv J (update_validator_shares v vi dn a b c).
Proof. unfold update_validator_shares; inv_auto. Qed.
#[local] Hint Resolve inv_validate_delegated_amount inv_upsert_delegation inv_reduce_delegation_shares
  inv_update_validator_shares : inv.

Lemma inv_reset_asset_and_validators a : AV a -> inv J (reset_asset_and_validators a).
Proof. intros Ha; unfold reset_asset_and_validators; inv_auto. Qed.
#[local] Hint Resolve inv_reset_asset_and_validators : inv.
Lemma inv_clear_dust_delegation d v vi a : AV a -> inv J (clear_dust_delegation d v vi a).
Proof. intros Ha; unfold clear_dust_delegation; inv_auto. Qed.
#[local] Hint Resolve inv_clear_dust_delegation : inv.

(* a write of an asset derived from valid in-memory copies: parameters by conversion, the total by arithmetic *)
Ltac av_split :=
  repeat match goal with H : AV _ |- _ => destruct H as (? & ? & ?) end;
  split; [assumption | split; [|cbn in *; assumption]; cbn in *; repeat match goal with |- context[lo ?d] => lazymatch goal with H : 0 <= lo d <= 1 |- _ => fail | _ => pose proof (lo_range d) end end; try lia].
Ltac av := lazymatch goal with |- inv J (set_asset _) => apply inv_set_asset; av_split end.

Lemma dtrunc_nonneg x : 0 <= x -> 0 <= dtrunc x.
Proof. intros Hx. unfold dtrunc. apply Z.quot_pos; [exact Hx | reflexivity]. Qed.
Lemma dtrunc_ge1 x d : (x <=? ONE) = false -> lo d <= dtrunc x.
Proof.
  intros H. apply Z.leb_gt in H. pose proof (lo_range d). assert (1 <= dtrunc x); [|lia].
  unfold dtrunc. apply Z.quot_le_lower_bound; [reflexivity|]. unfold ONE in H. lia.
Qed.
Lemma above_one_nonneg x : (x <=? ONE) = false -> 0 <= x.
Proof. intros H. apply Z.leb_gt in H. assert (0 < ONE) by reflexivity. lia. Qed.
Ltac read_asset :=
  unfold get_asset; apply inv_bind_gets;
  let s0 := fresh "s0" in let Hs0 := fresh "Hs0" in let E := fresh "E" in
  intros s0 Hs0;
  lazymatch goal with
  | |- inv _ (match kget (assets s0) ?k with _ => _ end) =>
    destruct (kget (assets s0) k) eqn:E;
    [ pose proof (J_get _ _ _ Hs0 E); pose proof (J_get_denom _ _ _ Hs0 E) | ]
  end.

Lemma inv_k_delegate d v vi dn amt : 0 <= amt -> inv J (k_delegate d v vi dn amt).
Proof. intros Hamt. unfold k_delegate; read_asset; inv_auto. av. Qed.
Lemma inv_queue_undelegation d v dn amt : inv J (queue_undelegation d v dn amt).
Proof. unfold queue_undelegation; inv_auto. Qed.
#[local] Hint Resolve inv_queue_undelegation : inv.
Lemma inv_k_undelegate d v vi dn amt : lo dn = 0 -> inv J (k_undelegate d v vi dn amt).
Proof.
  intros Hlo. unfold k_undelegate; read_asset; [|inv_auto].
  match goal with Hd : a_denom _ = dn |- _ => rewrite <- Hd in Hlo end.
  inv_auto; [av | apply inv_clear_dust_delegation; av_split].
Qed.
Lemma inv_add_redelegation a b c d e f : inv J (add_redelegation a b c d e f).
Proof. unfold add_redelegation, queue_redelegation; inv_auto. Qed.
#[local] Hint Resolve inv_add_redelegation : inv.
Lemma inv_k_redelegate d v1 vi1 v2 vi2 dn amt : inv J (k_redelegate d v1 vi1 v2 vi2 dn amt).
Proof. unfold k_redelegate; destruct (v1 =? v2); [inv_auto|]; read_asset; inv_auto. Qed.
#[local] Hint Resolve inv_k_delegate inv_k_undelegate inv_k_redelegate : inv.

Lemma inv_msg_delegate d v dn amt : inv J (msg_delegate d v dn amt).
Proof. unfold msg_delegate; inv_auto. apply inv_k_delegate; lia. Qed.
Lemma inv_msg_undelegate d v dn amt : lo dn = 0 -> inv J (msg_undelegate d v dn amt).
Proof. intros Hlo. unfold msg_undelegate; inv_auto. Qed.
Lemma inv_msg_redelegate d v1 v2 dn amt : inv J (msg_redelegate d v1 v2 dn amt).
Proof. unfold msg_redelegate; inv_auto. Qed.
Lemma inv_msg_claim d v dn : inv J (msg_claim d v dn).
Proof. unfold msg_claim; inv_auto. Qed.

(* --- slash.go --- *)
Lemma inv_slash_redelegations v f : inv J (slash_redelegations v f).
Proof. unfold slash_redelegations; inv_auto. Qed.
Lemma inv_slash_undelegations v f : inv J (slash_undelegations v f).
Proof. unfold slash_undelegations; inv_auto. Qed.
#[local] Hint Resolve inv_slash_redelegations inv_slash_undelegations : inv.
Lemma inv_slash_validator v f : inv J (slash_validator v f).
Proof.
  unfold slash_validator. destruct ((f <=? 0) || (ONE <? f)); [inv_auto|].
  apply inv_bind; [inv_auto|]. intros [sv vi].
  apply inv_bind; [|intros ?; inv_auto].
  apply inv_mfold; intros acc da.
  apply inv_bind; [inv_auto|]; intros _. read_asset; inv_auto.
Qed.
Lemma inv_hook_slash v f : inv J (hook_slash v f).
Proof. unfold hook_slash; pose proof (inv_slash_validator v f); inv_auto. Qed.

(* --- end of block --- *)
Lemma inv_complete_redelegations : inv J complete_redelegations.
Proof. unfold complete_redelegations; inv_auto. Qed.
Lemma inv_complete_unbondings : inv J complete_unbondings.
Proof. unfold complete_unbondings; inv_auto. Qed.

Lemma inv_initialize_assets als : Forall AV als -> inv J (initialize_assets als).
Proof.
  intros Hals; unfold initialize_assets. apply inv_bind; [inv_auto|]; intros t.
  apply (inv_mfold_Forall J _ _ AV); [exact Hals|]. intros acc a Ha.
  destruct (a_init a || negb (rewards_started a t)); inv_auto.
Qed.

Lemma inv_set_last_claim t : inv J (set_last_claim t).
Proof. unfold set_last_claim; inv_auto. Qed.
#[local] Hint Resolve inv_set_last_claim : inv.

Lemma inv_deduct_take_rate last als : Forall AV als -> inv J (deduct_take_rate last als).
Proof.
  intros Hals; unfold deduct_take_rate. apply inv_bind; [inv_auto|]; intros t.
  destruct (last =? ZERO_TIME); [inv_auto|].
  apply inv_bind; [inv_auto|]; intros iv. destruct (iv =? 0); [inv_auto|].
  apply inv_bind; [|intros [[? ?] ?]; inv_auto].
  apply (inv_mfold_Forall J _ _ AV); [exact Hals|]. intros acc a Ha.
  destruct acc as [[out coins] cnt]. inv_auto.
  apply inv_set_asset. apply AV_tokens; [exact Ha|]. apply dtrunc_ge1. assumption.
Qed.

(* UpdateAllianceAsset keeps validity when the new parameters are valid; the
   weight range is checked by the function itself *)
Definition params_ok (na : Asset) : Prop :=
  0 <= a_take na /\ a_take na < ONE /\ 0 < a_rate na /\ 0 <= a_interval na.

Lemma AV_intro a : 0 <= a_take a -> a_take a < ONE -> a_wmin a <= a_weight a -> a_weight a <= a_wmax a ->
  0 < a_rate a -> 0 <= a_interval a -> lo (a_denom a) <= a_tokens a -> a_denom a <> BOND_DENOM -> AV a.
Proof. unfold AV, asset_valid; intros; split; [repeat (apply andb_true_intro; split); lia | split; assumption]. Qed.
Lemma AV_elim a : AV a -> 0 <= a_take a /\ a_take a < ONE /\ a_wmin a <= a_weight a /\ a_weight a <= a_wmax a /\
  0 < a_rate a /\ 0 <= a_interval a /\ lo (a_denom a) <= a_tokens a /\ a_denom a <> BOND_DENOM.
Proof. unfold AV, asset_valid; intros (H & Ht & Hb); repeat (apply andb_prop in H; destruct H as [H ?]); repeat split; try lia; exact Hb. Qed.

Lemma inv_update_alliance_asset na : params_ok na -> inv J (update_alliance_asset na).
Proof.
  intros (H1 & H2 & H3 & H4); unfold update_alliance_asset; read_asset; [|inv_auto].
  destruct ((a_weight na <? a_wmin na) || (a_wmax na <? a_weight na)) eqn:Hw; [inv_auto|].
  apply orb_false_elim in Hw; destruct Hw as [Hw1 Hw2].
  apply inv_bind; [inv_auto|]; intros _.
  apply inv_bind; [inv_auto|]; intros t.
  match goal with Ha : AV _ |- _ => pose proof (AV_elim _ Ha) end.
  apply inv_set_asset. apply AV_intro; cbn; lia.
Qed.

Lemma inv_reward_weight_change_hook als : Forall AV als -> inv J (reward_weight_change_hook als).
Proof.
  intros Hals; unfold reward_weight_change_hook. apply inv_bind; [inv_auto|]; intros t.
  apply (inv_mfold_Forall J _ _ AV); [exact Hals|]. intros acc a Ha.
  destruct ((a_interval a =? 0) || (a_rate a =? ONE)); [inv_auto|].
  destruct (t <? a_last a + a_interval a); [inv_auto|].
  apply inv_bind; [inv_auto|]; intros m.
  apply inv_bind; [inv_auto|]; intros w0.
  apply inv_bind; [inv_auto|]; intros _.
  apply inv_bind; [|intros ?; inv_auto].
  apply inv_update_alliance_asset.
  apply AV_elim in Ha. unfold params_ok; cbn; lia.
Qed.

(* the in-memory asset lists threaded through EndBlocker stay valid *)
Definition ValidList (als : list Asset) : Prop := Forall AV als.
Lemma ValidList_app a b : ValidList a -> ValidList b -> ValidList (a ++ b).
Proof. unfold ValidList; intros; apply Forall_app; split; assumption. Qed.
Lemma ValidList_one a : AV a -> ValidList [a].
Proof. intros; constructor; [assumption | constructor]. Qed.
#[local] Hint Resolve ValidList_app ValidList_one : inv.

Lemma out_initialize_assets als : ValidList als ->
  hoare J (initialize_assets als) (fun r s => J s /\ ValidList r) J.
Proof.
  intros Hals; unfold initialize_assets. ho_step; [inv_auto|].
  apply (hoare_mfold_acc _ _ J ValidList AV); [exact Hals| |constructor].
  intros acc x Hacc Hx. repeat ho_step; try solve [inv_auto]; auto with inv.
Qed.

Lemma out_deduct_take_rate last als : ValidList als ->
  hoare J (deduct_take_rate last als) (fun r s => J s /\ ValidList r) J.
Proof.
  intros Hals; unfold deduct_take_rate. ho_step; [inv_auto|].
  ho_step; [ho_step; [inv_auto|]; ho_step; exact Hals|].
  ho_step; [inv_auto|]. ho_step; [ho_step|].
  eapply hoare_bind.
  - apply (hoare_mfold_acc _ _ J (fun acc : list Asset * Coins * Z => ValidList (fst (fst acc))) AV); [exact Hals| |constructor].
    intros [[out coins] cnt] x Hacc Hx; cbn [fst] in Hacc.
    repeat ho_step; try solve [inv_auto]; cbn [fst]; auto with inv.
    all: assert (AV (set_a_tokens (dtrunc (dmul_int a1 (a_tokens x))) x))
      by (apply AV_tokens; [exact Hx|]; apply dtrunc_ge1; assumption).
    + apply inv_set_asset; assumption.
    + auto with inv.
  - intros [[als' coins] cnt]. intros s [Hs Hv]; cbn [fst] in Hv. revert s Hs.
    change (hoare J (if cnt =? 0 then set_last_claim a ;;; ret als'
                     else if negb (length coins =? 0)%nat
                          then bank_send ACC_ALLIANCE ACC_FEE coins ;;; set_last_claim (last + a0 * Z.quot (a - last) a0) ;;; ret als'
                          else ret als') (fun r s => J s /\ ValidList r) J).
    repeat ho_step; try solve [inv_auto]; auto.
Qed.

Lemma inv_staking_delegate v sv amt : inv J (staking_delegate v sv amt).
Proof. unfold staking_delegate, distr_before_shares_modified; inv_auto. Qed.
Lemma inv_staking_validate_unbond v amt : inv J (staking_validate_unbond v amt).
Proof. unfold staking_validate_unbond; inv_auto. Qed.
Lemma inv_staking_unbond v sh : inv J (staking_unbond v sh).
Proof. unfold staking_unbond, distr_before_shares_modified; inv_auto. Qed.
#[local] Hint Resolve inv_staking_delegate inv_staking_validate_unbond inv_staking_unbond : inv.
Lemma inv_rebalance als : inv J (rebalance_bond_token_weights als).
Proof. unfold rebalance_bond_token_weights; inv_auto. Qed.
Lemma inv_rebalance_hook als : inv J (rebalance_hook als).
Proof. unfold rebalance_hook; pose proof (inv_rebalance als); inv_auto. Qed.

Lemma out_reward_weight_change_hook als : ValidList als ->
  hoare J (reward_weight_change_hook als) (fun r s => J s /\ ValidList r) J.
Proof.
  intros Hals; unfold reward_weight_change_hook. ho_step; [inv_auto|].
  apply (hoare_mfold_acc _ _ J ValidList AV); [exact Hals| |constructor].
  intros acc x Hacc Hx.
  destruct ((a_interval x =? 0) || (a_rate x =? ONE)); [ho_step; auto with inv|].
  destruct (a <? a_last x + a_interval x); [ho_step; auto with inv|].
  ho_step; [inv_auto|]. ho_step; [inv_auto|]. ho_step; [inv_auto|].
  pose proof (AV_elim _ Hx) as Hx'.
  ho_step.
  - apply inv_update_alliance_asset. unfold params_ok; cbn; lia.
  - ho_step. apply ValidList_app; [exact Hacc|]. apply ValidList_one.
    apply AV_intro; cbn; try lia.
    + destruct (a1 <? a_wmin x) eqn:E1.
      * destruct (a_wmax x <? a_wmin x) eqn:E2; lia.
      * destruct (a_wmax x <? a1) eqn:E2; lia.
    + destruct (a1 <? a_wmin x) eqn:E1.
      * destruct (a_wmax x <? a_wmin x) eqn:E2; lia.
      * destruct (a_wmax x <? a1) eqn:E2; lia.
Qed.

Lemma out_deduct_assets_hook als : ValidList als ->
  hoare J (deduct_assets_hook als) (fun r s => J s /\ ValidList r) J.
Proof.
  intros Hals; unfold deduct_assets_hook. ho_step; [inv_auto|]. ho_step; [inv_auto|].
  ho_step; [apply out_deduct_take_rate; exact Hals | ho_step; exact Hals].
Qed.

Lemma J_all_assets s : J s -> ValidList (map snd (assets s)).
Proof.
  intros H. unfold ValidList. apply Forall_forall. intros a Hin. apply in_map_iff in Hin. destruct Hin as [[k a'] [E Hin]]; cbn in E; subst a'.
  unfold J, kall in H. rewrite Forall_forall in H. exact (proj2 (H (k, a) Hin)).
Qed.

Lemma inv_end_blocker : inv J end_blocker.
Proof.
  unfold end_blocker.
  apply inv_bind; [apply inv_complete_redelegations|]; intros _.
  apply inv_bind; [apply inv_complete_unbondings|]; intros _.
  unfold all_assets; apply inv_bind_gets; intros s0 Hs0.
  pose proof (J_all_assets _ Hs0) as Hals.
  apply inv_hoare.
  eapply hoare_bind; [apply out_initialize_assets; exact Hals|]. intros als1 s1 [Hs1 Hv1]; revert s1 Hs1.
  change (hoare J (als2 <- deduct_assets_hook als1 ;; als3 <- reward_weight_change_hook als2 ;; rebalance_hook als3) (fun _ => J) J).
  eapply hoare_bind; [apply out_deduct_assets_hook; exact Hv1|]. intros als2 s2 [Hs2 Hv2]; revert s2 Hs2.
  change (hoare J (als3 <- reward_weight_change_hook als2 ;; rebalance_hook als3) (fun _ => J) J).
  eapply hoare_bind; [apply out_reward_weight_change_hook; exact Hv2|]. intros als3 s3 [Hs3 Hv3]; revert s3 Hs3.
  apply inv_hoare. apply inv_rebalance_hook.
Qed.

(* --- governance --- *)
Lemma inv_msg_create_alliance m : lo (m_denom m) = 0 -> inv J (msg_create_alliance m).
Proof.
  intros Hlo.
  unfold msg_create_alliance.
  destruct (m_denom m <? 0); [inv_auto|].
  destruct (nil_or (fun w => w <? 0) (m_weight m)) eqn:Ew; [inv_auto|].
  destruct (nil_or (fun w => w <? 0) (m_wmin m) || nil_or (fun w => w <? 0) (m_wmax m)) eqn:Er; [inv_auto|].
  destruct (m_weight m) as [w|]; [|inv_auto]. destruct (m_wmin m) as [wlo|]; [|inv_auto].
  destruct (m_wmax m) as [hi|]; [|inv_auto].
  destruct (hi <? wlo) eqn:E1; [inv_auto|].
  destruct ((w <? wlo) || (hi <? w)) eqn:E2; [inv_auto|].
  destruct (nil_or (fun x => (x <? 0) || (ONE <=? x)) (m_take m)) eqn:Et; [inv_auto|].
  destruct (m_take m) as [tk|]; [|destruct (m_rate m); inv_auto].
  destruct (m_rate m) as [rt|]; [|inv_auto].
  destruct (rt <=? 0) eqn:E3; [inv_auto|].
  destruct (m_interval m <? 0) eqn:E4; [inv_auto|].
  destruct (negb (m_auth m =? AUTHORITY)); [inv_auto|].
  destruct (m_denom m =? BOND_DENOM) eqn:Eb; [inv_auto|]. apply Z.eqb_neq in Eb.
  read_asset; [inv_auto|].
  apply inv_bind; [inv_auto|]; intros t. apply inv_bind; [inv_auto|]; intros dl.
  apply inv_set_asset. cbn in Et. apply orb_false_elim in E2; destruct E2. apply orb_false_elim in Et; destruct Et.
  apply AV_intro; cbn; lia.
Qed.

Lemma inv_msg_update_alliance m : inv J (msg_update_alliance m).
Proof.
  unfold msg_update_alliance.
  destruct (m_denom m <? 0); [inv_auto|].
  destruct (nil_or (fun w => w <? 0) (m_weight m)) eqn:Ew; [inv_auto|].
  destruct (nil_or (fun x => (x <? 0) || (ONE <=? x)) (m_take m)) eqn:Et; [inv_auto|].
  destruct (m_weight m) as [w|]; [|inv_auto]. destruct (m_take m) as [tk|]; [|inv_auto].
  destruct (m_rate m) as [rt|]; [|inv_auto].
  destruct (rt <=? 0) eqn:E3; [inv_auto|].
  destruct (m_interval m <? 0) eqn:E4; [inv_auto|].
  destruct (negb (m_auth m =? AUTHORITY)); [inv_auto|].
  read_asset; [|inv_auto].
  destruct (m_wmin m) as [wlo|]; [|inv_auto]. destruct (w <? wlo); [inv_auto|].
  destruct (m_wmax m) as [hi|]; [|inv_auto]. destruct (hi <? w); [inv_auto|].
  apply inv_update_alliance_asset. cbn in Et. apply orb_false_elim in Et; destruct Et.
  unfold params_ok; cbn; lia.
Qed.

Lemma inv_msg_delete_alliance au d : inv J (msg_delete_alliance au d).
Proof.
  unfold msg_delete_alliance. destruct (d <? 0); [inv_auto|]. destruct (negb (au =? AUTHORITY)); [inv_auto|].
  read_asset; [|inv_auto]. destruct (0 <? a_tokens a); [inv_auto|].
  apply inv_modify; intros s Hs; unfold J; cbn. apply kall_kdel; exact Hs.
Qed.

Lemma inv_msg_update_params au a b c : inv J (msg_update_params au a b c).
Proof. unfold msg_update_params; inv_auto. Qed.

(* --- every operation; every history --- *)
Definition op_ok (o : Op) : Prop :=
  match o with
  | EGenesisAsset a => AV a
  | OUndelegate _ _ dn _ => lo dn = 0
  | OCreateAlliance m => lo (m_denom m) = 0
  | _ => True
  end.

Lemma J_wrap_tx (m : M unit) s : inv J m -> J s -> J (fst (tx m s)).
Proof. intros Hm Hs; unfold tx; specialize (Hm s Hs); destruct (m s); cbn; auto. Qed.
Lemma J_wrap_hook (m : M unit) s : inv J m -> J s -> J (fst (hook m s)).
Proof. intros Hm Hs; unfold hook; specialize (Hm s Hs); destruct (m s); cbn; auto. Qed.
Lemma J_wrap_endblock (m : M unit) s : inv J m -> J s -> J (fst (endblock m s)).
Proof. intros Hm Hs; unfold endblock; specialize (Hm s Hs); destruct (m s); cbn; auto. Qed.
Lemma J_clear_oracle r : J (fst r) -> J (fst (clear_oracle r)).
Proof. destruct r as [s c]; cbn; auto. Qed.

Lemma J_fold_put_bal bs s : J s -> J (fold_left (fun s b => put_bal (fst (fst b)) (snd (fst b)) (snd b) s) bs s).
Proof. revert s; induction bs as [|b bs IH]; intros s Hs; cbn; auto. Qed.
Lemma J_fold_put_sup ss s : J s -> J (fold_left (fun s ds => put_sup (fst ds) (snd ds) s) ss s).
Proof. revert s; induction ss as [|b bs IH]; intros s Hs; cbn; auto. Qed.

Lemma step_J s o : J s -> op_ok o -> J (fst (step s o)).
Proof.
  intros Hs Ho; destruct o; cbn [step]; try exact Hs;
    try (apply J_clear_oracle;
         first [ apply J_wrap_tx | apply J_wrap_hook | apply J_wrap_endblock ]; [|exact Hs]).
  - apply inv_end_blocker.
  - apply inv_msg_delegate.
  - apply inv_msg_undelegate. exact Ho.
  - apply inv_msg_redelegate.
  - apply inv_msg_claim.
  - apply inv_msg_create_alliance. exact Ho.
  - apply inv_msg_update_alliance.
  - apply inv_msg_delete_alliance.
  - apply inv_msg_update_params.
  - apply inv_hook_slash.
  - cbn. apply J_fold_put_sup. apply J_fold_put_bal. exact Hs.
  - unfold J; cbn. apply kall_kset; [exact Hs | split; [reflexivity | exact Ho]].
Qed.

Lemma J_init : J init_state.
Proof. constructor. Qed.

Theorem run_J h s : J s -> Forall op_ok h -> J (run s h).
Proof.
  revert s; induction h as [|o h IH]; intros s Hs Hh; cbn; [exact Hs|].
  inversion Hh; subst. apply IH; [apply step_J; assumption | assumption].
Qed.

Lemma J_floor s d a : J s -> kget (assets s) [d] = Some a -> lo d <= a_tokens a.
Proof. intros Hs E. pose proof (J_get _ _ _ Hs E) as [_ H]. rewrite (J_get_denom _ _ _ Hs E) in H. exact (proj1 H). Qed.
Lemma J_not_bond s d a : J s -> kget (assets s) [d] = Some a -> d <> BOND_DENOM.
Proof. intros Hs E. pose proof (J_get _ _ _ Hs E) as [_ H]. rewrite (J_get_denom _ _ _ Hs E) in H. exact (proj2 H). Qed.
End Floor.

(* ---------- the floor "1 at dn, 0 elsewhere" ---------- *)
Definition lo1 (dn d : Z) : Z := if d =? dn then 1 else 0.
Lemma lo1_range dn d : 0 <= lo1 dn d <= 1.
Proof. unfold lo1; destruct (d =? dn); lia. Qed.

(* the operations that may take the staked total of dn to zero or start it at zero *)
Definition touches_floor (dn : Z) (o : Op) : Prop :=
  match o with
  | OUndelegate _ _ d _ => d = dn
  | OCreateAlliance m => m_denom m = dn
  | EGenesisAsset a => a_denom a = dn
  | _ => False
  end.

(* what is assumed of the state: assets well-keyed with valid parameters, totals >= 0, and the asset dn,
   if there, has a positive total *)
Definition Positive (dn : Z) (s : State) : Prop := J (lo1 dn) s.

(* every state, every operation that is not an Undelegate of dn (nor the creation of dn): a positive staked
   total of dn stays positive (and the other totals stay non-negative) *)
Theorem total_stays_positive dn s o :
  Positive dn s -> ~ touches_floor dn o -> (match o with EGenesisAsset a => AV (lo1 dn) a | _ => True end) ->
  Positive dn (fst (step s o)) /\
  forall a, kget (assets (fst (step s o))) [dn] = Some a -> 0 < a_tokens a.
Proof.
  intros Hs Hn Hg. assert (Hok : op_ok (lo1 dn) o).
  { destruct o; cbn [op_ok touches_floor] in *; try exact I; try exact Hg.
    - unfold lo1. destruct (denom =? dn) eqn:E; [apply Z.eqb_eq in E; contradiction | reflexivity].
    - unfold lo1. destruct (m_denom m =? dn) eqn:E; [apply Z.eqb_eq in E; contradiction | reflexivity]. }
  pose proof (step_J (lo1 dn) (lo1_range dn) s o Hs Hok) as H. split; [exact H|].
  intros a E. pose proof (J_floor (lo1 dn) _ _ _ H E) as Hf. unfold lo1 in Hf. rewrite Z.eqb_refl in Hf. lia.
Qed.

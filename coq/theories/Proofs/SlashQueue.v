(* SlashQueue.v — C07: what the slash callback does to the pending unbondings, exactly.
   In every reachable state, when the callback returns normally, every bucket of the
   unbonding queue is the entry-wise image of the abstract slash [slash_entry_spec]:
   entries of the slashed validator that have not matured lose floor(f * balance), once;
   every other entry (other validators, matured buckets) is unchanged. *)
From Coq Require Import ZArith List Bool Lia.
From Alliance Require Import Num KMap KMapFacts KMapSorted Types Monad Model Step Spec Hoare.
From Alliance.Proofs Require Import SortedInv WellKeyed Queues IndexSync.
Import ListNotations.
Open Scope Z_scope.

Section Slash.
  Variables (v f t : Z).

  Definition slashed (e : Undel) : Undel := set_u_amount (u_amount e - dtrunc (dmul_int f (u_amount e))) e.
  Definition g (dn : Z) (e : Undel) : Undel := if (u_val e =? v) && (u_denom e =? dn) then slashed e else e.

  (* ---------- the inner loop returns the image of the bucket ---------- *)
  Lemma entries_value dn : forall rest acc s,
    match mfold rest acc (slash_entry_fn v dn f) s with
    | Ok acc' s' => acc' = acc ++ map (g dn) rest /\ undelq s' = undelq s /\ undelidx s' = undelidx s
    | _ => True
    end.
  Proof.
    induction rest as [|e rest IH]; intros acc s; cbn [mfold map].
    - cbn. rewrite app_nil_r. auto.
    - unfold bind at 1. unfold slash_entry_fn at 1, g at 1.
      destruct ((u_val e =? v) && (u_denom e =? dn)) eqn:Em; cbn [negb].
      + cbv zeta. set (tok := dtrunc (dmul_int f (u_amount e))).
        unfold bind at 1. destruct ((u_amount e - tok <? 0) || (tok <? 0)); cbn [panic ret]; [exact I|].
        unfold bind at 1. unfold coin1. destruct (tok <? 0); cbn [panic ret]; [exact I|].
        unfold bind at 1.
        pose proof (Pqf (undelq s) (undelidx s)) as Hf.
        assert (Hb : inv (Pq (undelq s) (undelidx s)) (bank_send ACC_ALLIANCE ACC_FEE (if tok =? 0 then [] else [(u_denom e, tok)])))
          by (inv_deep Hf).
        specialize (Hb s (conj eq_refl eq_refl)).
        destruct (bank_send ACC_ALLIANCE ACC_FEE _ s) as [x s1|? ?|? ?]; try exact I. cbn [ret].
        destruct Hb as [E1 E2]. change (set_u_amount (u_amount e - tok) e) with (slashed e). specialize (IH (acc ++ [slashed e]) s1).
        destruct (mfold rest (acc ++ [slashed e]) (slash_entry_fn v dn f) s1); auto.
        destruct IH as (-> & E3 & E4). rewrite <- app_assoc. cbn [app]. repeat split; congruence.
      + cbn [ret]. specialize (IH (acc ++ [e]) s). destruct (mfold rest (acc ++ [e]) (slash_entry_fn v dn f) s); auto.
        destruct IH as (-> & E3 & E4). rewrite <- app_assoc. cbn [app]. auto.
  Qed.

  (* ---------- the outer loop as a pure fold over the index keys ---------- *)
  Definition apply_key (Q : KMap (list Undel)) (ku : Key * unit) : KMap (list Undel) :=
    match fst ku with
    | [_; ct; dn; del] =>
      if ct <? t then Q
      else kset Q [ct; del] (map (g dn) (match kget Q [ct; del] with Some l => l | None => [] end))
    | _ => Q
    end.

  Definition loop_body (ku : Key * unit) : M unit :=
    match fst ku with
    | [_; ct; dn; del] =>
      if ct <? t then ret tt
      else
        ob <- gets (fun s => kget (undelq s) [ct; del]) ;;
        let entries := match ob with Some l => l | None => [] end in
        entries' <- mfold entries [] (slash_entry_fn v dn f) ;;
        modify (fun s => set_undelq (kset (undelq s) [ct; del] entries') s)
    | _ => fail E_MISSING_RECORD
    end.

  Lemma loop_value : forall K s,
    match mfor K loop_body s with
    | Ok _ s' => undelq s' = fold_left apply_key K (undelq s) /\ undelidx s' = undelidx s
    | _ => True
    end.
  Proof.
    induction K as [|ku K IH]; intros s; cbn [mfor fold_left]; [cbn; auto|].
    remember (apply_key (undelq s) ku) as Q1 eqn:EQ1. unfold apply_key in EQ1.
    unfold bind at 1. unfold loop_body at 1.
    destruct (fst ku) as [|v0 [|ct [|dn [|del [|]]]]]; cbn [fail]; try exact I.
    destruct (ct <? t).
    - cbn [ret]. subst Q1. apply IH.
    - unfold bind at 1, gets at 1. unfold bind at 1.
      pose proof (entries_value dn (match kget (undelq s) [ct; del] with Some l => l | None => [] end) [] s) as He.
      destruct (mfold _ [] (slash_entry_fn v dn f) s) as [entries' s1|? ?|? ?]; try exact I.
      destruct He as (-> & E1 & E2). cbn [app modify].
      specialize (IH (set_undelq (kset (undelq s1) [ct; del] (map (g dn) (match kget (undelq s) [ct; del] with Some l => l | None => [] end))) s1)).
      destruct (mfor K loop_body _); auto. cbn [undelq undelidx set_undelq] in IH. rewrite E1, E2 in IH. subst Q1. exact IH.
  Qed.

  (* ---------- the fold, bucket by bucket ---------- *)
  (* entries whose index key was already visited are slashed (if the bucket has not matured) *)
  Definition key_of (ct dl : Z) (e : Undel) : Key := [u_val e; ct; u_denom e; dl].
  Definition hP (P : list Key) (ct dl : Z) (e : Undel) : Undel :=
    if (u_val e =? v) && (t <=? ct) && key_in (key_of ct dl e) P then slashed e else e.

  Lemma key_in_app k P1 P2 : key_in k (P1 ++ P2) = key_in k P1 || key_in k P2.
  Proof. unfold key_in. apply existsb_app. Qed.
  Lemma keqb_eq a b : keqb a b = true <-> a = b.
  Proof. unfold keqb. split; [destruct (kcmp a b) eqn:E; try discriminate; intros _; apply kcmp_eq; exact E | intros ->; rewrite kcmp_refl; reflexivity]. Qed.
  Lemma key_in_true k P : key_in k P = true <-> In k P.
  Proof.
    unfold key_in. rewrite existsb_exists. split.
    - intros (x & Hin & Hx). apply keqb_eq in Hx. subst; exact Hin.
    - intros Hin. exists k. split; [exact Hin | apply keqb_eq; reflexivity].
  Qed.

  Definition Img (Q0 Q : KMap (list Undel)) (P : list Key) : Prop :=
    forall ct dl l, kget Q0 [ct; dl] = Some l -> kget Q [ct; dl] = Some (map (hP P ct dl) l).

  Lemma hP_ids P ct dl e : u_val (hP P ct dl e) = u_val e /\ u_denom (hP P ct dl e) = u_denom e.
  Proof. unfold hP. destruct (_ && _ && _); cbn; auto. Qed.

  Lemma img_skip Q0 Q P k : Img Q0 Q P -> (forall ct dl e, key_of ct dl e <> k) -> Img Q0 Q (P ++ [k]).
  Proof.
    intros Himg Hk ct' dl' l Hg. rewrite (Himg _ _ _ Hg). f_equal. apply map_ext. intros e. unfold hP. rewrite key_in_app.
    assert (E : key_in (key_of ct' dl' e) [k] = false).
    { destruct (key_in (key_of ct' dl' e) [k]) eqn:Ei; [|reflexivity]. apply key_in_true in Ei. destruct Ei as [Ei|[]]. exfalso. exact (Hk _ _ _ (eq_sym Ei)). }
    rewrite E, Bool.orb_false_r. reflexivity.
  Qed.

  Lemma img_step Q0 Q P ku : ksorted Q -> Img Q0 Q P -> ~ In (fst ku) P ->
    (match fst ku with [v'; ct; dn; del] => v' = v | _ => True end) ->
    Img Q0 (apply_key Q ku) (P ++ [fst ku]).
  Proof.
    intros Hs Himg Hnin Hk. unfold apply_key.
    destruct (fst ku) as [|v0 [|ct [|dn [|del [|]]]]] eqn:Ek;
      try (apply img_skip; [exact Himg | intros ? ? ?; unfold key_of; discriminate]).
    subst v0.
    destruct (ct <? t) eqn:Et.
    - (* matured: skipped; hP ignores the key because t <=? ct is false *)
      intros ct' dl' l Hg. rewrite (Himg _ _ _ Hg). f_equal. apply map_ext. intros e. unfold hP. rewrite key_in_app.
      destruct (u_val e =? v); [|reflexivity]. destruct (t <=? ct') eqn:E2; [|reflexivity]. cbn [andb].
      set (b := key_in _ (_ :: nil)).
      assert (Hb : b = false).
      { unfold b. apply Bool.not_true_is_false. intros Ein. apply key_in_true in Ein. destruct Ein as [Ein|[]].
        unfold key_of in Ein. inversion Ein; subst. apply Z.ltb_lt in Et. apply Z.leb_le in E2. lia. }
      rewrite Hb, Bool.orb_false_r. reflexivity.
    - apply Z.ltb_ge in Et.
      intros ct' dl' l Hg. destruct (list_eq_dec Z.eq_dec [ct'; dl'] [ct; del]) as [E|Hne].
      + inversion E; subst ct' dl'. rewrite kget_kset_same. rewrite (Himg _ _ _ Hg). f_equal. rewrite map_map. apply map_ext. intros e.
        destruct (hP_ids P ct del e) as [Hv Hd]. unfold g. rewrite Hv, Hd.
        assert (E2 : t <=? ct = true) by (apply Z.leb_le; lia).
        unfold hP. rewrite key_in_app. set (b := key_in _ (_ :: nil)).
        assert (Hb : b = (u_val e =? v) && (u_denom e =? dn)).
        { unfold b. apply Bool.eq_iff_eq_true. rewrite key_in_true, Bool.andb_true_iff, !Z.eqb_eq. unfold key_of. split.
          - intros [Hi|[]]. inversion Hi. split; congruence.
          - intros [H1 H2]. left. congruence. }
        rewrite Hb, E2. destruct (u_val e =? v) eqn:Ev; destruct (u_denom e =? dn) eqn:Ed; cbn [andb orb]; rewrite ?Bool.orb_false_r; try reflexivity.
        apply Z.eqb_eq in Ev, Ed.
        assert (HnP : key_in (key_of ct del e) P = false).
        { apply Bool.not_true_is_false. intros Ei. apply key_in_true in Ei. apply Hnin. unfold key_of in Ei. rewrite Ev, Ed in Ei. exact Ei. }
        rewrite HnP. cbn [orb]. reflexivity.
      + rewrite kget_kset_other by (auto). rewrite (Himg _ _ _ Hg). f_equal. apply map_ext. intros e. unfold hP. rewrite key_in_app.
        set (b := key_in _ (_ :: nil)).
        assert (Hb : b = false).
        { unfold b. apply Bool.not_true_is_false. intros Ei. apply key_in_true in Ei. destruct Ei as [Ei|[]].
          unfold key_of in Ei. inversion Ei; subst. apply Hne; reflexivity. }
        rewrite Hb, Bool.orb_false_r. reflexivity.
  Qed.

  Lemma ksorted_apply_key Q ku : ksorted Q -> ksorted (apply_key Q ku).
  Proof.
    intros H. unfold apply_key. destruct (fst ku) as [|v0 [|ct [|dn [|del [|]]]]]; try exact H.
    destruct (ct <? t); [exact H | apply ksorted_kset; exact H].
  Qed.

  Lemma img_fold Q0 : forall K P Q, ksorted Q -> Img Q0 Q P -> NoDup (P ++ map fst K) ->
    Forall (fun ku => match fst ku with [v'; _; _; _] => v' = v | _ => True end) K ->
    Img Q0 (fold_left apply_key K Q) (P ++ map fst K).
  Proof.
    induction K as [|ku K IH]; intros P Q Hs Himg Hnd Hv; cbn [fold_left map].
    - rewrite app_nil_r. exact Himg.
    - inversion Hv as [|? ? Hku HvK]; subst.
      replace (P ++ fst ku :: map fst K) with ((P ++ [fst ku]) ++ map fst K) by (rewrite <- app_assoc; reflexivity).
      apply IH.
      + apply ksorted_apply_key; exact Hs.
      + apply img_step; [exact Hs | exact Himg | | exact Hku].
        cbn [map] in Hnd. apply NoDup_remove_2 in Hnd. intros Hin. apply Hnd. apply in_or_app. left; exact Hin.
      + rewrite <- app_assoc. exact Hnd.
      + exact HvK.
  Qed.
End Slash.

Lemma ksorted_NoDup_keys {V} (m : KMap V) : ksorted m -> NoDup (map fst m).
Proof.
  intros H; induction m as [|[k x] m IH]; cbn; [constructor|].
  apply ksorted_inv in H. destruct H as [Hm Hall]. constructor; [|apply IH; exact Hm].
  intros Hin. apply in_map_iff in Hin. destruct Hin as ([k' x'] & Hk & Hin). cbn in Hk. subst k'.
  rewrite Forall_forall in Hall. specialize (Hall _ Hin). cbn in Hall. exact (klt_irrefl _ Hall).
Qed.

Lemma kprefix1 v k : kprefix [v] k = true -> exists r, k = v :: r.
Proof. destruct k as [|x r]; cbn; [discriminate|]. rewrite Bool.andb_true_r. intros H. apply Z.eqb_eq in H. subst. eauto. Qed.

(* C07: in a state where every pending entry has its index key (IS: every reachable state), a
   slash of v by f that returns normally leaves every bucket as the entry-wise image of the
   abstract slash, and does not touch the index *)
Theorem slash_undelegations_exact v f s : IS s ->
  match slash_undelegations v f s with
  | Ok _ s' =>
    (forall ct dl l, kget (undelq s) [ct; dl] = Some l ->
       kget (undelq s') [ct; dl] = Some (map (slash_entry_spec v f (now s) ct) l)) /\ undelidx s' = undelidx s
  | _ => True
  end.
Proof.
  intros (Hq & Hi & Hall).
  set (K := kfilter (kprefix [v]) (undelidx s)).
  change (slash_undelegations v f s) with (mfor K (loop_body v f (now s)) s).
  pose proof (loop_value v f (now s) K s) as Hl. destruct (mfor K (loop_body v f (now s)) s) as [x s'|? ?|? ?]; try exact I.
  destruct Hl as [Hl1 Hl2]. split; [|exact Hl2]. intros ct dl l Hg. rewrite Hl1.
  assert (Hnd : NoDup ([] ++ map fst K)).
  { cbn. unfold K, kfilter. apply ksorted_NoDup_keys. apply ksorted_filter. exact Hi. }
  assert (Hv : Forall (fun ku => match fst ku with [v'; _; _; _] => v' = v | _ => True end) K).
  { apply Forall_forall. intros [k u] Hin. unfold K, kfilter in Hin. apply filter_In in Hin. destruct Hin as [_ Hp]. cbn [fst] in *.
    destruct (kprefix1 _ _ Hp) as (r & ->). destruct r as [|a [|b [|c [|]]]]; auto. }
  assert (Himg0 : Img v f (now s) (undelq s) (undelq s) []).
  { intros ct' dl' l' Hg'. rewrite Hg'. f_equal. rewrite <- (map_id l') at 1. apply map_ext. intros e. unfold hP. cbn. rewrite Bool.andb_false_r. reflexivity. }
  pose proof (img_fold v f (now s) (undelq s) K [] (undelq s) Hq Himg0 Hnd Hv ct dl l Hg) as H. cbn [app] in H. rewrite H.
  f_equal. apply map_ext_in. intros e Hin. unfold hP, slash_entry_spec, slashed.
  destruct (u_val e =? v) eqn:Ev; [|reflexivity]. destruct (now s <=? ct); [|reflexivity]. cbn [andb].
  (* the entry's key is in the index (IS) and has the validator as its first component *)
  destruct (kall_kget _ _ _ _ Hall Hg) as (ct' & dl' & Ek & Hok). inversion Ek; subst ct' dl'.
  rewrite Forall_forall in Hok. destruct (Hok e Hin) as [_ Hidx].
  assert (HinK : key_in (key_of ct dl e) (map fst K) = true).
  { apply key_in_true. unfold key_of. apply in_map_iff. exists ([u_val e; ct; u_denom e; dl], tt). split; [reflexivity|].
    unfold K, kfilter. apply filter_In. split.
    - clear - Hidx Hi. induction (undelidx s) as [|[k0 []] m IH]; [discriminate|]. cbn [kget] in Hidx.
      apply ksorted_inv in Hi. destruct Hi as [Hm _].
      destruct (kcmp [u_val e; ct; u_denom e; dl] k0) eqn:E; [apply kcmp_eq in E; subst; left; reflexivity | discriminate | right; apply IH; assumption].
    - cbn [fst kprefix]. apply Z.eqb_eq in Ev. rewrite Ev, Z.eqb_refl. reflexivity. }
  rewrite HinK. reflexivity.
Qed.

(* ---------- the whole callback ---------- *)
Section Hook.
  Variable s0 : State.
  Definition Pre (s : State) : Prop := IS s /\ undelq s = undelq s0 /\ undelidx s = undelidx s0 /\ now s = now s0.
  Definition pre_proj (s : State) := (undelq s, undelidx s, now s).
  Lemma Pre_f : forall s s', pre_proj s' = pre_proj s -> Pre s -> Pre s'.
  Proof.
    unfold pre_proj, Pre, IS. intros s s' E (H1 & H2 & H3 & H4). inversion E as [[E1 E2 E3]]. rewrite E1, E2, E3. auto.
  Qed.
  Definition Post (v f : Z) (s' : State) : Prop :=
    forall ct dl l, kget (undelq s0) [ct; dl] = Some l ->
      kget (undelq s') [ct; dl] = Some (map (slash_entry_spec v f (now s0) ct) l).

  Lemma hook_slash_exact v f : hoare Pre (hook_slash v f) (fun _ => Post v f) (fun _ => True).
  Proof.
    unfold hook_slash.
    eapply hoare_bind with (Q1 := fun _ => Post v f); [|intros _; apply hoare_modify; intros s H; exact H].
    unfold slash_validator. destruct ((f <=? 0) || (ONE <? f)); [apply hoare_fail; auto|].
    eapply hoare_bind with (Q1 := fun _ => Pre); [apply inv_hoare_true; inv_deep Pre_f|]. intros [sv vi].
    eapply hoare_bind with (Q1 := fun _ => Pre); [apply inv_hoare_true; inv_deep Pre_f|]. intros vs'.
    eapply hoare_bind with (Q1 := fun _ => Pre); [apply inv_hoare_true; inv_deep Pre_f|]. intros _.
    eapply hoare_bind with (Q1 := fun _ => Pre); [apply inv_hoare_true; inv_deep Pre_f|]. intros _.
    intros s (His & Eq & Ei & En). pose proof (slash_undelegations_exact v f s His) as H.
    destruct (slash_undelegations v f s); auto. destruct H as [H _]. unfold Post. rewrite <- Eq, <- En. exact H.
  Qed.
End Hook.

(* C07, unbonding half, for every reachable state: when the slash callback returns normally every
   bucket of the queue is the entry-wise image of the abstract slash *)
Theorem slash_callback_exact_on_unbondings h v f : let s := run init_state h in
  match hook_slash v f s with
  | Ok _ s' => forall ct dl l, kget (undelq s) [ct; dl] = Some l ->
                 kget (undelq s') [ct; dl] = Some (map (slash_entry_spec v f (now s) ct) l)
  | _ => True
  end.
Proof.
  intros s. pose proof (hook_slash_exact s v f s) as H.
  assert (Hpre : Pre s s) by (split; [apply run_IS, IS_init | auto]).
  specialize (H Hpre). destruct (hook_slash v f s); auto.
Qed.

(* RedelSync.v — C15: every redelegation record has an entry in the time queue at its completion time
   (all reachable states), hence when CompleteRedelegations has run no record with a completion time
   strictly before the block time is left, and the "no onward hop" restriction it imposed is lifted:
   whatever still blocks a delegator is a redelegation that is really pending. *)
From Coq Require Import ZArith List Bool Lia.
From Alliance Require Import Num KMap KMapFacts KMapSorted Types Monad Model Step Spec Hoare.
From Alliance.Proofs Require Import SortedInv Queues RedelCleanup UndelCleanup IndexSync2 QueriesExact.
Import ListNotations.
Open Scope Z_scope.

Definition rec_ok (Q : KMap (list Redel)) (k : Key) (_ : Redel) : Prop :=
  exists del dn dst ct l e, k = [del; dn; dst; ct] /\ kget Q [ct] = Some l /\ In e l /\
                            r_del e = del /\ r_denom e = dn /\ r_dst e = dst.
Definition RQS (s : State) : Prop :=
  ksorted (redels s) /\ ksorted (redelidx s) /\ ksorted (redelq s) /\ kall (rec_ok (redelq s)) (redels s).
Definition rqs_proj (s : State) := (redels s, redelidx s, redelq s).
Lemma RQS_f : forall s s', rqs_proj s' = rqs_proj s -> RQS s -> RQS s'.
Proof. unfold rqs_proj, RQS; intros s s' E H. inversion E as [[E1 E2 E3]]. rewrite E1, E2, E3. exact H. Qed.

Lemma rec_ok_kset Q K l' k r : ksorted Q ->
  (forall l e, kget Q K = Some l -> In e l -> In e l') -> rec_ok Q k r -> rec_ok (kset Q K l') k r.
Proof.
  intros Hs Hl (del & dn & dst & ct & l & e & -> & Hg & Hin & H1 & H2 & H3).
  destruct (list_eq_dec Z.eq_dec [ct] K) as [E|Hne].
  - subst K. exists del, dn, dst, ct, l', e. rewrite kget_kset_same. repeat split; auto. exact (Hl l e Hg Hin).
  - exists del, dn, dst, ct, l, e. rewrite kget_kset_other by assumption. repeat split; auto.
Qed.

(* addRedelegation + queueRedelegation: record and queue entry together *)
Lemma rqs_add_redelegation del src dst dn amt ct : inv RQS (add_redelegation del src dst dn amt ct).
Proof.
  unfold add_redelegation, queue_redelegation. intros s (Hr & Hi & Hq & Hall). unfold bind, modify. cbn [ret].
  unfold RQS. cbn [redels redelq redelidx set_redels set_redelidx set_redelq].
  set (old := match kget (redelq s) [ct] with Some l => l | None => [] end).
  assert (Hkeep : forall l e, kget (redelq s) [ct] = Some l -> In e l -> In e (old ++ [mkRedel del src dst dn amt])).
  { intros l e Hg Hin. apply in_or_app. left. unfold old. rewrite Hg. exact Hin. }
  split; [apply ksorted_kset; exact Hr|]. split; [apply ksorted_kset; exact Hi|]. split; [apply ksorted_kset; exact Hq|].
  apply kall_kset.
  - unfold kall in *. eapply Forall_impl; [|exact Hall]. intros [k0 r0]; cbn. apply rec_ok_kset; assumption.
  - exists del, dn, dst, ct, (old ++ [mkRedel del src dst dn amt]), (mkRedel del src dst dn amt).
    rewrite kget_kset_same. repeat split; auto. apply in_or_app. right. left. reflexivity.
Qed.

(* ---------- CompleteRedelegations ---------- *)
Definition Y1 (Q : KMap (list Redel)) (s : State) : Prop :=
  ksorted (redels s) /\ ksorted (redelidx s) /\ redelq s = Q /\ kall (rec_ok Q) (redels s).
Lemma y1_del Q ct r : hoare (Y1 Q) (del_entry ct r) (fun _ => Y1 Q) (fun _ => False).
Proof.
  apply hoare_modify. intros s (Hr & Hi & HQ & Hall). unfold Y1. cbn [redels redelq redelidx set_redels set_redelidx].
  split; [apply ksorted_kdel; exact Hr|]. split; [apply ksorted_kdel; exact Hi|]. split; [exact HQ|]. apply kall_kdel. exact Hall.
Qed.

Lemma rqs_body ct l :
  hoare (fun s => RQS s /\ kget (redelq s) [ct] = Some l) (redel_body ([ct], l)) (fun _ => RQS) (fun _ => False).
Proof.
  intros s [(Hr & Hi & Hq & Hall) Hg]. rewrite redel_body_unfold. unfold bind at 1.
  pose proof (hoare_mfor _ _ (fun _ => False) l (del_entry ct) (y1_del (redelq s) ct) s (conj Hr (conj Hi (conj eq_refl Hall)))) as P1.
  assert (P2 : forall r0, In r0 l -> match mfor l (del_entry ct) s with Ok _ s1 => RGone (rkey ct r0) (ikey ct r0) s1 | _ => False end).
  { intros r0 Hin. exact (RedelCleanup.hits_entries ct r0 l Hin s (conj Hr Hi)). }
  destruct (mfor l (del_entry ct) s) as [[] s1|e s1|e s1]; try contradiction.
  destruct P1 as (Hr1 & Hi1 & Hq1 & Hall1). cbn [modify].
  unfold RQS. cbn [redels redelq redelidx set_redelq]. rewrite Hq1.
  split; [exact Hr1|]. split; [exact Hi1|]. split; [apply ksorted_kdel; exact Hq|].
  unfold kall in *. apply Forall_forall. intros [k r] Hin. cbn [fst snd]. rewrite Forall_forall in Hall1.
  destruct (Hall1 _ Hin) as (del & dn & dst & ct' & l0 & e & Ek & Hg0 & Hin0 & H1 & H2 & H3). cbn [fst] in Ek. subst k.
  destruct (Z.eq_dec ct' ct) as [->|Hne].
  - rewrite Hg in Hg0. inversion Hg0; subst l0. exfalso.
    pose proof (P2 e Hin0) as (_ & Hgone & _). unfold rkey in Hgone. rewrite H1, H2, H3 in Hgone.
    pose proof (kget_in_sorted _ _ _ Hr1 Hin) as Hsome. rewrite Hgone in Hsome. discriminate.
  - exists del, dn, dst, ct', l0, e. rewrite kget_kdel_other; [|exact Hq|congruence]. repeat split; auto.
Qed.

Definition OLR (rest : KMap (list Redel)) (s : State) : Prop :=
  RQS s /\ Forall (fun kv => kget (redelq s) (fst kv) = Some (snd kv)) rest.
Lemma olr_loop : forall rest, NoDup (map fst rest) -> Forall (fun kv => exists ct, fst kv = [ct]) rest ->
  hoare (OLR rest) (mfor rest redel_body) (fun _ => RQS) (fun _ => False).
Proof.
  induction rest as [|[k l] rest IH]; intros Hnd Hshape; cbn [mfor]; [apply hoare_ret; intros s H; unfold OLR in H; tauto|].
  inversion Hnd as [|? ? Hnot Hnd']; subst. inversion Hshape as [|? ? [ct Hct] Hshape']; subst. cbn [fst] in Hct. subst k.
  eapply hoare_bind with (Q1 := fun _ => OLR rest); [|intros _; apply IH; assumption].
  intros s HOL. unfold OLR in HOL. destruct HOL as (Hrqs & Hall). inversion Hall as [|? ? Hk Hrest]; subst. cbn [fst snd] in Hk.
  assert (B3' : match redel_body ([ct], l) s with Ok _ s' => redelq s' = kdel (redelq s) [ct] | _ => True end).
  { rewrite redel_body_unfold. unfold bind at 1.
    assert (F : hoare (RQis (redelq s)) (mfor l (del_entry ct)) (fun _ => RQis (redelq s)) (fun _ => False)).
    { apply hoare_mfor. intros r. apply hoare_modify. intros s0 H0; exact H0. }
    specialize (F s eq_refl). destruct (mfor l (del_entry ct) s) as [[] s1| |]; try exact I. cbn. unfold RQis in F. rewrite F. reflexivity. }
  match goal with |- match ?m with _ => _ end =>
    assert (B2 : match m with Ok _ s' => RQS s' | _ => False end) by exact (rqs_body ct l s (conj Hrqs Hk));
    assert (B3 : match m with Ok _ s' => redelq s' = kdel (redelq s) [ct] | _ => True end) by exact B3';
    destruct m as [[] s'|e s'|e s']; try contradiction
  end.
  cbv beta. unfold OLR. split; [exact B2|].
  apply Forall_forall. intros [k' l'] Hin. cbn [fst snd]. rewrite B3. rewrite Forall_forall in Hrest.
  destruct Hrqs as (_ & _ & Hq & _).
  rewrite kget_kdel_other; [exact (Hrest _ Hin) | exact Hq|].
  intros E. subst k'. apply Hnot. apply in_map_iff. exists ([ct], l'). split; [reflexivity | exact Hin].
Qed.

Lemma rqs_complete_redelegations : inv RQS complete_redelegations.
Proof.
  apply inv_of_hoare. rewrite complete_redelegations_unfold.
  eapply hoare_bind with (Q1 := fun _ => RQS); [apply hoare_gets; auto|]. intros t.
  apply hoare_bind_gets_eq. intros s0 Hs0.
  set (q := kfilter (fun k => match k with [ct] => ct <? t | _ => false end) (redelq s0)).
  destruct Hs0 as (Hr & Hi & Hq & Hall).
  assert (Hnd : NoDup (map fst q)).
  { apply SlashQueue.ksorted_NoDup_keys. unfold q, kfilter. apply ksorted_filter. exact Hq. }
  assert (Hshape : Forall (fun kv => exists ct, fst kv = [ct]) q).
  { apply Forall_forall. intros kv Hin. unfold q, kfilter in Hin. apply filter_In in Hin. destruct Hin as [_ H].
    destruct kv as [k l]; cbn [fst] in *. destruct k as [|ct [|? ?]]; try discriminate. eauto. }
  assert (Hqq : Forall (fun kv => kget (redelq s0) (fst kv) = Some (snd kv)) q).
  { apply Forall_forall. intros [k l] Hin. unfold q, kfilter in Hin. apply filter_In in Hin. destruct Hin as [Hin _].
    cbn [fst snd]. apply kget_in_sorted; assumption. }
  apply (hoare_pre _ _ (OLR q)); [intros s ->; unfold OLR, RQS; auto|].
  eapply hoare_post; [| |apply (olr_loop q Hnd Hshape)]; [intros ? s H; exact H | intros s []].
Qed.

(* ---------- everything else: neither the records nor the queue are touched ---------- *)
Ltac rqs_step :=
  first
    [ lazymatch goal with
      | |- inv _ (add_redelegation _ _ _ _ _ _) => apply rqs_add_redelegation
      | |- inv _ complete_redelegations => apply rqs_complete_redelegations
      | |- inv _ (modify _) =>
        apply inv_modify; let s := fresh "s" in let Hs := fresh "Hs" in
        intros s Hs; apply (RQS_f s); [reflexivity | exact Hs]
      end
    | inv_step
    | lazymatch goal with |- inv _ ?m => let h := head_of m in unfold h end ].
Ltac rqs_auto := repeat rqs_step.

Lemma RQS_end_blocker : inv RQS end_blocker.                              Proof. rqs_auto. Qed.
Lemma RQS_msg_delegate a b c d : inv RQS (msg_delegate a b c d).          Proof. rqs_auto. Qed.
Lemma RQS_msg_undelegate a b c d : inv RQS (msg_undelegate a b c d).      Proof. rqs_auto. Qed.
Lemma RQS_msg_redelegate a b c d e : inv RQS (msg_redelegate a b c d e).  Proof. rqs_auto. Qed.
Lemma RQS_msg_claim a b c : inv RQS (msg_claim a b c).                    Proof. rqs_auto. Qed.
Lemma RQS_msg_create m : inv RQS (msg_create_alliance m).                 Proof. rqs_auto. Qed.
Lemma RQS_msg_update m : inv RQS (msg_update_alliance m).                 Proof. rqs_auto. Qed.
Lemma RQS_msg_delete a b : inv RQS (msg_delete_alliance a b).             Proof. rqs_auto. Qed.
Lemma RQS_msg_params a b c d : inv RQS (msg_update_params a b c d).       Proof. rqs_auto. Qed.
Lemma RQS_hook_slash v f : inv RQS (hook_slash v f).                      Proof. rqs_auto. Qed.

Theorem step_RQS s o : RQS s -> RQS (fst (step s o)).
Proof.
  intros Hs. assert (W : forall (m : M unit), inv RQS m -> RQS (fst (clear_oracle (tx m s))) /\ RQS (fst (clear_oracle (hook m s))) /\ RQS (fst (clear_oracle (endblock m s)))).
  { intros m Hm. specialize (Hm s Hs). unfold tx, hook, endblock, clear_oracle. destruct (m s) as [[] s'|e s'|e s']; cbn; (split; [|split]); first [exact Hm | exact Hs]. }
  destruct o; cbn [step fst]; try exact Hs.
  - apply (W _ RQS_end_blocker).
  - apply (W _ (RQS_msg_delegate _ _ _ _)).
  - apply (W _ (RQS_msg_undelegate _ _ _ _)).
  - apply (W _ (RQS_msg_redelegate _ _ _ _ _)).
  - apply (W _ (RQS_msg_claim _ _ _)).
  - apply (W _ (RQS_msg_create _)).
  - apply (W _ (RQS_msg_update _)).
  - apply (W _ (RQS_msg_delete _ _)).
  - apply (W _ (RQS_msg_params _ _ _ _)).
  - apply (W _ (RQS_hook_slash _ _)).
  - eapply RQS_f; [|exact Hs]. unfold rqs_proj.
    match goal with |- (redels (fold_left _ ?ss (fold_left _ ?bs s)), _, _) = _ => generalize bs, ss end.
    intros bs ss. generalize s. induction bs as [|b bs IHb]; intros st; cbn [fold_left].
    + induction ss as [|x ss IHs] in st |- *; cbn [fold_left]; [reflexivity|]. rewrite IHs. reflexivity.
    + rewrite IHb. reflexivity.
Qed.
Theorem run_RQS h : forall s, RQS s -> RQS (run s h).
Proof. induction h as [|o h IH]; intros s Hs; cbn; [exact Hs | apply IH, step_RQS, Hs]. Qed.
Lemma RQS_init : RQS init_state.
Proof. repeat split; constructor. Qed.

(* every redelegation record has an entry in the time queue at its completion time *)
Theorem every_record_is_queued h del dn dst ct r : let s := run init_state h in
  kget (redels s) [del; dn; dst; ct] = Some r ->
  exists l e, kget (redelq s) [ct] = Some l /\ In e l /\ r_del e = del /\ r_denom e = dn /\ r_dst e = dst.
Proof.
  intros s Hg. destruct (run_RQS h init_state RQS_init) as (_ & _ & _ & Hall). fold s in Hall.
  destruct (kall_kget _ _ _ _ Hall Hg) as (del' & dn' & dst' & ct' & l & e & Ek & Hq & Hin & H1 & H2 & H3).
  inversion Ek; subst. exists l, e. auto.
Qed.

(* C15: when CompleteRedelegations has run, every record left completes at or after the block time *)
Theorem no_matured_record_is_left h : let s := run init_state h in
  exists s', complete_redelegations s = Ok tt s' /\
    forall del dn dst ct r, kget (redels s') [del; dn; dst; ct] = Some r -> now s <= ct.
Proof.
  intros s. destruct (complete_redelegations_spec s (reachable_Sorted h)) as (s' & Hrun & Hq').
  exists s'. split; [exact Hrun|]. intros del dn dst ct r Hg.
  pose proof (rqs_complete_redelegations s (run_RQS h init_state RQS_init)) as H. rewrite Hrun in H.
  destruct H as (_ & _ & _ & Hall).
  destruct (kall_kget _ _ _ _ Hall Hg) as (del' & dn' & dst' & ct' & l & e & Ek & Hq & Hin & _).
  inversion Ek; subst ct'. rewrite Hq' in Hq.
  (* the bucket [ct] survived the filter: it is not matured *)
  assert (Hin' : In ([ct], l) (filter (fun kv => negb (redel_matured (now s) kv)) (redelq s))).
  { clear - Hq. set (m := filter _ _) in *. clearbody m. induction m as [|[k0 v0] m IH]; cbn [kget] in Hq; [discriminate|].
    destruct (kcmp [ct] k0) eqn:E; try discriminate.
    - apply kcmp_eq in E. subst k0. inversion Hq; subst. left; reflexivity.
    - right. apply IH. exact Hq. }
  apply filter_In in Hin'. destruct Hin' as [_ Hnm]. unfold redel_matured in Hnm. cbn [fst] in Hnm.
  apply negb_true_iff in Hnm. apply Z.ltb_ge in Hnm. exact Hnm.
Qed.

(* ... hence the restriction is lifted: after that end of block a delegator is blocked from hopping onward
   out of a validator only by a redelegation into it that is really pending *)
Theorem restriction_is_lifted h del dst dn : let s := run init_state h in
  exists s', complete_redelegations s = Ok tt s' /\
    (has_redelegation s' del dst dn = true ->
     exists ct r, kget (redels s') [del; dn; dst; ct] = Some r /\ now s <= ct).
Proof.
  intros s. destruct (no_matured_record_is_left h) as (s' & Hrun & Hleft). fold s in Hrun, Hleft.
  exists s'. split; [exact Hrun|]. intros Hb. unfold has_redelegation in Hb. apply existsb_exists in Hb.
  destruct Hb as ([k r] & Hin & Hp). cbn [fst] in Hp. apply kprefix_spec in Hp. destruct Hp as [rest ->].
  pose proof (rqs_complete_redelegations s (run_RQS h init_state RQS_init)) as H. rewrite Hrun in H.
  destruct H as (Hr & _ & _ & Hall).
  pose proof (kget_in_sorted _ _ _ Hr Hin) as Hg.
  destruct (kall_kget _ _ _ _ Hall Hg) as (del' & dn' & dst' & ct' & l & e & Ek & _).
  cbn [app] in Ek. destruct rest as [|ct [|? ?]]; try discriminate. inversion Ek; subst.
  exists ct', r. split; [exact Hg|]. exact (Hleft _ _ _ _ _ Hg).
Qed.

(* ================= the per-source index: every key has its queue entry and its record ================= *)
Definition ix_ok (R : KMap Redel) (Q : KMap (list Redel)) (k : Key) (_ : unit) : Prop :=
  exists src ct dn dst del l e, k = [src; ct; dn; dst; del] /\ kget Q [ct] = Some l /\ In e l /\
    r_src e = src /\ r_del e = del /\ r_dst e = dst /\ r_denom e = dn /\
    exists r, kget R [del; dn; dst; ct] = Some r.
Definition XI (s : State) : Prop :=
  ksorted (redels s) /\ ksorted (redelidx s) /\ ksorted (redelq s) /\ kall (ix_ok (redels s) (redelq s)) (redelidx s).
Lemma XI_f : forall s s', rqs_proj s' = rqs_proj s -> XI s -> XI s'.
Proof. unfold rqs_proj, XI; intros s s' E H. inversion E as [[E1 E2 E3]]. rewrite E1, E2, E3. exact H. Qed.

Lemma xi_add_redelegation del src dst dn amt ct : inv XI (add_redelegation del src dst dn amt ct).
Proof.
  unfold add_redelegation, queue_redelegation. intros s (Hr & Hi & Hq & Hall). unfold bind, modify. cbn [ret].
  unfold XI. cbn [redels redelq redelidx set_redels set_redelidx set_redelq].
  set (old := match kget (redelq s) [ct] with Some l => l | None => [] end).
  set (rec := match kget (redels s) [del; dn; dst; ct] with None => mkRedel del src dst dn amt | Some r => set_r_amount (r_amount r + amt) r end).
  split; [apply ksorted_kset; exact Hr|]. split; [apply ksorted_kset; exact Hi|]. split; [apply ksorted_kset; exact Hq|].
  assert (Hold : forall k u, ix_ok (redels s) (redelq s) k u ->
            ix_ok (kset (redels s) [del; dn; dst; ct] rec) (kset (redelq s) [ct] (old ++ [mkRedel del src dst dn amt])) k u).
  { intros k u (src' & ct' & dn' & dst' & del' & l & e & -> & Hg & Hin & H1 & H2 & H3 & H4 & r & Hrec).
    exists src', ct', dn', dst', del'.
    destruct (Z.eq_dec ct' ct) as [->|Hne].
    - exists (old ++ [mkRedel del src dst dn amt]), e. rewrite kget_kset_same. repeat split; auto.
      + apply in_or_app. left. unfold old. rewrite Hg. exact Hin.
      + destruct (list_eq_dec Z.eq_dec [del'; dn'; dst'; ct] [del; dn; dst; ct]) as [E|Hn].
        * rewrite E. rewrite kget_kset_same. eauto.
        * rewrite kget_kset_other by assumption. eauto.
    - exists l, e. rewrite kget_kset_other; [|exact Hq|congruence]. repeat split; auto.
      rewrite kget_kset_other; [eauto | exact Hr | congruence]. }
  apply kall_kset.
  - unfold kall in *. eapply Forall_impl; [|exact Hall]. intros [k0 u0]; cbn. apply Hold.
  - exists src, ct, dn, dst, del, (old ++ [mkRedel del src dst dn amt]), (mkRedel del src dst dn amt).
    rewrite !kget_kset_same. repeat split; auto; [apply in_or_app; right; left; reflexivity | eauto].
Qed.

Definition ix_ok1 (ct0 : Z) (R : KMap Redel) (Q : KMap (list Redel)) (k : Key) (_ : unit) : Prop :=
  exists src ct dn dst del l e, k = [src; ct; dn; dst; del] /\ kget Q [ct] = Some l /\ In e l /\
    r_src e = src /\ r_del e = del /\ r_dst e = dst /\ r_denom e = dn /\
    (ct <> ct0 -> exists r, kget R [del; dn; dst; ct] = Some r).
Definition Z1 (ct0 : Z) (Q : KMap (list Redel)) (s : State) : Prop :=
  ksorted (redels s) /\ ksorted (redelidx s) /\ redelq s = Q /\ kall (ix_ok1 ct0 (redels s) Q) (redelidx s).
Lemma z1_del ct0 Q r : hoare (Z1 ct0 Q) (del_entry ct0 r) (fun _ => Z1 ct0 Q) (fun _ => False).
Proof.
  apply hoare_modify. intros s (Hr & Hi & HQ & Hall). unfold Z1. cbn [redels redelq redelidx set_redels set_redelidx].
  split; [apply ksorted_kdel; exact Hr|]. split; [apply ksorted_kdel; exact Hi|]. split; [exact HQ|].
  apply kall_kdel. unfold kall in *. eapply Forall_impl; [|exact Hall]. intros [k u]; cbn [fst snd].
  intros (src & ct & dn & dst & del & l & e & -> & Hg & Hin & H1 & H2 & H3 & H4 & Hrec).
  exists src, ct, dn, dst, del, l, e. repeat split; auto. intros Hne. destruct (Hrec Hne) as [r0 Hr0]. exists r0.
  rewrite kget_kdel_other; [exact Hr0 | exact Hr | congruence].
Qed.

Lemma xi_body ct l :
  hoare (fun s => XI s /\ kget (redelq s) [ct] = Some l) (redel_body ([ct], l)) (fun _ => XI) (fun _ => False).
Proof.
  intros s [(Hr & Hi & Hq & Hall) Hg]. rewrite redel_body_unfold. unfold bind at 1.
  assert (Hz : Z1 ct (redelq s) s).
  { split; [exact Hr|]. split; [exact Hi|]. split; [reflexivity|]. unfold kall in *. eapply Forall_impl; [|exact Hall].
    intros [k u]; cbn [fst snd]. intros (src & ct' & dn & dst & del & l0 & e & -> & Hg0 & Hin & H1 & H2 & H3 & H4 & Hrec).
    exists src, ct', dn, dst, del, l0, e. repeat split; auto. }
  pose proof (hoare_mfor _ _ (fun _ => False) l (del_entry ct) (z1_del ct (redelq s)) s Hz) as P1.
  assert (P2 : forall r0, In r0 l -> match mfor l (del_entry ct) s with Ok _ s1 => RGone (rkey ct r0) (ikey ct r0) s1 | _ => False end).
  { intros r0 Hin. exact (RedelCleanup.hits_entries ct r0 l Hin s (conj Hr Hi)). }
  destruct (mfor l (del_entry ct) s) as [[] s1|e s1|e s1]; try contradiction.
  destruct P1 as (Hr1 & Hi1 & Hq1 & Hall1). cbn [modify].
  unfold XI. cbn [redels redelq redelidx set_redelq]. rewrite Hq1.
  split; [exact Hr1|]. split; [exact Hi1|]. split; [apply ksorted_kdel; exact Hq|].
  unfold kall in *. apply Forall_forall. intros [k u] Hin. cbn [fst snd]. rewrite Forall_forall in Hall1.
  destruct (Hall1 _ Hin) as (src & ct' & dn & dst & del & l0 & e & Ek & Hg0 & Hin0 & H1 & H2 & H3 & H4 & Hrec). cbn [fst] in Ek. subst k.
  destruct (Z.eq_dec ct' ct) as [->|Hne].
  - rewrite Hg in Hg0. inversion Hg0; subst l0. exfalso.
    pose proof (P2 e Hin0) as (_ & _ & Hgone). unfold ikey in Hgone. rewrite H1, H2, H3, H4 in Hgone.
    pose proof (kget_in_sorted _ _ _ Hi1 Hin) as Hsome. rewrite Hgone in Hsome. discriminate.
  - exists src, ct', dn, dst, del, l0, e. rewrite kget_kdel_other; [|exact Hq|congruence]. repeat split; auto.
Qed.

Definition OLX (rest : KMap (list Redel)) (s : State) : Prop :=
  XI s /\ Forall (fun kv => kget (redelq s) (fst kv) = Some (snd kv)) rest.
Lemma olx_loop : forall rest, NoDup (map fst rest) -> Forall (fun kv => exists ct, fst kv = [ct]) rest ->
  hoare (OLX rest) (mfor rest redel_body) (fun _ => XI) (fun _ => False).
Proof.
  induction rest as [|[k l] rest IH]; intros Hnd Hshape; cbn [mfor]; [apply hoare_ret; intros s H; unfold OLX in H; tauto|].
  inversion Hnd as [|? ? Hnot Hnd']; subst. inversion Hshape as [|? ? [ct Hct] Hshape']; subst. cbn [fst] in Hct. subst k.
  eapply hoare_bind with (Q1 := fun _ => OLX rest); [|intros _; apply IH; assumption].
  intros s HOL. unfold OLX in HOL. destruct HOL as (Hxi & Hall). inversion Hall as [|? ? Hk Hrest]; subst. cbn [fst snd] in Hk.
  assert (B3' : match redel_body ([ct], l) s with Ok _ s' => redelq s' = kdel (redelq s) [ct] | _ => True end).
  { rewrite redel_body_unfold. unfold bind at 1.
    assert (F : hoare (RQis (redelq s)) (mfor l (del_entry ct)) (fun _ => RQis (redelq s)) (fun _ => False)).
    { apply hoare_mfor. intros r. apply hoare_modify. intros s0 H0; exact H0. }
    specialize (F s eq_refl). destruct (mfor l (del_entry ct) s) as [[] s1| |]; try exact I. cbn. unfold RQis in F. rewrite F. reflexivity. }
  match goal with |- match ?m with _ => _ end =>
    assert (B2 : match m with Ok _ s' => XI s' | _ => False end) by exact (xi_body ct l s (conj Hxi Hk));
    assert (B3 : match m with Ok _ s' => redelq s' = kdel (redelq s) [ct] | _ => True end) by exact B3';
    destruct m as [[] s'|e s'|e s']; try contradiction
  end.
  cbv beta. unfold OLX. split; [exact B2|].
  apply Forall_forall. intros [k' l'] Hin. cbn [fst snd]. rewrite B3. rewrite Forall_forall in Hrest.
  destruct Hxi as (_ & _ & Hq & _).
  rewrite kget_kdel_other; [exact (Hrest _ Hin) | exact Hq|].
  intros E. subst k'. apply Hnot. apply in_map_iff. exists ([ct], l'). split; [reflexivity | exact Hin].
Qed.

Lemma xi_complete_redelegations : inv XI complete_redelegations.
Proof.
  apply inv_of_hoare. rewrite complete_redelegations_unfold.
  eapply hoare_bind with (Q1 := fun _ => XI); [apply hoare_gets; auto|]. intros t.
  apply hoare_bind_gets_eq. intros s0 Hs0.
  set (q := kfilter (fun k => match k with [ct] => ct <? t | _ => false end) (redelq s0)).
  destruct Hs0 as (Hr & Hi & Hq & Hall).
  assert (Hnd : NoDup (map fst q)).
  { apply SlashQueue.ksorted_NoDup_keys. unfold q, kfilter. apply ksorted_filter. exact Hq. }
  assert (Hshape : Forall (fun kv => exists ct, fst kv = [ct]) q).
  { apply Forall_forall. intros kv Hin. unfold q, kfilter in Hin. apply filter_In in Hin. destruct Hin as [_ H].
    destruct kv as [k l]; cbn [fst] in *. destruct k as [|ct [|? ?]]; try discriminate. eauto. }
  assert (Hqq : Forall (fun kv => kget (redelq s0) (fst kv) = Some (snd kv)) q).
  { apply Forall_forall. intros [k l] Hin. unfold q, kfilter in Hin. apply filter_In in Hin. destruct Hin as [Hin _].
    cbn [fst snd]. apply kget_in_sorted; assumption. }
  apply (hoare_pre _ _ (OLX q)); [intros s ->; unfold OLX, XI; auto|].
  eapply hoare_post; [| |apply (olx_loop q Hnd Hshape)]; [intros ? s H; exact H | intros s []].
Qed.

Ltac xi_step :=
  first
    [ lazymatch goal with
      | |- inv _ (add_redelegation _ _ _ _ _ _) => apply xi_add_redelegation
      | |- inv _ complete_redelegations => apply xi_complete_redelegations
      | |- inv _ (modify _) =>
        apply inv_modify; let s := fresh "s" in let Hs := fresh "Hs" in
        intros s Hs; apply (XI_f s); [reflexivity | exact Hs]
      end
    | inv_step
    | lazymatch goal with |- inv _ ?m => let h := head_of m in unfold h end ].
Ltac xi_auto := repeat xi_step.
Lemma XI_end_blocker : inv XI end_blocker.                              Proof. xi_auto. Qed.
Lemma XI_msg_delegate a b c d : inv XI (msg_delegate a b c d).          Proof. xi_auto. Qed.
Lemma XI_msg_undelegate a b c d : inv XI (msg_undelegate a b c d).      Proof. xi_auto. Qed.
Lemma XI_msg_redelegate a b c d e : inv XI (msg_redelegate a b c d e).  Proof. xi_auto. Qed.
Lemma XI_msg_claim a b c : inv XI (msg_claim a b c).                    Proof. xi_auto. Qed.
Lemma XI_msg_create m : inv XI (msg_create_alliance m).                 Proof. xi_auto. Qed.
Lemma XI_msg_update m : inv XI (msg_update_alliance m).                 Proof. xi_auto. Qed.
Lemma XI_msg_delete a b : inv XI (msg_delete_alliance a b).             Proof. xi_auto. Qed.
Lemma XI_msg_params a b c d : inv XI (msg_update_params a b c d).       Proof. xi_auto. Qed.
Lemma XI_hook_slash v f : inv XI (hook_slash v f).                      Proof. xi_auto. Qed.

Theorem step_XI s o : XI s -> XI (fst (step s o)).
Proof.
  intros Hs. assert (W : forall (m : M unit), inv XI m -> XI (fst (clear_oracle (tx m s))) /\ XI (fst (clear_oracle (hook m s))) /\ XI (fst (clear_oracle (endblock m s)))).
  { intros m Hm. specialize (Hm s Hs). unfold tx, hook, endblock, clear_oracle. destruct (m s) as [[] s'|e s'|e s']; cbn; (split; [|split]); first [exact Hm | exact Hs]. }
  destruct o; cbn [step fst]; try exact Hs.
  - apply (W _ XI_end_blocker).
  - apply (W _ (XI_msg_delegate _ _ _ _)).
  - apply (W _ (XI_msg_undelegate _ _ _ _)).
  - apply (W _ (XI_msg_redelegate _ _ _ _ _)).
  - apply (W _ (XI_msg_claim _ _ _)).
  - apply (W _ (XI_msg_create _)).
  - apply (W _ (XI_msg_update _)).
  - apply (W _ (XI_msg_delete _ _)).
  - apply (W _ (XI_msg_params _ _ _ _)).
  - apply (W _ (XI_hook_slash _ _)).
  - eapply XI_f; [|exact Hs]. unfold rqs_proj.
    match goal with |- (redels (fold_left _ ?ss (fold_left _ ?bs s)), _, _) = _ => generalize bs, ss end.
    intros bs ss. generalize s. induction bs as [|b bs IHb]; intros st; cbn [fold_left].
    + induction ss as [|x ss IHs] in st |- *; cbn [fold_left]; [reflexivity|]. rewrite IHs. reflexivity.
    + rewrite IHb. reflexivity.
Qed.
Theorem run_XI h : forall s, XI s -> XI (run s h).
Proof. induction h as [|o h IH]; intros s Hs; cbn; [exact Hs | apply IH, step_XI, Hs]. Qed.
Lemma XI_init : XI init_state.
Proof. repeat split; constructor. Qed.

(* every key of the per-source index has its record (and its entry in the time queue): the slash of pending
   redelegations never meets a key without record *)
Theorem every_index_key_has_its_record h src ct dn dst del : let s := run init_state h in
  kget (redelidx s) [src; ct; dn; dst; del] = Some tt ->
  (exists r, kget (redels s) [del; dn; dst; ct] = Some r) /\
  (exists l e, kget (redelq s) [ct] = Some l /\ In e l /\ r_src e = src /\ r_del e = del /\ r_dst e = dst /\ r_denom e = dn).
Proof.
  intros s Hg. destruct (run_XI h init_state XI_init) as (_ & _ & _ & Hall). fold s in Hall.
  destruct (kall_kget _ _ _ _ Hall Hg) as (src' & ct' & dn' & dst' & del' & l & e & Ek & Hq & Hin & H1 & H2 & H3 & H4 & r & Hrec).
  inversion Ek; subst. split; [eauto|]. exists l, e. repeat split; auto.
Qed.

(* ================= C08: the callback never meets an index key without record ================= *)
Definition hr (J : State -> Prop) {A} (m : M A) (P : Z -> Prop) : Prop :=
  forall s, J s -> match m s with Ok _ s' => J s' | Err e _ => P e | Panic e _ => P e end.
Lemma hr_of A (J : State -> Prop) (m : M A) P : inv J m -> raises P m -> hr J m P.
Proof. intros Hi Hr s Hs. specialize (Hi s Hs). specialize (Hr s). destruct (m s); auto. Qed.
Lemma hr_mfor_Forall A (J : State -> Prop) (Pe : Z -> Prop) (Pl : A -> Prop) (l : list A) (f : A -> M unit) :
  Forall Pl l -> (forall x, Pl x -> hr J (f x) Pe) -> hr J (mfor l f) Pe.
Proof.
  intros Hl H. induction Hl as [|x l Hx Hl IH]; cbn [mfor]; [intros s Hs; exact Hs|].
  intros s Hs. unfold bind. specialize (H x Hx s Hs). destruct (f x s) as [[] s1|e s1|e s1]; auto. apply IH. exact H.
Qed.
Lemma hr_bind A B (J : State -> Prop) Pe (m : M A) (k : A -> M B) : hr J m Pe -> (forall a, hr J (k a) Pe) -> hr J (bind m k) Pe.
Proof. intros Hm Hk s Hs. unfold bind. specialize (Hm s Hs). destruct (m s) as [a s1|e s1|e s1]; auto. apply Hk. exact Hm. Qed.

Definition NM (e : Z) : Prop := e <> E_MISSING_RECORD.
Definition RI (R : KMap Redel) (s : State) : Prop := redels s = R.
Lemma RI_f R : forall s s', redels s' = redels s -> RI R s -> RI R s'.
Proof. unfold RI; intros; congruence. Qed.

Lemma slash_redelegations_finds_its_records_at s v f : XI s ->
  match slash_redelegations v f s with Err e _ => NM e | Panic e _ => NM e | Ok _ _ => True end.
Proof.
  intros (Hr & Hi & Hq & Hall).
  unfold slash_redelegations. unfold bind at 1, gets at 1. unfold bind at 1, gets at 1.
  set (idx := kfilter (kprefix [v]) (redelidx s)).
  assert (Hidx : Forall (fun ku : Key * unit => exists src ct dn dst del r, fst ku = [src; ct; dn; dst; del] /\ kget (redels s) [del; dn; dst; ct] = Some r) idx).
  { apply Forall_forall. intros [k u] Hin. unfold idx, kfilter in Hin. apply filter_In in Hin. destruct Hin as [Hin _].
    unfold kall in Hall. rewrite Forall_forall in Hall.
    destruct (Hall _ Hin) as (src & ct & dn & dst & del & l & e & Ek & _ & _ & _ & _ & _ & _ & r & Hrec). cbn [fst] in *. eauto 10. }
  match goal with |- match mfor idx ?body s with _ => _ end =>
    assert (H : hr (RI (redels s)) (mfor idx body) NM) end.
  { apply (hr_mfor_Forall _ _ _ _ _ _ Hidx). intros [k u] (src & ct & dn & dst & del & r & Ek & Hrec). cbn [fst] in Ek. subst k. cbn [fst].
    destruct (ct <? now s); [intros s1 H1; exact H1|].
    intros s1 H1. unfold bind at 1, gets at 1. unfold RI in H1. rewrite H1, Hrec.
    match goal with |- match ?m s1 with _ => _ end =>
      assert (Hm : hr (RI (redels s)) m NM) end.
    { apply hr_of; [inv_deep (RI_f (redels s)) | raises_deep ltac:(unfold NM; discriminate)]. }
    exact (Hm s1 H1). }
  specialize (H s eq_refl). destruct (mfor idx _ s); auto.
Qed.
Lemma slash_redelegations_finds_its_records h v f : let s := run init_state h in
  match slash_redelegations v f s with Err e _ => NM e | Panic e _ => NM e | Ok _ _ => True end.
Proof. intros s. apply slash_redelegations_finds_its_records_at. exact (run_XI h init_state XI_init). Qed.

Lemma slash_undelegations_keys_are_well_formed_at s v f : CS2 s ->
  match slash_undelegations v f s with Err e _ => NM e | Panic e _ => NM e | Ok _ _ => True end.
Proof.
  intros (_ & _ & Hall & _).
  unfold slash_undelegations. unfold bind at 1, gets at 1. unfold bind at 1, gets at 1.
  set (idx := kfilter (kprefix [v]) (undelidx s)).
  assert (Hidx : Forall (fun ku : Key * unit => exists a b c d, fst ku = [a; b; c; d]) idx).
  { apply Forall_forall. intros [k u] Hin. unfold idx, kfilter in Hin. apply filter_In in Hin. destruct Hin as [Hin _].
    unfold kall in Hall. rewrite Forall_forall in Hall.
    destruct (Hall _ Hin) as (v' & ct & dn & dl & l & e & Ek & _). cbn [fst] in *. eauto. }
  match goal with |- match mfor idx ?body s with _ => _ end =>
    assert (H : hr (fun _ => True) (mfor idx body) NM) end.
  { apply (hr_mfor_Forall _ _ _ _ _ _ Hidx). intros [k u] (a & b & c & d & Ek). cbn [fst] in Ek. subst k. cbn [fst].
    apply hr_of; [intros s1 _; destruct (_ s1); exact I | raises_deep ltac:(unfold NM; discriminate)]. }
  specialize (H s I). destruct (mfor idx _ s); auto.
Qed.
Lemma slash_undelegations_keys_are_well_formed h v f : let s := run init_state h in
  match slash_undelegations v f s with Err e _ => NM e | Panic e _ => NM e | Ok _ _ => True end.
Proof. intros s. apply slash_undelegations_keys_are_well_formed_at. exact (proj2 (run_CS h init_state CS_init)). Qed.


(* the whole callback: in a reachable state it never fails on a missing record or a malformed index key *)
Definition JX (s : State) : Prop := XI s /\ CS2 s.
Lemma jx_frame A (m : M A) : inv XI m -> inv CS2 m -> raises NM m -> hr JX m NM.
Proof.
  intros H1 H2 Hr s [Ha Hb]. specialize (H1 s Ha). specialize (H2 s Hb). specialize (Hr s).
  destruct (m s); auto; split; assumption.
Qed.
Theorem slash_callback_never_misses_a_record h v f : let s := run init_state h in
  match hook_slash v f s with Err e _ => e <> E_MISSING_RECORD | Panic e _ => e <> E_MISSING_RECORD | Ok _ _ => True end.
Proof.
  intros s.
  assert (Hs : JX s) by (split; [exact (run_XI h init_state XI_init) | exact (proj2 (run_CS h init_state CS_init))]).
  assert (H : hr JX (hook_slash v f) NM).
  { unfold hook_slash, slash_validator.
    apply hr_bind; [|intros _; apply jx_frame; [xi_auto | cs2_auto | raises_deep ltac:(unfold NM; discriminate)]].
    destruct ((f <=? 0) || (ONE <? f)); [intros s0 _; cbn; unfold NM; discriminate|].
    apply hr_bind; [apply jx_frame; [xi_auto | cs2_auto | raises_deep ltac:(unfold NM; discriminate)]|]. intros [sv vi].
    apply hr_bind; [apply jx_frame; [xi_auto | cs2_auto | raises_deep ltac:(unfold NM; discriminate)]|]. intros vs'.
    apply hr_bind; [apply jx_frame; [xi_auto | cs2_auto | raises_deep ltac:(unfold NM; discriminate)]|]. intros _.
    apply hr_bind.
    - intros s0 [Ha Hb]. pose proof (slash_redelegations_finds_its_records_at s0 v f Ha) as R.
      pose proof (XI_hook_slash v f) as _. 
      assert (I1 : inv XI (slash_redelegations v f)) by xi_auto.
      assert (I2 : inv CS2 (slash_redelegations v f)) by cs2_auto.
      specialize (I1 s0 Ha). specialize (I2 s0 Hb). destruct (slash_redelegations v f s0); auto. split; assumption.
    - intros _ s0 [Ha Hb]. pose proof (slash_undelegations_keys_are_well_formed_at s0 v f Hb) as R.
      assert (I1 : inv XI (slash_undelegations v f)) by xi_auto.
      assert (I2 : inv CS2 (slash_undelegations v f)) by (apply cs2_slash_undelegations).
      specialize (I1 s0 Ha). specialize (I2 s0 Hb). destruct (slash_undelegations v f s0); auto. split; assumption. }
  specialize (H s Hs). unfold NM in H. destruct (hook_slash v f s); auto.
Qed.

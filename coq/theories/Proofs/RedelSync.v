(* RedelSync.v — C15: every redelegation record has an entry in the time queue at its completion time
   (all reachable states), hence when CompleteRedelegations has run no record with a completion time
   strictly before the block time is left, and the "no onward hop" restriction it imposed is lifted:
   whatever still blocks a delegator is a redelegation that is really pending. *)
From Coq Require Import ZArith List Bool Lia.
From Alliance Require Import Num KMap KMapFacts KMapSorted Types Monad Model Step Spec Hoare.
From Alliance.Proofs Require Import SortedInv Queues RedelCleanup UndelCleanup IndexSync2 QueriesExact.
Import ListNotations.
Open Scope Z_scope.

Definition rec_ok (Q : KMap (list Redel)) (k : Key) (_ : Redel) : Prop :=
  exists del dn dst ct l e, k = [del; dn; dst; ct] /\ kget Q [ct] = Some l /\ In e l /\
                            r_del e = del /\ r_denom e = dn /\ r_dst e = dst.
Definition RQS (s : State) : Prop :=
  ksorted (redels s) /\ ksorted (redelidx s) /\ ksorted (redelq s) /\ kall (rec_ok (redelq s)) (redels s).
Definition rqs_proj (s : State) := (redels s, redelidx s, redelq s).
Lemma RQS_f : forall s s', rqs_proj s' = rqs_proj s -> RQS s -> RQS s'.
Proof. unfold rqs_proj, RQS; intros s s' E H. inversion E as [[E1 E2 E3]]. rewrite E1, E2, E3. exact H. Qed.

Lemma rec_ok_kset Q K l' k r : ksorted Q ->
  (forall l e, kget Q K = Some l -> In e l -> In e l') -> rec_ok Q k r -> rec_ok (kset Q K l') k r.
Proof.
  intros Hs Hl (del & dn & dst & ct & l & e & -> & Hg & Hin & H1 & H2 & H3).
  destruct (list_eq_dec Z.eq_dec [ct] K) as [E|Hne].
  - subst K. exists del, dn, dst, ct, l', e. rewrite kget_kset_same. repeat split; auto. exact (Hl l e Hg Hin).
  - exists del, dn, dst, ct, l, e. rewrite kget_kset_other by assumption. repeat split; auto.
Qed.

(* addRedelegation + queueRedelegation: record and queue entry together *)
Lemma rqs_add_redelegation del src dst dn amt ct : inv RQS (add_redelegation del src dst dn amt ct).
Proof.
  unfold add_redelegation, queue_redelegation. intros s (Hr & Hi & Hq & Hall). unfold bind, modify. cbn [ret].
  unfold RQS. cbn [redels redelq redelidx set_redels set_redelidx set_redelq].
  set (old := match kget (redelq s) [ct] with Some l => l | None => [] end).
  assert (Hkeep : forall l e, kget (redelq s) [ct] = Some l -> In e l -> In e (old ++ [mkRedel del src dst dn amt])).
  { intros l e Hg Hin. apply in_or_app. left. unfold old. rewrite Hg. exact Hin. }
  split; [apply ksorted_kset; exact Hr|]. split; [apply ksorted_kset; exact Hi|]. split; [apply ksorted_kset; exact Hq|].
  apply kall_kset.
  - unfold kall in *. eapply Forall_impl; [|exact Hall]. intros [k0 r0]; cbn. apply rec_ok_kset; assumption.
  - exists del, dn, dst, ct, (old ++ [mkRedel del src dst dn amt]), (mkRedel del src dst dn amt).
    rewrite kget_kset_same. repeat split; auto. apply in_or_app. right. left. reflexivity.
Qed.

(* ---------- CompleteRedelegations ---------- *)
Definition Y1 (Q : KMap (list Redel)) (s : State) : Prop :=
  ksorted (redels s) /\ ksorted (redelidx s) /\ redelq s = Q /\ kall (rec_ok Q) (redels s).
Lemma y1_del Q ct r : hoare (Y1 Q) (del_entry ct r) (fun _ => Y1 Q) (fun _ => False).
Proof.
  apply hoare_modify. intros s (Hr & Hi & HQ & Hall). unfold Y1. cbn [redels redelq redelidx set_redels set_redelidx].
  split; [apply ksorted_kdel; exact Hr|]. split; [apply ksorted_kdel; exact Hi|]. split; [exact HQ|]. apply kall_kdel. exact Hall.
Qed.

Lemma rqs_body ct l :
  hoare (fun s => RQS s /\ kget (redelq s) [ct] = Some l) (redel_body ([ct], l)) (fun _ => RQS) (fun _ => False).
Proof.
  intros s [(Hr & Hi & Hq & Hall) Hg]. rewrite redel_body_unfold. unfold bind at 1.
  pose proof (hoare_mfor _ _ (fun _ => False) l (del_entry ct) (y1_del (redelq s) ct) s (conj Hr (conj Hi (conj eq_refl Hall)))) as P1.
  assert (P2 : forall r0, In r0 l -> match mfor l (del_entry ct) s with Ok _ s1 => RGone (rkey ct r0) (ikey ct r0) s1 | _ => False end).
  { intros r0 Hin. exact (RedelCleanup.hits_entries ct r0 l Hin s (conj Hr Hi)). }
  destruct (mfor l (del_entry ct) s) as [[] s1|e s1|e s1]; try contradiction.
  destruct P1 as (Hr1 & Hi1 & Hq1 & Hall1). cbn [modify].
  unfold RQS. cbn [redels redelq redelidx set_redelq]. rewrite Hq1.
  split; [exact Hr1|]. split; [exact Hi1|]. split; [apply ksorted_kdel; exact Hq|].
  unfold kall in *. apply Forall_forall. intros [k r] Hin. cbn [fst snd]. rewrite Forall_forall in Hall1.
  destruct (Hall1 _ Hin) as (del & dn & dst & ct' & l0 & e & Ek & Hg0 & Hin0 & H1 & H2 & H3). cbn [fst] in Ek. subst k.
  destruct (Z.eq_dec ct' ct) as [->|Hne].
  - rewrite Hg in Hg0. inversion Hg0; subst l0. exfalso.
    pose proof (P2 e Hin0) as (_ & Hgone & _). unfold rkey in Hgone. rewrite H1, H2, H3 in Hgone.
    pose proof (kget_in_sorted _ _ _ Hr1 Hin) as Hsome. rewrite Hgone in Hsome. discriminate.
  - exists del, dn, dst, ct', l0, e. rewrite kget_kdel_other; [|exact Hq|congruence]. repeat split; auto.
Qed.

Definition OLR (rest : KMap (list Redel)) (s : State) : Prop :=
  RQS s /\ Forall (fun kv => kget (redelq s) (fst kv) = Some (snd kv)) rest.
Lemma olr_loop : forall rest, NoDup (map fst rest) -> Forall (fun kv => exists ct, fst kv = [ct]) rest ->
  hoare (OLR rest) (mfor rest redel_body) (fun _ => RQS) (fun _ => False).
Proof.
  induction rest as [|[k l] rest IH]; intros Hnd Hshape; cbn [mfor]; [apply hoare_ret; intros s H; unfold OLR in H; tauto|].
  inversion Hnd as [|? ? Hnot Hnd']; subst. inversion Hshape as [|? ? [ct Hct] Hshape']; subst. cbn [fst] in Hct. subst k.
  eapply hoare_bind with (Q1 := fun _ => OLR rest); [|intros _; apply IH; assumption].
  intros s HOL. unfold OLR in HOL. destruct HOL as (Hrqs & Hall). inversion Hall as [|? ? Hk Hrest]; subst. cbn [fst snd] in Hk.
  assert (B3' : match redel_body ([ct], l) s with Ok _ s' => redelq s' = kdel (redelq s) [ct] | _ => True end).
  { rewrite redel_body_unfold. unfold bind at 1.
    assert (F : hoare (RQis (redelq s)) (mfor l (del_entry ct)) (fun _ => RQis (redelq s)) (fun _ => False)).
    { apply hoare_mfor. intros r. apply hoare_modify. intros s0 H0; exact H0. }
    specialize (F s eq_refl). destruct (mfor l (del_entry ct) s) as [[] s1| |]; try exact I. cbn. unfold RQis in F. rewrite F. reflexivity. }
  match goal with |- match ?m with _ => _ end =>
    assert (B2 : match m with Ok _ s' => RQS s' | _ => False end) by exact (rqs_body ct l s (conj Hrqs Hk));
    assert (B3 : match m with Ok _ s' => redelq s' = kdel (redelq s) [ct] | _ => True end) by exact B3';
    destruct m as [[] s'|e s'|e s']; try contradiction
  end.
  cbv beta. unfold OLR. split; [exact B2|].
  apply Forall_forall. intros [k' l'] Hin. cbn [fst snd]. rewrite B3. rewrite Forall_forall in Hrest.
  destruct Hrqs as (_ & _ & Hq & _).
  rewrite kget_kdel_other; [exact (Hrest _ Hin) | exact Hq|].
  intros E. subst k'. apply Hnot. apply in_map_iff. exists ([ct], l'). split; [reflexivity | exact Hin].
Qed.

Lemma rqs_complete_redelegations : inv RQS complete_redelegations.
Proof.
  apply inv_of_hoare. rewrite complete_redelegations_unfold.
  eapply hoare_bind with (Q1 := fun _ => RQS); [apply hoare_gets; auto|]. intros t.
  apply hoare_bind_gets_eq. intros s0 Hs0.
  set (q := kfilter (fun k => match k with [ct] => ct <? t | _ => false end) (redelq s0)).
  destruct Hs0 as (Hr & Hi & Hq & Hall).
  assert (Hnd : NoDup (map fst q)).
  { apply SlashQueue.ksorted_NoDup_keys. unfold q, kfilter. apply ksorted_filter. exact Hq. }
  assert (Hshape : Forall (fun kv => exists ct, fst kv = [ct]) q).
  { apply Forall_forall. intros kv Hin. unfold q, kfilter in Hin. apply filter_In in Hin. destruct Hin as [_ H].
    destruct kv as [k l]; cbn [fst] in *. destruct k as [|ct [|? ?]]; try discriminate. eauto. }
  assert (Hqq : Forall (fun kv => kget (redelq s0) (fst kv) = Some (snd kv)) q).
  { apply Forall_forall. intros [k l] Hin. unfold q, kfilter in Hin. apply filter_In in Hin. destruct Hin as [Hin _].
    cbn [fst snd]. apply kget_in_sorted; assumption. }
  apply (hoare_pre _ _ (OLR q)); [intros s ->; unfold OLR, RQS; auto|].
  eapply hoare_post; [| |apply (olr_loop q Hnd Hshape)]; [intros ? s H; exact H | intros s []].
Qed.

(* ---------- everything else: neither the records nor the queue are touched ---------- *)
Ltac rqs_step :=
  first
    [ lazymatch goal with
      | |- inv _ (add_redelegation _ _ _ _ _ _) => apply rqs_add_redelegation
      | |- inv _ complete_redelegations => apply rqs_complete_redelegations
      | |- inv _ (modify _) =>
        apply inv_modify; let s := fresh "s" in let Hs := fresh "Hs" in
        intros s Hs; apply (RQS_f s); [reflexivity | exact Hs]
      end
    | inv_step
    | lazymatch goal with |- inv _ ?m => let h := head_of m in unfold h end ].
Ltac rqs_auto := repeat rqs_step.

Lemma RQS_end_blocker : inv RQS end_blocker.                              Proof. rqs_auto. Qed.
Lemma RQS_msg_delegate a b c d : inv RQS (msg_delegate a b c d).          Proof. rqs_auto. Qed.
Lemma RQS_msg_undelegate a b c d : inv RQS (msg_undelegate a b c d).      Proof. rqs_auto. Qed.
Lemma RQS_msg_redelegate a b c d e : inv RQS (msg_redelegate a b c d e).  Proof. rqs_auto. Qed.
Lemma RQS_msg_claim a b c : inv RQS (msg_claim a b c).                    Proof. rqs_auto. Qed.
Lemma RQS_msg_create m : inv RQS (msg_create_alliance m).                 Proof. rqs_auto. Qed.
Lemma RQS_msg_update m : inv RQS (msg_update_alliance m).                 Proof. rqs_auto. Qed.
Lemma RQS_msg_delete a b : inv RQS (msg_delete_alliance a b).             Proof. rqs_auto. Qed.
Lemma RQS_msg_params a b c d : inv RQS (msg_update_params a b c d).       Proof. rqs_auto. Qed.
Lemma RQS_hook_slash v f : inv RQS (hook_slash v f).                      Proof. rqs_auto. Qed.

Theorem step_RQS s o : RQS s -> RQS (fst (step s o)).
Proof.
  intros Hs. assert (W : forall (m : M unit), inv RQS m -> RQS (fst (clear_oracle (tx m s))) /\ RQS (fst (clear_oracle (hook m s))) /\ RQS (fst (clear_oracle (endblock m s)))).
  { intros m Hm. specialize (Hm s Hs). unfold tx, hook, endblock, clear_oracle. destruct (m s) as [[] s'|e s'|e s']; cbn; (split; [|split]); first [exact Hm | exact Hs]. }
  destruct o; cbn [step fst]; try exact Hs.
  - apply (W _ RQS_end_blocker).
  - apply (W _ (RQS_msg_delegate _ _ _ _)).
  - apply (W _ (RQS_msg_undelegate _ _ _ _)).
  - apply (W _ (RQS_msg_redelegate _ _ _ _ _)).
  - apply (W _ (RQS_msg_claim _ _ _)).
  - apply (W _ (RQS_msg_create _)).
  - apply (W _ (RQS_msg_update _)).
  - apply (W _ (RQS_msg_delete _ _)).
  - apply (W _ (RQS_msg_params _ _ _ _)).
  - apply (W _ (RQS_hook_slash _ _)).
  - eapply RQS_f; [|exact Hs]. unfold rqs_proj.
    match goal with |- (redels (fold_left _ ?ss (fold_left _ ?bs s)), _, _) = _ => generalize bs, ss end.
    intros bs ss. generalize s. induction bs as [|b bs IHb]; intros st; cbn [fold_left].
    + induction ss as [|x ss IHs] in st |- *; cbn [fold_left]; [reflexivity|]. rewrite IHs. reflexivity.
    + rewrite IHb. reflexivity.
Qed.
Theorem run_RQS h : forall s, RQS s -> RQS (run s h).
Proof. induction h as [|o h IH]; intros s Hs; cbn; [exact Hs | apply IH, step_RQS, Hs]. Qed.
Lemma RQS_init : RQS init_state.
Proof. repeat split; constructor. Qed.

(* every redelegation record has an entry in the time queue at its completion time *)
Theorem every_record_is_queued h del dn dst ct r : let s := run init_state h in
  kget (redels s) [del; dn; dst; ct] = Some r ->
  exists l e, kget (redelq s) [ct] = Some l /\ In e l /\ r_del e = del /\ r_denom e = dn /\ r_dst e = dst.
Proof.
  intros s Hg. destruct (run_RQS h init_state RQS_init) as (_ & _ & _ & Hall). fold s in Hall.
  destruct (kall_kget _ _ _ _ Hall Hg) as (del' & dn' & dst' & ct' & l & e & Ek & Hq & Hin & H1 & H2 & H3).
  inversion Ek; subst. exists l, e. auto.
Qed.

(* C15: when CompleteRedelegations has run, every record left completes at or after the block time *)
Theorem no_matured_record_is_left h : let s := run init_state h in
  exists s', complete_redelegations s = Ok tt s' /\
    forall del dn dst ct r, kget (redels s') [del; dn; dst; ct] = Some r -> now s <= ct.
Proof.
  intros s. destruct (complete_redelegations_spec s (reachable_Sorted h)) as (s' & Hrun & Hq').
  exists s'. split; [exact Hrun|]. intros del dn dst ct r Hg.
  pose proof (rqs_complete_redelegations s (run_RQS h init_state RQS_init)) as H. rewrite Hrun in H.
  destruct H as (_ & _ & _ & Hall).
  destruct (kall_kget _ _ _ _ Hall Hg) as (del' & dn' & dst' & ct' & l & e & Ek & Hq & Hin & _).
  inversion Ek; subst ct'. rewrite Hq' in Hq.
  (* the bucket [ct] survived the filter: it is not matured *)
  assert (Hin' : In ([ct], l) (filter (fun kv => negb (redel_matured (now s) kv)) (redelq s))).
  { clear - Hq. set (m := filter _ _) in *. clearbody m. induction m as [|[k0 v0] m IH]; cbn [kget] in Hq; [discriminate|].
    destruct (kcmp [ct] k0) eqn:E; try discriminate.
    - apply kcmp_eq in E. subst k0. inversion Hq; subst. left; reflexivity.
    - right. apply IH. exact Hq. }
  apply filter_In in Hin'. destruct Hin' as [_ Hnm]. unfold redel_matured in Hnm. cbn [fst] in Hnm.
  apply negb_true_iff in Hnm. apply Z.ltb_ge in Hnm. exact Hnm.
Qed.

(* ... hence the restriction is lifted: after that end of block a delegator is blocked from hopping onward
   out of a validator only by a redelegation into it that is really pending *)
Theorem restriction_is_lifted h del dst dn : let s := run init_state h in
  exists s', complete_redelegations s = Ok tt s' /\
    (has_redelegation s' del dst dn = true ->
     exists ct r, kget (redels s') [del; dn; dst; ct] = Some r /\ now s <= ct).
Proof.
  intros s. destruct (no_matured_record_is_left h) as (s' & Hrun & Hleft). fold s in Hrun, Hleft.
  exists s'. split; [exact Hrun|]. intros Hb. unfold has_redelegation in Hb. apply existsb_exists in Hb.
  destruct Hb as ([k r] & Hin & Hp). cbn [fst] in Hp. apply kprefix_spec in Hp. destruct Hp as [rest ->].
  pose proof (rqs_complete_redelegations s (run_RQS h init_state RQS_init)) as H. rewrite Hrun in H.
  destruct H as (Hr & _ & _ & Hall).
  pose proof (kget_in_sorted _ _ _ Hr Hin) as Hg.
  destruct (kall_kget _ _ _ _ Hall Hg) as (del' & dn' & dst' & ct' & l & e & Ek & _).
  cbn [app] in Ek. destruct rest as [|ct [|? ?]]; try discriminate. inversion Ek; subst.
  exists ct', r. split; [exact Hg|]. exact (Hleft _ _ _ _ _ Hg).
Qed.

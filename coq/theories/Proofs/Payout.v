(* Payout.v — C02: what end-of-block pays.  In every reachable state, when CompleteUnbondings
   returns normally, every account other than the custody account has received, per denom,
   exactly the balances of the matured entries recorded for it — nothing else, nothing twice. *)
From Coq Require Import ZArith List Bool Lia.
From Alliance Require Import Num KMap KMapFacts KMapSorted Types Monad Model Step Spec Hoare.
From Alliance.Proofs Require Import SortedInv WellKeyed Misc Queues.
Import ListNotations.
Open Scope Z_scope.

Section User.
  Variables (u d : Z).
  Hypothesis u_not_custody : u <> ACC_ALLIANCE.

  Definition JB (c : Z) (s : State) : Prop := ksorted (bank s) /\ bal s u d = c.
  Lemma JB_f c : forall s s', bank s' = bank s -> JB c s -> JB c s'.
  Proof. unfold JB, bal; intros s s' E H; rewrite E; exact H. Qed.

  Definition mine (e : Undel) : Z := if (u_del e =? u) && (u_denom e =? d) then u_amount e else 0.
  Definition lmine (l : list Undel) : Z := fold_right (fun e acc => mine e + acc) 0 l.

  Lemma ksorted_put_bal a dn x s : ksorted (bank s) -> ksorted (bank (put_bal a dn x s)).
  Proof. intros H. unfold put_bal. destruct (x =? 0); cbn; [apply ksorted_kdel | apply ksorted_kset]; exact H. Qed.

  (* taking coins out of another account *)
  Lemma jb_sub_other c a coins : a <> u -> inv (JB c) (bank_sub a coins).
  Proof.
    intros Ha. unfold bank_sub. apply inv_mfor; intros da. apply inv_bind; [apply inv_gets|]; intros b.
    destruct (b <? snd da); [apply inv_fail|]. apply inv_modify. intros s [Hs Hb]. split; [apply ksorted_put_bal; exact Hs|].
    rewrite bal_put_bal_other; [exact Hb | exact Hs | congruence].
  Qed.
  (* crediting one coin (dn, x) to an account *)
  Lemma jb_add1 c a dn x : 
    hoare (JB c) (bank_add a (if x =? 0 then [] else [(dn, x)])) (fun _ => JB (c + (if (a =? u) && (dn =? d) then x else 0))) (fun _ => False).
  Proof.
    unfold bank_add. destruct (x =? 0) eqn:E0; cbn [mfor].
    - apply hoare_ret. intros s H. apply Z.eqb_eq in E0. subst x. destruct ((a =? u) && (dn =? d)); rewrite Z.add_0_r; exact H.
    - eapply hoare_bind with (Q1 := fun _ => JB (c + (if (a =? u) && (dn =? d) then x else 0))); [|intros _; apply hoare_ret; auto].
      apply hoare_modify. intros s [Hs Hb]. cbn [fst snd]. split; [apply ksorted_put_bal; exact Hs|].
      destruct ((a =? u) && (dn =? d)) eqn:Em.
      + apply andb_prop in Em. destruct Em as [E1 E2]. apply Z.eqb_eq in E1, E2. subst a dn.
        rewrite bal_put_bal_same by exact Hs. lia.
      + rewrite bal_put_bal_other; [lia | exact Hs|]. intros E. inversion E; subst. rewrite !Z.eqb_refl in Em. discriminate.
  Qed.

  Definition pay (ct : Z) (e : Undel) : M unit :=
    c <- coin1 (u_denom e) (u_amount e) ;;
    bank_send ACC_ALLIANCE (u_del e) c ;;;
    modify (fun s => set_undelidx (kdel (undelidx s) [u_val e; ct; u_denom e; u_del e]) s).

  Lemma jb_pay ct e c : hoare (JB c) (pay ct e) (fun _ => JB (c + mine e)) (fun _ => True).
  Proof.
    unfold pay, coin1. destruct (u_amount e <? 0); [intros s _; exact I|]. unfold bind at 1, ret at 1.
    unfold bank_send.
    eapply hoare_bind with (Q1 := fun _ => JB (c + mine e)); [|intros _; apply inv_hoare_true; inv_deep (JB_f (c + mine e))].
    eapply hoare_bind with (Q1 := fun _ => JB c); [apply inv_hoare_true, jb_sub_other; congruence|]. intros _.
    eapply hoare_post; [| |apply (jb_add1 c (u_del e) (u_denom e) (u_amount e))]; [|intros ? []].
    intros ? s H. unfold mine. exact H.
  Qed.

  Lemma jb_pay_all ct : forall l c, hoare (JB c) (mfor l (pay ct)) (fun _ => JB (c + lmine l)) (fun _ => True).
  Proof.
    induction l as [|e l IH]; intros c; cbn [mfor].
    - apply hoare_ret. intros s H. unfold lmine; cbn. rewrite Z.add_0_r. exact H.
    - eapply hoare_bind; [apply jb_pay|]. intros ?; cbv beta. intros s Hs. pose proof (IH _ s Hs) as H.
      destruct (mfor l (pay ct) s); auto. change (lmine (e :: l)) with (mine e + lmine l).
      replace (c + (mine e + lmine l)) with (c + mine e + lmine l) by lia. exact H.
  Qed.

  Definition qmine (q : KMap (list Undel)) : Z := fold_right (fun kv acc => lmine (snd kv) + acc) 0 q.

  Lemma jb_loop : forall (q : KMap (list Undel)) c, Forall (fun kv : Key * list Undel => exists ct dl, fst kv = [ct; dl]) q ->
    hoare (JB c) (mfor q undel_body) (fun _ => JB (c + qmine q)) (fun _ => True).
  Proof.
    induction q as [|[k l] q IH]; intros c Hq; cbn [mfor].
    - apply hoare_ret. intros s H. unfold qmine; cbn. rewrite Z.add_0_r. exact H.
    - inversion Hq as [|? ? (ct & dl & Hk) Hq']; subst. cbn [fst] in Hk. subst k.
      eapply hoare_bind with (Q1 := fun _ => JB (c + lmine l)).
      + unfold undel_body. cbn [fst snd].
        eapply hoare_bind; [apply (jb_pay_all ct l c)|]. intros ?; cbv beta. apply inv_hoare_true. inv_deep (JB_f (c + lmine l)).
      + intros _. intros s Hs. pose proof (IH _ Hq' s Hs) as H. destruct (mfor q undel_body s); auto.
        change (qmine (([ct; dl], l) :: q)) with (lmine l + qmine q).
        replace (c + (lmine l + qmine q)) with (c + lmine l + qmine q) by lia. exact H.
  Qed.

  (* the matured total of the specification is the sum over the matured buckets *)
  Lemma matured_is_qmine s t :
    matured_for s t u d = qmine (kfilter (fun k => match k with [ct; _] => ct <? t | _ => false end) (undelq s)).
  Proof.
    unfold matured_for, qmine, kfilter. induction (undelq s) as [|[k l] m IH]; cbn [fold_right filter fst snd]; [reflexivity|].
    destruct k as [|ct [|dl [|]]]; cbn [fst]; try exact IH.
    destruct (ct <? t); cbn [fold_right snd]; [|exact IH]. rewrite <- IH. clear IH.
    generalize (fold_right
      (fun kv acc => match fst kv with
                     | [ct0; _] => if ct0 <? t then fold_right (fun e a => (if (u_del e =? u) && (u_denom e =? d) then u_amount e else 0) + a) acc (snd kv) else acc
                     | _ => acc end) 0 m). intros z.
    induction l as [|e l IHl]; cbn [fold_right lmine]; [unfold lmine; cbn; lia|]. rewrite IHl. unfold lmine, mine. cbn [fold_right]. lia.
  Qed.

End User.

Theorem payout_exact h u d : u <> ACC_ALLIANCE -> let s := run init_state h in
  match complete_unbondings s with
  | Ok _ s' => bal s' u d = bal s u d + matured_for s (now s) u d
  | _ => True
  end.
Proof.
  intros Hu s. rewrite complete_unbondings_unfold. unfold bind at 1, gets at 1. unfold bind at 1, gets at 1.
  set (q := kfilter (fun k => match k with [ct; _] => ct <? now s | _ => false end) (undelq s)).
  assert (Hq : Forall (fun kv : Key * list Undel => exists ct dl, fst kv = [ct; dl]) q).
  { apply Forall_forall. intros kv Hin. unfold q, kfilter in Hin. apply filter_In in Hin. destruct Hin as [_ H].
    destruct kv as [k l]; cbn [fst] in *. destruct k as [|ct [|dl [|? ?]]]; try discriminate. eauto. }
  assert (Hs : JB u d (bal s u d) s).
  { split; [|reflexivity]. pose proof (reachable_Sorted h) as (?&?&?&?&?&?&?&?&?&?&?&?&?). assumption. }
  unfold bind at 1. pose proof (jb_loop u d Hu q (bal s u d) Hq s Hs) as H1.
  destruct (mfor q undel_body s) as [x s1|? ?|? ?]; try exact I.
  assert (H2 : inv (JB u d (bal s u d + qmine u d q)) sweep).
  { unfold sweep. apply inv_bind; [apply inv_gets|]. intros b. destruct (b =? 0); [apply inv_ret|].
    unfold bank_burn. apply inv_bind; [apply jb_sub_other; congruence|]. intros _. inv_deep (JB_f u d (bal s u d + qmine u d q)). }
  specialize (H2 s1 H1). destruct (sweep s1) as [y s2|? ?|? ?]; try exact I.
  destruct H2 as [_ H2]. rewrite H2. rewrite (matured_is_qmine u d s (now s)). reflexivity.
Qed.

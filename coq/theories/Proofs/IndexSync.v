(* IndexSync.v — in every reachable state each pending unbonding entry is recorded under the
   delegator of its bucket and has its per-validator index key
   (validator, completion time, denom, delegator).  Needed by C07 (a slash reaches every pending
   entry of the validator exactly once) and C20 (the queries, which go through the index, miss
   nothing). *)
From Coq Require Import ZArith List Bool Lia.
From Alliance Require Import Num KMap KMapFacts KMapSorted Types Monad Model Step Spec Hoare.
From Alliance.Proofs Require Import SortedInv WellKeyed Queues.
Import ListNotations.
Open Scope Z_scope.

Definition entry_ok (idx : KMap unit) (ct dl : Z) (u : Undel) : Prop :=
  u_del u = dl /\ kget idx [u_val u; ct; u_denom u; dl] = Some tt.
Definition bucket_ok (idx : KMap unit) (k : Key) (l : list Undel) : Prop :=
  exists ct dl, k = [ct; dl] /\ Forall (entry_ok idx ct dl) l.
Definition IS (s : State) : Prop :=
  ksorted (undelq s) /\ ksorted (undelidx s) /\ kall (bucket_ok (undelidx s)) (undelq s).

Definition is_proj (s : State) := (undelq s, undelidx s).
Lemma ISf : forall s s', is_proj s' = is_proj s -> IS s -> IS s'.
Proof. unfold is_proj, IS; intros s s' E H. inversion E as [[E1 E2]]. rewrite E1, E2. exact H. Qed.

(* adding an index key keeps every bucket fine *)
Lemma entry_ok_kset idx k ct dl u : ksorted idx -> entry_ok idx ct dl u -> entry_ok (kset idx k tt) ct dl u.
Proof.
  intros Hs [H1 H2]. split; [exact H1|]. destruct (list_eq_dec Z.eq_dec [u_val u; ct; u_denom u; dl] k) as [<-|Hne].
  - apply kget_kset_same.
  - rewrite kget_kset_other; auto.
Qed.
Lemma bucket_ok_kset idx k k0 l : ksorted idx -> bucket_ok idx k0 l -> bucket_ok (kset idx k tt) k0 l.
Proof.
  intros Hs (ct & dl & -> & H). exists ct, dl. split; [reflexivity|]. eapply Forall_impl; [|exact H]. intros u; apply entry_ok_kset; exact Hs.
Qed.

(* ---------- queueUndelegation ---------- *)
Lemma is_queue_undelegation del v dn amt : inv IS (queue_undelegation del v dn amt).
Proof.
  unfold queue_undelegation. apply inv_bind; [apply inv_gets|]. intros t. apply inv_bind; [apply inv_gets|]. intros ub.
  apply inv_modify. intros s (Hq & Hi & Hall). unfold IS. cbn [undelq undelidx set_undelq set_undelidx].
  split; [apply ksorted_kset; exact Hq|]. split; [apply ksorted_kset; exact Hi|].
  apply kall_kset.
  - unfold kall in *. eapply Forall_impl; [|exact Hall]. intros [k0 l0]; cbn. apply bucket_ok_kset; exact Hi.
  - exists (t + ub), del. split; [reflexivity|]. apply Forall_app. split.
    + destruct (kget (undelq s) [t + ub; del]) as [old|] eqn:Eg; [|constructor].
      destruct (kall_kget _ _ _ _ Hall Eg) as (ct & dl & Ek & H). inversion Ek; subst ct dl.
      eapply Forall_impl; [|exact H]. intros u; apply entry_ok_kset; exact Hi.
    + constructor; [|constructor]. split; [reflexivity|]. cbn. apply kget_kset_same.
Qed.

(* ---------- slashUndelegations: entries keep delegator, validator and denom ---------- *)
Definition same_ids (a b : Undel) : Prop := u_del a = u_del b /\ u_val a = u_val b /\ u_denom a = u_denom b.
Definition Pq (Q : KMap (list Undel)) (I : KMap unit) (s : State) : Prop := undelq s = Q /\ undelidx s = I.
Lemma Pqf Q I : forall s s', is_proj s' = is_proj s -> Pq Q I s -> Pq Q I s'.
Proof. unfold is_proj, Pq; intros s s' E H. inversion E as [[E1 E2]]. rewrite E1, E2. exact H. Qed.

Definition slash_entry_fn (v dn f : Z) (acc : list Undel) (e : Undel) : M (list Undel) :=
  if negb ((u_val e =? v) && (u_denom e =? dn)) then ret (acc ++ [e]) else
  let tok := dtrunc (dmul_int f (u_amount e)) in
  (if (u_amount e - tok <? 0) || (tok <? 0) then panic P_NEG_COIN else ret tt) ;;;
  c <- coin1 (u_denom e) tok ;;
  bank_send ACC_ALLIANCE ACC_FEE c ;;;
  ret (acc ++ [set_u_amount (u_amount e - tok) e]).

Lemma slash_entries_ids v dn f Q I : forall rest acc0 acc,
  Forall2 same_ids acc0 acc ->
  hoare (Pq Q I) (mfold rest acc (slash_entry_fn v dn f))
        (fun acc' s => Pq Q I s /\ Forall2 same_ids (acc0 ++ rest) acc') (Pq Q I).
Proof.
  induction rest as [|e rest IH]; intros acc0 acc Hacc; cbn [mfold].
  - apply hoare_ret. intros s H. rewrite app_nil_r. auto.
  - eapply hoare_bind with (Q1 := fun acc1 s => Pq Q I s /\ Forall2 same_ids (acc0 ++ [e]) acc1).
    + unfold slash_entry_fn. destruct (negb ((u_val e =? v) && (u_denom e =? dn))).
      * apply hoare_ret. intros s H. split; [exact H|]. apply Forall2_app; [exact Hacc|]. constructor; [repeat split | constructor].
      * cbv zeta. eapply hoare_bind with (Q1 := fun _ => Pq Q I); [apply inv_hoare; inv_deep (Pqf Q I)|]. intros ?; cbv beta.
        eapply hoare_bind with (Q1 := fun _ => Pq Q I); [apply inv_hoare; inv_deep (Pqf Q I)|]. intros c; cbv beta.
        eapply hoare_bind with (Q1 := fun _ => Pq Q I); [apply inv_hoare; inv_deep (Pqf Q I)|]. intros ?; cbv beta.
        apply hoare_ret. intros s H. split; [exact H|]. apply Forall2_app; [exact Hacc|]. constructor; [repeat split | constructor].
    + intros acc1. intros s [Hs Hf]. pose proof (IH (acc0 ++ [e]) acc1 Hf s Hs) as H.
      destruct (mfold rest acc1 (slash_entry_fn v dn f) s); auto. rewrite <- app_assoc in H. exact H.
Qed.

Lemma Forall_same_ids idx ct dl l l' : Forall2 same_ids l l' -> Forall (entry_ok idx ct dl) l -> Forall (entry_ok idx ct dl) l'.
Proof.
  intros H2; induction H2 as [|a b l l' Hab H2 IH]; intros H; [constructor|].
  inversion H as [|? ? [Ha1 Ha2] Hl]; subst. destruct Hab as (E1 & E2 & E3).
  constructor; [|apply IH; exact Hl]. split; [congruence | rewrite <- E2, <- E3; exact Ha2].
Qed.

Lemma is_slash_undelegations v f : inv IS (slash_undelegations v f).
Proof.
  unfold slash_undelegations. apply inv_bind; [apply inv_gets|]. intros idx. apply inv_bind; [apply inv_gets|]. intros t.
  apply inv_mfor. intros ku.
  destruct (fst ku) as [|v0 [|ct [|dn [|del [|]]]]];
    lazymatch goal with |- inv _ (fail _) => apply inv_fail | _ => idtac end.
  destruct (ct <? t); [apply inv_ret|].
  apply inv_of_hoare. apply hoare_bind_gets_eq. intros s0 Hs0.
  set (entries := match kget (undelq s0) [ct; del] with Some l => l | None => [] end).
  apply (hoare_pre _ _ (Pq (undelq s0) (undelidx s0))); [intros s ->; split; reflexivity|].
  assert (Hback : forall s, Pq (undelq s0) (undelidx s0) s -> IS s).
  { intros s [E1 E2]. unfold IS. rewrite E1, E2. exact Hs0. }
  eapply hoare_bind.
  { eapply hoare_post; [| |apply (slash_entries_ids v dn f (undelq s0) (undelidx s0) entries [] [])]; [intros a s H; exact H | exact Hback | constructor]. }
  intros entries'; cbv beta. apply hoare_modify. intros s [[E1 E2] Hids]. cbn [app] in Hids.
  destruct Hs0 as (Hq & Hi & Hall). unfold IS. cbn [undelq undelidx set_undelq]. rewrite E1, E2.
  split; [apply ksorted_kset; exact Hq|]. split; [exact Hi|]. apply kall_kset; [exact Hall|].
  exists ct, del. split; [reflexivity|]. apply (Forall_same_ids _ _ _ entries entries' Hids).
  unfold entries. destruct (kget (undelq s0) [ct; del]) as [l|] eqn:Eg; [|constructor].
  destruct (kall_kget _ _ _ _ Hall Eg) as (ct' & dl' & Ek & H). inversion Ek; subst ct' dl'. exact H.
Qed.

(* ---------- everything that touches neither the queue nor its index ---------- *)
Ltac is_step :=
  first
    [ lazymatch goal with
      | |- inv _ (queue_undelegation _ _ _ _) => apply is_queue_undelegation
      | |- inv _ (slash_undelegations _ _) => apply is_slash_undelegations
      | |- inv _ (modify _) =>
        apply inv_modify; let s := fresh "s" in let Hs := fresh "Hs" in
        intros s Hs; apply (ISf s); [reflexivity | exact Hs]
      end
    | inv_step
    | lazymatch goal with |- inv _ ?m => let h := head_of m in unfold h end ].
Ltac is_auto := repeat is_step.

Lemma IS_msg_delegate a b c d : inv IS (msg_delegate a b c d).        Proof. is_auto. Qed.
Lemma IS_msg_undelegate a b c d : inv IS (msg_undelegate a b c d).    Proof. is_auto. Qed.
Lemma IS_msg_redelegate a b c d e : inv IS (msg_redelegate a b c d e). Proof. is_auto. Qed.
Lemma IS_msg_claim a b c : inv IS (msg_claim a b c).                  Proof. is_auto. Qed.
Lemma IS_msg_create m : inv IS (msg_create_alliance m).               Proof. is_auto. Qed.
Lemma IS_msg_update m : inv IS (msg_update_alliance m).               Proof. is_auto. Qed.
Lemma IS_msg_delete a b : inv IS (msg_delete_alliance a b).           Proof. is_auto. Qed.
Lemma IS_msg_params a b c d : inv IS (msg_update_params a b c d).     Proof. is_auto. Qed.
Lemma IS_hook_slash v f : inv IS (hook_slash v f).                    Proof. is_auto. Qed.

(* ---------- CompleteUnbondings (when it returns normally) ---------- *)
Definition ISx (k : Key) (s : State) : Prop :=
  ksorted (undelq s) /\ ksorted (undelidx s) /\ kall (fun k' l => k' = k \/ bucket_ok (undelidx s) k' l) (undelq s).
Lemma ISx_f k : forall s s', is_proj s' = is_proj s -> ISx k s -> ISx k s'.
Proof. unfold is_proj, ISx; intros s s' E H. inversion E as [[E1 E2]]. rewrite E1, E2. exact H. Qed.
Lemma IS_ISx k s : IS s -> ISx k s.
Proof. intros (H1 & H2 & H3). split; [exact H1|]. split; [exact H2|]. eapply Forall_impl; [|exact H3]. intros [k' l]; cbn; auto. Qed.

Lemma kall_kdel_except {V} (Q : Key -> V -> Prop) (m : KMap V) k :
  ksorted m -> kall (fun k' v => k' = k \/ Q k' v) m -> kall Q (kdel m k).
Proof.
  intros Hs H; induction m as [|[k0 v0] m IH]; cbn; [constructor|].
  apply ksorted_inv in Hs. destruct Hs as [Hs Hall]. inversion H as [|? ? H0 Hm]; subst. cbn in H0.
  destruct (kcmp k k0) eqn:E.
  - (* k = k0: dropped; the rest has only larger keys *)
    apply kcmp_eq in E; subst k0. unfold kall in *. rewrite Forall_forall in *. intros [k' v'] Hin.
    destruct (Hm _ Hin) as [Heq|Hq]; [|exact Hq]. cbn in Heq. subst k'. specialize (Hall _ Hin). cbn in Hall. exfalso. exact (klt_irrefl _ Hall).
  - (* k < k0: k is not in the map *)
    unfold kall in *. constructor.
    + destruct H0 as [Heq|Hq]; [|exact Hq]. subst k0. unfold klt in *. rewrite kcmp_refl in E. discriminate.
    + rewrite Forall_forall in *. intros [k' v'] Hin. destruct (Hm _ Hin) as [Heq|Hq]; [|exact Hq]. cbn in Heq. subst k'.
      specialize (Hall _ Hin). cbn in Hall. exfalso.
      assert (Hkk : klt k0 k0) by (eapply klt_trans; [exact Hall | exact E]). exact (klt_irrefl _ Hkk).
  - constructor; [|apply IH; assumption].
    destruct H0 as [Heq|Hq]; [|exact Hq]. subst k0. rewrite kcmp_refl in E. discriminate.
Qed.

Lemma isx_pay ct dl : forall l, Forall (fun u => u_del u = dl) l ->
  hoare (ISx [ct; dl])
    (mfor l (fun u =>
       c <- coin1 (u_denom u) (u_amount u) ;;
       bank_send ACC_ALLIANCE (u_del u) c ;;;
       modify (fun s => set_undelidx (kdel (undelidx s) [u_val u; ct; u_denom u; u_del u]) s)))
    (fun _ => ISx [ct; dl]) (fun _ => True).
Proof.
  intros l Hl. apply (hoare_mfor_Forall _ _ _ _ _ _ Hl). intros u Hu. cbv beta in Hu.
  eapply hoare_bind with (Q1 := fun _ => ISx [ct; dl]); [apply inv_hoare_true; inv_deep (ISx_f [ct; dl])|]. intros c.
  eapply hoare_bind with (Q1 := fun _ => ISx [ct; dl]); [apply inv_hoare_true; inv_deep (ISx_f [ct; dl])|]. intros _.
  apply hoare_modify. intros s (Hq & Hi & Hall). unfold ISx. cbn [undelq undelidx set_undelidx].
  split; [exact Hq|]. split; [apply ksorted_kdel; exact Hi|].
  eapply Forall_impl; [|exact Hall]. intros [k' l']; cbn. intros [Heq|(ct' & dl' & -> & Hok)]; [left; exact Heq|].
  destruct (list_eq_dec Z.eq_dec [ct'; dl'] [ct; dl]) as [E|Hne]; [left; exact E|]. right.
  exists ct', dl'. split; [reflexivity|]. eapply Forall_impl; [|exact Hok]. intros u' [H1 H2]. split; [exact H1|].
  rewrite kget_kdel_other; [exact H2 | exact Hi|]. intros E. inversion E; subst. apply Hne. congruence.
Qed.

Definition static_ok (kv : Key * list Undel) : Prop :=
  exists ct dl, fst kv = [ct; dl] /\ Forall (fun u => u_del u = dl) (snd kv).

Lemma is_undel_loop : forall q, Forall static_ok q -> hoare IS (mfor q undel_body) (fun _ => IS) (fun _ => True).
Proof.
  intros q Hq. apply (hoare_mfor_Forall _ _ _ _ _ _ Hq). intros [k l] (ct & dl & Hk & Hl). cbn [fst snd] in *. subst k.
  unfold undel_body. cbn [fst snd].
  eapply hoare_bind with (Q1 := fun _ => ISx [ct; dl]).
  - eapply hoare_pre; [|apply (isx_pay ct dl l Hl)]. intros s; apply IS_ISx.
  - intros _. apply hoare_modify. intros s (Hq' & Hi & Hall). unfold IS. cbn [undelq undelidx set_undelq].
    split; [apply ksorted_kdel; exact Hq'|]. split; [exact Hi|]. apply kall_kdel_except; assumption.
Qed.

Lemma is_complete_unbondings : hoare IS complete_unbondings (fun _ => IS) (fun _ => True).
Proof.
  rewrite complete_unbondings_unfold.
  eapply hoare_bind with (Q1 := fun _ => IS); [apply hoare_gets; auto|]. intros t.
  apply hoare_bind_gets_eq. intros s0 Hs0.
  set (q := kfilter (fun k => match k with [ct; _] => ct <? t | _ => false end) (undelq s0)).
  assert (Hq : Forall static_ok q).
  { apply Forall_forall. intros kv Hin. unfold q, kfilter in Hin. apply filter_In in Hin. destruct Hin as [Hin _].
    destruct Hs0 as (_ & _ & Hall). unfold kall in Hall. rewrite Forall_forall in Hall. destruct (Hall _ Hin) as (ct & dl & Hk & Hok).
    exists ct, dl. split; [exact Hk|]. eapply Forall_impl; [|exact Hok]. intros u [H _]; exact H. }
  apply (hoare_pre _ _ IS); [intros s ->; exact Hs0|].
  eapply hoare_bind; [apply (is_undel_loop q Hq)|]. intros ?; cbv beta.
  apply inv_hoare_true. unfold sweep. inv_deep ISf.
Qed.

Lemma is_end_blocker : hoare IS end_blocker (fun _ => IS) (fun _ => True).
Proof.
  unfold end_blocker.
  eapply hoare_bind with (Q1 := fun _ => IS); [apply inv_hoare_true; is_auto|]. intros _.
  eapply hoare_bind; [apply is_complete_unbondings|]. intros ?; cbv beta.
  apply inv_hoare_true. is_auto.
Qed.

(* ---------- every operation, every history ---------- *)
Lemma IS_set_oracle o s : IS s -> IS (set_oracle o s).
Proof. intros H; exact H. Qed.
Lemma IS_wrap_tx (m : M unit) s : hoare IS m (fun _ => IS) (fun _ => True) -> IS s -> IS (fst (clear_oracle (tx m s))).
Proof. intros Hm Hs. specialize (Hm s Hs). unfold tx, clear_oracle. destruct (m s); cbn; assumption. Qed.
Lemma IS_wrap_endblock (m : M unit) s : hoare IS m (fun _ => IS) (fun _ => True) -> IS s -> IS (fst (clear_oracle (endblock m s))).
Proof. intros Hm Hs. specialize (Hm s Hs). unfold endblock, clear_oracle. destruct (m s); cbn; assumption. Qed.
Lemma IS_wrap_hook (m : M unit) s : inv IS m -> IS s -> IS (fst (clear_oracle (hook m s))).
Proof. intros Hm Hs. specialize (Hm s Hs). unfold hook, clear_oracle. destruct (m s); cbn; assumption. Qed.
Lemma IS_fold_put_bal bs s : IS s -> IS (fold_left (fun s b => put_bal (fst (fst b)) (snd (fst b)) (snd b) s) bs s).
Proof. revert s; induction bs as [|b bs IH]; intros s Hs; cbn; auto. Qed.
Lemma IS_fold_put_sup ss s : IS s -> IS (fold_left (fun s ds => put_sup (fst ds) (snd ds) s) ss s).
Proof. revert s; induction ss as [|b bs IH]; intros s Hs; cbn; auto. Qed.

Theorem step_IS s o : IS s -> IS (fst (step s o)).
Proof.
  intros Hs; destruct o; cbn [step]; try exact Hs.
  - apply IS_wrap_endblock; [apply is_end_blocker | exact Hs].
  - apply IS_wrap_tx; [apply inv_hoare_true, IS_msg_delegate | exact Hs].
  - apply IS_wrap_tx; [apply inv_hoare_true, IS_msg_undelegate | exact Hs].
  - apply IS_wrap_tx; [apply inv_hoare_true, IS_msg_redelegate | exact Hs].
  - apply IS_wrap_tx; [apply inv_hoare_true, IS_msg_claim | exact Hs].
  - apply IS_wrap_tx; [apply inv_hoare_true, IS_msg_create | exact Hs].
  - apply IS_wrap_tx; [apply inv_hoare_true, IS_msg_update | exact Hs].
  - apply IS_wrap_tx; [apply inv_hoare_true, IS_msg_delete | exact Hs].
  - apply IS_wrap_tx; [apply inv_hoare_true, IS_msg_params | exact Hs].
  - apply IS_wrap_hook; [apply IS_hook_slash | exact Hs].
  - cbn. apply IS_fold_put_sup, IS_fold_put_bal; exact Hs.
Qed.

Lemma IS_init : IS init_state.
Proof. repeat split; constructor. Qed.

Theorem run_IS h : forall s, IS s -> IS (run s h).
Proof. induction h as [|o h IH]; intros s Hs; cbn; [exact Hs | apply IH, step_IS, Hs]. Qed.

(* in every reachable state: every pending entry sits in the bucket of its own delegator and has its index key *)
Theorem index_sync h ct dl l u : kget (undelq (run init_state h)) [ct; dl] = Some l -> In u l ->
  u_del u = dl /\ kget (undelidx (run init_state h)) [u_val u; ct; u_denom u; dl] = Some tt.
Proof.
  intros Hg Hin. destruct (run_IS h init_state IS_init) as (_ & _ & Hall).
  destruct (kall_kget _ _ _ _ Hall Hg) as (ct' & dl' & Ek & Hok). inversion Ek; subst ct' dl'.
  rewrite Forall_forall in Hok. exact (Hok u Hin).
Qed.
Theorem queue_keys_are_time_delegator h k l : In (k, l) (undelq (run init_state h)) -> exists ct dl, k = [ct; dl].
Proof.
  intros Hin. destruct (run_IS h init_state IS_init) as (_ & _ & Hall). unfold kall in Hall. rewrite Forall_forall in Hall.
  destruct (Hall _ Hin) as (ct & dl & Hk & _). eauto.
Qed.

(* PoolFlow.v — C11: the rebalance never leaks minted staking tokens.  The staking-denom supply that
   sits OUTSIDE the two staking pools,
        N = supply(bond) - balance(bonded pool) - balance(not-bonded pool),
   is the same before and after RebalanceBondTokenWeights: every token it mints is delegated into a
   pool in the same step, every token it burns was taken out of a pool. *)
From Coq Require Import ZArith List Bool Lia.
From Alliance Require Import Num KMap KMapFacts KMapSorted Types Monad Model Step Spec Hoare.
From Alliance.Proofs Require Import SortedInv Misc Payout BondedSlash Unbonded.
Import ListNotations.
Open Scope Z_scope.

Definition N (s : State) : Z := sup s BOND_DENOM - bal s ACC_BONDED BOND_DENOM - bal s ACC_NOTBONDED BOND_DENOM.
Definition NI (c : Z) (s : State) : Prop := ksorted (bank s) /\ ksorted (supply s) /\ N s = c.
Definition ni_proj (s : State) := (bank s, supply s).
Lemma NI_f c : forall s s', ni_proj s' = ni_proj s -> NI c s -> NI c s'.
Proof. unfold NI, N, ni_proj, bal, sup. intros s s' E H. inversion E as [[E1 E2]]. rewrite E1, E2. exact H. Qed.

Lemma ksorted_put_sup d x s : ksorted (supply s) -> ksorted (supply (put_sup d x s)).
Proof. intros H. unfold put_sup. destruct (x =? 0); cbn; [apply ksorted_kdel | apply ksorted_kset]; exact H. Qed.
Lemma sup_put_sup_same s d x : ksorted (supply s) -> sup (put_sup d x s) d = x.
Proof.
  intros H. unfold sup, put_sup. destruct (x =? 0) eqn:E; cbn [supply set_supply].
  - rewrite kget_kdel_same by exact H. apply Z.eqb_eq in E. lia.
  - rewrite kget_kset_same. reflexivity.
Qed.
Lemma sup_put_sup_other s d x d' : ksorted (supply s) -> d' <> d -> sup (put_sup d x s) d' = sup s d'.
Proof.
  intros H Hne. unfold sup, put_sup. destruct (x =? 0); cbn [supply set_supply];
    [rewrite kget_kdel_other | rewrite kget_kset_other]; auto; congruence.
Qed.

(* a write to an account that is not a pool, or in another denom *)
Definition pool (a : Z) : bool := (a =? ACC_BONDED) || (a =? ACC_NOTBONDED).
Lemma ni_put_bal_outside c a d x s : pool a = false \/ d <> BOND_DENOM -> NI c s -> NI c (put_bal a d x s).
Proof.
  intros Ha (Hb & Hs & Hn). split; [apply (ksorted_put_bal a d); exact Hb|]. split; [exact Hs|].
  unfold N in *. change (sup (put_bal a d x s) BOND_DENOM) with (sup s BOND_DENOM).
  rewrite !bal_put_bal_other; auto.
  - intros E. inversion E; subst. destruct Ha as [Ha|Ha]; [unfold pool in Ha; rewrite Z.eqb_refl, orb_true_r in Ha; discriminate | congruence].
  - intros E. inversion E; subst. destruct Ha as [Ha|Ha]; [unfold pool in Ha; rewrite Z.eqb_refl in Ha; discriminate | congruence].
Qed.
Lemma ni_bank_add_outside c a coins : pool a = false -> inv (NI c) (bank_add a coins).
Proof. intros Ha. unfold bank_add. apply inv_mfor. intros da. apply inv_modify. intros s Hs. apply ni_put_bal_outside; auto. Qed.
Lemma ni_bank_sub_outside c a coins : pool a = false -> inv (NI c) (bank_sub a coins).
Proof.
  intros Ha. unfold bank_sub. apply inv_mfor. intros da. apply inv_bind; [apply inv_gets|]. intros b.
  destruct (b <? snd da); [apply inv_fail|]. apply inv_modify. intros s Hs. apply ni_put_bal_outside; auto.
Qed.
Lemma ni_bank_send_outside c a b coins : pool a = false -> pool b = false -> inv (NI c) (bank_send a b coins).
Proof. intros Ha Hb. unfold bank_send. apply inv_bind; [apply ni_bank_sub_outside; exact Ha | intros _; apply ni_bank_add_outside; exact Hb]. Qed.

Ltac ni_leaf c :=
  first [ apply ni_bank_send_outside; reflexivity
        | apply ni_bank_add_outside; reflexivity
        | apply ni_bank_sub_outside; reflexivity ].
Ltac ni c :=
  repeat first
    [ lazymatch goal with
      | |- inv (NI c) (bank_send _ _ _) => apply ni_bank_send_outside; reflexivity
      | |- inv (NI c) (bank_add _ _) => apply ni_bank_add_outside; reflexivity
      | |- inv (NI c) (bank_sub _ _) => apply ni_bank_sub_outside; reflexivity
      | |- inv (NI c) (modify _) =>
        apply inv_modify; let s := fresh "s" in let Hs := fresh "Hs" in
        intros s Hs; apply (NI_f c s); [reflexivity | exact Hs]
      end
    | inv_step
    | lazymatch goal with |- inv _ ?m => let h := head_of m in unfold h end ].

Lemma ni_claim_validator_rewards c v vi : inv (NI c) (claim_validator_rewards v vi).
Proof. ni c. Qed.
Lemma ni_staking_validate_unbond c v amt : inv (NI c) (staking_validate_unbond v amt).
Proof. ni c. Qed.
Lemma ni_staking_unbond c v sh : inv (NI c) (staking_unbond v sh).
Proof. ni c. Qed.

Lemma pool_cases a : pool a = true -> a = ACC_BONDED \/ a = ACC_NOTBONDED.
Proof. unfold pool. intros H. apply orb_prop in H. destruct H as [H|H]; apply Z.eqb_eq in H; auto. Qed.
Lemma pools_differ : ACC_BONDED <> ACC_NOTBONDED.  Proof. unfold ACC_BONDED, ACC_NOTBONDED; lia. Qed.

(* a pool balance of the staking denom set to x *)
Lemma ni_put_bal_pool c a x s : pool a = true -> NI c s ->
  NI (c - (x - bal s a BOND_DENOM)) (put_bal a BOND_DENOM x s).
Proof.
  intros Ha (Hb & Hs & Hn). split; [apply (ksorted_put_bal a BOND_DENOM); exact Hb|]. split; [exact Hs|].
  unfold N in *. change (sup (put_bal a BOND_DENOM x s) BOND_DENOM) with (sup s BOND_DENOM).
  destruct (pool_cases a Ha) as [->| ->].
  - rewrite bal_put_bal_same by exact Hb. rewrite bal_put_bal_other; [lia | exact Hb|]. intros E; inversion E.
  - rewrite bal_put_bal_same by exact Hb. rewrite (bal_put_bal_other s ACC_NOTBONDED BOND_DENOM x ACC_BONDED BOND_DENOM); [lia | exact Hb|].
    intros E; inversion E.
Qed.
Lemma ni_put_sup c x s : NI c s -> NI (c + (x - sup s BOND_DENOM)) (put_sup BOND_DENOM x s).
Proof.
  intros (Hb & Hs & Hn). split; [exact Hb|]. split; [apply ksorted_put_sup; exact Hs|].
  unfold N in *. rewrite sup_put_sup_same by exact Hs. rewrite !bal_put_sup. lia.
Qed.

(* mint into custody *)
Lemma ni_mint c amt : hoare (NI c) (bank_mint ACC_ALLIANCE [(BOND_DENOM, amt)]) (fun _ => NI (c + amt)) (fun _ => True).
Proof.
  unfold bank_mint. cbn [mfor fst snd].
  eapply hoare_bind with (Q1 := fun _ => NI (c + amt)).
  { eapply hoare_bind with (Q1 := fun _ => NI (c + amt)); [|intros _; apply hoare_ret; auto].
    apply hoare_modify. intros s Hs. pose proof (ni_put_sup c (sup s BOND_DENOM + amt) s Hs) as H.
    replace (c + (sup s BOND_DENOM + amt - sup s BOND_DENOM)) with (c + amt) in H by lia. exact H. }
  intros _. apply inv_hoare_true. apply ni_bank_add_outside. reflexivity.
Qed.

(* x/staking Delegate: the coins go from custody into a pool *)
Lemma ni_staking_delegate c v sv amt :
  hoare (NI c) (staking_delegate v sv amt) (fun _ => NI (c - amt)) (fun _ => True).
Proof.
  unfold staking_delegate. destruct (_ && _); [apply hoare_fail; auto|].
  eapply hoare_bind with (Q1 := fun _ => NI c); [apply hoare_gets; auto|]. intros od.
  eapply hoare_bind with (Q1 := fun _ => NI c).
  { apply inv_hoare_true. destruct od; [ni c | apply inv_ret]. }
  intros _. unfold coin1. destruct (amt <? 0); [intros s _; exact I|]. unfold bind at 1, ret at 1.
  eapply hoare_bind with (Q1 := fun _ => NI (c - amt)).
  { unfold bank_send.
    eapply hoare_bind with (Q1 := fun _ => NI c); [apply inv_hoare_true; apply ni_bank_sub_outside; reflexivity|]. intros _.
    unfold bank_add. destruct (amt =? 0) eqn:E0; cbn [mfor].
    - apply hoare_ret. intros s H. apply Z.eqb_eq in E0. subst amt. replace (c - 0) with c by lia. exact H.
    - eapply hoare_bind with (Q1 := fun _ => NI (c - amt)); [|intros _; apply hoare_ret; auto].
      apply hoare_modify. intros s Hs. cbn [fst snd].
      set (p := if is_bonded sv then ACC_BONDED else ACC_NOTBONDED).
      assert (Hp : pool p = true) by (unfold p; destruct (is_bonded sv); reflexivity).
      pose proof (ni_put_bal_pool c p (bal s p BOND_DENOM + amt) s Hp Hs) as H.
      replace (c - (bal s p BOND_DENOM + amt - bal s p BOND_DENOM)) with (c - amt) in H by lia. exact H. }
  intros _. apply inv_hoare_true. ni (c - amt).
Qed.

(* burn out of the bonded pool what x/staking returned *)
Lemma ni_burn c tok : hoare (NI c) (cn <- coin1 BOND_DENOM tok ;; bank_burn ACC_BONDED cn) (fun _ => NI c) (fun _ => True).
Proof.
  unfold coin1. destruct (tok <? 0); [intros s _; exact I|]. unfold bind at 1, ret at 1.
  unfold bank_burn, bank_sub. destruct (tok =? 0) eqn:E0; cbn [mfor fst snd].
  - eapply hoare_bind with (Q1 := fun _ => NI c); [apply hoare_ret; auto|]. intros _. apply hoare_ret. auto.
  - eapply hoare_bind with (Q1 := fun _ => NI (c + tok)).
    { eapply hoare_bind with (Q1 := fun _ => NI (c + tok)); [|intros _; apply hoare_ret; auto].
      apply hoare_bind_gets_eq. intros s0 Hs0. destruct (_ <? tok); [apply hoare_fail; auto|].
      apply hoare_modify. intros s ->.
      pose proof (ni_put_bal_pool c ACC_BONDED (bal s0 ACC_BONDED BOND_DENOM - tok) s0 eq_refl Hs0) as H.
      replace (c - (bal s0 ACC_BONDED BOND_DENOM - tok - bal s0 ACC_BONDED BOND_DENOM)) with (c + tok) in H by lia. exact H. }
    intros _.
    eapply hoare_bind with (Q1 := fun _ => NI c); [|intros _; apply hoare_ret; auto].
    apply hoare_modify. intros s Hs. pose proof (ni_put_sup (c + tok) (sup s BOND_DENOM - tok) s Hs) as H.
    replace (c + tok + (sup s BOND_DENOM - tok - sup s BOND_DENOM)) with c in H by lia. exact H.
Qed.

Lemma ni_gav c v : inv (NI c) (get_alliance_validator v).
Proof. ni c. Qed.

Theorem rebalance_conserves_supply_outside_pools c als :
  hoare (NI c) (rebalance_bond_token_weights als) (fun _ => NI c) (fun _ => True).
Proof.
  unfold rebalance_bond_token_weights.
  eapply hoare_bind with (Q1 := fun _ => NI c); [apply hoare_gets; auto|]. intros s0. cbv zeta.
  eapply hoare_bind with (Q1 := fun _ => NI c); [apply hoare_gets; auto|]. intros t.
  eapply hoare_bind with (Q1 := fun _ => NI c).
  { apply inv_hoare_true. apply inv_mfold_swallow. intros acc kv. destruct (fst kv) as [|w [|? ?]]; try apply inv_ret.
    apply inv_bind; [apply ni_gav|]. intros [sv vi]. destruct (is_bonded sv); apply inv_ret. }
  intros [bonded unb].
  apply hoare_mfor. intros [[w sv] vi].
  eapply hoare_bind with (Q1 := fun _ => NI c); [apply hoare_gets; auto|]. intros od. cbv zeta.
  eapply hoare_bind with (Q1 := fun _ => NI c).
  { apply inv_hoare_true. apply inv_mfold. intros acc a. destruct (negb _); [apply inv_bind; [ni c | intros _; apply inv_ret]|].
    cbv zeta. destruct (_ && _); apply inv_ret. }
  intros expected.
  destruct (_ <? expected).
  - cbv zeta. destruct (_ =? 0); [apply hoare_ret; auto|].
    eapply hoare_bind; [apply ni_mint|]. intros ?; cbv beta.
    eapply hoare_bind with (Q1 := fun _ => NI (c + dtrunc (expected - match od with Some sh => sv_tokens_from_shares sv sh | None => 0 end))).
    { apply inv_hoare_true. apply ni_claim_validator_rewards. }
    intros _. eapply hoare_post; [| |apply ni_staking_delegate].
    + intros ? s H. cbv beta in H |- *.
      match type of H with NI ?x s => replace x with c in H by lia end. exact H.
    + intros s _. exact I.
  - destruct (expected <? _); [|apply hoare_ret; auto]. cbv zeta. destruct (_ =? 0); [apply hoare_ret; auto|].
    eapply hoare_bind with (Q1 := fun _ => NI c); [apply inv_hoare_true, ni_staking_validate_unbond|]. intros sh.
    eapply hoare_bind with (Q1 := fun _ => NI c); [apply inv_hoare_true, ni_claim_validator_rewards|]. intros _.
    eapply hoare_bind with (Q1 := fun _ => NI c); [apply inv_hoare_true, ni_staking_unbond|]. intros tok.
    apply ni_burn.
Qed.

(* C11: in every reachable state, when the rebalance returns, the staking-denom supply outside the two
   staking pools is what it was: minted tokens exist only inside the pools (as the module's stake) *)
Theorem minted_tokens_stay_in_the_pools h als s' : let s := run init_state h in
  rebalance_bond_token_weights als s = Ok tt s' -> N s' = N s.
Proof.
  intros s Hrun. pose proof (reachable_Sorted h) as (_&_&_&_&_&_&_&_&_&Hb&Hsu&_). fold s in Hb, Hsu.
  pose proof (rebalance_conserves_supply_outside_pools (N s) als s (conj Hb (conj Hsu eq_refl))) as H.
  rewrite Hrun in H. destruct H as (_ & _ & H). exact H.
Qed.

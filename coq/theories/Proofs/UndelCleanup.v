(* UndelCleanup.v — C02: when CompleteUnbondings returns, the per-validator index key of every
   entry of every matured bucket is gone (and, Queues.complete_unbondings_spec, exactly the matured
   buckets have left the queue): nothing of a paid-out unbonding is left behind. *)
From Coq Require Import ZArith List Bool Lia.
From Alliance Require Import Num KMap KMapFacts KMapSorted Types Monad Model Step Spec Hoare.
From Alliance.Proofs Require Import SortedInv Queues RedelCleanup.
Import ListNotations.
Open Scope Z_scope.

(* a key whose entry is filtered out of a sorted map is absent afterwards *)
Lemma kget_filter_none {V} (p : Key * V -> bool) (m : KMap V) k v :
  ksorted m -> In (k, v) m -> p (k, v) = false -> kget (filter p m) k = None.
Proof.
  induction m as [|[k' v'] m IH]; intros Hs Hin Hp; [destruct Hin|].
  apply ksorted_inv in Hs. destruct Hs as [Hs Hall]. cbn [filter]. destruct Hin as [E|Hin].
  - inversion E; subst k' v'. rewrite Hp. apply kget_below.
    clear - Hall. induction Hall as [|y m Hy _ IH]; cbn [filter]; [constructor|]. destruct (p y); [constructor; assumption | exact IH].
  - assert (Hlt : klt k' k) by (rewrite Forall_forall in Hall; exact (Hall _ Hin)).
    destruct (p (k', v')).
    + cbn [kget]. rewrite (kcmp_lt_gt _ _ Hlt). apply IH; assumption.
    + apply IH; assumption.
Qed.

Definition US (s : State) : Prop := ksorted (undelidx s).
Definition UGone (ki : Key) (s : State) : Prop := US s /\ kget (undelidx s) ki = None.
Lemma US_f : forall s s', undelidx s' = undelidx s -> US s -> US s'.
Proof. unfold US; intros s s' E H; rewrite E; exact H. Qed.
Lemma UGone_f ki : forall s s', undelidx s' = undelidx s -> UGone ki s -> UGone ki s'.
Proof. unfold UGone, US; intros s s' E H; rewrite E; exact H. Qed.

Definition pay (ct : Z) (e : Undel) : M unit :=
  c <- coin1 (u_denom e) (u_amount e) ;;
  bank_send ACC_ALLIANCE (u_del e) c ;;;
  modify (fun s => set_undelidx (kdel (undelidx s) [u_val e; ct; u_denom e; u_del e]) s).
Definition ukey (ct : Z) (e : Undel) : Key := [u_val e; ct; u_denom e; u_del e].

Lemma us_pay ct e : hoare US (pay ct e) (fun _ => US) (fun _ => True).
Proof.
  unfold pay. eapply hoare_bind with (Q1 := fun _ => US); [apply inv_hoare_true; inv_deep US_f|]. intros c.
  eapply hoare_bind with (Q1 := fun _ => US); [apply inv_hoare_true; inv_deep US_f|]. intros _.
  apply hoare_modify. intros s H. unfold US in *. cbn. apply ksorted_kdel; exact H.
Qed.
Lemma gone_pay ki ct e : hoare (UGone ki) (pay ct e) (fun _ => UGone ki) (fun _ => True).
Proof.
  unfold pay. eapply hoare_bind with (Q1 := fun _ => UGone ki); [apply inv_hoare_true; inv_deep (UGone_f ki)|]. intros c.
  eapply hoare_bind with (Q1 := fun _ => UGone ki); [apply inv_hoare_true; inv_deep (UGone_f ki)|]. intros _.
  apply hoare_modify. intros s [H1 H2]. split; [unfold US in *; cbn; apply ksorted_kdel; exact H1|].
  cbn. apply kget_kdel_none; assumption.
Qed.
Lemma hits_pay ct e : hoare US (pay ct e) (fun _ => UGone (ukey ct e)) (fun _ => True).
Proof.
  unfold pay. eapply hoare_bind with (Q1 := fun _ => US); [apply inv_hoare_true; inv_deep US_f|]. intros c.
  eapply hoare_bind with (Q1 := fun _ => US); [apply inv_hoare_true; inv_deep US_f|]. intros _.
  apply hoare_modify. intros s H. split; [unfold US in *; cbn; apply ksorted_kdel; exact H|].
  cbn. apply kget_kdel_same. exact H.
Qed.

Lemma gone_entries ki ct : forall l, hoare (UGone ki) (mfor l (pay ct)) (fun _ => UGone ki) (fun _ => True).
Proof. intros l. apply hoare_mfor. intros e. apply gone_pay. Qed.
Lemma us_entries ct : forall l, hoare US (mfor l (pay ct)) (fun _ => US) (fun _ => True).
Proof. intros l. apply hoare_mfor. intros e. apply us_pay. Qed.
Lemma hits_entries ct e0 : forall l, In e0 l -> hoare US (mfor l (pay ct)) (fun _ => UGone (ukey ct e0)) (fun _ => True).
Proof.
  induction l as [|e l IH]; intros Hin; [destruct Hin|]. cbn [mfor]. destruct Hin as [->|Hin].
  - eapply hoare_bind; [apply hits_pay|]. intros ?; cbv beta. apply gone_entries.
  - eapply hoare_bind; [apply us_pay|]. intros ?; cbv beta. apply IH; exact Hin.
Qed.

Lemma undel_body_unfold ct dl l :
  undel_body ([ct; dl], l) = (mfor l (pay ct) ;;; modify (fun s => set_undelq (kdel (undelq s) [ct; dl]) s)).
Proof. reflexivity. Qed.

Lemma us_body kv : hoare US (undel_body kv) (fun _ => US) (fun _ => True).
Proof.
  destruct kv as [k l]. destruct k as [|ct [|dl [|]]]; try (unfold undel_body; cbn [fst]; apply hoare_ret; auto).
  rewrite undel_body_unfold. eapply hoare_bind; [apply us_entries|]. intros ?; cbv beta. apply hoare_modify. intros s H; exact H.
Qed.
Lemma gone_body ki kv : hoare (UGone ki) (undel_body kv) (fun _ => UGone ki) (fun _ => True).
Proof.
  destruct kv as [k l]. destruct k as [|ct [|dl [|]]]; try (unfold undel_body; cbn [fst]; apply hoare_ret; auto).
  rewrite undel_body_unfold. eapply hoare_bind; [apply gone_entries|]. intros ?; cbv beta. apply hoare_modify. intros s H; exact H.
Qed.
Lemma hits_body ct dl l e0 : In e0 l -> hoare US (undel_body ([ct; dl], l)) (fun _ => UGone (ukey ct e0)) (fun _ => True).
Proof.
  intros Hin. rewrite undel_body_unfold. eapply hoare_bind; [apply hits_entries; exact Hin|]. intros ?; cbv beta.
  apply hoare_modify. intros s H; exact H.
Qed.
Lemma hits_loop ct dl l e0 : In e0 l -> forall q : KMap (list Undel), In (([ct; dl] : Key), l) q ->
  hoare US (mfor q undel_body) (fun _ => UGone (ukey ct e0)) (fun _ => True).
Proof.
  intros He. induction q as [|kv q IH]; intros Hin; [destruct Hin|]. cbn [mfor]. destruct Hin as [->|Hin].
  - eapply hoare_bind; [apply hits_body; exact He|]. intros ?; cbv beta. apply hoare_mfor. intros kv'. apply gone_body.
  - eapply hoare_bind; [apply us_body|]. intros ?; cbv beta. apply IH; exact Hin.
Qed.

(* C02: nothing of a paid-out unbonding entry is left in the per-validator index *)
Theorem matured_unbondings_are_cleaned_up h ct dl l e : let s := run init_state h in
  In ([ct; dl], l) (undelq s) -> ct < now s -> In e l ->
  match complete_unbondings s with
  | Ok _ s' => kget (undelidx s') [u_val e; ct; u_denom e; u_del e] = None /\ kget (undelq s') [ct; dl] = None
  | _ => True
  end.
Proof.
  intros s Hin Hct He.
  pose proof (reachable_Sorted h) as HS. fold s in HS.
  pose proof (complete_unbondings_spec s HS) as Hspec.
  rewrite complete_unbondings_unfold in *. unfold bind at 1, gets at 1 in Hspec. unfold bind at 1, gets at 1 in Hspec.
  unfold bind at 1, gets at 1. unfold bind at 1, gets at 1.
  set (q := kfilter (fun k => match k with [ct0; _] => ct0 <? now s | _ => false end) (undelq s)) in *.
  assert (Hq : In ([ct; dl], l) q).
  { unfold q, kfilter. apply filter_In. split; [exact Hin|]. cbn. apply Z.ltb_lt. exact Hct. }
  assert (Hs : US s) by (destruct HS as (?&?&?&?&?&?&?&?&?&?); assumption).
  unfold bind at 1 in Hspec. unfold bind at 1.
  pose proof (hits_loop ct dl l e He q Hq s Hs) as H.
  destruct (mfor q undel_body s) as [x s1|? ?|? ?]; try exact I.
  assert (Hsw : inv (UGone (ukey ct e)) sweep) by (unfold sweep; inv_deep (UGone_f (ukey ct e))).
  specialize (Hsw s1 H). destruct (sweep s1) as [y s2|? ?|? ?]; try exact I.
  split; [exact (proj2 Hsw)|].
  rewrite Hspec. destruct HS as (_&_&_&_&_&_&Huq&_).
  (* the bucket is matured, hence filtered out *)
  clear - Hin Hct Huq. set (Q := undelq s) in *. clearbody Q.
  apply (kget_filter_none _ Q [ct; dl] l Huq Hin). unfold undel_matured. cbn [fst].
  apply negb_false_iff. apply Z.ltb_lt. exact Hct.
Qed.

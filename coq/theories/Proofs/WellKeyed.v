(* WellKeyed.v — every asset is stored under its own denom, in every reachable
   state (unconditionally).  Used to read "the asset of denom d" off the map. *)
From Coq Require Import ZArith List Bool Lia.
From Alliance Require Import Num KMap KMapFacts Types Monad Model Step Spec Hoare.
Import ListNotations.
Open Scope Z_scope.

Definition WK (s : State) : Prop := kall (fun k a => k = [a_denom a]) (assets s).
Lemma WKf : forall s s', assets s' = assets s -> WK s -> WK s'.
Proof. unfold WK; intros s s' E H; rewrite E; exact H. Qed.

Ltac wk_leaf :=
  apply inv_modify; let s := fresh "s" in let Hs := fresh "Hs" in
  intros s Hs; unfold WK; cbn;
  first [ apply kall_kset; [exact Hs | reflexivity] | apply kall_kdel; exact Hs ].
Ltac wk := inv_deep_with WKf wk_leaf.

Lemma WK_end_blocker : inv WK end_blocker.             Proof. wk. Qed.
Lemma WK_msg_delegate a b c d : inv WK (msg_delegate a b c d).       Proof. wk. Qed.
Lemma WK_msg_undelegate a b c d : inv WK (msg_undelegate a b c d).   Proof. wk. Qed.
Lemma WK_msg_redelegate a b c d e : inv WK (msg_redelegate a b c d e). Proof. wk. Qed.
Lemma WK_msg_claim a b c : inv WK (msg_claim a b c).                 Proof. wk. Qed.
Lemma WK_msg_create m : inv WK (msg_create_alliance m).              Proof. wk. Qed.
Lemma WK_msg_update m : inv WK (msg_update_alliance m).              Proof. wk. Qed.
Lemma WK_msg_delete a b : inv WK (msg_delete_alliance a b).          Proof. wk. Qed.
Lemma WK_msg_params a b c d : inv WK (msg_update_params a b c d).    Proof. wk. Qed.
Lemma WK_hook_slash v f : inv WK (hook_slash v f).                   Proof. wk. Qed.

Lemma wrap_inv (J : State -> Prop) (Jo : forall s o, J s -> J (set_oracle o s)) (m : M unit) s :
  inv J m -> J s ->
  J (fst (clear_oracle (tx m s))) /\ J (fst (clear_oracle (hook m s))) /\ J (fst (clear_oracle (endblock m s))).
Proof.
  intros Hm Hs; specialize (Hm s Hs); unfold tx, hook, endblock, clear_oracle; destruct (m s); cbn; auto.
Qed.

Lemma WK_fold_put_bal bs s : WK s -> WK (fold_left (fun s b => put_bal (fst (fst b)) (snd (fst b)) (snd b) s) bs s).
Proof. revert s; induction bs as [|b bs IH]; intros s Hs; cbn; auto. Qed.
Lemma WK_fold_put_sup ss s : WK s -> WK (fold_left (fun s ds => put_sup (fst ds) (snd ds) s) ss s).
Proof. revert s; induction ss as [|b bs IH]; intros s Hs; cbn; auto. Qed.

Lemma step_WK s o : WK s -> WK (fst (step s o)).
Proof.
  intros Hs. assert (Jo : forall s o, WK s -> WK (set_oracle o s)) by (intros; assumption).
  destruct o; cbn [step]; try exact Hs.
  - apply (wrap_inv WK Jo); [apply WK_end_blocker | exact Hs].
  - apply (wrap_inv WK Jo); [apply WK_msg_delegate | exact Hs].
  - apply (wrap_inv WK Jo); [apply WK_msg_undelegate | exact Hs].
  - apply (wrap_inv WK Jo); [apply WK_msg_redelegate | exact Hs].
  - apply (wrap_inv WK Jo); [apply WK_msg_claim | exact Hs].
  - apply (wrap_inv WK Jo); [apply WK_msg_create | exact Hs].
  - apply (wrap_inv WK Jo); [apply WK_msg_update | exact Hs].
  - apply (wrap_inv WK Jo); [apply WK_msg_delete | exact Hs].
  - apply (wrap_inv WK Jo); [apply WK_msg_params | exact Hs].
  - apply (wrap_inv WK Jo); [apply WK_hook_slash | exact Hs].
  - cbn. apply WK_fold_put_sup, WK_fold_put_bal; exact Hs.
  - unfold WK; cbn. apply kall_kset; [exact Hs | reflexivity].
Qed.

Theorem run_WK h s : WK s -> WK (run s h).
Proof. revert s; induction h as [|o h IH]; intros s Hs; cbn; [exact Hs | apply IH, step_WK, Hs]. Qed.

Theorem well_keyed h d a : kget (assets (run init_state h)) [d] = Some a -> a_denom a = d.
Proof.
  intros Hg. pose proof (kall_kget _ _ _ _ (run_WK h init_state (kall_nil _)) Hg) as H. cbn in H.
  inversion H; reflexivity.
Qed.

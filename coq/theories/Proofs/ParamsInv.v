(* ParamsInv.v — C17: acceptance of a parameter value implies that end-of-block
   can run with it, for the take-rate claim interval: the handlers only store a
   positive interval, it stays positive in every reachable state, and the integer
   division in DeductAssetsWithTakeRate is then never by zero. *)
From Coq Require Import ZArith List Bool Lia.
From Alliance Require Import Num KMap KMapFacts Types Monad Model Step Spec Hoare.
From Alliance.Proofs Require Import WellKeyed.
Import ListNotations.
Open Scope Z_scope.

Definition PI (s : State) : Prop := 0 < p_interval (params s).
Lemma PIf : forall s s', params s' = params s -> PI s -> PI s'.
Proof. unfold PI; intros s s' E H; rewrite E; exact H. Qed.

Ltac pi_leaf :=
  apply inv_modify; let s := fresh "s" in let H := fresh "H" in
  intros s H; unfold PI in *; cbn; first [ exact H | lia ].
Ltac pi := inv_deep_with PIf pi_leaf.

Lemma PI_end_blocker : inv PI end_blocker.                               Proof. pi. Qed.
Lemma PI_msg_delegate a b c d : inv PI (msg_delegate a b c d).            Proof. pi. Qed.
Lemma PI_msg_undelegate a b c d : inv PI (msg_undelegate a b c d).        Proof. pi. Qed.
Lemma PI_msg_redelegate a b c d e : inv PI (msg_redelegate a b c d e).    Proof. pi. Qed.
Lemma PI_msg_claim a b c : inv PI (msg_claim a b c).                      Proof. pi. Qed.
Lemma PI_msg_create m : inv PI (msg_create_alliance m).                   Proof. pi. Qed.
Lemma PI_msg_update m : inv PI (msg_update_alliance m).                   Proof. pi. Qed.
Lemma PI_msg_delete a b : inv PI (msg_delete_alliance a b).               Proof. pi. Qed.
Lemma PI_hook_slash v f : inv PI (hook_slash v f).                        Proof. pi. Qed.
Lemma PI_msg_params au dl iv l : inv PI (msg_update_params au dl iv l).
Proof.
  unfold msg_update_params. destruct (dl <? 0); [apply inv_fail|].
  destruct (iv <=? 0) eqn:E; [apply inv_fail|]. destruct (negb (au =? AUTHORITY)); [apply inv_fail|].
  destruct (iv <? 0); [apply inv_fail|].
  apply inv_modify; intros s _; unfold PI; cbn. apply Z.leb_gt in E; exact E.
Qed.

(* an accepted UpdateParams stores a positive interval *)
Theorem accepted_interval_positive s au dl iv l :
  snd (step s (OUpdateParams au dl iv l)) = R_OK -> 0 < p_interval (params (fst (step s (OUpdateParams au dl iv l)))).
Proof.
  cbn [step]. unfold tx, clear_oracle, msg_update_params.
  destruct (dl <? 0); [cbn; discriminate|]. destruct (iv <=? 0) eqn:E; [cbn; discriminate|].
  destruct (negb (au =? AUTHORITY)); [cbn; discriminate|]. destruct (iv <? 0); [cbn; discriminate|].
  cbn. intros _. apply Z.leb_gt in E; exact E.
Qed.

(* environment: genesis parameters carry a positive interval (x/alliance/genesis.go ValidateGenesis) *)
Definition params_op_ok (o : Op) : Prop :=
  match o with EParams _ iv _ => 0 < iv | _ => True end.

Lemma PI_fold_put_bal bs s : PI s -> PI (fold_left (fun s b => put_bal (fst (fst b)) (snd (fst b)) (snd b) s) bs s).
Proof. revert s; induction bs as [|b bs IH]; intros s Hs; cbn; auto. Qed.
Lemma PI_fold_put_sup ss s : PI s -> PI (fold_left (fun s ds => put_sup (fst ds) (snd ds) s) ss s).
Proof. revert s; induction ss as [|b bs IH]; intros s Hs; cbn; auto. Qed.

Lemma step_PI s o : PI s -> params_op_ok o -> PI (fst (step s o)).
Proof.
  assert (Ho : forall s' o', PI s' -> PI (set_oracle o' s')) by (intros; assumption).
  intros Hs Hok; destruct o; cbn [step]; try exact Hs.
  - apply (wrap_inv PI Ho); [apply PI_end_blocker | exact Hs].
  - apply (wrap_inv PI Ho); [apply PI_msg_delegate | exact Hs].
  - apply (wrap_inv PI Ho); [apply PI_msg_undelegate | exact Hs].
  - apply (wrap_inv PI Ho); [apply PI_msg_redelegate | exact Hs].
  - apply (wrap_inv PI Ho); [apply PI_msg_claim | exact Hs].
  - apply (wrap_inv PI Ho); [apply PI_msg_create | exact Hs].
  - apply (wrap_inv PI Ho); [apply PI_msg_update | exact Hs].
  - apply (wrap_inv PI Ho); [apply PI_msg_delete | exact Hs].
  - apply (wrap_inv PI Ho); [apply PI_msg_params | exact Hs].
  - apply (wrap_inv PI Ho); [apply PI_hook_slash | exact Hs].
  - cbn. apply PI_fold_put_sup, PI_fold_put_bal; exact Hs.
  - unfold PI; cbn. exact Hok.
Qed.

Theorem run_interval_positive h s0 :
  0 < p_interval (params s0) -> Forall params_op_ok h -> 0 < p_interval (params (run s0 h)).
Proof.
  revert s0; induction h as [|o h IH]; intros s Hs Hh; cbn; [exact Hs|].
  inversion Hh; subst. apply IH; [apply step_PI; assumption | assumption].
Qed.

(* with a positive interval the take-rate leg never reaches its division by zero *)
Theorem deduct_no_interval_panic last als s :
  0 < p_interval (params s) -> res_code (deduct_take_rate last als s) <> P_DIV_ZERO_INTERVAL.
Proof.
  intros Hpi. unfold deduct_take_rate. unfold bind at 1, gets at 1.
  destruct (last =? ZERO_TIME); [cbn; discriminate|].
  unfold bind at 1, gets at 1.
  assert (E : p_interval (params s) =? 0 = false) by (apply Z.eqb_neq; lia). rewrite E.
  match goal with |- res_code (?m s) <> _ =>
    assert (H : raises (fun e => e <> P_DIV_ZERO_INTERVAL) m) by (raises_deep ltac:(discriminate));
    specialize (H s); destruct (m s) as [x s'|e s'|e s']; unfold res_code; [discriminate | exact H | exact H]
  end.
Qed.

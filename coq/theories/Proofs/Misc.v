(* Misc.v — smaller facts used by several property files. *)
From Coq Require Import ZArith List Bool Lia.
From Alliance Require Import Num KMap KMapFacts KMapSorted Types Monad Model Step Spec Hoare.
From Alliance.Proofs Require Import SortedInv.
Import ListNotations.
Open Scope Z_scope.

(* ---------- bank: exact effect of put_bal on bal ---------- *)
Lemma bal_put_bal_same s a d v : ksorted (bank s) -> bal (put_bal a d v s) a d = v.
Proof.
  intros Hs; unfold bal, put_bal; cbn. destruct (v =? 0) eqn:E.
  - rewrite kget_kdel_same by exact Hs. lia.
  - rewrite kget_kset_same. reflexivity.
Qed.
Lemma bal_put_bal_other s a d v a' d' : ksorted (bank s) -> (a', d') <> (a, d) ->
  bal (put_bal a d v s) a' d' = bal s a' d'.
Proof.
  intros Hs Hne; unfold bal, put_bal; cbn.
  assert ([a'; d'] <> [a; d]) by (intros E; inversion E; subst; congruence).
  destruct (v =? 0); [rewrite kget_kdel_other | rewrite kget_kset_other]; auto.
Qed.
Lemma bal_put_sup s d v a' d' : bal (put_sup d v s) a' d' = bal s a' d'.
Proof. reflexivity. Qed.

(* ---------- C11: the staking-denom supply is untouched by user operations and by the slash callback ---------- *)
Section Supply.
  Variable c : Z.
  Definition SupIs (s : State) : Prop := supply s = supply s /\ sup s BOND_DENOM = c.
  Definition JS (s : State) : Prop := sup s BOND_DENOM = c.
  Lemma JSf : forall s s', supply s' = supply s -> JS s -> JS s'.
  Proof. unfold JS, sup; intros s s' E H; rewrite E; exact H. Qed.
  Lemma sup_msg_delegate a b x d : inv JS (msg_delegate a b x d).       Proof. inv_deep JSf. Qed.
  Lemma sup_msg_undelegate a b x d : inv JS (msg_undelegate a b x d).   Proof. inv_deep JSf. Qed.
  Lemma sup_msg_redelegate a b x d e : inv JS (msg_redelegate a b x d e). Proof. inv_deep JSf. Qed.
  Lemma sup_msg_claim a b x : inv JS (msg_claim a b x).                 Proof. inv_deep JSf. Qed.
  Lemma sup_hook_slash v f : inv JS (hook_slash v f).                   Proof. inv_deep JSf. Qed.
  Lemma sup_msg_create m : inv JS (msg_create_alliance m).              Proof. inv_deep JSf. Qed.
  Lemma sup_msg_update m : inv JS (msg_update_alliance m).              Proof. inv_deep JSf. Qed.
  Lemma sup_msg_delete a b : inv JS (msg_delete_alliance a b).          Proof. inv_deep JSf. Qed.
  Lemma sup_msg_params a b x d : inv JS (msg_update_params a b x d).    Proof. inv_deep JSf. Qed.
End Supply.

Lemma sup_wrap c (m : M unit) s : inv (JS c) m -> JS c s ->
  JS c (fst (clear_oracle (tx m s))) /\ JS c (fst (clear_oracle (hook m s))).
Proof. intros Hm Hs; specialize (Hm s Hs); unfold tx, hook, clear_oracle; destruct (m s); cbn; auto. Qed.

Theorem bond_supply_untouched s o :
  match o with
  | ODelegate _ _ _ _ | OUndelegate _ _ _ _ | ORedelegate _ _ _ _ _ | OClaim _ _ _ | OHookSlash _ _
  | OCreateAlliance _ | OUpdateAlliance _ | ODeleteAlliance _ _ | OUpdateParams _ _ _ _ =>
    sup (fst (step s o)) BOND_DENOM = sup s BOND_DENOM
  | _ => True
  end.
Proof.
  destruct o; cbn [step]; try exact I.
  - apply (sup_wrap _ _ s (sup_msg_delegate _ _ _ _ _)); reflexivity.
  - apply (sup_wrap _ _ s (sup_msg_undelegate _ _ _ _ _)); reflexivity.
  - apply (sup_wrap _ _ s (sup_msg_redelegate _ _ _ _ _ _)); reflexivity.
  - apply (sup_wrap _ _ s (sup_msg_claim _ _ _ _)); reflexivity.
  - apply (sup_wrap _ _ s (sup_msg_create _ _)); reflexivity.
  - apply (sup_wrap _ _ s (sup_msg_update _ _)); reflexivity.
  - apply (sup_wrap _ _ s (sup_msg_delete _ _ _)); reflexivity.
  - apply (sup_wrap _ _ s (sup_msg_params _ _ _ _ _)); reflexivity.
  - apply (sup_wrap _ _ s (sup_hook_slash _ _ _)); reflexivity.
Qed.

(* ---------- C11: after CompleteUnbondings the custody account holds no staking-denom coins ---------- *)
Lemma S_complete_unbondings_loop : forall (q : KMap (list Undel)),
  inv SortedS (mfor q (fun kv =>
    match fst kv with
    | [ct; _] =>
      mfor (snd kv) (fun u =>
        c <- coin1 (u_denom u) (u_amount u) ;;
        bank_send ACC_ALLIANCE (u_del u) c ;;;
        modify (fun s => set_undelidx (kdel (undelidx s) [u_val u; ct; u_denom u; u_del u]) s)) ;;;
      modify (fun s => set_undelq (kdel (undelq s) (fst kv)) s)
    | _ => ret tt
    end)).
Proof. intros q. srt. Qed.

Theorem complete_unbondings_burns_bond_balance :
  hoare SortedS complete_unbondings (fun _ s => bal s ACC_ALLIANCE BOND_DENOM = 0) (fun _ => True).
Proof.
  unfold complete_unbondings.
  eapply hoare_bind with (Q1 := fun _ => SortedS); [apply hoare_gets; auto|]. intros t.
  eapply hoare_bind with (Q1 := fun _ => SortedS); [apply hoare_gets; auto|]. intros q.
  eapply hoare_bind with (Q1 := fun _ => SortedS).
  { apply inv_hoare_true. apply S_complete_unbondings_loop. }
  intros _. intros s Hs. unfold bind at 1, gets at 1.
  destruct (bal s ACC_ALLIANCE BOND_DENOM =? 0) eqn:E; [cbn; lia|].
  unfold bank_burn, bank_sub. cbn [mfor]. unfold bind at 1. unfold bind at 1. unfold bind at 1, gets at 1.
  rewrite Z.ltb_irrefl. cbn [modify ret bind].
  rewrite Z.sub_diag.
  apply bal_put_bal_same. destruct Hs as (?&?&?&?&?&?&?&?&?&?&?&?&?). assumption.
Qed.

(* ---------- C08: a validator without alliance stake and without pending entries ---------- *)
Local Arguments kfilter : simpl never.
Local Arguments kprefix : simpl never.
Theorem slash_without_alliance_stake s v f sv :
  0 < f -> f <= ONE -> kget (svals s) [v] = Some sv ->
  match kget (valinfos s) [v] with Some vi => vi_vshares vi = [] | None => True end ->
  kfilter (kprefix [v]) (redelidx s) = [] -> kfilter (kprefix [v]) (undelidx s) = [] ->
  exists s', hook_slash v f s = Ok tt s' /\ flag s' = true.
Proof.
  intros Hf1 Hf2 Hsv Hvi Hr Hu. unfold hook_slash, slash_validator.
  assert (E : (f <=? 0) || (ONE <? f) = false) by (apply orb_false_intro; [apply Z.leb_gt | apply Z.ltb_ge]; lia).
  rewrite E. unfold get_alliance_validator.
  unfold bind, gets. rewrite Hsv.
  destruct (kget (valinfos s) [v]) as [vi|] eqn:Ev.
  - cbn [ret]. rewrite Hvi. cbn [mfold ret set_valinfo modify].
    unfold slash_redelegations, slash_undelegations, bind, gets. cbn [redelidx undelidx set_valinfos set_vi_vshares now].
    rewrite Hr. cbn. rewrite Hu. cbn.
    eexists; split; reflexivity.
  - cbn [set_valinfo modify ret empty_valinfo vi_vshares mfold].
    unfold slash_redelegations, slash_undelegations, bind, gets. cbn [redelidx undelidx set_valinfos set_vi_vshares now].
    rewrite Hr. cbn. rewrite Hu. cbn.
    eexists; split; reflexivity.
Qed.

(* Totality.v — C17: the legs of end-of-block processing that can never fail. *)
From Coq Require Import ZArith List Bool Lia.
From Alliance Require Import Num KMap KMapFacts Types Monad Model Step Spec Hoare.
Import ListNotations.
Open Scope Z_scope.

Theorem complete_redelegations_total : nofail complete_redelegations.
Proof. nofail_deep. Qed.
Theorem initialize_assets_total als : nofail (initialize_assets als).
Proof. nofail_deep. Qed.

(* the take-rate leg cannot hit its integer division when the interval is positive,
   and is not entered before the clock is due *)
Theorem deduct_hook_total_when_not_due als s : now s <= p_last (params s) + p_interval (params s) ->
  exists s', deduct_assets_hook als s = Ok als s'.
Proof.
  intros H. unfold deduct_assets_hook, bind, gets.
  assert (E : p_last (params s) + p_interval (params s) <? now s = false) by (apply Z.ltb_ge; lia).
  rewrite E. eexists; reflexivity.
Qed.

(* the decay leg is skipped (hence total) for assets without a schedule *)
Theorem weight_hook_total_without_schedule als s :
  Forall (fun a => a_interval a = 0 \/ a_rate a = ONE) als ->
  exists r s', reward_weight_change_hook als s = Ok r s'.
Proof.
  intros H. unfold reward_weight_change_hook, bind at 1, gets at 1.
  generalize (@nil Asset) at 1. induction H as [|a als Ha Hals IH]; intros acc; cbn [mfold]; [eexists; eexists; reflexivity|].
  unfold bind at 1.
  assert (E : (a_interval a =? 0) || (a_rate a =? ONE) = true).
  { destruct Ha as [Ha|Ha]; rewrite Ha; [reflexivity | rewrite (Z.eqb_refl ONE); apply orb_true_r]. }
  rewrite E. cbn [ret]. apply IH.
Qed.

(* SortedInv.v — every map of every reachable state is sorted by key (strictly:
   no duplicate keys).  Unconditional; needed by every argument about lookups
   after updates and about sums over a map. *)
From Coq Require Import ZArith List Bool Lia.
From Alliance Require Import Num KMap KMapFacts KMapSorted Types Monad Model Step Spec Hoare.
Import ListNotations.
Open Scope Z_scope.

Definition SortedS (s : State) : Prop :=
  ksorted (assets s) /\ ksorted (valinfos s) /\ ksorted (snapshots s) /\ ksorted (delegations s) /\
  ksorted (redels s) /\ ksorted (redelq s) /\ ksorted (undelq s) /\ ksorted (redelidx s) /\
  ksorted (undelidx s) /\ ksorted (bank s) /\ ksorted (supply s) /\ ksorted (svals s) /\ ksorted (sdels s).

Definition maps_of (s : State) :=
  (assets s, valinfos s, snapshots s, delegations s, redels s, redelq s, undelq s, redelidx s, undelidx s,
   bank s, supply s, svals s, sdels s).
Lemma Sf : forall s s', maps_of s' = maps_of s -> SortedS s -> SortedS s'.
Proof. unfold maps_of, SortedS; intros s s' E H. inversion E as [E']. repeat match goal with H : _ = _ |- _ => rewrite H; clear H end. exact H. Qed.

Ltac srt_solve :=
  repeat match goal with
         | |- context[if ?b then _ else _] => destruct b
         end;
  repeat split; auto using ksorted_kset, ksorted_kdel.
Ltac srt_leaf :=
  apply inv_modify; let s := fresh "s" in let Hs := fresh "Hs" in
  intros s Hs; unfold SortedS in *; unfold put_bal, put_sup; cbn;
  destruct Hs as (?&?&?&?&?&?&?&?&?&?&?&?&?); srt_solve.
Ltac srt := inv_deep_with Sf srt_leaf.

Lemma S_end_blocker : inv SortedS end_blocker.             Proof. srt. Qed.
Lemma S_msg_delegate a b c d : inv SortedS (msg_delegate a b c d).       Proof. srt. Qed.
Lemma S_msg_undelegate a b c d : inv SortedS (msg_undelegate a b c d).   Proof. srt. Qed.
Lemma S_msg_redelegate a b c d e : inv SortedS (msg_redelegate a b c d e). Proof. srt. Qed.
Lemma S_msg_claim a b c : inv SortedS (msg_claim a b c).                 Proof. srt. Qed.
Lemma S_msg_create m : inv SortedS (msg_create_alliance m).              Proof. srt. Qed.
Lemma S_msg_update m : inv SortedS (msg_update_alliance m).              Proof. srt. Qed.
Lemma S_msg_delete a b : inv SortedS (msg_delete_alliance a b).          Proof. srt. Qed.
Lemma S_msg_params a b c d : inv SortedS (msg_update_params a b c d).    Proof. srt. Qed.
Lemma S_hook_slash v f : inv SortedS (hook_slash v f).                   Proof. srt. Qed.

Lemma ksorted_kmap_of {V} (l : list (Key * V)) : ksorted (kmap_of l).
Proof.
  unfold kmap_of. assert (H : forall acc, ksorted acc -> ksorted (fold_left (fun m kv => kset m (fst kv) (snd kv)) l acc)).
  { induction l as [|x l IH]; intros acc Ha; cbn; [exact Ha|]. apply IH, ksorted_kset, Ha. }
  apply H; constructor.
Qed.

Lemma S_put_bal a d v s : SortedS s -> SortedS (put_bal a d v s).
Proof. unfold SortedS, put_bal; cbn; intros (?&?&?&?&?&?&?&?&?&?&?&?&?); srt_solve. Qed.
Lemma S_put_sup d v s : SortedS s -> SortedS (put_sup d v s).
Proof. unfold SortedS, put_sup; cbn; intros (?&?&?&?&?&?&?&?&?&?&?&?&?); srt_solve. Qed.
Lemma S_fold_put_bal bs s : SortedS s -> SortedS (fold_left (fun s b => put_bal (fst (fst b)) (snd (fst b)) (snd b) s) bs s).
Proof. revert s; induction bs as [|b bs IH]; intros s Hs; cbn; auto using S_put_bal. Qed.
Lemma S_fold_put_sup ss s : SortedS s -> SortedS (fold_left (fun s ds => put_sup (fst ds) (snd ds) s) ss s).
Proof. revert s; induction ss as [|b bs IH]; intros s Hs; cbn; auto using S_put_sup. Qed.

Lemma S_wrap (m : M unit) s : inv SortedS m -> SortedS s ->
  SortedS (fst (clear_oracle (tx m s))) /\ SortedS (fst (clear_oracle (hook m s))) /\ SortedS (fst (clear_oracle (endblock m s))).
Proof. intros Hm Hs; specialize (Hm s Hs); unfold tx, hook, endblock, clear_oracle; destruct (m s); cbn; auto. Qed.

Lemma step_Sorted s o : SortedS s -> SortedS (fst (step s o)).
Proof.
  intros Hs; destruct o; cbn [step]; try exact Hs.
  - apply S_wrap; [apply S_end_blocker | exact Hs].
  - apply S_wrap; [apply S_msg_delegate | exact Hs].
  - apply S_wrap; [apply S_msg_undelegate | exact Hs].
  - apply S_wrap; [apply S_msg_redelegate | exact Hs].
  - apply S_wrap; [apply S_msg_claim | exact Hs].
  - apply S_wrap; [apply S_msg_create | exact Hs].
  - apply S_wrap; [apply S_msg_update | exact Hs].
  - apply S_wrap; [apply S_msg_delete | exact Hs].
  - apply S_wrap; [apply S_msg_params | exact Hs].
  - apply S_wrap; [apply S_hook_slash | exact Hs].
  - unfold SortedS in *; cbn; destruct Hs as (?&?&?&?&?&?&?&?&?&?&?&?&?); repeat split; auto using ksorted_kmap_of.
  - cbn. apply S_fold_put_sup, S_fold_put_bal; exact Hs.
  - unfold SortedS in *; cbn; destruct Hs as (?&?&?&?&?&?&?&?&?&?&?&?&?); repeat split; auto using ksorted_kdel.
  - unfold SortedS in *; cbn; destruct Hs as (?&?&?&?&?&?&?&?&?&?&?&?&?); repeat split; auto using ksorted_kset.
Qed.

Lemma Sorted_init : SortedS init_state.
Proof. unfold SortedS; cbn; repeat split; constructor. Qed.

Theorem run_Sorted h s : SortedS s -> SortedS (run s h).
Proof. revert s; induction h as [|o h IH]; intros s Hs; cbn; [exact Hs | apply IH, step_Sorted, Hs]. Qed.
Theorem reachable_Sorted h : SortedS (run init_state h).
Proof. apply run_Sorted, Sorted_init. Qed.

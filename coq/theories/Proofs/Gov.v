(* Gov.v — C16: the authority gate, absence of writes before rejection, the
   frame of an update, the guards of delete and create. *)
From Coq Require Import ZArith List Bool Lia.
From Alliance Require Import Num KMap KMapFacts Types Monad Model Step Spec Hoare.
Import ListNotations.
Open Scope Z_scope.

(* outcome of a raw handler that has not written anything: it failed and the
   state at the failure point is the state it started from *)
Definition untouched_failure {A} (r : Res A) (s : State) : Prop :=
  match r with Ok _ _ => False | Err _ s' => s' = s | Panic _ s' => s' = s end.

Ltac chain :=
  repeat (cbn [bind fail panic ret gets get_asset untouched_failure];
          lazymatch goal with
          | |- untouched_failure (if ?b then _ else _) _ => destruct b eqn:?
          | |- untouched_failure (match ?x with _ => _ end) _ => destruct x eqn:?
          | |- untouched_failure ((if ?b then _ else _) _) _ => destruct b eqn:?
          | |- untouched_failure ((match ?x with _ => _ end) _) _ => destruct x eqn:?
          | |- _ = _ => reflexivity
          end).

Lemma raw_gate_create m s : m_auth m <> AUTHORITY -> untouched_failure (msg_create_alliance m s) s.
Proof.
  intros Hau. assert (Hb : negb (m_auth m =? AUTHORITY) = true) by (apply negb_true_iff, Z.eqb_neq; exact Hau).
  unfold msg_create_alliance. rewrite Hb. chain.
Qed.

Lemma raw_gate_update m s : m_auth m <> AUTHORITY -> untouched_failure (msg_update_alliance m s) s.
Proof.
  intros Hau. assert (Hb : negb (m_auth m =? AUTHORITY) = true) by (apply negb_true_iff, Z.eqb_neq; exact Hau).
  unfold msg_update_alliance. rewrite Hb. chain.
Qed.

Lemma raw_gate_delete au d s : au <> AUTHORITY -> untouched_failure (msg_delete_alliance au d s) s.
Proof.
  intros Hau. assert (Hb : negb (au =? AUTHORITY) = true) by (apply negb_true_iff, Z.eqb_neq; exact Hau).
  unfold msg_delete_alliance. rewrite Hb. chain.
Qed.

Lemma raw_gate_params au a b c s : au <> AUTHORITY -> untouched_failure (msg_update_params au a b c s) s.
Proof.
  intros Hau. assert (Hb : negb (au =? AUTHORITY) = true) by (apply negb_true_iff, Z.eqb_neq; exact Hau).
  unfold msg_update_params. rewrite Hb. chain.
Qed.

Lemma tx_class_of_failure (m : M unit) s : untouched_failure (m s) s -> snd (clear_oracle (tx m s)) <> R_OK.
Proof.
  unfold tx, untouched_failure, clear_oracle; destruct (m s); cbn; intros H; try contradiction; discriminate.
Qed.

Theorem gov_gate s o au : gov_signer o = Some au -> au <> AUTHORITY -> snd (step s o) <> R_OK.
Proof.
  destruct o; cbn [gov_signer]; try discriminate; intros E Hau; inversion E; subst; cbn [step];
    apply tx_class_of_failure.
  - apply raw_gate_create; exact Hau.
  - apply raw_gate_update; exact Hau.
  - apply raw_gate_delete; exact Hau.
  - apply raw_gate_params; exact Hau.
Qed.

(* what baseapp's cached store gives: whatever the handler did, a non-OK result
   leaves the state as it was (only the recorded oracle is dropped) *)
Lemma tx_reject (m : M unit) s : snd (clear_oracle (tx m s)) <> R_OK ->
  snd (tx m s) <> R_OK -> fst (clear_oracle (tx m s)) = set_oracle [] s.
Proof. unfold tx, clear_oracle; destruct (m s); cbn; intros; try reflexivity. congruence. Qed.

(* a governance handler never consumes recorded withdrawals it was not given: a
   result class other than OK with the handler itself succeeding can only be the
   driver's bookkeeping class 3 (unused oracle entries); excluded by [oracle s = []]
   for create/delete/params, which never withdraw *)
Theorem gov_reject_no_write s o au : gov_signer o = Some au -> snd (step s o) <> R_OK ->
  snd (match o with
       | OCreateAlliance m => tx (msg_create_alliance m) s
       | OUpdateAlliance m => tx (msg_update_alliance m) s
       | ODeleteAlliance a d => tx (msg_delete_alliance a d) s
       | OUpdateParams a x y z => tx (msg_update_params a x y z) s
       | _ => (s, R_ERR) end) <> R_OK ->
  fst (step s o) = set_oracle [] s.
Proof.
  destruct o; cbn [gov_signer]; try discriminate; intros _; cbn [step]; apply tx_reject.
Qed.

(* --- UpdateAllianceAsset only copies the white-listed fields --- *)
Definition same_core (a b : Asset) : Prop :=
  a_tokens b = a_tokens a /\ a_vshares b = a_vshares a /\ a_denom b = a_denom a /\ a_start b = a_start a.

(* invariant used for the frame: the asset stored under denom d keeps its core *)
Definition CoreIs (d : Z) (a : Asset) (s : State) : Prop :=
  exists b, kget (assets s) [d] = Some b /\ same_core a b.

Section UpdateFrame.
  Variable A0 : KMap Asset.
  Definition JA (s : State) : Prop := assets s = A0.
  Lemma JAf : forall s s', assets s' = assets s -> JA s -> JA s'.
  Proof. unfold JA; intros; congruence. Qed.

  Lemma update_alliance_asset_frame na a :
    kget A0 [a_denom na] = Some a ->
    hoare JA (update_alliance_asset na)
          (fun _ s' => exists b, kget (assets s') [a_denom a] = Some b /\ same_core a b) (fun _ => True).
  Proof.
    intros Hget. unfold update_alliance_asset, get_asset.
    intros s Hs. unfold bind at 1, gets at 1. rewrite Hs, Hget.
    destruct ((a_weight na <? a_wmin na) || (a_wmax na <? a_weight na)); [exact I|].
    revert s Hs. change (hoare JA
      ((if negb (a_weight na =? a_weight a)
        then (infos <- gets valinfos ;;
              mfor_swallow infos (fun kv => match fst kv with
                | [v] => '(_, vi) <- get_alliance_validator v ;;
                         vi1 <- claim_validator_rewards v vi ;;
                         h <- gets height ;;
                         modify (fun s => set_snapshots (kset (snapshots s) [a_denom a; v; h]
                                   (mkSnapshot (a_weight a) (rh_by_alliance (vi_hist vi1) (a_denom a)))) s)
                | _ => ret tt end)) ;;; queue_rebalance
        else ret tt) ;;;
       t <- gets now ;;
       set_asset (set_a_wmax (a_wmax na) (set_a_wmin (a_wmin na) (set_a_last
         (if (negb (a_rate na =? a_rate a) || negb (a_interval na =? a_interval a)) && ((a_rate a =? ONE) || (a_interval a =? 0))
          then t else a_last na)
         (set_a_interval (a_interval na) (set_a_rate (a_rate na) (set_a_weight (a_weight na) (set_a_take (a_take na) a))))))))
      (fun _ s' => exists b, kget (assets s') [a_denom a] = Some b /\ same_core a b) (fun _ => True)).
    eapply hoare_bind with (Q1 := fun _ => JA).
    - apply inv_hoare_true. inv_deep JAf.
    - intros _. eapply hoare_bind with (Q1 := fun _ => JA); [apply hoare_gets; auto|].
      intros t. unfold set_asset. apply hoare_modify. intros s Hs. cbn.
      eexists; split; [apply kget_kset_same|]. unfold same_core; cbn; auto.
  Qed.
End UpdateFrame.

Lemma msg_update_alliance_frame m s a :
  kget (assets s) [m_denom m] = Some a -> a_denom a = m_denom m ->
  match msg_update_alliance m s with
  | Ok _ s' => exists b, kget (assets s') [a_denom a] = Some b /\ same_core a b
  | _ => True
  end.
Proof.
  intros Hget Hd. unfold msg_update_alliance.
  Ltac brk := repeat (lazymatch goal with
         | |- match (if ?b then _ else _) _ with _ => _ end => destruct b
         | |- match (match ?x with _ => _ end) _ with _ => _ end => destruct x
         end; cbn [fail panic]; try exact I).
  brk.
  unfold get_asset, bind at 1, gets at 1. rewrite Hget.
  brk.
  match goal with |- match update_alliance_asset ?na s with _ => _ end =>
    pose proof (update_alliance_asset_frame (assets s) na a) as H end.
  cbn in H. rewrite Hd in H. specialize (H Hget s eq_refl).
  destruct (update_alliance_asset _ s); auto. rewrite Hd; exact H.
Qed.

Lemma step_tx_ok (m : M unit) s : snd (clear_oracle (tx m s)) = R_OK ->
  exists s', m s = Ok tt s' /\ fst (clear_oracle (tx m s)) = set_oracle [] s'.
Proof.
  unfold tx, clear_oracle; destruct (m s) as [[] s'|e s'|e s']; cbn; try discriminate.
  intros _; eexists; split; reflexivity.
Qed.

Theorem gov_update_frame s m a : snd (step s (OUpdateAlliance m)) = R_OK ->
  kget (assets s) [m_denom m] = Some a -> a_denom a = m_denom m ->
  exists b, kget (assets (fst (step s (OUpdateAlliance m)))) [m_denom m] = Some b /\ same_core a b.
Proof.
  cbn [step]; intros Hok Hget Hd. destruct (step_tx_ok _ _ Hok) as (s' & Hm & Hs').
  rewrite Hs'. pose proof (msg_update_alliance_frame m s a Hget Hd) as H. rewrite Hm in H. rewrite <- Hd. exact H.
Qed.

Theorem gov_delete_guard s au d : snd (step s (ODeleteAlliance au d)) = R_OK ->
  exists a, kget (assets s) [d] = Some a /\ a_tokens a <= 0.
Proof.
  cbn [step]; intros Hok. destruct (step_tx_ok _ _ Hok) as (s' & Hm & _).
  unfold msg_delete_alliance in Hm.
  destruct (d <? 0); [discriminate|]. destruct (negb (au =? AUTHORITY)); [discriminate|].
  unfold get_asset, bind, gets in Hm. destruct (kget (assets s) [d]) as [a|]; [|discriminate].
  destruct (0 <? a_tokens a) eqn:E; [discriminate|]. exists a; split; [reflexivity|lia].
Qed.

Theorem gov_create_unique s m : snd (step s (OCreateAlliance m)) = R_OK -> kget (assets s) [m_denom m] = None.
Proof.
  cbn [step]; intros Hok. destruct (step_tx_ok _ _ Hok) as (s' & Hm & _).
  unfold msg_create_alliance in Hm.
  repeat lazymatch type of Hm with
         | (if ?b then _ else _) _ = _ => destruct b; try discriminate
         | (match ?x with _ => _ end) _ = _ => destruct x; try discriminate
         end.
  unfold get_asset, bind at 1, gets at 1 in Hm.
  destruct (kget (assets s) [m_denom m]); [discriminate | reflexivity].
Qed.
